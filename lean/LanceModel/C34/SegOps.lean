import LanceModel.C34.SegLemmas
/-!
Well-formed segments and the segment operations (`len`, `get`, `position`, `slice`, `delete`, `mask`, `with_new_high`).
-/
namespace LanceModel.C34

/-- the representation invariant of `U64Segment` (what `from_stats_and_sequence` / `with_new_high` maintain and the
    wire format documents): ranges are forward (non-empty for the holes / bitmap encodings), holes are sorted, distinct and inside the range, the bitmap has one bit
    per slot, a sorted array is strictly increasing, arrays are non-empty -/
def Seg.WF : Seg → Prop
  | .range s e => s ≤ e
  | .holes s e hs => s < e ∧ hs.Pairwise (· < ·) ∧ ∀ h ∈ hs, s ≤ h ∧ h < e
  | .bitmap s e bits => s < e ∧ bits.length = e - s
  | .sorted a => a.Pairwise (· < ·) ∧ a ≠ []
  | .array a => a ≠ []

theorem length_filter_add (p : Nat → Bool) (l : List Nat) :
    (l.filter p).length + (l.filter (fun x => !p x)).length = l.length := by
  induction l with
  | nil => rfl
  | cons a t ih =>
    by_cases h : p a = true
    · simp [h]; omega
    · have h' : p a = false := by simpa using h
      simp [h']; omega

/-- kept slots of a bitmap segment, by recursion on the bits -/
theorem bitmap_filter_cons (s : Nat) (b : Bool) (bs : List Bool) (n : Nat) :
    (List.range' s (n + 1)).filter (fun v => bitAt (b :: bs) (v - s)) =
      (if b then [s] else []) ++ (List.range' (s + 1) n).filter (fun v => bitAt bs (v - (s + 1))) := by
  rw [List.range'_succ, List.filter_cons]
  have h0 : bitAt (b :: bs) (s - s) = b := by simp [bitAt]
  have hrest : (List.range' (s + 1) n).filter (fun v => bitAt (b :: bs) (v - s)) =
      (List.range' (s + 1) n).filter (fun v => bitAt bs (v - (s + 1))) := by
    apply List.filter_congr
    intro v hv
    rw [List.mem_range'_1] at hv
    have : v - s = (v - (s + 1)) + 1 := by omega
    rw [this]
    simp [bitAt]
  rw [h0, hrest]
  cases b <;> simp

theorem bitmap_filter_length (bits : List Bool) : ∀ s : Nat,
    ((List.range' s bits.length).filter (fun v => bitAt bits (v - s))).length = bits.count true := by
  induction bits with
  | nil => intro s; simp
  | cons b bs ih =>
    intro s
    rw [List.length_cons, bitmap_filter_cons, List.length_append, ih (s + 1)]
    cases b <;> simp <;> omega

theorem holes_filter_eq (s e : Nat) (hs : List Nat) (hp : hs.Pairwise (· < ·)) (hb : ∀ h ∈ hs, s ≤ h ∧ h < e) :
    (rangeList s e).filter (fun v => hs.contains v) = hs := by
  unfold rangeList
  apply filter_range_mem _ _ _ hp
  intro x hx
  have := hb x hx
  omega

/-- `U64Segment::len` agrees with the number of ids `iter()` yields -/
theorem Seg.len_eq (s : Seg) (h : s.WF) : s.len = s.toList.length := by
  cases s with
  | range a b => simp [Seg.len, Seg.toList, rangeList]
  | holes a b hs =>
    obtain ⟨_, hp, hb⟩ := h
    simp only [Seg.len, Seg.toList]
    have h1 := length_filter_add (fun v => hs.contains v) (rangeList a b)
    rw [holes_filter_eq a b hs hp hb] at h1
    have h2 : (rangeList a b).length = b - a := by simp [rangeList]
    omega
  | bitmap a b bits =>
    obtain ⟨_, hl⟩ := h
    simp only [Seg.len, Seg.toList, rangeList]
    rw [← hl, bitmap_filter_length]
    have := List.count_le_length (a := true) (l := bits)
    omega
  | sorted a => rfl
  | array a => rfl

/-- `U64Segment::get` is indexing into what `iter()` yields -/
theorem Seg.get_eq (s : Seg) (h : s.WF) (i : Nat) : s.get i = s.toList[i]? := by
  cases s with
  | range a b =>
    simp only [Seg.get, Seg.toList, rangeList]
    by_cases hi : a + i < b
    · rw [if_pos hi, List.getElem?_range' (by omega)]; simp
    · rw [if_neg hi, List.getElem?_eq_none (by simp; omega)]
  | holes a b hs =>
    simp only [Seg.get]
    split
    · rename_i hle
      have : (Seg.holes a b hs).toList.length ≤ i := by
        have := List.length_filter_le (fun v => !hs.contains v) (rangeList a b)
        simp only [Seg.toList]
        have h2 : (rangeList a b).length = b - a := by simp [rangeList]
        omega
      rw [List.getElem?_eq_none this]
    · rfl
  | bitmap a b bits =>
    simp only [Seg.get]
    split
    · rename_i hle
      have : (Seg.bitmap a b bits).toList.length ≤ i := by
        have := List.length_filter_le (fun v => bitAt bits (v - a)) (rangeList a b)
        simp only [Seg.toList]
        have h2 : (rangeList a b).length = b - a := by simp [rangeList]
        omega
      rw [List.getElem?_eq_none this]
    · rfl
  | sorted a => rfl
  | array a => rfl

/-- what `iter()` yields for the range-based encodings is strictly increasing -/
theorem Seg.toList_pairwise (s : Seg) (h : s.WF) (hk : s.sortedKind = true) : s.toList.Pairwise (· < ·) := by
  cases s with
  | range a b => exact rangeList_pairwise a b
  | holes a b hs => exact (rangeList_pairwise a b).filter _
  | bitmap a b bits => exact (rangeList_pairwise a b).filter _
  | sorted a => exact h.1
  | array a => simp [Seg.sortedKind] at hk


/-! ### `from_stats_and_sequence` builds well-formed segments -/

theorem fromStats_WF (st : Stats) (xs : List Nat) (h : GoodStats st xs) (hu : st.sorted = false → xs ≠ []) :
    (fromStats st xs).WF := by
  unfold fromStats
  by_cases hs : st.sorted = true
  · obtain ⟨hp, hc, hb⟩ := h hs
    simp only [hs, if_true]
    by_cases h0 : st.count = 0
    · simp [h0, Seg.WF]
    · simp only [h0, if_false]
      have hne : xs ≠ [] := by intro e; subst e; simp at hc; exact h0 hc
      obtain ⟨x0, hx0⟩ := List.exists_mem_of_ne_nil xs hne
      have hmm : st.min ≤ st.max := by have := hb x0 hx0; omega
      by_cases hn : nHoles st = 0
      · simp only [hn, if_true, Seg.WF]; omega
      · simp only [hn, if_false]
        by_cases hA : minSize st = sizeHoles st
        · simp only [hA, if_true, Seg.WF]
          rw [holes_eq _ _ _ hp hb]
          refine ⟨by omega, (rangeList_pairwise _ _).filter _, ?_⟩
          intro h hh
          exact mem_rangeList.1 (List.mem_filter.1 hh).1
        · simp only [hA, if_false]
          by_cases hB : minSize st = sizeBitmap st
          · simp only [hB, if_true, Seg.WF, length_clearBits, List.length_replicate]
            omega
          · simp only [hB, if_false, Seg.WF]
            exact ⟨hp, hne⟩
  · have hf : st.sorted = false := by simpa using hs
    simp only [hf, Bool.false_eq_true, if_false, Seg.WF]
    exact hu hf

theorem computeStats_nil_sorted : (computeStats []).sorted = true := by simp [computeStats]

theorem fromSlice_WF (xs : List Nat) (hle : ∀ x ∈ xs, x ≤ U64MAX) (hnd : xs.Nodup) : (fromSlice xs).WF := by
  apply fromStats_WF _ _ (computeStats_good xs hle hnd)
  intro hf e
  subst e
  rw [computeStats_nil_sorted] at hf
  cases hf

/-! ### slice -/

theorem Seg.slice_toList (s : Seg) (off len : Nat) (hnd : s.toList.Nodup) (hle : ∀ x ∈ s.toList, x ≤ U64MAX) :
    (s.slice off len).toList = (s.toList.drop off).take len ∧ (s.slice off len).WF := by
  unfold Seg.slice
  by_cases h0 : len = 0
  · subst h0; simp [Seg.toList, rangeList, Seg.WF]
  · simp only [h0, if_false]
    have hsub : ((s.toList.drop off).take len).Sublist s.toList :=
      (List.take_sublist _ _).trans (List.drop_sublist _ _)
    have hnd' := hnd.sublist hsub
    have hle' : ∀ x ∈ (s.toList.drop off).take len, x ≤ U64MAX := fun x hx => hle x (hsub.subset hx)
    exact ⟨fromSlice_toList _ hle' hnd', fromSlice_WF _ hle' hnd'⟩

/-! ### delete -/

theorem skipWalk_sublist : ∀ (l vals : List Nat), (skipWalk l vals).Sublist l := by
  intro l
  induction l with
  | nil => intro vals; simp [skipWalk]
  | cons x xs ih =>
    intro vals
    cases vals with
    | nil => simp [skipWalk]
    | cons v vs =>
      simp only [skipWalk]
      split
      · exact (ih vs).trans (List.sublist_cons_self _ _)
      · exact (ih (v :: vs)).cons_cons x

/-- deleting values that appear in the list, in order of appearance, removes exactly those values -/
theorem skipWalk_eq_filter : ∀ (l vals : List Nat), l.Nodup → vals.Sublist l →
    skipWalk l vals = l.filter (fun x => !vals.contains x) := by
  intro l
  induction l with
  | nil => intro vals _ _; simp [skipWalk]
  | cons x xs ih =>
    intro vals hnd hsub
    rw [List.nodup_cons] at hnd
    cases vals with
    | nil =>
      simp only [skipWalk, List.contains_nil, Bool.not_false]
      exact (List.filter_eq_self.2 (by simp)).symm
    | cons v vs =>
      simp only [skipWalk]
      by_cases hv : v = x
      · subst hv
        have hvs : vs.Sublist xs := by
          cases hsub with
          | cons _ h => exact absurd (h.subset (by simp)) hnd.1
          | cons_cons _ h => exact h
        simp only [if_true, List.filter_cons, List.contains_cons, beq_self_eq_true, Bool.true_or, Bool.not_true,
          Bool.false_eq_true, if_false]
        rw [ih vs hnd.2 hvs]
        apply List.filter_congr
        intro y hy
        have : (y == v) = false := by
          simp; intro e; subst e; exact hnd.1 hy
        simp [this]
      · have hvs : (v :: vs).Sublist xs := by
          cases hsub with
          | cons _ h => exact h
          | cons_cons _ h => exact absurd rfl hv
        have hx : (v :: vs).contains x = false := by
          apply Bool.eq_false_iff.2
          intro hc
          exact hnd.1 (hvs.subset (by simpa using hc))
        simp only [hv, if_false, List.filter_cons, hx, Bool.not_false, if_true]
        rw [ih (v :: vs) hnd.2 hvs]

theorem Seg.delete_toList (s : Seg) (vals : List Nat) (hnd : s.toList.Nodup) (hle : ∀ x ∈ s.toList, x ≤ U64MAX) :
    (s.delete vals).toList = skipWalk s.toList vals ∧ (s.delete vals).WF := by
  have hsub := skipWalk_sublist s.toList vals
  have hnd' := hnd.sublist hsub
  have hle' : ∀ x ∈ skipWalk s.toList vals, x ≤ U64MAX := fun x hx => hle x (hsub.subset hx)
  exact ⟨fromSlice_toList _ hle' hnd', fromSlice_WF _ hle' hnd'⟩

end LanceModel.C34
