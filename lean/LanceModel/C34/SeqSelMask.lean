import LanceModel.C34.SeqLemmas
/-!
`RowIdSequence::select` and `RowIdSequence::mask`.
-/
namespace LanceModel.C34

/-! ### select -/

theorem filterMap_congr' {α β : Type} (l : List α) (f g : α → Option β) (h : ∀ x ∈ l, f x = g x) :
    l.filterMap f = l.filterMap g := by
  induction l with
  | nil => rfl
  | cons a t ih =>
    rw [List.filterMap_cons, List.filterMap_cons, h a (by simp), ih (fun x hx => h x (by simp [hx]))]

theorem Seq.toList_nil : Seq.toList ([] : Seq) = [] := rfl

theorem selAdvance_spec : ∀ (segs : Seq) (index passed : Nat), Seq.WF segs → passed ≤ index →
    passed ≤ (selAdvance segs index passed).2 ∧ (selAdvance segs index passed).2 ≤ index ∧
    Seq.WF (selAdvance segs index passed).1 ∧
    (∀ j, index ≤ j → (Seq.toList (selAdvance segs index passed).1)[j - (selAdvance segs index passed).2]? =
      (Seq.toList segs)[j - passed]?) ∧
    (∀ s more, (selAdvance segs index passed).1 = s :: more → index - (selAdvance segs index passed).2 < s.len) := by
  intro segs
  induction segs with
  | nil =>
    intro index passed _ h
    simp [selAdvance, Seq.WF, h]
  | cons s t ih =>
    intro index passed hw h
    have hw' := Seq.WF_cons.1 hw
    have hl := s.len_eq hw'.1
    simp only [selAdvance]
    split
    · rename_i hge
      obtain ⟨h1, h2, h3, h4, h5⟩ := ih index (passed + s.len) hw'.2 (by omega)
      refine ⟨by omega, h2, h3, ?_, h5⟩
      intro j hj
      rw [h4 j hj, Seq.toList_cons, List.getElem?_append_right (by omega)]
      congr 1
      omega
    · rename_i hlt
      refine ⟨Nat.le_refl _, h, hw, fun j _ => rfl, ?_⟩
      intro s' more e
      have : s = s' := (List.cons.inj e).1
      subst this
      omega

theorem Seq.selectGo_spec : ∀ (sel : List Nat) (segs : Seq) (passed last : Nat), Seq.WF segs →
    (last :: sel).Pairwise (· ≤ ·) → passed ≤ last →
    Seq.selectGo segs passed last sel = some (sel.filterMap (fun i => (Seq.toList segs)[i - passed]?)) := by
  intro sel
  induction sel with
  | nil => intro segs passed last _ _ _; simp [Seq.selectGo]
  | cons index rest ih =>
    intro segs passed last hw hp hpl
    rw [List.pairwise_cons] at hp
    have hli : last ≤ index := hp.1 index (by simp)
    have hrest : (index :: rest).Pairwise (· ≤ ·) := hp.2
    simp only [Seq.selectGo, show ¬ index < last by omega, if_false]
    obtain ⟨h1, h2, h3, h4, h5⟩ := selAdvance_spec segs index passed hw (by omega)
    have hcongr : rest.filterMap (fun i => (Seq.toList (selAdvance segs index passed).1)[i - (selAdvance segs index passed).2]?) =
        rest.filterMap (fun i => (Seq.toList segs)[i - passed]?) := by
      apply filterMap_congr'
      intro j hj
      exact h4 j ((List.pairwise_cons.1 hrest).1 j hj)
    cases hadv : selAdvance segs index passed with
    | mk segs' passed' =>
      rw [hadv] at h1 h2 h3 h4 h5 hcongr
      simp only at h1 h2 h3 h4 h5 hcongr
      cases segs' with
      | nil =>
        simp only []
        rw [ih [] passed' index (by simp [Seq.WF]) hrest h2]
        have h0 := h4 index (Nat.le_refl _)
        rw [Seq.toList_nil, List.getElem?_nil] at h0
        rw [List.filterMap_cons, ← h0, hcongr]
      | cons s more =>
        simp only []
        have hlt := h5 s more rfl
        have hw' := Seq.WF_cons.1 h3
        have hl := s.len_eq hw'.1
        have hget : s.get (index - passed') = (Seq.toList (s :: more))[index - passed']? := by
          rw [s.get_eq hw'.1, Seq.toList_cons, List.getElem?_append_left (by omega)]
        obtain ⟨v, hv⟩ : ∃ v, s.toList[index - passed']? = some v := ⟨_, List.getElem?_eq_getElem (by omega)⟩
        have hget' : s.get (index - passed') = some v := by rw [s.get_eq hw'.1, hv]
        rw [hget', ih (s :: more) passed' index h3 hrest h2]
        have h0 := h4 index (Nat.le_refl _)
        rw [← hget, hget'] at h0
        rw [List.filterMap_cons, ← h0, hcongr]
        rfl

/-- `RowIdSequence::select` on a sorted selection yields the ids at the selected offsets, ignoring offsets past the end -/
theorem Seq.select_spec (q : Seq) (sel : List Nat) (hw : Seq.WF q) (hs : sel.Pairwise (· ≤ ·)) :
    Seq.select q sel = some (sel.filterMap (fun i => (Seq.toList q)[i]?)) := by
  unfold Seq.select
  rw [Seq.selectGo_spec sel q 0 0 hw (List.pairwise_cons.2 ⟨fun a _ => Nat.zero_le a, hs⟩) (Nat.le_refl _)]
  simp

/-- an unsorted selection panics (as documented) -/
theorem Seq.select_unsorted (q : Seq) (a b : Nat) (pre post : List Nat) (h : b < a) (hq : Seq.WF q)
    (hpre : (pre ++ [a]).Pairwise (· ≤ ·)) :
    Seq.select q (pre ++ a :: b :: post) = none := by
  unfold Seq.select
  have gen : ∀ (pre : List Nat) (segs : Seq) (passed last : Nat), Seq.WF segs →
      (last :: (pre ++ [a])).Pairwise (· ≤ ·) → passed ≤ last →
      Seq.selectGo segs passed last (pre ++ a :: b :: post) = none := by
    intro pre
    induction pre with
    | nil =>
      intro segs passed last hw hp hpl
      have hla : last ≤ a := (List.pairwise_cons.1 hp).1 a (by simp)
      simp only [List.nil_append, Seq.selectGo, show ¬ a < last by omega, if_false]
      have hb : Seq.selectGo (selAdvance segs a passed).1 (selAdvance segs a passed).2 a (b :: post) = none := by
        simp [Seq.selectGo, h]
      cases hadv : selAdvance segs a passed with
      | mk segs' passed' =>
        rw [hadv] at hb
        cases segs' with
        | nil => exact hb
        | cons s more =>
          simp only [] at hb ⊢
          cases s.get (a - passed') with
          | none => rfl
          | some v => simp [h]
    | cons x t ih =>
      intro segs passed last hw hp hpl
      rw [List.cons_append, List.pairwise_cons] at hp
      have hlx : last ≤ x := hp.1 x (by simp)
      simp only [List.cons_append, Seq.selectGo, show ¬ x < last by omega, if_false]
      obtain ⟨h1, h2, h3, _, _⟩ := selAdvance_spec segs x passed hw (by omega)
      have hrec := ih (selAdvance segs x passed).1 (selAdvance segs x passed).2 x h3 hp.2 h2
      cases hadv : selAdvance segs x passed with
      | mk segs' passed' =>
        rw [hadv] at hrec
        cases segs' with
        | nil => exact hrec
        | cons s more =>
          simp only [] at hrec ⊢
          cases s.get (x - passed') with
          | none => rfl
          | some v => simp only []; rw [hrec]; rfl
  exact gen pre q 0 0 hq (List.pairwise_cons.2 ⟨fun a _ => Nat.zero_le a, hpre⟩) (Nat.le_refl _)


/-! ### mask -/

theorem removeIdx_cons (i x : Nat) (xs ps : List Nat) :
    removeIdx i (x :: xs) ps = (if ps.contains i then [] else [x]) ++ removeIdx (i + 1) xs ps := by
  unfold removeIdx
  rw [List.zipIdx_cons, List.filter_cons]
  by_cases h : i ∈ ps <;> simp [h]

theorem removeIdx_shift : ∀ (l : List Nat) (i i' : Nat) (ps ps' : List Nat),
    (∀ j, j < l.length → ps.contains (i + j) = ps'.contains (i' + j)) → removeIdx i l ps = removeIdx i' l ps' := by
  intro l
  induction l with
  | nil => intro i i' ps ps' _; rfl
  | cons x xs ih =>
    intro i i' ps ps' h
    rw [removeIdx_cons, removeIdx_cons]
    have h0 := h 0 (by simp)
    simp only [Nat.add_zero] at h0
    rw [h0, ih (i + 1) (i' + 1) ps ps' (by
      intro j hj
      have := h (j + 1) (by simp; omega)
      rw [show i + (j + 1) = i + 1 + j by omega, show i' + (j + 1) = i' + 1 + j by omega] at this
      exact this)]

theorem removeIdx_append : ∀ (A B : List Nat) (i : Nat) (ps : List Nat),
    removeIdx i (A ++ B) ps = removeIdx i A ps ++ removeIdx (i + A.length) B ps := by
  intro A
  induction A with
  | nil => intro B i ps; simp [removeIdx]
  | cons a t ih =>
    intro B i ps
    rw [List.cons_append, removeIdx_cons, removeIdx_cons, ih, List.append_assoc]
    congr 3
    simp; omega

theorem dropWhile_lt_eq_filter (hs : List Nat) (v : Nat) (hp : hs.Pairwise (· < ·)) :
    hs.dropWhile (· < v) = hs.filter (fun x => !decide (x < v)) := by
  induction hs with
  | nil => rfl
  | cons h t ih =>
    rw [List.pairwise_cons] at hp
    by_cases c : h < v
    · simp [c, ih hp.2]
    · simp only [List.dropWhile_cons, List.filter_cons, c, decide_false, Bool.false_eq_true, if_false, Bool.not_false,
        if_true]
      congr 1
      symm
      rw [List.filter_eq_self]
      intro x hx
      have := hp.1 x hx
      simp; omega

theorem Seq.maskGo_spec : ∀ (q : Seq) (ps : List Nat) (offset : Nat), Seq.WF q → ps.Pairwise (· < ·) →
    (∀ p ∈ ps, offset ≤ p) →
    ∃ q', Seq.maskGo q ps offset = some q' ∧ Seq.toList q' = removeIdx offset (Seq.toList q) ps ∧ Seq.WF q' := by
  intro q
  induction q with
  | nil => intro ps offset _ _ _; exact ⟨[], rfl, rfl, by simp [Seq.WF]⟩
  | cons s t ih =>
    intro ps offset hw hp hb
    have hw' := Seq.WF_cons.1 hw
    have hl := s.len_eq hw'.1
    have htw := takeWhile_lt_eq_filter ps (offset + s.len) hp
    have hdw := dropWhile_lt_eq_filter ps (offset + s.len) hp
    -- local positions for this segment
    have hloc_p : ((ps.takeWhile (· < offset + s.len)).map (· - offset)).Pairwise (· < ·) := by
      rw [htw, List.pairwise_map]
      refine (hp.filter _).imp_of_mem ?_
      intro a b ha hb' hab
      have := hb a (List.mem_filter.1 ha).1
      have := hb b (List.mem_filter.1 hb').1
      omega
    have hloc_b : ∀ p ∈ (ps.takeWhile (· < offset + s.len)).map (· - offset), p < s.len := by
      intro p hp'
      rw [htw, List.mem_map] at hp'
      obtain ⟨a, ha, rfl⟩ := hp'
      rw [List.mem_filter] at ha
      have := hb a ha.1
      have := ha.2
      simp at this
      omega
    obtain ⟨s', hs1, hs2, hs3⟩ := s.mask_spec _ hw'.1 hloc_p hloc_b
    obtain ⟨t', ht1, ht2, ht3⟩ := ih (ps.dropWhile (· < offset + s.len)) (offset + s.len) hw'.2
      (by rw [hdw]; exact hp.filter _)
      (by
        intro p hp'
        rw [hdw, List.mem_filter] at hp'
        have := hp'.2
        simp at this
        omega)
    refine ⟨s' :: t', ?_, ?_, Seq.WF_cons.2 ⟨hs3, ht3⟩⟩
    · simp only [Seq.maskGo, hs1, ht1]
    · rw [Seq.toList_cons, Seq.toList_cons, removeIdx_append, hs2, ht2, ← hl]
      congr 1
      · apply removeIdx_shift
        intro j hj
        rw [← hl] at hj
        rw [htw]
        simp only [Nat.zero_add]
        apply Bool.eq_iff_iff.2
        simp only [List.contains_eq_mem, List.mem_map, List.mem_filter, decide_eq_true_eq]
        constructor
        · rintro ⟨a, ⟨ha, _⟩, rfl⟩
          have := hb a ha
          rw [show offset + (a - offset) = a by omega]
          exact ha
        · intro h
          exact ⟨offset + j, ⟨h, by omega⟩, by omega⟩
      · apply removeIdx_shift
        intro j _
        rw [hdw]
        apply Bool.eq_iff_iff.2
        simp only [List.contains_eq_mem, List.mem_filter, decide_eq_true_eq, Bool.not_eq_true', decide_eq_false_iff_not]
        constructor
        · intro h; exact h.1
        · intro h; exact ⟨h, by omega⟩

theorem filter_nonempty_toList : ∀ (q : Seq), Seq.WF q →
    Seq.toList (q.filter (fun s => s.len != 0)) = Seq.toList q ∧ Seq.WF (q.filter (fun s => s.len != 0)) := by
  intro q
  induction q with
  | nil => intro _; exact ⟨rfl, by simp [Seq.WF]⟩
  | cons s t ih =>
    intro hw
    have hw' := Seq.WF_cons.1 hw
    obtain ⟨h1, h2⟩ := ih hw'.2
    rw [List.filter_cons]
    by_cases h0 : s.len = 0
    · have : s.toList = [] := List.eq_nil_of_length_eq_zero (by rw [← s.len_eq hw'.1]; exact h0)
      simp only [h0, bne_self_eq_false, Bool.false_eq_true, if_false]
      rw [Seq.toList_cons, this, h1]
      exact ⟨rfl, h2⟩
    · have : (s.len != 0) = true := by simpa using h0
      simp only [this, if_true]
      rw [Seq.toList_cons, Seq.toList_cons, h1]
      exact ⟨rfl, Seq.WF_cons.2 ⟨hw'.1, h2⟩⟩

/-- `RowIdSequence::mask` with sorted positions does not panic and removes exactly the ids at those positions
    (positions past the end are ignored) -/
theorem Seq.mask_spec (q : Seq) (ps : List Nat) (hw : Seq.WF q) (hp : ps.Pairwise (· < ·)) :
    ∃ q', Seq.mask q ps = some q' ∧ Seq.toList q' = removeIdx 0 (Seq.toList q) ps ∧ Seq.WF q' := by
  obtain ⟨q1, h1, h2, h3⟩ := Seq.maskGo_spec q ps 0 hw hp (fun p _ => Nat.zero_le p)
  obtain ⟨h4, h5⟩ := filter_nonempty_toList q1 h3
  refine ⟨q1.filter (fun s => s.len != 0), ?_, by rw [h4, h2], h5⟩
  simp [Seq.mask, h1]

end LanceModel.C34
