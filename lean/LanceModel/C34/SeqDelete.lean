import LanceModel.C34.SeqM2O
/-!
`RowIdSequence::delete` (with `find_ids`, as fixed: repeated ids are harmless).
-/
namespace LanceModel.C34

theorem foldl_min_le (t : List Nat) : ∀ (x : Nat), t.foldl min x ≤ x ∧ ∀ y ∈ t, t.foldl min x ≤ y := by
  induction t with
  | nil => intro x; simp
  | cons a t ih =>
    intro x
    obtain ⟨h1, h2⟩ := ih (min x a)
    refine ⟨by simp only [List.foldl_cons]; omega, ?_⟩
    intro y hy
    simp only [List.foldl_cons]
    rcases List.mem_cons.1 hy with rfl | hy'
    · omega
    · exact h2 y hy'

theorem foldl_max_ge (t : List Nat) : ∀ (x : Nat), x ≤ t.foldl max x ∧ ∀ y ∈ t, y ≤ t.foldl max x := by
  induction t with
  | nil => intro x; simp
  | cons a t ih =>
    intro x
    obtain ⟨h1, h2⟩ := ih (max x a)
    refine ⟨by simp only [List.foldl_cons]; omega, ?_⟩
    intro y hy
    simp only [List.foldl_cons]
    rcases List.mem_cons.1 hy with rfl | hy'
    · omega
    · exact h2 y hy'

theorem sorted_head_last (l : List Nat) (hp : l.Pairwise (· < ·)) (lo hi : Nat) (h1 : l.head? = some lo)
    (h2 : l.getLast? = some hi) : ∀ x ∈ l, lo ≤ x ∧ x ≤ hi := by
  intro x hx
  obtain ⟨i, hi'⟩ := List.mem_iff_getElem?.1 hx
  have hlen : i < l.length := (List.getElem?_eq_some_iff.1 hi').1
  have h0 : l[0]? = some lo := by rw [← List.head?_eq_getElem?]; exact h1
  have hl : l[l.length - 1]? = some hi := by rw [← List.getLast?_eq_getElem?]; exact h2
  exact ⟨sorted_getElem?_mono l hp 0 i lo x (Nat.zero_le _) h0 hi',
    sorted_getElem?_mono l hp i (l.length - 1) x hi (by omega) hi' hl⟩

/-- `U64Segment::range` of a well-formed segment does not panic and covers every id -/
theorem Seg.bounds_spec (s : Seg) (hw : s.WF) : ∃ r, s.bounds = some r ∧ ∀ x ∈ s.toList, inRangeOpt r x = true := by
  cases s with
  | range a b =>
    simp only [Seg.bounds]
    split
    · refine ⟨none, rfl, ?_⟩
      intro x hx
      have := mem_rangeList.1 hx
      omega
    · refine ⟨some (a, b - 1), rfl, ?_⟩
      intro x hx
      have := mem_rangeList.1 hx
      simp [inRangeOpt]; omega
  | holes a b hs =>
    obtain ⟨hab, _, _⟩ := hw
    refine ⟨some (a, b - 1), by simp [Seg.bounds]; omega, ?_⟩
    intro x hx
    have := mem_rangeList.1 (List.mem_filter.1 hx).1
    simp [inRangeOpt]; omega
  | bitmap a b bits =>
    obtain ⟨hab, _⟩ := hw
    refine ⟨some (a, b - 1), by simp [Seg.bounds]; omega, ?_⟩
    intro x hx
    have := mem_rangeList.1 (List.mem_filter.1 hx).1
    simp [inRangeOpt]; omega
  | sorted l =>
    obtain ⟨hp, hne⟩ := hw
    cases l with
    | nil => exact absurd rfl hne
    | cons a t =>
      obtain ⟨hi, hhi⟩ : ∃ hi, (a :: t).getLast? = some hi := ⟨_, List.getLast?_eq_some_getLast (by simp)⟩
      refine ⟨some (a, hi), by simp [Seg.bounds, hhi], ?_⟩
      intro x hx
      have := sorted_head_last (a :: t) hp a hi rfl hhi x hx
      simp [inRangeOpt]; omega
  | array l =>
    cases l with
    | nil => exact absurd rfl hw
    | cons a t =>
      refine ⟨some (t.foldl min a, t.foldl max a), by simp [Seg.bounds, listMin, listMax], ?_⟩
      intro x hx
      have h1 := foldl_min_le t a
      have h2 := foldl_max_ge t a
      simp only [inRangeOpt, decide_eq_true_eq]
      rcases List.mem_cons.1 hx with rfl | hx'
      · exact ⟨h1.1, h2.1⟩
      · exact ⟨h1.2 x hx', h2.2 x hx'⟩

theorem insertKey_perm {α : Type} (key : α → Nat) (x : α) : ∀ l : List α, (insertKey key x l).Perm (x :: l) := by
  intro l
  induction l with
  | nil => exact List.Perm.refl _
  | cons y t ih =>
    simp only [insertKey]
    split
    · exact List.Perm.refl _
    · exact ((List.perm_cons y).2 ih).trans (List.Perm.swap x y t)

theorem sortKey_perm {α : Type} (key : α → Nat) : ∀ l : List α, (sortKey key l).Perm l := by
  intro l
  induction l with
  | nil => exact List.Perm.refl _
  | cons x t ih => exact (insertKey_perm key x (sortKey key t)).trans ((List.perm_cons x).2 ih)

theorem insertKey_pairwise {α : Type} (key : α → Nat) (x : α) : ∀ l : List α,
    l.Pairwise (fun a b => key a ≤ key b) → (insertKey key x l).Pairwise (fun a b => key a ≤ key b) := by
  intro l
  induction l with
  | nil => intro _; simp [insertKey]
  | cons y t ih =>
    intro hp
    simp only [insertKey]
    rw [List.pairwise_cons] at hp
    split
    · rename_i hle
      rw [List.pairwise_cons]
      refine ⟨?_, List.pairwise_cons.2 hp⟩
      intro z hz
      rcases List.mem_cons.1 hz with rfl | hz'
      · exact hle
      · exact Nat.le_trans hle (hp.1 z hz')
    · rename_i hgt
      rw [List.pairwise_cons]
      refine ⟨?_, ih hp.2⟩
      intro z hz
      have := (insertKey_perm key x t).mem_iff.1 hz
      rcases List.mem_cons.1 this with rfl | hz'
      · omega
      · exact hp.1 z hz'

theorem sortKey_pairwise {α : Type} (key : α → Nat) : ∀ l : List α,
    (sortKey key l).Pairwise (fun a b => key a ≤ key b) := by
  intro l
  induction l with
  | nil => simp [sortKey]
  | cons x t ih => exact insertKey_pairwise key x _ ih

theorem mem_dedupAdj : ∀ (l : List Nat) (x : Nat), x ∈ dedupAdj l ↔ x ∈ l := by
  intro l
  induction l with
  | nil => intro x; simp [dedupAdj]
  | cons a t ih =>
    intro x
    cases t with
    | nil => simp [dedupAdj]
    | cons b t' =>
      simp only [dedupAdj]
      split
      · rename_i e
        subst e
        rw [ih x]
        simp
      · rw [List.mem_cons, ih x]
        simp

theorem dedupAdj_pairwise : ∀ (l : List Nat), l.Pairwise (· ≤ ·) → (dedupAdj l).Pairwise (· < ·) := by
  intro l
  induction l with
  | nil => intro _; simp [dedupAdj]
  | cons a t ih =>
    intro hp
    cases t with
    | nil => simp [dedupAdj]
    | cons b t' =>
      rw [List.pairwise_cons] at hp
      simp only [dedupAdj]
      split
      · exact ih hp.2
      · rename_i hne
        rw [List.pairwise_cons]
        refine ⟨?_, ih hp.2⟩
        intro y hy
        rw [mem_dedupAdj] at hy
        have hab := hp.1 b (by simp)
        rcases List.mem_cons.1 hy with rfl | hy'
        · omega
        · have := (List.pairwise_cons.1 hp.2).1 y hy'
          omega

theorem optAll_map_some {α β : Type} (l : List α) (f : α → Option β) (g : α → β) (h : ∀ a ∈ l, f a = some (g a)) :
    optAll (l.map f) = some (l.map g) := by
  induction l with
  | nil => rfl
  | cons a t ih =>
    rw [List.map_cons, h a (by simp)]
    simp only [optAll]
    rw [ih (fun x hx => h x (by simp [hx]))]
    rfl

/-- reading a strictly increasing list of valid positions gives a sublist -/
theorem picks_sublist : ∀ (L : List Nat) (k : Nat) (offs : List Nat), offs.Pairwise (· < ·) →
    (∀ i ∈ offs, k ≤ i ∧ i < k + L.length) →
    ∃ vals, optAll (offs.map (fun i => L[i - k]?)) = some vals ∧ vals.Sublist L ∧
      ∀ x, x ∈ vals ↔ ∃ i ∈ offs, L[i - k]? = some x := by
  intro L
  induction L with
  | nil =>
    intro k offs _ hb
    cases offs with
    | nil => exact ⟨[], rfl, List.Sublist.refl _, by simp⟩
    | cons i _ => have := hb i (by simp); simp at this; omega
  | cons x t ih =>
    intro k offs hp hb
    cases offs with
    | nil => exact ⟨[], rfl, List.nil_sublist _, by simp⟩
    | cons i rest =>
      rw [List.pairwise_cons] at hp
      have hi := hb i (by simp)
      by_cases e : i = k
      · subst e
        obtain ⟨vals, h1, h2, h3⟩ := ih (i + 1) rest hp.2 (by
          intro j hj
          have := hp.1 j hj
          have := hb j (by simp [hj])
          simp at this
          omega)
        have hshift : rest.map (fun j => (x :: t)[j - i]?) = rest.map (fun j => t[j - (i + 1)]?) := by
          apply List.map_congr_left
          intro j hj
          have := hp.1 j hj
          rw [show j - i = (j - (i + 1)) + 1 by omega]
          simp
        refine ⟨x :: vals, ?_, h2.cons_cons x, ?_⟩
        · simp only [List.map_cons, Nat.sub_self, List.getElem?_cons_zero, optAll]
          rw [hshift, h1]; rfl
        · intro y
          rw [List.mem_cons, h3 y]
          constructor
          · rintro (rfl | ⟨j, hj, hjy⟩)
            · exact ⟨i, by simp, by simp⟩
            · refine ⟨j, by simp [hj], ?_⟩
              have := hp.1 j hj
              rw [show j - i = (j - (i + 1)) + 1 by omega]
              simpa using hjy
          · rintro ⟨j, hj, hjy⟩
            rcases List.mem_cons.1 hj with rfl | hj'
            · left; simpa using hjy.symm
            · right
              have := hp.1 j hj'
              rw [show j - i = (j - (i + 1)) + 1 by omega] at hjy
              exact ⟨j, hj', by simpa using hjy⟩
      · obtain ⟨vals, h1, h2, h3⟩ := ih (k + 1) (i :: rest) (List.pairwise_cons.2 hp) (by
          intro j hj
          have := hb j hj
          rcases List.mem_cons.1 hj with rfl | hj'
          · simp at this; omega
          · have := hp.1 j hj'; simp at *; omega)
        have hall : ∀ j ∈ (i :: rest), k + 1 ≤ j := by
          intro j hj
          rcases List.mem_cons.1 hj with rfl | hj'
          · omega
          · have := hp.1 j hj'; omega
        have hshift : (i :: rest).map (fun j => (x :: t)[j - k]?) = (i :: rest).map (fun j => t[j - (k + 1)]?) := by
          apply List.map_congr_left
          intro j hj
          have := hall j hj
          rw [show j - k = (j - (k + 1)) + 1 by omega]
          simp
        refine ⟨vals, by rw [hshift, h1], h2.cons x, ?_⟩
        intro y
        rw [h3 y]
        constructor
        · rintro ⟨j, hj, hjy⟩
          have := hall j hj
          refine ⟨j, hj, ?_⟩
          rw [show j - k = (j - (k + 1)) + 1 by omega]
          simpa using hjy
        · rintro ⟨j, hj, hjy⟩
          have := hall j hj
          rw [show j - k = (j - (k + 1)) + 1 by omega] at hjy
          exact ⟨j, hj, by simpa using hjy⟩

/-- one segment of `RowIdSequence::delete`: no panic, exactly the requested ids are gone -/
theorem segDeleteIds_spec (s : Seg) (ids : List Nat) (hw : s.WF) (hnd : s.toList.Nodup)
    (hle : ∀ x ∈ s.toList, x ≤ U64MAX) :
    ∃ s', segDeleteIds s ids = some s' ∧ s'.toList = s.toList.filter (fun x => !ids.contains x) ∧ s'.WF := by
  obtain ⟨r, hr, hcover⟩ := s.bounds_spec hw
  -- the matched offsets
  have hmem : ∀ i, i ∈ dedupAdj (sortKey id (ids.filterMap (fun id => if inRangeOpt r id then s.position id else none)))
      ↔ ∃ id ∈ ids, s.toList[i]? = some id := by
    intro i
    rw [mem_dedupAdj, (sortKey_perm _ _).mem_iff, List.mem_filterMap]
    constructor
    · rintro ⟨id, hid, hf⟩
      split at hf
      · exact ⟨id, hid, (s.position_spec hw hnd id i).1 hf⟩
      · cases hf
    · rintro ⟨id, hid, hi⟩
      refine ⟨id, hid, ?_⟩
      rw [if_pos (hcover id (List.mem_of_getElem? hi))]
      exact (s.position_spec hw hnd id i).2 hi
  have hsorted : (dedupAdj (sortKey id (ids.filterMap (fun id => if inRangeOpt r id then s.position id else none)))).Pairwise
      (· < ·) := by
    apply dedupAdj_pairwise
    exact sortKey_pairwise id _
  unfold segDeleteIds segMatches
  rw [hr]
  simp only
  generalize hoffs : dedupAdj (sortKey id (ids.filterMap (fun id => if inRangeOpt r id then s.position id else none))) = offs
    at hmem hsorted
  cases offs with
  | nil =>
    refine ⟨s, rfl, ?_, hw⟩
    symm
    rw [List.filter_eq_self]
    intro x hx
    obtain ⟨i, hi⟩ := List.mem_iff_getElem?.1 hx
    have : ¬ x ∈ ids := fun hc => by
      have := (hmem i).2 ⟨x, hc, hi⟩
      simp at this
    simpa using this
  | cons o orest =>
    have hvalid : ∀ i ∈ (o :: orest), 0 ≤ i ∧ i < 0 + s.toList.length := by
      intro i hi
      obtain ⟨id, _, hid⟩ := (hmem i).1 hi
      exact ⟨Nat.zero_le _, by simpa using (List.getElem?_eq_some_iff.1 hid).1⟩
    obtain ⟨vals, hv1, hv2, hv3⟩ := picks_sublist s.toList 0 (o :: orest) hsorted hvalid
    have hget : (o :: orest).map s.get = (o :: orest).map (fun i => s.toList[i - 0]?) := by
      apply List.map_congr_left
      intro i _
      rw [s.get_eq hw]; rfl
    simp only
    rw [hget, hv1]
    simp only
    obtain ⟨hd1, hd2⟩ := s.delete_toList vals hnd hle
    refine ⟨_, rfl, ?_, hd2⟩
    rw [hd1, skipWalk_eq_filter _ _ hnd hv2]
    apply List.filter_congr
    intro x hx
    congr 1
    apply Bool.eq_iff_iff.2
    simp only [List.contains_eq_mem, decide_eq_true_eq]
    rw [hv3 x]
    constructor
    · rintro ⟨i, hi, hix⟩
      obtain ⟨id, hid, hid'⟩ := (hmem i).1 hi
      rw [Nat.sub_zero] at hix
      rw [hix] at hid'
      cases hid'
      exact hid
    · intro hc
      obtain ⟨i, hi⟩ := List.mem_iff_getElem?.1 hx
      exact ⟨i, (hmem i).2 ⟨x, hc, hi⟩, by simpa using hi⟩

theorem nodup_append_left {l1 l2 : List Nat} (h : (l1 ++ l2).Nodup) : l1.Nodup ∧ l2.Nodup :=
  ⟨h.sublist (List.sublist_append_left _ _), h.sublist (List.sublist_append_right _ _)⟩

/-- `RowIdSequence::delete`: every requested id that is present is removed, everything else stays, in order; ids that are
    absent or repeated in the request are harmless -/
theorem Seq.delete_spec : ∀ (q : Seq) (ids : List Nat), Seq.WF q → (Seq.toList q).Nodup →
    (∀ x ∈ Seq.toList q, x ≤ U64MAX) →
    ∃ q', Seq.delete q ids = some q' ∧ Seq.toList q' = (Seq.toList q).filter (fun x => !ids.contains x) ∧ Seq.WF q' := by
  intro q
  induction q with
  | nil => intro ids _ _ _; exact ⟨[], rfl, rfl, by simp [Seq.WF]⟩
  | cons s t ih =>
    intro ids hw hnd hle
    have hw' := Seq.WF_cons.1 hw
    rw [Seq.toList_cons] at hnd hle
    obtain ⟨hn1, hn2⟩ := nodup_append_left hnd
    obtain ⟨s', hs1, hs2, hs3⟩ := segDeleteIds_spec s ids hw'.1 hn1 (fun x hx => hle x (by simp [hx]))
    obtain ⟨t', ht1, ht2, ht3⟩ := ih ids hw'.2 hn2 (fun x hx => hle x (by simp [hx]))
    refine ⟨s' :: t', ?_, ?_, Seq.WF_cons.2 ⟨hs3, ht3⟩⟩
    · unfold Seq.delete at ht1 ⊢
      simp only [List.map_cons, hs1, optAll, ht1]
      rfl
    · rw [Seq.toList_cons, Seq.toList_cons, List.filter_append, hs2, ht2]

end LanceModel.C34
