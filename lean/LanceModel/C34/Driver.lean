import LanceModel.Util
import LanceModel.C34.Model
/-
C34 driver: register machine over segments and sequences; one output line per input line, in the format of
`harness/src/bin/c34.rs`.
-/
namespace LanceModel.C34.Driver
open LanceModel.Util LanceModel.C34

inductive Val where
  | seg (s : Seg)
  | seq (q : Seq)

abbrev St := List (String × Val)

def getSeg (s : St) (r : String) : Option Seg :=
  match s.lookup r with
  | some (.seg x) => some x
  | _ => none

def getSeq (s : St) (r : String) : Option Seq :=
  match s.lookup r with
  | some (.seq x) => some x
  | _ => none

def put (s : St) (r : String) (v : Val) : St := (r, v) :: s.filter (·.1 ≠ r)

def showBitsStr (b : List Bool) : String :=
  if b.isEmpty then "-" else String.ofList (b.map (fun x => if x then '1' else '0'))

def showSeg : Seg → String
  | .range s e => s!"R:{s}:{e}"
  | .holes s e hs => s!"H:{s}:{e}:{showNatList hs}"
  | .bitmap s e bits => s!"B:{s}:{e}:{showBitsStr bits}"
  | .sorted a => s!"S:{showNatList a}"
  | .array a => s!"A:{showNatList a}"

def showSeq (q : Seq) : String :=
  if q.isEmpty then "empty" else "|".intercalate (q.map showSeg)

def parseBits (s : String) : Option (List Bool) :=
  if s = "-" then some []
  else s.toList.mapM (fun c => if c = '1' then some true else if c = '0' then some false else none)

def parseSeg (s : String) : Option Seg :=
  match s.splitOn ":" with
  | ["R", a, b] =>
    match a.toNat?, b.toNat? with
    | some a, some b => some (.range a b)
    | _, _ => none
  | ["H", a, b, h] =>
    match a.toNat?, b.toNat?, parseNatList h with
    | some a, some b, some h => some (.holes a b h)
    | _, _, _ => none
  | ["B", a, b, bits] =>
    match a.toNat?, b.toNat?, parseBits bits with
    | some a, some b, some bits => if b < a ∨ b - a ≠ bits.length then none else some (.bitmap a b bits)
    | _, _, _ => none
  | ["S", v] => (parseNatList v).map .sorted
  | ["A", v] => (parseNatList v).map .array
  | _ => none

def parseSeq (s : String) : Option Seq :=
  if s = "empty" then some [] else (s.splitOn "|").mapM parseSeg

def showOpt : Option Nat → String
  | some v => s!"some {v}"
  | none => "none"

def showRanges (rs : List (Nat × Nat)) : String :=
  if rs.isEmpty then "-" else ",".intercalate (rs.map (fun r => s!"{r.1}..{r.2}"))

def parseRange (s : String) : Option (Nat × Nat) :=
  match s.splitOn ".." with
  | [a, b] =>
    match a.toNat?, b.toNat? with
    | some a, some b => some (a, b)
    | _, _ => none
  | _ => none

def parseRanges (s : String) : Option (List (Nat × Nat)) :=
  if s = "-" then some [] else (s.splitOn ",").mapM parseRange

def bad : String := "bad-op"
def panic : String := "panic"
def U32MAX : Nat := 4294967295

def showSel : Sel → String
  | .ok l => showNatList l
  | .err => "err"
  | .panic => "panic"

def parseFrag (s : St) (f : String) : Option (Nat × Seq × List Nat) :=
  match f.splitOn "/" with
  | [fid, reg, dv] =>
    match fid.toNat?, getSeq s reg, parseNatList dv with
    | some fid, some q, some dv => if fid > U32MAX ∨ dv.any (· > U32MAX) then none else some (fid, q, dv)
    | _, _, _ => none
  | _ => none

def step (s : St) (line : String) : St × String :=
  match splitTokens line with
  | ["seg", r, ids] =>
    match parseNatList ids with
    | some ids => (put s r (.seg (fromSlice ids)), showSeg (fromSlice ids))
    | none => (s, bad)
  | ["bseg", r, a, b, holes] =>
    match a.toNat?, b.toNat?, parseNatList holes with
    | some a, some b, some holes =>
      if a > b ∨ b - a > 200000 then (s, bad)
      else
        let x := fromSlice ((rangeList a b).filter (fun v => !holes.contains v))
        (put s r (.seg x), showSeg x)
    | _, _, _ => (s, bad)
  | ["qbig", r, a, b, holes] =>
    match a.toNat?, b.toNat?, parseNatList holes with
    | some a, some b, some holes =>
      if a > b ∨ b - a > 200000 then (s, bad)
      else
        let x := fromSlice ((rangeList a b).filter (fun v => !holes.contains v))
        (put s r (.seq [x]), showSeq [x])
    | _, _, _ => (s, bad)
  | ["scheck", a, ids] =>
    match getSeg s a, parseNatList ids with
    | some x, some ids =>
      (s, s!"len={x.len} cnt={x.toList.length}" ++ String.join (ids.map (fun v =>
        s!" {v}:" ++ (match x.position v with | some p => toString p | none => "-") ++ s!":{showBool (x.contains v)}")))
    | _, _ => (s, bad)
  | ["hpos", w, a, b, holes, probes] =>
    match w.toNat?, a.toNat?, b.toNat?, parseNatList holes, parseNatList probes with
    | some w, some a, some b, some holes, some probes =>
      if a ≥ b ∨ !(holes.zip (holes.drop 1)).all (fun p => p.1 < p.2) ∨ holes.any (fun h => h < a ∨ h ≥ b) then (s, bad)
      else
        match Enc.withWidth w holes with
        | none => (s, bad)
        | some _ =>
          let x := Seg.holes a b holes
          (s, s!"len={x.len}" ++ String.join (probes.map (fun v =>
            s!" {v}:" ++ (match x.position v with | some p => toString p | none => "-") ++ s!":{showBool (x.contains v)}")))
    | _, _, _, _, _ => (s, bad)
  | ["ebs", w, vals, probes] =>
    match w.toNat?, parseNatList vals, parseNatList probes with
    | some w, some vals, some probes =>
      if vals.isEmpty ∨ !(vals.zip (vals.drop 1)).all (fun p => p.1 < p.2) then (s, bad)
      else
        match Enc.withWidth w vals with
        | none => (s, bad)
        | some e =>
          (s, (String.join (probes.map (fun v =>
              s!"{v}:" ++ (match e.binarySearch v with | some p => toString p | none => "-") ++ " ")) ++
            String.join ((List.range (vals.length + 1)).map (fun i =>
              s!"g{i}=" ++ (match e.get i with | some x => toString x | none => "-") ++ " "))).trimAsciiEnd.toString)
    | _, _, _ => (s, bad)
  | ["enc", ids] =>
    match parseNatList ids with
    | some ids =>
      let showEnc (tag : String) (a : List Nat) : String :=
        match Enc.ofList a with
        | .u16 b o => s!"{tag} U16 {b} {showNatList o}"
        | .u32 b o => s!"{tag} U32 {b} {showNatList o}"
        | .u64 v => s!"{tag} U64 {showNatList v}"
      match fromSlice ids with
      | .sorted a => (s, showEnc "S" a)
      | .array a => (s, showEnc "A" a)
      | _ => (s, "other")
    | none => (s, bad)
  | ["sraw", r, d] =>
    match parseSeg d with
    | some x => (put s r (.seg x), showSeg x)
    | none => (s, bad)
  | ["siter", a] =>
    match getSeg s a with
    | some x => (s, s!"{showNatList x.toList} len={x.len}")
    | none => (s, bad)
  | ["sslice", r, a, off, len] =>
    match getSeg s a, off.toNat?, len.toNat? with
    | some x, some off, some len => (put s r (.seg (x.slice off len)), showSeg (x.slice off len))
    | _, _, _ => (s, bad)
  | ["sdel", r, a, vals] =>
    match getSeg s a, parseNatList vals with
    | some x, some vals => (put s r (.seg (x.delete vals)), showSeg (x.delete vals))
    | _, _ => (s, bad)
  | ["smask", r, a, pos] =>
    match getSeg s a, parseNatList pos with
    | some x, some pos =>
      if pos.any (· > U32MAX) then (s, bad)
      else
        match x.mask pos with
        | some y => (put s r (.seg y), showSeg y)
        | none => (s, panic)
    | _, _ => (s, bad)
  | ["shigh", r, a, v] =>
    match getSeg s a, v.toNat? with
    | some x, some v =>
      match x.withNewHigh v with
      | some (some y) => (put s r (.seg y), showSeg y)
      | some none => (s, "err")
      | none => (s, panic)
    | _, _ => (s, bad)
  | ["sget", a, i] =>
    match getSeg s a, i.toNat? with
    | some x, some i => (s, showOpt (x.get i))
    | _, _ => (s, bad)
  | ["spos", a, v] =>
    match getSeg s a, v.toNat? with
    | some x, some v => (s, s!"{showOpt (x.position v)} {showBool (x.contains v)}")
    | _, _ => (s, bad)
  | ["srange", a] =>
    match getSeg s a with
    | some x =>
      match x.bounds with
      | none => (s, panic)
      | some none => (s, "none")
      | some (some (lo, hi)) => (s, s!"{lo},{hi}")
    | none => (s, bad)
  | ["qnew", r] => (put s r (.seq []), showSeq [])
  | ["qrange", r, a, b] =>
    match a.toNat?, b.toNat? with
    | some a, some b => if a > b then (s, bad) else (put s r (.seq [Seg.range a b]), showSeq [Seg.range a b])
    | _, _ => (s, bad)
  | ["qids", r, ids] =>
    match parseNatList ids with
    | some ids => (put s r (.seq [fromSlice ids]), showSeq [fromSlice ids])
    | none => (s, bad)
  | ["qraw", r, d] =>
    match parseSeq d with
    | some q => (put s r (.seq q), showSeq q)
    | none => (s, bad)
  | ["qiter", a] =>
    match getSeq s a with
    | some q => (s, s!"{showNatList (Seq.toList q)} len={Seq.len q}")
    | none => (s, bad)
  | ["qext", r, a, b] =>
    match getSeq s a, getSeq s b with
    | some x, some y => (put s r (.seq (Seq.extend x y)), showSeq (Seq.extend x y))
    | _, _ => (s, bad)
  | ["qdel", r, a, ids] =>
    match getSeq s a, parseNatList ids with
    | some q, some ids =>
      match Seq.delete q ids with
      | some q' => (put s r (.seq q'), showSeq q')
      | none => (s, panic)
    | _, _ => (s, bad)
  | ["qmask", r, a, pos] =>
    match getSeq s a, parseNatList pos with
    | some q, some pos =>
      if pos.any (· > U32MAX) then (s, bad)
      else
        match Seq.mask q pos with
        | some q' => (put s r (.seq q'), showSeq q')
        | none => (s, panic)
    | _, _ => (s, bad)
  | ["qslice", a, off, len] =>
    match getSeq s a, off.toNat?, len.toNat? with
    | some q, some off, some len =>
      match Seq.slice q off len with
      | some l => (s, showNatList l)
      | none => (s, panic)
    | _, _, _ => (s, bad)
  | ["qsel", a, idx] =>
    match getSeq s a, parseNatList idx with
    | some q, some idx =>
      match Seq.select q idx with
      | some l => (s, showNatList l)
      | none => (s, panic)
    | _, _ => (s, bad)
  | ["qget", a, i] =>
    match getSeq s a, i.toNat? with
    | some q, some i => (s, showOpt (Seq.get q i))
    | _, _ => (s, bad)
  | ["qm2o", a, kind, ids] =>
    match getSeq s a, parseNatList ids with
    | some q, some ids =>
      -- ids in fragment u32::MAX are outside the domain: `RowIdTreeMap::insert_range` (lance-core, C21) overflows there
      if (Seq.toList q).any (· ≥ 18446744069414584320) ∨ q.any (fun x => match x.bounds with
          | some (some (_, hi)) => hi ≥ 18446744069414584320 | _ => false) then (s, "skip-top-fragment")
      else if kind = "allow" then (s, showRanges (Seq.maskToOffsetRanges (fun v => ids.contains v) q 0))
      else if kind = "block" then (s, showRanges (Seq.maskToOffsetRanges (fun v => !ids.contains v) q 0))
      else (s, bad)
    | _, _ => (s, bad)
  | ["rechunk", regs, sizes, inc] =>
    match parseNatList sizes, (if regs = "-" then some [] else (regs.splitOn ",").mapM (getSeq s)) with
    | some sizes, some qs =>
      if inc ≠ "0" ∧ inc ≠ "1" then (s, bad)
      else
        match rechunk qs sizes (inc = "1") with
        | some out => (s, "ok " ++ " ; ".intercalate (out.map showSeq))
        | none => (s, "err")
    | _, _ => (s, bad)
  | ["selrows", a, kind, arg] =>
    match getSeq s a with
    | none => (s, bad)
    | some q =>
      match kind with
      | "idx" =>
        match parseNatList arg with
        | some ix => if ix.any (· > U32MAX) then (s, bad) else (s, showSel (selectIndices q ix))
        | none => (s, bad)
      | "range" =>
        match parseRanges arg with
        | some [(a, b)] => if a > b then (s, bad) else (s, showSel (selectRange q a b))
        | _ => (s, bad)
      | "ranges" =>
        match parseRanges arg with
        | some rs => if rs.any (fun r => r.1 > r.2) then (s, bad) else (s, showSel (selectRanges q rs))
        | none => (s, bad)
      | "full" => (s, showNatList (Seq.toList q))
      | "to" =>
        match arg.toNat? with
        | some e => (s, showSel (selectRange q 0 e))
        | none => (s, bad)
      | "from" =>
        match arg.toNat? with
        | some a => (s, showSel (selectFrom q a))
        | none => (s, bad)
      | _ => (s, bad)
  | ["index", frags, probes] =>
    match parseNatList probes, (if frags = "-" then some [] else (frags.splitOn ";").mapM (parseFrag s)) with
    | some probes, some fs =>
      match indexNew fs with
      | none => (s, panic)
      | some chunks =>
        if probes.isEmpty then (s, "ok")
        else (s, " ".intercalate (probes.map (fun p =>
          s!"{p}=" ++ (match indexGet chunks p with | some a => toString a | none => "none"))))
    | _, _ => (s, bad)
  | _ => (s, bad)

end LanceModel.C34.Driver
