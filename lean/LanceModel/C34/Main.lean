import LanceModel.C34.Driver
def main : IO Unit := LanceModel.Util.runDriver LanceModel.C34.Driver.step []
