import LanceModel.C34.SeqSelMask
/-!
`RowIdSequence::mask_to_offset_ranges` (as fixed): the ranges cover exactly the offsets of the selected ids.
-/
namespace LanceModel.C34

/-- the offsets a list of half-open ranges stands for -/
def expandRanges (rs : List (Nat × Nat)) : List Nat := rs.flatMap (fun r => rangeList r.1 r.2)

theorem groupRuns_nonempty : ∀ (l : List Nat), ∀ r ∈ groupRuns l, r.1 < r.2 := by
  intro l
  induction l with
  | nil => intro r hr; simp [groupRuns] at hr
  | cons x xs ih =>
    intro r hr
    simp only [groupRuns] at hr
    cases hg : groupRuns xs with
    | nil =>
      rw [hg] at hr
      have : r = (x, x + 1) := by simpa using hr
      subst this; simp
    | cons ab t =>
      obtain ⟨a, b⟩ := ab
      rw [hg] at hr
      have hab : a < b := ih (a, b) (by rw [hg]; simp)
      simp only at hr
      split at hr
      · rename_i e
        rcases List.mem_cons.1 hr with h | h
        · subst h; simp; omega
        · exact ih r (by rw [hg]; simp [h])
      · rcases List.mem_cons.1 hr with h | h
        · subst h; simp
        · exact ih r (by rw [hg]; exact h)

/-- `GroupingIterator` loses nothing: expanding the runs gives the input back -/
theorem expand_groupRuns : ∀ (l : List Nat), expandRanges (groupRuns l) = l := by
  intro l
  induction l with
  | nil => rfl
  | cons x xs ih =>
    simp only [groupRuns]
    cases hg : groupRuns xs with
    | nil =>
      rw [hg] at ih
      simp only [expandRanges, List.flatMap_cons, List.flatMap_nil, List.append_nil] at ih ⊢
      rw [← ih]
      simp [rangeList]
    | cons ab t =>
      obtain ⟨a, b⟩ := ab
      rw [hg] at ih
      have hab : a < b := groupRuns_nonempty xs (a, b) (by rw [hg]; simp)
      simp only
      split
      · rename_i e
        subst e
        simp only [expandRanges, List.flatMap_cons] at ih ⊢
        rw [rangeList_succ x b (by omega), List.cons_append, ih]
      · simp only [expandRanges, List.flatMap_cons] at ih ⊢
        rw [ih]
        simp [rangeList]

theorem expandRanges_append (a b : List (Nat × Nat)) : expandRanges (a ++ b) = expandRanges a ++ expandRanges b := by
  simp [expandRanges]

theorem selOffsets_cons (sel : Nat → Bool) (x : Nat) (t : List Nat) (off : Nat) :
    selOffsets sel (x :: t) off = (if sel x then [off] else []) ++ selOffsets sel t (off + 1) := by
  unfold selOffsets
  rw [List.zipIdx_cons, List.filter_cons]
  by_cases h : sel x = true <;> simp [h]

theorem selOffsets_append : ∀ (A B : List Nat) (sel : Nat → Bool) (off : Nat),
    selOffsets sel (A ++ B) off = selOffsets sel A off ++ selOffsets sel B (off + A.length) := by
  intro A
  induction A with
  | nil => intro B sel off; simp [selOffsets]
  | cons a t ih =>
    intro B sel off
    rw [List.cons_append, selOffsets_cons, selOffsets_cons, ih, List.append_assoc]
    congr 3
    simp; omega

/-- if `g` maps every element to its offset, mapping the selected elements by `g` gives the selected offsets -/
theorem selOffsets_eq_map : ∀ (L : List Nat) (sel : Nat → Bool) (g : Nat → Nat) (off : Nat),
    (∀ i a, L[i]? = some a → g a = off + i) → (L.filter sel).map g = selOffsets sel L off := by
  intro L
  induction L with
  | nil => intro sel g off _; rfl
  | cons x t ih =>
    intro sel g off h
    rw [selOffsets_cons, List.filter_cons]
    have h0 := h 0 x (by simp)
    have := ih sel g (off + 1) (by
      intro i a hi
      have := h (i + 1) a (by simpa using hi)
      omega)
    by_cases hs : sel x = true
    · simp only [hs, if_true, List.map_cons, this]
      rw [h0]; rfl
    · have hs' : sel x = false := by simpa using hs
      simp only [hs', Bool.false_eq_true, if_false, this]
      rfl

/-- index of a value inside a filtered range (from `filter_range_index` and uniqueness) -/
theorem filter_range_getElem (p : Nat → Bool) (s e i a : Nat) (h : ((rangeList s e).filter p)[i]? = some a) :
    s ≤ a ∧ a < e ∧ p a = true ∧ i = ((List.range' s (a - s)).filter p).length := by
  have hm := List.mem_of_getElem? h
  rw [List.mem_filter] at hm
  have hr := mem_rangeList.1 hm.1
  refine ⟨hr.1, hr.2, hm.2, ?_⟩
  have hndf : ((rangeList s e).filter p).Nodup :=
    (List.nodup_range' (s := s) (n := e - s) 1).sublist List.filter_sublist
  have h0 : ((rangeList s e).filter p)[((List.range' s (a - s)).filter p).length]? = some a :=
    filter_range_index p s (e - s) a hr.1 (by omega) hm.2
  have hlt := (List.getElem?_eq_some_iff.1 h0).1
  exact ((List.getElem?_inj hlt hndf (j := i)).1 (by rw [h0]; exact h.symm)).symm

theorem count_true_add_false (l : List Bool) : l.count true + l.count false = l.length := by
  induction l with
  | nil => rfl
  | cons b t ih => cases b <;> simp [List.count_cons] <;> omega

theorem holes_count_before (s e v : Nat) (hs : List Nat) (hp : hs.Pairwise (· < ·)) (hb : ∀ h ∈ hs, s ≤ h ∧ h < e) :
    (hs.takeWhile (· < v)).length ≤ v - s := by
  have h2 : (List.range' s (v - s)).filter (fun u => hs.contains u) = hs.filter (· < v) := by
    have := filter_range_mem (v - s) s (hs.filter (· < v)) (hp.filter _) (by
      intro x hx
      rw [List.mem_filter] at hx
      have := hb x hx.1
      have := hx.2
      simp at this
      omega)
    rw [← this]
    apply List.filter_congr
    intro u hu
    rw [List.mem_range'_1] at hu
    have hlt : u < v := by omega
    by_cases hm : u ∈ hs
    · have : u ∈ hs.filter (· < v) := List.mem_filter.2 ⟨hm, by simpa using hlt⟩
      simp [hm, this]
    · have : u ∉ hs.filter (· < v) := fun h => hm (List.mem_filter.1 h).1
      simp [hm, this]
  rw [takeWhile_lt_eq_filter hs v hp, ← h2]
  have := List.length_filter_le (fun u => hs.contains u) (List.range' s (v - s))
  rw [List.length_range'] at this
  exact this

theorem segMaskOffsets_spec (sel : Nat → Bool) (off : Nat) (s : Seg) (hw : s.WF) :
    expandRanges (segMaskOffsets sel off s).1 = selOffsets sel s.toList off ∧
    (segMaskOffsets sel off s).2 = off + s.toList.length := by
  cases s with
  | range a b =>
    simp only [segMaskOffsets, Seg.toList, expand_groupRuns]
    refine ⟨?_, by simp [rangeList]⟩
    apply selOffsets_eq_map
    intro i x hi
    have : (rangeList a b)[i]? = ((rangeList a b).filter (fun _ => true))[i]? := by
      rw [List.filter_eq_self.2 (by simp)]
    rw [this] at hi
    obtain ⟨h1, _, _, h4⟩ := filter_range_getElem _ _ _ _ _ hi
    rw [List.filter_eq_self.2 (by simp), List.length_range'] at h4
    omega
  | holes a b hs =>
    obtain ⟨hab, hp, hb⟩ := hw
    simp only [segMaskOffsets, Seg.toList, expand_groupRuns]
    constructor
    · have hff : (rangeList a b).filter (fun v => !hs.contains v && sel v) =
          ((rangeList a b).filter (fun v => !hs.contains v)).filter sel := by
        rw [List.filter_filter]
        apply List.filter_congr
        intro x _
        exact Bool.and_comm _ _
      rw [hff]
      apply selOffsets_eq_map
      intro i x hi
      obtain ⟨h1, h2, _, h4⟩ := filter_range_getElem _ _ _ _ _ hi
      rw [holes_before a b x hs hp hb] at h4
      rw [← takeWhile_lt_eq_filter hs x hp]
      have hk : (hs.takeWhile (· < x)).length ≤ x - a := holes_count_before a b x hs hp hb
      omega
    · have h1 := length_filter_add (fun v => hs.contains v) (rangeList a b)
      have h2 : (rangeList a b).length = b - a := by simp [rangeList]
      have h3 : (List.filter (fun x => !(fun v => hs.contains v) x) (rangeList a b)) =
          (List.filter (fun v => !hs.contains v) (rangeList a b)) := rfl
      rw [h3] at h1
      omega
  | bitmap a b bits =>
    obtain ⟨hab, hl⟩ := hw
    simp only [segMaskOffsets, Seg.toList, expand_groupRuns]
    constructor
    · have hff : (rangeList a b).filter (fun v => bitAt bits (v - a) && sel v) =
          ((rangeList a b).filter (fun v => bitAt bits (v - a))).filter sel := by
        rw [List.filter_filter]
        apply List.filter_congr
        intro x _
        exact Bool.and_comm _ _
      rw [hff]
      apply selOffsets_eq_map
      intro i x hi
      obtain ⟨h1, h2, _, h4⟩ := filter_range_getElem _ _ _ _ _ hi
      rw [bits_before a (x - a) bits (by omega)] at h4
      have hcnt : (bits.take (x - a)).count true + (bits.take (x - a)).count false = x - a := by
        rw [count_true_add_false, List.length_take, Nat.min_eq_left (by omega)]
      omega
    · have h1 := length_filter_add (fun v => bitAt bits (v - a)) (rangeList a b)
      have h2 : (rangeList a b).length = b - a := by simp [rangeList]
      have h3 : (List.filter (fun x => !(fun v => bitAt bits (v - a)) x) (rangeList a b)) =
          (List.filter (fun v => !bitAt bits (v - a)) (rangeList a b)) := rfl
      rw [h3] at h1
      omega
  | sorted a => simp [segMaskOffsets, Seg.toList, expand_groupRuns]
  | array a => simp [segMaskOffsets, Seg.toList, expand_groupRuns]

theorem Seq.maskToOffsetRanges_go : ∀ (q : Seq) (sel : Nat → Bool) (off : Nat), Seq.WF q →
    expandRanges (Seq.maskToOffsetRanges sel q off) = selOffsets sel (Seq.toList q) off := by
  intro q
  induction q with
  | nil => intro sel off _; rfl
  | cons s t ih =>
    intro sel off hw
    have hw' := Seq.WF_cons.1 hw
    obtain ⟨h1, h2⟩ := segMaskOffsets_spec sel off s hw'.1
    simp only [Seq.maskToOffsetRanges]
    rw [expandRanges_append, h1, h2, ih sel _ hw'.2, Seq.toList_cons, selOffsets_append]

/-- every range `mask_to_offset_ranges` returns is non-empty -/
theorem Seq.maskToOffsetRanges_nonempty : ∀ (q : Seq) (sel : Nat → Bool) (off : Nat),
    ∀ r ∈ Seq.maskToOffsetRanges sel q off, r.1 < r.2 := by
  intro q
  induction q with
  | nil => intro sel off r hr; simp [Seq.maskToOffsetRanges] at hr
  | cons s t ih =>
    intro sel off r hr
    simp only [Seq.maskToOffsetRanges, List.mem_append] at hr
    rcases hr with hr | hr
    · cases s <;> exact groupRuns_nonempty _ r hr
    · exact ih sel _ r hr

end LanceModel.C34
