import LanceModel.C34.SeqDelete
/-!
`EncodedU64Array::from(Vec<u64>)` keeps the values, and the offsets fit the chosen width.
-/
namespace LanceModel.C34

theorem Enc.ofList_spec (vals : List Nat) :
    (Enc.ofList vals).toList = vals ∧ (Enc.ofList vals).Fits ∧ ∀ i, (Enc.ofList vals).get i = vals[i]? := by
  cases vals with
  | nil => simp [Enc.ofList, listMin, listMax, Enc.toList, Enc.Fits, Enc.get]
  | cons a t =>
    have hmin := foldl_min_le t a
    have hmax := foldl_max_ge t a
    have hle : ∀ x ∈ a :: t, t.foldl min a ≤ x ∧ x ≤ t.foldl max a := by
      intro x hx
      rcases List.mem_cons.1 hx with rfl | hx'
      · exact ⟨hmin.1, hmax.1⟩
      · exact ⟨hmin.2 x hx', hmax.2 x hx'⟩
    have hback : (List.map (fun x => t.foldl min a + x) (List.map (fun x => x - t.foldl min a) (a :: t))) = a :: t := by
      rw [List.map_map]
      conv => rhs; rw [← List.map_id (a :: t)]
      apply List.map_congr_left
      intro x hx
      have := (hle x hx).1
      simp only [Function.comp, id]
      omega
    have hget : ∀ i : Nat, ((List.map (fun x => x - t.foldl min a) (a :: t))[i]?).map (fun x => t.foldl min a + x) = (a :: t)[i]? := by
      intro i
      rw [← List.getElem?_map, hback]
    simp only [Enc.ofList, listMin, listMax]
    split
    · refine ⟨hback, ?_, hget⟩
      intro x hx
      rw [List.mem_map] at hx
      obtain ⟨y, hy, rfl⟩ := hx
      have := hle y hy
      omega
    · split
      · refine ⟨hback, ?_, hget⟩
        intro x hx
        rw [List.mem_map] at hx
        obtain ⟨y, hy, rfl⟩ := hx
        have := hle y hy
        omega
      · exact ⟨rfl, trivial, fun _ => rfl⟩

end LanceModel.C34
