import LanceModel.C34.SeqDelete
/-!
`EncodedU64Array::from(Vec<u64>)` keeps the values, and the offsets fit the chosen width.
-/
namespace LanceModel.C34

theorem Enc.ofList_spec (vals : List Nat) :
    (Enc.ofList vals).toList = vals ∧ (Enc.ofList vals).Fits ∧ ∀ i, (Enc.ofList vals).get i = vals[i]? := by
  cases vals with
  | nil => simp [Enc.ofList, listMin, listMax, Enc.toList, Enc.Fits, Enc.get]
  | cons a t =>
    have hmin := foldl_min_le t a
    have hmax := foldl_max_ge t a
    have hle : ∀ x ∈ a :: t, t.foldl min a ≤ x ∧ x ≤ t.foldl max a := by
      intro x hx
      rcases List.mem_cons.1 hx with rfl | hx'
      · exact ⟨hmin.1, hmax.1⟩
      · exact ⟨hmin.2 x hx', hmax.2 x hx'⟩
    have hback : (List.map (fun x => t.foldl min a + x) (List.map (fun x => x - t.foldl min a) (a :: t))) = a :: t := by
      rw [List.map_map]
      conv => rhs; rw [← List.map_id (a :: t)]
      apply List.map_congr_left
      intro x hx
      have := (hle x hx).1
      simp only [Function.comp, id]
      omega
    have hget : ∀ i : Nat, ((List.map (fun x => x - t.foldl min a) (a :: t))[i]?).map (fun x => t.foldl min a + x) = (a :: t)[i]? := by
      intro i
      rw [← List.getElem?_map, hback]
    simp only [Enc.ofList, listMin, listMax]
    split
    · refine ⟨hback, ?_, hget⟩
      intro x hx
      rw [List.mem_map] at hx
      obtain ⟨y, hy, rfl⟩ := hx
      have := hle y hy
      omega
    · split
      · refine ⟨hback, ?_, hget⟩
        intro x hx
        rw [List.mem_map] at hx
        obtain ⟨y, hy, rfl⟩ := hx
        have := hle y hy
        omega
      · exact ⟨rfl, trivial, fun _ => rfl⟩


theorem nodup_of_map {f : Nat → Nat} {l : List Nat} (h : (l.map f).Nodup) : l.Nodup := by
  unfold List.Nodup at h ⊢
  rw [List.pairwise_map] at h
  exact h.imp (fun hne e => hne (by rw [e]))

theorem offset_search (b lim : Nat) (o : List Nat) (hfit : ∀ x ∈ o, x ≤ lim) (hnd : o.Nodup) (v i : Nat) :
    ((if v < b then none else if v - b > lim then none else o.idxOf? ((v - b) % (lim + 1))) = some i) ↔
    (o.map (b + ·))[i]? = some v := by
  rw [List.getElem?_map]
  by_cases h1 : v < b
  · simp only [h1, if_true]
    constructor
    · intro h; cases h
    · intro h
      cases ho : o[i]? with
      | none => rw [ho] at h; cases h
      | some x => rw [ho] at h; simp at h; omega
  · simp only [h1, if_false]
    by_cases h2 : v - b > lim
    · simp only [h2, if_true]
      constructor
      · intro h; cases h
      · intro h
        cases ho : o[i]? with
        | none => rw [ho] at h; cases h
        | some x =>
          rw [ho] at h
          have := hfit x (List.mem_of_getElem? ho)
          simp at h; omega
    · simp only [h2, if_false]
      rw [Nat.mod_eq_of_lt (by omega), idxOf?_spec o (v - b) i hnd]
      constructor
      · intro h; rw [h]; simp; omega
      · intro h
        cases ho : o[i]? with
        | none => rw [ho] at h; cases h
        | some x => rw [ho] at h; simp at h; congr 1; omega

/-- `EncodedU64Array::binary_search(v)` succeeds exactly on the stored values and returns their index, for every offset
    width: the range check before the narrowing cast is what makes a probe far above the base miss -/
theorem Enc.binarySearch_spec (e : Enc) (hfit : e.Fits) (hnd : e.toList.Nodup) (v i : Nat) :
    e.binarySearch v = some i ↔ e.toList[i]? = some v := by
  cases e with
  | u16 b o =>
    have hnd' : o.Nodup := by
      simp only [Enc.toList] at hnd
      exact nodup_of_map hnd
    exact offset_search b 65535 o hfit hnd' v i
  | u32 b o =>
    have hnd' : o.Nodup := by
      simp only [Enc.toList] at hnd
      exact nodup_of_map hnd
    exact offset_search b 4294967295 o hfit hnd' v i
  | u64 vals => exact idxOf?_spec vals v i hnd


theorem Enc.binarySearch_isSome (e : Enc) (hfit : e.Fits) (hnd : e.toList.Nodup) (v : Nat) :
    (e.binarySearch v).isSome = e.toList.contains v := by
  apply Bool.eq_iff_iff.2
  rw [Option.isSome_iff_exists]
  simp only [List.contains_eq_mem, decide_eq_true_eq]
  constructor
  · rintro ⟨i, hi⟩
    exact List.mem_of_getElem? ((e.binarySearch_spec hfit hnd v i).1 hi)
  · intro hm
    obtain ⟨i, hi⟩ := List.mem_iff_getElem?.1 hm
    exact ⟨i, (e.binarySearch_spec hfit hnd v i).2 hi⟩

/-- an array stored with an explicit offset width holds the values and its offsets fit -/
theorem Enc.withWidth_spec (w : Nat) (vals : List Nat) (e : Enc) (h : Enc.withWidth w vals = some e) :
    e.toList = vals ∧ e.Fits := by
  cases vals with
  | nil =>
    simp only [Enc.withWidth, listMin, listMax] at h
    split at h
    · cases h; exact ⟨rfl, trivial⟩
    · cases h
  | cons a t =>
    have hmin := foldl_min_le t a
    have hmax := foldl_max_ge t a
    have hle : ∀ x ∈ a :: t, t.foldl min a ≤ x ∧ x ≤ t.foldl max a := by
      intro x hx
      rcases List.mem_cons.1 hx with rfl | hx'
      · exact ⟨hmin.1, hmax.1⟩
      · exact ⟨hmin.2 x hx', hmax.2 x hx'⟩
    have hback : (List.map (fun x => t.foldl min a + x) (List.map (fun x => x - t.foldl min a) (a :: t))) = a :: t := by
      rw [List.map_map]
      conv => rhs; rw [← List.map_id (a :: t)]
      apply List.map_congr_left
      intro x hx
      have := (hle x hx).1
      simp only [Function.comp, id]
      omega
    have hfits : ∀ lim, t.foldl max a - t.foldl min a ≤ lim →
        ∀ x ∈ List.map (fun x => x - t.foldl min a) (a :: t), x ≤ lim := by
      intro lim hl x hx
      rw [List.mem_map] at hx
      obtain ⟨y, hy, rfl⟩ := hx
      have := hle y hy
      omega
    simp only [Enc.withWidth, listMin, listMax] at h
    split at h
    · split at h
      · cases h; rename_i hl; exact ⟨hback, hfits _ hl⟩
      · cases h
    · split at h
      · split at h
        · cases h; rename_i hl; exact ⟨hback, hfits _ hl⟩
        · cases h
      · split at h
        · cases h; exact ⟨rfl, trivial⟩
        · cases h

end LanceModel.C34
