import LanceModel.C34.Model
/-!
Lemmas about the segment encodings: the abstraction function of whatever `fromStats` builds is the input list.
-/
namespace LanceModel.C34

theorem rangeList_succ (s e : Nat) (h : s < e) : rangeList s e = s :: rangeList (s + 1) e := by
  unfold rangeList
  have : e - s = (e - (s + 1)) + 1 := by omega
  rw [this, List.range'_succ]

theorem mem_rangeList {s e v : Nat} : v ∈ rangeList s e ↔ s ≤ v ∧ v < e := by
  unfold rangeList
  rw [List.mem_range'_1]
  omega

theorem rangeList_pairwise (s e : Nat) : (rangeList s e).Pairwise (· < ·) := by
  unfold rangeList
  exact List.pairwise_lt_range'

/-- a strictly increasing list inside `[s, s+n)` is what membership filters out of the range -/
theorem filter_range_mem (n : Nat) : ∀ (s : Nat) (xs : List Nat), xs.Pairwise (· < ·) →
    (∀ x ∈ xs, s ≤ x ∧ x < s + n) → (List.range' s n).filter (fun v => xs.contains v) = xs := by
  induction n with
  | zero =>
    intro s xs _ hb
    cases xs with
    | nil => simp
    | cons x t => have := hb x (by simp); omega
  | succ n ih =>
    intro s xs hp hb
    rw [List.range'_succ]
    cases xs with
    | nil => simp
    | cons x t =>
      have hx := hb x (by simp)
      rw [List.pairwise_cons] at hp
      by_cases hxs : x = s
      · subst hxs
        have ht : ∀ y ∈ t, x + 1 ≤ y ∧ y < x + 1 + n := by
          intro y hy
          have := hb y (by simp [hy]); have := hp.1 y hy; omega
        have := ih (x + 1) t hp.2 ht
        simp only [List.filter_cons, List.contains_cons, beq_self_eq_true, Bool.true_or, if_true]
        congr 1
        refine Eq.trans (List.filter_congr ?_) this
        intro v hv
        have : x + 1 ≤ v := by
          rw [List.mem_range'] at hv; obtain ⟨i, _, rfl⟩ := hv; omega
        have hne : (v == x) = false := by simp; omega
        simp [hne]
      · have hall : ∀ y ∈ (x :: t), s + 1 ≤ y ∧ y < s + 1 + n := by
          intro y hy
          have := hb y hy
          rcases List.mem_cons.1 hy with rfl | hy'
          · omega
          · have := hp.1 y hy'; omega
        have := ih (s + 1) (x :: t) (List.pairwise_cons.2 hp) hall
        have hs : (x :: t).contains s = false := by
          apply Bool.eq_false_iff.2
          intro hc
          have := hall s (by simpa using hc)
          omega
        simp only [List.filter_cons, hs]
        simpa using this

theorem skipWalk_nil (l : List Nat) : skipWalk l [] = l := by
  cases l <;> simp [skipWalk]

/-- `holes_in_slice`: walking a range against a strictly increasing list of existing values (all ≥ start) keeps exactly
    the values of the range that do not exist -/
theorem skipWalk_range (n : Nat) : ∀ (s : Nat) (xs : List Nat), xs.Pairwise (· < ·) → (∀ x ∈ xs, s ≤ x) →
    skipWalk (List.range' s n) xs = (List.range' s n).filter (fun v => !xs.contains v) := by
  induction n with
  | zero => intro s xs _ _; simp [skipWalk]
  | succ n ih =>
    intro s xs hp hb
    rw [List.range'_succ]
    cases xs with
    | nil =>
      simp only [skipWalk, List.contains_nil, Bool.not_false]
      exact (List.filter_eq_self.2 (by simp)).symm
    | cons x t =>
      rw [List.pairwise_cons] at hp
      have hx := hb x (by simp)
      by_cases hxs : x = s
      · subst hxs
        have ht : ∀ y ∈ t, x + 1 ≤ y := by
          intro y hy; have := hp.1 y hy; omega
        simp only [skipWalk, if_true, List.filter_cons, List.contains_cons, beq_self_eq_true, Bool.true_or,
          Bool.not_true, Bool.false_eq_true, if_false]
        rw [ih (x + 1) t hp.2 ht]
        apply List.filter_congr
        intro v hv
        have : x + 1 ≤ v := by
          rw [List.mem_range'] at hv; obtain ⟨i, _, rfl⟩ := hv; omega
        have hne : (v == x) = false := by simp; omega
        simp [hne]
      · have hall : ∀ y ∈ (x :: t), s + 1 ≤ y := by
          intro y hy
          have := hb y hy
          rcases List.mem_cons.1 hy with rfl | hy'
          · omega
          · have := hp.1 y hy'; omega
        have hs : (x :: t).contains s = false := by
          apply Bool.eq_false_iff.2
          intro hc
          have := hall s (by simpa using hc)
          omega
        simp only [skipWalk, hxs, if_false, List.filter_cons, hs, Bool.not_false, if_true]
        rw [ih (s + 1) (x :: t) (List.pairwise_cons.2 hp) hall]


/-- what `fromStats` needs to know about the statistics it is given: only when they claim `sorted` -/
def GoodStats (st : Stats) (xs : List Nat) : Prop :=
  st.sorted = true → xs.Pairwise (· < ·) ∧ st.count = xs.length ∧ ∀ x ∈ xs, st.min ≤ x ∧ x ≤ st.max

theorem bitAt_set_false (bits : List Bool) (j i : Nat) :
    bitAt (bits.set j false) i = (bitAt bits i && !(i == j)) := by
  unfold bitAt
  rw [List.getElem?_set]
  by_cases h : j = i
  · subst h
    by_cases hl : j < bits.length <;> simp [hl]
  · have : (i == j) = false := by simp; omega
    simp [h, this]

theorem bitAt_clearBits (mn : Nat) (holes : List Nat) : ∀ (bits : List Bool) (i : Nat),
    bitAt (clearBits mn holes bits) i = (bitAt bits i && !(holes.any (fun h => h - mn == i))) := by
  induction holes with
  | nil => intro bits i; simp [clearBits]
  | cons h t ih =>
    intro bits i
    have : clearBits mn (h :: t) bits = clearBits mn t (bits.set (h - mn) false) := rfl
    rw [this, ih, bitAt_set_false]
    simp only [List.any_cons, Bool.not_or]
    by_cases hc : i = h - mn
    · subst hc; simp
    · have h1 : (i == h - mn) = false := by simp; omega
      have h2 : (h - mn == i) = false := by simp; omega
      simp [h1, h2]

theorem bitAt_replicate (n i : Nat) (h : i < n) : bitAt (List.replicate n true) i = true := by
  unfold bitAt
  simp [h]

theorem length_clearBits (mn : Nat) (holes : List Nat) : ∀ bits : List Bool,
    (clearBits mn holes bits).length = bits.length := by
  induction holes with
  | nil => intro bits; rfl
  | cons h t ih =>
    intro bits
    have : clearBits mn (h :: t) bits = clearBits mn t (bits.set (h - mn) false) := rfl
    rw [this, ih, List.length_set]

/-- the values of `[mn, mx]` missing from `xs` (the holes) as computed by the walk -/
theorem holes_eq (mn mx : Nat) (xs : List Nat) (hp : xs.Pairwise (· < ·)) (hb : ∀ x ∈ xs, mn ≤ x ∧ x ≤ mx) :
    skipWalk (rangeList mn (mx + 1)) xs = (rangeList mn (mx + 1)).filter (fun v => !xs.contains v) := by
  unfold rangeList
  exact skipWalk_range _ _ _ hp (fun x hx => (hb x hx).1)

theorem sorted_eq_filter (mn mx : Nat) (xs : List Nat) (hp : xs.Pairwise (· < ·)) (hb : ∀ x ∈ xs, mn ≤ x ∧ x ≤ mx) :
    (rangeList mn (mx + 1)).filter (fun v => xs.contains v) = xs := by
  unfold rangeList
  apply filter_range_mem _ _ _ hp
  intro x hx
  have := hb x hx
  omega

theorem contains_filter_not (R xs : List Nat) (v : Nat) (hv : v ∈ R) :
    (R.filter (fun v => !xs.contains v)).contains v = !xs.contains v := by
  by_cases hm : v ∈ xs
  · have h1 : xs.contains v = true := by simpa using hm
    rw [h1]
    apply Bool.eq_false_iff.2
    intro hc
    have := List.mem_filter.1 (by simpa using hc : v ∈ R.filter (fun v => !xs.contains v))
    simp at this
    exact this.2 hm
  · have h1 : xs.contains v = false := by simpa using hm
    rw [h1]
    have : v ∈ R.filter (fun v => !xs.contains v) := List.mem_filter.2 ⟨hv, by simp [hm]⟩
    simpa using this

theorem any_sub_eq (H : List Nat) (mn v : Nat) (hH : ∀ h ∈ H, mn ≤ h) (hv : mn ≤ v) :
    H.any (fun h => h - mn == v - mn) = H.contains v := by
  induction H with
  | nil => rfl
  | cons a t ih =>
    have ha := hH a (by simp)
    rw [List.any_cons, List.contains_cons, ih (fun h hh => hH h (by simp [hh]))]
    congr 1
    by_cases e : a = v
    · subst e; simp
    · have h1 : (a - mn == v - mn) = false := by simp; omega
      have h2 : (v == a) = false := by simp; omega
      rw [h1, h2]

theorem fromStats_faithful (st : Stats) (xs : List Nat) (h : GoodStats st xs) : (fromStats st xs).toList = xs := by
  unfold fromStats
  by_cases hs : st.sorted = true
  · obtain ⟨hp, hc, hb⟩ := h hs
    simp only [hs, if_true]
    by_cases h0 : st.count = 0
    · simp only [h0, if_true]
      have : xs = [] := List.eq_nil_of_length_eq_zero (by omega)
      subst this
      simp [Seg.toList, rangeList]
    · simp only [h0, if_false]
      have hne : xs ≠ [] := by intro e; subst e; simp at hc; exact h0 hc
      obtain ⟨x0, hx0⟩ := List.exists_mem_of_ne_nil xs hne
      have hmm : st.min ≤ st.max := by have := hb x0 hx0; omega
      have hfil := sorted_eq_filter st.min st.max xs hp hb
      by_cases hn : nHoles st = 0
      · simp only [hn, if_true, Seg.toList]
        -- no holes: the filter keeps everything
        have hlen : ((rangeList st.min (st.max + 1)).filter (fun v => xs.contains v)).length = (rangeList st.min (st.max + 1)).length := by
          rw [hfil]
          unfold nHoles at hn
          simp only [h0, if_false] at hn
          have h1 : (rangeList st.min (st.max + 1)).length = st.max + 1 - st.min := by simp [rangeList]
          have h2 : xs.length ≤ (rangeList st.min (st.max + 1)).length := by
            have := List.length_filter_le (fun v => xs.contains v) (rangeList st.min (st.max + 1))
            rw [hfil] at this; exact this
          omega
        have := List.length_filter_eq_length_iff.1 hlen
        rw [← hfil]
        exact (List.filter_eq_self.2 this).symm
      · simp only [hn, if_false]
        by_cases hA : minSize st = sizeHoles st
        · simp only [hA, if_true, Seg.toList]
          rw [holes_eq _ _ _ hp hb]
          refine Eq.trans (List.filter_congr ?_) hfil
          intro v hv
          rw [contains_filter_not _ _ _ hv]
          simp
        · simp only [hA, if_false]
          by_cases hB : minSize st = sizeBitmap st
          · simp only [hB, if_true, Seg.toList]
            rw [holes_eq _ _ _ hp hb]
            refine Eq.trans (List.filter_congr ?_) hfil
            intro v hv
            have hvr := mem_rangeList.1 hv
            rw [bitAt_clearBits, bitAt_replicate _ _ (by omega)]
            rw [any_sub_eq _ _ _ (fun h hh => (mem_rangeList.1 (List.mem_filter.1 hh).1).1) hvr.1]
            rw [contains_filter_not _ _ _ hv]
            simp
          · simp [hB, Seg.toList]
  · have : st.sorted = false := by simpa using hs
    simp [this, Seg.toList]


/-! ### `compute_stats` -/

/-- loop invariant of `compute_stats` after the prefix `p` -/
def StatsInv (p : List Nat) (st : Stats) : Prop :=
  st.count = p.length ∧ (∀ x ∈ p, st.min ≤ x ∧ x ≤ st.max) ∧ (p ≠ [] → st.max ∈ p ∧ st.min ∈ p) ∧
  (st.sorted = true ↔ p.Pairwise (· ≤ ·))

theorem statsInv_step (p : List Nat) (st : Stats) (v : Nat) (h : StatsInv p st) (hp : p = [] → st.min = U64MAX ∧ st.max = 0)
    (hv : v ≤ U64MAX) : StatsInv (p ++ [v]) (statsStep st v) := by
  obtain ⟨hc, hb, hm, hs⟩ := h
  refine ⟨by simp [statsStep, hc], ?_, ?_, ?_⟩
  · intro x hx
    simp only [statsStep]
    rcases List.mem_append.1 hx with hx | hx
    · have := hb x hx
      constructor <;> split <;> omega
    · have : x = v := by simpa using hx
      subst this
      constructor <;> split <;> omega
  · intro _
    simp only [statsStep]
    by_cases hpe : p = []
    · obtain ⟨h1, h2⟩ := hp hpe
      subst hpe
      simp only [List.nil_append, List.mem_singleton]
      constructor <;> split <;> omega
    · obtain ⟨h1, h2⟩ := hm hpe
      constructor
      · split
        · simp
        · exact List.mem_append_left _ h1
      · split
        · simp
        · exact List.mem_append_left _ h2
  · rw [List.pairwise_append]
    simp only [statsStep, List.pairwise_cons, List.Pairwise.nil, List.mem_singleton, forall_eq, and_true]
    by_cases hpe : p = []
    · subst hpe
      have : st.count = 0 := by simpa using hc
      have hst : st.sorted = true := hs.2 List.Pairwise.nil
      simp [this, hst]
    · have hcp : st.count + 1 > 1 := by
        have : p.length ≠ 0 := by intro e; exact hpe (List.eq_nil_of_length_eq_zero e)
        omega
      obtain ⟨hmax, _⟩ := hm hpe
      constructor
      · intro h
        have hst : st.sorted = true := by
          by_cases e : st.sorted = true
          · exact e
          · have e' : st.sorted = false := by simpa using e
            simp [e'] at h
        simp only [hst, hcp, decide_true, Bool.true_and] at h
        have hge : ¬ v < (if v > st.max then v else st.max) := by
          intro hlt; simp [hlt] at h
        refine ⟨hs.1 hst, by simp, fun a ha => ?_⟩
        have := (hb a ha).2
        split at hge <;> omega
      · intro ⟨hpw, hall⟩
        have hst := hs.2 hpw
        have := hall.2 _ hmax
        have hge : ¬ v < (if v > st.max then v else st.max) := by split <;> omega
        simp [hst, hge]

theorem statsInv_foldl (xs : List Nat) : ∀ (p : List Nat) (st : Stats), StatsInv p st →
    (p = [] → st.min = U64MAX ∧ st.max = 0) → (∀ x ∈ xs, x ≤ U64MAX) →
    StatsInv (p ++ xs) (xs.foldl statsStep st) := by
  induction xs with
  | nil => intro p st h _ _; simpa using h
  | cons v t ih =>
    intro p st h hp hle
    have := ih (p ++ [v]) (statsStep st v) (statsInv_step p st v h hp (hle v (by simp))) (by simp)
      (fun x hx => hle x (by simp [hx]))
    simpa using this

theorem computeStats_inv (xs : List Nat) (hle : ∀ x ∈ xs, x ≤ U64MAX) (hne : xs ≠ []) : StatsInv xs (computeStats xs) := by
  unfold computeStats
  simp only [hne, if_false]
  have := statsInv_foldl xs [] { min := U64MAX, max := 0, count := 0, sorted := true }
    ⟨rfl, by simp, by simp, by simp⟩ (fun _ => ⟨rfl, rfl⟩) hle
  simpa using this

/-- the statistics of a duplicate-free list of `u64`s are good for `fromStats` -/
theorem computeStats_good (xs : List Nat) (hle : ∀ x ∈ xs, x ≤ U64MAX) (hnd : xs.Nodup) : GoodStats (computeStats xs) xs := by
  by_cases hne : xs = []
  · subst hne
    intro _
    simp [computeStats]
  · obtain ⟨hc, hb, _, hs⟩ := computeStats_inv xs hle hne
    intro hsorted
    refine ⟨?_, hc, hb⟩
    have h1 := hs.1 hsorted
    exact (h1.and hnd).imp (fun h => by omega)

/-- `from_slice` keeps the ids, whatever encoding it picks -/
theorem fromSlice_toList (xs : List Nat) (hle : ∀ x ∈ xs, x ≤ U64MAX) (hnd : xs.Nodup) : (fromSlice xs).toList = xs :=
  fromStats_faithful _ _ (computeStats_good xs hle hnd)

/-- and an unsorted list needs no side condition at all -/
theorem fromSlice_toList_unsorted (xs : List Nat) (h : (computeStats xs).sorted = false) : (fromSlice xs).toList = xs :=
  fromStats_faithful _ _ (fun hs => by rw [h] at hs; cases hs)

/-- strictly increasing input is recognised as sorted, so it never lands in the `Array` encoding -/
theorem computeStats_sorted (xs : List Nat) (hle : ∀ x ∈ xs, x ≤ U64MAX) (hp : xs.Pairwise (· < ·)) :
    (computeStats xs).sorted = true := by
  by_cases hne : xs = []
  · subst hne; simp [computeStats]
  · exact (computeStats_inv xs hle hne).2.2.2.2 (hp.imp (fun h => Nat.le_of_lt h))

end LanceModel.C34
