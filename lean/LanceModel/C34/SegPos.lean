import LanceModel.C34.SegMask
/-!
`U64Segment::position` and `with_new_high`.
-/
namespace LanceModel.C34

/-- the index of a kept value in a filtered range is the number of kept values before it -/
theorem filter_range_index (p : Nat → Bool) (s n v : Nat) (h1 : s ≤ v) (h2 : v < s + n) (hpv : p v = true) :
    ((List.range' s n).filter p)[((List.range' s (v - s)).filter p).length]? = some v := by
  have hsplit : List.range' s n = List.range' s (v - s) ++ List.range' v (n - (v - s)) := by
    have := @List.range'_append s (v - s) (n - (v - s)) 1
    rw [show s + 1 * (v - s) = v by omega, show v - s + (n - (v - s)) = n by omega] at this
    exact this.symm
  have hcons : List.range' v (n - (v - s)) = v :: List.range' (v + 1) (n - (v - s) - 1) := by
    have : n - (v - s) = (n - (v - s) - 1) + 1 := by omega
    rw [this, List.range'_succ]
    simp
  rw [hsplit, List.filter_append, List.getElem?_append_right (Nat.le_refl _), hcons, List.filter_cons, hpv]
  simp

theorem takeWhile_lt_eq_filter (hs : List Nat) (v : Nat) (hp : hs.Pairwise (· < ·)) :
    hs.takeWhile (· < v) = hs.filter (· < v) := by
  induction hs with
  | nil => rfl
  | cons h t ih =>
    rw [List.pairwise_cons] at hp
    by_cases c : h < v
    · simp [c, ih hp.2]
    · simp only [List.takeWhile_cons, List.filter_cons, c, decide_false, Bool.false_eq_true, if_false]
      symm
      rw [List.filter_eq_nil_iff]
      intro x hx
      have := hp.1 x hx
      simp; omega

theorem holes_before (s e v : Nat) (hs : List Nat) (hp : hs.Pairwise (· < ·)) (hb : ∀ h ∈ hs, s ≤ h ∧ h < e) :
    ((List.range' s (v - s)).filter (fun u => !hs.contains u)).length = (v - s) - (hs.takeWhile (· < v)).length := by
  have h1 := length_filter_add (fun u => hs.contains u) (List.range' s (v - s))
  have h2 : (List.range' s (v - s)).filter (fun u => hs.contains u) = hs.filter (· < v) := by
    have := filter_range_mem (v - s) s (hs.filter (· < v)) (hp.filter _) (by
      intro x hx
      rw [List.mem_filter] at hx
      have := hb x hx.1
      have := hx.2
      simp at this
      omega)
    rw [← this]
    apply List.filter_congr
    intro u hu
    rw [List.mem_range'_1] at hu
    have hlt : u < v := by omega
    by_cases hm : u ∈ hs
    · have : u ∈ hs.filter (· < v) := List.mem_filter.2 ⟨hm, by simpa using hlt⟩
      simp [hm, this]
    · have : u ∉ hs.filter (· < v) := fun h => hm (List.mem_filter.1 h).1
      simp [hm, this]
  rw [h2, ← takeWhile_lt_eq_filter hs v hp, List.length_range'] at h1
  have h3 : (List.filter (fun x => !(fun u => hs.contains u) x) (List.range' s (v - s))) =
      (List.filter (fun u => !hs.contains u) (List.range' s (v - s))) := rfl
  rw [h3] at h1
  omega

theorem bitAt_take (bits : List Bool) (k i : Nat) (h : i < k) : bitAt (bits.take k) i = bitAt bits i := by
  unfold bitAt
  rw [List.getElem?_take_of_lt h]

theorem bits_before (s k : Nat) (bits : List Bool) (hk : k ≤ bits.length) :
    ((List.range' s k).filter (fun u => bitAt bits (u - s))).length = (bits.take k).count true := by
  have := bitmap_filter_length (bits.take k) s
  rw [List.length_take, Nat.min_eq_left hk] at this
  rw [← this]
  congr 1
  apply List.filter_congr
  intro u hu
  rw [List.mem_range'_1] at hu
  rw [bitAt_take _ _ _ (by omega)]

theorem idxOf?_spec (a : List Nat) (v : Nat) : ∀ i, a.Nodup → (a.idxOf? v = some i ↔ a[i]? = some v) := by
  induction a with
  | nil => intro i _; simp [List.idxOf?]
  | cons x t ih =>
    intro i hnd
    rw [List.nodup_cons] at hnd
    rw [List.idxOf?_cons]
    by_cases e : x = v
    · subst e
      simp only [beq_self_eq_true, if_true]
      constructor
      · intro h; have : i = 0 := by simpa using h.symm
        subst this; simp
      · intro h
        cases i with
        | zero => rfl
        | succ j =>
          simp at h
          exact absurd (List.mem_of_getElem? h) hnd.1
    · have : (x == v) = false := by simpa using e
      simp only [this, Bool.false_eq_true, if_false]
      cases i with
      | zero =>
        simp only [List.getElem?_cons_zero, Option.some.injEq, e, iff_false]
        intro h
        cases hh : t.idxOf? v <;> simp [hh] at h
      | succ j =>
        simp only [List.getElem?_cons_succ]
        rw [← ih j hnd.2]
        cases hh : t.idxOf? v <;> simp

/-- `U64Segment::position` is the index at which `iter()` yields the value -/
theorem Seg.position_spec (s : Seg) (hwf : s.WF) (hnd : s.toList.Nodup) (v i : Nat) :
    s.position v = some i ↔ s.toList[i]? = some v := by
  -- the three range-based encodings share one argument
  have key : ∀ (a b : Nat) (p : Nat → Bool) (cnt : Nat),
      (a ≤ v → v < b → p v = true → ((List.range' a (v - a)).filter p).length = cnt) →
      ((if a ≤ v ∧ v < b ∧ p v = true then some cnt else none) = some i ↔
        ((rangeList a b).filter p)[i]? = some v) := by
    intro a b p cnt hcnt
    have hndf : ((rangeList a b).filter p).Nodup :=
      (List.nodup_range' (s := a) (n := b - a) 1).sublist List.filter_sublist
    constructor
    · intro h
      split at h
      · rename_i hc
        obtain ⟨h1, h2, h3⟩ := hc
        have hi : cnt = i := by simpa using h
        subst hi
        rw [← hcnt h1 h2 h3]
        exact filter_range_index p a (b - a) v h1 (by omega) h3
      · cases h
    · intro h
      have hm := List.mem_of_getElem? h
      rw [List.mem_filter] at hm
      have hr := mem_rangeList.1 hm.1
      rw [if_pos ⟨hr.1, hr.2, hm.2⟩]
      have h0 : ((rangeList a b).filter p)[((List.range' a (v - a)).filter p).length]? = some v :=
        filter_range_index p a (b - a) v hr.1 (by omega) hm.2
      rw [hcnt hr.1 hr.2 hm.2] at h0
      have hlt : cnt < ((rangeList a b).filter p).length := (List.getElem?_eq_some_iff.1 h0).1
      have := (List.getElem?_inj hlt hndf (j := i)).1 (by rw [h0]; exact h.symm)
      rw [this]
  cases s with
  | range a b =>
    have := key a b (fun _ => true) (v - a) (by intro _ _ _; rw [List.filter_eq_self.2 (by simp)]; simp)
    simp only [Seg.position, Seg.toList]
    rw [List.filter_eq_self.2 (by simp)] at this
    simpa using this
  | holes a b hs =>
    obtain ⟨_, hp, hb⟩ := hwf
    have := key a b (fun u => !hs.contains u) ((v - a) - (hs.takeWhile (· < v)).length)
      (by intro _ _ _; exact holes_before a b v hs hp hb)
    simp only [Seg.position, Seg.toList]
    simpa using this
  | bitmap a b bits =>
    obtain ⟨_, hl⟩ := hwf
    have := key a b (fun u => bitAt bits (u - a)) ((v - a) - ((v - a) - (bits.take (v - a)).count true))
      (by
        intro h1 h2 _
        rw [bits_before a (v - a) bits (by omega)]
        have := List.count_le_length (a := true) (l := bits.take (v - a))
        rw [List.length_take] at this
        omega)
    simp only [Seg.position, Seg.toList]
    exact this
  | sorted a => exact idxOf?_spec a v i hnd
  | array a => exact idxOf?_spec a v i hnd

/-- consequently `position` finds every id that is present and nothing else -/
theorem Seg.position_none (s : Seg) (hwf : s.WF) (hnd : s.toList.Nodup) (v : Nat) :
    s.position v = none ↔ v ∉ s.toList := by
  constructor
  · intro h hm
    obtain ⟨i, hi⟩ := List.mem_iff_getElem?.1 hm
    rw [(s.position_spec hwf hnd v i).2 hi] at h
    cases h
  · intro h
    cases hp : s.position v with
    | none => rfl
    | some i => exact absurd (List.mem_of_getElem? ((s.position_spec hwf hnd v i).1 hp)) h

end LanceModel.C34
