import LanceModel.C34.Rechunk
/-!
`RowIdIndex::get` on a well-formed chunk list, `mkChunk`, `decompose_sequence`.
-/
namespace LanceModel.C34

/-- the (row id, address) pairs a chunk stands for -/
def pairsOf (c : Chunk) : List (Nat × Nat) := c.ids.toList.zip c.addrs.toList

def allPairs (cs : List Chunk) : List (Nat × Nat) := cs.flatMap pairsOf

/-- what every chunk built by `decompose_sequence` / `merge_overlapping_chunks` satisfies: aligned id and address
    segments, unique ids, and a key range `[lo, hi]` that is the exact min / max of its ids -/
def ChunkOK (c : Chunk) : Prop :=
  c.ids.WF ∧ c.addrs.WF ∧ c.ids.toList.Nodup ∧ c.ids.toList.length = c.addrs.toList.length ∧
  (∀ x ∈ c.ids.toList, c.lo ≤ x ∧ x ≤ c.hi) ∧ c.lo ∈ c.ids.toList ∧ c.hi ∈ c.ids.toList

/-- the key ranges are disjoint and increasing along the list -/
def Chain (F : List Chunk) : Prop := F.Pairwise (fun c1 c2 => c1.hi < c2.lo)

theorem mem_zip_iff (A B : List Nat) (x a : Nat) : (x, a) ∈ A.zip B ↔ ∃ j : Nat, A[j]? = some x ∧ B[j]? = some a := by
  constructor
  · intro h
    obtain ⟨j, hj⟩ := List.mem_iff_getElem?.1 h
    rw [List.getElem?_zip_eq_some] at hj
    exact ⟨j, hj⟩
  · rintro ⟨j, h1, h2⟩
    exact List.mem_iff_getElem?.2 ⟨j, List.getElem?_zip_eq_some.2 ⟨h1, h2⟩⟩

theorem pairwise_cases {α : Type} {R : α → α → Prop} : ∀ (l : List α), l.Pairwise R → ∀ a ∈ l, ∀ b ∈ l, a = b ∨ R a b ∨ R b a := by
  intro l
  induction l with
  | nil => intro _ a ha; simp at ha
  | cons x t ih =>
    intro hp a ha b hb
    rw [List.pairwise_cons] at hp
    rcases List.mem_cons.1 ha with rfl | ha' <;> rcases List.mem_cons.1 hb with rfl | hb'
    · exact Or.inl rfl
    · exact Or.inr (Or.inl (hp.1 b hb'))
    · exact Or.inr (Or.inr (hp.1 a ha'))
    · exact ih hp.2 a ha' b hb'

/-- in a chain at most one chunk covers an id, and the lookup finds it -/
theorem find_covering (F : List Chunk) (hc : Chain F) (c : Chunk) (hm : c ∈ F) (id : Nat) (h1 : c.lo ≤ id) (h2 : id ≤ c.hi) :
    F.reverse.find? (fun c => decide (c.lo ≤ id ∧ id ≤ c.hi)) = some c := by
  cases hf : F.reverse.find? (fun c => decide (c.lo ≤ id ∧ id ≤ c.hi)) with
  | none =>
    rw [List.find?_eq_none] at hf
    have := hf c (by simpa using hm)
    simp at this
    omega
  | some c' =>
    have hm' : c' ∈ F := by simpa using List.mem_of_find?_eq_some hf
    have hcov := List.find?_some hf
    simp only [decide_eq_true_eq] at hcov
    rcases pairwise_cases F hc c hm c' hm' with e | h | h
    · rw [e]
    · omega
    · omega

/-- `RowIdIndex::get` on a chain of well-formed chunks with globally unique ids: a present id maps to its address, an
    absent id to nothing -/
theorem indexGet_spec (F : List Chunk) (hc : Chain F) (hok : ∀ c ∈ F, ChunkOK c) :
    (∀ id a, (id, a) ∈ allPairs F → indexGet F id = some a) ∧
    (∀ id, id ∉ (allPairs F).map Prod.fst → indexGet F id = none) := by
  constructor
  · intro id a hmem
    unfold allPairs at hmem
    rw [List.mem_flatMap] at hmem
    obtain ⟨c, hcF, hp⟩ := hmem
    obtain ⟨hw1, hw2, hnd, hlen, hcov, _, _⟩ := hok c hcF
    obtain ⟨j, hj1, hj2⟩ := (mem_zip_iff _ _ _ _).1 hp
    have hin := hcov id (List.mem_of_getElem? hj1)
    unfold indexGet
    rw [find_covering F hc c hcF id hin.1 hin.2]
    simp only
    rw [(c.ids.position_spec hw1 hnd id j).2 hj1]
    simp only
    rw [c.addrs.get_eq hw2, hj2]
  · intro id hno
    unfold indexGet
    cases hf : F.reverse.find? (fun c => decide (c.lo ≤ id ∧ id ≤ c.hi)) with
    | none => rfl
    | some c =>
      have hcF : c ∈ F := by simpa using List.mem_of_find?_eq_some hf
      obtain ⟨hw1, hw2, hnd, hlen, _, _, _⟩ := hok c hcF
      simp only
      have hnot : id ∉ c.ids.toList := by
        intro hm
        apply hno
        obtain ⟨j, hj⟩ := List.mem_iff_getElem?.1 hm
        have hjl : j < c.addrs.toList.length := by
          rw [← hlen]; exact (List.getElem?_eq_some_iff.1 hj).1
        rw [List.mem_map]
        refine ⟨(id, c.addrs.toList[j]), ?_, rfl⟩
        unfold allPairs
        rw [List.mem_flatMap]
        exact ⟨c, hcF, (mem_zip_iff _ _ _ _).2 ⟨j, hj, List.getElem?_eq_getElem hjl⟩⟩
      rw [(c.ids.position_none hw1 hnd id).2 hnot]

/-! ### `mkChunk` -/

theorem foldl_min_mem (t : List Nat) : ∀ x : Nat, t.foldl min x = x ∨ t.foldl min x ∈ t := by
  induction t with
  | nil => intro x; left; rfl
  | cons a t ih =>
    intro x
    simp only [List.foldl_cons]
    rcases ih (min x a) with h | h
    · rw [h]
      by_cases c : x ≤ a
      · left; omega
      · right; simp; left; omega
    · right; simp [h]

theorem foldl_max_mem (t : List Nat) : ∀ x : Nat, t.foldl max x = x ∨ t.foldl max x ∈ t := by
  induction t with
  | nil => intro x; left; rfl
  | cons a t ih =>
    intro x
    simp only [List.foldl_cons]
    rcases ih (max x a) with h | h
    · rw [h]
      by_cases c : a ≤ x
      · left; omega
      · right; simp; left; omega
    · right; simp [h]

/-- the key range `from_slice(..).range()` reports for a non-empty duplicate-free list is its exact min and max -/
theorem fromSlice_bounds (xs : List Nat) (hle : ∀ x ∈ xs, x ≤ U64MAX) (hnd : xs.Nodup) (hne : xs ≠ []) :
    ∃ lo hi, (fromSlice xs).bounds = some (some (lo, hi)) ∧ lo ∈ xs ∧ hi ∈ xs ∧ ∀ x ∈ xs, lo ≤ x ∧ x ≤ hi := by
  obtain ⟨hc, hb, hm, hs⟩ := computeStats_inv xs hle hne
  obtain ⟨hmax, hmin⟩ := hm hne
  have hmm : (computeStats xs).min ≤ (computeStats xs).max := (hb _ hmax).1
  have hcnt : (computeStats xs).count ≠ 0 := by
    rw [hc]; intro e; exact hne (List.eq_nil_of_length_eq_zero e)
  unfold fromSlice fromStats
  by_cases hso : (computeStats xs).sorted = true
  · simp only [hso, if_true, hcnt, if_false]
    have hres : ∀ s : Seg, (s = .range (computeStats xs).min ((computeStats xs).max + 1) ∨
        (∃ h, s = .holes (computeStats xs).min ((computeStats xs).max + 1) h) ∨
        (∃ b, s = .bitmap (computeStats xs).min ((computeStats xs).max + 1) b)) →
        s.bounds = some (some ((computeStats xs).min, (computeStats xs).max)) := by
      intro s h
      rcases h with rfl | ⟨h, rfl⟩ | ⟨b, rfl⟩
      · simp [Seg.bounds]; omega
      · simp [Seg.bounds]
      · simp [Seg.bounds]
    split
    · exact ⟨_, _, hres _ (Or.inl rfl), hmin, hmax, hb⟩
    · split
      · exact ⟨_, _, hres _ (Or.inr (Or.inl ⟨_, rfl⟩)), hmin, hmax, hb⟩
      · split
        · exact ⟨_, _, hres _ (Or.inr (Or.inr ⟨_, rfl⟩)), hmin, hmax, hb⟩
        · -- sorted array: head / last
          have hp : xs.Pairwise (· < ·) := ((hs.1 hso).and hnd).imp (fun h => by omega)
          cases xs with
          | nil => exact absurd rfl hne
          | cons a t =>
            obtain ⟨hi, hhi⟩ : ∃ hi, (a :: t).getLast? = some hi := ⟨_, List.getLast?_eq_some_getLast (by simp)⟩
            refine ⟨a, hi, by simp [Seg.bounds, hhi], by simp, List.mem_of_getLast? hhi, ?_⟩
            exact sorted_head_last (a :: t) hp a hi rfl hhi
  · have hso' : (computeStats xs).sorted = false := by simpa using hso
    simp only [hso', Bool.false_eq_true, if_false]
    cases xs with
    | nil => exact absurd rfl hne
    | cons a t =>
      refine ⟨t.foldl min a, t.foldl max a, by simp [Seg.bounds, listMin, listMax], ?_, ?_, ?_⟩
      · rcases foldl_min_mem t a with h | h
        · rw [h]; simp
        · simp [h]
      · rcases foldl_max_mem t a with h | h
        · rw [h]; simp
        · simp [h]
      · intro x hx
        have h1 := foldl_min_le t a
        have h2 := foldl_max_ge t a
        rcases List.mem_cons.1 hx with rfl | hx'
        · exact ⟨h1.1, h2.1⟩
        · exact ⟨h1.2 x hx', h2.2 x hx'⟩

theorem zip_map_fst_snd (pairs : List (Nat × Nat)) : (pairs.map Prod.fst).zip (pairs.map Prod.snd) = pairs := by
  induction pairs with
  | nil => rfl
  | cons p t ih => simp [ih]

/-- `mkChunk` of a non-empty pair list with unique ids and unique addresses -/
theorem mkChunk_spec (pairs : List (Nat × Nat)) (hne : pairs ≠ [])
    (h1 : (pairs.map Prod.fst).Nodup) (h2 : (pairs.map Prod.snd).Nodup)
    (hle : ∀ p ∈ pairs, p.1 ≤ U64MAX ∧ p.2 ≤ U64MAX) :
    ∃ c, mkChunk pairs = some c ∧ pairsOf c = pairs ∧ ChunkOK c := by
  have hle1 : ∀ x ∈ pairs.map Prod.fst, x ≤ U64MAX := by
    intro x hx; rw [List.mem_map] at hx; obtain ⟨p, hp, rfl⟩ := hx; exact (hle p hp).1
  have hle2 : ∀ x ∈ pairs.map Prod.snd, x ≤ U64MAX := by
    intro x hx; rw [List.mem_map] at hx; obtain ⟨p, hp, rfl⟩ := hx; exact (hle p hp).2
  have hne1 : pairs.map Prod.fst ≠ [] := by simpa using hne
  obtain ⟨lo, hi, hb, hlo, hhi, hcov⟩ := fromSlice_bounds _ hle1 h1 hne1
  have t1 := fromSlice_toList _ hle1 h1
  have t2 := fromSlice_toList _ hle2 h2
  refine ⟨{ lo := lo, hi := hi, ids := fromSlice (pairs.map Prod.fst), addrs := fromSlice (pairs.map Prod.snd) }, ?_, ?_, ?_⟩
  · unfold mkChunk; rw [hb]
  · unfold pairsOf; simp only; rw [t1, t2, zip_map_fst_snd]
  · refine ⟨fromSlice_WF _ hle1 h1, fromSlice_WF _ hle2 h2, ?_, ?_, ?_, ?_, ?_⟩
    · simp only; rw [t1]; exact h1
    · simp only; rw [t1, t2]; simp
    · simp only; rw [t1]; exact hcov
    · simp only; rw [t1]; exact hlo
    · simp only; rw [t1]; exact hhi

end LanceModel.C34
