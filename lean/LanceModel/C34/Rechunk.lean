import LanceModel.C34.SeqDelete
/-!
`rechunk_sequences`: cutting the concatenation of the input sequences into chunks of the requested sizes.
-/
namespace LanceModel.C34

/-- the plain-list meaning of re-chunking -/
def chunksOf : List Nat → List Nat → List (List Nat)
  | [], _ => []
  | c :: cs, l => l.take c :: chunksOf cs (l.drop c)

/-- the ids not yet handed out: the queue's ids without the first `segOff` -/
def pending (queue : List Seg) (segOff : Nat) : List Nat := (Seq.toList queue).drop segOff

/-- `segment_offset` points inside the peeked segment (or is 0) -/
def OffOk : List Seg → Nat → Prop
  | [], _ => True
  | s :: _, o => o < s.len ∨ o = 0

theorem seqValid_tail {s : Seg} {rest : List Seg} (hnd : (Seq.toList (s :: rest)).Nodup)
    (hle : ∀ x ∈ Seq.toList (s :: rest), x ≤ U64MAX) :
    s.toList.Nodup ∧ (∀ x ∈ s.toList, x ≤ U64MAX) ∧ (Seq.toList rest).Nodup ∧ (∀ x ∈ Seq.toList rest, x ≤ U64MAX) := by
  rw [Seq.toList_cons] at hnd hle
  obtain ⟨h1, h2⟩ := nodup_append_left hnd
  exact ⟨h1, fun x hx => hle x (by simp [hx]), h2, fun x hx => hle x (by simp [hx])⟩

theorem fillChunk_spec (allow : Bool) : ∀ (queue : List Seg) (segOff rem : Nat) (acc : Seq),
    Seq.WF queue → (Seq.toList queue).Nodup → (∀ x ∈ Seq.toList queue, x ≤ U64MAX) → Seq.WF acc → OffOk queue segOff →
    (if rem ≤ (pending queue segOff).length ∨ allow = true then
      ∃ acc' q' o', fillChunk allow queue segOff rem acc = some (acc', q', o') ∧
        Seq.toList acc' = Seq.toList acc ++ (pending queue segOff).take rem ∧
        pending q' o' = (pending queue segOff).drop rem ∧ Seq.WF acc' ∧ Seq.WF q' ∧ OffOk q' o' ∧
        (Seq.toList q').Nodup ∧ (∀ x ∈ Seq.toList q', x ≤ U64MAX)
     else fillChunk allow queue segOff rem acc = none) := by
  intro queue
  induction queue with
  | nil =>
    intro segOff rem acc _ hnd hle hacc _
    have hp : pending [] segOff = [] := by simp [pending, Seq.toList]
    rw [hp]
    simp only [fillChunk, List.length_nil, Nat.le_zero_eq]
    by_cases h0 : rem = 0
    · simp only [h0, true_or, if_true]
      exact ⟨acc, [], segOff, rfl, by simp, by simp [hp], hacc, by simp [Seq.WF], trivial, hnd, hle⟩
    · cases allow with
      | true =>
        simp only [h0, false_or, if_true, if_false]
        exact ⟨acc, [], segOff, rfl, by simp, by simp [hp], hacc, by simp [Seq.WF], trivial, hnd, hle⟩
      | false => simp [h0]
  | cons s rest ih =>
    intro segOff rem acc hw hnd hle hacc hok
    have hw' := Seq.WF_cons.1 hw
    obtain ⟨hsnd, hsle, hrnd, hrle⟩ := seqValid_tail hnd hle
    have hl := s.len_eq hw'.1
    have hP : pending (s :: rest) segOff = s.toList.drop segOff ++ Seq.toList rest := by
      unfold pending
      rw [Seq.toList_cons]
      rcases hok with h | h
      · rw [List.drop_append_of_le_length (by omega)]
      · subst h; simp
    simp only [fillChunk]
    by_cases h0 : rem = 0
    · subst h0
      simp only [Nat.zero_le, true_or, if_true]
      exact ⟨acc, s :: rest, segOff, rfl, by simp, by simp, hacc, hw, hok, hnd, hle⟩
    · simp only [h0, if_false]
      by_cases ha : s.len - segOff = 0
      · -- nothing left in this segment: skip it
        simp only [ha, if_true]
        have hsl : s.toList.drop segOff = [] := List.drop_eq_nil_of_le (by omega)
        have hP' : pending (s :: rest) segOff = pending rest 0 := by rw [hP, hsl]; simp [pending]
        rw [hP']
        exact ih 0 rem acc hw'.2 hrnd hrle hacc (by cases rest <;> simp [OffOk])
      · simp only [ha, if_false]
        have hdl : (s.toList.drop segOff).length = s.len - segOff := by rw [List.length_drop, hl]
        by_cases hg : s.len - segOff > rem
        · -- the segment is larger than what the chunk still needs: slice it
          simp only [hg, if_true]
          have hcond : rem ≤ (pending (s :: rest) segOff).length := by rw [hP, List.length_append]; omega
          simp only [hcond, true_or, if_true]
          obtain ⟨hs1, hs2⟩ := s.slice_toList segOff rem hsnd hsle
          obtain ⟨he1, he2⟩ := Seq.extend_toList acc [s.slice segOff rem] hacc (by
            intro x hx; have : x = s.slice segOff rem := by simpa using hx
            subst this; exact hs2)
          refine ⟨_, _, _, rfl, ?_, ?_, he2, hw, Or.inl (by omega), hnd, hle⟩
          · rw [he1, Seq.toList_cons, hs1, hP, List.take_append_of_le_length (by omega)]
            simp [Seq.toList]
          · unfold pending
            rw [← List.drop_drop]
        · -- the whole rest of the segment goes into the chunk
          simp only [hg, if_false]
          obtain ⟨hs1, hs2⟩ := s.slice_toList segOff (s.len - segOff) hsnd hsle
          have hs1' : (s.slice segOff (s.len - segOff)).toList = s.toList.drop segOff := by
            rw [hs1, List.take_of_length_le (by omega)]
          obtain ⟨he1, he2⟩ := Seq.extend_toList acc [s.slice segOff (s.len - segOff)] hacc (by
            intro x hx; have : x = s.slice segOff (s.len - segOff) := by simpa using hx
            subst this; exact hs2)
          have hrec := ih 0 (rem - (s.len - segOff)) (Seq.extend acc [s.slice segOff (s.len - segOff)]) hw'.2 hrnd hrle he2
            (by cases rest <;> simp [OffOk])
          have hp0 : pending rest 0 = Seq.toList rest := by simp [pending]
          rw [hp0] at hrec
          have hcond : (rem ≤ (pending (s :: rest) segOff).length ∨ allow = true) ↔
              (rem - (s.len - segOff) ≤ (Seq.toList rest).length ∨ allow = true) := by
            rw [hP, List.length_append, hdl]
            constructor
            · rintro (h | h)
              · left; omega
              · right; exact h
            · rintro (h | h)
              · left; omega
              · right; exact h
          by_cases hc : rem ≤ (pending (s :: rest) segOff).length ∨ allow = true
          · rw [if_pos hc]
            rw [if_pos (hcond.1 hc)] at hrec
            obtain ⟨acc', q', o', h1, h2, h3, h4, h5, h6, h7, h8⟩ := hrec
            refine ⟨acc', q', o', h1, ?_, ?_, h4, h5, h6, h7, h8⟩
            · rw [h2, he1, Seq.toList_cons, hs1', hP, List.take_append, hdl,
                List.take_of_length_le (l := s.toList.drop segOff) (by omega)]
              simp [Seq.toList]
            · rw [h3, hP, List.drop_append, hdl, List.drop_eq_nil_of_le (as := s.toList.drop segOff) (by omega)]
              simp
          · rw [if_neg hc]
            rw [if_neg (fun h => hc (hcond.2 h))] at hrec
            exact hrec

theorem chunks_spec (allow : Bool) : ∀ (sizes : List Nat) (queue : List Seg) (segOff : Nat),
    Seq.WF queue → (Seq.toList queue).Nodup → (∀ x ∈ Seq.toList queue, x ≤ U64MAX) → OffOk queue segOff →
    (if sizes.sum ≤ (pending queue segOff).length ∨ allow = true then
      ∃ chunks rest o', rechunkGo allow sizes queue segOff = some (chunks, rest) ∧
        chunks.map Seq.toList = chunksOf sizes (pending queue segOff) ∧ (∀ c ∈ chunks, Seq.WF c) ∧
        pending rest o' = (pending queue segOff).drop sizes.sum ∧ Seq.WF rest ∧ OffOk rest o'
     else rechunkGo allow sizes queue segOff = none) := by
  intro sizes
  induction sizes with
  | nil =>
    intro queue segOff hw _ _ hok
    simp only [List.sum_nil, Nat.zero_le, true_or, if_true, rechunkGo]
    exact ⟨[], queue, segOff, rfl, rfl, by simp, by simp, hw, hok⟩
  | cons c cs ih =>
    intro queue segOff hw hnd hle hok
    have hf := fillChunk_spec allow queue segOff c [] hw hnd hle (by simp [Seq.WF]) hok
    simp only [rechunkGo]
    by_cases hc : c ≤ (pending queue segOff).length ∨ allow = true
    · rw [if_pos hc] at hf
      obtain ⟨acc', q', o', h1, h2, h3, h4, h5, h6, h7, h8⟩ := hf
      rw [h1]
      simp only
      have hrec := ih q' o' h5 h7 h8 h6
      rw [h3] at hrec
      have hcond : ((c :: cs).sum ≤ (pending queue segOff).length ∨ allow = true) ↔
          (cs.sum ≤ ((pending queue segOff).drop c).length ∨ allow = true) := by
        rw [List.sum_cons, List.length_drop]
        constructor
        · rintro (h | h)
          · left; omega
          · right; exact h
        · rintro (h | h)
          · rcases hc with hc | hc
            · left; omega
            · right; exact hc
          · right; exact h
      by_cases hall : (c :: cs).sum ≤ (pending queue segOff).length ∨ allow = true
      · rw [if_pos hall]
        rw [if_pos (hcond.1 hall)] at hrec
        obtain ⟨chunks, rest, o'', g1, g2, g3, g4, g5, g6⟩ := hrec
        rw [g1]
        refine ⟨acc' :: chunks, rest, o'', rfl, ?_, ?_, ?_, g5, g6⟩
        · simp only [List.map_cons, chunksOf, g2, h2]
          simp [Seq.toList]
        · intro x hx
          rcases List.mem_cons.1 hx with rfl | hx'
          · exact h4
          · exact g3 x hx'
        · rw [g4, List.drop_drop, List.sum_cons]
      · rw [if_neg hall]
        rw [if_neg (fun h => hall (hcond.2 h))] at hrec
        rw [hrec]
    · rw [if_neg hc] at hf
      rw [hf]
      have : ¬ ((c :: cs).sum ≤ (pending queue segOff).length ∨ allow = true) := by
        rw [List.sum_cons]
        intro h
        apply hc
        rcases h with h | h
        · left; omega
        · right; exact h
      rw [if_neg this]

theorem dropWhile_empty_iff : ∀ (rest : List Seg), Seq.WF rest →
    (rest.dropWhile (fun s => s.len == 0) = [] ↔ Seq.toList rest = []) := by
  intro rest
  induction rest with
  | nil => intro _; simp [Seq.toList]
  | cons s t ih =>
    intro hw
    have hw' := Seq.WF_cons.1 hw
    have hl := s.len_eq hw'.1
    rw [List.dropWhile_cons, Seq.toList_cons]
    by_cases h0 : s.len = 0
    · have : s.toList = [] := List.eq_nil_of_length_eq_zero (by omega)
      simp only [h0, beq_self_eq_true, if_true, this, List.nil_append]
      exact ih hw'.2
    · have : (s.len == 0) = false := by simpa using h0
      simp only [this, Bool.false_eq_true, if_false]
      constructor
      · intro h; cases h
      · intro h
        have h1 : s.toList = [] := (List.append_eq_nil_iff.1 h).1
        rw [h1] at hl
        simp at hl
        omega

theorem leftover_iff (rest : List Seg) (o : Nat) (hw : Seq.WF rest) (hok : OffOk rest o) :
    rest.dropWhile (fun s => s.len == 0) = [] ↔ pending rest o = [] := by
  cases rest with
  | nil => simp [pending, Seq.toList]
  | cons s t =>
    rcases hok with h | h
    · -- a partially consumed segment is left over
      have hw' := Seq.WF_cons.1 hw
      have hl := s.len_eq hw'.1
      have hne : (s.len == 0) = false := by simp; omega
      constructor
      · intro hd; simp [hne] at hd
      · intro hp
        have := congrArg List.length hp
        simp [pending, Seq.toList_cons] at this
        omega
    · subst h
      rw [dropWhile_empty_iff _ hw]
      simp [pending]


theorem chunksOf_flatten : ∀ (sizes : List Nat) (l : List Nat), (chunksOf sizes l).flatten = l.take sizes.sum := by
  intro sizes
  induction sizes with
  | nil => intro l; simp [chunksOf]
  | cons c cs ih =>
    intro l
    simp only [chunksOf, List.flatten_cons, ih, List.sum_cons]
    rw [List.take_add]

theorem chunksOf_lengths : ∀ (sizes : List Nat) (l : List Nat), (chunksOf sizes l).length = sizes.length ∧
    ∀ i (h : i < sizes.length), ∀ c, (chunksOf sizes l)[i]? = some c → c.length ≤ sizes[i] ∧
      (sizes.sum ≤ l.length → c.length = sizes[i]) := by
  intro sizes
  induction sizes with
  | nil => intro l; simp [chunksOf]
  | cons c cs ih =>
    intro l
    obtain ⟨h1, h2⟩ := ih (l.drop c)
    refine ⟨by simp [chunksOf, h1], ?_⟩
    intro i hi x hx
    cases i with
    | zero =>
      simp only [chunksOf, List.getElem?_cons_zero, Option.some.injEq] at hx
      subst hx
      simp only [List.getElem_cons_zero, List.length_take, List.sum_cons]
      omega
    | succ j =>
      simp only [chunksOf, List.getElem?_cons_succ] at hx
      have := h2 j (by simpa using hi) x hx
      simp only [List.getElem_cons_succ, List.sum_cons, List.length_drop] at this ⊢
      omega

theorem queue_toList (seqs : List Seq) : Seq.toList (seqs.flatMap id) = seqs.flatMap Seq.toList := by
  unfold Seq.toList
  rw [List.flatMap_assoc]
  rfl

theorem queue_WF (seqs : List Seq) (h : ∀ q ∈ seqs, Seq.WF q) : Seq.WF (seqs.flatMap id) := by
  intro s hs
  rw [List.mem_flatMap] at hs
  obtain ⟨q, hq, hsq⟩ := hs
  exact h q hq s hsq

/-- `rechunk_sequences` succeeds exactly when the sizes cover all ids and (unless `allow_incomplete`) nothing more; the
    chunks are the consecutive pieces of the concatenated ids -/
theorem rechunk_spec (seqs : List Seq) (sizes : List Nat) (allow : Bool) (hw : ∀ q ∈ seqs, Seq.WF q)
    (hnd : (seqs.flatMap Seq.toList).Nodup) (hle : ∀ x ∈ seqs.flatMap Seq.toList, x ≤ U64MAX) :
    (if (seqs.flatMap Seq.toList).length ≤ sizes.sum ∧ (sizes.sum ≤ (seqs.flatMap Seq.toList).length ∨ allow = true) then
      ∃ chunks, rechunk seqs sizes allow = some chunks ∧
        chunks.map Seq.toList = chunksOf sizes (seqs.flatMap Seq.toList) ∧ ∀ c ∈ chunks, Seq.WF c
     else rechunk seqs sizes allow = none) := by
  have hq := queue_toList seqs
  have hspec := chunks_spec allow sizes (seqs.flatMap id) 0 (queue_WF seqs hw) (by rw [hq]; exact hnd)
    (by rw [hq]; exact hle) (by cases (seqs.flatMap id) <;> simp [OffOk])
  have hp : pending (seqs.flatMap id) 0 = seqs.flatMap Seq.toList := by
    unfold pending; rw [List.drop_zero, hq]
  rw [hp] at hspec
  unfold rechunk
  by_cases hc : sizes.sum ≤ (seqs.flatMap Seq.toList).length ∨ allow = true
  · rw [if_pos hc] at hspec
    obtain ⟨chunks, rest, o', h1, h2, h3, h4, h5, h6⟩ := hspec
    rw [h1]
    simp only
    have hl := leftover_iff rest o' h5 h6
    rw [h4] at hl
    by_cases hcover : (seqs.flatMap Seq.toList).length ≤ sizes.sum
    · rw [if_pos ⟨hcover, hc⟩, if_pos (hl.2 (List.drop_eq_nil_of_le hcover))]
      exact ⟨chunks, rfl, h2, h3⟩
    · rw [if_neg (fun h => hcover h.1), if_neg]
      intro h
      have := congrArg List.length (hl.1 h)
      rw [List.length_drop, List.length_nil] at this
      omega
  · rw [if_neg hc] at hspec
    rw [hspec, if_neg (fun h => hc h.2)]

end LanceModel.C34
