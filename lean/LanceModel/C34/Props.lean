import LanceModel.C34.SegLemmas
/-!
# C34 — row id sequences and the row id index are faithful

"A row id sequence holds exactly the ids it was built from, in order, whatever segment encoding it picks, and
deleting, masking, slicing, selecting and re-chunking it behave like the same operations on a plain list. The row
id index built from fragments maps every present id to its position and no absent id to anything."

Everything below is about the model in `Model.lean` (`Seg.toList` / `Seq.toList` is the abstraction function: what
`iter()` yields); the tie to `rust/lance-table/src/rowids*.rs` is the correspondence run of `./check C34`.

Domain: ids are `u64`s below `u64::MAX` (`x ≤ U64MAX` is all the proofs need; the code computes `max + 1`), a list handed to
`from_slice` has no duplicates (`U64Segment`: "a sequence of distinct u64s").
-/
namespace LanceModel.C34

/-! ## Part 1: segments -/

/-- `U64Segment::from_slice` holds exactly the ids it was built from, in order, whatever encoding it picks -/
theorem from_slice_faithful (xs : List Nat) (hle : ∀ x ∈ xs, x ≤ U64MAX) (hnd : xs.Nodup) :
    (fromSlice xs).toList = xs :=
  fromSlice_toList xs hle hnd

example : [3, 5, 6, 9].Nodup ∧ (∀ x ∈ [3, 5, 6, 9], x ≤ U64MAX) ∧ fromSlice [3, 5, 6, 9] = .bitmap 3 10 [true, false, true, true, false, false, true] := by
  decide
example : fromSlice [1, 2, 3, 4, 5, 6, 7, 8, 9, 10, 11, 12, 13, 14, 15, 16, 17, 18, 19, 20, 21, 22, 23, 24, 25, 26, 27, 28, 29, 30, 31, 32, 34]
    = .holes 1 35 [33] := by decide
example : fromSlice [7, 3, 5] = .array [7, 3, 5] ∧ fromSlice [4, 5, 6] = .range 4 7 ∧ fromSlice [1, 1000, 100000] = .sorted [1, 1000, 100000] := by
  decide

end LanceModel.C34
