import LanceModel.C34.SegHigh
import LanceModel.C34.IndexNew
import LanceModel.C34.EncLemmas
/-!
# C34 — row id sequences and the row id index are faithful

"A row id sequence holds exactly the ids it was built from, in order, whatever segment encoding it picks, and
deleting, masking, slicing, selecting and re-chunking it behave like the same operations on a plain list. The row
id index built from fragments maps every present id to its position and no absent id to anything."

Everything below is about the model in `Model.lean` (`Seg.toList` / `Seq.toList` is the abstraction function: what
`iter()` yields); the tie to `rust/lance-table/src/rowids*.rs` is the correspondence run of `./check C34`.

Domain.  Ids are `u64`s below `u64::MAX` (`x ≤ U64MAX` is all the proofs need; the code computes `max + 1`), a list handed
to `from_slice` has no duplicates (`U64Segment`: "a sequence of distinct u64s"), and segments satisfy the representation
invariant `Seg.WF` (sorted in-range holes, one bit per slot, strictly increasing sorted arrays, non-empty arrays), which
every constructor preserves (`from_slice_wf`, and the `.WF` conjunct of every operation theorem below).  `Option`-valued
model functions return `none` where the Rust code panics; "`= some …`" therefore also says "does not panic".
-/
namespace LanceModel.C34

/-! ## Part 1: segments (`U64Segment`) -/

/-- `U64Segment::from_slice` holds exactly the ids it was built from, in order, whatever encoding it picks -/
theorem from_slice_faithful (xs : List Nat) (hle : ∀ x ∈ xs, x ≤ U64MAX) (hnd : xs.Nodup) :
    (fromSlice xs).toList = xs ∧ (fromSlice xs).WF :=
  ⟨fromSlice_toList xs hle hnd, fromSlice_WF xs hle hnd⟩

example : [3, 5, 6, 9].Nodup ∧ (∀ x ∈ [3, 5, 6, 9], x ≤ U64MAX) ∧
    fromSlice [3, 5, 6, 9] = .bitmap 3 10 [true, false, true, true, false, false, true] := by decide
example : fromSlice ((List.range' 1 32) ++ [34]) = .holes 1 35 [33] := by decide
example : fromSlice [7, 3, 5] = .array [7, 3, 5] ∧ fromSlice [4, 5, 6] = .range 4 7 ∧
    fromSlice [1, 1000, 100000] = .sorted [1, 1000, 100000] := by decide

/-- the statistics pass (`compute_stats`) and the encoding choice: a strictly increasing list is recognised as sorted
    (so it never ends up in the order-preserving but search-unfriendly `Array`), an unsorted list needs no side
    condition to be kept faithfully -/
theorem from_slice_encoding (xs : List Nat) (hle : ∀ x ∈ xs, x ≤ U64MAX) :
    (xs.Pairwise (· < ·) → (computeStats xs).sorted = true ∧ (fromSlice xs).sortedKind = true) ∧
    ((computeStats xs).sorted = false → fromSlice xs = .array xs) := by
  constructor
  · intro hp
    have hs := computeStats_sorted xs hle hp
    refine ⟨hs, ?_⟩
    unfold fromSlice fromStats
    simp only [hs, if_true]
    repeat' split
    all_goals rfl
  · intro hs
    unfold fromSlice fromStats
    simp [hs]

example : [2, 4, 9].Pairwise (· < ·) ∧ (computeStats [4, 2, 9]).sorted = false := by decide

/-- `len`, `get`, `position`, `contains`-style lookups read the plain list -/
theorem seg_len_get_position (s : Seg) (hw : s.WF) :
    s.len = s.toList.length ∧ (∀ i, s.get i = s.toList[i]?) ∧
    (s.toList.Nodup → ∀ v i, (s.position v = some i ↔ s.toList[i]? = some v)) ∧
    (s.toList.Nodup → ∀ v, (s.position v = none ↔ v ∉ s.toList)) :=
  ⟨s.len_eq hw, s.get_eq hw, fun hnd v i => s.position_spec hw hnd v i, fun hnd v => s.position_none hw hnd v⟩

example : (Seg.holes 10 16 [12, 13]).WF ∧ (Seg.holes 10 16 [12, 13]).toList = [10, 11, 14, 15] ∧
    (Seg.holes 10 16 [12, 13]).position 14 = some 2 := by
  refine ⟨by simp [Seg.WF], by decide, by decide⟩

/-- `U64Segment::slice` is `drop`/`take` -/
theorem seg_slice_faithful (s : Seg) (off len : Nat) (hnd : s.toList.Nodup) (hle : ∀ x ∈ s.toList, x ≤ U64MAX) :
    (s.slice off len).toList = (s.toList.drop off).take len ∧ (s.slice off len).WF :=
  s.slice_toList off len hnd hle

/-- `U64Segment::delete` of values that occur in the segment, given in order of appearance (its documented
    precondition), removes exactly those values -/
theorem seg_delete_faithful (s : Seg) (vals : List Nat) (hnd : s.toList.Nodup) (hle : ∀ x ∈ s.toList, x ≤ U64MAX)
    (hsub : vals.Sublist s.toList) :
    (s.delete vals).toList = s.toList.filter (fun x => !vals.contains x) ∧ (s.delete vals).WF := by
  obtain ⟨h1, h2⟩ := s.delete_toList vals hnd hle
  exact ⟨by rw [h1, skipWalk_eq_filter _ _ hnd hsub], h2⟩

example : [11, 14].Sublist (Seg.holes 10 16 [12, 13]).toList := by decide

/-- `U64Segment::mask` with strictly increasing in-range positions does not panic and removes exactly the ids at those
    positions; `removeIdx` is characterised by `remove_idx_meaning` -/
theorem seg_mask_faithful (s : Seg) (ps : List Nat) (hw : s.WF) (hp : ps.Pairwise (· < ·)) (hb : ∀ p ∈ ps, p < s.len) :
    ∃ s', s.mask ps = some s' ∧ s'.toList = removeIdx 0 s.toList ps ∧ s'.WF :=
  s.mask_spec ps hw hp hb

theorem remove_idx_meaning (l ps : List Nat) :
    (removeIdx 0 l ps).Sublist l ∧ ∀ x, (x ∈ removeIdx 0 l ps ↔ ∃ j, l[j]? = some x ∧ j ∉ ps) :=
  ⟨removeIdx_sublist 0 l ps, removeIdx_getElem l ps⟩

example : removeIdx 0 [10, 11, 14, 15] [1, 2] = [10, 15] ∧ (Seg.holes 10 16 [12, 13]).mask [1, 2] = some (.array [10, 15]) →
    False := by decide
example : (Seg.holes 10 16 [12, 13]).mask [1, 2] = some (.bitmap 10 16 [true, false, false, false, false, true]) := by decide

/-- `U64Segment::with_new_high` on a well-formed segment never panics: it either appends the value — which is then larger
    than every id, for every encoding — or returns `Err` because the value is not above the segment's declared range -/
theorem with_new_high_faithful (s : Seg) (hw : s.WF) (v : Nat) :
    (∃ s', s.withNewHigh v = some (some s') ∧ s'.toList = s.toList ++ [v] ∧ s'.WF ∧ ∀ x ∈ s.toList, x < v) ∨
    (s.withNewHigh v = some none ∧ ∃ lo hi, s.bounds = some (some (lo, hi)) ∧ v ≤ hi) :=
  s.withNewHigh_spec hw v

example : (Seg.range 5 8).withNewHigh 12 = some (some (.holes 5 13 [8, 9, 10, 11])) ∧
    (Seg.bitmap 5 9 [true, false, true, true]).withNewHigh 10 = some (some (.bitmap 5 11 [true, false, true, true, false, true])) ∧
    (Seg.range 5 8).withNewHigh 7 = some none := by decide

/-- `EncodedU64Array::from(Vec<u64>)` — the physical array behind `SortedArray`, `Array` and the holes list — decodes to
    the values it was built from, whichever offset width (u16 / u32 / plain u64) it picks, and the offsets fit that width -/
theorem encoded_array_faithful (vals : List Nat) :
    (Enc.ofList vals).toList = vals ∧ (Enc.ofList vals).Fits ∧ ∀ i, (Enc.ofList vals).get i = vals[i]? :=
  Enc.ofList_spec vals

example : Enc.ofList [65542, 7, 9] = .u16 7 [65535, 0, 2] ∧ Enc.ofList [7, 65543] = .u32 7 [0, 65536] ∧
    Enc.ofList [4294967296, 0] = .u64 [4294967296, 0] := by decide

/-- `EncodedU64Array::binary_search` (behind `SortedArray::position` and the hole test of `RangeWithHoles`): for every offset
    width it finds exactly the stored values, at their index — in particular a probe 2^16·k (2^32·k) above a stored value of
    a U16 (U32) array is not found, because the range check precedes the narrowing cast. This is what licenses treating
    the holes / array payload of a segment as the plain list of its values (`Seg` in the model). -/
theorem encoded_array_search_faithful (e : Enc) (hfit : e.Fits) (hnd : e.toList.Nodup) :
    (∀ v i, e.binarySearch v = some i ↔ e.toList[i]? = some v) ∧
    (∀ v, (e.binarySearch v).isSome = e.toList.contains v) ∧
    (∀ w vals e', Enc.withWidth w vals = some e' → e'.toList = vals ∧ e'.Fits) :=
  ⟨fun v i => e.binarySearch_spec hfit hnd v i, fun v => e.binarySearch_isSome hfit hnd v,
   fun w vals e' h => Enc.withWidth_spec w vals e' h⟩

example : (Enc.u16 3 [0, 4]).Fits ∧ (Enc.u16 3 [0, 4]).toList = [3, 7] ∧
    (Enc.u16 3 [0, 4]).binarySearch 65539 = none ∧ (Enc.u16 3 [0, 4]).binarySearch 7 = some 1 ∧
    Enc.withWidth 16 [3, 7] = some (.u16 3 [0, 4]) := by
  refine ⟨by simp [Enc.Fits], by decide, by decide, by decide, by decide⟩

/-! ## Part 2: sequences (`RowIdSequence`) -/

/-- `len` and `get` -/
theorem seq_len_get (q : Seq) (hw : Seq.WF q) :
    Seq.len q = (Seq.toList q).length ∧ ∀ i, Seq.get q i = (Seq.toList q)[i]? :=
  ⟨Seq.len_eq q hw, fun i => Seq.get_eq q i hw⟩

/-- `extend` appends (even when it merges two adjacent ranges) -/
theorem seq_extend_faithful (a b : Seq) (ha : Seq.WF a) (hb : Seq.WF b) :
    Seq.toList (Seq.extend a b) = Seq.toList a ++ Seq.toList b ∧ Seq.WF (Seq.extend a b) :=
  Seq.extend_toList a b ha hb

example : Seq.extend [Seg.range 0 5] [Seg.range 5 9, Seg.array [3, 1]] = [Seg.range 0 9, Seg.array [3, 1]] := by decide

/-- `slice(off, len).iter()` within bounds is `drop`/`take` and does not panic -/
theorem seq_slice_faithful (q : Seq) (off len : Nat) (hw : Seq.WF q) (hb : off + len ≤ (Seq.toList q).length) :
    Seq.slice q off len = some (((Seq.toList q).drop off).take len) :=
  Seq.slice_spec q off len hw hb

example : Seq.slice [Seg.range 0 4, Seg.holes 10 14 [11], Seg.array [9, 8, 7]] 3 5 = some [3, 10, 12, 13, 9] := by decide

/-- `select` on a sorted selection yields the ids at those offsets (offsets past the end are ignored, as documented);
    an unsorted selection panics (as documented) -/
theorem seq_select_faithful (q : Seq) (hw : Seq.WF q) :
    (∀ sel : List Nat, sel.Pairwise (· ≤ ·) → Seq.select q sel = some (sel.filterMap (fun i => (Seq.toList q)[i]?))) ∧
    (∀ (pre post : List Nat) (a b : Nat), b < a → (pre ++ [a]).Pairwise (· ≤ ·) →
      Seq.select q (pre ++ a :: b :: post) = none) :=
  ⟨fun sel hs => Seq.select_spec q sel hw hs, fun pre post a b h hp => Seq.select_unsorted q a b pre post h hw hp⟩

/-- `mask` with strictly increasing positions (past-the-end positions are ignored) removes exactly the ids at those
    positions -/
theorem seq_mask_faithful (q : Seq) (ps : List Nat) (hw : Seq.WF q) (hp : ps.Pairwise (· < ·)) :
    ∃ q', Seq.mask q ps = some q' ∧ Seq.toList q' = removeIdx 0 (Seq.toList q) ps ∧ Seq.WF q' :=
  Seq.mask_spec q ps hw hp

example : Seq.mask [Seg.range 0 3, Seg.array [9, 8]] [0, 1, 2, 4, 7] = some [Seg.array [9]] := by decide

/-- `delete` removes every requested id that is present and nothing else, keeps the order, and tolerates absent and
    repeated ids in the request (the latter since `fix:` b9e6f0d) -/
theorem seq_delete_faithful (q : Seq) (ids : List Nat) (hw : Seq.WF q) (hnd : (Seq.toList q).Nodup)
    (hle : ∀ x ∈ Seq.toList q, x ≤ U64MAX) :
    ∃ q', Seq.delete q ids = some q' ∧ Seq.toList q' = (Seq.toList q).filter (fun x => !ids.contains x) ∧ Seq.WF q' :=
  Seq.delete_spec q ids hw hnd hle

example : (Seq.delete [Seg.range 0 10] [5, 5, 7, 99]).map Seq.toList = some [0, 1, 2, 3, 4, 6, 8, 9] := by decide

/-- `mask_to_offset_ranges` (as fixed in 9f65218): the returned ranges are non-empty and, expanded, are exactly the
    offsets of the ids the mask selects, in increasing order — for every encoding and every position of the segment in
    the sequence -/
theorem mask_to_offset_ranges_faithful (q : Seq) (sel : Nat → Bool) (hw : Seq.WF q) :
    expandRanges (Seq.maskToOffsetRanges sel q 0) = selOffsets sel (Seq.toList q) 0 ∧
    ∀ r ∈ Seq.maskToOffsetRanges sel q 0, r.1 < r.2 :=
  ⟨Seq.maskToOffsetRanges_go q sel 0 hw, Seq.maskToOffsetRanges_nonempty q sel 0⟩

/-- the design-spike witness: `[0..10] ++ [100,102,…,162]`, mask `{104,106,120}` → offsets 12, 13, 20 -/
example : Seq.maskToOffsetRanges (fun v => [104, 106, 120].contains v)
    [Seg.range 0 10, fromSlice ((List.range 32).map (fun i => 100 + 2 * i))] 0 = [(12, 14), (20, 21)] := by decide

/-! ## Part 3: `rechunk_sequences` and `select_row_ids` -/

/-- re-chunking succeeds exactly when the sizes cover all ids and (unless `allow_incomplete`) nothing more; chunk `i` is
    the `i`-th consecutive piece of the concatenated ids -/
theorem rechunk_faithful (seqs : List Seq) (sizes : List Nat) (allow : Bool) (hw : ∀ q ∈ seqs, Seq.WF q)
    (hnd : (seqs.flatMap Seq.toList).Nodup) (hle : ∀ x ∈ seqs.flatMap Seq.toList, x ≤ U64MAX) :
    (if (seqs.flatMap Seq.toList).length ≤ sizes.sum ∧ (sizes.sum ≤ (seqs.flatMap Seq.toList).length ∨ allow = true) then
      ∃ chunks, rechunk seqs sizes allow = some chunks ∧
        chunks.map Seq.toList = chunksOf sizes (seqs.flatMap Seq.toList) ∧ ∀ c ∈ chunks, Seq.WF c
     else rechunk seqs sizes allow = none) :=
  rechunk_spec seqs sizes allow hw hnd hle

/-- what `chunksOf` means: as many chunks as sizes, concatenating to the first `sum` ids, chunk `i` of size `sizes[i]`
    (shorter only where the ids ran out) -/
theorem chunks_of_meaning (sizes l : List Nat) :
    (chunksOf sizes l).flatten = l.take sizes.sum ∧ (chunksOf sizes l).length = sizes.length ∧
    ∀ i (h : i < sizes.length), ∀ c, (chunksOf sizes l)[i]? = some c → c.length ≤ sizes[i] ∧
      (sizes.sum ≤ l.length → c.length = sizes[i]) :=
  ⟨chunksOf_flatten sizes l, (chunksOf_lengths sizes l).1, (chunksOf_lengths sizes l).2⟩

example : (rechunk [[Seg.range 0 5], [Seg.range 0 0]] [2, 3] false).map (List.map Seq.toList) = some [[0, 1], [2, 3, 4]] ∧
    rechunk [[Seg.range 0 5]] [2, 2] true = none ∧ rechunk [[Seg.range 0 5]] [2, 4] false = none ∧
    (rechunk [[Seg.range 0 5]] [2, 4] true).map (List.map Seq.toList) = some [[0, 1], [2, 3, 4]] := by decide

/-- `select_row_ids` for `Range`, `RangeTo`, `RangeFrom` (via `slice`) and `Indices` (via `get`) -/
theorem select_row_ids_faithful (q : Seq) (hw : Seq.WF q) :
    (∀ s e, s ≤ e → selectRange q s e =
      if e ≤ (Seq.toList q).length then .ok (((Seq.toList q).drop s).take (e - s)) else .err) ∧
    (∀ s, s ≤ (Seq.toList q).length → selectFrom q s = .ok ((Seq.toList q).drop s)) ∧
    (∀ ix : List Nat, (∀ i ∈ ix, i < (Seq.toList q).length) →
      selectIndices q ix = .ok (ix.map (fun i => (Seq.toList q).getD i 0))) := by
  have hlen := Seq.len_eq q hw
  refine ⟨?_, ?_, ?_⟩
  · intro s e hse
    unfold selectRange sliceSel
    rw [hlen]
    by_cases h : e ≤ (Seq.toList q).length
    · rw [if_neg (by omega), if_pos h, Seq.slice_spec q s (e - s) hw (by omega)]
    · rw [if_pos (by omega), if_neg h]
  · intro s hs
    unfold selectFrom sliceSel
    rw [hlen, if_neg (by omega), Seq.slice_spec q s _ hw (by omega)]
    simp only
    rw [List.take_of_length_le (by simp)]
  · intro ix hix
    unfold selectIndices
    rw [optAll_map_some ix (Seq.get q) (fun i => (Seq.toList q).getD i 0) (by
      intro i hi
      rw [Seq.get_eq q i hw, List.getD_eq_getElem?_getD, List.getElem?_eq_getElem (hix i hi)]
      rfl)]

/-! ## Part 4: `RowIdIndex` -/

/-- The row id index built from fragments `(fragment id, row id sequence, deleted offsets)` maps every present id to its
    position and no absent id to anything: `RowIdIndex::new` does not fail, and `get` returns the address
    `fragment_id << 32 | offset` of every live row (`livePairs`) and `None` for every other id.
    Hypotheses: live row ids are unique (the defining property of stable row ids) and so are live addresses (distinct
    fragment ids, fewer than 2^32 rows per fragment), all below `u64::MAX`. -/
theorem index_faithful (frags : List (Nat × Seq × List Nat)) (hw : ∀ f ∈ frags, Seq.WF f.2.1)
    (hids : ((livePairs frags).map Prod.fst).Nodup) (haddrs : ((livePairs frags).map Prod.snd).Nodup)
    (hle : ∀ p ∈ livePairs frags, p.1 ≤ U64MAX ∧ p.2 ≤ U64MAX) :
    ∃ ix, indexNew frags = some ix ∧
      (∀ id addr, (id, addr) ∈ livePairs frags → indexGet ix id = some addr) ∧
      (∀ id, id ∉ (livePairs frags).map Prod.fst → indexGet ix id = none) := by
  obtain ⟨F, h1, h2, h3, h4⟩ := indexNew_spec frags hw hids haddrs hle
  obtain ⟨g1, g2⟩ := indexGet_spec F h2 h3
  refine ⟨F, h1, ?_, ?_⟩
  · intro id addr hm
    exact g1 id addr (h4.mem_iff.2 hm)
  · intro id hno
    apply g2
    intro hm
    exact hno ((h4.map Prod.fst).mem_iff.1 hm)

/-- two fragments with interleaved ids (overlapping key ranges are merged), one deleted row -/
example : livePairs [(1, [Seg.bitmap 0 9 [true, false, true, false, true, false, true, false, true]], []),
                     (2, [fromSlice [1, 3, 5, 7, 9]], [1])] =
    [(0, 4294967296), (2, 4294967297), (4, 4294967298), (6, 4294967299), (8, 4294967300),
     (1, 8589934592), (5, 8589934594), (7, 8589934595), (9, 8589934596)] := by decide
example : (indexNew [(1, [Seg.bitmap 0 9 [true, false, true, false, true, false, true, false, true]], []),
                      (2, [fromSlice [1, 3, 5, 7, 9]], [1])]).map (fun ix => [indexGet ix 4, indexGet ix 3, indexGet ix 7]) =
    some [some 4294967298, none, some 8589934595] := by decide

end LanceModel.C34
