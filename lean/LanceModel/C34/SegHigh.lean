import LanceModel.C34.SeqDelete
/-!
`U64Segment::with_new_high`.
-/
namespace LanceModel.C34

theorem rangeList_single (b : Nat) : rangeList b (b + 1) = [b] := by simp [rangeList]

theorem rangeList_split3 (a b v : Nat) (h1 : a ≤ b) (h2 : b ≤ v) :
    rangeList a (v + 1) = rangeList a b ++ (rangeList b v ++ [v]) := by
  rw [← rangeList_single v, rangeList_append b v (v + 1) h2 (by omega), rangeList_append a b (v + 1) h1 (by omega)]

theorem filter_all {l : List Nat} {p : Nat → Bool} (h : ∀ x ∈ l, p x = true) : l.filter p = l :=
  List.filter_eq_self.2 h

theorem filter_none {l : List Nat} {p : Nat → Bool} (h : ∀ x ∈ l, p x = false) : l.filter p = [] := by
  rw [List.filter_eq_nil_iff]
  intro x hx
  rw [h x hx]
  simp

/-- filtering `[a, v]` when the predicate keeps what `q` keeps below `b`, nothing in `[b, v)`, and `v` -/
theorem filter_split3 (a b v : Nat) (h1 : a ≤ b) (h2 : b ≤ v) (p q : Nat → Bool)
    (hlow : ∀ x, a ≤ x → x < b → p x = q x) (hmid : ∀ x, b ≤ x → x < v → p x = false) (hv : p v = true) :
    (rangeList a (v + 1)).filter p = (rangeList a b).filter q ++ [v] := by
  rw [rangeList_split3 a b v h1 h2, List.filter_append, List.filter_append]
  have f1 : (rangeList a b).filter p = (rangeList a b).filter q :=
    List.filter_congr (fun x hx => by have := mem_rangeList.1 hx; exact hlow x this.1 this.2)
  have f2 : (rangeList b v).filter p = [] :=
    filter_none (fun x hx => by have := mem_rangeList.1 hx; exact hmid x this.1 this.2)
  have f3 : [v].filter p = [v] := by
    apply filter_all
    intro x hx
    have : x = v := by simpa using hx
    rw [this]; exact hv
  rw [f1, f2, f3]
  simp

theorem bounds_range_like {s : Seg} {a b lo hi : Nat} (h : s = .range a b ∨ (∃ x, s = .holes a b x) ∨ (∃ x, s = .bitmap a b x))
    (hr : s.bounds = some (some (lo, hi))) : hi = b - 1 ∧ (s = .range a b → a < b) := by
  rcases h with rfl | ⟨x, rfl⟩ | ⟨x, rfl⟩ <;> simp only [Seg.bounds] at hr <;> split at hr
  all_goals first
    | (cases hr; done)
    | (cases hr
       refine ⟨rfl, ?_⟩
       intro e
       first
         | (cases e; omega)
         | cases e)

/-- `with_new_high` on a well-formed segment never panics; it either appends the value (then the value is larger than
    every id and the result is well formed) or rejects it because it is not above the segment's declared range -/
theorem Seg.withNewHigh_spec (s : Seg) (hw : s.WF) (v : Nat) :
    (∃ s', s.withNewHigh v = some (some s') ∧ s'.toList = s.toList ++ [v] ∧ s'.WF ∧ ∀ x ∈ s.toList, x < v) ∨
    (s.withNewHigh v = some none ∧ ∃ lo hi, s.bounds = some (some (lo, hi)) ∧ v ≤ hi) := by
  obtain ⟨r, hr, hcover⟩ := s.bounds_spec hw
  unfold Seg.withNewHigh
  rw [hr]
  simp only
  cases r with
  | none =>
    -- only an empty `Range` reports no bounds
    cases s with
    | range a b =>
      have hab : a = b := by
        have h1 : a ≤ b := hw
        simp only [Seg.bounds] at hr
        split at hr
        · omega
        · cases hr
      subst hab
      left
      refine ⟨Seg.range v (v + 1), by simp, ?_, by simp [Seg.WF], ?_⟩
      · simp [Seg.toList, rangeList]
      · intro x hx; have := mem_rangeList.1 hx; omega
    | holes a b hs => exfalso; simp only [Seg.bounds] at hr; split at hr <;> cases hr
    | bitmap a b bits => exfalso; simp only [Seg.bounds] at hr; split at hr <;> cases hr
    | sorted l => exfalso; simp only [Seg.bounds] at hr; split at hr <;> cases hr
    | array l => exfalso; simp only [Seg.bounds] at hr; split at hr <;> cases hr
  | some lh =>
    obtain ⟨lo, hi⟩ := lh
    by_cases hv : v ≤ hi
    · right
      simp only [hv, decide_true, if_true]
      exact ⟨trivial, lo, hi, rfl, hv⟩
    · left
      simp only [hv, decide_false, Bool.false_eq_true, if_false]
      have hgt : ∀ x ∈ s.toList, x < v := by
        intro x hx
        have := hcover x hx
        simp only [inRangeOpt, decide_eq_true_eq] at this
        omega
      cases s with
      | range a b =>
        obtain ⟨hhi, hab'⟩ := bounds_range_like (Or.inl rfl) hr
        have hab : a < b := hab' rfl
        have hne : ¬ a = b := by omega
        simp only [hne, if_false]
        by_cases hvb : v = b
        · subst hvb
          simp only [if_true]
          refine ⟨_, rfl, ?_, by simp only [Seg.WF]; omega, hgt⟩
          simp only [Seg.toList]
          rw [← rangeList_append a v (v + 1) (by omega) (by omega), rangeList_single]
        · simp only [hvb, if_false]
          refine ⟨_, rfl, ?_, ?_, hgt⟩
          · simp only [Seg.toList]
            rw [filter_split3 a b v (by omega) (by omega) _ (fun _ => true)]
            · rw [filter_all (fun _ _ => rfl)]
            · intro x h1 h2
              have : x ∉ rangeList b v := fun h => by have := mem_rangeList.1 h; omega
              simpa using this
            · intro x h1 h2
              have : x ∈ rangeList b v := mem_rangeList.2 ⟨h1, h2⟩
              simpa using this
            · have : v ∉ rangeList b v := fun h => by have := mem_rangeList.1 h; omega
              simpa using this
          · refine ⟨by omega, rangeList_pairwise b v, ?_⟩
            intro h hh
            have := mem_rangeList.1 hh
            omega
      | holes a b hs =>
        obtain ⟨hhi, _⟩ := bounds_range_like (Or.inr (Or.inl ⟨_, rfl⟩)) hr
        obtain ⟨hab, hp, hb⟩ := hw
        simp only
        by_cases hvb : v = b
        · subst hvb
          simp only [if_true]
          refine ⟨_, rfl, ?_, ⟨by omega, hp, fun h hh => by have := hb h hh; omega⟩, hgt⟩
          simp only [Seg.toList]
          rw [← rangeList_append a v (v + 1) (by omega) (by omega), rangeList_single, List.filter_append]
          congr 1
          apply filter_all
          intro x hx
          have : x = v := by simpa using hx
          subst this
          have : x ∉ hs := fun h => by have := hb x h; omega
          simpa using this
        · simp only [hvb, if_false]
          refine ⟨_, rfl, ?_, ?_, hgt⟩
          · simp only [Seg.toList]
            rw [filter_split3 a b v (by omega) (by omega) _ (fun x => !hs.contains x)]
            · intro x h1 h2
              have h3 : x ∉ rangeList b v := fun h => by have := mem_rangeList.1 h; omega
              by_cases h4 : x ∈ hs <;> simp [h3, h4]
            · intro x h1 h2
              have : x ∈ rangeList b v := mem_rangeList.2 ⟨h1, h2⟩
              simp [this]
            · have h1 : v ∉ hs := fun h => by have := hb v h; omega
              have h2 : v ∉ rangeList b v := fun h => by have := mem_rangeList.1 h; omega
              simp [h1, h2]
          · refine ⟨by omega, ?_, ?_⟩
            · rw [List.pairwise_append]
              refine ⟨hp, rangeList_pairwise b v, ?_⟩
              intro x hx y hy
              have := hb x hx
              have := mem_rangeList.1 hy
              omega
            · intro h hh
              rcases List.mem_append.1 hh with h1 | h1
              · have := hb h h1; omega
              · have := mem_rangeList.1 h1; omega
      | bitmap a b bits =>
        obtain ⟨hhi, _⟩ := bounds_range_like (Or.inr (Or.inr ⟨_, rfl⟩)) hr
        obtain ⟨hab, hl⟩ := hw
        simp only
        refine ⟨_, rfl, ?_, ⟨by omega, by simp; omega⟩, hgt⟩
        simp only [Seg.toList]
        rw [filter_split3 a b v (by omega) (by omega) _ (fun x => bitAt bits (x - a))]
        · intro x h1 h2
          unfold bitAt
          rw [List.append_assoc, List.getElem?_append_left (by omega)]
        · intro x h1 h2
          unfold bitAt
          rw [List.append_assoc, List.getElem?_append_right (by omega), List.getElem?_append_left (by simp; omega)]
          rw [List.getElem?_replicate]
          split <;> simp
        · unfold bitAt
          rw [List.getElem?_append_right (by simp; omega)]
          have : v - a - (bits ++ List.replicate (v - b) false).length = 0 := by simp; omega
          rw [this]
          simp
      | sorted l =>
        obtain ⟨hp, hne⟩ := hw
        refine ⟨_, rfl, rfl, ⟨?_, by simp⟩, hgt⟩
        rw [List.pairwise_append]
        refine ⟨hp, by simp, ?_⟩
        intro x hx y hy
        have : y = v := by simpa using hy
        subst this
        exact hgt x hx
      | array l =>
        exact ⟨_, rfl, rfl, by simp [Seg.WF], hgt⟩

end LanceModel.C34
