import LanceModel.C34.IndexGet
/-!
`RowIdIndex::new`: `decompose_sequence`, `prep_index_chunks`, `merge_overlapping_chunks`.
-/
namespace LanceModel.C34

/-! ### `decompose_sequence` -/

theorem activePairs_shift (dv : List Nat) : ∀ (t : List Nat) (k c a : Nat),
    (t.zipIdx k).filterMap (fun p => if dv.contains (c + p.2) then none else some (p.1, a + p.2)) =
    (t.zipIdx 0).filterMap (fun p => if dv.contains (c + k + p.2) then none else some (p.1, a + k + p.2)) := by
  intro t
  induction t with
  | nil => intro k c a; rfl
  | cons x t ih =>
    intro k c a
    rw [List.zipIdx_cons, List.zipIdx_cons, List.filterMap_cons, List.filterMap_cons, ih (k + 1) c a, ih (0 + 1) (c + k) (a + k)]
    simp only [Nat.add_zero, Nat.zero_add]
    have e1 : ∀ j, c + (k + 1) + j = c + k + 1 + j := fun j => by omega
    have e2 : ∀ j, a + (k + 1) + j = a + k + 1 + j := fun j => by omega
    simp only [e1, e2]

theorem activePairs_cons (dv : List Nat) (c a x : Nat) (t : List Nat) :
    activePairs dv c a (x :: t) = (if dv.contains c then [] else [(x, a)]) ++ activePairs dv (c + 1) (a + 1) t := by
  unfold activePairs
  rw [List.zipIdx_cons, List.filterMap_cons, activePairs_shift dv t (0 + 1) c a]
  simp only [Nat.add_zero, Nat.zero_add]
  by_cases h : c ∈ dv <;> simp [h]

theorem activePairs_append (dv : List Nat) : ∀ (A B : List Nat) (c a : Nat),
    activePairs dv c a (A ++ B) = activePairs dv c a A ++ activePairs dv (c + A.length) (a + A.length) B := by
  intro A
  induction A with
  | nil => intro B c a; simp [activePairs]
  | cons x t ih =>
    intro B c a
    rw [List.cons_append, activePairs_cons, activePairs_cons, ih, List.append_assoc]
    congr 3 <;> simp <;> omega

theorem activePairs_snd (dv : List Nat) : ∀ (t : List Nat) (c a : Nat),
    ((activePairs dv c a t).map Prod.snd).Pairwise (· < ·) ∧ ∀ p ∈ activePairs dv c a t, a ≤ p.2 ∧ p.2 < a + t.length ∧ p.1 ∈ t := by
  intro t
  induction t with
  | nil => intro c a; simp [activePairs]
  | cons x t ih =>
    intro c a
    obtain ⟨h1, h2⟩ := ih (c + 1) (a + 1)
    rw [activePairs_cons]
    constructor
    · rw [List.map_append, List.pairwise_append]
      refine ⟨by split <;> simp, h1, ?_⟩
      intro u hu v hv
      rw [List.mem_map] at hv
      obtain ⟨p, hp, rfl⟩ := hv
      have := (h2 p hp).1
      split at hu
      · simp at hu
      · have : u = a := by simpa using hu
        omega
    · intro p hp
      rcases List.mem_append.1 hp with hp | hp
      · split at hp
        · simp at hp
        · have : p = (x, a) := by simpa using hp
          subst this; simp
      · have := h2 p hp
        simp only [List.length_cons, List.mem_cons]
        exact ⟨by omega, by omega, Or.inr this.2.2⟩

theorem decompose_spec (dv : List Nat) : ∀ (q : Seq) (curOff startAddr : Nat), Seq.WF q →
    ((activePairs dv curOff startAddr (Seq.toList q)).map Prod.fst).Nodup →
    (∀ p ∈ activePairs dv curOff startAddr (Seq.toList q), p.1 ≤ U64MAX ∧ p.2 ≤ U64MAX) →
    allPairs (decompose dv q curOff startAddr) = activePairs dv curOff startAddr (Seq.toList q) ∧
    ∀ c ∈ decompose dv q curOff startAddr, ChunkOK c := by
  intro q
  induction q with
  | nil => intro c a _ _ _; simp [decompose, allPairs, activePairs, Seq.toList]
  | cons s t ih =>
    intro curOff startAddr hw hnd hle
    have hw' := Seq.WF_cons.1 hw
    have hl := s.len_eq hw'.1
    rw [Seq.toList_cons, activePairs_append] at hnd hle
    rw [List.map_append] at hnd
    obtain ⟨hn1, hn2⟩ := nodup_append_left hnd
    rw [← hl] at hn2 hle
    obtain ⟨ih1, ih2⟩ := ih (curOff + s.len) (startAddr + s.len) hw'.2 hn2 (fun p hp => hle p (by simp [hp]))
    simp only [decompose]
    rw [Seq.toList_cons, activePairs_append, ← hl]
    by_cases he : activePairs dv curOff startAddr s.toList = []
    · simp only [he, if_true, List.nil_append]
      exact ⟨ih1, ih2⟩
    · simp only [he, if_false]
      obtain ⟨c, hc1, hc2, hc3⟩ := mkChunk_spec _ he hn1
        ((activePairs_snd dv s.toList curOff startAddr).1.imp (fun h => by omega))
        (fun p hp => hle p (by simp [hp]))
      rw [hc1]
      simp only [Option.toList_some, List.singleton_append]
      constructor
      · unfold allPairs at ih1 ⊢
        rw [List.flatMap_cons, hc2, ih1]
      · intro c' hc'
        rcases List.mem_cons.1 hc' with rfl | h
        · exact hc3
        · exact ih2 c' h

/-! ### `prep_index_chunks` -/

def Raw.lo : Raw → Nat
  | .single c => c.lo
  | .overlap lo _ _ => lo

def Raw.chunks : Raw → List Chunk
  | .single c => [c]
  | .overlap _ _ cs => cs

def RawOK : Raw → Prop
  | .single c => ChunkOK c
  | .overlap lo hi cs => cs ≠ [] ∧ ∀ c ∈ cs, ChunkOK c ∧ lo ≤ c.lo ∧ c.hi ≤ hi

def rawChunks (rs : List Raw) : List Chunk := rs.flatMap Raw.chunks

theorem ChunkOK.lo_le_hi {c : Chunk} (h : ChunkOK c) : c.lo ≤ c.hi := by
  obtain ⟨_, _, _, _, hcov, hlo, _⟩ := h
  exact (hcov _ hlo).2

theorem RawOK.lo_le_end {r : Raw} (h : RawOK r) : r.lo ≤ r.rangeEnd := by
  cases r with
  | single c => exact ChunkOK.lo_le_hi h
  | overlap lo hi cs =>
    obtain ⟨hne, hall⟩ := h
    obtain ⟨c, hc⟩ := List.exists_mem_of_ne_nil cs hne
    obtain ⟨h1, h2, h3⟩ := hall c hc
    have := ChunkOK.lo_le_hi h1
    simp only [Raw.lo, Raw.rangeEnd]
    omega

theorem perm_of_count {l1 l2 : List Chunk} (h : ∀ a, l1.count a = l2.count a) : l1.Perm l2 :=
  List.perm_iff_count.2 h

/-- the loop of `prep_index_chunks` never hits `unreachable!()`, keeps every chunk, and leaves groups whose key ranges are
    disjoint and increasing -/
theorem prepLoop_spec : ∀ (rem : List Chunk) (out : List Raw) (cur : Option (Nat × Nat × List Chunk)),
    (∀ r ∈ out, RawOK r) → out.Pairwise (fun later earlier => earlier.rangeEnd < later.lo) →
    (∀ lo hi cs, cur = some (lo, hi, cs) → cs ≠ [] ∧ (∀ c ∈ cs, ChunkOK c ∧ lo ≤ c.lo ∧ c.hi ≤ hi) ∧
      (∀ r ∈ out, r.rangeEnd < lo) ∧ ∀ c ∈ rem, lo ≤ c.lo) →
    (cur = none → ∃ l out', out = Raw.single l :: out' ∧ ∀ c ∈ rem, l.lo ≤ c.lo) →
    rem.Pairwise (fun a b => a.lo ≤ b.lo) → (∀ c ∈ rem, ChunkOK c) →
    ∃ res, prepLoop rem out cur = some res ∧ (∀ r ∈ res, RawOK r) ∧
      res.Pairwise (fun later earlier => earlier.rangeEnd < later.lo) ∧
      (rawChunks res).Perm (rawChunks out ++ (match cur with | some (_, _, cs) => cs | none => []) ++ rem) := by
  intro rem
  induction rem with
  | nil =>
    intro out cur h1 h2 h3 _ _ _
    cases cur with
    | none => exact ⟨out, rfl, h1, h2, by simp⟩
    | some t =>
      obtain ⟨lo, hi, cs⟩ := t
      obtain ⟨hne, hall, hout, _⟩ := h3 lo hi cs rfl
      refine ⟨Raw.overlap lo hi cs.reverse :: out, rfl, ?_, ?_, ?_⟩
      · intro r hr
        rcases List.mem_cons.1 hr with rfl | hr'
        · exact ⟨by simpa using hne, fun c hc => hall c (by simpa using hc)⟩
        · exact h1 r hr'
      · exact List.pairwise_cons.2 ⟨fun r hr => hout r hr, h2⟩
      · apply perm_of_count
        intro a
        simp [rawChunks, Raw.chunks, List.count_append, List.count_reverse]
        omega
  | cons c rest ih =>
    intro out cur h1 h2 h3 h4 h5 h6
    rw [List.pairwise_cons] at h5
    have hcok := h6 c (by simp)
    have h6' : ∀ c' ∈ rest, ChunkOK c' := fun c' hc' => h6 c' (by simp [hc'])
    cases cur with
    | none =>
      obtain ⟨l, out', rfl, hfloor⟩ := h4 rfl
      have hl := h1 (Raw.single l) (by simp)
      have hlok : ChunkOK l := hl
      rw [List.pairwise_cons] at h2
      simp only [prepLoop, Raw.rangeEnd]
      by_cases hov : c.lo ≤ l.hi
      · simp only [hov, if_true]
        obtain ⟨res, r1, r2, r3, r4⟩ := ih out' (some (l.lo, max c.hi l.hi, [c, l]))
          (fun r hr => h1 r (by simp [hr])) h2.2
          (by
            intro lo hi cs e
            simp only [Option.some.injEq, Prod.mk.injEq] at e
            obtain ⟨rfl, rfl, rfl⟩ := e
            refine ⟨by simp, ?_, ?_, ?_⟩
            · intro c' hc'
              rcases List.mem_cons.1 hc' with rfl | hc''
              · exact ⟨hcok, hfloor c' (by simp), by omega⟩
              · have : c' = l := by simpa using hc''
                subst this
                exact ⟨hlok, Nat.le_refl _, by omega⟩
            · intro r hr; exact h2.1 r hr
            · intro c' hc'; exact hfloor c' (by simp [hc']))
          (by intro e; cases e) h5.2 h6'
        refine ⟨res, r1, r2, r3, ?_⟩
        refine r4.trans (perm_of_count ?_)
        intro a
        simp [rawChunks, Raw.chunks, List.count_append, List.count_cons]
        omega
      · simp only [hov, if_false]
        obtain ⟨res, r1, r2, r3, r4⟩ := ih (Raw.single c :: Raw.single l :: out') none
          (by
            intro r hr
            rcases List.mem_cons.1 hr with rfl | hr'
            · exact hcok
            · exact h1 r hr')
          (by
            refine List.pairwise_cons.2 ⟨?_, List.pairwise_cons.2 h2⟩
            intro r hr
            simp only [Raw.lo]
            rcases List.mem_cons.1 hr with rfl | hr'
            · simp only [Raw.rangeEnd]; omega
            · have := h2.1 r hr'
              simp only [Raw.lo] at this
              have := ChunkOK.lo_le_hi hlok
              omega)
          (by intro lo hi cs e; cases e)
          (by intro _; exact ⟨c, _, rfl, fun c' hc' => h5.1 c' hc'⟩) h5.2 h6'
        refine ⟨res, r1, r2, r3, ?_⟩
        refine r4.trans (perm_of_count ?_)
        intro a
        simp [rawChunks, Raw.chunks, List.count_append, List.count_cons]
        omega
    | some t =>
      obtain ⟨lo, hi, cs⟩ := t
      obtain ⟨hne, hall, hout, hfloor⟩ := h3 lo hi cs rfl
      simp only [prepLoop]
      by_cases hov : c.lo ≤ hi
      · simp only [hov, if_true]
        obtain ⟨res, r1, r2, r3, r4⟩ := ih out (some (lo, max c.hi hi, c :: cs)) h1 h2
          (by
            intro lo' hi' cs' e
            simp only [Option.some.injEq, Prod.mk.injEq] at e
            obtain ⟨rfl, rfl, rfl⟩ := e
            refine ⟨by simp, ?_, hout, fun c' hc' => hfloor c' (by simp [hc'])⟩
            intro c' hc'
            rcases List.mem_cons.1 hc' with rfl | hc''
            · exact ⟨hcok, hfloor c' (by simp), by omega⟩
            · obtain ⟨g1, g2, g3⟩ := hall c' hc''
              exact ⟨g1, g2, by omega⟩)
          (by intro e; cases e) h5.2 h6'
        refine ⟨res, r1, r2, r3, ?_⟩
        refine r4.trans (perm_of_count ?_)
        intro a
        simp [List.count_append, List.count_cons]
        omega
      · simp only [hov, if_false]
        have hovok : RawOK (Raw.overlap lo hi cs.reverse) :=
          ⟨by simpa using hne, fun c' hc' => hall c' (by simpa using hc')⟩
        have hlohi : lo ≤ hi := RawOK.lo_le_end hovok
        obtain ⟨res, r1, r2, r3, r4⟩ := ih (Raw.single c :: Raw.overlap lo hi cs.reverse :: out) none
          (by
            intro r hr
            rcases List.mem_cons.1 hr with rfl | hr'
            · exact hcok
            · rcases List.mem_cons.1 hr' with rfl | hr''
              · exact hovok
              · exact h1 r hr'')
          (by
            refine List.pairwise_cons.2 ⟨?_, List.pairwise_cons.2 ⟨fun r hr => hout r hr, h2⟩⟩
            intro r hr
            simp only [Raw.lo]
            rcases List.mem_cons.1 hr with rfl | hr'
            · simp only [Raw.rangeEnd]; omega
            · have := hout r hr'
              omega)
          (by intro lo' hi' cs' e; cases e)
          (by intro _; exact ⟨c, _, rfl, fun c' hc' => h5.1 c' hc'⟩) h5.2 h6'
        refine ⟨res, r1, r2, r3, ?_⟩
        refine r4.trans (perm_of_count ?_)
        intro a
        simp [rawChunks, Raw.chunks, List.count_append, List.count_cons, List.count_reverse]
        omega


/-! ### `merge_overlapping_chunks` and the final chunk list -/

theorem perm_flatMap {α β : Type} (f : α → List β) {l1 l2 : List α} (h : l1.Perm l2) : (l1.flatMap f).Perm (l2.flatMap f) := by
  induction h with
  | nil => exact List.Perm.refl _
  | cons x _ ih => simp only [List.flatMap_cons]; exact List.Perm.append (List.Perm.refl _) ih
  | swap x y l =>
    simp only [List.flatMap_cons]
    rw [← List.append_assoc, ← List.append_assoc]
    exact List.Perm.append List.perm_append_comm (List.Perm.refl _)
  | trans _ _ ih1 ih2 => exact ih1.trans ih2

/-- how a final chunk relates to the group it was made from -/
def FinRel (r : Raw) (f : Chunk) : Prop :=
  r.lo ≤ f.lo ∧ f.hi ≤ r.rangeEnd ∧ ChunkOK f ∧ (pairsOf f).Perm (allPairs r.chunks)

def Match : List Raw → List Chunk → Prop
  | [], [] => True
  | r :: rs, f :: fs => FinRel r f ∧ Match rs fs
  | _, _ => False

theorem fst_mem_pairsOf {c : Chunk} {p : Nat × Nat} (h : p ∈ pairsOf c) : p.1 ∈ c.ids.toList :=
  (List.of_mem_zip h).1

theorem pairsOf_map_fst {c : Chunk} (h : ChunkOK c) : (pairsOf c).map Prod.fst = c.ids.toList := by
  obtain ⟨_, _, _, hlen, _, _, _⟩ := h
  unfold pairsOf
  rw [List.map_fst_zip (by omega)]

theorem finalChunks_spec : ∀ (raws : List Raw), (∀ r ∈ raws, RawOK r) →
    ((allPairs (rawChunks raws)).map Prod.fst).Nodup → ((allPairs (rawChunks raws)).map Prod.snd).Nodup →
    (∀ p ∈ allPairs (rawChunks raws), p.1 ≤ U64MAX ∧ p.2 ≤ U64MAX) →
    ∃ F, finalChunks raws = some F ∧ Match raws F := by
  intro raws
  induction raws with
  | nil => intro _ _ _ _; exact ⟨[], rfl, trivial⟩
  | cons r rest ih =>
    intro hok hn1 hn2 hle
    have hsplit : allPairs (rawChunks (r :: rest)) = allPairs r.chunks ++ allPairs (rawChunks rest) := by
      simp [allPairs, rawChunks]
    rw [hsplit, List.map_append] at hn1 hn2
    rw [hsplit] at hle
    obtain ⟨hn1a, hn1b⟩ := nodup_append_left hn1
    obtain ⟨hn2a, hn2b⟩ := nodup_append_left hn2
    obtain ⟨F', hF1, hF2⟩ := ih (fun r' hr' => hok r' (by simp [hr'])) hn1b hn2b (fun p hp => hle p (by simp [hp]))
    have hrok := hok r (by simp)
    cases r with
    | single c =>
      refine ⟨c :: F', by simp [finalChunks, hF1], ?_, hF2⟩
      exact ⟨Nat.le_refl _, Nat.le_refl _, hrok, by simp [allPairs, Raw.chunks]⟩
    | overlap lo hi cs =>
      obtain ⟨hne, hall⟩ := hrok
      simp only [Raw.chunks] at hn1a hn2a hle
      have hperm := sortKey_perm Prod.fst (allPairs cs)
      have hpne : sortKey Prod.fst (allPairs cs) ≠ [] := by
        obtain ⟨c, hc⟩ := List.exists_mem_of_ne_nil cs hne
        obtain ⟨hcok, _, _⟩ := hall c hc
        have hlo := hcok.2.2.2.2.2.1
        have : c.lo ∈ (pairsOf c).map Prod.fst := by rw [pairsOf_map_fst hcok]; exact hlo
        rw [List.mem_map] at this
        obtain ⟨p, hp, _⟩ := this
        have hp' : p ∈ allPairs cs := by
          unfold allPairs; rw [List.mem_flatMap]; exact ⟨c, hc, hp⟩
        intro e
        have := hperm.mem_iff.2 hp'
        rw [e] at this
        simp at this
      obtain ⟨m, hm1, hm2, hm3⟩ := mkChunk_spec (sortKey Prod.fst (allPairs cs)) hpne
        ((hperm.map Prod.fst).nodup_iff.2 hn1a) ((hperm.map Prod.snd).nodup_iff.2 hn2a)
        (fun p hp => hle p (by simp [hperm.mem_iff.1 hp]))
      have hmerge : mergeChunks cs = some m := by
        unfold mergeChunks
        exact hm1
      refine ⟨m :: F', by simp [finalChunks, hmerge, hF1], ?_, hF2⟩
      -- the merged chunk's key range lies inside the group's range
      have hin : ∀ x ∈ m.ids.toList, lo ≤ x ∧ x ≤ hi := by
        intro x hx
        rw [← pairsOf_map_fst hm3, hm2, List.mem_map] at hx
        obtain ⟨p, hp, rfl⟩ := hx
        have hp' := hperm.mem_iff.1 hp
        unfold allPairs at hp'
        rw [List.mem_flatMap] at hp'
        obtain ⟨c, hc, hpc⟩ := hp'
        obtain ⟨hcok, h1, h2⟩ := hall c hc
        have := hcok.2.2.2.2.1 _ (fst_mem_pairsOf hpc)
        omega
      refine ⟨(hin _ hm3.2.2.2.2.2.1).1, (hin _ hm3.2.2.2.2.2.2).2, hm3, ?_⟩
      rw [hm2]
      exact hperm

theorem match_props : ∀ (raws : List Raw) (F : List Chunk), Match raws F →
    raws.Pairwise (fun a b => a.rangeEnd < b.lo) → (∀ r ∈ raws, RawOK r) →
    Chain F ∧ (∀ c ∈ F, ChunkOK c) ∧ (allPairs F).Perm (allPairs (rawChunks raws)) ∧
    (∀ r ∈ raws, ∀ f ∈ F, True) ∧ (∀ f ∈ F, ∃ r ∈ raws, r.lo ≤ f.lo) := by
  intro raws
  induction raws with
  | nil =>
    intro F hm _ _
    cases F with
    | nil => simp [Chain, allPairs, rawChunks]
    | cons _ _ => simp [Match] at hm
  | cons r rest ih =>
    intro F hm hp hok
    cases F with
    | nil => simp [Match] at hm
    | cons f fs =>
      obtain ⟨hrel, hrest⟩ := hm
      rw [List.pairwise_cons] at hp
      obtain ⟨i1, i2, i3, _, i5⟩ := ih fs hrest hp.2 (fun r' hr' => hok r' (by simp [hr']))
      obtain ⟨g1, g2, g3, g4⟩ := hrel
      refine ⟨?_, ?_, ?_, by simp, ?_⟩
      · refine List.pairwise_cons.2 ⟨?_, i1⟩
        intro f' hf'
        obtain ⟨r', hr', hlo⟩ := i5 f' hf'
        have := hp.1 r' hr'
        omega
      · intro c hc
        rcases List.mem_cons.1 hc with rfl | hc'
        · exact g3
        · exact i2 c hc'
      · have : allPairs (rawChunks (r :: rest)) = allPairs r.chunks ++ allPairs (rawChunks rest) := by
          simp [allPairs, rawChunks]
        rw [this]
        have : allPairs (f :: fs) = pairsOf f ++ allPairs fs := by simp [allPairs]
        rw [this]
        exact List.Perm.append g4 i3
      · intro f' hf'
        rcases List.mem_cons.1 hf' with rfl | hf''
        · exact ⟨r, by simp, g1⟩
        · obtain ⟨r', hr', h⟩ := i5 f' hf''
          exact ⟨r', by simp [hr'], h⟩

/-- the live (row id, address) pairs of the fragments: every row of every fragment that its deletion vector keeps, with
    the address `fragment_id << 32 | offset` -/
def livePairs (frags : List (Nat × Seq × List Nat)) : List (Nat × Nat) :=
  frags.flatMap (fun f => activePairs f.2.2 0 (f.1 * 4294967296) (Seq.toList f.2.1))

theorem decompose_all : ∀ (frags : List (Nat × Seq × List Nat)), (∀ f ∈ frags, Seq.WF f.2.1) →
    ((livePairs frags).map Prod.fst).Nodup → (∀ p ∈ livePairs frags, p.1 ≤ U64MAX ∧ p.2 ≤ U64MAX) →
    allPairs (frags.flatMap (fun f => decompose f.2.2 f.2.1 0 (f.1 * 4294967296))) = livePairs frags ∧
    ∀ c ∈ frags.flatMap (fun f => decompose f.2.2 f.2.1 0 (f.1 * 4294967296)), ChunkOK c := by
  intro frags
  induction frags with
  | nil => intro _ _ _; simp [allPairs, livePairs]
  | cons f t ih =>
    intro hw hnd hle
    have hl : livePairs (f :: t) = activePairs f.2.2 0 (f.1 * 4294967296) (Seq.toList f.2.1) ++ livePairs t := by
      simp [livePairs]
    rw [hl, List.map_append] at hnd
    rw [hl] at hle
    obtain ⟨hn1, hn2⟩ := nodup_append_left hnd
    obtain ⟨d1, d2⟩ := decompose_spec f.2.2 f.2.1 0 (f.1 * 4294967296) (hw f (by simp)) hn1 (fun p hp => hle p (by simp [hp]))
    obtain ⟨i1, i2⟩ := ih (fun f' hf' => hw f' (by simp [hf'])) hn2 (fun p hp => hle p (by simp [hp]))
    constructor
    · rw [hl, List.flatMap_cons]
      unfold allPairs at d1 i1 ⊢
      rw [List.flatMap_append, d1, i1]
    · intro c hc
      rw [List.flatMap_cons] at hc
      rcases List.mem_append.1 hc with h | h
      · exact d2 c h
      · exact i2 c h

/-- `RowIdIndex::new` does not panic and produces a chain of well-formed chunks holding exactly the live pairs -/
theorem indexNew_spec (frags : List (Nat × Seq × List Nat)) (hw : ∀ f ∈ frags, Seq.WF f.2.1)
    (hn1 : ((livePairs frags).map Prod.fst).Nodup) (hn2 : ((livePairs frags).map Prod.snd).Nodup)
    (hle : ∀ p ∈ livePairs frags, p.1 ≤ U64MAX ∧ p.2 ≤ U64MAX) :
    ∃ F, indexNew frags = some F ∧ Chain F ∧ (∀ c ∈ F, ChunkOK c) ∧ (allPairs F).Perm (livePairs frags) := by
  obtain ⟨d1, d2⟩ := decompose_all frags hw hn1 hle
  generalize hch : frags.flatMap (fun f => decompose f.2.2 f.2.1 0 (f.1 * 4294967296)) = chunks0 at d1 d2
  have hsp := sortKey_perm (fun c : Chunk => U64MAX - c.lo) chunks0
  have hrp : ((sortKey (fun c : Chunk => U64MAX - c.lo) chunks0).reverse).Perm chunks0 := (List.reverse_perm _).trans hsp
  have hlomax : ∀ c ∈ chunks0, c.lo ≤ U64MAX := by
    intro c hc
    have hcok := d2 c hc
    have hlo := hcok.2.2.2.2.2.1
    have : c.lo ∈ (pairsOf c).map Prod.fst := by rw [pairsOf_map_fst hcok]; exact hlo
    rw [List.mem_map] at this
    obtain ⟨p, hp, hpe⟩ := this
    have hp' : p ∈ livePairs frags := by
      rw [← d1]; unfold allPairs; rw [List.mem_flatMap]; exact ⟨c, hc, hp⟩
    rw [← hpe]; exact (hle p hp').1
  have hasc : ((sortKey (fun c : Chunk => U64MAX - c.lo) chunks0).reverse).Pairwise (fun a b => a.lo ≤ b.lo) := by
    rw [List.pairwise_reverse]
    refine (sortKey_pairwise (fun c : Chunk => U64MAX - c.lo) chunks0).imp_of_mem ?_
    intro a b ha hb hab
    have := hlomax a (hsp.mem_iff.1 ha)
    have := hlomax b (hsp.mem_iff.1 hb)
    omega
  unfold indexNew prepChunks
  rw [hch]
  generalize (sortKey (fun c : Chunk => U64MAX - c.lo) chunks0).reverse = asc at hrp hasc
  have hallok : ∀ c ∈ asc, ChunkOK c := fun c hc => d2 c (hrp.mem_iff.1 hc)
  cases asc with
  | nil =>
    have : chunks0 = [] := List.Perm.eq_nil hrp.symm
    subst this
    refine ⟨[], rfl, by simp [Chain], by simp, ?_⟩
    rw [← d1]
  | cons c rest =>
    rw [List.pairwise_cons] at hasc
    obtain ⟨res, r1, r2, r3, r4⟩ := prepLoop_spec rest [Raw.single c] none
      (by intro r hr; have : r = Raw.single c := by simpa using hr
          subst this; exact hallok c (by simp))
      (by simp)
      (by intro lo hi cs e; cases e)
      (by intro _; exact ⟨c, [], rfl, fun c' hc' => hasc.1 c' hc'⟩)
      hasc.2 (fun c' hc' => hallok c' (by simp [hc']))
    simp only
    rw [r1]
    simp only [Option.map_some]
    have hrawperm : (rawChunks res.reverse).Perm (c :: rest) := by
      refine (perm_flatMap Raw.chunks (List.reverse_perm res)).trans (r4.trans ?_)
      simp [rawChunks, Raw.chunks]
    have hpp : (allPairs (rawChunks res.reverse)).Perm (livePairs frags) := by
      rw [← d1]
      exact perm_flatMap pairsOf (hrawperm.trans hrp)
    obtain ⟨F, hF1, hF2⟩ := finalChunks_spec res.reverse (fun r hr => r2 r (by simpa using hr))
      ((hpp.map Prod.fst).nodup_iff.2 hn1) ((hpp.map Prod.snd).nodup_iff.2 hn2)
      (fun p hp => hle p (hpp.mem_iff.1 hp))
    obtain ⟨m1, m2, m3, _, _⟩ := match_props res.reverse F hF2
      (by rw [List.pairwise_reverse]; exact r3) (fun r hr => r2 r (by simpa using hr))
    exact ⟨F, hF1, m1, m2, m3.trans hpp⟩

end LanceModel.C34
