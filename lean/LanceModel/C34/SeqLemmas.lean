import LanceModel.C34.SegPos
/-!
`RowIdSequence`: `len`, `get`, `extend`, `slice`, `select`.
-/
namespace LanceModel.C34

def Seq.WF (q : Seq) : Prop := ∀ s ∈ q, s.WF

theorem Seq.toList_cons (s : Seg) (q : Seq) : Seq.toList (s :: q) = s.toList ++ Seq.toList q := by
  simp [Seq.toList]

theorem Seq.toList_append (a b : Seq) : Seq.toList (a ++ b) = Seq.toList a ++ Seq.toList b := by
  simp [Seq.toList]

theorem Seq.WF_cons {s : Seg} {q : Seq} : Seq.WF (s :: q) ↔ s.WF ∧ Seq.WF q := by
  simp [Seq.WF]

theorem Seq.WF_append {a b : Seq} : Seq.WF (a ++ b) ↔ Seq.WF a ∧ Seq.WF b := by
  simp only [Seq.WF, List.mem_append]
  constructor
  · intro h; exact ⟨fun s hs => h s (Or.inl hs), fun s hs => h s (Or.inr hs)⟩
  · intro ⟨h1, h2⟩ s hs; rcases hs with hs | hs
    · exact h1 s hs
    · exact h2 s hs

/-- `RowIdSequence::len` -/
theorem Seq.len_eq : ∀ (q : Seq), Seq.WF q → Seq.len q = (Seq.toList q).length := by
  intro q
  induction q with
  | nil => intro _; rfl
  | cons s t ih =>
    intro h
    rw [Seq.WF_cons] at h
    rw [Seq.toList_cons, List.length_append, ← ih h.2, ← s.len_eq h.1]
    simp [Seq.len]

/-- `RowIdSequence::get` is indexing into the plain list -/
theorem Seq.get_eq : ∀ (q : Seq) (i : Nat), Seq.WF q → Seq.get q i = (Seq.toList q)[i]? := by
  intro q
  induction q with
  | nil => intro i _; simp [Seq.get, Seq.toList]
  | cons s t ih =>
    intro i h
    rw [Seq.WF_cons] at h
    rw [Seq.toList_cons]
    simp only [Seq.get]
    have hl := s.len_eq h.1
    split
    · rw [s.get_eq h.1, List.getElem?_append_left (by omega)]
    · rw [ih _ h.2, List.getElem?_append_right (by omega), hl]

theorem rangeList_append (a b c : Nat) (h1 : a ≤ b) (h2 : b ≤ c) : rangeList a b ++ rangeList b c = rangeList a c := by
  unfold rangeList
  have := @List.range'_append a (b - a) (c - b) 1
  rw [show a + 1 * (b - a) = b by omega, show b - a + (c - b) = c - a by omega] at this
  exact this

theorem dropLast_append_getLast (l : List Seg) (x : Seg) (h : l.getLast? = some x) : l.dropLast ++ [x] = l := by
  induction l with
  | nil => simp at h
  | cons a t ih =>
    cases t with
    | nil => simp at h; subst h; rfl
    | cons b t' =>
      rw [List.getLast?_cons_cons] at h
      rw [List.dropLast_cons_of_ne_nil (by simp), List.cons_append, ih h]

/-- `RowIdSequence::extend` appends (merging two adjacent ranges does not change the ids) -/
theorem Seq.extend_toList (a b : Seq) (ha : Seq.WF a) (hb : Seq.WF b) :
    Seq.toList (Seq.extend a b) = Seq.toList a ++ Seq.toList b ∧ Seq.WF (Seq.extend a b) := by
  have hdef : Seq.toList (a ++ b) = Seq.toList a ++ Seq.toList b ∧ Seq.WF (a ++ b) :=
    ⟨Seq.toList_append a b, Seq.WF_append.2 ⟨ha, hb⟩⟩
  unfold Seq.extend
  split
  · rename_i s1 e1 s2 e2 hl hh
    split
    · rename_i he
      subst he
      have ha' := dropLast_append_getLast a _ hl
      cases b with
      | nil => simp at hh
      | cons b0 bt =>
        have hb0 : b0 = Seg.range e1 e2 := by simpa using hh
        subst hb0
        have hwa : Seq.WF (a.dropLast ++ [Seg.range s1 e1]) := by rw [ha']; exact ha
        rw [Seq.WF_append] at hwa
        have h1 : s1 ≤ e1 := hwa.2 (Seg.range s1 e1) (by simp)
        have h2 : e1 ≤ e2 := (Seq.WF_cons.1 hb).1
        have hat : Seq.toList a = Seq.toList (a.dropLast ++ [Seg.range s1 e1]) := by rw [ha']
        constructor
        · rw [hat]
          simp only [List.drop_one, List.tail_cons, Seq.toList_append, Seq.toList_cons, Seg.toList]
          rw [← rangeList_append s1 e1 e2 h1 h2]
          simp [Seq.toList]
        · simp only [List.drop_one, List.tail_cons]
          rw [Seq.WF_append, Seq.WF_append]
          refine ⟨⟨hwa.1, ?_⟩, (Seq.WF_cons.1 hb).2⟩
          intro s hs
          have : s = Seg.range s1 e2 := by simpa using hs
          subst this
          show s1 ≤ e2
          omega
    · exact hdef
  · exact hdef

/-! ### slice -/

theorem skipSegs_spec : ∀ (q : Seq) (off : Nat), Seq.WF q →
    (Seq.toList q).drop off = (Seq.toList (skipSegs q off).1).drop (skipSegs q off).2 ∧ Seq.WF (skipSegs q off).1 ∧
    (∀ s rest, (skipSegs q off).1 = s :: rest → (skipSegs q off).2 < s.len) := by
  intro q
  induction q with
  | nil => intro off _; simp [skipSegs, Seq.WF]
  | cons s t ih =>
    intro off h
    have hw := Seq.WF_cons.1 h
    simp only [skipSegs]
    split
    · rename_i hlt
      refine ⟨rfl, h, ?_⟩
      intro s' rest e
      have : s = s' := by simpa using (List.cons.inj e).1
      subst this; exact hlt
    · rename_i hge
      obtain ⟨h1, h2, h3⟩ := ih (off - s.len) hw.2
      refine ⟨?_, h2, h3⟩
      rw [← h1, Seq.toList_cons, List.drop_append, ← s.len_eq hw.1]
      rw [List.drop_eq_nil_of_le (by rw [← s.len_eq hw.1]; omega)]
      simp

/-- the ids a `RowIdSeqSlice` yields up to `offset_last` of its last segment -/
def prefixTake (segs : Seq) (ol : Nat) : List Nat :=
  segs.dropLast.flatMap Seg.toList ++ (match segs.getLast? with | some l => l.toList.take ol | none => [])

theorem prefixTake_cons (s : Seg) (R : Seq) (ol : Nat) (h : R ≠ []) :
    prefixTake (s :: R) ol = s.toList ++ prefixTake R ol := by
  unfold prefixTake
  cases R with
  | nil => exact absurd rfl h
  | cons r rt =>
    rw [List.dropLast_cons_of_ne_nil (by simp), List.getLast?_cons_cons, List.flatMap_cons, List.append_assoc]

theorem lastSeg_spec : ∀ (q : Seq) (ol : Nat), Seq.WF q → q ≠ [] → ol ≤ (Seq.toList q).length →
    (lastSeg q ol).1 < q.length ∧ prefixTake (q.take ((lastSeg q ol).1 + 1)) (lastSeg q ol).2 = (Seq.toList q).take ol := by
  intro q
  induction q with
  | nil => intro ol _ h _; exact absurd rfl h
  | cons s t ih =>
    intro ol h _ hol
    have hw := Seq.WF_cons.1 h
    have hl := s.len_eq hw.1
    simp only [lastSeg]
    split
    · rename_i hle
      refine ⟨by simp, ?_⟩
      simp only [Nat.zero_add, List.take_succ_cons, List.take_zero, prefixTake, List.dropLast_singleton,
        List.flatMap_nil, List.nil_append, List.getLast?_singleton]
      rw [Seq.toList_cons, List.take_append_of_le_length (by omega)]
    · rename_i hgt
      rw [Seq.toList_cons, List.length_append] at hol
      have htne : t ≠ [] := by
        intro e; subst e; simp [Seq.toList] at hol; omega
      obtain ⟨h1, h2⟩ := ih (ol - s.len) hw.2 htne (by omega)
      refine ⟨by simp; omega, ?_⟩
      simp only [List.take_succ_cons]
      rw [prefixTake_cons _ _ _ (by
        intro e
        have := congrArg List.length e
        simp at this
        cases t with
        | nil => exact htne rfl
        | cons _ _ => simp at this), h2, Seq.toList_cons, List.take_append, hl]
      rw [List.take_of_length_le (l := s.toList) (by omega)]

theorem sliceIter_eq (segs : Seq) (os ol : Nat) (h : ∀ s rest, segs = s :: rest → os ≤ s.toList.length) :
    sliceIter segs os ol = (prefixTake segs ol).drop os := by
  cases segs with
  | nil => simp [sliceIter, prefixTake]
  | cons s R =>
    have hos := h s R rfl
    cases R with
    | nil =>
      simp only [sliceIter, prefixTake, List.dropLast_singleton, List.flatMap_nil, List.nil_append,
        List.getLast?_singleton]
      rw [List.drop_take]
    | cons r rt =>
      rw [prefixTake_cons _ _ _ (by simp), List.drop_append_of_le_length hos]
      simp only [sliceIter]
      unfold prefixTake
      rw [List.append_assoc]
      congr 2

/-- `RowIdSequence::slice(off, len).iter()` within bounds is `drop`/`take` on the plain list (and does not panic) -/
theorem Seq.slice_spec (q : Seq) (off len : Nat) (h : Seq.WF q) (hb : off + len ≤ (Seq.toList q).length) :
    Seq.slice q off len = some (((Seq.toList q).drop off).take len) := by
  unfold Seq.slice
  by_cases h0 : len = 0
  · simp [h0]
  · simp only [h0, if_false]
    obtain ⟨h1, h2, h3⟩ := skipSegs_spec q off h
    generalize hq' : (skipSegs q off).1 = q' at *
    generalize hos : (skipSegs q off).2 = os at *
    have hlen : os + len ≤ (Seq.toList q').length := by
      have := congrArg List.length h1
      simp at this
      omega
    have hne : q' ≠ [] := by
      intro e; subst e; simp [Seq.toList] at hlen; omega
    obtain ⟨h4, h5⟩ := lastSeg_spec q' (os + len) h2 hne hlen
    rw [if_pos h4, sliceIter_eq _ _ _ (by
      intro s rest e
      cases q' with
      | nil => exact absurd rfl hne
      | cons s0 r0 =>
        simp only [List.take_succ_cons] at e
        have : s0 = s := (List.cons.inj e).1
        subst this
        have := h3 s0 r0 rfl
        rw [← s0.len_eq (Seq.WF_cons.1 h2).1]
        omega), h5, h1, List.drop_take]
    simp

end LanceModel.C34
