/-
C34 model: row id sequences and the row id index of `rust/lance-table/src/rowids.rs` and
`rowids/{segment,bitmap,encoded_array,index}.rs`.

Import-free.  Every definition names the Rust function it mirrors.  Conventions:
* `u64`/`usize` values are `Nat`; the code's overflow points (`max + 1` for an id of `u64::MAX`, `4 * n_holes`
  for spans ≥ 2^62, `total_slots as f64` for spans ≥ 2^53) are outside the modelled domain (Props/`level_note`).
* `EncodedU64Array` (U16 / U32 / U64 offset encodings) is abstracted to the list of its values; `binary_search` on the
  sorted holes / sorted array is modelled as membership / first index (equal on sorted duplicate-free arrays,
  which is what `Seg.WF` records).
* `Bitmap` is a `List Bool` of length `end - start`.
* A Rust panic (`unwrap` on `None`, slice index out of range, checked subtraction) is `none` of an outer `Option`.
-/
namespace LanceModel.C34

/-- iteration of a `Range<u64>` `s..e` -/
def rangeList (s e : Nat) : List Nat := List.range' s (e - s)

/-- segment.rs `enum U64Segment` -/
inductive Seg where
  | range (s e : Nat)
  | holes (s e : Nat) (hs : List Nat)
  | bitmap (s e : Nat) (bits : List Bool)
  | sorted (a : List Nat)
  | array (a : List Nat)
  deriving Repr, DecidableEq, Inhabited

/-- bitmap.rs `Bitmap::get` (within the bitmap's length) -/
def bitAt (bits : List Bool) (i : Nat) : Bool := bits[i]? == some true

/-- segment.rs `U64Segment::iter` — the abstraction function -/
def Seg.toList : Seg → List Nat
  | .range s e => rangeList s e
  | .holes s e hs => (rangeList s e).filter (fun v => !hs.contains v)
  | .bitmap s e bits => (rangeList s e).filter (fun v => bitAt bits (v - s))
  | .sorted a => a
  | .array a => a

/-- segment.rs `U64Segment::len` (note: computed from the hole count / zero count, not by iterating) -/
def Seg.len : Seg → Nat
  | .range s e => e - s
  | .holes s e hs => (e - s) - hs.length
  | .bitmap s e bits => (e - s) - (bits.length - bits.count true)
  | .sorted a => a.length
  | .array a => a.length

def listMin : List Nat → Option Nat
  | [] => none
  | x :: xs => some (xs.foldl min x)

def listMax : List Nat → Option Nat
  | [] => none
  | x :: xs => some (xs.foldl max x)

/-- segment.rs `U64Segment::range`: `none` = panic (`unwrap` on an empty array), `some none` = `None` -/
def Seg.bounds : Seg → Option (Option (Nat × Nat))
  | .range s e => if e ≤ s then some none else some (some (s, e - 1))
  | .holes s e _ => if e = 0 then none else some (some (s, e - 1))
  | .bitmap s e _ => if e = 0 then none else some (some (s, e - 1))
  | .sorted a =>
    match a.head?, a.getLast? with
    | some lo, some hi => some (some (lo, hi))
    | _, _ => none
  | .array a =>
    match listMin a, listMax a with
    | some lo, some hi => some (some (lo, hi))
    | _, _ => none

/-- segment.rs `U64Segment::position` -/
def Seg.position : Seg → Nat → Option Nat
  | .range s e, v => if s ≤ v ∧ v < e then some (v - s) else none
  | .holes s e hs, v =>
    if s ≤ v ∧ v < e ∧ hs.contains v = false then some ((v - s) - (hs.takeWhile (· < v)).length) else none
  | .bitmap s e bits, v =>
    if s ≤ v ∧ v < e ∧ bitAt bits (v - s) = true then some ((v - s) - ((v - s) - (bits.take (v - s)).count true)) else none
  | .sorted a, v => a.idxOf? v
  | .array a, v => a.idxOf? v

/-- segment.rs `U64Segment::get` -/
def Seg.get : Seg → Nat → Option Nat
  | .range s e, i => if s + i < e then some (s + i) else none
  | .holes s e hs, i => if e - s ≤ i then none else (Seg.holes s e hs).toList[i]?
  | .bitmap s e bits, i => if e - s ≤ i then none else (Seg.bitmap s e bits).toList[i]?
  | .sorted a, i => a[i]?
  | .array a, i => a[i]?

/-- segment.rs `U64Segment::contains` -/
def Seg.contains : Seg → Nat → Bool
  | .range s e, v => decide (s ≤ v ∧ v < e)
  | .holes s e hs, v => decide (s ≤ v ∧ v < e) && !hs.any (· == v)
  | .bitmap s e bits, v => decide (s ≤ v ∧ v < e) && bitAt bits (v - s)
  | .sorted a, v => a.contains v
  | .array a, v => a.contains v

/-- segment.rs `struct SegmentStats` -/
structure Stats where
  min : Nat
  max : Nat
  count : Nat
  sorted : Bool
  deriving Repr, DecidableEq

def U64MAX : Nat := 18446744073709551615

/-- one iteration of the loop of segment.rs `U64Segment::compute_stats` (`val < max` is evaluated after `max` was updated) -/
def statsStep (st : Stats) (v : Nat) : Stats :=
  { min := if v < st.min then v else st.min,
    max := if v > st.max then v else st.max,
    count := st.count + 1,
    sorted := if st.sorted && decide (st.count + 1 > 1) && decide (v < (if v > st.max then v else st.max)) then false
              else st.sorted }

/-- segment.rs `U64Segment::compute_stats` -/
def computeStats (xs : List Nat) : Stats :=
  if xs = [] then { min := 0, max := 0, count := 0, sorted := true }
  else xs.foldl statsStep { min := U64MAX, max := 0, count := 0, sorted := true }

/-- segment.rs `SegmentStats::n_holes` -/
def nHoles (st : Stats) : Nat := if st.count = 0 then 0 else (st.max - st.min + 1) - st.count

/-- segment.rs `U64Segment::sorted_sequence_sizes` (`ceil(total_slots / 8.0)` as integer arithmetic) -/
def sizeHoles (st : Stats) : Nat := 24 + 4 * nHoles st
def sizeBitmap (st : Stats) : Nat := 24 + (st.max - st.min + 1 + 7) / 8
def sizeArray (st : Stats) : Nat := 24 + 2 * st.count
def minSize (st : Stats) : Nat := min (min (sizeHoles st) (sizeBitmap st)) (sizeArray st)

/-- the peek-and-skip walk shared by segment.rs `U64Segment::holes_in_slice` (values of the range that are not the next
    existing value) and `U64Segment::delete` (values of the segment that are not the next value to delete):
    `l.filter(|x| if peek == x { advance; false } else { true })` -/
def skipWalk : List Nat → List Nat → List Nat
  | [], _ => []
  | x :: xs, [] => x :: xs
  | x :: xs, v :: vs => if v = x then skipWalk xs vs else x :: skipWalk xs (v :: vs)

/-- bitmap.rs `Bitmap::clear` for every hole, starting from `Bitmap::new_full` -/
def clearBits (min : Nat) (holes : List Nat) (bits : List Bool) : List Bool :=
  holes.foldl (fun b h => b.set (h - min) false) bits

/-- segment.rs `U64Segment::from_stats_and_sequence` (the `sort_unstable` of the holes is the identity: they are produced
    in increasing order) -/
def fromStats (st : Stats) (xs : List Nat) : Seg :=
  if st.sorted then
    if st.count = 0 then .range 0 0
    else if nHoles st = 0 then .range st.min (st.max + 1)
    else if minSize st = sizeHoles st then
      .holes st.min (st.max + 1) (skipWalk (rangeList st.min (st.max + 1)) xs)
    else if minSize st = sizeBitmap st then
      .bitmap st.min (st.max + 1)
        (clearBits st.min (skipWalk (rangeList st.min (st.max + 1)) xs) (List.replicate (st.max - st.min + 1) true))
    else .sorted xs
  else .array xs

/-- segment.rs `U64Segment::from_slice` / `from_iter` -/
def fromSlice (xs : List Nat) : Seg := fromStats (computeStats xs) xs

/-- segment.rs `U64Segment::slice` -/
def Seg.slice (s : Seg) (off len : Nat) : Seg :=
  if len = 0 then .range 0 0 else fromSlice ((s.toList.drop off).take len)

/-- segment.rs `U64Segment::delete` -/
def Seg.delete (s : Seg) (vals : List Nat) : Seg :=
  fromStats (computeStats (skipWalk s.toList vals)) (skipWalk s.toList vals)

/-- the `enumerate().filter_map` walk of segment.rs `U64Segment::mask`: drop the element at index `i` when `i` is the next position -/
def dropPositions : Nat → List Nat → List Nat → List Nat
  | _, [], _ => []
  | _, x :: xs, [] => x :: xs
  | i, x :: xs, p :: ps => if p = i then dropPositions (i + 1) xs ps else x :: dropPositions (i + 1) xs (p :: ps)

/-- `(0..len).zip(positions.iter().cycle()).find(|(i, p)| p != i)` -/
def firstUnmasked (len : Nat) (ps : List Nat) : Option Nat :=
  (List.range len).find? (fun i => ps[i % ps.length]? != some i)

/-- `(0..len).rev().zip(positions.iter().rev().cycle()).filter(|(i, p)| p != i).next()` -/
def lastUnmasked (len : Nat) (ps : List Nat) : Option Nat :=
  ((List.range len).find? (fun t => ps.reverse[t % ps.length]? != some (len - 1 - t))).map (fun t => len - 1 - t)

def Seg.sortedKind : Seg → Bool
  | .array _ => false
  | _ => true

/-- segment.rs `U64Segment::mask`; `none` = panic -/
def Seg.mask (s : Seg) (ps : List Nat) : Option Seg :=
  if ps = [] then some s
  else if ps.length = s.len then some (.range 0 0)
  else if s.len < ps.length then none
  else
    match firstUnmasked s.len ps, lastUnmasked s.len ps with
    | some f, some l =>
      match s.get f, s.get l with
      | some mn, some mx =>
        some (fromStats { min := mn, max := mx, count := s.len - ps.length, sorted := s.sortedKind }
                (dropPositions 0 s.toList ps))
      | _, _ => none
    | _, _ => none

/-- segment.rs `U64Segment::with_new_high`; `none` = panic, `some none` = `Err` -/
def Seg.withNewHigh (s : Seg) (v : Nat) : Option (Option Seg) :=
  match s.bounds with
  | none => none
  | some r =>
    if (match r with | some (_, hi) => decide (v ≤ hi) | none => false) then some none
    else
      some (some (match s with
        | .range a b =>
          if a = b then .range v (v + 1)
          else if v = b then .range a (v + 1)
          else .holes a (v + 1) (rangeList b v)
        | .holes a b hs =>
          if v = b then .holes a (v + 1) hs else .holes a (v + 1) (hs ++ rangeList b v)
        | .bitmap a b bits => .bitmap a (v + 1) (bits ++ List.replicate (v - b) false ++ [true])
        | .sorted l => .sorted (l ++ [v])
        | .array l => .array (l ++ [v])))

/-! ## EncodedU64Array (the physical encoding behind the `SortedArray` / `Array` / holes payloads) -/

/-- encoded_array.rs `enum EncodedU64Array` -/
inductive Enc where
  | u16 (base : Nat) (offsets : List Nat)
  | u32 (base : Nat) (offsets : List Nat)
  | u64 (values : List Nat)
  deriving Repr, DecidableEq

/-- encoded_array.rs `impl From<Vec<u64>> for EncodedU64Array` -/
def Enc.ofList (vals : List Nat) : Enc :=
  match listMin vals, listMax vals with
  | some mn, some mx =>
    if mx - mn ≤ 65535 then .u16 mn (vals.map (· - mn))
    else if mx - mn ≤ 4294967295 then .u32 mn (vals.map (· - mn))
    else .u64 vals
  | _, _ => .u64 []

/-- encoded_array.rs `EncodedU64Array::iter` -/
def Enc.toList : Enc → List Nat
  | .u16 b o => o.map (b + ·)
  | .u32 b o => o.map (b + ·)
  | .u64 v => v

/-- encoded_array.rs `EncodedU64Array::get` -/
def Enc.get : Enc → Nat → Option Nat
  | .u16 b o, i => o[i]?.map (b + ·)
  | .u32 b o, i => o[i]?.map (b + ·)
  | .u64 v, i => v[i]?

/-- encoded_array.rs `EncodedU64Array::binary_search(val).ok()`: `checked_sub(base)`, the range check against the offset
    width, the narrowing cast (`as u16` / `as u32`, i.e. modulo 2^16 / 2^32) and the search among the offsets.
    `slice::binary_search` of the standard library is taken as "the index of the value" (it is only applied to sorted
    duplicate-free offsets). `none` = `Err(_)`. -/
def Enc.binarySearch : Enc → Nat → Option Nat
  | .u16 b o, v => if v < b then none else if v - b > 65535 then none else o.idxOf? ((v - b) % 65536)
  | .u32 b o, v => if v < b then none else if v - b > 4294967295 then none else o.idxOf? ((v - b) % 4294967296)
  | .u64 vals, v => vals.idxOf? v

/-- an array of the given offset width (16 / 32 / 64) holding `vals`, as the wire format stores it -/
def Enc.withWidth (w : Nat) (vals : List Nat) : Option Enc :=
  match listMin vals, listMax vals with
  | some mn, some mx =>
    if w = 16 then (if mx - mn ≤ 65535 then some (.u16 mn (vals.map (· - mn))) else none)
    else if w = 32 then (if mx - mn ≤ 4294967295 then some (.u32 mn (vals.map (· - mn))) else none)
    else if w = 64 then some (.u64 vals)
    else none
  | _, _ => if w = 64 then some (.u64 []) else none

/-- the offsets fit their width -/
def Enc.Fits : Enc → Prop
  | .u16 _ o => ∀ x ∈ o, x ≤ 65535
  | .u32 _ o => ∀ x ∈ o, x ≤ 4294967295
  | .u64 _ => True

/-! ## RowIdSequence -/

/-- rowids.rs `struct RowIdSequence(Vec<U64Segment>)` -/
abbrev Seq := List Seg

/-- rowids.rs `RowIdSequence::iter` -/
def Seq.toList (q : Seq) : List Nat := q.flatMap Seg.toList

/-- rowids.rs `RowIdSequence::len` -/
def Seq.len (q : Seq) : Nat := (q.map Seg.len).sum

/-- rowids.rs `RowIdSequence::extend` -/
def Seq.extend (a b : Seq) : Seq :=
  match a.getLast?, b.head? with
  | some (.range s1 e1), some (.range s2 e2) =>
    if e1 = s2 then a.dropLast ++ [Seg.range s1 e2] ++ b.drop 1 else a ++ b
  | _, _ => a ++ b

/-- rowids.rs `RowIdSequence::get` -/
def Seq.get : Seq → Nat → Option Nat
  | [], _ => none
  | s :: rest, i => if i < s.len then s.get i else Seq.get rest (i - s.len)

/-- all results present (`.map(..unwrap())` / `collect::<Result<_>>()`): `none` as soon as one is missing -/
def optAll {α : Type} : List (Option α) → Option (List α)
  | [] => some []
  | none :: _ => none
  | some x :: t => (optAll t).map (x :: ·)

/-- stable insertion: before the first element whose key is not smaller -/
def insertKey {α : Type} (key : α → Nat) (x : α) : List α → List α
  | [] => [x]
  | y :: t => if key x ≤ key y then x :: y :: t else y :: insertKey key x t

/-- a stable sort by a `u64` key (`sort_unstable` on distinct-or-plain integers, `sort_by_key` elsewhere): insertion sort
    from the right, so that equal keys keep their order -/
def sortKey {α : Type} (key : α → Nat) (l : List α) : List α := l.foldr (insertKey key) []

/-- `Vec::dedup` -/
def dedupAdj : List Nat → List Nat
  | [] => []
  | [x] => [x]
  | x :: y :: t => if x = y then dedupAdj (y :: t) else x :: dedupAdj (y :: t)

def inRangeOpt (r : Option (Nat × Nat)) (v : Nat) : Bool :=
  match r with
  | some (lo, hi) => decide (lo ≤ v ∧ v ≤ hi)
  | none => false

/-- the offsets rowids.rs `RowIdSequence::find_ids` collects for one segment (every requested id is tried against every
    segment; the cycling iterator always makes a whole number of turns), sorted and — since the `fix:` — deduplicated -/
def segMatches (s : Seg) (ids : List Nat) : Option (List Nat) :=
  match s.bounds with
  | none => if ids = [] then some [] else none
  | some r =>
    some (dedupAdj (sortKey id (ids.filterMap (fun id => if inRangeOpt r id then s.position id else none))))

/-- rowids.rs `RowIdSequence::delete` for one segment: untouched when nothing matched, else `U64Segment::delete` of the
    matched ids in order of appearance; `none` = panic -/
def segDeleteIds (s : Seg) (ids : List Nat) : Option Seg :=
  match segMatches s ids with
  | none => none
  | some [] => some s
  | some offs =>
    match optAll (offs.map s.get) with
    | some vals => some (s.delete vals)
    | none => none

/-- rowids.rs `RowIdSequence::delete` -/
def Seq.delete (q : Seq) (ids : List Nat) : Option Seq := optAll (q.map (fun s => segDeleteIds s ids))

/-- the per-segment part of rowids.rs `RowIdSequence::mask`: split off the positions below `cutoff`, made local -/
def Seq.maskGo : Seq → List Nat → Nat → Option Seq
  | [], _, _ => some []
  | s :: rest, ps, offset =>
    match s.mask ((ps.takeWhile (· < offset + s.len)).map (· - offset)) with
    | none => none
    | some s' =>
      match Seq.maskGo rest (ps.dropWhile (· < offset + s.len)) (offset + s.len) with
      | none => none
      | some rest' => some (s' :: rest')

/-- rowids.rs `RowIdSequence::mask` (followed by `retain(|s| !s.is_empty())`) -/
def Seq.mask (q : Seq) (ps : List Nat) : Option Seq :=
  (Seq.maskGo q ps 0).map (fun q' => q'.filter (fun s => s.len != 0))

/-- first loop of rowids.rs `RowIdSequence::slice`: skip whole segments; returns the remaining segments and `offset_start` -/
def skipSegs : Seq → Nat → Seq × Nat
  | [], off => ([], off)
  | s :: rest, off => if off < s.len then (s :: rest, off) else skipSegs rest (off - s.len)

/-- second loop of rowids.rs `RowIdSequence::slice`: number of further segments and `offset_last` -/
def lastSeg : Seq → Nat → Nat × Nat
  | [], ol => (0, ol)
  | s :: rest, ol => if ol ≤ s.len then (0, ol) else ((lastSeg rest (ol - s.len)).1 + 1, (lastSeg rest (ol - s.len)).2)

/-- rowids.rs `RowIdSeqSlice::iter` over `segments[..]`, `offset_start`, `offset_last` -/
def sliceIter (segs : Seq) (os ol : Nat) : List Nat :=
  match segs with
  | [] => []
  | [s] => (s.toList.drop os).take (ol - os)
  | s :: rest => s.toList.drop os ++ (rest.dropLast.flatMap Seg.toList) ++
      (match rest.getLast? with | some l => l.toList.take ol | none => [])

/-- rowids.rs `RowIdSequence::slice(..).iter()`; `none` = panic (segment index out of range) -/
def Seq.slice (q : Seq) (off len : Nat) : Option (List Nat) :=
  if len = 0 then some []
  else
    if (lastSeg (skipSegs q off).1 ((skipSegs q off).2 + len)).1 < (skipSegs q off).1.length then
      some (sliceIter ((skipSegs q off).1.take ((lastSeg (skipSegs q off).1 ((skipSegs q off).2 + len)).1 + 1))
              (skipSegs q off).2 (lastSeg (skipSegs q off).1 ((skipSegs q off).2 + len)).2)
    else none

/-- the `while (index - rows_passed) >= cur_seg_len` loop of rowids.rs `RowIdSequence::select` -/
def selAdvance : Seq → Nat → Nat → Seq × Nat
  | [], _, passed => ([], passed)
  | s :: rest, index, passed => if index - passed ≥ s.len then selAdvance rest index (passed + s.len) else (s :: rest, passed)

/-- rowids.rs `RowIdSequence::select`; state = (remaining segments with the current one first, rows_passed, last_index);
    `none` = panic (unsorted selection, or `get(..).unwrap()`) -/
def Seq.selectGo : Seq → Nat → Nat → List Nat → Option (List Nat)
  | _, _, _, [] => some []
  | segs, passed, last, index :: rest =>
    if index < last then none
    else
      match selAdvance segs index passed with
      | ([], passed') =>
        (Seq.selectGo [] passed' index rest)
      | (s :: more, passed') =>
        match s.get (index - passed') with
        | none => none
        | some v => (Seq.selectGo (s :: more) passed' index rest).map (v :: ·)

def Seq.select (q : Seq) (sel : List Nat) : Option (List Nat) := Seq.selectGo q 0 0 sel

/-- rowids.rs `GroupingIterator`: maximal runs of consecutive values as half-open ranges -/
def groupRuns : List Nat → List (Nat × Nat)
  | [] => []
  | x :: xs =>
    match groupRuns xs with
    | (a, b) :: t => if a = x + 1 then (x, b) :: t else (x, x + 1) :: (a, b) :: t
    | [] => [(x, x + 1)]

/-- offsets (shifted by `offset`) of the elements of `l` selected by `sel` -/
def selOffsets (sel : Nat → Bool) (l : List Nat) (offset : Nat) : List Nat :=
  ((l.zipIdx offset).filter (fun p => sel p.1)).map (·.2)

/-- rowids.rs `RowIdSequence::mask_to_offset_ranges`, one segment (as the code is after the `fix:` of the bitmap arm):
    returns the ranges of this segment and the offset after it -/
def segMaskOffsets (sel : Nat → Bool) (offset : Nat) : Seg → List (Nat × Nat) × Nat
  | .range s e =>
    (groupRuns (((rangeList s e).filter sel).map (fun a => a - s + offset)), offset + (e - s))
  | .holes s e hs =>
    (groupRuns (((rangeList s e).filter (fun v => !hs.contains v && sel v)).map
        (fun a => a - s + offset - (hs.filter (· < a)).length)),
      offset + (e - s) - ((rangeList s e).filter (fun v => hs.contains v)).length)
  | .bitmap s e bits =>
    (groupRuns (((rangeList s e).filter (fun v => bitAt bits (v - s) && sel v)).map
        (fun a => (a - s) - ((bits.take (a - s)).count false) + offset)),
      offset + (e - s) - ((rangeList s e).filter (fun v => !bitAt bits (v - s))).length)
  | .sorted a => (groupRuns (selOffsets sel a offset), offset + a.length)
  | .array a => (groupRuns (selOffsets sel a offset), offset + a.length)

/-- rowids.rs `RowIdSequence::mask_to_offset_ranges` -/
def Seq.maskToOffsetRanges (sel : Nat → Bool) : Seq → Nat → List (Nat × Nat)
  | [], _ => []
  | s :: rest, offset => (segMaskOffsets sel offset s).1 ++ Seq.maskToOffsetRanges sel rest (segMaskOffsets sel offset s).2

/-! ## rechunk_sequences, select_row_ids -/

/-- the `while remaining > 0` loop of rowids.rs `rechunk_sequences` for one chunk.
    state: queue of segments (peeked one first), `segment_offset`, `remaining`, the chunk built so far.
    `none` = `Err(too few segments)` -/
def fillChunk (allow : Bool) : List Seg → Nat → Nat → Seq → Option (Seq × List Seg × Nat)
  | [], segOff, rem, acc => if rem = 0 then some (acc, [], segOff) else if allow then some (acc, [], segOff) else none
  | s :: rest, segOff, rem, acc =>
    if rem = 0 then some (acc, s :: rest, segOff)
    else if s.len - segOff = 0 then fillChunk allow rest 0 rem acc
    else if s.len - segOff > rem then
      some (Seq.extend acc [s.slice segOff rem], s :: rest, segOff + rem)
    else fillChunk allow rest 0 (rem - (s.len - segOff)) (Seq.extend acc [s.slice segOff (s.len - segOff)])

/-- the `for chunk_size in chunk_sizes` loop -/
def rechunkGo (allow : Bool) : List Nat → List Seg → Nat → Option (List Seq × List Seg)
  | [], queue, _ => some ([], queue)
  | c :: cs, queue, segOff =>
    match fillChunk allow queue segOff c [] with
    | none => none
    | some (chunk, queue', segOff') =>
      match rechunkGo allow cs queue' segOff' with
      | none => none
      | some (chunks, rest) => some (chunk :: chunks, rest)

/-- rowids.rs `rechunk_sequences`; `none` = `Err` (too few / too many segments); trailing empty segments are skipped
    (`fix:` a98d6a9) -/
def rechunk (seqs : List Seq) (sizes : List Nat) (allow : Bool) : Option (List Seq) :=
  match rechunkGo allow sizes (seqs.flatMap id) 0 with
  | none => none
  | some (chunks, rest) => if rest.dropWhile (fun s => s.len == 0) = [] then some chunks else none

/-- result of `select_row_ids` -/
inductive Sel where
  | ok (ids : List Nat)
  | err
  | panic
  deriving Repr, DecidableEq

def sliceSel (q : Seq) (off len : Nat) : Sel :=
  match Seq.slice q off len with
  | some l => .ok l
  | none => .panic

/-- rowids.rs `select_row_ids`, `ReadBatchParams::Indices` -/
def selectIndices (q : Seq) (ix : List Nat) : Sel :=
  match optAll (ix.map (Seq.get q)) with
  | some l => .ok l
  | none => .err

/-- rowids.rs `select_row_ids`, `ReadBatchParams::Range(s..e)` (`s ≤ e`) -/
def selectRange (q : Seq) (s e : Nat) : Sel :=
  if e > q.len then .err else sliceSel q s (e - s)

/-- rowids.rs `select_row_ids`, `ReadBatchParams::Ranges` -/
def selectRanges (q : Seq) : List (Nat × Nat) → Sel
  | [] => .ok []
  | (s, e) :: rest =>
    if e > q.len then .err
    else
      match sliceSel q s (e - s) with
      | .ok l =>
        match selectRanges q rest with
        | .ok l' => .ok (l ++ l')
        | r => r
      | r => r

/-- rowids.rs `select_row_ids`, `ReadBatchParams::RangeFrom(s..)` -/
def selectFrom (q : Seq) (s : Nat) : Sel :=
  if q.len < s then .panic else sliceSel q s (q.len - s)

/-! ## RowIdIndex -/

/-- index.rs `type IndexChunk = (RangeInclusive<u64>, (U64Segment, U64Segment))` -/
structure Chunk where
  lo : Nat
  hi : Nat
  ids : Seg
  addrs : Seg
  deriving Repr, DecidableEq

/-- the (row id, address) pairs of one segment that survive the deletion vector (index.rs `decompose_sequence`, inner
    `filter_map`) -/
def activePairs (dv : List Nat) (curOff startAddr : Nat) (l : List Nat) : List (Nat × Nat) :=
  (l.zipIdx).filterMap (fun p => if dv.contains (curOff + p.2) then none else some (p.1, startAddr + p.2))

def mkChunk (pairs : List (Nat × Nat)) : Option Chunk :=
  match (fromSlice (pairs.map Prod.fst)).bounds with
  | some (some (lo, hi)) => some { lo := lo, hi := hi, ids := fromSlice (pairs.map Prod.fst), addrs := fromSlice (pairs.map Prod.snd) }
  | _ => none

/-- index.rs `decompose_sequence` -/
def decompose (dv : List Nat) : Seq → Nat → Nat → List Chunk
  | [], _, _ => []
  | s :: rest, curOff, startAddr =>
    (if activePairs dv curOff startAddr s.toList = [] then []
     else (mkChunk (activePairs dv curOff startAddr s.toList)).toList)
    ++ decompose dv rest (curOff + s.len) (startAddr + s.len)

/-- index.rs `enum RawIndexChunk` -/
inductive Raw where
  | single (c : Chunk)
  | overlap (lo hi : Nat) (cs : List Chunk)
  deriving Repr

def Raw.rangeEnd : Raw → Nat
  | .single c => c.hi
  | .overlap _ hi _ => hi

/-- the `while let Some(chunk) = chunks.pop()` loop of index.rs `prep_index_chunks`.
    `out` is the output vector reversed (last pushed first); `cur = (lo, hi, overlap chunks reversed)` is
    `current_range` / `current_overlap` when the latter is non-empty. `none` = `unreachable!()` -/
def prepLoop : List Chunk → List Raw → Option (Nat × Nat × List Chunk) → Option (List Raw)
  | [], out, none => some out
  | [], out, some (lo, hi, cs) => some (Raw.overlap lo hi cs.reverse :: out)
  | c :: rest, out, none =>
    match out with
    | [] => none
    | last :: out' =>
      if c.lo ≤ last.rangeEnd then
        match last with
        | .single l => prepLoop rest out' (some (l.lo, max c.hi l.hi, [c, l]))
        | .overlap _ _ _ => none
      else prepLoop rest (Raw.single c :: out) none
  | c :: rest, out, some (lo, hi, cs) =>
    if c.lo ≤ hi then prepLoop rest out (some (lo, max c.hi hi, c :: cs))
    else prepLoop rest (Raw.single c :: Raw.overlap lo hi cs.reverse :: out) none

/-- index.rs `prep_index_chunks`: stable sort by `u64::MAX - start`, then pop from the back -/
def prepChunks (chunks : List Chunk) : Option (List Raw) :=
  match (sortKey (fun c => U64MAX - c.lo) chunks).reverse with
  | [] => some []
  | c :: rest => (prepLoop rest [Raw.single c] none).map List.reverse

/-- index.rs `merge_overlapping_chunks` (`sort_by_key` is stable) -/
def mergeChunks (cs : List Chunk) : Option Chunk :=
  mkChunk (sortKey Prod.fst (cs.flatMap (fun c => c.ids.toList.zip c.addrs.toList)))

def finalChunks : List Raw → Option (List Chunk)
  | [] => some []
  | .single c :: rest => (finalChunks rest).map (c :: ·)
  | .overlap _ _ cs :: rest =>
    match mergeChunks cs, finalChunks rest with
    | some c, some r => some (c :: r)
    | _, _ => none

/-- index.rs `RowIdIndex::new` over `(fragment_id, sequence, deletion vector)` triples: the chunks handed to
    `RangeInclusiveMap::from_iter`; `none` = panic -/
def indexNew (frags : List (Nat × Seq × List Nat)) : Option (List Chunk) :=
  match prepChunks (frags.flatMap (fun f => decompose f.2.2 f.2.1 0 (f.1 * 4294967296))) with
  | none => none
  | some raws => finalChunks raws

/-- index.rs `RowIdIndex::get`: the chunk whose key range contains the id (a later insert overrides an earlier one),
    `position` in its id segment, `get` in its address segment -/
def indexGet (chunks : List Chunk) (id : Nat) : Option Nat :=
  match chunks.reverse.find? (fun c => decide (c.lo ≤ id ∧ id ≤ c.hi)) with
  | none => none
  | some c =>
    match c.ids.position id with
    | none => none
    | some pos => c.addrs.get pos

end LanceModel.C34
