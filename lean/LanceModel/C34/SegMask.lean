import LanceModel.C34.SegOps
/-!
`U64Segment::mask`: removing positions, and the statistics it derives from the first / last unmasked position.
-/
namespace LanceModel.C34

/-- the plain-list meaning of "remove the elements at positions `ps`" (positions counted from `i`) -/
def removeIdx (i : Nat) (l : List Nat) (ps : List Nat) : List Nat :=
  ((l.zipIdx i).filter (fun q => !ps.contains q.2)).map Prod.fst

theorem dropPositions_eq : ∀ (l : List Nat) (i : Nat) (ps : List Nat), ps.Pairwise (· < ·) → (∀ p ∈ ps, i ≤ p) →
    dropPositions i l ps = removeIdx i l ps := by
  intro l
  induction l with
  | nil => intro i ps _ _; simp [dropPositions, removeIdx]
  | cons x xs ih =>
    intro i ps hp hb
    cases ps with
    | nil =>
      simp only [dropPositions, removeIdx, List.contains_nil, Bool.not_false]
      rw [List.filter_eq_self.2 (by simp), List.zipIdx_map_fst]
    | cons p ps' =>
      rw [List.pairwise_cons] at hp
      have hpi := hb p (by simp)
      simp only [dropPositions, removeIdx, List.zipIdx_cons, List.filter_cons]
      by_cases e : p = i
      · subst e
        have hps' : ∀ q ∈ ps', p + 1 ≤ q := fun q hq => by have := hp.1 q hq; omega
        simp only [if_true, List.contains_cons, beq_self_eq_true, Bool.true_or, Bool.not_true, Bool.false_eq_true, if_false]
        rw [ih (p + 1) ps' hp.2 hps']
        unfold removeIdx
        congr 1
        apply List.filter_congr
        intro q hq
        have := List.le_snd_of_mem_zipIdx hq
        have hne : (q.2 == p) = false := by simp; omega
        simp [hne]
      · have hall : ∀ q ∈ (p :: ps'), i + 1 ≤ q := by
          intro q hq
          rcases List.mem_cons.1 hq with rfl | hq'
          · omega
          · have := hp.1 q hq'; omega
        have hi : (p :: ps').contains i = false := by
          apply Bool.eq_false_iff.2
          intro hc
          have := hall i (by simpa using hc)
          omega
        simp only [e, if_false, hi, Bool.not_false, if_true, List.map_cons]
        rw [ih (i + 1) (p :: ps') (List.pairwise_cons.2 hp) hall]
        rfl

theorem removeIdx_sublist (i : Nat) (l ps : List Nat) : (removeIdx i l ps).Sublist l := by
  unfold removeIdx
  have h1 : ((l.zipIdx i).filter (fun q => !ps.contains q.2)).Sublist (l.zipIdx i) := List.filter_sublist
  have := h1.map Prod.fst
  rwa [List.zipIdx_map_fst] at this

theorem mem_removeIdx (l ps : List Nat) (x : Nat) (h : x ∈ removeIdx 0 l ps) :
    ∃ j, l[j]? = some x ∧ j ∉ ps := by
  unfold removeIdx at h
  rw [List.mem_map] at h
  obtain ⟨q, hq, rfl⟩ := h
  rw [List.mem_filter] at hq
  refine ⟨q.2, List.mem_zipIdx_iff_getElem?.1 hq.1, ?_⟩
  intro hm
  simp at hq
  exact hq.2 hm

theorem length_removeIdx : ∀ (l : List Nat) (i : Nat) (ps : List Nat), ps.Pairwise (· < ·) →
    (∀ p ∈ ps, i ≤ p ∧ p < i + l.length) → (removeIdx i l ps).length = l.length - ps.length := by
  intro l i ps hp hb
  rw [← dropPositions_eq l i ps hp (fun p hp' => (hb p hp').1)]
  induction l generalizing i ps with
  | nil =>
    cases ps with
    | nil => simp [dropPositions]
    | cons p t => have := hb p (by simp); simp at this; omega
  | cons x xs ih =>
    cases ps with
    | nil => simp [dropPositions]
    | cons p ps' =>
      rw [List.pairwise_cons] at hp
      have hpi := hb p (by simp)
      simp only [dropPositions]
      by_cases e : p = i
      · subst e
        simp only [if_true]
        rw [ih (p + 1) ps' hp.2]
        · simp
        · intro q hq
          have := hp.1 q hq
          have := hb q (by simp [hq])
          simp at this
          omega
      · simp only [e, if_false, List.length_cons]
        rw [ih (i + 1) (p :: ps') (List.pairwise_cons.2 hp)]
        · have hlen : (p :: ps').length ≤ xs.length := by
            -- strictly increasing positions inside [i+1, i+1+|xs|)
            have hsub := filter_range_mem xs.length (i + 1) (p :: ps') (List.pairwise_cons.2 hp) (by
              intro q hq
              have := hb q hq
              rcases List.mem_cons.1 hq with rfl | hq'
              · simp at this; omega
              · have := hp.1 q hq'; simp at *; omega)
            have := List.length_filter_le (fun v => (p :: ps').contains v) (List.range' (i + 1) xs.length)
            rw [hsub] at this
            simpa using this
          simp at hlen ⊢
          omega
        · intro q hq
          have := hb q hq
          rcases List.mem_cons.1 hq with rfl | hq'
          · simp at this; omega
          · have := hp.1 q hq'; simp at *; omega

/-! ### first / last unmasked position -/

theorem find_range' (p : Nat → Bool) : ∀ (n s f : Nat), (List.range' s n).find? p = some f →
    s ≤ f ∧ f < s + n ∧ p f = true ∧ ∀ j, s ≤ j → j < f → p j = false := by
  intro n
  induction n with
  | zero => intro s f h; simp at h
  | succ n ih =>
    intro s f h
    rw [List.range'_succ, List.find?_cons] at h
    by_cases hp : p s = true
    · simp only [hp] at h
      have : s = f := by simpa using h
      subst this
      exact ⟨Nat.le_refl _, by omega, hp, fun j h1 h2 => by omega⟩
    · have hp' : p s = false := by simpa using hp
      simp only [hp'] at h
      obtain ⟨h1, h2, h3, h4⟩ := ih (s + 1) f h
      refine ⟨by omega, by omega, h3, ?_⟩
      intro j hj1 hj2
      by_cases e : j = s
      · subst e; exact hp'
      · exact h4 j (by omega) hj2

theorem find_range'_none (p : Nat → Bool) (n s : Nat) (h : (List.range' s n).find? p = none) :
    ∀ j, s ≤ j → j < s + n → p j = false := by
  intro j h1 h2
  rw [List.find?_eq_none] at h
  have := h j (List.mem_range'_1.2 ⟨h1, h2⟩)
  simpa using this

/-- with fewer (sorted, in-range) positions than elements, the search for the first unmasked position succeeds, and
    everything before it is masked -/
theorem firstUnmasked_spec (len : Nat) (ps : List Nat) (hne : ps ≠ []) (hlt : ps.length < len) :
    ∃ f, firstUnmasked len ps = some f ∧ f < len ∧ ∀ j, j < f → j ∈ ps := by
  unfold firstUnmasked
  rw [List.range_eq_range']
  have hn : 0 < ps.length := List.length_pos_iff.2 hne
  cases hfind : (List.range' 0 len).find? (fun i => ps[i % ps.length]? != some i) with
  | none =>
    exfalso
    have h0 := find_range'_none _ _ _ hfind 0 (Nat.le_refl _) (by omega)
    have h1 := find_range'_none _ _ _ hfind ps.length (Nat.zero_le _) (by omega)
    simp only [Nat.zero_mod, Nat.mod_self, bne_eq_false_iff_eq] at h0 h1
    rw [h0] at h1
    have : 0 = ps.length := by simpa using h1
    omega
  | some f =>
    obtain ⟨_, h2, _, h4⟩ := find_range' _ _ _ _ hfind
    refine ⟨f, rfl, by omega, ?_⟩
    intro j hj
    have := h4 j (Nat.zero_le _) hj
    simp only [bne_eq_false_iff_eq] at this
    exact List.mem_of_getElem? this

theorem lastUnmasked_spec (len : Nat) (ps : List Nat) (hne : ps ≠ []) (hlt : ps.length < len) :
    ∃ l, lastUnmasked len ps = some l ∧ l < len ∧ ∀ j, l < j → j < len → j ∈ ps := by
  unfold lastUnmasked
  rw [List.range_eq_range']
  have hn : 0 < ps.length := List.length_pos_iff.2 hne
  cases hfind : (List.range' 0 len).find? (fun t => ps.reverse[t % ps.length]? != some (len - 1 - t)) with
  | none =>
    exfalso
    have h0 := find_range'_none _ _ _ hfind 0 (Nat.le_refl _) (by omega)
    have h1 := find_range'_none _ _ _ hfind ps.length (Nat.zero_le _) (by omega)
    simp only [Nat.zero_mod, Nat.mod_self, bne_eq_false_iff_eq] at h0 h1
    rw [h0] at h1
    have : len - 1 - 0 = len - 1 - ps.length := by simpa using h1
    omega
  | some t =>
    obtain ⟨_, h2, _, h4⟩ := find_range' _ _ _ _ hfind
    refine ⟨len - 1 - t, rfl, by omega, ?_⟩
    intro j hj1 hj2
    have := h4 (len - 1 - j) (Nat.zero_le _) (by omega)
    simp only [bne_eq_false_iff_eq] at this
    have hj : len - 1 - (len - 1 - j) = j := by omega
    rw [hj] at this
    have := List.mem_of_getElem? this
    simpa using this


theorem sorted_getElem?_mono (l : List Nat) (hp : l.Pairwise (· < ·)) (i j a b : Nat) (hij : i ≤ j)
    (hi : l[i]? = some a) (hj : l[j]? = some b) : a ≤ b := by
  obtain ⟨hi', rfl⟩ := List.getElem?_eq_some_iff.1 hi
  obtain ⟨hj', rfl⟩ := List.getElem?_eq_some_iff.1 hj
  by_cases e : i = j
  · subst e; exact Nat.le_refl _
  · exact Nat.le_of_lt (List.pairwise_iff_getElem.1 hp i j hi' hj' (by omega))

theorem sorted_positions_length (ps : List Nat) (n : Nat) (hp : ps.Pairwise (· < ·)) (hb : ∀ p ∈ ps, p < n) :
    ps.length ≤ n := by
  have hsub := filter_range_mem n 0 ps hp (by intro x hx; have := hb x hx; omega)
  have := List.length_filter_le (fun v => ps.contains v) (List.range' 0 n)
  rw [hsub] at this
  simpa using this

theorem removeIdx_nil_ps (l : List Nat) : removeIdx 0 l [] = l := by
  unfold removeIdx
  simp only [List.contains_nil, Bool.not_false]
  rw [List.filter_eq_self.2 (by simp), List.zipIdx_map_fst]

/-- `U64Segment::mask` with sorted in-range positions does not panic, removes exactly those positions, and the result
    is well formed (its statistics come from the first and last unmasked position) -/
theorem Seg.mask_spec (s : Seg) (ps : List Nat) (hwf : s.WF) (hp : ps.Pairwise (· < ·)) (hb : ∀ p ∈ ps, p < s.len) :
    ∃ s', s.mask ps = some s' ∧ s'.toList = removeIdx 0 s.toList ps ∧ s'.WF := by
  unfold Seg.mask
  have hlen := s.len_eq hwf
  by_cases h0 : ps = []
  · subst h0
    exact ⟨s, by simp, (removeIdx_nil_ps _).symm, hwf⟩
  · simp only [h0, if_false]
    have hrl := length_removeIdx s.toList 0 ps hp (by intro p hp'; have := hb p hp'; omega)
    by_cases h1 : ps.length = s.len
    · simp only [h1, if_true]
      refine ⟨_, rfl, ?_, by simp [Seg.WF]⟩
      have : (removeIdx 0 s.toList ps).length = 0 := by omega
      rw [List.eq_nil_of_length_eq_zero this]
      simp [Seg.toList, rangeList]
    · simp only [h1, if_false]
      have hle := sorted_positions_length ps s.len hp hb
      have hlt : ps.length < s.len := by omega
      simp only [show ¬ s.len < ps.length by omega, if_false]
      rw [dropPositions_eq s.toList 0 ps hp (fun p _ => Nat.zero_le p)]
      obtain ⟨f, hf, hflt, hfall⟩ := firstUnmasked_spec s.len ps h0 hlt
      obtain ⟨l, hl, hllt, hlall⟩ := lastUnmasked_spec s.len ps h0 hlt
      rw [hf, hl]
      simp only []
      rw [s.get_eq hwf, s.get_eq hwf]
      obtain ⟨mn, hfs⟩ : ∃ mn, s.toList[f]? = some mn := ⟨_, List.getElem?_eq_getElem (by omega)⟩
      obtain ⟨mx, hls⟩ : ∃ mx, s.toList[l]? = some mx := ⟨_, List.getElem?_eq_getElem (by omega)⟩
      rw [hfs, hls]
      simp only []
      have hgood : GoodStats { min := mn, max := mx, count := s.len - ps.length, sorted := s.sortedKind }
          (removeIdx 0 s.toList ps) := by
        intro hk
        have hk' : s.sortedKind = true := hk
        have hpw := s.toList_pairwise hwf hk'
        refine ⟨hpw.sublist (removeIdx_sublist _ _ _), by simp only []; omega, ?_⟩
        intro x hx
        obtain ⟨j, hj, hjn⟩ := mem_removeIdx _ _ _ hx
        have hjlen : j < s.toList.length := (List.getElem?_eq_some_iff.1 hj).1
        have hfj : f ≤ j := by
          by_cases c : f ≤ j
          · exact c
          · exact absurd (hfall j (by omega)) hjn
        have hjl : j ≤ l := by
          by_cases c : j ≤ l
          · exact c
          · exact absurd (hlall j (by omega) (by omega)) hjn
        exact ⟨sorted_getElem?_mono _ hpw f j _ _ hfj hfs hj, sorted_getElem?_mono _ hpw j l _ _ hjl hj hls⟩
      refine ⟨_, rfl, fromStats_faithful _ _ hgood, fromStats_WF _ _ hgood ?_⟩
      intro _ e
      rw [e] at hrl
      simp at hrl
      omega

/-- and `removeIdx` really is "the elements whose position is not in `ps`, in order" (no side conditions) -/
theorem removeIdx_getElem (l ps : List Nat) (x : Nat) :
    x ∈ removeIdx 0 l ps ↔ ∃ j, l[j]? = some x ∧ j ∉ ps := by
  constructor
  · exact mem_removeIdx l ps x
  · intro ⟨j, hj, hjn⟩
    unfold removeIdx
    rw [List.mem_map]
    refine ⟨(x, j), List.mem_filter.2 ⟨List.mem_zipIdx_iff_getElem?.2 hj, ?_⟩, rfl⟩
    simpa using hjn

end LanceModel.C34
