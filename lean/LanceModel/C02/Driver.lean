import LanceModel.Util
import LanceModel.C02.Model
/-
C02 driver: replays a schedule on the LTS of Model.lean and prints, after every line, the released call and
the whole state in the harness's canonical form:
  `<what> | fin=<v:c,…> | tmp=<i,…> | lock=<-|i> | t0=<next call or =result> t1=…`
Lines:  `cfg <condput|rename|lock|lockc|naive> <w<v>|r<v>|l>…`   (lockc: a CommitLock that refuses committed versions)
           tasks 0.. : writer of version v / reader of version v / latest reader
        `s <task> <ok|fb|lr|dup>`   release the parked call of <task> with that fault
        `c <task>`                  crash <task>
        `end`                       crash everything still running
        `pv <v>` / `pl`             a fresh reader run alone, fault free
-/
namespace LanceModel.C02.Driver
open LanceModel.Util LanceModel.C02

def maxV : Nat := 9

structure DS where
  cfgd : Bool
  h : Handler
  lc : Bool                -- the CommitLock refuses `lock(v)` for committed versions
  tg : List Nat            -- target version per task
  s : State
  n : Nat
  crashed : List Nat

def initDS : DS :=
  { cfgd := false, h := .condPut, lc := false, tg := [], s := init .condPut (fun _ => .reader), n := 0, crashed := [] }

def cfgOf (d : DS) : Cfg := { tgt := fun i => d.tg.getD i 0, top := maxV, lockChecks := d.lc }

def showRes : Res → String
  | .ok => "=ok"
  | .conflict => "=conflict"
  | .err => "=err"
  | .found v c => "=found:" ++ toString v ++ ":" ++ toString c
  | .fallback => "=fallback"
  | .notFound => "=notfound"

/-- descriptor of the call task `i` (target version `v`) is parked at -/
def showPc (i v : Nat) : Pc → String
  | .cpPut => "os.put_create F" ++ toString v
  | .rnPut => "os.put T" ++ toString i
  | .rnRename => "os.rename_if_not_exists T" ++ toString i ++ " F" ++ toString v
  | .rnDelete => "os.delete T" ++ toString i
  | .lkLock => "lk.lock " ++ toString v
  | .lkHead => "os.head F" ++ toString v
  | .lkPut => "os.put F" ++ toString v
  | .lkRel _ b => "lk.release " ++ (if b then "true" else "false")
  | .nvPut => "os.put F" ++ toString v
  | .rvHead => "os.head F" ++ toString v
  | .rlList _ => "os.list"
  | .done r => showRes r

def underscore (s : String) : String := s.map (fun c => if c = ' ' then '_' else c)

def dump (d : DS) : String :=
  let ids := List.range d.n
  let fin := (List.range (maxV + 1)).filterMap (fun v =>
    match d.s.final v with
    | some c => some (toString v ++ ":" ++ toString c)
    | none => none)
  let tmps := (ids.filter (fun i => d.s.tmp i)).map toString
  let lock := match d.s.lock with
    | some i => toString i
    | none => "-"
  let ts := ids.map (fun t =>
    "t" ++ toString t ++ "=" ++
      (if d.crashed.contains t then "crashed" else underscore (showPc t (d.tg.getD t 0) (d.s.pcs t))))
  "fin=" ++ (if fin.isEmpty then "-" else ",".intercalate fin) ++
    " | tmp=" ++ (if tmps.isEmpty then "-" else ",".intercalate tmps) ++
    " | lock=" ++ lock ++ " | " ++ (if ts.isEmpty then "-" else " ".intercalate ts)

def parseFault : String → Option (Fault × String)
  | "ok" => some (.none, "ok")
  | "fb" => some (.failBefore, "fb")
  | "lr" => some (.lost, "lr")
  | "dup" => some (.dup, "dup")
  | _ => none

def parseHandler : String → Option (Handler × Bool)
  | "condput" => some (.condPut, false)
  | "rename" => some (.rename, false)
  | "lock" => some (.lock, false)
  | "lockc" => some (.lock, true)
  | "naive" => some (.naive, false)
  | _ => none

/-- `w3` ↦ (writer, 3); `r3` ↦ (reader, 3); `l` ↦ (latest, 0) -/
def parseSpec (t : String) : Option (Role × Nat) :=
  if t = "l" then some (.latest, 0) else
  match t.toList with
  | 'w' :: rest => match (String.ofList rest).toNat? with
    | some v => if 1 ≤ v ∧ v ≤ maxV then some (.writer, v) else none
    | none => none
  | 'r' :: rest => match (String.ofList rest).toNat? with
    | some v => if 1 ≤ v ∧ v ≤ maxV then some (.reader, v) else none
    | none => none
  | _ => none

def isDone : Pc → Bool
  | .done _ => true
  | _ => false

def live (d : DS) (t : Nat) : Bool :=
  t < d.n && !d.crashed.contains t && !isDone (d.s.pcs t)

/-- a fresh reader task run alone without faults -/
def probe (d : DS) (pc : Pc) (v : Nat) : DS × String :=
  let t := d.n
  let d1 := { d with tg := d.tg ++ [v], n := d.n + 1 }
  let s0 := { d1.s with pcs := upd d1.s.pcs t pc }
  let s1 := run (cfgOf d1) s0 (List.replicate 8 (t, Fault.none))
  let d2 := { d1 with s := s1 }
  (d2, "probe " ++ underscore (showPc t v (s1.pcs t)) ++ " | " ++ dump d2)

def step (d : DS) (line : String) : DS × String :=
  match splitTokens line with
  | "cfg" :: hn :: specs =>
    if d.cfgd then (d, "bad") else
    match parseHandler hn, specs.mapM parseSpec with
    | some (h, lc), some sp =>
      if sp.length = 0 ∨ sp.length > 6 then (d, "bad") else
      let roles : Nat → Role := fun i => (sp.map (·.1)).getD i .reader
      let d' : DS := { cfgd := true, h := h, lc := lc, tg := sp.map (·.2), s := init h roles, n := sp.length, crashed := [] }
      (d', "init | " ++ dump d')
    | _, _ => (d, "bad")
  | ["s", t, f] =>
    if !d.cfgd then (d, "bad") else
    match t.toNat?, parseFault f with
    | some t, some (f, tok) =>
      if live d t then
        let desc := showPc t (d.tg.getD t 0) (d.s.pcs t)
        let d' := { d with s := LanceModel.C02.step (cfgOf d) d.s t f }
        (d', toString t ++ " " ++ tok ++ " " ++ desc ++ " | " ++ dump d')
      else (d, "noop | " ++ dump d)
    | _, _ => (d, "bad")
  | ["c", t] =>
    if !d.cfgd then (d, "bad") else
    match t.toNat? with
    | some t =>
      if live d t then
        let d' := { d with crashed := t :: d.crashed }
        (d', "crash " ++ toString t ++ " | " ++ dump d')
      else (d, "noop | " ++ dump d)
    | none => (d, "bad")
  | ["end"] =>
    if !d.cfgd then (d, "bad") else
    let d' := { d with crashed := (List.range d.n).filter (fun t => d.crashed.contains t || live d t) }
    (d', "end | " ++ dump d')
  | ["pv", v] =>
    if !d.cfgd || !(d.n < 16) then (d, "bad") else
    match v.toNat? with
    | some v => if 1 ≤ v ∧ v ≤ maxV then probe d .rvHead v else (d, "bad")
    | none => (d, "bad")
  | ["pl"] =>
    if !d.cfgd || !(d.n < 16) then (d, "bad") else probe d (.rlList 0) 0
  | _ => (d, "bad")

end LanceModel.C02.Driver
