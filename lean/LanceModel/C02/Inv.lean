import LanceModel.C02.Model
/-!
C02 — the invariant of the commit-handler LTS (all writers use one handler `h`).

`Good … i pc` is what must hold of the store for a task `i` standing at `pc`; the invariant is
"every task is `Good`" plus "every published manifest was written by a task that targets that version
and is past its publishing call".  Preservation is proved through frame lemmas: how `Good` of the OTHER
tasks survives each kind of store change (publish into an empty slot, staging object of `i`, lock
granted / returned).
-/
namespace LanceModel.C02

/-- the task is past the call that may publish its manifest -/
def isPost : Pc → Bool
  | .done _ => true
  | .lkRel _ _ => true
  | _ => false

/-- the version slot of task `i` is taken — by somebody else's manifest if no call of `i` was faulted -/
def Taken (cfg : Cfg) (final : Nat → Option Nat) (fl : Bool) (i : Nat) : Prop :=
  final (cfg.tgt i) ≠ none ∧ (fl = false → final (cfg.tgt i) ≠ some i)

/-- what holds for task `i` at `pc` (`fl` = its ghost fault flag, `wr i` = it is a writer) -/
def Good (h : Handler) (cfg : Cfg) (wr : Nat → Bool) (final : Nat → Option Nat) (tmp : Nat → Bool)
    (lock : Option Nat) (fl : Bool) (i : Nat) : Pc → Prop
  | .cpPut => h = .condPut ∧ wr i = true
  | .rnPut => h = .rename ∧ wr i = true
  | .rnRename => h = .rename ∧ wr i = true ∧ tmp i = true
  | .rnDelete => h = .rename ∧ wr i = true ∧ Taken cfg final fl i
  | .lkLock => h = .lock ∧ wr i = true
  | .lkHead => h = .lock ∧ wr i = true ∧ lock = some i
  | .lkPut => h = .lock ∧ wr i = true ∧ lock = some i ∧ final (cfg.tgt i) = none
  | .lkRel .ok _ => h = .lock ∧ wr i = true ∧ lock = some i ∧ final (cfg.tgt i) = some i
  | .lkRel .conflict _ => h = .lock ∧ wr i = true ∧ lock = some i ∧ Taken cfg final fl i
  | .lkRel .err _ => h = .lock ∧ wr i = true ∧ lock = some i ∧ fl = true
  | .lkRel _ _ => False
  | .nvPut => h = .naive ∧ wr i = true
  | .rvHead => wr i = false
  | .rlList _ => wr i = false
  | .done .ok => wr i = true ∧ final (cfg.tgt i) = some i
  | .done .conflict => wr i = true ∧ Taken cfg final fl i
  | .done .err => fl = true
  | .done (.found v c) => wr i = false ∧ final v = some c
  | .done .fallback => wr i = false
  | .done .notFound => wr i = false

structure Inv (h : Handler) (cfg : Cfg) (wr : Nat → Bool) (s : State) : Prop where
  good : ∀ i, Good h cfg wr s.final s.tmp s.lock (s.faulted i) i (s.pcs i)
  pubBy : ∀ v c, s.final v = some c → cfg.tgt c = v ∧ isPost (s.pcs c) = true ∧ wr c = true

variable {h : Handler} {cfg : Cfg} {wr : Nat → Bool}

/-! ### frame lemmas -/


/-- the fault flag only ever gets set -/
theorem good_flag {final : Nat → Option Nat} {tmp : Nat → Bool} {lock : Option Nat} {fl : Bool} {j : Nat} {pc : Pc}
    (hg : Good h cfg wr final tmp lock fl j pc) : Good h cfg wr final tmp lock true j pc := by
  rcases pc with _ | _ | _ | _ | _ | _ | _ | ⟨r, b⟩ | _ | _ | k | r <;> (try cases r) <;> simp only [Good, Taken] at * <;> grind

/-- publishing into an EMPTY slot `v` keeps every other task good, except one that is about to do the
    lock handler's plain put into the same slot -/
theorem good_publish {final : Nat → Option Nat} {tmp : Nat → Bool} {lock : Option Nat} {fl : Bool} {j : Nat} {pc : Pc}
    (v c : Nat) (hn : final v = none) (hg : Good h cfg wr final tmp lock fl j pc) (hp : pc ≠ .lkPut) :
    Good h cfg wr (upd final v (some c)) tmp lock fl j pc := by
  rcases pc with _ | _ | _ | _ | _ | _ | _ | ⟨r, b⟩ | _ | _ | k | r <;> (try cases r) <;> simp only [Good, Taken, upd_apply] at * <;> grind

/-- the staging object of `i` only matters to `i` -/
theorem good_tmp {final : Nat → Option Nat} {tmp : Nat → Bool} {lock : Option Nat} {fl : Bool} {i j : Nat} {pc : Pc}
    (b : Bool) (hj : j ≠ i) (hg : Good h cfg wr final tmp lock fl j pc) :
    Good h cfg wr final (upd tmp i b) lock fl j pc := by
  rcases pc with _ | _ | _ | _ | _ | _ | _ | ⟨r, b⟩ | _ | _ | k | r <;> (try cases r) <;> simp only [Good, Taken, upd_apply] at * <;> grind

/-- granting the free lock -/
theorem good_acquire {final : Nat → Option Nat} {tmp : Nat → Bool} {fl : Bool} {j : Nat} {pc : Pc}
    (l : Option Nat) (hg : Good h cfg wr final tmp none fl j pc) : Good h cfg wr final tmp l fl j pc := by
  rcases pc with _ | _ | _ | _ | _ | _ | _ | ⟨r, b⟩ | _ | _ | k | r <;> (try cases r) <;> simp only [Good, Taken] at * <;> grind

/-- returning the lock held by `i` -/
theorem good_release {final : Nat → Option Nat} {tmp : Nat → Bool} {fl : Bool} {i j : Nat} {pc : Pc}
    (l : Option Nat) (hj : j ≠ i) (hg : Good h cfg wr final tmp (some i) fl j pc) :
    Good h cfg wr final tmp l fl j pc := by
  rcases pc with _ | _ | _ | _ | _ | _ | _ | ⟨r, b⟩ | _ | _ | k | r <;> (try cases r) <;> simp only [Good, Taken] at * <;> grind

/-- a task that holds the lease excludes everybody else from `lkPut` -/
theorem no_other_put {final : Nat → Option Nat} {tmp : Nat → Bool} {fl : Bool} {i j : Nat}
    (hj : j ≠ i) (hg : Good h cfg wr final tmp (some i) fl j .lkPut) : False := by
  simp only [Good] at hg; grind

/-! ### assembling the invariant of the successor state -/

/-- General form: task `i` moves to `pc'` under fault `f`, the store becomes `(final', tmp', lock')`. -/
theorem inv_of {s s' : State} {i : Nat} {f : Fault} {pc' : Pc} (hi : Inv h cfg wr s)
    (hpcs : s'.pcs = s.pcs) (hfl : s'.faulted = s.faulted)
    (hother : ∀ j, j ≠ i → Good h cfg wr s'.final s'.tmp s'.lock (s.faulted j) j (s.pcs j))
    (hself : Good h cfg wr s'.final s'.tmp s'.lock (s.faulted i || f.bad) i pc')
    (hpub : ∀ v c, s'.final v = some c → (s.final v = some c ∧ (c = i → isPost pc' = true)) ∨
      (c = i ∧ cfg.tgt i = v ∧ isPost pc' = true ∧ wr i = true)) :
    Inv h cfg wr (go s' i f pc') := by
  constructor
  · intro j
    simp only [go, hpcs, hfl, upd_apply]
    by_cases hj : j = i
    · subst hj; simpa using hself
    · simpa [hj] using hother j hj
  · intro v c hc
    simp only [go, hpcs, upd_apply] at hc ⊢
    rcases hpub v c hc with ⟨h0, h1⟩ | ⟨rfl, h1, h2, h3⟩
    · have := hi.pubBy v c h0
      by_cases hci : c = i
      · simp [hci, h1 hci]; rw [← hci]; exact ⟨this.1, this.2.2⟩
      · simp [hci, this]
    · simp [h1, h2, h3]

variable {s : State} {i : Nat}

/-- the store does not change -/
theorem inv_stay (hi : Inv h cfg wr s) (f : Fault) (pc' : Pc)
    (hself : Good h cfg wr s.final s.tmp s.lock (s.faulted i || f.bad) i pc')
    (hpost : isPost (s.pcs i) = true → isPost pc' = true) : Inv h cfg wr (go s i f pc') := by
  refine inv_of hi rfl rfl (fun j _ => hi.good j) hself ?_
  intro v c hc
  exact Or.inl ⟨hc, fun hci => hpost (by rw [← hci]; exact (hi.pubBy v c hc).2.1)⟩

/-- `i` publishes its manifest into its empty slot (nobody else is at the lock handler's put) -/
theorem inv_publish (hi : Inv h cfg wr s) (f : Fault) (pc' : Pc) (hn : s.final (cfg.tgt i) = none)
    (hput : ∀ j, j ≠ i → s.pcs j ≠ .lkPut)
    (hself : Good h cfg wr (upd s.final (cfg.tgt i) (some i)) s.tmp s.lock (s.faulted i || f.bad) i pc')
    (hpost : isPost pc' = true) (hw : wr i = true) : Inv h cfg wr (go (setFinal s (cfg.tgt i) i) i f pc') := by
  refine inv_of hi rfl rfl (fun j hj => good_publish _ _ hn (hi.good j) (hput j hj)) hself ?_
  intro v c hc
  simp only [setFinal, upd_apply] at hc
  split at hc
  · rename_i hv; simp only [Option.some.injEq] at hc; exact Or.inr ⟨hc.symm, hv.symm, hpost, hw⟩
  · exact Or.inl ⟨hc, fun _ => hpost⟩

/-- … and its staging object disappears in the same call (rename) -/
theorem inv_publish_mv (hi : Inv h cfg wr s) (f : Fault) (pc' : Pc) (hn : s.final (cfg.tgt i) = none)
    (hput : ∀ j, j ≠ i → s.pcs j ≠ .lkPut)
    (hself : Good h cfg wr (upd s.final (cfg.tgt i) (some i)) (upd s.tmp i false) s.lock (s.faulted i || f.bad) i pc')
    (hpost : isPost pc' = true) (hw : wr i = true) :
    Inv h cfg wr (go (setTmp (setFinal s (cfg.tgt i) i) i false) i f pc') := by
  refine inv_of hi rfl rfl
    (fun j hj => good_tmp _ hj (good_publish _ _ hn (hi.good j) (hput j hj))) hself ?_
  intro v c hc
  simp only [setTmp, setFinal, upd_apply] at hc
  split at hc
  · rename_i hv; simp only [Option.some.injEq] at hc; exact Or.inr ⟨hc.symm, hv.symm, hpost, hw⟩
  · exact Or.inl ⟨hc, fun _ => hpost⟩

/-- the staging object of `i` appears / disappears -/
theorem inv_tmp (hi : Inv h cfg wr s) (f : Fault) (pc' : Pc) (b : Bool)
    (hself : Good h cfg wr s.final (upd s.tmp i b) s.lock (s.faulted i || f.bad) i pc')
    (hpost : isPost (s.pcs i) = true → isPost pc' = true) : Inv h cfg wr (go (setTmp s i b) i f pc') := by
  refine inv_of hi rfl rfl (fun j hj => good_tmp _ hj (hi.good j)) hself ?_
  intro v c hc
  exact Or.inl ⟨hc, fun hci => hpost (by rw [← hci]; exact (hi.pubBy v c hc).2.1)⟩

/-- the free lock is granted -/
theorem inv_acquire (hi : Inv h cfg wr s) (f : Fault) (pc' : Pc) (l : Option Nat) (hfree : s.lock = none)
    (hself : Good h cfg wr s.final s.tmp l (s.faulted i || f.bad) i pc')
    (hpost : isPost (s.pcs i) = true → isPost pc' = true) : Inv h cfg wr (go (setLock s l) i f pc') := by
  refine inv_of hi rfl rfl (fun j _ => good_acquire l (by have := hi.good j; rwa [hfree] at this)) hself ?_
  intro v c hc
  exact Or.inl ⟨hc, fun hci => hpost (by rw [← hci]; exact (hi.pubBy v c hc).2.1)⟩

/-- the lock held by `i` is returned -/
theorem inv_release (hi : Inv h cfg wr s) (f : Fault) (pc' : Pc) (l : Option Nat) (hheld : s.lock = some i)
    (hself : Good h cfg wr s.final s.tmp l (s.faulted i || f.bad) i pc')
    (hpost : isPost (s.pcs i) = true → isPost pc' = true) : Inv h cfg wr (go (setLock s l) i f pc') := by
  refine inv_of hi rfl rfl (fun j hj => good_release l hj (by have := hi.good j; rwa [hheld] at this)) hself ?_
  intro v c hc
  exact Or.inl ⟨hc, fun hci => hpost (by rw [← hci]; exact (hi.pubBy v c hc).2.1)⟩

end LanceModel.C02
