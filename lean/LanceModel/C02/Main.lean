import LanceModel.C02.Driver
def main : IO Unit := LanceModel.Util.runDriver LanceModel.C02.Driver.step LanceModel.C02.Driver.initDS
