import LanceModel.C02.Inv
/-!
C02 — the invariant holds initially and is preserved by every step of every task under every fault,
for every handler with atomic creation (one lemma per program counter).
-/
namespace LanceModel.C02

variable {h : Handler} {cfg : Cfg} {wr : Nat → Bool} {s : State} {i : Nat}

theorem taken_of_some {c : Nat} (hi : Inv h cfg wr s) (hnp : isPost (s.pcs i) = false)
    (hc : s.final (cfg.tgt i) = some c) (fl : Bool) : Taken cfg s.final fl i := by
  refine ⟨by simp [hc], fun _ heq => ?_⟩
  rw [hc] at heq
  simp only [Option.some.injEq] at heq
  subst heq
  have := (hi.pubBy _ _ hc).2.1
  simp [hnp] at this

theorem taken_mono {final : Nat → Option Nat} {fl : Bool} (b : Bool) (ht : Taken cfg final fl i) :
    Taken cfg final (fl || b) i := by
  refine ⟨ht.1, fun hf => ht.2 ?_⟩
  cases fl <;> simp_all

theorem renameEff_none (htmp : s.tmp i = true) {v : Nat} (hn : s.final v = none) :
    renameEff s v i = setTmp (setFinal s v i) i false := by
  simp only [renameEff, htmp, hn, ↓reduceIte]

theorem renameEff_some (htmp : s.tmp i = true) {v c : Nat} (hn : s.final v = some c) :
    renameEff s v i = s := by
  simp only [renameEff, htmp, hn, ↓reduceIte]

theorem latestFrom_sound (final : Nat → Option Nat) (n v c : Nat) (hl : latestFrom final n = some (v, c)) :
    final v = some c := by
  induction n with
  | zero =>
    simp only [latestFrom] at hl
    split at hl
    · simp only [Option.some.injEq, Prod.mk.injEq] at hl; obtain ⟨rfl, rfl⟩ := hl; assumption
    · simp at hl
  | succ n ih =>
    simp only [latestFrom] at hl
    split at hl
    · simp only [Option.some.injEq, Prod.mk.injEq] at hl; obtain ⟨rfl, rfl⟩ := hl; assumption
    · exact ih hl

/-- with a handler other than the lock handler nobody stands at the lock handler's put -/
theorem no_put_of_handler (hi : Inv h cfg wr s) (hh : h ≠ .lock) (j : Nat) : s.pcs j ≠ .lkPut := by
  intro hj
  have := hi.good j
  rw [hj] at this
  simp only [Good] at this
  exact hh this.1

macro "self_good" : tactic =>
  `(tactic| (simp only [Good, Taken, Fault.bad, upd_apply, Bool.or_true, Bool.or_false, ↓reduceIte] <;> simp_all))

/-! ### ConditionalPutCommitHandler -/

theorem inv_cpPut (hi : Inv h cfg wr s) (hpc : s.pcs i = .cpPut) (f : Fault) : Inv h cfg wr (step cfg s i f) := by
  have hg := hi.good i
  rw [hpc] at hg; simp only [Good] at hg
  have hput : ∀ j, j ≠ i → s.pcs j ≠ .lkPut := fun j _ => no_put_of_handler hi (by simp [hg.1]) j
  have hnp : isPost (s.pcs i) = false := by simp [hpc, isPost]
  have hwr := hg.2
  unfold step
  simp only [hpc]
  cases f <;> simp only [createFinal]
  · split
    · rename_i hn; exact inv_publish hi _ _ hn hput (by self_good) rfl hwr
    · rename_i c hc
      refine inv_stay hi _ _ ?_ (by simp [hnp])
      exact ⟨hg.2, taken_of_some hi hnp hc _⟩
  · exact inv_stay hi _ _ (by self_good) (by simp [hnp])
  · split
    · rename_i hn; exact inv_publish hi _ _ hn hput (by self_good) rfl hwr
    · exact inv_stay hi _ _ (by self_good) (by simp [hnp])
  · split
    · rename_i hn; exact inv_publish hi _ _ hn hput (by self_good) rfl hwr
    · rename_i c hc
      exact inv_stay hi _ _ ⟨hg.2, taken_of_some hi hnp hc _⟩ (by simp [hnp])

/-! ### RenameCommitHandler -/

theorem inv_rnPut (hi : Inv h cfg wr s) (hpc : s.pcs i = .rnPut) (f : Fault) : Inv h cfg wr (step cfg s i f) := by
  have hg := hi.good i
  rw [hpc] at hg; simp only [Good] at hg
  have hnp : isPost (s.pcs i) = false := by simp [hpc, isPost]
  unfold step
  simp only [hpc]
  cases f <;> simp only []
  · exact inv_tmp hi _ _ _ (by self_good) (by simp [hnp])
  · exact inv_stay hi _ _ (by self_good) (by simp [hnp])
  · exact inv_tmp hi _ _ _ (by self_good) (by simp [hnp])
  · exact inv_tmp hi _ _ _ (by self_good) (by simp [hnp])

theorem inv_rnRename (hi : Inv h cfg wr s) (hpc : s.pcs i = .rnRename) (f : Fault) :
    Inv h cfg wr (step cfg s i f) := by
  have hg := hi.good i
  rw [hpc] at hg; simp only [Good] at hg
  obtain ⟨hh, hw, htmp⟩ := hg
  have hwr := hw
  have hput : ∀ j, j ≠ i → s.pcs j ≠ .lkPut := fun j _ => no_put_of_handler hi (by simp [hh]) j
  have hnp : isPost (s.pcs i) = false := by simp [hpc, isPost]
  unfold step
  simp only [hpc, htmp, ↓reduceIte]
  cases f <;> simp only []
  · split
    · rename_i hn; rw [renameEff_none htmp hn]
      exact inv_publish_mv hi _ _ hn hput (by self_good) rfl hwr
    · rename_i c hc
      exact inv_stay hi _ _ ⟨hh, hw, taken_of_some hi hnp hc _⟩ (by simp [hnp])
  · exact inv_stay hi _ _ (by self_good) (by simp [hnp])
  · cases hf : s.final (cfg.tgt i) with
    | none => rw [renameEff_none htmp hf]; exact inv_publish_mv hi _ _ hf hput (by self_good) rfl hwr
    | some c => rw [renameEff_some htmp hf]; exact inv_stay hi _ _ (by self_good) (by simp [hnp])
  · split
    · rename_i hn; rw [renameEff_none htmp hn]
      exact inv_publish_mv hi _ _ hn hput (by self_good) rfl hwr
    · rename_i c hc
      exact inv_stay hi _ _ ⟨hh, hw, taken_of_some hi hnp hc _⟩ (by simp [hnp])

theorem inv_rnDelete (hi : Inv h cfg wr s) (hpc : s.pcs i = .rnDelete) (f : Fault) :
    Inv h cfg wr (step cfg s i f) := by
  have hg := hi.good i
  rw [hpc] at hg; simp only [Good] at hg
  obtain ⟨hh, hw, ht⟩ := hg
  have hnp : isPost (s.pcs i) = false := by simp [hpc, isPost]
  unfold step
  simp only [hpc]
  cases f <;> simp only []
  · exact inv_tmp hi _ _ _ ⟨hw, taken_mono _ ht⟩ (by simp [hnp])
  · exact inv_stay hi _ _ ⟨hw, taken_mono _ ht⟩ (by simp [hnp])
  · exact inv_tmp hi _ _ _ ⟨hw, taken_mono _ ht⟩ (by simp [hnp])
  · exact inv_tmp hi _ _ _ ⟨hw, taken_mono _ ht⟩ (by simp [hnp])

/-! ### CommitLock handler -/

theorem inv_lkLock (hi : Inv h cfg wr s) (hpc : s.pcs i = .lkLock) (f : Fault) : Inv h cfg wr (step cfg s i f) := by
  have hg := hi.good i
  rw [hpc] at hg; simp only [Good] at hg
  have hnp : isPost (s.pcs i) = false := by simp [hpc, isPost]
  unfold step
  simp only [hpc]
  have hconf : refuses cfg s i = true → Inv h cfg wr (go s i f (.done .conflict)) := by
    intro hr
    simp only [refuses, Bool.and_eq_true, Option.isSome_iff_exists] at hr
    obtain ⟨-, c, hc⟩ := hr
    exact inv_stay hi _ _ ⟨hg.2, taken_of_some hi hnp hc _⟩ (by simp [hnp])
  cases f <;> simp only [acquire]
  · split
    · rename_i hl
      split
      · rename_i hr; exact hconf hr
      · exact inv_acquire hi _ _ _ hl (by self_good) (by simp [hnp])
    · exact inv_stay hi _ _ (by self_good) (by simp [hnp])
  · exact inv_stay hi _ _ (by self_good) (by simp [hnp])
  · split
    · rename_i hl
      split
      · exact inv_stay hi _ _ (by self_good) (by simp [hnp])
      · exact inv_acquire hi _ _ _ hl (by self_good) (by simp [hnp])
    · exact inv_stay hi _ _ (by self_good) (by simp [hnp])
  · split
    · rename_i hl
      split
      · rename_i hr; exact hconf hr
      · exact inv_acquire hi _ _ _ hl (by self_good) (by simp [hnp])
    · exact inv_stay hi _ _ (by self_good) (by simp [hnp])

theorem inv_lkHead (hi : Inv h cfg wr s) (hpc : s.pcs i = .lkHead) (f : Fault) : Inv h cfg wr (step cfg s i f) := by
  have hg := hi.good i
  rw [hpc] at hg; simp only [Good] at hg
  obtain ⟨hh, hw, hl⟩ := hg
  have hnp : isPost (s.pcs i) = false := by simp [hpc, isPost]
  unfold step
  simp only [hpc]
  cases f <;> simp only []
  · split
    · rename_i c hc
      exact inv_stay hi _ _ ⟨hh, hw, hl, taken_of_some hi hnp hc _⟩ (by simp [hnp])
    · rename_i hn; exact inv_stay hi _ _ ⟨hh, hw, hl, hn⟩ (by simp [hnp])
  · exact inv_stay hi _ _ (by self_good) (by simp [hnp])
  · exact inv_stay hi _ _ (by self_good) (by simp [hnp])
  · split
    · rename_i c hc
      exact inv_stay hi _ _ ⟨hh, hw, hl, taken_of_some hi hnp hc _⟩ (by simp [hnp])
    · rename_i hn; exact inv_stay hi _ _ ⟨hh, hw, hl, hn⟩ (by simp [hnp])

theorem inv_lkPut (hi : Inv h cfg wr s) (hpc : s.pcs i = .lkPut) (f : Fault) : Inv h cfg wr (step cfg s i f) := by
  have hg := hi.good i
  rw [hpc] at hg; simp only [Good] at hg
  obtain ⟨hh, hw, hl, hn⟩ := hg
  have hwr := hw
  have hput : ∀ j, j ≠ i → s.pcs j ≠ .lkPut := by
    intro j hj hpj
    have := hi.good j
    rw [hpj, hl] at this
    exact no_other_put hj this
  have hnp : isPost (s.pcs i) = false := by simp [hpc, isPost]
  unfold step
  simp only [hpc]
  cases f <;> simp only []
  · exact inv_publish hi _ _ hn hput (by self_good) rfl hwr
  · exact inv_stay hi _ _ (by self_good) (by simp [hnp])
  · exact inv_publish hi _ _ hn hput (by self_good) rfl hwr
  · exact inv_publish hi _ _ hn hput (by self_good) rfl hwr

theorem inv_lkRel (hi : Inv h cfg wr s) (r : Res) (b : Bool) (hpc : s.pcs i = .lkRel r b) (f : Fault) :
    Inv h cfg wr (step cfg s i f) := by
  have hg := hi.good i
  rw [hpc] at hg
  have hl : s.lock = some i := by cases r <;> simp only [Good] at hg <;> simp_all
  unfold step
  simp only [hpc, release, hl, ↓reduceIte]
  cases r <;> simp only [Good] at hg
  · obtain ⟨hh, hw, -, hf⟩ := hg
    cases f <;> simp only []
    · exact inv_release hi _ _ _ hl ⟨hw, hf⟩ (by simp [isPost])
    · exact inv_stay hi _ _ (by self_good) (by simp [isPost])
    · exact inv_release hi _ _ _ hl (by self_good) (by simp [isPost])
    · exact inv_release hi _ _ _ hl ⟨hw, hf⟩ (by simp [isPost])
  · obtain ⟨hh, hw, -, ht⟩ := hg
    cases f <;> simp only []
    · exact inv_release hi _ _ _ hl ⟨hw, taken_mono _ ht⟩ (by simp [isPost])
    · exact inv_stay hi _ _ (by self_good) (by simp [isPost])
    · exact inv_release hi _ _ _ hl (by self_good) (by simp [isPost])
    · exact inv_release hi _ _ _ hl ⟨hw, taken_mono _ ht⟩ (by simp [isPost])
  · obtain ⟨hh, hw, -, hf⟩ := hg
    cases f <;> simp only []
    · exact inv_release hi _ _ _ hl (by self_good) (by simp [isPost])
    · exact inv_stay hi _ _ (by self_good) (by simp [isPost])
    · exact inv_release hi _ _ _ hl (by self_good) (by simp [isPost])
    · exact inv_release hi _ _ _ hl (by self_good) (by simp [isPost])

/-! ### readers -/

theorem inv_rvHead (hi : Inv h cfg wr s) (hpc : s.pcs i = .rvHead) (f : Fault) : Inv h cfg wr (step cfg s i f) := by
  have hg := hi.good i
  rw [hpc] at hg; simp only [Good] at hg
  have hnp : isPost (s.pcs i) = false := by simp [hpc, isPost]
  unfold step
  simp only [hpc]
  cases f <;> simp only []
  · split
    · rename_i c hc; exact inv_stay hi _ _ ⟨hg, hc⟩ (by simp [hnp])
    · exact inv_stay hi _ _ (by self_good) (by simp [hnp])
  · exact inv_stay hi _ _ (by self_good) (by simp [hnp])
  · exact inv_stay hi _ _ (by self_good) (by simp [hnp])
  · split
    · rename_i c hc; exact inv_stay hi _ _ ⟨hg, hc⟩ (by simp [hnp])
    · exact inv_stay hi _ _ (by self_good) (by simp [hnp])

theorem inv_rlList (hi : Inv h cfg wr s) (k : Nat) (hpc : s.pcs i = .rlList k) (f : Fault) :
    Inv h cfg wr (step cfg s i f) := by
  have hg := hi.good i
  rw [hpc] at hg; simp only [Good] at hg
  have hnp : isPost (s.pcs i) = false := by simp [hpc, isPost]
  unfold step
  simp only [hpc]
  cases f <;> simp only []
  · split
    · rename_i v c hl; exact inv_stay hi _ _ ⟨hg, latestFrom_sound _ _ _ _ hl⟩ (by simp [hnp])
    · exact inv_stay hi _ _ (by self_good) (by simp [hnp])
  · split <;> exact inv_stay hi _ _ (by self_good) (by simp [hnp])
  · split <;> exact inv_stay hi _ _ (by self_good) (by simp [hnp])
  · split
    · rename_i v c hl; exact inv_stay hi _ _ ⟨hg, latestFrom_sound _ _ _ _ hl⟩ (by simp [hnp])
    · exact inv_stay hi _ _ (by self_good) (by simp [hnp])

/-! ### every step, every schedule -/

theorem inv_step (ha : h.atomicCreate = true) (hi : Inv h cfg wr s) (i : Nat) (f : Fault) :
    Inv h cfg wr (step cfg s i f) := by
  cases hpc : s.pcs i with
  | cpPut => exact inv_cpPut hi hpc f
  | rnPut => exact inv_rnPut hi hpc f
  | rnRename => exact inv_rnRename hi hpc f
  | rnDelete => exact inv_rnDelete hi hpc f
  | lkLock => exact inv_lkLock hi hpc f
  | lkHead => exact inv_lkHead hi hpc f
  | lkPut => exact inv_lkPut hi hpc f
  | lkRel r b => exact inv_lkRel hi r b hpc f
  | nvPut =>
    have hg := hi.good i
    rw [hpc] at hg; simp only [Good] at hg
    rw [hg.1] at ha; simp [Handler.atomicCreate] at ha
  | rvHead => exact inv_rvHead hi hpc f
  | rlList k => exact inv_rlList hi k hpc f
  | done r => unfold step; simp only [hpc]; exact hi

theorem inv_run (ha : h.atomicCreate = true) (sched : List (Nat × Fault)) {s : State} (hi : Inv h cfg wr s) :
    Inv h cfg wr (run cfg s sched) := by
  induction sched generalizing s with
  | nil => exact hi
  | cons p rest ih =>
    obtain ⟨i, f⟩ := p
    simp only [run]
    exact ih (inv_step ha hi i f)

def isW (roles : Nat → Role) : Nat → Bool := fun i => roles i == .writer

theorem inv_init (h : Handler) (cfg : Cfg) (roles : Nat → Role) : Inv h cfg (isW roles) (init h roles) := by
  constructor
  · intro i
    simp only [init, startPc]
    cases hr : roles i <;> cases h <;> simp [Good, Handler.start, isW, hr]
  · intro v c hc
    simp [init] at hc

end LanceModel.C02
