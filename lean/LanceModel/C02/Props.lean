import LanceModel.C02.Step
/-!
C02 — At most one writer wins each version slot and published manifests never change.

"With any commit handler that provides atomic creation, when writers race to publish the same version
number exactly one manifest for that number is ever published and every other attempt fails (normally
with a commit conflict).  Once a version's manifest is visible it is never overwritten or altered by a
later commit attempt, retry, finalisation step or concurrent reader."

All theorems quantify over ALL target assignments `cfg.tgt` (any number of writers per version slot, any
number of slots — a retry is simply another writer), ALL role assignments (any number of writers, version
readers, latest readers) and ALL schedules `List (Nat × Fault)`: every interleaving of the individual
object-store / lock calls, each call executed, failed before execution, executed with a lost response, or
executed twice with the second answer delivered (duplicated request); a crash is a task that is never
scheduled again, so every prefix of every schedule is covered.  Handlers: `ConditionalPutCommitHandler`,
`RenameCommitHandler`, the `CommitLock` based handler (abstract lock: granted only when free, held until
released — the `CommitLock` contract).  The external-manifest handler is C10's model.
-/
namespace LanceModel.C02

/-- states reachable from an empty `_versions/` directory when every writer uses handler `h` -/
def Reachable (h : Handler) (cfg : Cfg) (roles : Nat → Role) (s : State) : Prop :=
  ∃ sched, s = run cfg (init h roles) sched

theorem inv_reachable {h : Handler} (ha : h.atomicCreate = true) {cfg : Cfg} {roles : Nat → Role} {s : State}
    (hr : Reachable h cfg roles s) : Inv h cfg (isW roles) s := by
  obtain ⟨sched, rfl⟩ := hr
  exact inv_run ha sched (inv_init h cfg roles)

theorem reachable_run {h : Handler} {cfg : Cfg} {roles : Nat → Role} {s : State}
    (hr : Reachable h cfg roles s) (sched : List (Nat × Fault)) : Reachable h cfg roles (run cfg s sched) := by
  obtain ⟨s0, rfl⟩ := hr
  refine ⟨s0 ++ sched, ?_⟩
  generalize init h roles = st
  induction s0 generalizing st with
  | nil => rfl
  | cons p rest ih => obtain ⟨i, f⟩ := p; simp only [run, List.cons_append]; exact ih _

/-! ### the parts of the property -/

/-- at most one `commit` call per version returns `Ok` -/
def AtMostOneSuccess (cfg : Cfg) (s : State) : Prop :=
  ∀ i j, s.pcs i = .done .ok → s.pcs j = .done .ok → cfg.tgt i = cfg.tgt j → i = j

/-- once `_versions/<v>.manifest` exists with content `c` it exists with content `c` after every
    continuation: later commit attempts, retries (other writers), readers, with any faults -/
def FinalImmutable (cfg : Cfg) (s : State) : Prop :=
  ∀ v c, s.final v = some c → ∀ sched, (run cfg s sched).final v = some c

/-- what a finished `commit` call of writer `j` may have returned:
    `Ok` only if its own manifest is the published one; `CommitConflict` only if the slot is taken;
    and if none of its calls was faulted it returned `Ok`, or `CommitConflict` with SOMEBODY ELSE's manifest
    published — never another error and never a silent overwrite. -/
def LoserGetsConflict (cfg : Cfg) (roles : Nat → Role) (s : State) : Prop :=
  ∀ j r, isW roles j = true → s.pcs j = .done r →
    (r = .ok → s.final (cfg.tgt j) = some j) ∧
    (r = .conflict → ∃ c, s.final (cfg.tgt j) = some c) ∧
    (s.faulted j = false → r = .ok ∨ (r = .conflict ∧ ∃ c, s.final (cfg.tgt j) = some c ∧ c ≠ j))

/-- the property for one handler -/
def C02_holds (h : Handler) : Prop :=
  ∀ (cfg : Cfg) (roles : Nat → Role) (s : State), Reachable h cfg roles s →
    AtMostOneSuccess cfg s ∧ FinalImmutable cfg s ∧ LoserGetsConflict cfg roles s

/-- the property at full strength: every handler that provides atomic creation -/
def C02_full : Prop := ∀ h : Handler, h.atomicCreate = true → C02_holds h

/-! ### invariant ⇒ parts -/

variable {h : Handler} {cfg : Cfg} {wr : Nat → Bool} {s : State}

theorem amo_of_inv (hi : Inv h cfg wr s) : AtMostOneSuccess cfg s := by
  intro i j hpi hpj ht
  have gi := hi.good i
  have gj := hi.good j
  rw [hpi] at gi; rw [hpj] at gj
  simp only [Good] at gi gj
  have := gi.2; rw [ht, gj.2] at this
  simpa using this.symm

/-- a step changes `final` at most at the task's own slot, to the task's own content, and only if that slot
    is empty — or the call is one of the two plain puts -/
theorem final_step (cfg : Cfg) (s : State) (i : Nat) (f : Fault) :
    (step cfg s i f).final = s.final ∨
      ((step cfg s i f).final = upd s.final (cfg.tgt i) (some i) ∧
        (s.final (cfg.tgt i) = none ∨ s.pcs i = .lkPut ∨ s.pcs i = .nvPut)) := by
  unfold step
  cases hpc : s.pcs i <;> cases f <;> simp only [createFinal, renameEff, acquire, release] <;>
    (repeat' split) <;> simp_all [go, setFinal, setTmp, setLock]

/-- `final_immutable`, one step: whatever task moves, with whatever fault -/
theorem final_immutable (ha : h.atomicCreate = true) (hi : Inv h cfg wr s) (i : Nat) (f : Fault) (v c : Nat)
    (hc : s.final v = some c) : (step cfg s i f).final v = some c := by
  have hg := hi.good i
  rcases final_step cfg s i f with h1 | ⟨h1, h2⟩
  · rw [h1, hc]
  · have hn : s.final (cfg.tgt i) = none := by
      rcases h2 with h2 | h2 | h2
      · exact h2
      · rw [h2] at hg; simp only [Good] at hg; exact hg.2.2.2
      · rw [h2] at hg; simp only [Good] at hg; rw [hg.1] at ha; simp [Handler.atomicCreate] at ha
    have hv : v ≠ cfg.tgt i := by intro hv; rw [hv, hn] at hc; simp at hc
    rw [h1, upd_apply, if_neg hv, hc]

theorem final_immutable_run (ha : h.atomicCreate = true) (sched : List (Nat × Fault)) {s : State}
    (hi : Inv h cfg wr s) (v c : Nat) (hc : s.final v = some c) : (run cfg s sched).final v = some c := by
  induction sched generalizing s with
  | nil => exact hc
  | cons p rest ih =>
    obtain ⟨i, f⟩ := p
    simp only [run]
    exact ih (inv_step ha hi i f) (final_immutable ha hi i f v c hc)

theorem loser_of_inv {roles : Nat → Role} (hi : Inv h cfg (isW roles) s) : LoserGetsConflict cfg roles s := by
  intro j r hw hpj
  have gj := hi.good j
  rw [hpj] at gj
  cases r <;> simp only [Good, Taken] at gj
  · exact ⟨fun _ => gj.2, by simp, fun _ => Or.inl rfl⟩
  · obtain ⟨-, hne, hns⟩ := gj
    cases hf : s.final (cfg.tgt j) with
    | none => exact absurd hf hne
    | some c =>
      refine ⟨by simp, fun _ => ⟨c, rfl⟩, fun hfl => Or.inr ⟨rfl, c, rfl, ?_⟩⟩
      intro hcj; apply hns hfl; rw [hf, hcj]
  · exact ⟨by simp, by simp, fun hfl => by simp [gj] at hfl⟩
  · simp [hw] at gj
  · simp [hw] at gj
  · simp [hw] at gj

/-! ### the property theorems -/

/-- `at_most_one_success`: for every handler with atomic creation, every target assignment, every schedule and
    fault list, the number of `commit` calls that return `Ok` for a version is at most one -/
theorem at_most_one_success (h : Handler) (ha : h.atomicCreate = true) (cfg : Cfg) (roles : Nat → Role) (s : State)
    (hr : Reachable h cfg roles s) : AtMostOneSuccess cfg s :=
  amo_of_inv (inv_reachable ha hr)

/-- `final_immutable`: a visible manifest keeps its content in every later state -/
theorem final_immutable_reachable (h : Handler) (ha : h.atomicCreate = true) (cfg : Cfg) (roles : Nat → Role)
    (s : State) (hr : Reachable h cfg roles s) : FinalImmutable cfg s :=
  fun v c hc sched => final_immutable_run ha sched (inv_reachable ha hr) v c hc

/-- `loser_gets_conflict` -/
theorem loser_gets_conflict (h : Handler) (ha : h.atomicCreate = true) (cfg : Cfg) (roles : Nat → Role) (s : State)
    (hr : Reachable h cfg roles s) : LoserGetsConflict cfg roles s :=
  loser_of_inv (inv_reachable ha hr)

/-- a successful commit stays the one and only success of its version, and its manifest stays published -/
theorem success_published_forever (h : Handler) (ha : h.atomicCreate = true) (cfg : Cfg) (roles : Nat → Role)
    (s : State) (hr : Reachable h cfg roles s) (i : Nat) (hi : s.pcs i = .done .ok) (sched : List (Nat × Fault)) :
    (run cfg s sched).final (cfg.tgt i) = some i ∧
    ∀ j, (run cfg s sched).pcs j = .done .ok → cfg.tgt j = cfg.tgt i → j = i := by
  have hinv := inv_reachable ha hr
  have g := hinv.good i
  rw [hi] at g; simp only [Good] at g
  have hf := final_immutable_run ha sched hinv _ _ g.2
  refine ⟨hf, fun j hj ht => ?_⟩
  have g' := (inv_run ha sched hinv).good j
  rw [hj] at g'; simp only [Good] at g'
  have := g'.2; rw [ht, hf] at this
  simpa using this.symm

/-- what a reader resolved stays true: `found v c` ⇒ version `v` has content `c` in every later state;
    two readers (or a reader and a successful writer) never disagree on a version -/
theorem reader_consistent (h : Handler) (ha : h.atomicCreate = true) (cfg : Cfg) (roles : Nat → Role) (s : State)
    (hr : Reachable h cfg roles s) (r v c : Nat) (hf : s.pcs r = .done (.found v c)) (sched : List (Nat × Fault)) :
    (run cfg s sched).final v = some c := by
  have hinv := inv_reachable ha hr
  have g := hinv.good r
  rw [hf] at g; simp only [Good] at g
  exact final_immutable_run ha sched hinv _ _ g.2

/-- a published manifest of version `v` was written by a WRITER that targets `v` (no reader, no writer of
    another version ever creates or replaces it) -/
theorem published_by_target (h : Handler) (ha : h.atomicCreate = true) (cfg : Cfg) (roles : Nat → Role) (s : State)
    (hr : Reachable h cfg roles s) (v c : Nat) (hc : s.final v = some c) : cfg.tgt c = v ∧ isW roles c = true :=
  ⟨((inv_reachable ha hr).pubBy v c hc).1, ((inv_reachable ha hr).pubBy v c hc).2.2⟩

/-- "exactly one": in the uncontended case somebody does win — a writer that runs first, alone and without
    faults, returns `Ok` with its manifest published (4 calls suffice for every handler) -/
theorem first_writer_wins (h : Handler) (ha : h.atomicCreate = true) (cfg : Cfg) (roles : Nat → Role) (i : Nat)
    (hw : roles i = .writer) :
    (run cfg (init h roles) (List.replicate 4 (i, Fault.none))).pcs i = .done .ok ∧
    (run cfg (init h roles) (List.replicate 4 (i, Fault.none))).final (cfg.tgt i) = some i := by
  cases h <;> simp [Handler.atomicCreate] at ha <;>
    simp [List.replicate, run, step, init, startPc, Handler.start, hw, go, setFinal, setTmp, setLock, renameEff,
      release, refuses, upd_apply, Fault.bad]

/-- readers (`resolve_version_location`, `resolve_latest_location`) never write: a step of a non-writer
    leaves the whole store as it is -/
theorem readers_dont_write (h : Handler) (ha : h.atomicCreate = true) (cfg : Cfg) (roles : Nat → Role) (s : State)
    (hr : Reachable h cfg roles s) (i : Nat) (hw : isW roles i = false) (f : Fault) :
    (step cfg s i f).final = s.final ∧ (step cfg s i f).tmp = s.tmp ∧ (step cfg s i f).lock = s.lock := by
  have g := (inv_reachable ha hr).good i
  unfold step
  cases hpc : s.pcs i <;> rw [hpc] at g <;> (try (rename_i r b; cases r)) <;> simp only [Good, hw] at g <;>
    (try simp at g) <;> cases f <;> simp only [] <;> (repeat' split) <;> simp [go]

/-- lock handler: the tasks between `lock()` and `release()` are mutually exclusive -/
theorem lock_mutual_exclusion (cfg : Cfg) (roles : Nat → Role) (s : State)
    (hr : Reachable .lock cfg roles s) (i j : Nat) (r r' : Res) (b b' : Bool)
    (hi : s.pcs i = .lkHead ∨ s.pcs i = .lkPut ∨ s.pcs i = .lkRel r b)
    (hj : s.pcs j = .lkHead ∨ s.pcs j = .lkPut ∨ s.pcs j = .lkRel r' b') : i = j := by
  have hinv := inv_reachable (h := .lock) rfl hr
  have gi := hinv.good i
  have gj := hinv.good j
  have li : s.lock = some i := by
    rcases hi with hi | hi | hi <;> rw [hi] at gi <;> (try cases r) <;> simp only [Good] at gi <;> simp_all
  have lj : s.lock = some j := by
    rcases hj with hj | hj | hj <;> rw [hj] at gj <;> (try cases r') <;> simp only [Good] at gj <;> simp_all
  rw [li] at lj; simpa using lj

/-- C02 at full strength: conditional put, rename-if-not-exists and lock based handlers -/
theorem c02_full : C02_full := by
  intro h ha cfg roles s hr
  exact ⟨at_most_one_success h ha cfg roles s hr, final_immutable_reachable h ha cfg roles s hr,
    loser_gets_conflict h ha cfg roles s hr⟩

/-! ### the hypotheses are necessary -/

def cfg1 : Cfg := { tgt := fun _ => 1, top := 1 }
/-- the same with a `CommitLock` that refuses `lock(v)` for committed versions -/
def cfg1c : Cfg := { tgt := fun _ => 1, top := 1, lockChecks := true }
def allWriters : Nat → Role := fun _ => .writer

/-- `UnsafeCommitHandler`: two writers of version 1 both return `Ok`, the second overwrites the first -/
theorem naive_two_winners :
    (run cfg1 (init .naive allWriters) [(0, .none), (1, .none)]).pcs 0 = .done .ok ∧
    (run cfg1 (init .naive allWriters) [(0, .none), (1, .none)]).pcs 1 = .done .ok ∧
    (run cfg1 (init .naive allWriters) [(0, .none)]).final 1 = some 0 ∧
    (run cfg1 (init .naive allWriters) [(0, .none), (1, .none)]).final 1 = some 1 := by
  decide

/-- the hypothesis `atomicCreate` cannot be dropped: the property is false for `UnsafeCommitHandler` -/
theorem atomic_create_necessary : ¬ C02_holds .naive := by
  intro hc
  have hr : Reachable .naive cfg1 allWriters (run cfg1 (init .naive allWriters) [(0, .none), (1, .none)]) :=
    ⟨_, rfl⟩
  have h01 := (hc cfg1 allWriters _ hr).1 0 1 (by decide) (by decide) rfl
  exact absurd h01 (by decide)

/-- "all writers must use the same commit handler type": a lock-handler writer that passed its head check
    overwrites the manifest a conditional-put writer published in between (both return `Ok`) -/
theorem mixed_handlers_counterexample :
    let hs : Nat → Handler := fun i => if i = 0 then .lock else .condPut
    let sched : List (Nat × Fault) := [(0, .none), (0, .none), (1, .none), (0, .none), (0, .none)]
    (run cfg1 (initMixed hs allWriters) sched).pcs 0 = .done .ok ∧
    (run cfg1 (initMixed hs allWriters) sched).pcs 1 = .done .ok ∧
    (run cfg1 (initMixed hs allWriters) [(0, .none), (0, .none), (1, .none)]).final 1 = some 1 ∧
    (run cfg1 (initMixed hs allWriters) sched).final 1 = some 0 := by
  decide

/-- the "no fault" premise of `loser_gets_conflict` cannot be dropped: with a duplicated conditional put the
    WINNER itself is told `CommitConflict` (its manifest stays published; nobody returns `Ok`) -/
theorem dup_winner_reports_conflict :
    (run cfg1 (init .condPut allWriters) [(0, .dup)]).pcs 0 = .done .conflict ∧
    (run cfg1 (init .condPut allWriters) [(0, .dup)]).final 1 = some 0 ∧
    (run cfg1 (init .condPut allWriters) [(0, .dup)]).faulted 0 = true := by
  decide

/-! ### non-vacuity -/

def raceRoles : Nat → Role := fun i => if i = 2 then .reader else if i = 3 then .latest else .writer

/-- conditional put: writer 1 wins version 1, writer 0 gets the conflict, both readers see content 1 -/
example : (run cfg1 (init .condPut raceRoles) [(1, .none), (0, .none), (2, .none), (3, .none)]).pcs 1 = .done .ok ∧
    (run cfg1 (init .condPut raceRoles) [(1, .none), (0, .none), (2, .none), (3, .none)]).pcs 0 = .done .conflict ∧
    (run cfg1 (init .condPut raceRoles) [(1, .none), (0, .none), (2, .none), (3, .none)]).pcs 2 = .done (.found 1 1) ∧
    (run cfg1 (init .condPut raceRoles) [(1, .none), (0, .none), (2, .none), (3, .none)]).pcs 3 = .done (.found 1 1) ∧
    (run cfg1 (init .condPut raceRoles) [(1, .none), (0, .none), (2, .none), (3, .none)]).faulted 0 = false := by
  decide

/-- rename: both stage, writer 0 renames first, writer 1 gets AlreadyExists, deletes its staging object -/
def renameRace : List (Nat × Fault) := [(0, .none), (1, .none), (0, .none), (1, .none), (1, .none)]
example : (run cfg1 (init .rename raceRoles) renameRace).pcs 0 = .done .ok ∧
    (run cfg1 (init .rename raceRoles) renameRace).pcs 1 = .done .conflict ∧
    (run cfg1 (init .rename raceRoles) renameRace).final 1 = some 0 ∧
    (run cfg1 (init .rename raceRoles) renameRace).tmp 1 = false := by decide

/-- lock handler: writer 1 waits while writer 0 holds the lease, then finds the version committed -/
def lockRace : List (Nat × Fault) :=
  [(0, .none), (1, .none), (0, .none), (1, .none), (0, .none), (0, .none), (1, .none), (1, .none), (1, .none)]
example : (run cfg1 (init .lock raceRoles) lockRace).pcs 0 = .done .ok ∧
    (run cfg1 (init .lock raceRoles) lockRace).pcs 1 = .done .conflict ∧
    (run cfg1 (init .lock raceRoles) lockRace).final 1 = some 0 ∧
    (run cfg1 (init .lock raceRoles) lockRace).lock = none := by decide

/-- checking lock: writer 1 is refused by `lock()` itself once version 1 is committed -/
example : (run cfg1c (init .lock raceRoles) [(0, .none), (0, .none), (0, .none), (0, .none), (1, .none)]).pcs 0 = .done .ok ∧
    (run cfg1c (init .lock raceRoles) [(0, .none), (0, .none), (0, .none), (0, .none), (1, .none)]).pcs 1 = .done .conflict ∧
    (run cfg1c (init .lock raceRoles) [(0, .none), (0, .none), (0, .none), (0, .none), (1, .none)]).lock = none := by decide

/-- `FinalImmutable`'s premise with a continuation that tries to write: a lost-response put, a retry, a reader -/
example : (run cfg1 (init .condPut raceRoles) [(0, .lost)]).final 1 = some 0 ∧
    (run cfg1 (init .condPut raceRoles) [(0, .lost)]).pcs 0 = .done .err ∧
    (run cfg1 (init .condPut raceRoles) [(0, .lost), (1, .dup), (4, .none), (2, .none)]).final 1 = some 0 := by decide

/-- `Reachable` is inhabited by every schedule -/
example : Reachable .rename cfg1 raceRoles (run cfg1 (init .rename raceRoles) renameRace) := ⟨_, rfl⟩
example : Handler.condPut.atomicCreate = true ∧ Handler.rename.atomicCreate = true ∧
    Handler.lock.atomicCreate = true ∧ Handler.naive.atomicCreate = false := by decide

end LanceModel.C02
