/-!
C02 — at most one writer wins each version slot and published manifests never change.

Labelled transition system over the `_versions/` directory of ONE table.  Unboundedly many tasks
`i : Nat`; task `i` is a writer (one call of `CommitHandler::commit` for the manifest version `cfg.tgt i`,
the manifest it writes has content id `i`), a version reader (`resolve_version_location (cfg.tgt i)`) or a
latest reader (`resolve_latest_location`).  One global step = ONE call of one task into the object store
(or into the `CommitLock`), together with a fault decision for that call:

* `none`        the call is executed and answered;
* `failBefore`  the call is not executed, the caller gets an error;
* `lost`        the call is executed, the caller gets an error (lost response);
* `dup`         the call is executed, the response is lost, the client layer sends the request again and
                the caller gets the answer of the SECOND execution (duplicated request / retry);
* a crash is a task that is never scheduled again (every prefix of every schedule is a schedule).

Source: rust/lance-table/src/io/commit.rs — `ConditionalPutCommitHandler::commit`,
`RenameCommitHandler::commit`, `impl<T: CommitLock> CommitHandler for T :: commit`,
`UnsafeCommitHandler::commit` (here `Handler.naive`), `default_resolve_version`, `current_manifest_path`
(V2 naming, lexically ordered listing, `ListRetryStream` with 5 retries).

Store: `final v` = content id of `_versions/<v>.manifest` if it exists; `tmp i` = the staging object
`<final path>-<uuid>` of writer `i` exists (its content is `i`); `lock` = holder of the table's commit lock.
`faulted i` is a ghost flag: some call of task `i` was released with a fault.
-/
namespace LanceModel.C02

/-- which `CommitHandler` all writers of the table use -/
inductive Handler | condPut | rename | lock | naive
deriving DecidableEq, Repr

/-- the handler publishes with an atomic create-if-absent (the hypothesis of the property).
    `naive` = `UnsafeCommitHandler`: a plain overwriting put. -/
def Handler.atomicCreate : Handler → Bool
  | .naive => false
  | _ => true

inductive Fault | none | failBefore | lost | dup
deriving DecidableEq, Repr

def Fault.bad : Fault → Bool
  | .none => false
  | _ => true

/-- what a task returned.  Writers: `ok` (a `ManifestLocation`), `conflict` (`CommitError::CommitConflict`),
    `err` (`CommitError::OtherError` / `Error`).  Readers: `found v c` (a location of version `v` whose
    content, read at return time, is `c`), `fallback` (`default_resolve_version` answers with the V1 path
    without checking it when the V2 path does not exist), `notFound`, `err`. -/
inductive Res | ok | conflict | err | found (v c : Nat) | fallback | notFound
deriving DecidableEq, Repr

/-- program counter = the next call of the task -/
inductive Pc
  /- ConditionalPutCommitHandler::commit -/
  | cpPut                         -- put_opts(final, PutMode::Create)
  /- RenameCommitHandler::commit -/
  | rnPut                         -- manifest_writer: put tmp_i
  | rnRename                      -- rename_if_not_exists(tmp_i, final)
  | rnDelete                      -- AlreadyExists: delete tmp_i (result ignored), report CommitConflict
  /- impl<T: CommitLock> CommitHandler for T :: commit -/
  | lkLock                        -- self.lock(version)
  | lkHead                        -- head final
  | lkPut                         -- manifest_writer: put final (a plain, overwriting put)
  | lkRel (r : Res) (success : Bool) -- lease.release(success), then return r
  /- UnsafeCommitHandler::commit -/
  | nvPut                         -- manifest_writer: put final (a plain, overwriting put)
  /- default_resolve_version -/
  | rvHead                        -- head final (V2 path)
  /- current_manifest_path -/
  | rlList (k : Nat)              -- list _versions (ListRetryStream: k retries used, at most 5)
  | done (r : Res)
deriving DecidableEq, Repr

structure State where
  final : Nat → Option Nat
  tmp : Nat → Bool
  lock : Option Nat
  pcs : Nat → Pc
  faulted : Nat → Bool

/-- static part of a case: the version each task works on, and an upper bound of the version numbers
    in use (`current_manifest_path` sees the greatest existing version `≤ top`). -/
structure Cfg where
  tgt : Nat → Nat
  top : Nat
  /-- the `CommitLock` knows the table's versions: `lock(v)` answers `CommitConflict` instead of granting the
      lock when version `v` is already committed (the contract allows both kinds of lock) -/
  lockChecks : Bool := false

def upd {α} (f : Nat → α) (i : Nat) (v : α) : Nat → α := fun j => if j = i then v else f j

theorem upd_apply {α} (f : Nat → α) (i j : Nat) (v : α) : upd f i v j = if j = i then v else f j := rfl

/-- task `i` moves to `pc`; the ghost flag records whether this call was released with a fault -/
def go (s : State) (i : Nat) (f : Fault) (pc : Pc) : State :=
  { s with pcs := upd s.pcs i pc, faulted := upd s.faulted i (s.faulted i || f.bad) }

/-- effect of a plain `put final_v` with content `c` (object_store put overwrites) -/
def setFinal (s : State) (v c : Nat) : State := { s with final := upd s.final v (some c) }

/-- effect of `put_opts(final_v, PutMode::Create)` -/
def createFinal (s : State) (v c : Nat) : State :=
  match s.final v with
  | none => setFinal s v c
  | some _ => s

def setTmp (s : State) (i : Nat) (b : Bool) : State := { s with tmp := upd s.tmp i b }

/-- effect of `rename_if_not_exists(tmp_i, final_v)`: source missing → NotFound; destination exists →
    AlreadyExists; otherwise the object moves (one atomic call) -/
def renameEff (s : State) (v i : Nat) : State :=
  if s.tmp i then
    match s.final v with
    | none => setTmp (setFinal s v i) i false
    | some _ => s
  else s

def setLock (s : State) (l : Option Nat) : State := { s with lock := l }

/-- a checking lock refuses `lock(v)` for task `i` because its version is already committed -/
def refuses (cfg : Cfg) (s : State) (i : Nat) : Bool :=
  cfg.lockChecks && (s.final (cfg.tgt i)).isSome

/-- effect of `lock()` answered by the lock service: granted iff free (and not refused) -/
def acquire (cfg : Cfg) (s : State) (i : Nat) : State :=
  match s.lock with
  | none => if refuses cfg s i then s else setLock s (some i)
  | some _ => s

/-- effect of `lease.release(_)` of the lease handed to `i` -/
def release (s : State) (i : Nat) : State :=
  if s.lock = some i then setLock s none else s

/-- `current_manifest_path` on a lexically ordered V2 listing: the greatest version that has a manifest -/
def latestFrom (final : Nat → Option Nat) : Nat → Option (Nat × Nat)
  | 0 => match final 0 with
    | some c => some (0, c)
    | none => none
  | n + 1 => match final (n + 1) with
    | some c => some (n + 1, c)
    | none => latestFrom final n

/-- One step of task `i` with fault `f`. -/
def step (cfg : Cfg) (s : State) (i : Nat) (f : Fault) : State :=
  match s.pcs i with
  /- ConditionalPutCommitHandler::commit: AlreadyExists | Precondition ↦ CommitConflict -/
  | .cpPut =>
    match f with
    | .failBefore => go s i f (.done .err)
    | .lost => go (createFinal s (cfg.tgt i) i) i f (.done .err)
    | .dup => go (createFinal s (cfg.tgt i) i) i f (.done .conflict)   -- the second attempt finds the object
    | .none =>
      match s.final (cfg.tgt i) with
      | none => go (setFinal s (cfg.tgt i) i) i f (.done .ok)
      | some _ => go s i f (.done .conflict)
  /- RenameCommitHandler::commit -/
  | .rnPut =>
    match f with
    | .failBefore => go s i f (.done .err)
    | .lost => go (setTmp s i true) i f (.done .err)
    | _ => go (setTmp s i true) i f .rnRename
  | .rnRename =>
    match f with
    | .failBefore => go s i f (.done .err)
    | .lost => go (renameEff s (cfg.tgt i) i) i f (.done .err)
    | .dup =>
      if s.tmp i then
        match s.final (cfg.tgt i) with
        | none => go (renameEff s (cfg.tgt i) i) i f (.done .err)     -- the second attempt: source NotFound
        | some _ => go s i f .rnDelete
      else go s i f (.done .err)
    | .none =>
      if s.tmp i then
        match s.final (cfg.tgt i) with
        | none => go (renameEff s (cfg.tgt i) i) i f (.done .ok)
        | some _ => go s i f .rnDelete
      else go s i f (.done .err)
  | .rnDelete =>
    match f with
    | .failBefore => go s i f (.done .conflict)                         -- `let _ = object_store.delete(..)`
    | _ => go (setTmp s i false) i f (.done .conflict)
  /- CommitLock based handler -/
  | .lkLock =>
    match f with
    | .failBefore => go s i f (.done .err)
    | .lost => go (acquire cfg s i) i f (.done .err)                    -- granted (if free) but never learnt: leaked lease
    | _ =>
      match s.lock with
      | none =>
        if refuses cfg s i then go s i f (.done .conflict)              -- "return CommitConflict if the version has already been committed"
        else go (setLock s (some i)) i f .lkHead
      | some _ => go s i f .lkLock                                      -- "wait until it is unlocked"
  | .lkHead =>
    match f with
    | .failBefore => go s i f (.lkRel .err false)
    | .lost => go s i f (.lkRel .err false)
    | _ =>
      match s.final (cfg.tgt i) with
      | some _ => go s i f (.lkRel .conflict false)
      | none => go s i f .lkPut
  | .lkPut =>
    match f with
    | .failBefore => go s i f (.lkRel .err false)
    | .lost => go (setFinal s (cfg.tgt i) i) i f (.lkRel .err false)
    | _ => go (setFinal s (cfg.tgt i) i) i f (.lkRel .ok true)
  | .lkRel r _ =>
    match f with
    | .failBefore => go s i f (.done .err)                              -- `lease.release(..).await?`
    | .lost => go (release s i) i f (.done .err)
    | _ => go (release s i) i f (.done r)
  /- UnsafeCommitHandler::commit -/
  | .nvPut =>
    match f with
    | .failBefore => go s i f (.done .err)
    | .lost => go (setFinal s (cfg.tgt i) i) i f (.done .err)
    | _ => go (setFinal s (cfg.tgt i) i) i f (.done .ok)
  /- default_resolve_version -/
  | .rvHead =>
    match f with
    | .failBefore => go s i f (.done .err)
    | .lost => go s i f (.done .err)
    | _ =>
      match s.final (cfg.tgt i) with
      | some c => go s i f (.done (.found (cfg.tgt i) c))
      | none => go s i f (.done .fallback)
  /- current_manifest_path -/
  | .rlList k =>
    match f with
    | .failBefore => if k < 5 then go s i f (.rlList (k + 1)) else go s i f (.done .err)
    | .lost => if k < 5 then go s i f (.rlList (k + 1)) else go s i f (.done .err)
    | _ =>
      match latestFrom s.final cfg.top with
      | some (v, c) => go s i f (.done (.found v c))
      | none => go s i f (.done .notFound)
  | .done _ => s

def run (cfg : Cfg) (s : State) : List (Nat × Fault) → State
  | [] => s
  | (i, f) :: rest => run cfg (step cfg s i f) rest

/-- task roles -/
inductive Role | writer | reader | latest
deriving DecidableEq, Repr

/-- first call of `commit` per handler -/
def Handler.start : Handler → Pc
  | .condPut => .cpPut
  | .rename => .rnPut
  | .lock => .lkLock
  | .naive => .nvPut

def startPc (h : Handler) : Role → Pc
  | .writer => h.start
  | .reader => .rvHead
  | .latest => .rlList 0

/-- empty `_versions/`, free lock, every writer uses handler `h` -/
def init (h : Handler) (roles : Nat → Role) : State :=
  { final := fun _ => none, tmp := fun _ => false, lock := none,
    pcs := fun i => startPc h (roles i), faulted := fun _ => false }

/-- writers may use different handlers (`hs i`): used only to show that the handlers must agree -/
def initMixed (hs : Nat → Handler) (roles : Nat → Role) : State :=
  { final := fun _ => none, tmp := fun _ => false, lock := none,
    pcs := fun i => startPc (hs i) (roles i), faulted := fun _ => false }

end LanceModel.C02
