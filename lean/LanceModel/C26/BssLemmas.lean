import LanceModel.C26.FrameLemmas
/-! byte stream split: the per-chunk transposition is inverted by the decompressor; page round trip -/
namespace LanceModel.C26

theorem getD_map_range (f : Nat → Nat) (m i : Nat) (h : i < m) : ((List.range m).map f).getD i 0 = f i := by
  simp [List.getD, h]

theorem map_range_getD (d : List Nat) : (List.range d.length).map (fun k => d.getD k 0) = d := by
  apply List.ext_getElem
  · simp
  · intro i h1 h2
    simp [List.getD] at *
    simp [h2]

theorem bssSplit_length (n w : Nat) (d : List Nat) : (bssSplit n w d).length = n * w := by
  simp [bssSplit]

/-- index arithmetic of the transposition -/
theorem bss_index (n w k : Nat) (hk : k < n * w) :
    (k % w) * n + k / w < n * w ∧ ((k % w) * n + k / w) % n = k / w ∧ ((k % w) * n + k / w) / n = k % w := by
  have hw : 0 < w := by
    rcases Nat.eq_zero_or_pos w with h | h
    · subst h; simp at hk
    · exact h
  have hn : 0 < n := by
    rcases Nat.eq_zero_or_pos n with h | h
    · subst h; simp at hk
    · exact h
  have h1 : k / w < n := by
    apply Nat.div_lt_of_lt_mul; rw [Nat.mul_comm]; exact hk
  have h2 : k % w < w := Nat.mod_lt _ hw
  refine ⟨?_, ?_, ?_⟩
  · have : (k % w) * n + k / w < (k % w) * n + n := by omega
    have h3 : (k % w + 1) * n ≤ w * n := Nat.mul_le_mul_right n (by omega)
    rw [Nat.add_mul, Nat.one_mul] at h3
    rw [Nat.mul_comm n w]; omega
  · rw [Nat.mul_comm, Nat.mul_add_mod, Nat.mod_eq_of_lt h1]
  · rw [Nat.mul_comm, Nat.mul_add_div hn, Nat.div_eq_of_lt h1]; omega

theorem bssMerge_bssSplit (n w : Nat) (d : List Nat) (hd : d.length = n * w) :
    bssMerge n w (bssSplit n w d) = d := by
  unfold bssMerge
  have : (List.range (n * w)).map (fun k => (bssSplit n w d).getD ((k % w) * n + k / w) 0)
      = (List.range (n * w)).map (fun k => d.getD k 0) := by
    apply List.map_congr_left
    intro k hk
    rw [List.mem_range] at hk
    obtain ⟨h1, h2, h3⟩ := bss_index n w k hk
    unfold bssSplit
    rw [getD_map_range _ _ _ h1, h2, h3]
    congr 1
    rw [Nat.mul_comm]; exact Nat.div_add_mod k w
  rw [this, ← hd, map_range_getD]

theorem bssDecodeChunk_ok (n w : Nat) (d : List Nat) (hd : d.length = n * w) :
    bssDecodeChunk w [bssSplit n w d] n = .ok d := by
  unfold bssDecodeChunk
  by_cases h0 : n = 0
  · subst h0
    simp at hd
    simp [hd]
  · simp [h0, bssSplit_length, bssMerge_bssSplit n w d hd]

def bssChunkOf (p : List Nat × Nat × Nat) : Chunk := ⟨[p.1.length], p.2.2⟩

theorem bssChunkSize_pow (w : Nat) : 2 ^ (bssChunkSize w).log2 = bssChunkSize w ∧ 1 ≤ (bssChunkSize w).log2 ∧
    0 < bssChunkSize w ∧ bssChunkSize w ≤ 1024 := by
  unfold bssChunkSize
  split <;> decide

theorem bssPieces_spec (w : Nat) (total : Nat) :
    ∀ (fuel nv : Nat) (d : List Nat) (prev : Nat), nv ≤ fuel → prev + nv = total → d.length = nv * w →
      ((bssPieces w fuel nv d).flatMap (fun p => bssMerge p.2.1 w p.1) = d) ∧
      chunkCounts total prev ((bssPieces w fuel nv d).map bssChunkOf) = (bssPieces w fuel nv d).map (·.2.1) ∧
      (∀ p ∈ bssPieces w fuel nv d, bssDecodeChunk w [p.1] p.2.1 = .ok (bssMerge p.2.1 w p.1)) ∧
      (∀ p ∈ bssPieces w fuel nv d, p.1.length = p.2.1 * w ∧ 0 < p.2.1 ∧ p.2.1 ≤ bssChunkSize w) ∧
      ((bssPieces w fuel nv d).map (·.2.1)).sum = nv := by
  intro fuel
  induction fuel with
  | zero =>
    intro nv d prev hf _ hd
    have : nv = 0 := by omega
    subst this
    simp at hd
    simp [bssPieces, chunkCounts, hd]
  | succ fuel ih =>
    intro nv d prev hf hsum hd
    by_cases h0 : nv = 0
    · subst h0
      simp at hd
      simp [bssPieces, chunkCounts, hd]
    · obtain ⟨hp1, hp2, hp3, hp4⟩ := bssChunkSize_pow w
      simp only [bssPieces, h0, if_false]
      generalize hc : min nv (bssChunkSize w) = c
      have hcpos : 0 < c := by omega
      have hcle : c ≤ nv := by omega
      have hcw : c * w ≤ d.length := by rw [hd]; exact Nat.mul_le_mul_right w hcle
      have htl : (d.take (c * w)).length = c * w := by simp; omega
      have hdl : (d.drop (c * w)).length = (nv - c) * w := by
        simp only [List.length_drop, hd, Nat.sub_mul]
      obtain ⟨i1, i2, i3, i4, i5⟩ := ih (nv - c) (d.drop (c * w)) (prev + c) (by omega) (by omega) hdl
      have hmerge := bssMerge_bssSplit c w (d.take (c * w)) htl
      have hcount : (bssChunkOf (bssSplit c w (d.take (c * w)), c, if c = nv then 0 else c.log2)).numValues prev total = c := by
        simp only [bssChunkOf, Chunk.numValues]
        by_cases hcn : c = nv
        · simp [hcn]; omega
        · have : c = bssChunkSize w := by omega
          have hl : c.log2 ≠ 0 := by rw [this]; omega
          simp only [hcn, if_false, hl]
          rw [this]; exact hp1
      refine ⟨?_, ?_, ?_, ?_, ?_⟩
      · simp only [List.flatMap_cons, hmerge, i1, List.take_append_drop]
      · simp only [List.map_cons, chunkCounts, hcount, i2]
      · intro p hp
        rcases List.mem_cons.mp hp with rfl | hp
        · simp only [hmerge]
          exact bssDecodeChunk_ok c w _ htl
        · exact i3 p hp
      · intro p hp
        rcases List.mem_cons.mp hp with rfl | hp
        · exact ⟨by simp [bssSplit_length], hcpos, by simp only; omega⟩
        · exact i4 p hp
      · simp only [List.map_cons, List.sum_cons, i5]; omega

theorem bss_roundtrip (w nv : Nat) (d : List Nat) (hd : d.length = nv * w) :
    decodeChunks (bssDecodeChunk w) nv 0 (bssEncode w nv d).1 (bssEncode w nv d).2 = .ok d := by
  by_cases h : nv = 0
  · subst h; simp at hd; simp [bssEncode, decodeChunks, hd]
  · obtain ⟨s1, s2, s3, s4, _⟩ := bssPieces_spec w nv nv nv d 0 (Nat.le_refl _) (by omega) hd
    simp only [bssEncode, h, if_false]
    have := decodeChunks_join (bssDecodeChunk w) 1 nv
      ((bssPieces w nv nv d).map (fun p => (⟨[p.1], p.2.1, bssMerge p.2.1 w p.1⟩ : Piece Nat)))
      ((bssPieces w nv nv d).map bssChunkOf) 0
      (by intro p hp; simp only [List.mem_map] at hp; obtain ⟨q, _, rfl⟩ := hp; simp)
      (by intro p hp; simp only [List.mem_map] at hp; obtain ⟨q, hq, rfl⟩ := hp; exact s3 q hq)
      (by simp [List.map_map, Function.comp_def, bssChunkOf])
      (by rw [s2]; simp [List.map_map, Function.comp_def])
    simp only [List.map_map, Function.comp_def, List.flatMap_map] at this
    have e : (fun p : List Nat × Nat × Nat => ({ sizes := [p.1.length], log := p.2.2 } : Chunk)) = bssChunkOf := rfl
    rw [e, this, s1]

theorem bss_limits (w nv : Nat) (hw : w = 4 ∨ w = 8) (d : List Nat) (hd : d.length = nv * w) :
    (∀ c ∈ (bssEncode w nv d).2, c.sizes.sum ≤ MAX_MINIBLOCK_BYTES) ∧
    (∀ n ∈ chunkCounts nv 0 (bssEncode w nv d).2, 0 < n ∧ n ≤ 1024) ∧
    (chunkCounts nv 0 (bssEncode w nv d).2).sum = nv := by
  by_cases h : nv = 0
  · subst h; simp [bssEncode, chunkCounts]
  · obtain ⟨_, s2, _, s4, s5⟩ := bssPieces_spec w nv nv nv d 0 (Nat.le_refl _) (by omega) hd
    obtain ⟨_, _, _, hp4⟩ := bssChunkSize_pow w
    simp only [bssEncode, h, if_false]
    have e : (fun p : List Nat × Nat × Nat => ({ sizes := [p.1.length], log := p.2.2 } : Chunk)) = bssChunkOf := rfl
    rw [e, s2]
    refine ⟨?_, ?_, s5⟩
    · intro c hc
      simp only [List.mem_map] at hc
      obtain ⟨p, hp, rfl⟩ := hc
      obtain ⟨a1, a2, a3⟩ := s4 p hp
      simp only [bssChunkOf, List.sum_cons, List.sum_nil, Nat.add_zero, a1, MAX_MINIBLOCK_BYTES]
      unfold bssChunkSize at a3
      rcases hw with rfl | rfl
      · simp at a3; omega
      · simp at a3; omega
    · intro n hn
      simp only [List.mem_map] at hn
      obtain ⟨p, hp, rfl⟩ := hn
      obtain ⟨_, a2, a3⟩ := s4 p hp
      exact ⟨a2, by omega⟩

end LanceModel.C26
