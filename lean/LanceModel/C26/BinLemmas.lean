import LanceModel.C26.WordLemmas
import LanceModel.C26.FrameLemmas
/-! binary mini-block: chunk cutting (search_next_offset_idx), one chunk decodes to its values, page round trip -/
namespace LanceModel.C26

/-! ### offsets -/

theorem offsetsFrom_length (base : Nat) (vals : List (List Nat)) : (offsetsFrom base vals).length = vals.length + 1 := by
  induction vals generalizing base with
  | nil => rfl
  | cons v vs ih => simp [offsetsFrom, ih]

theorem offsetsFrom_getD (base : Nat) (vals : List (List Nat)) (i : Nat) (h : i ≤ vals.length) :
    (offsetsFrom base vals).getD i 0 = base + (vals.take i).flatten.length := by
  induction vals generalizing base i with
  | nil =>
    have : i = 0 := by simpa using h
    subst this; simp [offsetsFrom]
  | cons v vs ih =>
    cases i with
    | zero => simp [offsetsFrom]
    | succ k =>
      have := ih (base + v.length) k (by simpa using h)
      simp only [offsetsFrom, List.getD_cons_succ, this, List.take_succ_cons, List.flatten_cons, List.length_append]
      omega

theorem offsetsFrom_le (base : Nat) (vals : List (List Nat)) :
    ∀ o ∈ offsetsFrom base vals, o ≤ base + vals.flatten.length := by
  induction vals generalizing base with
  | nil => simp [offsetsFrom]
  | cons v vs ih =>
    intro o ho
    simp only [offsetsFrom, List.mem_cons] at ho
    simp only [List.flatten_cons, List.length_append]
    rcases ho with rfl | ho
    · omega
    · have := ih (base + v.length) o ho; omega

theorem take_drop_split {α : Type} (l : List α) (a b : Nat) (h : a ≤ b) :
    l.take b = l.take a ++ (l.drop a).take (b - a) := by
  have : b = a + (b - a) := by omega
  rw [this, List.take_add]
  simp

/-- the bytes of the values between two offset indices: `offsets[b] - offsets[a]` of them -/
theorem slice_flatten_length (vals : List (List Nat)) (a b : Nat) (hab : a ≤ b) (hb : b ≤ vals.length) :
    ((vals.drop a).take (b - a)).flatten.length
      = (offsetsFrom 0 vals).getD b 0 - (offsetsFrom 0 vals).getD a 0 := by
  rw [offsetsFrom_getD 0 vals b hb, offsetsFrom_getD 0 vals a (by omega), take_drop_split vals a b hab]
  simp

/-! ### one chunk -/

theorem sliceValues_offsetsFrom (pre post : List Nat) (cv : List (List Nat)) :
    sliceValues (pre ++ cv.flatten ++ post) (offsetsFrom pre.length cv) = cv := by
  induction cv generalizing pre with
  | nil => simp [offsetsFrom, sliceValues]
  | cons v vs ih =>
    have hstep : offsetsFrom pre.length (v :: vs) = pre.length :: offsetsFrom (pre.length + v.length) vs := rfl
    rw [hstep]
    cases hvs : offsetsFrom (pre.length + v.length) vs with
    | nil =>
      have := offsetsFrom_length (pre.length + v.length) vs
      rw [hvs] at this; simp at this
    | cons o os =>
      have ho : o = pre.length + v.length := by
        cases vs with
        | nil => simp [offsetsFrom] at hvs; omega
        | cons w ws => simp [offsetsFrom] at hvs; omega
      simp only [sliceValues]
      have h1 : ((pre ++ (v :: vs).flatten ++ post).drop pre.length).take (o - pre.length) = v := by
        rw [List.append_assoc, List.drop_left' rfl, ho]
        simp only [List.flatten_cons, List.append_assoc]
        rw [List.take_left' (by omega)]
      rw [h1]
      congr 1
      have := ih (pre ++ v)
      rw [List.length_append] at this
      rw [← hvs]
      simpa [List.append_assoc] using this

theorem binChunkBytes_length (bw : Nat) (hbw : 0 < bw) (cv : List (List Nat)) :
    (binChunkBytes bw cv).length = nextMultiple ((cv.length + 1) * bw + cv.flatten.length) bw := by
  unfold binChunkBytes
  simp only [List.length_append, encodeWords_length, offsetsFrom_length, List.length_replicate]
  have : (cv.length + 1) * bw + cv.flatten.length ≤ nextMultiple ((cv.length + 1) * bw + cv.flatten.length) bw := by
    unfold nextMultiple divCeil
    generalize (cv.length + 1) * bw + cv.flatten.length = m
    have h1 := Nat.div_add_mod (m + bw - 1) bw
    have h2 := Nat.mod_lt (m + bw - 1) hbw
    rw [Nat.mul_comm] at h1
    omega
  rw [Nat.mul_comm bw]; omega

/-- BinaryMiniBlockDecompressor on the chunk that holds `cv` returns `cv` -/
theorem binDecodeChunk_ok (bw : Nat) (hbw : 0 < bw) (cv : List (List Nat)) (hne : cv ≠ [])
    (hfit : (cv.length + 1) * bw + cv.flatten.length < 256 ^ bw) :
    binDecodeChunk bw [binChunkBytes bw cv] cv.length = .ok cv := by
  have hlen := binChunkBytes_length bw hbw cv
  have hge : (cv.length + 1) * bw + cv.flatten.length ≤ (binChunkBytes bw cv).length := by
    unfold binChunkBytes
    simp only [List.length_append, encodeWords_length, offsetsFrom_length, List.length_replicate]
    rw [Nat.mul_comm bw]; omega
  have hpos : 1 ≤ cv.length := by
    cases cv with
    | nil => exact absurd rfl hne
    | cons a b => simp
  have h2 : 2 * bw ≤ (cv.length + 1) * bw := Nat.mul_le_mul_right bw (by omega)
  have hdw : decodeWords bw (cv.length + 1) (binChunkBytes bw cv) = offsetsFrom ((cv.length + 1) * bw) cv := by
    have := decodeWords_encodeWords bw (offsetsFrom ((cv.length + 1) * bw) cv)
      (cv.flatten ++ List.replicate (nextMultiple ((cv.length + 1) * bw + cv.flatten.length) bw
        - ((cv.length + 1) * bw + cv.flatten.length)) 72)
      (fun o ho => by have := offsetsFrom_le _ cv o ho; omega)
    rw [offsetsFrom_length] at this
    unfold binChunkBytes
    rw [List.append_assoc]; exact this
  unfold binDecodeChunk
  simp only
  rw [if_neg (by omega), if_neg (by omega), hdw]
  have hlast : (offsetsFrom ((cv.length + 1) * bw) cv).getD cv.length 0 ≤ (binChunkBytes bw cv).length := by
    rw [offsetsFrom_getD _ cv cv.length (Nat.le_refl _)]
    simp only [List.take_length]; omega
  rw [if_neg (by omega)]
  congr 1
  have hpre : (encodeWords bw (offsetsFrom ((cv.length + 1) * bw) cv)).length = (cv.length + 1) * bw := by
    rw [encodeWords_length, offsetsFrom_length, Nat.mul_comm]
  have := sliceValues_offsetsFrom (encodeWords bw (offsetsFrom ((cv.length + 1) * bw) cv))
    (List.replicate (nextMultiple ((cv.length + 1) * bw + cv.flatten.length) bw
        - ((cv.length + 1) * bw + cv.flatten.length)) 72) cv
  rw [hpre] at this
  exact this

/-! ### search_next_offset_idx -/

theorem trailingZeros_pow (j : Nat) : ∀ fuel, j < fuel → trailingZeros fuel (2 ^ j) = j := by
  induction j with
  | zero =>
    intro fuel hf
    cases fuel with
    | zero => omega
    | succ f => simp [trailingZeros]
  | succ j ih =>
    intro fuel hf
    cases fuel with
    | zero => omega
    | succ f =>
      have h1 : 2 ^ (j + 1) % 2 = 0 := by rw [Nat.pow_succ]; omega
      have h2 : 2 ^ (j + 1) / 2 = 2 ^ j := by rw [Nat.pow_succ]; omega
      simp only [trailingZeros, h1, h2]
      rw [ih f (by omega)]
      simp; omega

theorem lt_two_pow_self (j : Nat) : j < 2 ^ j := Nat.lt_two_pow_self

/-- size in bytes of the chunk from offset index `a` to `b` before padding -/
def chunkSize (offs : List Nat) (bw a b : Nat) : Nat := (b - a + 1) * bw + (offs.getD b 0 - offs.getD a 0)

/-- what search_next_offset_idx guarantees: progress, in range, a power of two ≥ 2 unless it reaches the end,
    and a size within the mini-block limit unless the chunk has at most two values -/
structure CutGood (offs : List Nat) (bw last r : Nat) : Prop where
  hgt : last < r
  hle : r ≤ offs.length - 1
  hpow : r = offs.length - 1 ∨ ∃ j, 1 ≤ j ∧ r - last = 2 ^ j
  hsize : chunkSize offs bw last r ≤ MAX_MINIBLOCK_BYTES - 8 ∨ r - last ≤ 2

theorem searchLoop_good (offs : List Nat) (bw last : Nat) (hlast : last < offs.length - 1) :
    ∀ (fuel num new : Nat), new = 2 * num → (∃ j, num = 2 ^ j) → last + num ≤ offs.length - 1 →
      (num = 1 ∨ chunkSize offs bw last (last + num) ≤ AIM_MINICHUNK_SIZE) → offs.length < fuel + new →
      CutGood offs bw last (searchLoop offs bw last fuel num new) := by
  intro fuel
  induction fuel with
  | zero =>
    intro num new hn hj hle hsz hf
    -- unreachable in the recursion (see the call site); still a valid cut
    obtain ⟨j, hj⟩ := hj
    simp only [searchLoop]
    have hnumpos : 1 ≤ num := by rw [hj]; exact Nat.pow_pos (by omega)
    refine ⟨by omega, hle, ?_, ?_⟩
    · right
      refine ⟨j, ?_, by omega⟩
      rcases Nat.eq_zero_or_pos j with h0 | h0
      · subst h0; simp at hj; omega
      · exact h0
    · rcases hsz with h | h
      · right; omega
      · left; simp only [chunkSize, AIM_MINICHUNK_SIZE, MAX_MINIBLOCK_BYTES] at *; omega
  | succ f ih =>
    intro num new hn hj hle hsz hf
    obtain ⟨j, hj⟩ := hj
    have hnumpos : 1 ≤ num := by rw [hj]; exact Nat.pow_pos (by omega)
    simp only [searchLoop]
    split
    · rename_i hend
      split
      · rename_i hfit
        refine ⟨by omega, Nat.le_refl _, Or.inl rfl, Or.inl ?_⟩
        simp only [chunkSize, AIM_MINICHUNK_SIZE, MAX_MINIBLOCK_BYTES] at *
        have : offs.length - 1 - last + 1 = offs.length - last := by omega
        rw [this]; omega
      · refine ⟨by omega, hle, ?_, ?_⟩
        · by_cases h1 : num = 1
          · left; omega
          · right
            refine ⟨j, ?_, by omega⟩
            rcases Nat.eq_zero_or_pos j with h0 | h0
            · subst h0; simp at hj; exact absurd hj h1
            · exact h0
        · rcases hsz with h | h
          · right; omega
          · left; simp only [chunkSize, AIM_MINICHUNK_SIZE, MAX_MINIBLOCK_BYTES] at *; omega
    · rename_i hend
      have hnew : last + new ≤ offs.length - 1 := by omega
      split
      · rename_i hfit
        apply ih new (2 * new) rfl ⟨j + 1, by rw [hn, hj, Nat.pow_succ]; omega⟩ hnew
        · right
          simp only [chunkSize, AIM_MINICHUNK_SIZE] at *
          have : last + new - last + 1 = new + 1 := by omega
          rw [this]; omega
        · omega
      · rename_i hnofit
        split
        · rename_i hover
          refine ⟨by omega, hle, Or.inr ⟨j, ?_, by omega⟩, ?_⟩
          · rcases Nat.eq_zero_or_pos j with h0 | h0
            · subst h0; simp at hj; omega
            · exact h0
          · rcases hsz with h | h
            · omega
            · left; simp only [chunkSize, AIM_MINICHUNK_SIZE, MAX_MINIBLOCK_BYTES] at *; omega
        · rename_i hkeep
          refine ⟨by omega, hnew, Or.inr ⟨j + 1, by omega, by rw [Nat.pow_succ]; omega⟩, ?_⟩
          by_cases h2 : 2 ≤ num
          · left
            simp only [chunkSize, MAX_MINIBLOCK_BYTES] at *
            have : last + new - last + 1 = new + 1 := by omega
            rw [this]; omega
          · right; omega

theorem searchNext_good (offs : List Nat) (bw last : Nat) (hlast : last < offs.length - 1) :
    CutGood offs bw last (searchNext offs bw last) := by
  unfold searchNext
  exact searchLoop_good offs bw last hlast offs.length 1 2 rfl ⟨0, rfl⟩ (by omega) (Or.inl rfl) (by omega)

end LanceModel.C26
