import LanceModel.C26.Driver
def main : IO Unit := LanceModel.Util.runDriver LanceModel.C26.Driver.step ()
