import LanceModel.C26.WordLemmas
import LanceModel.C26.FrameLemmas
/-! byte packing and the flat (value) mini-block encoder -/
namespace LanceModel.C26

/-! ### utils/bytepack.rs -/

theorem byteUnpack_encodeWords (n : Nat) (hn : 0 < n) (vs : List Nat) (h : ∀ v ∈ vs, v < 256 ^ n) :
    ∀ fuel, vs.length < fuel → byteUnpack n fuel (encodeWords n vs) = .ok vs := by
  induction vs with
  | nil =>
    intro fuel hf
    cases fuel with
    | zero => omega
    | succ f => simp [byteUnpack, encodeWords]
  | cons v vs ih =>
    intro fuel hf
    cases fuel with
    | zero => omega
    | succ f =>
      have hl := toLE_length n v
      have hne : (encodeWords n (v :: vs)).isEmpty = false := by
        rw [encodeWords_cons]
        cases hh : toLE n v with
        | nil => rw [hh] at hl; simp at hl; omega
        | cons a b => simp
      have hlen : ¬ (encodeWords n (v :: vs)).length < n := by
        rw [encodeWords_cons, List.length_append, hl]; omega
      simp only [byteUnpack, hne, Bool.false_eq_true, if_false, hlen]
      rw [encodeWords_cons, List.take_left' hl, List.drop_left' hl, fromLE_toLE n v (h v (by simp)),
        ih (fun w hw => h w (by simp [hw])) f (by simp at hf; omega)]

theorem bytepackWidth_fits (mx v : Nat) (h0 : mx ≠ 0) (h64 : mx < 2 ^ 64) (hv : v ≤ mx) :
    0 < bytepackWidth mx ∧ v < 256 ^ bytepackWidth mx := by
  unfold bytepackWidth
  simp only [h0, if_false]
  split
  · exact ⟨by omega, by omega⟩
  · split
    · exact ⟨by omega, by omega⟩
    · split
      · exact ⟨by omega, by omega⟩
      · exact ⟨by omega, by omega⟩

/-! ### value.rs: ValueEncoder::chunk_data -/

theorem flatGrow_inv (bpv : Nat) : ∀ (fuel log size vals : Nat), size = vals * bpv → vals = 2 ^ log → 1 ≤ log →
    size < MAX_MINIBLOCK_BYTES → vals ≤ MAX_MINIBLOCK_VALUES →
    (flatGrow fuel log size vals).2 = 2 ^ (flatGrow fuel log size vals).1 ∧ 1 ≤ (flatGrow fuel log size vals).1 ∧
    (flatGrow fuel log size vals).2 * bpv < MAX_MINIBLOCK_BYTES ∧ (flatGrow fuel log size vals).2 ≤ MAX_MINIBLOCK_VALUES := by
  intro fuel
  induction fuel with
  | zero => intro log size vals h1 h2 h3 h4 h5; simp only [flatGrow]; subst h1; exact ⟨h2, h3, h4, h5⟩
  | succ f ih =>
    intro log size vals h1 h2 h3 h4 h5
    simp only [flatGrow]
    split
    · rename_i hc
      apply ih
      · subst h1; rw [Nat.mul_assoc]
      · rw [h2, Nat.pow_succ]; omega
      · omega
      · exact hc.1
      · exact hc.2
    · subst h1; exact ⟨h2, h3, h4, h5⟩

theorem flatValsPerChunk_spec (bpv : Nat) (h : 2 * bpv < MAX_MINIBLOCK_BYTES) :
    (flatValsPerChunk bpv).2 = 2 ^ (flatValsPerChunk bpv).1 ∧ 1 ≤ (flatValsPerChunk bpv).1 ∧
    (flatValsPerChunk bpv).2 * bpv < MAX_MINIBLOCK_BYTES ∧ (flatValsPerChunk bpv).2 ≤ MAX_MINIBLOCK_VALUES := by
  unfold flatValsPerChunk
  exact flatGrow_inv bpv 13 1 (2 * bpv) 2 rfl rfl (by omega) h (by simp [MAX_MINIBLOCK_VALUES])

theorem flatChunks_spec (bpv logv vpc total : Nat) (hv : vpc = 2 ^ logv) (hl : 1 ≤ logv) :
    ∀ (fuel remaining : Nat) (d : List Nat) (prev : Nat), remaining < fuel → prev + remaining = total →
      d.length = remaining * bpv →
      decodeChunks flatDecodeChunk total prev [d] (flatChunks bpv logv vpc fuel remaining) = .ok d ∧
      (∀ c ∈ flatChunks bpv logv vpc fuel remaining, c.sizes.sum ≤ vpc * bpv) ∧
      (∀ n ∈ chunkCounts total prev (flatChunks bpv logv vpc fuel remaining), 0 < n ∧ n ≤ vpc) ∧
      (chunkCounts total prev (flatChunks bpv logv vpc fuel remaining)).sum = remaining := by
  have hvpos : 0 < vpc := by rw [hv]; exact Nat.pow_pos (by omega)
  intro fuel
  induction fuel with
  | zero => intro remaining d prev hf; omega
  | succ f ih =>
    intro remaining d prev hf hsum hd
    simp only [flatChunks]
    split
    · rename_i hge
      have hlog : logv ≠ 0 := by omega
      have hnv : (⟨[vpc * bpv], logv⟩ : Chunk).numValues prev total = vpc := by
        simp [Chunk.numValues, hlog, hv]
      have hdl : (d.drop (vpc * bpv)).length = (remaining - vpc) * bpv := by
        simp only [List.length_drop, hd, Nat.sub_mul]
      obtain ⟨i1, i2, i3, i4⟩ := ih (remaining - vpc) (d.drop (vpc * bpv)) (prev + vpc) (by omega) (by omega) hdl
      refine ⟨?_, ?_, ?_, ?_⟩
      · simp only [decodeChunks, hnv, List.zipWith_cons_cons, List.zipWith_nil_right, flatDecodeChunk,
          List.reverse_cons, List.reverse_nil, List.nil_append, i1]
        simp
      · intro c hc
        rcases List.mem_cons.mp hc with rfl | hc
        · simp
        · exact i2 c hc
      · intro n hn
        simp only [chunkCounts, hnv] at hn
        rcases List.mem_cons.mp hn with rfl | hn
        · exact ⟨hvpos, Nat.le_refl _⟩
        · exact i3 n hn
      · simp only [chunkCounts, hnv, List.sum_cons, i4]; omega
    · rename_i hlt
      split
      · rename_i hpos
        have hnv : (⟨[remaining * bpv], 0⟩ : Chunk).numValues prev total = remaining := by
          simp [Chunk.numValues]; omega
        refine ⟨?_, ?_, ?_, ?_⟩
        · simp only [decodeChunks, List.zipWith_cons_cons, List.zipWith_nil_right, flatDecodeChunk,
            List.reverse_cons, List.reverse_nil, List.nil_append]
          rw [← hd]; simp
        · intro c hc
          simp only [List.mem_singleton] at hc
          subst hc
          simp only [List.sum_cons, List.sum_nil, Nat.add_zero]
          exact Nat.mul_le_mul_right bpv (by omega)
        · intro n hn
          simp only [chunkCounts, hnv, List.mem_singleton] at hn
          subst hn; exact ⟨hpos, by omega⟩
        · simp [chunkCounts, hnv]
      · have : remaining = 0 := by omega
        subst this
        simp at hd
        simp [decodeChunks, chunkCounts, hd]

end LanceModel.C26
