import LanceModel.Util
import LanceModel.C26.Model
/-
C26 driver: one codec invocation per line, stateless.

  value lists: comma separated items `v` or `v*n` (n repetitions), `-` = empty
  rle <ts> <values>              RleMiniBlockEncoder::compress on ts-byte words
  rled <ts> <n> <vbytes> <lbytes> RleMiniBlockDecompressor::decompress on arbitrary buffers
  bss <w> <values>               ByteStreamSplitEncoder::compress on w-byte words
  bp <max> <values>              BytepackedIntegerEncoder + ByteUnpacker
  bpu <size> <bytes>             ByteUnpacker on arbitrary bytes
  flat <bpv> <nv>                ValueEncoder::chunk_data chunk table for nv values of bpv bytes
-/
namespace LanceModel.C26.Driver
open LanceModel.Util LanceModel.C26

def parseItem (s : String) : Option (List Nat) :=
  match s.splitOn "*" with
  | [v] =>
    match v.splitOn "+" with
    | [v] => v.toNat?.map (fun v => [v])
    | [v, n] => match v.toNat?, n.toNat? with
      | some v, some n => some ((List.range n).map (v + ·))
      | _, _ => none
    | _ => none
  | [v, n] => match v.toNat?, n.toNat? with
    | some v, some n => some (List.replicate n v)
    | _, _ => none
  | _ => none

def parseVals (s : String) : Option (List Nat) :=
  if s = "-" then some []
  else ((s.splitOn ",").mapM parseItem).map List.flatten

def hexDigit (n : Nat) : Char := "0123456789abcdef".toList.getD n '?'

def fnv (bs : List Nat) : UInt64 :=
  bs.foldl (fun h b => (h ^^^ UInt64.ofNat b) * 0x100000001b3) 0xcbf29ce484222325

/-- short buffers in hex, long ones as length + FNV-1a hash of the bytes -/
def showBuf (bs : List Nat) : String :=
  if bs.length ≤ 40 then
    "x" ++ String.ofList (bs.flatMap (fun b => [hexDigit (b / 16), hexDigit (b % 16)]))
  else "#" ++ toString bs.length ++ ":" ++ toString (fnv bs).toNat

def showChunk (c : Chunk) : String :=
  "/".intercalate (c.sizes.map toString) ++ "^" ++ toString c.log

def showChunks (cs : List Chunk) : String :=
  if cs.isEmpty then "-" else ";".intercalate (cs.map showChunk)

def showBufs (bs : List (List Nat)) : String :=
  if bs.isEmpty then "-" else "|".intercalate (bs.map showBuf)

def showMini (r : List (List Nat) × List Chunk) : String :=
  "chunks=" ++ showChunks r.2 ++ " bufs=" ++ showBufs r.1

def showRes (r : Res (List Nat)) : String :=
  match r with
  | .ok l => "ok " ++ showNatList l
  | .error .invalid => "err"
  | .error .panic => "panic"

def bad : String := "bad-op"

def validMeta (m : String) : Bool :=
  ["-", "none", "lz4", "zstd", "bss_on", "bss_off", "rle_always", "rle_never"].contains m

def validTs (ts : Nat) : Bool := ts = 1 || ts = 2 || ts = 4 || ts = 8

def step (s : Unit) (line : String) : Unit × String :=
  match splitTokens line with
  | ["rle", ts, vs] =>
    match ts.toNat?, parseVals vs with
    | some ts, some vs =>
      if validTs ts && vs.all (· < 256 ^ ts) then (s, showMini (rleEncode ts vs)) else (s, bad)
    | _, _ => (s, bad)
  | ["rled", ts, n, vb, lb] =>
    match ts.toNat?, n.toNat?, parseVals vb, parseVals lb with
    | some ts, some n, some vb, some lb =>
      if validTs ts then (s, showRes (rleDecodeChunk ts [vb, lb] n)) else (s, bad)
    | _, _, _, _ => (s, bad)
  | ["bss", w, vs] =>
    match w.toNat?, parseVals vs with
    | some w, some vs =>
      if (w = 4 || w = 8) && vs.all (· < 256 ^ w) then (s, showMini (bssEncode w vs.length (encodeWords w vs)))
      else (s, bad)
    | _, _ => (s, bad)
  | ["bp", mx, vs] =>
    match mx.toNat?, parseVals vs with
    | some mx, some vs =>
      (s, "w=" ++ toString (bytepackWidth mx) ++ " " ++ showBuf (bytepack mx vs))
    | _, _ => (s, bad)
  | ["bpu", size, bs] =>
    match size.toNat?, parseVals bs with
    | some size, some bs =>
      if validTs size then (s, showRes (byteUnpack size (bs.length + 1) bs)) else (s, bad)
    | _, _ => (s, bad)
  | ["flat", bpv, nv] =>
    match bpv.toNat?, nv.toNat? with
    | some bpv, some nv =>
      if 0 < bpv && bpv ≤ 4092 then (s, "chunks=" ++ showChunks (flatEncode bpv nv []).2) else (s, bad)
    | _, _ => (s, bad)
  | ["strat", ts, md, vs] =>
    -- oracle-only line: the default strategy picks the codec; the harness checks the round trip
    match ts.toNat?, parseVals vs with
    | some ts, some vs =>
      if validTs ts && vs.all (· < 256 ^ ts) && !vs.isEmpty && (md.splitOn ";").all validMeta
      then (s, "rt") else (s, bad)
    | _, _ => (s, bad)
  | _ => (s, bad)

end LanceModel.C26.Driver
