import LanceModel.Util
import LanceModel.C26.Model
/-
C26 driver: one codec invocation per line, stateless.

  value lists: comma separated items `v` or `v*n` (n repetitions), `-` = empty
  rle <ts> <values>              RleMiniBlockEncoder::compress on ts-byte words
  rled <ts> <n> <vbytes> <lbytes> RleMiniBlockDecompressor::decompress on arbitrary buffers
  bss <w> <values>               ByteStreamSplitEncoder::compress on w-byte words
  bp <max> <values>              BytepackedIntegerEncoder + ByteUnpacker
  bpu <size> <bytes>             ByteUnpacker on arbitrary bytes
  flat <bpv> <nv>                ValueEncoder::chunk_data chunk table for nv values of bpv bytes
-/
namespace LanceModel.C26.Driver
open LanceModel.Util LanceModel.C26

def parseItem (s : String) : Option (List Nat) :=
  match s.splitOn "*" with
  | [v] =>
    match v.splitOn "+" with
    | [v] => v.toNat?.map (fun v => [v])
    | [v, n] => match v.toNat?, n.toNat? with
      | some v, some n => some ((List.range n).map (v + ·))
      | _, _ => none
    | _ => none
  | [v, n] => match v.toNat?, n.toNat? with
    | some v, some n => some (List.replicate n v)
    | _, _ => none
  | _ => none

def parseVals (s : String) : Option (List Nat) :=
  if s = "-" then some []
  else ((s.splitOn ",").mapM parseItem).map List.flatten

def hexDigit (n : Nat) : Char := "0123456789abcdef".toList.getD n '?'

def fnv (bs : List Nat) : UInt64 :=
  bs.foldl (fun h b => (h ^^^ UInt64.ofNat b) * 0x100000001b3) 0xcbf29ce484222325

/-- short buffers in hex, long ones as length + FNV-1a hash of the bytes -/
def showBuf (bs : List Nat) : String :=
  if bs.length ≤ 40 then
    "x" ++ String.ofList (bs.flatMap (fun b => [hexDigit (b / 16), hexDigit (b % 16)]))
  else "#" ++ toString bs.length ++ ":" ++ toString (fnv bs).toNat

def showChunk (c : Chunk) : String :=
  "/".intercalate (c.sizes.map toString) ++ "^" ++ toString c.log

def showChunks (cs : List Chunk) : String :=
  if cs.isEmpty then "-" else ";".intercalate (cs.map showChunk)

def showBufs (bs : List (List Nat)) : String :=
  if bs.isEmpty then "-" else "|".intercalate (bs.map showBuf)

def showMini (r : List (List Nat) × List Chunk) : String :=
  "chunks=" ++ showChunks r.2 ++ " bufs=" ++ showBufs r.1

def showRes (r : Res (List Nat)) : String :=
  match r with
  | .ok l => "ok " ++ showNatList l
  | .error .invalid => "err"
  | .error .panic => "panic"

/-- items `len:seed` or `len:seed*n`; byte j of a value is (seed + 7 j) mod 256 -/
def parseVarItem (s : String) : Option (List (List Nat)) :=
  let mk (body : String) (n : Nat) : Option (List (List Nat)) :=
    match body.splitOn ":" with
    | [len, seed] => match len.toNat?, seed.toNat? with
      | some len, some seed =>
        if len > 100000 || n > 100000 then none
        else some (List.replicate n ((List.range len).map (fun j => (seed + 7 * j) % 256)))
      | _, _ => none
    | _ => none
  match s.splitOn "*" with
  | [body] => mk body 1
  | [body, n] => match n.toNat? with
    | some n => mk body n
    | none => none
  | _ => none

def parseItems (s : String) : Option (List (List Nat)) :=
  if s = "-" then some []
  else ((s.splitOn ",").mapM parseVarItem).map List.flatten

/-- canonical bytes of a list of values: 4-byte length then the bytes -/
def canonVals (vals : List (List Nat)) : List Nat := vals.flatMap (fun v => toLE 4 v.length ++ v)

def childBytes (seed j w nv : Nat) : List Nat :=
  (List.range (w * nv)).map (fun k => (seed + 17 * j + 3 * k + k / 7) % 256)

/-- a stand-in kernel that only gets the lengths right (the packed words themselves are C28's business) -/
def lenKernel (bits : Nat) : Kernel :=
  ⟨bits, fun w _ => List.replicate (1024 * w / bits) 0, fun _ _ => List.replicate 1024 0⟩

def bad : String := "bad-op"

def validMeta (m : String) : Bool :=
  ["-", "none", "lz4", "zstd", "bss_on", "bss_off", "rle_always", "rle_never"].contains m

def validTs (ts : Nat) : Bool := ts = 1 || ts = 2 || ts = 4 || ts = 8

def step (s : Unit) (line : String) : Unit × String :=
  match splitTokens line with
  | ["rle", ts, vs] =>
    match ts.toNat?, parseVals vs with
    | some ts, some vs =>
      if validTs ts && vs.all (· < 256 ^ ts) then (s, showMini (rleEncode ts vs)) else (s, bad)
    | _, _ => (s, bad)
  | ["rled", ts, n, vb, lb] =>
    match ts.toNat?, n.toNat?, parseVals vb, parseVals lb with
    | some ts, some n, some vb, some lb =>
      if validTs ts then (s, showRes (rleDecodeChunk ts [vb, lb] n)) else (s, bad)
    | _, _, _, _ => (s, bad)
  | ["bss", w, vs] =>
    match w.toNat?, parseVals vs with
    | some w, some vs =>
      if (w = 4 || w = 8) && vs.all (· < 256 ^ w) then (s, showMini (bssEncode w vs.length (encodeWords w vs)))
      else (s, bad)
    | _, _ => (s, bad)
  | ["bp", mx, vs] =>
    match mx.toNat?, parseVals vs with
    | some mx, some vs =>
      (s, "w=" ++ toString (bytepackWidth mx) ++ " " ++ showBuf (bytepack mx vs))
    | _, _ => (s, bad)
  | ["bpu", size, bs] =>
    match size.toNat?, parseVals bs with
    | some size, some bs =>
      if validTs size then (s, showRes (byteUnpack size (bs.length + 1) bs)) else (s, bad)
    | _, _ => (s, bad)
  | ["flat", bpv, nv] =>
    match bpv.toNat?, nv.toNat? with
    | some bpv, some nv =>
      if 0 < bpv && bpv ≤ 4092 then (s, "chunks=" ++ showChunks (flatEncode bpv nv []).2) else (s, bad)
    | _, _ => (s, bad)
  | ["bin", bw, items] =>
    match bw.toNat?, parseItems items with
    | some bw, some vals =>
      if bw = 4 || bw = 8 then (s, showMini (binEncode bw vals)) else (s, bad)
    | _, _ => (s, bad)
  | ["var", bw, items] =>
    match bw.toNat?, parseItems items with
    | some bw, some vals =>
      if bw = 4 || bw = 8 then (s, showBuf (varBlockEncode bw (offsetsFrom 0 vals) vals.flatten)) else (s, bad)
    | _, _ => (s, bad)
  | ["pk", widths, nv, seed] =>
    match (widths.splitOn "/").mapM (·.toNat?), nv.toNat?, seed.toNat? with
    | some ws, some nv, some seed =>
      if !ws.isEmpty && ws.all (fun w => 0 < w && w ≤ 64) && ws.sum ≤ 4092 && nv ≤ 20000 then
        (s, showMini (packedEncode (ws.zipIdx.map (fun (w, j) => (w, childBytes seed j w nv))) nv))
      else (s, bad)
    | _, _, _ => (s, bad)
  | ["dict", items] =>
    match parseItems items with
    | some vals =>
      if vals.isEmpty then (s, bad) else
      (s, "idx=" ++ showNatList (dictEncode vals).1 ++ " dict=" ++ showBuf (canonVals (dictEncode vals).2))
    | none => (s, bad)
  | ["ibp", ts, vs] =>
    match ts.toNat?, parseVals vs with
    | some ts, some vs =>
      if validTs ts && vs.all (· < 256 ^ ts) && !vs.isEmpty then
        (s, "chunks=" ++ showChunks ((ibpEncode (lenKernel (ts * 8)) vs).map (ibpChunkOf (lenKernel (ts * 8))))
          ++ " hdr=" ++ showNatList ((ibpEncode (lenKernel (ts * 8)) vs).map (·.1.headD 0)))
      else (s, bad)
    | _, _ => (s, bad)
  | ["obp", ts, cw, vs] =>
    match ts.toNat?, cw.toNat?, parseVals vs with
    | some ts, some cw, some vs =>
      if validTs ts && vs.all (· < 256 ^ ts) && !vs.isEmpty && 0 < cw && cw < ts * 8 && vs.all (· < 2 ^ cw) then
        let words := (oolEncode (lenKernel (ts * 8)) cw vs.length vs).length
        let wpc := 1024 * cw / (ts * 8)
        let kind := if vs.length % 1024 = 0 then "none"
          else if words = vs.length / 1024 * wpc + vs.length % 1024 then "raw" else "packed"
        (s, "words=" ++ toString words ++ " tail=" ++ kind)
      else (s, bad)
    | _, _, _ => (s, bad)
  | ["gen", inner, ts, vs] =>
    match ts.toNat?, parseVals vs with
    | some ts, some vs =>
      if validTs ts && vs.all (· < 256 ^ ts) && !vs.isEmpty &&
        (inner = "rle" || inner = "flat" || (inner = "bss" && (ts = 4 || ts = 8))) then (s, "rt") else (s, bad)
    | _, _ => (s, bad)
  | ["fsst", bw, items] =>
    match bw.toNat?, parseItems items with
    | some bw, some vals => if (bw = 4 || bw = 8) && !vals.isEmpty then (s, "rt") else (s, bad)
    | _, _ => (s, bad)
  | ["vstrat", bw, md, items] =>
    match bw.toNat?, parseItems items with
    | some bw, some vals =>
      if (bw = 4 || bw = 8) && !vals.isEmpty && (md.splitOn ";").all (fun m => ["-", "none", "lz4", "zstd", "fsst"].contains m)
      then (s, "rt") else (s, bad)
    | _, _ => (s, bad)
  | ["const", n, bs] =>
    match n.toNat?, parseVals bs with
    | some n, some bs =>
      if bs.all (· < 256) then
        (s, if bs.isEmpty then "allnull x" ++ toString n else "const " ++ showBuf bs ++ " x" ++ toString n)
      else (s, bad)
    | _, _ => (s, bad)
  | ["strat", ts, md, vs] =>
    -- oracle-only line: the default strategy picks the codec; the harness checks the round trip
    match ts.toNat?, parseVals vs with
    | some ts, some vs =>
      if validTs ts && vs.all (· < 256 ^ ts) && !vs.isEmpty && (md.splitOn ";").all validMeta
      then (s, "rt") else (s, bad)
    | _, _ => (s, bad)
  | _ => (s, bad)

end LanceModel.C26.Driver
