import LanceModel.C26.Model
/-! little-endian words: `fromLE ∘ toLE = id` below 256^n; blocks of words -/
namespace LanceModel.C26

theorem toLE_length (n v : Nat) : (toLE n v).length = n := by
  induction n generalizing v with
  | zero => rfl
  | succ k ih => simp [toLE, ih]

theorem toLE_lt (n v : Nat) : ∀ b ∈ toLE n v, b < 256 := by
  induction n generalizing v with
  | zero => simp [toLE]
  | succ k ih =>
    intro b hb
    simp only [toLE, List.mem_cons] at hb
    rcases hb with rfl | hb
    · omega
    · exact ih _ b hb

theorem fromLE_toLE (n v : Nat) (h : v < 256 ^ n) : fromLE (toLE n v) = v := by
  induction n generalizing v with
  | zero => simp [toLE, fromLE] at *; omega
  | succ k ih =>
    simp only [toLE, fromLE]
    have : v / 256 < 256 ^ k := by
      rw [Nat.pow_succ] at h
      exact Nat.div_lt_of_lt_mul (by rw [Nat.mul_comm]; exact h)
    rw [ih _ this]; omega

theorem encodeWords_nil (n : Nat) : encodeWords n [] = [] := rfl

theorem encodeWords_cons (n v : Nat) (vs : List Nat) :
    encodeWords n (v :: vs) = toLE n v ++ encodeWords n vs := by
  simp [encodeWords]

theorem encodeWords_append (n : Nat) (a b : List Nat) :
    encodeWords n (a ++ b) = encodeWords n a ++ encodeWords n b := by
  simp [encodeWords]

theorem encodeWords_length (n : Nat) (vs : List Nat) : (encodeWords n vs).length = n * vs.length := by
  induction vs with
  | nil => simp [encodeWords]
  | cons v vs ih => rw [encodeWords_cons, List.length_append, toLE_length, ih, List.length_cons, Nat.mul_succ]; omega

theorem encodeWords_lt (n : Nat) (vs : List Nat) : ∀ b ∈ encodeWords n vs, b < 256 := by
  intro b hb
  simp only [encodeWords, List.mem_flatMap] at hb
  obtain ⟨v, _, hb⟩ := hb
  exact toLE_lt n v b hb

/-- reading back a serialised block of words (all below 256^n) gives the words -/
theorem decodeWords_encodeWords (n : Nat) (vs : List Nat) (rest : List Nat) (h : ∀ v ∈ vs, v < 256 ^ n) :
    decodeWords n vs.length (encodeWords n vs ++ rest) = vs := by
  induction vs with
  | nil => rfl
  | cons v vs ih =>
    rw [encodeWords_cons, List.length_cons, decodeWords, List.append_assoc]
    have hl := toLE_length n v
    rw [List.take_left' hl, List.drop_left' hl, fromLE_toLE n v (h v (by simp)),
      ih (fun w hw => h w (by simp [hw]))]

theorem decodeWords_encodeWords' (n : Nat) (vs : List Nat) (h : ∀ v ∈ vs, v < 256 ^ n) :
    decodeWords n vs.length (encodeWords n vs) = vs := by
  have := decodeWords_encodeWords n vs [] h
  simpa using this

end LanceModel.C26
