import LanceModel.C26.RlePage
import LanceModel.C26.BssLemmas
import LanceModel.C26.FlatLemmas
/-!
# C26 — every compression codec is lossless; chunking respects the mini-block limits

"Each data compressor and its decompressor (value, variable, bit-packing inline and out-of-line, byte-pack,
run-length, byte-stream-split, FSST, dictionary, general LZ4/ZSTD, packed struct, constant) reproduce their input
exactly for every input block, and the chunking they choose respects the documented block size limits."

Everything below is about the model in `Model.lean`; the tie to rust/lance-encoding is the correspondence run of
`./check C26` (the model's encoder output is compared byte for byte with the Rust compressor's output).

A page is decoded the way the structural decoder does it (`decodeChunks`): every global buffer is sliced by the
chunk's `buffer_sizes`, the value count of a chunk comes from `MiniBlockChunk::num_values` (log 0 = "the rest").
-/
namespace LanceModel.C26

/-! ## words -/

/-- a block of `n`-byte words survives serialisation (`reinterpret_vec` / `borrow_to_typed_slice`) -/
theorem words_roundtrip (n : Nat) (vs : List Nat) (h : ∀ v ∈ vs, v < 256 ^ n) :
    decodeWords n vs.length (encodeWords n vs) = vs :=
  decodeWords_encodeWords' n vs h

example : decodeWords 2 3 (encodeWords 2 [1, 256, 65535]) = [1, 256, 65535] := by decide

/-! ## RLE mini-block -/

/-- RleMiniBlockEncoder / RleMiniBlockDecompressor: every block of 1/2/4/8-byte words decodes to itself,
    chunk by chunk, whatever the run structure (runs split at 255, chunks cut at the byte limit and rolled
    back to a power-of-two checkpoint, over-long last run truncated by the decoder) -/
theorem rle_dec_enc (ts : Nat) (hts : 1 ≤ ts ∧ ts ≤ 8) (data : List Nat) (hfit : ∀ v ∈ data, v < 256 ^ ts) :
    decodeChunks (rleDecodeChunk ts) data.length 0 (rleEncode ts data).1 (rleEncode ts data).2 = .ok data :=
  rle_roundtrip ts hts data hfit

/-- RLE chunk limits: ≤ MAX_MINIBLOCK_BYTES bytes, 1..2048 (≤ MAX_MINIBLOCK_VALUES) values per chunk, and the chunks
    cover exactly the block (no silent truncation: the "no valid checkpoint" exit of encode_chunk_rolling is unreachable) -/
theorem rle_chunk_limits (ts : Nat) (hts : 1 ≤ ts ∧ ts ≤ 8) (data : List Nat) (hfit : ∀ v ∈ data, v < 256 ^ ts) :
    (∀ c ∈ (rleEncode ts data).2, c.sizes.sum ≤ MAX_MINIBLOCK_BYTES) ∧
    (∀ n ∈ chunkCounts data.length 0 (rleEncode ts data).2, 0 < n ∧ n ≤ MAX_MINIBLOCK_VALUES) ∧
    (chunkCounts data.length 0 (rleEncode ts data).2).sum = data.length := by
  obtain ⟨h1, h2, h3⟩ := rle_limits ts hts data hfit
  exact ⟨h1, fun n hn => ⟨(h2 n hn).1, by have := (h2 n hn).2; simp only [MAX_MINIBLOCK_VALUES]; omega⟩, h3⟩

/-- one call of encode_chunk_rolling: the entries stand for a prefix of the input, the processed count is positive,
    a power of two ≥ 2 unless it is the last chunk, run lengths are 1..255 (fit the u8 lengths buffer) -/
theorem rle_chunk_sound (ts : Nat) (hts : ts ≤ 8) (rem : List Nat) (hne : rem ≠ []) :
    ChunkGood ts rem.length (rem.take 2048) (rleEncodeChunk ts rem) :=
  rleEncodeChunk_good ts hts rem hne

/-- the decompressor on one chunk: exactly the first `n` values of the run expansion (truncating the last run) -/
theorem rle_decode_chunk (ts : Nat) (hts : 1 ≤ ts) (runs : List (Nat × Nat)) (n : Nat)
    (hn : n ≤ (expand runs).length) (hfit : ∀ r ∈ runs, r.1 < 256 ^ ts) :
    rleDecodeChunk ts (rleChunkBufs ts runs) n = .ok ((expand runs).take n) :=
  rleDecodeChunk_ok ts hts runs n hn hfit

-- non-vacuity: a block with a run of 300 (split 255 + 45) and a singleton
set_option maxRecDepth 8000 in
example : rleEncode 1 (List.replicate 300 7 ++ [8]) = ([[7, 7, 8], [255, 45, 1]], [⟨[3, 3], 0⟩]) := by rfl
set_option maxRecDepth 8000 in
example : decodeChunks (rleDecodeChunk 1) 301 0 [[7, 7, 8], [255, 45, 1]] [⟨[3, 3], 0⟩]
    = .ok (List.replicate 300 7 ++ [8]) := by rfl
-- the decoder truncates an over-long run (what makes a rolled-back checkpoint chunk decodable)
set_option maxRecDepth 8000 in
example : rleDecodeChunk 1 [[5, 6], [200, 100]] 256 = .ok (List.replicate 200 5 ++ List.replicate 56 6) := by rfl

/-! ## byte stream split -/

/-- ByteStreamSplitEncoder / ByteStreamSplitDecompressor: for every block of `nv` values of `w` bytes -/
theorem bss_dec_enc (w nv : Nat) (d : List Nat) (hd : d.length = nv * w) :
    decodeChunks (bssDecodeChunk w) nv 0 (bssEncode w nv d).1 (bssEncode w nv d).2 = .ok d :=
  bss_roundtrip w nv d hd

theorem bss_chunk_limits (w nv : Nat) (hw : w = 4 ∨ w = 8) (d : List Nat) (hd : d.length = nv * w) :
    (∀ c ∈ (bssEncode w nv d).2, c.sizes.sum ≤ MAX_MINIBLOCK_BYTES) ∧
    (∀ n ∈ chunkCounts nv 0 (bssEncode w nv d).2, 0 < n ∧ n ≤ MAX_MINIBLOCK_VALUES) ∧
    (chunkCounts nv 0 (bssEncode w nv d).2).sum = nv := by
  obtain ⟨h1, h2, h3⟩ := bss_limits w nv hw d hd
  exact ⟨h1, fun n hn => ⟨(h2 n hn).1, by have := (h2 n hn).2; simp only [MAX_MINIBLOCK_VALUES]; omega⟩, h3⟩

example : bssEncode 4 2 [1, 2, 3, 4, 5, 6, 7, 8] = ([[1, 5, 2, 6, 3, 7, 4, 8]], [⟨[8], 0⟩]) := by decide

/-! ## byte packing -/

/-- BytepackedIntegerEncoder / ByteUnpacker: values within the declared maximum come back (non-zero maximum) -/
theorem bytepack_dec_enc (mx : Nat) (h0 : mx ≠ 0) (h64 : mx < 2 ^ 64) (vs : List Nat) (h : ∀ v ∈ vs, v ≤ mx) :
    byteUnpack (bytepackWidth mx) ((bytepack mx vs).length + 1) (bytepack mx vs) = .ok vs := by
  have hw : 0 < bytepackWidth mx := by
    unfold bytepackWidth; simp only [h0, if_false]; split <;> (try split) <;> (try split) <;> omega
  apply byteUnpack_encodeWords _ hw vs (fun v hv => (bytepackWidth_fits mx v h0 h64 (h v hv)).2)
  unfold bytepack
  rw [encodeWords_length]
  have : vs.length ≤ bytepackWidth mx * vs.length := Nat.le_mul_of_pos_left _ hw
  omega

/-- the `Zero` variant stores nothing; all values are then 0 by the precondition -/
theorem bytepack_zero (vs : List Nat) : bytepack 0 vs = [] ∧ (∀ v ∈ vs, v ≤ 0 → v = 0) := by
  refine ⟨?_, fun v _ h => by omega⟩
  induction vs with
  | nil => rfl
  | cons v vs ih => simp [bytepack, encodeWords, bytepackWidth, toLE]

example : bytepack 300 [1, 2, 300] = [1, 0, 2, 0, 44, 1] := by decide

/-! ## value (flat) -/

/-- ValueEncoder / ValueDecompressor as mini-block codec: for every block of `nv` values of `bpv` bytes
    (2·bpv below the byte limit, the code's own assertion) the chunks slice the untouched buffer back together -/
theorem flat_dec_enc (bpv nv : Nat) (hb : 2 * bpv < MAX_MINIBLOCK_BYTES) (d : List Nat) (hd : d.length = nv * bpv) :
    decodeChunks flatDecodeChunk nv 0 (flatEncode bpv nv d).1 (flatEncode bpv nv d).2 = .ok d := by
  obtain ⟨h1, h2, _, _⟩ := flatValsPerChunk_spec bpv hb
  exact (flatChunks_spec bpv _ _ nv h1 h2 (nv + 1) nv d 0 (by omega) (by omega) hd).1

theorem flat_chunk_limits (bpv nv : Nat) (hb : 2 * bpv < MAX_MINIBLOCK_BYTES) (d : List Nat) (hd : d.length = nv * bpv) :
    (∀ c ∈ (flatEncode bpv nv d).2, c.sizes.sum ≤ MAX_MINIBLOCK_BYTES) ∧
    (∀ n ∈ chunkCounts nv 0 (flatEncode bpv nv d).2, 0 < n ∧ n ≤ MAX_MINIBLOCK_VALUES) ∧
    (chunkCounts nv 0 (flatEncode bpv nv d).2).sum = nv := by
  obtain ⟨h1, h2, h3, h4⟩ := flatValsPerChunk_spec bpv hb
  obtain ⟨_, i2, i3, i4⟩ := flatChunks_spec bpv _ _ nv h1 h2 (nv + 1) nv d 0 (by omega) (by omega) hd
  exact ⟨fun c hc => by have := i2 c hc; simp only [flatEncode] at hc ⊢; omega,
    fun n hn => ⟨(i3 n hn).1, by have := (i3 n hn).2; omega⟩, i4⟩

example : (flatEncode 4 3000 []).2 = [⟨[4096], 10⟩, ⟨[4096], 10⟩, ⟨[3808], 0⟩] := by decide

end LanceModel.C26
