import LanceModel.C26.RlePage
import LanceModel.C26.BssLemmas
import LanceModel.C26.FlatLemmas
import LanceModel.C26.BinPage
import LanceModel.C26.DictLemmas
import LanceModel.C26.BitpackLemmas
import LanceModel.C26.VarLemmas
import LanceModel.C26.PackedLemmas
import LanceModel.C26.OolLemmas
/-!
# C26 — every compression codec is lossless; chunking respects the mini-block limits

"Each data compressor and its decompressor (value, variable, bit-packing inline and out-of-line, byte-pack,
run-length, byte-stream-split, FSST, dictionary, general LZ4/ZSTD, packed struct, constant) reproduce their input
exactly for every input block, and the chunking they choose respects the documented block size limits."

Everything below is about the model in `Model.lean`; the tie to rust/lance-encoding is the correspondence run of
`./check C26` (the model's encoder output is compared byte for byte with the Rust compressor's output).

A page is decoded the way the structural decoder does it (`decodeChunks`): every global buffer is sliced by the
chunk's `buffer_sizes`, the value count of a chunk comes from `MiniBlockChunk::num_values` (log 0 = "the rest").
-/
namespace LanceModel.C26

/-! ## words -/

/-- a block of `n`-byte words survives serialisation (`reinterpret_vec` / `borrow_to_typed_slice`) -/
theorem words_roundtrip (n : Nat) (vs : List Nat) (h : ∀ v ∈ vs, v < 256 ^ n) :
    decodeWords n vs.length (encodeWords n vs) = vs :=
  decodeWords_encodeWords' n vs h

example : decodeWords 2 3 (encodeWords 2 [1, 256, 65535]) = [1, 256, 65535] := by decide

/-! ## RLE mini-block -/

/-- RleMiniBlockEncoder / RleMiniBlockDecompressor: every block of 1/2/4/8-byte words decodes to itself,
    chunk by chunk, whatever the run structure (runs split at 255, chunks cut at the byte limit and rolled
    back to a power-of-two checkpoint, over-long last run truncated by the decoder) -/
theorem rle_dec_enc (ts : Nat) (hts : 1 ≤ ts ∧ ts ≤ 8) (data : List Nat) (hfit : ∀ v ∈ data, v < 256 ^ ts) :
    decodeChunks (rleDecodeChunk ts) data.length 0 (rleEncode ts data).1 (rleEncode ts data).2 = .ok data :=
  rle_roundtrip ts hts data hfit

/-- RLE chunk limits: ≤ MAX_MINIBLOCK_BYTES bytes, 1..2048 (≤ MAX_MINIBLOCK_VALUES) values per chunk, and the chunks
    cover exactly the block (no silent truncation: the "no valid checkpoint" exit of encode_chunk_rolling is unreachable) -/
theorem rle_chunk_limits (ts : Nat) (hts : 1 ≤ ts ∧ ts ≤ 8) (data : List Nat) (hfit : ∀ v ∈ data, v < 256 ^ ts) :
    (∀ c ∈ (rleEncode ts data).2, c.sizes.sum ≤ MAX_MINIBLOCK_BYTES) ∧
    (∀ n ∈ chunkCounts data.length 0 (rleEncode ts data).2, 0 < n ∧ n ≤ MAX_MINIBLOCK_VALUES) ∧
    (chunkCounts data.length 0 (rleEncode ts data).2).sum = data.length := by
  obtain ⟨h1, h2, h3⟩ := rle_limits ts hts data hfit
  exact ⟨h1, fun n hn => ⟨(h2 n hn).1, by have := (h2 n hn).2; simp only [MAX_MINIBLOCK_VALUES]; omega⟩, h3⟩

/-- one call of encode_chunk_rolling: the entries stand for a prefix of the input, the processed count is positive,
    a power of two ≥ 2 unless it is the last chunk, run lengths are 1..255 (fit the u8 lengths buffer) -/
theorem rle_chunk_sound (ts : Nat) (hts : ts ≤ 8) (rem : List Nat) (hne : rem ≠ []) :
    ChunkGood ts rem.length (rem.take 2048) (rleEncodeChunk ts rem) :=
  rleEncodeChunk_good ts hts rem hne

/-- the decompressor on one chunk: exactly the first `n` values of the run expansion (truncating the last run) -/
theorem rle_decode_chunk (ts : Nat) (hts : 1 ≤ ts) (runs : List (Nat × Nat)) (n : Nat)
    (hn : n ≤ (expand runs).length) (hfit : ∀ r ∈ runs, r.1 < 256 ^ ts) :
    rleDecodeChunk ts (rleChunkBufs ts runs) n = .ok ((expand runs).take n) :=
  rleDecodeChunk_ok ts hts runs n hn hfit

-- non-vacuity: a block with a run of 300 (split 255 + 45) and a singleton
set_option maxRecDepth 8000 in
example : rleEncode 1 (List.replicate 300 7 ++ [8]) = ([[7, 7, 8], [255, 45, 1]], [⟨[3, 3], 0⟩]) := by rfl
set_option maxRecDepth 8000 in
example : decodeChunks (rleDecodeChunk 1) 301 0 [[7, 7, 8], [255, 45, 1]] [⟨[3, 3], 0⟩]
    = .ok (List.replicate 300 7 ++ [8]) := by rfl
-- the decoder truncates an over-long run (what makes a rolled-back checkpoint chunk decodable)
set_option maxRecDepth 8000 in
example : rleDecodeChunk 1 [[5, 6], [200, 100]] 256 = .ok (List.replicate 200 5 ++ List.replicate 56 6) := by rfl

/-! ## byte stream split -/

/-- ByteStreamSplitEncoder / ByteStreamSplitDecompressor: for every block of `nv` values of `w` bytes -/
theorem bss_dec_enc (w nv : Nat) (d : List Nat) (hd : d.length = nv * w) :
    decodeChunks (bssDecodeChunk w) nv 0 (bssEncode w nv d).1 (bssEncode w nv d).2 = .ok d :=
  bss_roundtrip w nv d hd

theorem bss_chunk_limits (w nv : Nat) (hw : w = 4 ∨ w = 8) (d : List Nat) (hd : d.length = nv * w) :
    (∀ c ∈ (bssEncode w nv d).2, c.sizes.sum ≤ MAX_MINIBLOCK_BYTES) ∧
    (∀ n ∈ chunkCounts nv 0 (bssEncode w nv d).2, 0 < n ∧ n ≤ MAX_MINIBLOCK_VALUES) ∧
    (chunkCounts nv 0 (bssEncode w nv d).2).sum = nv := by
  obtain ⟨h1, h2, h3⟩ := bss_limits w nv hw d hd
  exact ⟨h1, fun n hn => ⟨(h2 n hn).1, by have := (h2 n hn).2; simp only [MAX_MINIBLOCK_VALUES]; omega⟩, h3⟩

example : bssEncode 4 2 [1, 2, 3, 4, 5, 6, 7, 8] = ([[1, 5, 2, 6, 3, 7, 4, 8]], [⟨[8], 0⟩]) := by decide

/-! ## byte packing -/

/-- BytepackedIntegerEncoder / ByteUnpacker: values within the declared maximum come back (non-zero maximum) -/
theorem bytepack_dec_enc (mx : Nat) (h0 : mx ≠ 0) (h64 : mx < 2 ^ 64) (vs : List Nat) (h : ∀ v ∈ vs, v ≤ mx) :
    byteUnpack (bytepackWidth mx) ((bytepack mx vs).length + 1) (bytepack mx vs) = .ok vs := by
  have hw : 0 < bytepackWidth mx := by
    unfold bytepackWidth; simp only [h0, if_false]; split <;> (try split) <;> (try split) <;> omega
  apply byteUnpack_encodeWords _ hw vs (fun v hv => (bytepackWidth_fits mx v h0 h64 (h v hv)).2)
  unfold bytepack
  rw [encodeWords_length]
  have : vs.length ≤ bytepackWidth mx * vs.length := Nat.le_mul_of_pos_left _ hw
  omega

/-- the `Zero` variant stores nothing; all values are then 0 by the precondition -/
theorem bytepack_zero (vs : List Nat) : bytepack 0 vs = [] ∧ (∀ v ∈ vs, v ≤ 0 → v = 0) := by
  refine ⟨?_, fun v _ h => by omega⟩
  induction vs with
  | nil => rfl
  | cons v vs ih => simp [bytepack, encodeWords, bytepackWidth, toLE]

example : bytepack 300 [1, 2, 300] = [1, 0, 2, 0, 44, 1] := by decide

/-! ## value (flat) -/

/-- ValueEncoder / ValueDecompressor as mini-block codec: for every block of `nv` values of `bpv` bytes
    (2·bpv below the byte limit, the code's own assertion) the chunks slice the untouched buffer back together -/
theorem flat_dec_enc (bpv nv : Nat) (hb : 2 * bpv < MAX_MINIBLOCK_BYTES) (d : List Nat) (hd : d.length = nv * bpv) :
    decodeChunks flatDecodeChunk nv 0 (flatEncode bpv nv d).1 (flatEncode bpv nv d).2 = .ok d := by
  obtain ⟨h1, h2, _, _⟩ := flatValsPerChunk_spec bpv hb
  exact (flatChunks_spec bpv _ _ nv h1 h2 (nv + 1) nv d 0 (by omega) (by omega) hd).1

theorem flat_chunk_limits (bpv nv : Nat) (hb : 2 * bpv < MAX_MINIBLOCK_BYTES) (d : List Nat) (hd : d.length = nv * bpv) :
    (∀ c ∈ (flatEncode bpv nv d).2, c.sizes.sum ≤ MAX_MINIBLOCK_BYTES) ∧
    (∀ n ∈ chunkCounts nv 0 (flatEncode bpv nv d).2, 0 < n ∧ n ≤ MAX_MINIBLOCK_VALUES) ∧
    (chunkCounts nv 0 (flatEncode bpv nv d).2).sum = nv := by
  obtain ⟨h1, h2, h3, h4⟩ := flatValsPerChunk_spec bpv hb
  obtain ⟨_, i2, i3, i4⟩ := flatChunks_spec bpv _ _ nv h1 h2 (nv + 1) nv d 0 (by omega) (by omega) hd
  exact ⟨fun c hc => by have := i2 c hc; simp only [flatEncode] at hc ⊢; omega,
    fun n hn => ⟨(i3 n hn).1, by have := (i3 n hn).2; omega⟩, i4⟩

example : (flatEncode 4 3000 []).2 = [⟨[4096], 10⟩, ⟨[4096], 10⟩, ⟨[3808], 0⟩] := by decide

/-! ## variable width: binary mini-block -/

/-- BinaryMiniBlockEncoder / BinaryMiniBlockDecompressor (32- and 64-bit offsets): every non-empty block of byte
    strings of at most 4000 bytes each (the strategy only uses mini-blocks for values < 256 bytes) decodes to
    itself chunk by chunk.  Holds for the code after the /repo fix of search_next_offset_idx. -/
theorem binary_dec_enc (bw : Nat) (hbw : bw = 4 ∨ bw = 8) (vals : List (List Nat)) (hne : vals ≠ [])
    (hsmall : ∀ v ∈ vals, v.length ≤ 4000) :
    decodeChunks (binDecodeChunk bw) vals.length 0 (binEncode bw vals).1 (binEncode bw vals).2 = .ok vals :=
  bin_roundtrip bw hbw vals hne hsmall

/-- binary chunk limits: every chunk ≤ MAX_MINIBLOCK_BYTES, no empty chunk, the chunks cover the block -/
theorem binary_chunk_limits (bw : Nat) (hbw : bw = 4 ∨ bw = 8) (vals : List (List Nat)) (hne : vals ≠ [])
    (hsmall : ∀ v ∈ vals, v.length ≤ 4000) :
    (∀ c ∈ (binEncode bw vals).2, c.sizes.sum ≤ MAX_MINIBLOCK_BYTES) ∧
    (chunkCounts vals.length 0 (binEncode bw vals).2).sum = vals.length ∧
    (∀ n ∈ chunkCounts vals.length 0 (binEncode bw vals).2, 0 < n) :=
  bin_limits bw hbw vals hne hsmall

/-- search_next_offset_idx: progress, range, a power of two ≥ 2 unless it reaches the end, and a chunk of at most
    MAX_MINIBLOCK_BYTES - 8 bytes unless it holds at most two values -/
theorem binary_cut_sound (offs : List Nat) (bw last : Nat) (hlast : last < offs.length - 1) :
    CutGood offs bw last (searchNext offs bw last) :=
  searchNext_good offs bw last hlast

/-- one chunk: the decompressor returns exactly the chunk's byte strings -/
theorem binary_decode_chunk (bw : Nat) (hbw : 0 < bw) (cv : List (List Nat)) (hne : cv ≠ [])
    (hfit : (cv.length + 1) * bw + cv.flatten.length < 256 ^ bw) :
    binDecodeChunk bw [binChunkBytes bw cv] cv.length = .ok cv :=
  binDecodeChunk_ok bw hbw cv hne hfit

example : binEncode 4 [[1, 8, 15], [], [9, 16, 23, 30, 37]] =
    ([[16, 0, 0, 0, 19, 0, 0, 0, 19, 0, 0, 0, 24, 0, 0, 0, 1, 8, 15, 9, 16, 23, 30, 37]], [⟨[24], 0⟩]) := by decide

/-- VariableEncoder (BlockCompressor) / BinaryBlockDecompressor, standard scheme: the header
    | bits_per_offset | bytes_start_offset | is parsed back into (bits per offset, the offsets buffer, the data buffer) -/
theorem variable_block_dec_enc (offs data : List Nat) :
    (8 + 4 * offs.length < 256 ^ 4 → varBlockDecode (varBlockEncode 4 offs data) = .ok (32, encodeWords 4 offs, data)) ∧
    (16 + 8 * offs.length < 256 ^ 8 → varBlockDecode (varBlockEncode 8 offs data) = .ok (64, encodeWords 8 offs, data)) :=
  ⟨varBlock32 offs data, varBlock64 offs data⟩

example : varBlockEncode 4 [0, 3, 3, 8] [1, 8, 15, 9, 16, 23, 30, 37] =
    [32, 0, 0, 0, 24, 0, 0, 0, 0, 0, 0, 0, 3, 0, 0, 0, 3, 0, 0, 0, 8, 0, 0, 0, 1, 8, 15, 9, 16, 23, 30, 37] := by decide

/-! ## packed struct (fixed width children) -/

/-- PackedStructFixedWidthMiniBlockEncoder's row-major zip (struct_data_block_to_fixed_width_data_block) is undone by
    PackedStructFixedWidthMiniBlockDecompressor for any number of children, widths and rows (children all hold `n` values).
    The zipped buffer is then chunked by ValueEncoder (`flat_dec_enc`). -/
theorem packed_dec_enc (children : List (Nat × List Nat)) (n : Nat) (h : Full children n) :
    packedDecodeChunk (children.map (·.1)) [packRows children n 0] n = .ok (children.map (·.2)) := by
  have := unpackChildren_eq children n h [] children rfl
  simpa [packedDecodeChunk] using this

example : packRows [(1, [1, 2, 3]), (2, [10, 11, 20, 21, 30, 31])] 3 0 = [1, 10, 11, 2, 20, 21, 3, 30, 31] := by decide

/-! ## dictionary -/

/-- dictionary_encode then lookup: the indices point at the input values; the dictionary has no duplicates -/
theorem dict_dec_enc {α : Type} [DecidableEq α] (xs : List α) :
    dictDecode (dictEncode xs).2 (dictEncode xs).1 = some xs ∧ (dictEncode xs).2.Nodup :=
  ⟨dictLoop_decode [] xs, dictLoop_nodup [] xs List.nodup_nil⟩

example : dictEncode [3, 1, 3, 5, 1] = ([0, 1, 0, 2, 1], [3, 1, 5]) := by decide

/-! ## inline bit-packing: framing around the kernel (the kernel itself is C28) -/

/-- InlineBitpacking (bitpack_chunked / unchunk): with a kernel that inverts itself on 1024-word blocks, every
    chunk (header word = bit width of the chunk, zero padded last chunk) decodes to its slice of the input, and the
    chunk table yields the slices' lengths -/
theorem inline_bitpack_dec_enc (k : Kernel) (hk : KernelOK k) (hb : k.bits ≤ 64) (xs : List Nat) (hne : xs ≠ [])
    (hfit : ∀ x ∈ xs, x < 2 ^ k.bits) :
    ∃ vals : List (List Nat), vals.length = (ibpEncode k xs).length ∧ vals.flatten = xs ∧
      (∀ pv ∈ (ibpEncode k xs).zip vals, ibpDecodeChunk k pv.1.1 pv.1.2.1 = .ok pv.2) ∧
      chunkCounts xs.length 0 ((ibpEncode k xs).map (ibpChunkOf k)) = (ibpEncode k xs).map (·.2.1) := by
  have hl : xs.length ≤ xs.length * 1024 := Nat.le_mul_of_pos_right _ (by omega)
  obtain ⟨vals, v1, v2, v3, v4, _⟩ := ibpPieces_spec k hk k.bits hb xs.length xs.length xs 0 hne hl (by omega) hfit
  exact ⟨vals, v1, v2, v3, v4⟩

/-- the documented byte limit, as stated for all word sizes and widths -/
def InlineBitpackChunkBytes_full : Prop :=
  ∀ bits w, (bits = 8 ∨ bits = 16 ∨ bits = 32 ∨ bits = 64) → w ≤ bits → ibpChunkBytes bits w ≤ MAX_MINIBLOCK_BYTES

/-- holds except for 64-bit words whose chunk needs all 64 bits -/
theorem inline_bitpack_chunk_bytes_partial (bits w : Nat) (hbits : bits = 8 ∨ bits = 16 ∨ bits = 32 ∨ bits = 64)
    (hw : w ≤ bits) (hnot : ¬ (bits = 64 ∧ w = 64)) : ibpChunkBytes bits w ≤ MAX_MINIBLOCK_BYTES :=
  ibpChunkBytes_bound bits w hbits hw hnot

/-- 1024 64-bit words of width 64: (1 + 1024) * 8 = 8200 > 8186 (known finding inline_bitpack_u64_full_width_chunk_bytes) -/
theorem inline_bitpack_chunk_bytes_counterexample : ¬ InlineBitpackChunkBytes_full := by
  intro h
  have := h 64 64 (by omega) (by omega)
  simp [ibpChunkBytes, MAX_MINIBLOCK_BYTES] at this

/-- the size formula is the size of the chunk the encoder emits -/
theorem inline_bitpack_chunk_bytes_tie (k : Kernel) (hk : KernelOK k) (hbits : k.bits = 8 ∨ k.bits = 16 ∨ k.bits = 32 ∨ k.bits = 64)
    (w : Nat) (xs : List Nat) (hx : xs.length = 1024) :
    (ibpChunkOf k (w :: k.pack w xs, 1024, 10)).sizes = [ibpChunkBytes k.bits w] := by
  have := hk.hpack_len w xs hx
  simp only [ibpChunkOf, ibpChunkBytes, List.length_cons, List.cons.injEq, and_true]
  rcases hbits with h | h | h | h <;> rw [h] at this ⊢ <;> congr 1 <;> omega

example : chunkBitWidth [0, 5, 255] = 8 ∧ chunkBitWidth [0, 0] = 0 ∧ chunkBitWidth [2 ^ 63] = 64 := by decide

/-- OutOfLineBitpacking (bitpack_out_of_line / unpack_out_of_line): whole 1024-value chunks packed at one width, the
    tail stored raw or zero padded and packed, and the decoder's guess of the tail layout from the buffer length is
    always right (a packed tail never has exactly `tail` words: packing is chosen only when it is strictly smaller) -/
theorem out_of_line_bitpack_dec_enc (k : Kernel) (hk : KernelOK k) (hb : 0 < k.bits) (w : Nat) (hw : w ≤ k.bits)
    (xs : List Nat) (hfit : ∀ x ∈ xs, x < 2 ^ w) :
    oolDecode k w (oolEncode k w (xs.length + 1) xs) xs.length = xs :=
  ool_roundtrip k hk hb w hw xs hfit

/-! ## general (LZ4 / ZSTD) wrapper, the library as a parameter -/

/-- GeneralMiniBlockDecompressor on a chunk whose first buffer was compressed by the library gives what the inner
    decompressor gives on the uncompressed chunk (`decomp (comp b) = b` assumed for the library) -/
theorem general_dec_enc {α : Type} (lib : Lib) (hl : LibOK lib) (inner : List (List Nat) → Nat → Res (List α))
    (b0 : List Nat) (rest : List (List Nat)) (n : Nat) :
    generalDecodeChunk lib inner (lib.comp b0 :: rest) n = inner (b0 :: rest) n :=
  generalDecodeChunk_ok lib hl inner b0 rest n

/-! ## the property as a whole (modelled codecs) -/

/-- C26 for the modelled codecs: lossless and within the chunk limits.  The inline bit-packing byte limit is the
    one clause the code does not meet. -/
def C26_full : Prop :=
  (∀ ts data, 1 ≤ ts ∧ ts ≤ 8 → (∀ v ∈ data, v < 256 ^ ts) →
    decodeChunks (rleDecodeChunk ts) data.length 0 (rleEncode ts data).1 (rleEncode ts data).2 = .ok data ∧
    ∀ c ∈ (rleEncode ts data).2, c.sizes.sum ≤ MAX_MINIBLOCK_BYTES) ∧
  (∀ w nv d, (w = 4 ∨ w = 8) → d.length = nv * w →
    decodeChunks (bssDecodeChunk w) nv 0 (bssEncode w nv d).1 (bssEncode w nv d).2 = .ok d ∧
    ∀ c ∈ (bssEncode w nv d).2, c.sizes.sum ≤ MAX_MINIBLOCK_BYTES) ∧
  (∀ bpv nv d, 2 * bpv < MAX_MINIBLOCK_BYTES → d.length = nv * bpv →
    decodeChunks flatDecodeChunk nv 0 (flatEncode bpv nv d).1 (flatEncode bpv nv d).2 = .ok d ∧
    ∀ c ∈ (flatEncode bpv nv d).2, c.sizes.sum ≤ MAX_MINIBLOCK_BYTES) ∧
  (∀ bw vals, (bw = 4 ∨ bw = 8) → vals ≠ [] → (∀ v ∈ vals, v.length ≤ 4000) →
    decodeChunks (binDecodeChunk bw) vals.length 0 (binEncode bw vals).1 (binEncode bw vals).2 = .ok vals ∧
    ∀ c ∈ (binEncode bw vals).2, c.sizes.sum ≤ MAX_MINIBLOCK_BYTES) ∧
  (∀ mx vs, mx ≠ 0 → mx < 2 ^ 64 → (∀ v ∈ vs, v ≤ mx) →
    byteUnpack (bytepackWidth mx) ((bytepack mx vs).length + 1) (bytepack mx vs) = .ok vs) ∧
  (∀ xs : List Nat, dictDecode (dictEncode xs).2 (dictEncode xs).1 = some xs) ∧
  InlineBitpackChunkBytes_full

/-- everything but the last clause holds; the last one holds outside (bits, w) = (64, 64) -/
theorem C26_partial :
    (∀ ts data, 1 ≤ ts ∧ ts ≤ 8 → (∀ v ∈ data, v < 256 ^ ts) →
      decodeChunks (rleDecodeChunk ts) data.length 0 (rleEncode ts data).1 (rleEncode ts data).2 = .ok data ∧
      ∀ c ∈ (rleEncode ts data).2, c.sizes.sum ≤ MAX_MINIBLOCK_BYTES) ∧
    (∀ w nv d, (w = 4 ∨ w = 8) → d.length = nv * w →
      decodeChunks (bssDecodeChunk w) nv 0 (bssEncode w nv d).1 (bssEncode w nv d).2 = .ok d ∧
      ∀ c ∈ (bssEncode w nv d).2, c.sizes.sum ≤ MAX_MINIBLOCK_BYTES) ∧
    (∀ bpv nv d, 2 * bpv < MAX_MINIBLOCK_BYTES → d.length = nv * bpv →
      decodeChunks flatDecodeChunk nv 0 (flatEncode bpv nv d).1 (flatEncode bpv nv d).2 = .ok d ∧
      ∀ c ∈ (flatEncode bpv nv d).2, c.sizes.sum ≤ MAX_MINIBLOCK_BYTES) ∧
    (∀ bw vals, (bw = 4 ∨ bw = 8) → vals ≠ [] → (∀ v ∈ vals, v.length ≤ 4000) →
      decodeChunks (binDecodeChunk bw) vals.length 0 (binEncode bw vals).1 (binEncode bw vals).2 = .ok vals ∧
      ∀ c ∈ (binEncode bw vals).2, c.sizes.sum ≤ MAX_MINIBLOCK_BYTES) ∧
    (∀ mx vs, mx ≠ 0 → mx < 2 ^ 64 → (∀ v ∈ vs, v ≤ mx) →
      byteUnpack (bytepackWidth mx) ((bytepack mx vs).length + 1) (bytepack mx vs) = .ok vs) ∧
    (∀ xs : List Nat, dictDecode (dictEncode xs).2 (dictEncode xs).1 = some xs) ∧
    (∀ bits w, (bits = 8 ∨ bits = 16 ∨ bits = 32 ∨ bits = 64) → w ≤ bits → ¬ (bits = 64 ∧ w = 64) →
      ibpChunkBytes bits w ≤ MAX_MINIBLOCK_BYTES) :=
  ⟨fun ts data h1 h2 => ⟨rle_dec_enc ts h1 data h2, (rle_chunk_limits ts h1 data h2).1⟩,
   fun w nv d h1 h2 => ⟨bss_dec_enc w nv d h2, (bss_chunk_limits w nv h1 d h2).1⟩,
   fun bpv nv d h1 h2 => ⟨flat_dec_enc bpv nv h1 d h2, (flat_chunk_limits bpv nv h1 d h2).1⟩,
   fun bw vals h1 h2 h3 => ⟨binary_dec_enc bw h1 vals h2 h3, (binary_chunk_limits bw h1 vals h2 h3).1⟩,
   fun mx vs h1 h2 h3 => bytepack_dec_enc mx h1 h2 vs h3,
   fun xs => (dict_dec_enc xs).1,
   fun bits w h1 h2 h3 => inline_bitpack_chunk_bytes_partial bits w h1 h2 h3⟩

theorem C26_counterexample : ¬ C26_full :=
  fun h => inline_bitpack_chunk_bytes_counterexample h.2.2.2.2.2.2

end LanceModel.C26
