import LanceModel.C26.Model
/-! dictionary encoding: lookup of the assigned indices gives the input; the dictionary has no duplicates -/
namespace LanceModel.C26

variable {α : Type} [DecidableEq α]

theorem indexOf_some (x : α) (d : List α) (i : Nat) (h : indexOf x d = some i) : d[i]? = some x := by
  induction d generalizing i with
  | nil => simp [indexOf] at h
  | cons y ys ih =>
    simp only [indexOf] at h
    split at h
    · rename_i hxy
      simp only [Option.some.injEq] at h
      subst h; simp [hxy]
    · cases hi : indexOf x ys with
      | none => simp [hi] at h
      | some j =>
        simp only [hi, Option.map_some, Option.some.injEq] at h
        subst h
        simpa using ih j hi

theorem indexOf_none (x : α) (d : List α) (h : indexOf x d = none) : x ∉ d := by
  induction d with
  | nil => simp
  | cons y ys ih =>
    simp only [indexOf] at h
    split at h
    · simp at h
    · rename_i hxy
      cases hi : indexOf x ys with
      | none =>
        simp only [List.mem_cons, not_or]
        exact ⟨hxy, ih hi⟩
      | some j => simp [hi] at h

theorem dictLoop_prefix (d xs : List α) : ∃ ext, (dictEncodeLoop d xs).2 = d ++ ext := by
  induction xs generalizing d with
  | nil => exact ⟨[], by simp [dictEncodeLoop]⟩
  | cons x xs ih =>
    simp only [dictEncodeLoop]
    split
    · exact ih d
    · obtain ⟨e, he⟩ := ih (d ++ [x])
      exact ⟨[x] ++ e, by rw [he]; simp⟩

theorem dictLoop_decode (d xs : List α) :
    dictDecode (dictEncodeLoop d xs).2 (dictEncodeLoop d xs).1 = some xs := by
  induction xs generalizing d with
  | nil => simp [dictEncodeLoop, dictDecode]
  | cons x xs ih =>
    simp only [dictEncodeLoop]
    split
    · rename_i i hi
      obtain ⟨e, he⟩ := dictLoop_prefix d xs
      have h1 : (dictEncodeLoop d xs).2[i]? = some x := by
        rw [he]
        have := indexOf_some x d i hi
        have hl : i < d.length := by
          rcases Nat.lt_or_ge i d.length with h | h
          · exact h
          · rw [List.getElem?_eq_none h] at this; simp at this
        rw [List.getElem?_append_left hl]; exact this
      simp only [dictDecode, h1, ih d]
    · obtain ⟨e, he⟩ := dictLoop_prefix (d ++ [x]) xs
      have h1 : (dictEncodeLoop (d ++ [x]) xs).2[d.length]? = some x := by
        rw [he, List.append_assoc, List.getElem?_append_right (Nat.le_refl _)]
        simp
      simp only [dictDecode, h1, ih (d ++ [x])]

theorem dictLoop_nodup (d xs : List α) (h : d.Nodup) : (dictEncodeLoop d xs).2.Nodup := by
  induction xs generalizing d with
  | nil => simpa [dictEncodeLoop] using h
  | cons x xs ih =>
    simp only [dictEncodeLoop]
    split
    · exact ih d h
    · rename_i hn
      apply ih
      rw [List.nodup_append]
      refine ⟨h, by simp, ?_⟩
      intro a ha b hb
      simp only [List.mem_singleton] at hb
      subst hb
      intro hab; subst hab
      exact indexOf_none _ d hn ha

end LanceModel.C26
