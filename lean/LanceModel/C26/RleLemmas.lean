import LanceModel.C26.WordLemmas
import LanceModel.C26.FrameLemmas
/-! RLE mini-block: the chunk encoder's loop invariant, chunk soundness, page round trip -/
namespace LanceModel.C26

variable {α : Type}

theorem expand_append (a b : List (α × Nat)) : expand (a ++ b) = expand a ++ expand b := by
  induction a with
  | nil => rfl
  | cons x a ih => obtain ⟨v, l⟩ := x; simp [expand, ih]

theorem expand_replicate (v : α) (k : Nat) :
    expand (List.replicate k (v, 255)) = List.replicate (255 * k) v := by
  induction k with
  | zero => rfl
  | succ k ih =>
    rw [List.replicate_succ, expand, ih, List.replicate_append_replicate]
    congr 1; omega

theorem expand_addRun (v : α) (len : Nat) : expand (addRun v len) = List.replicate len v := by
  unfold addRun
  rw [expand_append, expand_replicate]
  split
  · simp only [expand, List.append_nil, List.replicate_append_replicate]
    congr 1; omega
  · simp only [expand, List.append_nil]
    congr 1; omega

theorem addRun_length (v : α) (len : Nat) : (addRun v len).length = divCeil len 255 := by
  unfold addRun divCeil
  split <;> simp <;> omega

theorem addRun_bounds (v : α) (len : Nat) : ∀ r ∈ addRun v len, 1 ≤ r.2 ∧ r.2 ≤ 255 := by
  intro r hr
  unfold addRun at hr
  rw [List.mem_append] at hr
  rcases hr with hr | hr
  · have := List.eq_of_mem_replicate hr
    subst this; simp
  · split at hr
    · simp only [List.mem_singleton] at hr
      subst hr; simp only; omega
    · simp at hr

theorem runs_length_le (runs : List (α × Nat)) (h : ∀ r ∈ runs, 1 ≤ r.2 ∧ r.2 ≤ 255) :
    runs.length ≤ (expand runs).length := by
  induction runs with
  | nil => simp [expand]
  | cons x rs ih =>
    obtain ⟨v, l⟩ := x
    have h1 := (h (v, l) (by simp)).1
    have := ih (fun r hr => h r (by simp [hr]))
    simp only [expand, List.length_cons, List.length_append, List.length_replicate]
    simp only at h1
    omega

theorem decRuns_eq_take (runs : List (α × Nat)) (n : Nat) : decRuns runs n = (expand runs).take n := by
  induction runs generalizing n with
  | nil => simp [decRuns, expand]
  | cons x rs ih =>
    obtain ⟨v, l⟩ := x
    simp only [decRuns, expand]
    split
    · rename_i h
      rw [List.take_append, List.take_replicate]
      have : n - (List.replicate l v).length = 0 := by simp; omega
      rw [this, List.take_zero, List.append_nil]
      congr 1; omega
    · rename_i h
      rw [List.take_append, List.take_replicate, ih]
      simp only [List.length_replicate]
      congr 2; omega

/-! ### checkpoints -/

theorem mem_rleCheckpoints (ts n : Nat) (h : n ∈ rleCheckpoints ts) :
    n ∈ [64, 128, 256, 512, 1024, 2048, 4096] := by
  unfold rleCheckpoints at h
  split at h <;> simp at h ⊢ <;> omega

theorem mem_valid_pow2 (ts remaining n : Nat) (h : n ∈ validCheckpoints ts remaining) :
    isPow2 n = true ∧ 64 ≤ n ∧ n ≤ remaining := by
  unfold validCheckpoints at h
  rw [List.mem_filter] at h
  have h1 := mem_rleCheckpoints ts n h.1
  have h2 : n ≤ remaining := by simpa using h.2
  simp only [List.mem_cons, List.not_mem_nil, or_false] at h1
  rcases h1 with rfl | rfl | rfl | rfl | rfl | rfl | rfl <;> exact ⟨by decide, by omega, h2⟩

/-- the valid checkpoints are either none (then `remaining` is below 256) or start with a value ≤ 256 -/
theorem valid_head (ts remaining : Nat) :
    (validCheckpoints ts remaining = [] ∧ remaining < 256) ∨
    (∃ c t, validCheckpoints ts remaining = c :: t ∧ c ≤ 256) := by
  unfold validCheckpoints rleCheckpoints
  split
  · by_cases h : 256 ≤ remaining
    · right
      refine ⟨256, List.filter (fun p => decide (p ≤ remaining)) [512, 1024, 2048, 4096], ?_, by omega⟩
      rw [List.filter_cons, if_pos (by simpa using h)]
    · left
      refine ⟨?_, by omega⟩
      simp only [List.filter_cons, List.filter_nil]
      repeat (rw [if_neg (by simp; omega)])
  · by_cases h : 128 ≤ remaining
    · right
      refine ⟨128, List.filter (fun p => decide (p ≤ remaining)) [256, 512, 1024, 2048, 4096], ?_, by omega⟩
      rw [List.filter_cons, if_pos (by simpa using h)]
    · left
      refine ⟨?_, by omega⟩
      simp only [List.filter_cons, List.filter_nil]
      repeat (rw [if_neg (by simp; omega)])
  · by_cases h : 64 ≤ remaining
    · right
      refine ⟨64, List.filter (fun p => decide (p ≤ remaining)) [128, 256, 512, 1024, 2048, 4096], ?_, by omega⟩
      rw [List.filter_cons, if_pos (by simpa using h)]
    · left
      refine ⟨?_, by omega⟩
      simp only [List.filter_cons, List.filter_nil]
      repeat (rw [if_neg (by simp; omega)])

/-! ### the loop invariant of encode_chunk_rolling -/

structure Inv (ts remaining : Nat) (data : List α) (cur : α) (len bytes total : Nat) (runs : List (α × Nat))
    (cks : List Nat) (last : Option (List (α × Nat) × Nat)) (rest : List α) : Prop where
  hdata : expand runs ++ (List.replicate len cur ++ rest) = data
  htotal : total = (expand runs).length
  hbytes : bytes = runs.length * (ts + 1)
  hmax : bytes ≤ MAX_MINIBLOCK_BYTES
  hruns : ∀ r ∈ runs, 1 ≤ r.2 ∧ r.2 ≤ 255
  hlen : 1 ≤ len
  hlast : ∀ r n, last = some (r, n) →
    (∃ t, runs = r ++ t) ∧ n ≤ (expand r).length ∧ n ∈ validCheckpoints ts remaining
  hnone : last = none → cks = validCheckpoints ts remaining ∧ ∀ c t, cks = c :: t → total < c
  hcks : ∀ c ∈ cks, c ∈ validCheckpoints ts remaining

theorem ckpt_inv (ts remaining total : Nat) (runs : List (α × Nat)) (cks : List Nat)
    (last : Option (List (α × Nat) × Nat))
    (hlast : ∀ r n, last = some (r, n) →
      (∃ t, runs = r ++ t) ∧ n ≤ (expand r).length ∧ n ∈ validCheckpoints ts remaining)
    (hnone : last = none → cks = validCheckpoints ts remaining)
    (hcks : ∀ c ∈ cks, c ∈ validCheckpoints ts remaining)
    (htot : total = (expand runs).length) :
    (∀ r n, (ckpt total runs cks last).2 = some (r, n) →
      (∃ t, runs = r ++ t) ∧ n ≤ (expand r).length ∧ n ∈ validCheckpoints ts remaining) ∧
    ((ckpt total runs cks last).2 = none → (ckpt total runs cks last).1 = validCheckpoints ts remaining ∧
      ∀ c t, (ckpt total runs cks last).1 = c :: t → total < c) ∧
    (∀ c ∈ (ckpt total runs cks last).1, c ∈ validCheckpoints ts remaining) := by
  cases cks with
  | nil =>
    simp only [ckpt]
    exact ⟨hlast, fun h => ⟨hnone h, by simp⟩, by simp⟩
  | cons c cs =>
    simp only [ckpt]
    split
    · rename_i hc
      refine ⟨?_, by simp, fun x hx => hcks x (by simp [hx])⟩
      intro r n h
      simp only [Option.some.injEq, Prod.mk.injEq] at h
      obtain ⟨rfl, rfl⟩ := h
      exact ⟨⟨[], by simp⟩, by omega, hcks _ (by simp)⟩
    · rename_i hc
      refine ⟨hlast, fun h => ⟨hnone h, ?_⟩, hcks⟩
      intro c' t h'
      simp only [List.cons.injEq] at h'
      omega

theorem Inv.total_le {ts remaining : Nat} {data : List α} {cur : α} {len bytes total : Nat}
    {runs : List (α × Nat)} {cks : List Nat} {last : Option (List (α × Nat) × Nat)} {rest : List α}
    (h : Inv ts remaining data cur len bytes total runs cks last rest) :
    total + len + rest.length = data.length := by
  have := congrArg List.length h.hdata
  simp only [List.length_append, List.length_replicate] at this
  rw [h.htotal]; omega

/-- without a saved checkpoint fewer than 256 values have been encoded -/
theorem Inv.small_of_none {ts remaining : Nat} {data : List α} {cur : α} {len bytes total : Nat}
    {runs : List (α × Nat)} {cks : List Nat} {last : Option (List (α × Nat) × Nat)} {rest : List α}
    (h : Inv ts remaining data cur len bytes total runs cks last rest) (hdr : data.length ≤ remaining)
    (hn : last = none) : total < 256 := by
  obtain ⟨h1, h2⟩ := h.hnone hn
  have := h.total_le
  rcases valid_head ts remaining with ⟨_, hr⟩ | ⟨c, t, hv, hc⟩
  · omega
  · have := h2 c t (by rw [h1, hv]); omega

/-- the byte limit cannot trip before a checkpoint has been saved -/
theorem Inv.limit_needs_checkpoint {ts remaining : Nat} {data : List α} {cur : α} {len bytes total : Nat}
    {runs : List (α × Nat)} {cks : List Nat} {last : Option (List (α × Nat) × Nat)} {rest : List α}
    (h : Inv ts remaining data cur len bytes total runs cks last rest) (hts : ts ≤ 8)
    (hdl : data.length ≤ 2048) (hdr : data.length ≤ remaining)
    (hlim : bytes + divCeil len 255 * (ts + 1) > MAX_MINIBLOCK_BYTES) : last ≠ none := by
  intro hn
  have hs := h.small_of_none hdr hn
  have hl := h.total_le
  have hr := runs_length_le runs h.hruns
  have hb := h.hbytes
  have ht := h.htotal
  have h1 : runs.length * (ts + 1) ≤ runs.length * 9 := Nat.mul_le_mul_left _ (by omega)
  have h2 : divCeil len 255 ≤ 9 := by unfold divCeil; omega
  have h3 : divCeil len 255 * (ts + 1) ≤ 9 * 9 := Nat.mul_le_mul h2 (by omega)
  unfold MAX_MINIBLOCK_BYTES at hlim
  omega

/-- what the loop hands to the code after it -/
def OutGood (ts remaining : Nat) (data : List α) : LoopOut α → Prop
  | .ret r n => (∃ t, expand r ++ t = data) ∧ n ≤ (expand r).length ∧ n ∈ validCheckpoints ts remaining ∧
      (∀ x ∈ r, 1 ≤ x.2 ∧ x.2 ≤ 255) ∧ r.length * (ts + 1) ≤ MAX_MINIBLOCK_BYTES
  | .fin cur len bytes total runs last => ∃ cks, Inv ts remaining data cur len bytes total runs cks last []

theorem rloop_spec [DecidableEq α] (ts remaining : Nat) (data : List α) (hts : ts ≤ 8)
    (hdl : data.length ≤ 2048) (hdr : data.length ≤ remaining) :
    ∀ (rest : List α) (cur : α) (len bytes total : Nat) (runs : List (α × Nat)) (cks : List Nat)
      (last : Option (List (α × Nat) × Nat)),
      Inv ts remaining data cur len bytes total runs cks last rest →
      OutGood ts remaining data (rloop ts cur len bytes total runs cks last rest) := by
  intro rest
  induction rest with
  | nil =>
    intro cur len bytes total runs cks last h
    simp only [rloop, OutGood]
    exact ⟨cks, h⟩
  | cons v rest ih =>
    intro cur len bytes total runs cks last h
    simp only [rloop]
    split
    · -- same value: the run grows
      rename_i hv
      subst hv
      obtain ⟨k1, k2, k3⟩ := ckpt_inv ts remaining total runs cks last h.hlast (fun hn => (h.hnone hn).1) h.hcks h.htotal
      apply ih
      refine ⟨?_, h.htotal, h.hbytes, h.hmax, h.hruns, by omega, k1, k2, k3⟩
      rw [← h.hdata, List.replicate_succ']
      simp
    · split
      · -- byte limit
        rename_i hv hlim
        have hne := h.limit_needs_checkpoint hts hdl hdr hlim
        cases last with
        | none => exact absurd rfl hne
        | some p =>
          obtain ⟨r, n⟩ := p
          obtain ⟨⟨t, ht⟩, hn1, hn2⟩ := h.hlast r n rfl
          simp only [OutGood]
          refine ⟨⟨expand t ++ (List.replicate len cur ++ v :: rest), ?_⟩, hn1, hn2, ?_, ?_⟩
          · rw [← h.hdata, ht, expand_append]; simp
          · intro x hx; exact h.hruns x (by rw [ht]; simp [hx])
          · have := h.hmax
            have hb := h.hbytes
            have : r.length ≤ runs.length := by rw [ht]; simp
            have := Nat.mul_le_mul_right (ts + 1) this
            omega
      · -- flush the run
        rename_i hv hlim
        have hal := addRun_length cur len
        have hex := expand_addRun cur len
        have hlast' : ∀ r n, last = some (r, n) →
            (∃ t, runs ++ addRun cur len = r ++ t) ∧ n ≤ (expand r).length ∧ n ∈ validCheckpoints ts remaining := by
          intro r n hl
          obtain ⟨⟨t, ht⟩, hn1, hn2⟩ := h.hlast r n hl
          exact ⟨⟨t ++ addRun cur len, by rw [ht]; simp⟩, hn1, hn2⟩
        have htot' : total + len = (expand (runs ++ addRun cur len)).length := by
          rw [expand_append, hex, List.length_append, List.length_replicate, h.htotal]
        obtain ⟨k1, k2, k3⟩ := ckpt_inv ts remaining (total + len) (runs ++ addRun cur len) cks last hlast'
          (fun hn => (h.hnone hn).1) h.hcks htot'
        apply ih
        refine ⟨?_, htot', ?_, ?_, ?_, by omega, k1, k2, k3⟩
        · rw [← h.hdata, expand_append, hex]; simp
        · rw [h.hbytes, List.length_append, Nat.add_mul]
        · rw [hal]; omega
        · intro r hr
          rw [List.mem_append] at hr
          rcases hr with hr | hr
          · exact h.hruns r hr
          · exact addRun_bounds cur len r hr

/-- what one call of encode_chunk_rolling guarantees about (entries, values_processed, is_last_chunk) -/
structure ChunkGood (ts remaining : Nat) (data : List α) (out : List (α × Nat) × Nat × Bool) : Prop where
  hprefix : ∃ t, expand out.1 ++ t = data
  hn : out.2.1 ≤ (expand out.1).length
  hpos : 0 < out.2.1
  hlastc : out.2.2 = true → out.2.1 = remaining
  hpow : out.2.2 = false → isPow2 out.2.1 = true ∧ 2 ≤ out.2.1
  hruns : ∀ x ∈ out.1, 1 ≤ x.2 ∧ x.2 ≤ 255
  hbytes : out.1.length * (ts + 1) ≤ MAX_MINIBLOCK_BYTES

theorem finish_spec (ts remaining : Nat) (data : List α) (hts : ts ≤ 8)
    (hdl : data.length = min remaining 2048) (out : LoopOut α) (h : OutGood ts remaining data out) :
    ChunkGood ts remaining data (finish ts remaining out) := by
  cases out with
  | ret r n =>
    obtain ⟨h1, h2, h3, h4, h5⟩ := h
    obtain ⟨p1, p2, p3⟩ := mem_valid_pow2 ts remaining n h3
    exact ⟨h1, h2, by simp only [finish]; omega, by simp [finish], fun _ => ⟨p1, by simp only [finish]; omega⟩, h4, h5⟩
  | fin cur len bytes total runs last =>
    obtain ⟨cks, h⟩ := h
    have htl := h.total_le
    simp only [List.length_nil, Nat.add_zero] at htl
    have hex := expand_addRun cur len
    simp only [finish]
    split
    · -- pending run added
      rename_i hadd
      have hal := addRun_length cur len
      have hexp : expand (runs ++ addRun cur len) = data := by
        rw [expand_append, hex, ← h.hdata]; simp
      have hruns' : ∀ x ∈ runs ++ addRun cur len, 1 ≤ x.2 ∧ x.2 ≤ 255 := by
        intro r hr
        rw [List.mem_append] at hr
        rcases hr with hr | hr
        · exact h.hruns r hr
        · exact addRun_bounds cur len r hr
      have hbytes' : (runs ++ addRun cur len).length * (ts + 1) ≤ MAX_MINIBLOCK_BYTES := by
        rw [List.length_append, Nat.add_mul, hal, ← h.hbytes]; exact hadd.2
      have hlen := h.hlen
      simp only [finish2]
      split
      · exact ⟨⟨[], by simp [hexp]⟩, by simp [hexp]; omega, by simp only; omega, fun _ => by assumption,
          by simp, hruns', hbytes'⟩
      · rename_i hne
        have h2048 : total + len = 2048 := by omega
        split
        · rename_i hp
          exact ⟨⟨[], by simp [hexp]⟩, by simp [hexp]; omega, by simp only; omega, by simp,
            fun _ => ⟨hp, by simp only; omega⟩, hruns', hbytes'⟩
        · rename_i hp
          rw [h2048] at hp
          exact absurd (by decide : isPow2 2048 = true) hp
    · -- pending run not added: the byte limit tripped
      rename_i hadd
      have hlim : bytes + divCeil len 255 * (ts + 1) > MAX_MINIBLOCK_BYTES := by
        have := h.hlen
        by_cases hc : bytes + divCeil len 255 * (ts + 1) ≤ MAX_MINIBLOCK_BYTES
        · exact absurd ⟨by omega, hc⟩ hadd
        · omega
      have hne := h.limit_needs_checkpoint hts (by omega) (by omega) hlim
      cases last with
      | none => exact absurd rfl hne
      | some p =>
        obtain ⟨r, n⟩ := p
        obtain ⟨⟨t, ht⟩, hn1, hn2⟩ := h.hlast r n rfl
        obtain ⟨p1, p2, p3⟩ := mem_valid_pow2 ts remaining n hn2
        have hrl : (expand r).length ≤ total := by
          rw [h.htotal, ht, expand_append]; simp
        have hb : runs.length * (ts + 1) ≤ MAX_MINIBLOCK_BYTES := by rw [← h.hbytes]; exact h.hmax
        have hpre : ∃ t, expand runs ++ t = data := ⟨List.replicate len cur ++ [], h.hdata⟩
        have htot := h.htotal
        simp only [finish2]
        split
        · exact ⟨hpre, by simp only; omega, by simp only; omega, fun _ => by assumption, by simp, h.hruns, hb⟩
        · split
          · rename_i hp
            exact ⟨hpre, by simp only; omega, by simp only; omega, by simp, fun _ => ⟨hp, by simp only; omega⟩,
              h.hruns, hb⟩
          · refine ⟨⟨expand t ++ (List.replicate len cur ++ []), ?_⟩, hn1, by simp only; omega, by simp,
              fun _ => ⟨p1, by simp only; omega⟩, ?_, ?_⟩
            · rw [← h.hdata, ht, expand_append]; simp
            · intro x hx; exact h.hruns x (by rw [ht]; simp [hx])
            · have : r.length ≤ runs.length := by rw [ht]; simp
              have := Nat.mul_le_mul_right (ts + 1) this
              simp only
              omega

/-- encode_chunk_rolling on a non-empty remainder: a sound, non-empty, limit-respecting chunk -/
theorem rleEncodeChunk_good [DecidableEq α] (ts : Nat) (hts : ts ≤ 8) (rem : List α) (hne : rem ≠ []) :
    ChunkGood ts rem.length (rem.take 2048) (rleEncodeChunk ts rem) := by
  unfold rleEncodeChunk
  have hlen : (rem.take 2048).length = min rem.length 2048 := by simp [Nat.min_comm]
  cases hd : rem.take 2048 with
  | nil =>
    cases rem with
    | nil => exact absurd rfl hne
    | cons a b => simp at hd
  | cons x xs =>
    simp only
    rw [hd] at hlen
    apply finish_spec ts rem.length (x :: xs) hts hlen
    apply rloop_spec ts rem.length (x :: xs) hts (by omega) (by omega)
    refine ⟨by simp [expand], by simp [expand], by simp, by simp [MAX_MINIBLOCK_BYTES], by simp, by omega,
      by simp, ?_, by simp⟩
    intro _
    refine ⟨rfl, ?_⟩
    intro c t hc
    have := mem_valid_pow2 ts rem.length c (by rw [hc]; simp)
    omega

end LanceModel.C26
