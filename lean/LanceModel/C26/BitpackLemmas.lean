import LanceModel.C26.FrameLemmas
/-! inline bit-packing framing around the kernel; the general (LZ4/ZSTD) wrapper with the library as a parameter -/
namespace LanceModel.C26

/-- what the framing needs from the FastLanes kernel (C28's theorem `unpack_pack`): packed size and inversion -/
structure KernelOK (k : Kernel) : Prop where
  hpack_len : ∀ w xs, xs.length = 1024 → (k.pack w xs).length * k.bits = w * 1024
  hunpack : ∀ w xs, xs.length = 1024 → (∀ x ∈ xs, x < 2 ^ w) → k.unpack w (k.pack w xs) = xs

theorem bitLen_spec : ∀ fuel n, n < 2 ^ fuel → n < 2 ^ bitLen fuel n := by
  intro fuel
  induction fuel with
  | zero => intro n h; simp at h; subst h; simp [bitLen]
  | succ f ih =>
    intro n h
    simp only [bitLen]
    split
    · rename_i h0; subst h0; simp
    · have : n / 2 < 2 ^ f := by rw [Nat.pow_succ] at h; omega
      have := ih (n / 2) this
      rw [Nat.add_comm, Nat.pow_succ]; omega

theorem bitLen_le : ∀ fuel n b, n < 2 ^ b → bitLen fuel n ≤ b := by
  intro fuel
  induction fuel with
  | zero => intro n b _; simp [bitLen]
  | succ f ih =>
    intro n b h
    simp only [bitLen]
    split
    · omega
    · rename_i h0
      cases b with
      | zero => simp at h; omega
      | succ b =>
        have : n / 2 < 2 ^ b := by rw [Nat.pow_succ] at h; omega
        have := ih (n / 2) b this
        omega

theorem le_foldl_max (xs : List Nat) (init : Nat) :
    init ≤ xs.foldl max init ∧ ∀ x ∈ xs, x ≤ xs.foldl max init := by
  induction xs generalizing init with
  | nil => simp
  | cons y ys ih =>
    obtain ⟨h1, h2⟩ := ih (max init y)
    simp only [List.foldl_cons]
    refine ⟨by omega, ?_⟩
    intro x hx
    rcases List.mem_cons.mp hx with rfl | hx
    · omega
    · exact h2 x hx

theorem foldl_max_lt (xs : List Nat) (init b : Nat) (hi : init < b) (h : ∀ x ∈ xs, x < b) : xs.foldl max init < b := by
  induction xs generalizing init with
  | nil => simpa
  | cons y ys ih =>
    simp only [List.foldl_cons]
    apply ih
    · have := h y (by simp); omega
    · intro x hx; exact h x (by simp [hx])

/-- every value of a chunk is below 2^(its bit width); the width is at most the word size -/
theorem chunkBitWidth_spec (xs : List Nat) (bits : Nat) (hb : bits ≤ 64) (h : ∀ x ∈ xs, x < 2 ^ bits) :
    (∀ x ∈ xs, x < 2 ^ chunkBitWidth xs) ∧ chunkBitWidth xs ≤ bits := by
  unfold chunkBitWidth
  have hm : xs.foldl max 0 < 2 ^ bits := foldl_max_lt xs 0 _ (Nat.pow_pos (by omega)) h
  have h64 : xs.foldl max 0 < 2 ^ 64 := Nat.lt_of_lt_of_le hm (Nat.pow_le_pow_right (by omega) hb)
  refine ⟨?_, bitLen_le 64 _ bits hm⟩
  intro x hx
  have h1 := (le_foldl_max xs 0).2 x hx
  have h2 := bitLen_spec 64 _ h64
  omega

/-- InlineBitpacking::unchunk on a chunk produced by bitpack_chunked gives the chunk's values back -/
theorem ibpDecodeChunk_ok (k : Kernel) (hk : KernelOK k) (B : Nat) (hb : B ≤ 64) (c : List Nat) (hc : c.length ≤ 1024)
    (hfit : ∀ x ∈ c, x < 2 ^ B) :
    ibpDecodeChunk k (chunkBitWidth c :: k.pack (chunkBitWidth c) (c ++ List.replicate (1024 - c.length) 0)) c.length
      = .ok c := by
  obtain ⟨h1, _⟩ := chunkBitWidth_spec c B hb hfit
  have hlen : (c ++ List.replicate (1024 - c.length) 0).length = 1024 := by simp; omega
  have hall : ∀ x ∈ c ++ List.replicate (1024 - c.length) 0, x < 2 ^ chunkBitWidth c := by
    intro x hx
    rcases List.mem_append.mp hx with hx | hx
    · exact h1 x hx
    · have := List.eq_of_mem_replicate hx
      subst this; exact Nat.pow_pos (by omega)
  simp only [ibpDecodeChunk]
  rw [if_neg (by omega), if_neg (by rw [hk.hpack_len _ _ hlen]; simp), hk.hunpack _ _ hlen hall]
  simp

theorem ibpPieces_spec (k : Kernel) (hk : KernelOK k) (B : Nat) (hb : B ≤ 64) (total : Nat) :
    ∀ (fuel : Nat) (xs : List Nat) (prev : Nat), xs ≠ [] → xs.length ≤ fuel * 1024 → prev + xs.length = total →
      (∀ x ∈ xs, x < 2 ^ B) →
      ∃ vals : List (List Nat), vals.length = (ibpPieces k fuel xs).length ∧ vals.flatten = xs ∧
        (∀ pv ∈ (ibpPieces k fuel xs).zip vals, ibpDecodeChunk k pv.1.1 pv.1.2.1 = .ok pv.2) ∧
        chunkCounts total prev ((ibpPieces k fuel xs).map (ibpChunkOf k)) = (ibpPieces k fuel xs).map (·.2.1) ∧
        (∀ p ∈ ibpPieces k fuel xs, ∃ w, w ≤ B ∧ (p.1.length - 1) * k.bits = w * 1024 ∧ 1 ≤ p.1.length ∧
          0 < p.2.1 ∧ p.2.1 ≤ 1024) := by
  intro fuel
  induction fuel with
  | zero =>
    intro xs prev hne hf
    have : xs = [] := List.length_eq_zero_iff.mp (by omega)
    exact absurd this hne
  | succ f ih =>
    intro xs prev hne hf hsum hfit
    simp only [ibpPieces]
    split
    · rename_i hle
      have hpos : 0 < xs.length := List.length_pos_iff.mpr hne
      obtain ⟨_, hw⟩ := chunkBitWidth_spec xs B hb hfit
      have hlen : (xs ++ List.replicate (1024 - xs.length) 0).length = 1024 := by simp; omega
      refine ⟨[xs], rfl, by simp, ?_, ?_, ?_⟩
      · intro pv hpv
        simp only [List.zip_cons_cons, List.zip_nil_right, List.mem_singleton] at hpv
        subst hpv
        exact ibpDecodeChunk_ok k hk B hb xs hle hfit
      · simp [chunkCounts, ibpChunkOf, Chunk.numValues]; omega
      · intro p hp
        simp only [List.mem_singleton] at hp
        subst hp
        exact ⟨chunkBitWidth xs, hw, by simpa using hk.hpack_len _ _ hlen, by simp, hpos, hle⟩
    · rename_i hgt
      have htl : (xs.take 1024).length = 1024 := by simp; omega
      have hfit1 : ∀ x ∈ xs.take 1024, x < 2 ^ B := fun x hx => hfit x (List.mem_of_mem_take hx)
      obtain ⟨_, hw⟩ := chunkBitWidth_spec (xs.take 1024) B hb hfit1
      obtain ⟨vals, v1, v2, v3, v4, v5⟩ := ih (xs.drop 1024) (prev + 1024)
        (by intro h; have := congrArg List.length h; simp at this; omega)
        (by simp; omega) (by simp; omega) (fun x hx => hfit x (List.mem_of_mem_drop hx))
      refine ⟨xs.take 1024 :: vals, by simp [v1], by simp [v2], ?_, ?_, ?_⟩
      · intro pv hpv
        simp only [List.zip_cons_cons, List.mem_cons] at hpv
        rcases hpv with rfl | hpv
        · have := ibpDecodeChunk_ok k hk B hb (xs.take 1024) (by omega) hfit1
          rw [htl] at this
          simpa using this
        · exact v3 pv hpv
      · simp only [List.map_cons, chunkCounts, ibpChunkOf, Chunk.numValues]
        simp only [show (10 : Nat) ≠ 0 by omega, if_false, show 2 ^ 10 = 1024 by rfl]
        rw [v4]
      · intro p hp
        rcases List.mem_cons.mp hp with rfl | hp
        · exact ⟨_, hw, by simpa using hk.hpack_len _ _ htl, by simp, by simp, by simp⟩
        · exact v5 p hp

/-- bitpack_chunked's own size formula: within the limit except for 64-bit words of width 64 -/
theorem ibpChunkBytes_bound (bits w : Nat) (hbits : bits = 8 ∨ bits = 16 ∨ bits = 32 ∨ bits = 64)
    (hw : w ≤ bits) (hnot : ¬ (bits = 64 ∧ w = 64)) : ibpChunkBytes bits w ≤ MAX_MINIBLOCK_BYTES := by
  simp only [ibpChunkBytes, MAX_MINIBLOCK_BYTES]
  rcases hbits with rfl | rfl | rfl | rfl <;> omega

/-- the byte size of an inline bit-packed chunk: (1 + 1024·w/bits) words -/
theorem ibp_chunk_size_bound (bits w len : Nat) (hbits : bits = 8 ∨ bits = 16 ∨ bits = 32 ∨ bits = 64)
    (hw : w ≤ bits) (hlen : (len - 1) * bits = w * 1024) (h1 : 1 ≤ len) (hnot : ¬ (bits = 64 ∧ w = 64)) :
    len * (bits / 8) ≤ MAX_MINIBLOCK_BYTES := by
  simp only [MAX_MINIBLOCK_BYTES]
  rcases hbits with rfl | rfl | rfl | rfl <;> omega

/-! ### general wrapper -/

/-- the library contract assumed for LZ4 / ZSTD -/
def LibOK (lib : Lib) : Prop := ∀ b, lib.decomp (lib.comp b) = b

theorem generalDecodeChunk_ok {α : Type} (lib : Lib) (hl : LibOK lib) (inner : List (List Nat) → Nat → Res (List α))
    (b0 : List Nat) (rest : List (List Nat)) (n : Nat) :
    generalDecodeChunk lib inner (lib.comp b0 :: rest) n = inner (b0 :: rest) n := by
  simp [generalDecodeChunk, hl b0]

end LanceModel.C26
