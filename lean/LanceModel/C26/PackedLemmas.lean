import LanceModel.C26.Model
/-! packed struct (fixed width children): the row-major zip is undone child by child -/
namespace LanceModel.C26

theorem flatMap_congr' {α β : Type} {l : List α} {f g : α → List β} (h : ∀ a ∈ l, f a = g a) :
    l.flatMap f = l.flatMap g := by
  induction l with
  | nil => rfl
  | cons x xs ih =>
    simp only [List.flatMap_cons]
    rw [h x (by simp), ih (fun a ha => h a (by simp [ha]))]

/-- the bytes of value `i` of a child (width, buffer) -/
def piece (c : Nat × List Nat) (i : Nat) : List Nat := (c.2.drop (c.1 * i)).take c.1

def rowOf (children : List (Nat × List Nat)) (i : Nat) : List Nat := children.flatMap (fun c => piece c i)

theorem packRows_succ (children : List (Nat × List Nat)) (k i : Nat) :
    packRows children (k + 1) i = rowOf children i ++ packRows children k (i + 1) := rfl

/-- all children hold `n` values -/
def Full (children : List (Nat × List Nat)) (n : Nat) : Prop := ∀ c ∈ children, c.2.length = c.1 * n

theorem piece_length (c : Nat × List Nat) (n i : Nat) (h : c.2.length = c.1 * n) (hi : i < n) :
    (piece c i).length = c.1 := by
  unfold piece
  simp only [List.length_take, List.length_drop, h]
  have : c.1 * (i + 1) ≤ c.1 * n := Nat.mul_le_mul_left _ hi
  rw [Nat.mul_succ] at this
  omega

theorem rowOf_length (children : List (Nat × List Nat)) (n i : Nat) (h : Full children n) (hi : i < n) :
    (rowOf children i).length = (children.map (·.1)).sum := by
  induction children with
  | nil => simp [rowOf]
  | cons c cs ih =>
    have := ih (fun x hx => h x (by simp [hx]))
    simp only [rowOf, List.flatMap_cons, List.length_append, List.map_cons, List.sum_cons] at this ⊢
    rw [piece_length c n i (h c (by simp)) hi, this]

/-- the field at byte offset `pre` of row `j` of the packed buffer -/
theorem packed_field (children : List (Nat × List Nat)) (n : Nat) (h : Full children n) (pre w : Nat)
    (hw : pre + w ≤ (children.map (·.1)).sum) :
    ∀ (j k i : Nat), j < k → i + k ≤ n →
      ((packRows children k i).drop (pre + j * (children.map (·.1)).sum)).take w
        = ((rowOf children (i + j)).drop pre).take w := by
  intro j
  induction j with
  | zero =>
    intro k i hj hk
    cases k with
    | zero => omega
    | succ k =>
      have hl := rowOf_length children n i h (by omega)
      rw [packRows_succ]
      simp only [Nat.zero_mul, Nat.add_zero]
      rw [List.drop_append_of_le_length (by omega), List.take_append_of_le_length (by simp; omega)]
  | succ j ih =>
    intro k i hj hk
    cases k with
    | zero => omega
    | succ k =>
      have hl := rowOf_length children n i h (by omega)
      rw [packRows_succ]
      have e : pre + (j + 1) * (children.map (·.1)).sum = (rowOf children i).length + (pre + j * (children.map (·.1)).sum) := by
        rw [hl, Nat.succ_mul]; omega
      rw [e, ← List.drop_drop, List.drop_left' rfl, ih k (i + 1) (by omega) (by omega)]
      congr 3; omega

/-- the field of the child `c` sitting after the children `before` -/
theorem row_field (before after : List (Nat × List Nat)) (c : Nat × List Nat) (n i : Nat)
    (h : Full (before ++ c :: after) n) (hi : i < n) :
    ((rowOf (before ++ c :: after) i).drop (before.map (·.1)).sum).take c.1 = piece c i := by
  have hb : (rowOf before i).length = (before.map (·.1)).sum :=
    rowOf_length before n i (fun x hx => h x (by simp [hx])) hi
  have hp := piece_length c n i (h c (by simp)) hi
  have : rowOf (before ++ c :: after) i = rowOf before i ++ (piece c i ++ rowOf after i) := by
    simp [rowOf]
  rw [this, ← hb, List.drop_left' rfl, List.take_left' hp]

theorem pieces_concat (d : List Nat) (w : Nat) : ∀ (k j : Nat),
    (List.range k).flatMap (fun t => (d.drop (w * (j + t))).take w) = (d.drop (w * j)).take (w * k) := by
  intro k
  induction k with
  | zero => intro j; simp
  | succ k ih =>
    intro j
    rw [List.range_succ, List.flatMap_append, ih j]
    simp only [List.flatMap_cons, List.flatMap_nil, List.append_nil]
    have e : d.drop (w * (j + k)) = (d.drop (w * j)).drop (w * k) := by
      rw [List.drop_drop, Nat.mul_add]
    rw [e, Nat.mul_succ]
    generalize d.drop (w * j) = l
    rw [List.take_add]

theorem unpackChild_eq (R pre w : Nat) (b : List Nat) : ∀ (k j : Nat),
    unpackChild R pre w b k j = (List.range k).flatMap (fun t => (b.drop (pre + (j + t) * R)).take w) := by
  intro k
  induction k with
  | zero => intro j; simp [unpackChild]
  | succ k ih =>
    intro j
    rw [unpackChild, ih (j + 1), List.range_succ_eq_map]
    simp only [List.flatMap_cons, Nat.add_zero, List.flatMap_map]
    congr 1
    apply flatMap_congr'
    intro t _
    congr 4; omega

/-- one child comes back from the packed rows -/
theorem unpack_one (before after : List (Nat × List Nat)) (c : Nat × List Nat) (n : Nat)
    (h : Full (before ++ c :: after) n) :
    unpackChild ((before ++ c :: after).map (·.1)).sum (before.map (·.1)).sum c.1
      (packRows (before ++ c :: after) n 0) n 0 = c.2 := by
  rw [unpackChild_eq]
  have hw : (before.map (·.1)).sum + c.1 ≤ ((before ++ c :: after).map (·.1)).sum := by
    simp only [List.map_append, List.map_cons, List.sum_append, List.sum_cons]; omega
  have : (List.range n).flatMap (fun t => ((packRows (before ++ c :: after) n 0).drop
        ((before.map (·.1)).sum + (0 + t) * ((before ++ c :: after).map (·.1)).sum)).take c.1)
      = (List.range n).flatMap (fun t => (c.2.drop (c.1 * (0 + t))).take c.1) := by
    apply flatMap_congr'
    intro t ht
    rw [List.mem_range] at ht
    rw [Nat.zero_add, packed_field _ n h _ _ hw t n 0 ht (by omega), Nat.zero_add, row_field before after c n t h ht]
    rfl
  rw [this, pieces_concat c.2 c.1 n 0]
  simp only [Nat.mul_zero, List.drop_zero]
  rw [List.take_of_length_le (by rw [h c (by simp)]; exact Nat.le_refl _)]

theorem unpackChildren_eq (all : List (Nat × List Nat)) (n : Nat) (h : Full all n) :
    ∀ (before after : List (Nat × List Nat)), all = before ++ after →
      unpackChildren (all.map (·.1)).sum (packRows all n 0) n (before.map (·.1)).sum (after.map (·.1))
        = after.map (·.2) := by
  intro before after
  induction after generalizing before with
  | nil => intro _; simp [unpackChildren]
  | cons c cs ih =>
    intro hall
    simp only [List.map_cons, unpackChildren, List.cons.injEq]
    refine ⟨?_, ?_⟩
    · subst hall; exact unpack_one before cs c n h
    · have := ih (before ++ [c]) (by rw [hall]; simp)
      simpa [List.sum_append] using this

end LanceModel.C26
