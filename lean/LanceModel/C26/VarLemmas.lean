import LanceModel.C26.WordLemmas
/-! variable block: VariableEncoder (BlockCompressor) header + BinaryBlockDecompressor (standard scheme) -/
namespace LanceModel.C26

theorem varBlock32 (offs data : List Nat) (hfit : 8 + 4 * offs.length < 256 ^ 4) :
    varBlockDecode (varBlockEncode 4 offs data) = .ok (32, encodeWords 4 offs, data) := by
  have h1 : toLE 4 (4 * 8) = [32, 0, 0, 0] := by decide
  have hl2 : (toLE 4 (2 * 4 + 4 * offs.length)).length = 4 := toLE_length _ _
  have hE : (encodeWords 4 offs).length = 4 * offs.length := encodeWords_length 4 offs
  have hH : fromLE (toLE 4 (2 * 4 + 4 * offs.length)) = 8 + 4 * offs.length := by
    rw [fromLE_toLE 4 _ (by omega)]
  unfold varBlockEncode
  rw [h1]
  generalize hh : toLE 4 (2 * 4 + 4 * offs.length) = hdr2 at *
  have hb : ([32, 0, 0, 0] ++ hdr2 ++ encodeWords 4 offs ++ data) = 32 :: 0 :: 0 :: 0 :: (hdr2 ++ (encodeWords 4 offs ++ data)) := by
    simp
  rw [hb]
  unfold varBlockDecode
  have hlen : (32 :: 0 :: 0 :: 0 :: (hdr2 ++ (encodeWords 4 offs ++ data))).length = 8 + 4 * offs.length + data.length := by
    simp [hl2, hE]; omega
  have hd4 : ((32 :: 0 :: 0 :: 0 :: (hdr2 ++ (encodeWords 4 offs ++ data))).drop 4).take 4 = hdr2 := by
    simp only [List.drop_succ_cons, List.drop_zero]
    exact List.take_left' hl2
  have ht4 : fromLE ((32 :: 0 :: 0 :: 0 :: (hdr2 ++ (encodeWords 4 offs ++ data))).take 4) = 32 := by
    simp [fromLE]
  rw [if_neg (by omega)]
  rw [if_neg (by simp)]
  rw [ht4, hd4, hH]
  simp only [show 32 % 256 = 32 by rfl, if_true]
  rw [if_neg (by omega)]
  congr 1
  have e1 : (32 :: 0 :: 0 :: 0 :: (hdr2 ++ (encodeWords 4 offs ++ data))).drop 8 = encodeWords 4 offs ++ data := by
    simp only [List.drop_succ_cons]
    exact List.drop_left' hl2
  have e2 : (32 :: 0 :: 0 :: 0 :: (hdr2 ++ (encodeWords 4 offs ++ data))).drop (8 + 4 * offs.length) = data := by
    rw [← List.drop_drop, e1]
    exact List.drop_left' hE
  rw [e1, e2, List.take_left' (by omega)]

theorem varBlock64 (offs data : List Nat) (hfit : 16 + 8 * offs.length < 256 ^ 8) :
    varBlockDecode (varBlockEncode 8 offs data) = .ok (64, encodeWords 8 offs, data) := by
  have h1 : toLE 8 (8 * 8) = [64, 0, 0, 0, 0, 0, 0, 0] := by decide
  have hl2 : (toLE 8 (2 * 8 + 8 * offs.length)).length = 8 := toLE_length _ _
  have hE : (encodeWords 8 offs).length = 8 * offs.length := encodeWords_length 8 offs
  have hH : fromLE (toLE 8 (2 * 8 + 8 * offs.length)) = 16 + 8 * offs.length := by
    rw [fromLE_toLE 8 _ (by omega)]
  unfold varBlockEncode
  rw [h1]
  generalize hh : toLE 8 (2 * 8 + 8 * offs.length) = hdr2 at *
  have hb : ([64, 0, 0, 0, 0, 0, 0, 0] ++ hdr2 ++ encodeWords 8 offs ++ data)
      = 64 :: 0 :: 0 :: 0 :: 0 :: 0 :: 0 :: 0 :: (hdr2 ++ (encodeWords 8 offs ++ data)) := by
    simp
  rw [hb]
  unfold varBlockDecode
  have hlen : (64 :: 0 :: 0 :: 0 :: 0 :: 0 :: 0 :: 0 :: (hdr2 ++ (encodeWords 8 offs ++ data))).length
      = 16 + 8 * offs.length + data.length := by
    simp [hl2, hE]; omega
  have hd8 : ((64 :: 0 :: 0 :: 0 :: 0 :: 0 :: 0 :: 0 :: (hdr2 ++ (encodeWords 8 offs ++ data))).drop 8).take 8 = hdr2 := by
    simp only [List.drop_succ_cons, List.drop_zero]
    exact List.take_left' hl2
  have ht4 : fromLE ((64 :: 0 :: 0 :: 0 :: 0 :: 0 :: 0 :: 0 :: (hdr2 ++ (encodeWords 8 offs ++ data))).take 4) = 64 := by
    simp [fromLE]
  rw [if_neg (by omega)]
  rw [if_neg (by simp)]
  rw [ht4, hd8, hH]
  simp only [show 64 % 256 = 64 by rfl, show ¬ (64 = 32) by omega, if_false, if_true]
  rw [if_neg (by omega)]
  congr 1
  have e1 : (64 :: 0 :: 0 :: 0 :: 0 :: 0 :: 0 :: 0 :: (hdr2 ++ (encodeWords 8 offs ++ data))).drop 16 = encodeWords 8 offs ++ data := by
    simp only [List.drop_succ_cons]
    exact List.drop_left' hl2
  have e2 : (64 :: 0 :: 0 :: 0 :: 0 :: 0 :: 0 :: 0 :: (hdr2 ++ (encodeWords 8 offs ++ data))).drop (16 + 8 * offs.length) = data := by
    rw [← List.drop_drop, e1]
    exact List.drop_left' hE
  rw [e1, e2, List.take_left' (by omega)]

end LanceModel.C26
