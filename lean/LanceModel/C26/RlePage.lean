import LanceModel.C26.RleLemmas
/-! RLE mini-block: the page (all chunks) decodes to the input -/
namespace LanceModel.C26

theorem mem_expand_of_mem_runs {α : Type} (runs : List (α × Nat)) (h : ∀ r ∈ runs, 1 ≤ r.2 ∧ r.2 ≤ 255)
    (r : α × Nat) (hr : r ∈ runs) : r.1 ∈ expand runs := by
  induction runs with
  | nil => simp at hr
  | cons x rs ih =>
    obtain ⟨v, l⟩ := x
    simp only [expand, List.mem_append]
    rcases List.mem_cons.mp hr with rfl | hr'
    · left
      have := (h (v, l) (by simp)).1
      simp only at this
      exact List.mem_replicate.mpr ⟨by omega, rfl⟩
    · right; exact ih (fun q hq => h q (by simp [hq])) hr'

theorem zip_fst_snd {α β : Type} (l : List (α × β)) : (l.map (·.1)).zip (l.map (·.2)) = l := by
  induction l with
  | nil => rfl
  | cons x l ih => simp [ih]

/-- one chunk: the decompressor applied to the chunk's two buffers returns the first `n` values of the runs -/
theorem rleDecodeChunk_ok (ts : Nat) (hts : 1 ≤ ts) (runs : List (Nat × Nat)) (n : Nat)
    (hn : n ≤ (expand runs).length) (hfit : ∀ r ∈ runs, r.1 < 256 ^ ts) :
    rleDecodeChunk ts (rleChunkBufs ts runs) n = .ok ((expand runs).take n) := by
  unfold rleDecodeChunk rleChunkBufs
  by_cases h0 : n = 0
  · simp [h0]
  · have hne : runs ≠ [] := by
      intro h; subst h; simp [expand] at hn; exact h0 hn
    have hl : (encodeWords ts (runs.map (·.1))).length = ts * runs.length := by
      rw [encodeWords_length, List.length_map]
    have hpos : 0 < runs.length := List.length_pos_iff.mpr hne
    have hmul : 0 < ts * runs.length := Nat.mul_pos hts hpos
    simp only [h0, if_false]
    have e1 : ¬ ((encodeWords ts (runs.map (·.1))).isEmpty = true ∨ (runs.map (·.2)).isEmpty = true) := by
      rw [List.isEmpty_iff, List.isEmpty_iff]
      intro h
      rcases h with h | h
      · rw [h] at hl; simp at hl; omega
      · simp at h; exact hne h
    rw [if_neg e1, hl, Nat.mul_mod_right]
    simp only [ne_eq, not_true_eq_false, if_false, List.length_map, Nat.mul_div_cancel_left _ hts]
    have hdw : decodeWords ts runs.length (encodeWords ts (runs.map (·.1))) = runs.map (·.1) := by
      have := decodeWords_encodeWords' ts (runs.map (·.1)) (by
        intro v hv
        simp only [List.mem_map] at hv
        obtain ⟨r, hr, rfl⟩ := hv
        exact hfit r hr)
      simpa using this
    rw [hdw, zip_fst_snd, decRuns_eq_take]
    simp only [List.length_take]
    rw [if_pos (by omega)]

def rleChunkOf (ts : Nat) (p : List (Nat × Nat) × Nat × Nat) : Chunk := ⟨[ts * p.1.length, p.1.length], p.2.2⟩

def rlePieceOf (ts : Nat) (p : List (Nat × Nat) × Nat × Nat) : Piece Nat :=
  ⟨rleChunkBufs ts p.1, p.2.1, (expand p.1).take p.2.1⟩

theorem isPow2_log (n : Nat) (h : isPow2 n = true) : 2 ^ n.log2 = n := by
  unfold isPow2 at h
  simp only [Bool.and_eq_true, beq_iff_eq] at h
  exact h.2

theorem log2_pos (n : Nat) (h : 2 ≤ n) : 1 ≤ n.log2 := by
  have : n ≠ 0 := by omega
  exact (Nat.le_log2 this).mpr (by simpa using h)

theorem rlePieces_spec (ts : Nat) (hts : 1 ≤ ts ∧ ts ≤ 8) (total : Nat) :
    ∀ (fuel : Nat) (rem : List Nat) (prev : Nat), rem.length ≤ fuel → prev + rem.length = total →
      (∀ v ∈ rem, v < 256 ^ ts) →
      ((rlePieces ts fuel rem).flatMap (fun p => (expand p.1).take p.2.1) = rem) ∧
      chunkCounts total prev ((rlePieces ts fuel rem).map (rleChunkOf ts)) = (rlePieces ts fuel rem).map (·.2.1) ∧
      (∀ p ∈ rlePieces ts fuel rem,
        rleDecodeChunk ts (rleChunkBufs ts p.1) p.2.1 = .ok ((expand p.1).take p.2.1)) ∧
      (∀ p ∈ rlePieces ts fuel rem, p.1.length * (ts + 1) ≤ MAX_MINIBLOCK_BYTES ∧ 0 < p.2.1 ∧ p.2.1 ≤ 2048 ∧
        (p.2.2 ≠ 0 → p.2.1 = 2 ^ p.2.2)) ∧
      ((rlePieces ts fuel rem).map (·.2.1)).sum = rem.length := by
  intro fuel
  induction fuel with
  | zero =>
    intro rem prev hf _ _
    have : rem = [] := List.length_eq_zero_iff.mp (by omega)
    subst this
    simp [rlePieces, chunkCounts]
  | succ fuel ih =>
    intro rem prev hf hsum hfit
    by_cases hre : rem = []
    · subst hre; simp [rlePieces, chunkCounts]
    · have g := rleEncodeChunk_good ts hts.2 rem hre
      have hemp : rem.isEmpty = false := by cases rem <;> simp at hre ⊢
      obtain ⟨t, hpre⟩ := g.hprefix
      have hn := g.hn
      have hpos := g.hpos
      have hlen2048 : (expand (rleEncodeChunk ts rem).1).length ≤ 2048 := by
        have := congrArg List.length hpre
        simp only [List.length_append, List.length_take] at this
        omega
      have hnrem : (rleEncodeChunk ts rem).2.1 ≤ rem.length := by
        have := congrArg List.length hpre
        simp only [List.length_append, List.length_take] at this
        omega
      have htake : (expand (rleEncodeChunk ts rem).1).take (rleEncodeChunk ts rem).2.1
          = rem.take (rleEncodeChunk ts rem).2.1 := by
        have h1 : (rem.take 2048).take (rleEncodeChunk ts rem).2.1 = rem.take (rleEncodeChunk ts rem).2.1 := by
          rw [List.take_take]; congr 1; omega
        rw [← h1, ← hpre, List.take_append_of_le_length hn]
      have hne0 : (rleEncodeChunk ts rem).2.1 ≠ 0 := by omega
      simp only [rlePieces, hemp, Bool.false_eq_true, if_false, hne0]
      have hfit' : ∀ v ∈ rem.drop (rleEncodeChunk ts rem).2.1, v < 256 ^ ts :=
        fun v hv => hfit v (List.mem_of_mem_drop hv)
      have hdl : (rem.drop (rleEncodeChunk ts rem).2.1).length = rem.length - (rleEncodeChunk ts rem).2.1 := by simp
      obtain ⟨i1, i2, i3, i4, i5⟩ := ih (rem.drop (rleEncodeChunk ts rem).2.1) (prev + (rleEncodeChunk ts rem).2.1)
        (by omega) (by omega) hfit'
      have hruns_fit : ∀ r ∈ (rleEncodeChunk ts rem).1, r.1 < 256 ^ ts := by
        intro r hr
        have hm := mem_expand_of_mem_runs _ g.hruns r hr
        have : r.1 ∈ rem.take 2048 := by rw [← hpre]; exact List.mem_append_left _ hm
        exact hfit _ (List.mem_of_mem_take this)
      have hcount : (rleChunkOf ts ((rleEncodeChunk ts rem).1, (rleEncodeChunk ts rem).2.1,
            if (rleEncodeChunk ts rem).2.2 = true then 0 else (rleEncodeChunk ts rem).2.1.log2)).numValues prev total
          = (rleEncodeChunk ts rem).2.1 := by
        simp only [rleChunkOf, Chunk.numValues]
        cases hl : (rleEncodeChunk ts rem).2.2 with
        | true =>
          have := g.hlastc hl
          simp; omega
        | false =>
          obtain ⟨p1, p2⟩ := g.hpow hl
          have := log2_pos _ p2
          have hne : (rleEncodeChunk ts rem).2.1.log2 ≠ 0 := by omega
          simp [hne, isPow2_log _ p1]
      refine ⟨?_, ?_, ?_, ?_, ?_⟩
      rotate_left 4
      · simp only [List.map_cons, List.sum_cons, i5]; omega
      · simp only [List.flatMap_cons]
        rw [i1, htake, List.take_append_drop]
      · simp only [List.map_cons, chunkCounts, hcount, i2]
      · intro p hp
        rcases List.mem_cons.mp hp with rfl | hp
        · exact rleDecodeChunk_ok ts hts.1 _ _ hn hruns_fit
        · exact i3 p hp
      · intro p hp
        rcases List.mem_cons.mp hp with rfl | hp
        · refine ⟨g.hbytes, hpos, by simp only; omega, ?_⟩
          simp only
          cases hl : (rleEncodeChunk ts rem).2.2 with
          | true => simp
          | false =>
            obtain ⟨p1, _⟩ := g.hpow hl
            intro _
            simp [isPow2_log _ p1]
        · exact i4 p hp

end LanceModel.C26

namespace LanceModel.C26

theorem rleEncode_chunks (ts : Nat) (data : List Nat) (h : data ≠ []) :
    (rleEncode ts data).2 = (rlePieces ts data.length data).map (rleChunkOf ts) ∧
    (rleEncode ts data).1 = joinBufs 2 (((rlePieces ts data.length data).map (rlePieceOf ts)).map (·.bufs)) := by
  have : data.isEmpty = false := by cases data <;> simp at h ⊢
  simp [rleEncode, this, rleChunkOf, rlePieceOf, List.map_map, Function.comp_def]

theorem rle_roundtrip (ts : Nat) (hts : 1 ≤ ts ∧ ts ≤ 8) (data : List Nat) (hfit : ∀ v ∈ data, v < 256 ^ ts) :
    decodeChunks (rleDecodeChunk ts) data.length 0 (rleEncode ts data).1 (rleEncode ts data).2 = .ok data := by
  by_cases h : data = []
  · subst h; simp [rleEncode, decodeChunks]
  · obtain ⟨e2, e1⟩ := rleEncode_chunks ts data h
    obtain ⟨s1, s2, s3, _, _⟩ := rlePieces_spec ts hts data.length data.length data 0 (Nat.le_refl _) (by omega) hfit
    rw [e1, e2]
    have := decodeChunks_join (rleDecodeChunk ts) 2 data.length ((rlePieces ts data.length data).map (rlePieceOf ts))
      ((rlePieces ts data.length data).map (rleChunkOf ts)) 0
      (by intro p hp; simp only [List.mem_map] at hp; obtain ⟨q, _, rfl⟩ := hp; simp [rlePieceOf, rleChunkBufs])
      (by intro p hp; simp only [List.mem_map] at hp; obtain ⟨q, hq, rfl⟩ := hp; exact s3 q hq)
      (by simp [List.map_map, Function.comp_def, rleChunkOf, rlePieceOf, rleChunkBufs, encodeWords_length])
      (by rw [s2]; simp [List.map_map, Function.comp_def, rlePieceOf])
    rw [this]
    simp only [List.flatMap_map, rlePieceOf]
    rw [s1]

/-- chunk limits of the RLE page: bytes, value counts, power-of-two counts for all chunks with a non-zero log -/
theorem rle_limits (ts : Nat) (hts : 1 ≤ ts ∧ ts ≤ 8) (data : List Nat) (hfit : ∀ v ∈ data, v < 256 ^ ts) :
    (∀ c ∈ (rleEncode ts data).2, c.sizes.sum ≤ MAX_MINIBLOCK_BYTES) ∧
    (∀ n ∈ chunkCounts data.length 0 (rleEncode ts data).2, 0 < n ∧ n ≤ 2048) ∧
    (chunkCounts data.length 0 (rleEncode ts data).2).sum = data.length := by
  by_cases h : data = []
  · subst h; simp [rleEncode, chunkCounts]
  · obtain ⟨e2, _⟩ := rleEncode_chunks ts data h
    obtain ⟨s1, s2, _, s4, s5⟩ := rlePieces_spec ts hts data.length data.length data 0 (Nat.le_refl _) (by omega) hfit
    rw [e2, s2]
    refine ⟨?_, ?_, ?_⟩
    · intro c hc
      simp only [List.mem_map] at hc
      obtain ⟨p, hp, rfl⟩ := hc
      have := (s4 p hp).1
      simp only [rleChunkOf, List.sum_cons, List.sum_nil, Nat.add_zero]
      rw [Nat.mul_succ] at this
      rw [Nat.mul_comm]; exact this
    · intro n hn
      simp only [List.mem_map] at hn
      obtain ⟨p, hp, rfl⟩ := hn
      exact ⟨(s4 p hp).2.1, (s4 p hp).2.2.1⟩
    · exact s5

end LanceModel.C26
