import LanceModel.C26.BinLemmas
/-! binary mini-block: the page decodes to the input values; chunk limits for values of at most 4000 bytes -/
namespace LanceModel.C26

theorem nextMultiple_le (m a : Nat) (ha : 0 < a) : m ≤ nextMultiple m a ∧ nextMultiple m a ≤ m + a - 1 := by
  unfold nextMultiple divCeil
  have h1 := Nat.div_add_mod (m + a - 1) a
  have h2 := Nat.mod_lt (m + a - 1) ha
  rw [Nat.mul_comm] at h1
  omega

/-- every value is at most 4000 bytes long, in the language of offsets -/
theorem small_offsets (vals : List (List Nat)) (hsmall : ∀ v ∈ vals, v.length ≤ 4000) (i : Nat) :
    (offsetsFrom 0 vals).getD (i + 1) 0 - (offsetsFrom 0 vals).getD i 0 ≤ 4000 := by
  by_cases h : i + 1 ≤ vals.length
  · rw [offsetsFrom_getD 0 vals (i + 1) h, offsetsFrom_getD 0 vals i (by omega), take_drop_split vals i (i + 1) (by omega)]
    simp only [List.flatten_append, List.length_append, Nat.zero_add]
    have : ((vals.drop i).take (i + 1 - i)).flatten.length ≤ 4000 := by
      have h1 : i + 1 - i = 1 := by omega
      rw [h1]
      cases hd : vals.drop i with
      | nil => simp
      | cons v rest =>
        have hv : v ∈ vals := List.mem_of_mem_drop (by rw [hd]; simp)
        simpa using hsmall v hv
    omega
  · have : (offsetsFrom 0 vals).getD (i + 1) 0 = 0 := by
      rw [List.getD_eq_getElem?_getD, List.getElem?_eq_none (by rw [offsetsFrom_length]; omega)]
      rfl
    omega

theorem chunk_small (vals : List (List Nat)) (hsmall : ∀ v ∈ vals, v.length ≤ 4000) (bw : Nat) (hbw : bw ≤ 8)
    (a b : Nat) (h : CutGood (offsetsFrom 0 vals) bw a b) :
    chunkSize (offsetsFrom 0 vals) bw a b ≤ MAX_MINIBLOCK_BYTES - 8 := by
  rcases h.hsize with h1 | h1
  · exact h1
  · have s1 := small_offsets vals hsmall a
    have s2 := small_offsets vals hsmall (a + 1)
    have hgt := h.hgt
    simp only [chunkSize, MAX_MINIBLOCK_BYTES]
    have hb : b = a + 1 ∨ b = a + 2 := by omega
    have hm : (b - a + 1) * bw ≤ 3 * 8 := Nat.mul_le_mul (by omega) hbw
    rcases hb with rfl | rfl
    · omega
    · have : a + 1 + 1 = a + 2 := rfl
      rw [this] at s2
      omega

theorem binCuts_spec (vals : List (List Nat)) (bw : Nat) (hbw : bw = 4 ∨ bw = 8)
    (hsmall : ∀ v ∈ vals, v.length ≤ 4000) :
    ∀ (fuel last : Nat), last < vals.length → vals.length - last ≤ fuel →
      ((binCuts (offsetsFrom 0 vals) bw fuel last).flatMap (fun c => (vals.drop c.1).take (c.2 - c.1)) = vals.drop last) ∧
      chunkCounts vals.length last ((binCuts (offsetsFrom 0 vals) bw fuel last).map (binChunkOf (offsetsFrom 0 vals) bw))
        = (binCuts (offsetsFrom 0 vals) bw fuel last).map (fun c => c.2 - c.1) ∧
      (∀ c ∈ binCuts (offsetsFrom 0 vals) bw fuel last, c.1 < c.2 ∧ c.2 ≤ vals.length ∧
        chunkSize (offsetsFrom 0 vals) bw c.1 c.2 ≤ MAX_MINIBLOCK_BYTES - 8) ∧
      ((binCuts (offsetsFrom 0 vals) bw fuel last).map (fun c => c.2 - c.1)).sum = vals.length - last := by
  intro fuel
  induction fuel with
  | zero => intro last h1 h2; omega
  | succ f ih =>
    intro last hl hf
    have hlen := offsetsFrom_length 0 vals
    have g := searchNext_good (offsetsFrom 0 vals) bw last (by rw [hlen]; omega)
    have hsz := chunk_small vals hsmall bw (by rcases hbw with rfl | rfl <;> omega) last _ g
    have hgt := g.hgt
    have hle := g.hle
    rw [hlen] at hle
    simp only [Nat.add_sub_cancel] at hle
    simp only [binCuts, hlen, Nat.add_sub_cancel]
    split
    · rename_i hend
      refine ⟨?_, ?_, ?_, by simp [hend]⟩
      · simp only [List.flatMap_cons, List.flatMap_nil, List.append_nil, hend]
        rw [List.take_of_length_le (by simp)]
      · simp [chunkCounts, binChunkOf, Chunk.numValues, hlen, hend]
      · intro c hc
        simp only [List.mem_singleton] at hc
        subst hc
        exact ⟨hgt, hle, hsz⟩
    · rename_i hnend
      obtain ⟨i1, i2, i3, i4⟩ := ih (searchNext (offsetsFrom 0 vals) bw last) (by omega) (by omega)
      have hpow : ∃ j, 1 ≤ j ∧ searchNext (offsetsFrom 0 vals) bw last - last = 2 ^ j := by
        rcases g.hpow with h | h
        · rw [hlen] at h; simp only [Nat.add_sub_cancel] at h; exact absurd h hnend
        · exact h
      obtain ⟨j, hj1, hj2⟩ := hpow
      have hcount : (binChunkOf (offsetsFrom 0 vals) bw (last, searchNext (offsetsFrom 0 vals) bw last)).numValues
          last vals.length = searchNext (offsetsFrom 0 vals) bw last - last := by
        simp only [binChunkOf, Chunk.numValues, hlen, Nat.add_sub_cancel, hnend, if_false]
        rw [hj2, trailingZeros_pow j _ (lt_two_pow_self j)]
        have : j ≠ 0 := by omega
        simp [this]
      refine ⟨?_, ?_, ?_, by simp only [List.map_cons, List.sum_cons, i4]; omega⟩
      · simp only [List.flatMap_cons, i1]
        have := take_drop_split (vals.drop last) 0 (searchNext (offsetsFrom 0 vals) bw last - last) (by omega)
        simp only [List.take_zero, List.nil_append, List.drop_zero, Nat.sub_zero] at this
        have h2 : vals.drop (searchNext (offsetsFrom 0 vals) bw last)
            = (vals.drop last).drop (searchNext (offsetsFrom 0 vals) bw last - last) := by
          rw [List.drop_drop]; congr 1; omega
        rw [h2, List.take_append_drop]
      · simp only [List.map_cons, chunkCounts, hcount]
        have : last + (searchNext (offsetsFrom 0 vals) bw last - last) = searchNext (offsetsFrom 0 vals) bw last := by omega
        rw [this, i2]
      · intro c hc
        rcases List.mem_cons.mp hc with rfl | hc
        · exact ⟨hgt, hle, hsz⟩
        · exact i3 c hc

def binPieceOf (bw : Nat) (vals : List (List Nat)) (c : Nat × Nat) : Piece (List Nat) :=
  ⟨[binChunkBytes bw ((vals.drop c.1).take (c.2 - c.1))], c.2 - c.1, (vals.drop c.1).take (c.2 - c.1)⟩

theorem bin_roundtrip (bw : Nat) (hbw : bw = 4 ∨ bw = 8) (vals : List (List Nat)) (hne : vals ≠ [])
    (hsmall : ∀ v ∈ vals, v.length ≤ 4000) :
    decodeChunks (binDecodeChunk bw) vals.length 0 (binEncode bw vals).1 (binEncode bw vals).2 = .ok vals := by
  have hpos : 0 < vals.length := List.length_pos_iff.mpr hne
  have hbpos : 0 < bw := by rcases hbw with rfl | rfl <;> omega
  obtain ⟨s1, s2, s3, _⟩ := binCuts_spec vals bw hbw hsmall (vals.length + 1) 0 hpos (by omega)
  unfold binEncode
  simp only
  have hpieces : (binCuts (offsetsFrom 0 vals) bw (vals.length + 1) 0).map
      (fun c => [binChunkBytes bw ((vals.drop c.1).take (c.2 - c.1))])
      = ((binCuts (offsetsFrom 0 vals) bw (vals.length + 1) 0).map (binPieceOf bw vals)).map (·.bufs) := by
    simp [List.map_map, Function.comp_def, binPieceOf]
  rw [hpieces]
  have hslice : ∀ c ∈ binCuts (offsetsFrom 0 vals) bw (vals.length + 1) 0,
      ((vals.drop c.1).take (c.2 - c.1)).length = c.2 - c.1 ∧
      (c.2 - c.1 + 1) * bw + ((vals.drop c.1).take (c.2 - c.1)).flatten.length ≤ MAX_MINIBLOCK_BYTES - 8 := by
    intro c hc
    obtain ⟨h1, h2, h3⟩ := s3 c hc
    refine ⟨by simp; omega, ?_⟩
    rw [slice_flatten_length vals c.1 c.2 (by omega) h2]
    exact h3
  have := decodeChunks_join (binDecodeChunk bw) 1 vals.length
    ((binCuts (offsetsFrom 0 vals) bw (vals.length + 1) 0).map (binPieceOf bw vals))
    ((binCuts (offsetsFrom 0 vals) bw (vals.length + 1) 0).map (binChunkOf (offsetsFrom 0 vals) bw)) 0
    (by intro p hp; simp only [List.mem_map] at hp; obtain ⟨q, _, rfl⟩ := hp; simp [binPieceOf])
    (by
      intro p hp
      simp only [List.mem_map] at hp
      obtain ⟨c, hc, rfl⟩ := hp
      obtain ⟨h1, h2⟩ := hslice c hc
      obtain ⟨g1, g2, _⟩ := s3 c hc
      simp only [binPieceOf]
      have hcv : (vals.drop c.1).take (c.2 - c.1) ≠ [] := by
        intro h0; rw [h0] at h1; simp at h1; omega
      have := binDecodeChunk_ok bw hbpos ((vals.drop c.1).take (c.2 - c.1)) hcv (by
        rw [h1]
        simp only [MAX_MINIBLOCK_BYTES] at h2
        rcases hbw with rfl | rfl <;> omega)
      rw [h1] at this
      exact this)
    (by
      simp only [List.map_map, Function.comp_def]
      apply List.map_congr_left
      intro c hc
      obtain ⟨h1, h2⟩ := hslice c hc
      obtain ⟨g1, g2, _⟩ := s3 c hc
      simp only [binChunkOf, binPieceOf, List.map_cons, List.map_nil, List.cons.injEq, and_true]
      rw [binChunkBytes_length bw hbpos, h1, slice_flatten_length vals c.1 c.2 (by omega) g2]
      have hm := nextMultiple_le ((c.2 - c.1 + 1) * bw + ((offsetsFrom 0 vals).getD c.2 0 - (offsetsFrom 0 vals).getD c.1 0)) bw hbpos
      rw [slice_flatten_length vals c.1 c.2 (by omega) g2] at h2
      simp only [MAX_MINIBLOCK_BYTES] at h2
      apply Nat.mod_eq_of_lt
      rcases hbw with rfl | rfl <;> omega)
    (by rw [s2]; simp [List.map_map, Function.comp_def, binPieceOf])
  rw [this]
  simp only [List.flatMap_map, binPieceOf]
  rw [s1]; simp

/-- chunk limits of the binary mini-block page (values of at most 4000 bytes) -/
theorem bin_limits (bw : Nat) (hbw : bw = 4 ∨ bw = 8) (vals : List (List Nat)) (hne : vals ≠ [])
    (hsmall : ∀ v ∈ vals, v.length ≤ 4000) :
    (∀ c ∈ (binEncode bw vals).2, c.sizes.sum ≤ MAX_MINIBLOCK_BYTES) ∧
    (chunkCounts vals.length 0 (binEncode bw vals).2).sum = vals.length ∧
    (∀ n ∈ chunkCounts vals.length 0 (binEncode bw vals).2, 0 < n) := by
  have hpos : 0 < vals.length := List.length_pos_iff.mpr hne
  have hbpos : 0 < bw := by rcases hbw with rfl | rfl <;> omega
  obtain ⟨s1, s2, s3, s4⟩ := binCuts_spec vals bw hbw hsmall (vals.length + 1) 0 hpos (by omega)
  unfold binEncode
  simp only
  rw [s2]
  refine ⟨?_, ?_, ?_⟩
  · intro c hc
    simp only [List.mem_map] at hc
    obtain ⟨cut, hcut, rfl⟩ := hc
    obtain ⟨_, _, h3⟩ := s3 cut hcut
    simp only [binChunkOf, List.sum_cons, List.sum_nil, Nat.add_zero]
    have hm := nextMultiple_le ((cut.2 - cut.1 + 1) * bw + ((offsetsFrom 0 vals).getD cut.2 0 - (offsetsFrom 0 vals).getD cut.1 0)) bw hbpos
    simp only [chunkSize, MAX_MINIBLOCK_BYTES] at h3 ⊢
    have := Nat.mod_le (nextMultiple ((cut.2 - cut.1 + 1) * bw + ((offsetsFrom 0 vals).getD cut.2 0 - (offsetsFrom 0 vals).getD cut.1 0)) bw) 65536
    rcases hbw with rfl | rfl <;> omega
  · simpa using s4
  · intro n hn
    simp only [List.mem_map] at hn
    obtain ⟨cut, hcut, rfl⟩ := hn
    obtain ⟨h1, _, _⟩ := s3 cut hcut
    omega

end LanceModel.C26
