/-
C26 — compression codecs of lance-encoding, bit-exact models.

Conventions: a buffer is a `List Nat` of bytes (each < 256); a fixed-width block of `ts`-byte words is given as
the list of its words (`Nat`, each < 256^ts) and serialised little-endian by `encodeWords`.
A mini-block compressor produces global buffers plus a chunk table (`MiniBlockCompressed`); the structural
decoder slices every global buffer by the chunk's `buffer_sizes` and hands the slices plus the chunk's value
count (`MiniBlockChunk::num_values`) to the codec's `decompress` — `decodeChunks` below.

Import-free (core only) so the driver links natively.
-/
namespace LanceModel.C26

/-- rust/lance-encoding/src/encodings/logical/primitive/miniblock.rs: MAX_MINIBLOCK_BYTES = 8 * 1024 - 6 -/
def MAX_MINIBLOCK_BYTES : Nat := 8186
/-- miniblock.rs: MAX_MINIBLOCK_VALUES -/
def MAX_MINIBLOCK_VALUES : Nat := 4096

inductive Err where
  | invalid   -- Error::InvalidInput returned
  | panic     -- assert / index panic
  deriving DecidableEq, Repr

abbrev Res (α : Type) := Except Err α

/-! ## little-endian words -/

/-- `T::to_le_bytes` for a `n`-byte word -/
def toLE : Nat → Nat → List Nat
  | 0, _ => []
  | n + 1, v => v % 256 :: toLE n (v / 256)

/-- `T::from_le_bytes` -/
def fromLE : List Nat → Nat
  | [] => 0
  | b :: bs => b + 256 * fromLE bs

/-- a typed slice reinterpreted as bytes (`LanceBuffer::reinterpret_vec`, `bytemuck::bytes_of`) -/
def encodeWords (n : Nat) (vs : List Nat) : List Nat := vs.flatMap (toLE n)

/-- bytes reinterpreted as `k` words of `n` bytes (`borrow_to_typed_slice`) -/
def decodeWords (n : Nat) : Nat → List Nat → List Nat
  | 0, _ => []
  | k + 1, bs => fromLE (bs.take n) :: decodeWords n k (bs.drop n)

/-! ## mini-block framing -/

/-- miniblock.rs: MiniBlockChunk { buffer_sizes, log_num_values } -/
structure Chunk where
  sizes : List Nat
  log : Nat
  deriving DecidableEq, Repr

/-- miniblock.rs: MiniBlockChunk::num_values(vals_in_prev_blocks, total_num_values) -/
def Chunk.numValues (c : Chunk) (prev total : Nat) : Nat :=
  if c.log = 0 then total - prev else 2 ^ c.log

/-- the value counts the structural decoder assigns to the chunks of a page -/
def chunkCounts (total : Nat) : Nat → List Chunk → List Nat
  | _, [] => []
  | prev, c :: cs => c.numValues prev total :: chunkCounts total (prev + c.numValues prev total) cs

/-- global buffers = per-chunk buffers appended buffer by buffer (`nb` buffers) -/
def joinBufs (nb : Nat) : List (List (List Nat)) → List (List Nat)
  | [] => List.replicate nb []
  | p :: ps => List.zipWith (· ++ ·) p (joinBufs nb ps)

/-- structural decoder (primitive.rs, decode of a mini-block page; also `decompress_miniblock_chunks` in general.rs tests):
    slice each global buffer by the chunk's sizes, decompress with the chunk's value count, concatenate -/
def decodeChunks {α : Type} (dec : List (List Nat) → Nat → Res (List α)) (total : Nat) :
    Nat → List (List Nat) → List Chunk → Res (List α)
  | _, _, [] => .ok []
  | prev, bufs, c :: cs =>
    match dec (List.zipWith (fun b s => b.take s) bufs c.sizes) (c.numValues prev total) with
    | .error e => .error e
    | .ok a =>
      match decodeChunks dec total (prev + c.numValues prev total)
          (List.zipWith (fun b s => b.drop s) bufs c.sizes) cs with
      | .error e => .error e
      | .ok b => .ok (a ++ b)

/-- `usize::is_power_of_two` -/
def isPow2 (n : Nat) : Bool := n != 0 && 2 ^ n.log2 == n

/-- `u64::div_ceil` -/
def divCeil (a b : Nat) : Nat := (a + b - 1) / b

/-! ## RLE mini-block (rust/lance-encoding/src/encodings/physical/rle.rs) -/

/-- RleMiniBlockEncoder::add_run: a run longer than 255 becomes several entries of 255 plus the remainder -/
def addRun {α : Type} (v : α) (len : Nat) : List (α × Nat) :=
  List.replicate (len / 255) (v, 255) ++ (if len % 255 > 0 then [(v, len % 255)] else [])

/-- the values a list of (value, length) entries stands for -/
def expand {α : Type} : List (α × Nat) → List α
  | [] => []
  | (v, l) :: rs => List.replicate l v ++ expand rs

/-- encode_chunk_rolling: `checkpoints` by type size -/
def rleCheckpoints (ts : Nat) : List Nat :=
  match ts with
  | 1 => [256, 512, 1024, 2048, 4096]
  | 2 => [128, 256, 512, 1024, 2048, 4096]
  | _ => [64, 128, 256, 512, 1024, 2048, 4096]

/-- encode_chunk_rolling: `valid_checkpoints` -/
def validCheckpoints (ts remaining : Nat) : List Nat :=
  (rleCheckpoints ts).filter (fun p => p ≤ remaining)

/-- the "reached a power-of-2 checkpoint" step at the end of each loop iteration:
    returns the remaining checkpoints and the saved state -/
def ckpt {α : Type} (total : Nat) (runs : List (α × Nat)) (cks : List Nat)
    (last : Option (List (α × Nat) × Nat)) : List Nat × Option (List (α × Nat) × Nat) :=
  match cks with
  | c :: cs => if c ≤ total then (cs, some (runs, c)) else (cks, last)
  | [] => ([], last)

inductive LoopOut (α : Type) where
  /-- early `return` after rolling back to the last checkpoint -/
  | ret (runs : List (α × Nat)) (n : Nat)
  /-- the `for` loop ended (or hit `break`) with this state -/
  | fin (cur : α) (len bytes total : Nat) (runs : List (α × Nat)) (last : Option (List (α × Nat) × Nat))

/-- encode_chunk_rolling: the `for &value in typed_data[1..]` loop.
    `runs` are the entries appended to all_values/all_lengths by this chunk so far. -/
def rloop {α : Type} [DecidableEq α] (ts : Nat) :
    α → Nat → Nat → Nat → List (α × Nat) → List Nat → Option (List (α × Nat) × Nat) → List α → LoopOut α
  | cur, len, bytes, total, runs, _, last, [] => .fin cur len bytes total runs last
  | cur, len, bytes, total, runs, cks, last, v :: rest =>
    if v = cur then
      rloop ts cur (len + 1) bytes total runs (ckpt total runs cks last).1 (ckpt total runs cks last).2 rest
    else if bytes + divCeil len 255 * (ts + 1) > MAX_MINIBLOCK_BYTES then
      match last with
      | some (r, n) => .ret r n
      | none => .fin cur len bytes total runs last
    else
      rloop ts v 1 (bytes + (addRun cur len).length * (ts + 1)) (total + len) (runs ++ addRun cur len)
        (ckpt (total + len) (runs ++ addRun cur len) cks last).1
        (ckpt (total + len) (runs ++ addRun cur len) cks last).2 rest

/-- encode_chunk_rolling: after the pending run was (or was not) added -/
def finish2 {α : Type} (remaining : Nat) (runs : List (α × Nat)) (total : Nat)
    (last : Option (List (α × Nat) × Nat)) : List (α × Nat) × Nat × Bool :=
  if total = remaining then (runs, total, true)
  else if isPow2 total then (runs, total, false)
  else match last with
    | some (r, n) => (r, n, false)
    | none => ([], 0, false)   -- "No valid checkpoint, can't create a valid chunk": encode_data stops (proved unreachable)

/-- encode_chunk_rolling: the code after the loop -/
def finish {α : Type} (ts remaining : Nat) : LoopOut α → List (α × Nat) × Nat × Bool
  | .ret r n => (r, n, false)
  | .fin cur len bytes total runs last =>
    if 0 < len ∧ bytes + divCeil len 255 * (ts + 1) ≤ MAX_MINIBLOCK_BYTES then
      finish2 remaining (runs ++ addRun cur len) (total + len) last
    else finish2 remaining runs total last

/-- RleMiniBlockEncoder::encode_chunk_rolling on the not yet encoded values `rem`:
    (entries of this chunk, values_processed, is_last_chunk) -/
def rleEncodeChunk {α : Type} [DecidableEq α] (ts : Nat) (rem : List α) : List (α × Nat) × Nat × Bool :=
  match rem.take 2048 with
  | [] => ([], 0, false)
  | x :: xs => finish ts rem.length (rloop ts x 1 0 0 [] (validCheckpoints ts rem.length) none xs)

/-- RleMiniBlockEncoder::encode_data: the `while values_remaining > 0` loop; one (entries, values, log) per chunk -/
def rlePieces {α : Type} [DecidableEq α] (ts : Nat) : Nat → List α → List (List (α × Nat) × Nat × Nat)
  | 0, _ => []
  | fuel + 1, rem =>
    if rem.isEmpty then [] else
    if (rleEncodeChunk ts rem).2.1 = 0 then [] else
    ((rleEncodeChunk ts rem).1, (rleEncodeChunk ts rem).2.1,
      if (rleEncodeChunk ts rem).2.2 then 0 else (rleEncodeChunk ts rem).2.1.log2)
      :: rlePieces ts fuel (rem.drop (rleEncodeChunk ts rem).2.1)

/-- the two buffers of one chunk: values (little-endian words) and lengths (u8) -/
def rleChunkBufs (ts : Nat) (runs : List (Nat × Nat)) : List (List Nat) :=
  [encodeWords ts (runs.map (·.1)), runs.map (·.2)]

/-- RleMiniBlockEncoder::compress on a block of `ts`-byte words: (global buffers, chunk table) -/
def rleEncode (ts : Nat) (data : List Nat) : List (List Nat) × List Chunk :=
  if data.isEmpty then ([], []) else
  (joinBufs 2 ((rlePieces ts data.length data).map (fun p => rleChunkBufs ts p.1)),
   (rlePieces ts data.length data).map (fun p => ⟨[ts * p.1.length, p.1.length], p.2.2⟩))

/-- decode_generic: expand runs, truncating the run that would exceed the expected count -/
def decRuns {α : Type} : List (α × Nat) → Nat → List α
  | [], _ => []
  | (v, l) :: rs, need =>
    if l > need then List.replicate need v
    else List.replicate l v ++ decRuns rs (need - l)

/-- RleMiniBlockDecompressor::decompress (decode_data + decode_generic) on the buffers of one chunk -/
def rleDecodeChunk (ts : Nat) (bufs : List (List Nat)) (n : Nat) : Res (List Nat) :=
  if n = 0 then .ok [] else
  match bufs with
  | [vb, lb] =>
    if vb.isEmpty ∨ lb.isEmpty then .error .invalid
    else if vb.length % ts ≠ 0 then .error .invalid
    else if vb.length / ts ≠ lb.length then .error .panic
    else
      if (decRuns ((decodeWords ts (vb.length / ts) vb).zip lb) n).length = n
      then .ok (decRuns ((decodeWords ts (vb.length / ts) vb).zip lb) n)
      else .error .invalid
  | _ => .error .panic

/-! ## byte stream split (byte_stream_split.rs) -/

/-- ByteStreamSplitEncoder::max_chunk_size (bytes per value 4 → 1024, 8 → 512) -/
def bssChunkSize (w : Nat) : Nat := if w = 4 then 1024 else 512

/-- compress, inner loops: `global_buffer[chunk_offset + j * chunk_size + i] = data[(processed + i) * w + j]` -/
def bssSplit (n w : Nat) (d : List Nat) : List Nat :=
  (List.range (n * w)).map (fun k => d.getD ((k % n) * w + k / n) 0)

/-- ByteStreamSplitDecompressor::decompress: `output[i * w + j] = input[j * num_values + i]` -/
def bssMerge (n w : Nat) (b : List Nat) : List Nat :=
  (List.range (n * w)).map (fun k => b.getD ((k % w) * n + k / w) 0)

/-- compress: the `while processed_values < num_values` loop; (chunk bytes, chunk values, log_num_values):
    the chunk that reaches `num_values` gets log 0, the others `chunk_size.ilog2()` -/
def bssPieces (w : Nat) : Nat → Nat → List Nat → List (List Nat × Nat × Nat)
  | 0, _, _ => []
  | fuel + 1, nv, d =>
    if nv = 0 then [] else
    (bssSplit (min nv (bssChunkSize w)) w (d.take (min nv (bssChunkSize w) * w)), min nv (bssChunkSize w),
      if min nv (bssChunkSize w) = nv then 0 else (min nv (bssChunkSize w)).log2)
      :: bssPieces w fuel (nv - min nv (bssChunkSize w)) (d.drop (min nv (bssChunkSize w) * w))

/-- ByteStreamSplitEncoder::compress on `nv` values of `w` bytes (`d.length = nv * w`) -/
def bssEncode (w nv : Nat) (d : List Nat) : List (List Nat) × List Chunk :=
  if nv = 0 then ([], []) else
  (joinBufs 1 ((bssPieces w nv nv d).map (fun p => [p.1])),
   (bssPieces w nv nv d).map (fun p => ⟨[p.1.length], p.2.2⟩))

/-- ByteStreamSplitDecompressor::decompress -/
def bssDecodeChunk (w : Nat) (bufs : List (List Nat)) (n : Nat) : Res (List Nat) :=
  if n = 0 then .ok [] else
  match bufs with
  | [b] => if b.length ≠ n * w then .error .invalid else .ok (bssMerge n w b)
  | _ => .error .invalid

/-! ## byte packing (utils/bytepack.rs) -/

/-- BytepackedIntegerEncoder::with_capacity: bytes per value chosen from `max_value` (0 = the `Zero` variant) -/
def bytepackWidth (maxValue : Nat) : Nat :=
  if maxValue = 0 then 0
  else if maxValue ≤ 255 then 1
  else if maxValue ≤ 65535 then 2
  else if maxValue ≤ 4294967295 then 4
  else 8

/-- append (truncating `value as uN`) for every value, then into_data -/
def bytepack (maxValue : Nat) (vs : List Nat) : List Nat :=
  encodeWords (bytepackWidth maxValue) vs

/-- ByteUnpacker::new(data, size) collected: reads words until the bytes run out.
    A trailing partial word makes `iter.next().unwrap()` panic. -/
def byteUnpack (size : Nat) : Nat → List Nat → Res (List Nat)
  | 0, _ => .ok []
  | fuel + 1, bs =>
    if bs.isEmpty then .ok []
    else if bs.length < size then .error .panic
    else match byteUnpack size fuel (bs.drop size) with
      | .ok r => .ok (fromLE (bs.take size) :: r)
      | .error e => .error e

/-! ## value / flat (value.rs) -/

/-- ValueEncoder::find_log_vals_per_chunk, the doubling loop (fuel 12 suffices: values ≤ 4096) -/
def flatGrow : Nat → Nat → Nat → Nat → Nat × Nat
  | 0, log, _, vals => (log, vals)
  | fuel + 1, log, size, vals =>
    if 2 * size < MAX_MINIBLOCK_BYTES ∧ 2 * vals ≤ MAX_MINIBLOCK_VALUES
    then flatGrow fuel (log + 1) (2 * size) (2 * vals) else (log, vals)

/-- ValueEncoder::find_log_vals_per_chunk(bytes_per_word, 1) for byte-aligned values: (log_vals, vals) -/
def flatValsPerChunk (bytesPerValue : Nat) : Nat × Nat := flatGrow 13 1 (2 * bytesPerValue) 2

/-- ValueEncoder::chunk_data, the chunk loop: full chunks carry `log_vals_per_chunk`, a final partial chunk 0 -/
def flatChunks (bpv logv vpc : Nat) : Nat → Nat → List Chunk
  | 0, _ => []
  | fuel + 1, remaining =>
    if vpc ≤ remaining then ⟨[vpc * bpv], logv⟩ :: flatChunks bpv logv vpc fuel (remaining - vpc)
    else if 0 < remaining then [⟨[remaining * bpv], 0⟩]
    else []

/-- ValueEncoder (MiniBlockCompressor) on `nv` values of `bpv` bytes: the data buffer is passed through -/
def flatEncode (bpv nv : Nat) (d : List Nat) : List (List Nat) × List Chunk :=
  ([d], flatChunks bpv (flatValsPerChunk bpv).1 (flatValsPerChunk bpv).2 (nv + 1) nv)

/-- ValueDecompressor (MiniBlockDecompressor, no FSL layers): the last (only) buffer is the block -/
def flatDecodeChunk (bufs : List (List Nat)) (_n : Nat) : Res (List Nat) :=
  match bufs.reverse with
  | b :: _ => .ok b
  | [] => .error .panic

/-! ## variable width: binary mini-block and variable block (binary.rs) -/

/-- offsets of a list of byte strings starting at `base` (VariableWidthBlock.offsets) -/
def offsetsFrom (base : Nat) : List (List Nat) → List Nat
  | [] => [base]
  | v :: vs => base :: offsetsFrom (base + v.length) vs

/-- the values an (offsets, data) pair stands for: `data[offsets[i] .. offsets[i+1]]` -/
def sliceValues (data : List Nat) : List Nat → List (List Nat)
  | a :: b :: rest => (data.drop a).take (b - a) :: sliceValues data (b :: rest)
  | _ => []

/-- AIM_MINICHUNK_SIZE -/
def AIM_MINICHUNK_SIZE : Nat := 4096

/-- search_next_offset_idx: the doubling loop (`num_values`, `new_num_values`) -/
def searchLoop (offs : List Nat) (bw last : Nat) : Nat → Nat → Nat → Nat
  | 0, num, _ => last + num
  | fuel + 1, num, new =>
    if last + new ≥ offs.length then
      if offs.getD (offs.length - 1) 0 - offs.getD last 0 + (offs.length - last) * bw ≤ AIM_MINICHUNK_SIZE
      then offs.length - 1 else last + num
    else if offs.getD (last + new) 0 - offs.getD last 0 + (new + 1) * bw ≤ AIM_MINICHUNK_SIZE
      then searchLoop offs bw last fuel new (2 * new)
    -- the doubled chunk overshoots the aim: keep it only if it still fits a mini-block, else the last count that fit
    -- (never a single value: a non-final chunk holds 2^n, n ≥ 1 values) — /repo fix of the u16 size overflow
    else if offs.getD (last + new) 0 - offs.getD last 0 + (new + 1) * bw > MAX_MINIBLOCK_BYTES - 8 ∧ 2 ≤ num
      then last + num
      else last + new

/-- search_next_offset_idx(offsets, last_offset_idx) -/
def searchNext (offs : List Nat) (bw last : Nat) : Nat := searchLoop offs bw last offs.length 1 2

/-- `usize::next_multiple_of` -/
def nextMultiple (n a : Nat) : Nat := divCeil n a * a

/-- `usize::trailing_zeros` (of a non-zero number; fuel = the number itself suffices) -/
def trailingZeros : Nat → Nat → Nat
  | 0, _ => 0
  | fuel + 1, n => if n % 2 = 1 then 0 else 1 + trailingZeros fuel (n / 2)

/-- chunk_offsets: the `loop` that cuts chunks; (first offset index, last offset index) per chunk -/
def binCuts (offs : List Nat) (bw : Nat) : Nat → Nat → List (Nat × Nat)
  | 0, _ => []
  | fuel + 1, last =>
    if searchNext offs bw last = offs.length - 1 then [(last, searchNext offs bw last)]
    else (last, searchNext offs bw last) :: binCuts offs bw fuel (searchNext offs bw last)

/-- chunk_offsets: the bytes of one chunk holding the values `cv` — the offsets rebased to the chunk's
    `bytes_start_offset` = (n + 1) * bw, the values' bytes, padding with 72 to the alignment (= bw) -/
def binChunkBytes (bw : Nat) (cv : List (List Nat)) : List Nat :=
  encodeWords bw (offsetsFrom ((cv.length + 1) * bw) cv) ++ cv.flatten ++
    List.replicate (nextMultiple ((cv.length + 1) * bw + cv.flatten.length) bw
        - ((cv.length + 1) * bw + cv.flatten.length)) 72

/-- chunk_offsets: the chunk table entry of the chunk from offset index `cut.1` to `cut.2`; the padded size
    `(n + 1) * bw + (offsets[cut.2] - offsets[cut.1])` is stored `as u16` -/
def binChunkOf (offs : List Nat) (bw : Nat) (cut : Nat × Nat) : Chunk :=
  ⟨[nextMultiple ((cut.2 - cut.1 + 1) * bw + (offs.getD cut.2 0 - offs.getD cut.1 0)) bw % 65536],
   if cut.2 = offs.length - 1 then 0 else trailingZeros (cut.2 - cut.1) (cut.2 - cut.1)⟩

/-- BinaryMiniBlockEncoder::compress on the byte strings `vals` with `bw`-byte offsets (alignment = bw) -/
def binEncode (bw : Nat) (vals : List (List Nat)) : List (List Nat) × List Chunk :=
  (joinBufs 1 ((binCuts (offsetsFrom 0 vals) bw (vals.length + 1) 0).map
      (fun c => [binChunkBytes bw ((vals.drop c.1).take (c.2 - c.1))])),
   (binCuts (offsetsFrom 0 vals) bw (vals.length + 1) 0).map (binChunkOf (offsetsFrom 0 vals) bw))

/-- BinaryMiniBlockDecompressor::decompress on one chunk: (offsets rebased to 0, the values' bytes) as values -/
def binDecodeChunk (bw : Nat) (bufs : List (List Nat)) (n : Nat) : Res (List (List Nat)) :=
  match bufs with
  | [b] =>
    if b.length < 2 * bw then .error .panic
    else if b.length < (n + 1) * bw then .error .panic
    else if b.length < (decodeWords bw (n + 1) b).getD n 0 then .error .panic
    else .ok (sliceValues b (decodeWords bw (n + 1) b))
  | _ => .error .panic

/-- VariableEncoder (BlockCompressor): | bits_per_offset | bytes_start_offset | offsets | bytes |, header words of `bw` bytes -/
def varBlockEncode (bw : Nat) (offs data : List Nat) : List Nat :=
  toLE bw (bw * 8) ++ toLE bw (2 * bw + bw * offs.length) ++ encodeWords bw offs ++ data

/-- BinaryBlockDecompressor::decompress, standard scheme: (bits_per_offset, offsets bytes, data bytes) -/
def varBlockDecode (b : List Nat) : Res (Nat × List Nat × List Nat) :=
  if b.length < 4 then .error .panic
  else if b.getD 1 0 ≠ 0 ∨ b.getD 2 0 ≠ 0 ∨ b.getD 3 0 ≠ 0 then .error .invalid   -- old scheme: not modelled
  else if fromLE (b.take 4) % 256 = 32 then
    if b.length < 8 ∨ fromLE ((b.drop 4).take 4) < 8 ∨ b.length < fromLE ((b.drop 4).take 4) then .error .panic
    else .ok (32, (b.drop 8).take (fromLE ((b.drop 4).take 4) - 8), b.drop (fromLE ((b.drop 4).take 4)))
  else if fromLE (b.take 4) % 256 = 64 then
    if b.length < 16 ∨ fromLE ((b.drop 8).take 8) < 16 ∨ b.length < fromLE ((b.drop 8).take 8) then .error .panic
    else .ok (64, (b.drop 16).take (fromLE ((b.drop 8).take 8) - 16), b.drop (fromLE ((b.drop 8).take 8)))
  else .error .invalid

/-! ## packed struct, fixed width children (packed.rs) -/

/-- struct_data_block_to_fixed_width_data_block: row `i` = child0[i] ++ child1[i] ++ …; children are byte buffers
    paired with their bytes per value -/
def packRows (children : List (Nat × List Nat)) : Nat → Nat → List Nat
  | 0, _ => []
  | k + 1, i => (children.flatMap (fun c => (c.2.drop (c.1 * i)).take c.1)) ++ packRows children k (i + 1)

/-- PackedStructFixedWidthMiniBlockDecompressor::decompress: child `j` takes `widths[j]` bytes at `prefix_sum[j]` of every row -/
def unpackChild (rowBytes pre w : Nat) (b : List Nat) : Nat → Nat → List Nat
  | 0, _ => []
  | k + 1, j => (b.drop (pre + j * rowBytes)).take w ++ unpackChild rowBytes pre w b k (j + 1)

def unpackChildren (rowBytes : Nat) (b : List Nat) (n : Nat) : Nat → List Nat → List (List Nat)
  | _, [] => []
  | pre, w :: ws => unpackChild rowBytes pre w b n 0 :: unpackChildren rowBytes b n (pre + w) ws

/-- PackedStructFixedWidthMiniBlockEncoder::compress: zip the children, then ValueEncoder chunking -/
def packedEncode (children : List (Nat × List Nat)) (nv : Nat) : List (List Nat) × List Chunk :=
  flatEncode (children.map (·.1)).sum nv (packRows children nv 0)

/-- PackedStructFixedWidthMiniBlockDecompressor::decompress on one chunk -/
def packedDecodeChunk (widths : List Nat) (bufs : List (List Nat)) (n : Nat) : Res (List (List Nat)) :=
  match bufs with
  | [b] => .ok (unpackChildren widths.sum b n 0 widths)
  | _ => .error .panic

/-! ## dictionary (logical/primitive/dict.rs) -/

/-- position of the first occurrence (HashMap lookup of an already inserted value) -/
def indexOf {α : Type} [DecidableEq α] (x : α) : List α → Option Nat
  | [] => none
  | y :: ys => if x = y then some 0 else (indexOf x ys).map (· + 1)

/-- dictionary_encode: `map.entry(value).or_insert_with(push; curr_idx)`; state = dictionary so far -/
def dictEncodeLoop {α : Type} [DecidableEq α] : List α → List α → List Nat × List α
  | dict, [] => ([], dict)
  | dict, x :: xs =>
    match indexOf x dict with
    | some i => ((dictEncodeLoop dict xs).1 |> (i :: ·), (dictEncodeLoop dict xs).2)
    | none => ((dictEncodeLoop (dict ++ [x]) xs).1 |> (dict.length :: ·), (dictEncodeLoop (dict ++ [x]) xs).2)

/-- dictionary_encode: (indices, dictionary) -/
def dictEncode {α : Type} [DecidableEq α] (xs : List α) : List Nat × List α := dictEncodeLoop [] xs

/-- DictionaryDataBlock::decode / take: look every index up -/
def dictDecode {α : Type} (dict : List α) : List Nat → Option (List α)
  | [] => some []
  | i :: is =>
    match dict[i]?, dictDecode dict is with
    | some a, some r => some (a :: r)
    | _, _ => none

/-! ## bit-packing framing (bitpacking.rs) around the FastLanes kernel -/

/-- the kernel: `pack w xs` turns 1024 words into `1024 * w / bits` words, `unpack` inverts it on values below 2^w.
    (`BitPacking::unchecked_pack / unchecked_unpack`, modelled in C28; a parameter here.) -/
structure Kernel where
  bits : Nat
  pack : Nat → List Nat → List Nat
  unpack : Nat → List Nat → List Nat

/-- bit width of a chunk: `bits - leading_zeros(OR of the values)` (statistics.rs max_bit_widths) = bit length of the maximum -/
def bitLen : Nat → Nat → Nat
  | 0, _ => 0
  | fuel + 1, n => if n = 0 then 0 else 1 + bitLen fuel (n / 2)

def chunkBitWidth (xs : List Nat) : Nat := bitLen 64 (xs.foldl max 0)

/-- InlineBitpacking::bitpack_chunked: per 1024-value chunk (the last one zero padded) a header word with the bit
    width, then the packed words; (chunk words, value count, log) -/
def ibpPieces (k : Kernel) : Nat → List Nat → List (List Nat × Nat × Nat)
  | 0, _ => []
  | fuel + 1, xs =>
    if xs.length ≤ 1024 then
      [(chunkBitWidth xs :: k.pack (chunkBitWidth xs) (xs ++ List.replicate (1024 - xs.length) 0), xs.length, 0)]
    else
      (chunkBitWidth (xs.take 1024) :: k.pack (chunkBitWidth (xs.take 1024)) (xs.take 1024), 1024, 10)
        :: ibpPieces k fuel (xs.drop 1024)

/-- InlineBitpacking::compress (num_values > 0) as words; chunk sizes in bytes -/
def ibpEncode (k : Kernel) (xs : List Nat) : List (List Nat × Nat × Nat) := ibpPieces k xs.length xs

/-- bitpack_chunked: `buffer_sizes = (1 + 1024 * bit_width / bits_per_value) * size_of::<T>()` -/
def ibpChunkBytes (bits w : Nat) : Nat := (1 + 1024 * w / bits) * (bits / 8)

def ibpChunkOf (k : Kernel) (p : List Nat × Nat × Nat) : Chunk := ⟨[p.1.length * (k.bits / 8)], p.2.2⟩

/-- InlineBitpacking::unchunk on the words of one chunk -/
def ibpDecodeChunk (k : Kernel) (ws : List Nat) (n : Nat) : Res (List Nat) :=
  match ws with
  | [] => .error .panic
  | bw :: packed =>
    if n > 1024 then .error .panic
    else if packed.length * k.bits ≠ bw * 1024 then .error .panic
    else .ok ((k.unpack bw packed).take n)

/-- bitpack_out_of_line: whole chunks packed with one width; the tail either padded + packed or raw -/
def oolEncode (k : Kernel) (w : Nat) : Nat → List Nat → List Nat
  | 0, _ => []
  | fuel + 1, xs =>
    if xs.isEmpty then []
    else if 1024 ≤ xs.length then k.pack w (xs.take 1024) ++ oolEncode k w fuel (xs.drop 1024)
    else if w * (1024 - xs.length) < (k.bits - w) * xs.length
      then k.pack w (xs ++ List.replicate (1024 - xs.length) 0)
      else xs

/-- unpack_out_of_line: whole chunks of `words_per_chunk` words are unpacked; the layout of the tail is inferred from the
    buffer length (`tail_is_raw = tail_values > 0 && compressed_words.len() == full_words + tail_values`) -/
def oolDecodeLoop (k : Kernel) (w wpc : Nat) : Nat → List Nat → Nat → List Nat
  | 0, _, _ => []
  | fuel + 1, ws, n =>
    if n = 0 then []
    else if 1024 ≤ n then k.unpack w (ws.take wpc) ++ oolDecodeLoop k w wpc fuel (ws.drop wpc) (n - 1024)
    else if ws.length = n then ws.take n
    else (k.unpack w (ws.take wpc)).take n

def oolDecode (k : Kernel) (w : Nat) (ws : List Nat) (n : Nat) : List Nat :=
  oolDecodeLoop k w (divCeil (1024 * w) k.bits) (n + 1) ws n

/-! ## general (LZ4 / ZSTD) wrapper (general.rs) with the library as a parameter -/

structure Lib where
  comp : List Nat → List Nat
  decomp : List Nat → List Nat

/-- GeneralMiniBlockCompressor::compress: each chunk's slice of the first buffer is compressed on its own;
    kept only if the total shrinks (returns `none` = inner result kept) -/
def generalPieces (lib : Lib) : List Nat → List Chunk → List (List Nat × Chunk)
  | _, [] => []
  | b0, c :: cs =>
    (lib.comp (b0.take (c.sizes.headD 0)), ⟨(lib.comp (b0.take (c.sizes.headD 0))).length % 65536 :: c.sizes.tail, c.log⟩)
      :: generalPieces lib (b0.drop (c.sizes.headD 0)) cs

def generalEncode (lib : Lib) (inner : List (List Nat) × List Chunk) : Option (List (List Nat) × List Chunk) :=
  match inner.1 with
  | [] => none
  | b0 :: rest =>
    if b0.length < 4096 then none
    else if ((generalPieces lib b0 inner.2).map (·.1.length)).sum ≥ (inner.2.map (·.sizes.headD 0)).sum then none
    else some (((generalPieces lib b0 inner.2).map (·.1)).flatten :: rest, (generalPieces lib b0 inner.2).map (·.2))

/-- GeneralMiniBlockDecompressor::decompress: decompress buffer 0, delegate -/
def generalDecodeChunk {α : Type} (lib : Lib) (inner : List (List Nat) → Nat → Res (List α))
    (bufs : List (List Nat)) (n : Nat) : Res (List α) :=
  match bufs with
  | [] => .error .panic
  | b0 :: rest => inner (lib.decomp b0 :: rest) n

end LanceModel.C26
