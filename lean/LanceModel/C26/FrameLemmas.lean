import LanceModel.C26.Model
/-! mini-block framing: the structural decoder applied to joined per-chunk buffers decodes chunk by chunk -/
namespace LanceModel.C26

theorem joinBufs_length (nb : Nat) (ps : List (List (List Nat))) (h : ∀ p ∈ ps, p.length = nb) :
    (joinBufs nb ps).length = nb := by
  induction ps with
  | nil => simp [joinBufs]
  | cons p ps ih =>
    simp only [joinBufs, List.length_zipWith]
    rw [ih (fun q hq => h q (by simp [hq])), h p (by simp)]; omega

theorem zipWith_take_append (p rest : List (List Nat)) (h : p.length = rest.length) :
    List.zipWith (fun b s => b.take s) (List.zipWith (· ++ ·) p rest) (p.map List.length) = p := by
  induction p generalizing rest with
  | nil => simp
  | cons a p ih =>
    cases rest with
    | nil => simp at h
    | cons r rest =>
      simp only [List.zipWith_cons_cons, List.map_cons, List.take_left', List.cons.injEq, true_and]
      exact ih rest (by simpa using h)

theorem zipWith_drop_append (p rest : List (List Nat)) (h : p.length = rest.length) :
    List.zipWith (fun b s => b.drop s) (List.zipWith (· ++ ·) p rest) (p.map List.length) = rest := by
  induction p generalizing rest with
  | nil => cases rest with
    | nil => simp
    | cons r rest => simp at h
  | cons a p ih =>
    cases rest with
    | nil => simp at h
    | cons r rest =>
      simp only [List.zipWith_cons_cons, List.map_cons, List.drop_left', List.cons.injEq, true_and]
      exact ih rest (by simpa using h)

/-- a decoded piece: the chunk's buffers, its value count, the values it stands for -/
structure Piece (α : Type) where
  bufs : List (List Nat)
  count : Nat
  vals : List α

/-- if every chunk's slices decode to that chunk's values and the chunk table carries the slices' sizes and
    yields the pieces' counts, the whole page decodes to the concatenation -/
theorem decodeChunks_join {α : Type} (dec : List (List Nat) → Nat → Res (List α)) (nb total : Nat)
    (ps : List (Piece α)) (chunks : List Chunk) (prev : Nat)
    (hnb : ∀ p ∈ ps, p.bufs.length = nb)
    (hdec : ∀ p ∈ ps, dec p.bufs p.count = .ok p.vals)
    (hsz : chunks.map (·.sizes) = ps.map (fun p => p.bufs.map List.length))
    (hcnt : chunkCounts total prev chunks = ps.map (·.count)) :
    decodeChunks dec total prev (joinBufs nb (ps.map (·.bufs))) chunks = .ok (ps.flatMap (·.vals)) := by
  induction ps generalizing chunks prev with
  | nil =>
    cases chunks with
    | nil => simp [decodeChunks]
    | cons c cs => simp at hsz
  | cons p ps ih =>
    cases chunks with
    | nil => simp at hsz
    | cons c cs =>
      simp only [List.map_cons, List.cons.injEq] at hsz
      simp only [chunkCounts, List.map_cons, List.cons.injEq] at hcnt
      obtain ⟨hs1, hs2⟩ := hsz
      obtain ⟨hc1, hc2⟩ := hcnt
      have hlen : p.bufs.length = (joinBufs nb (ps.map (·.bufs))).length := by
        rw [joinBufs_length nb _ (by
          intro q hq
          simp only [List.mem_map] at hq
          obtain ⟨r, hr, rfl⟩ := hq
          exact hnb r (by simp [hr]))]
        exact hnb p (by simp)
      simp only [decodeChunks, List.map_cons, joinBufs, hs1, hc1]
      rw [zipWith_take_append _ _ hlen, zipWith_drop_append _ _ hlen, hdec p (by simp)]
      rw [ih cs (prev + p.count) (fun q hq => hnb q (by simp [hq])) (fun q hq => hdec q (by simp [hq])) hs2
        (by rw [← hc1]; exact hc2)]
      simp

/-! ### chunk value counts -/

/-- the (count, log_num_values) pairs of a page: every chunk but the last has 2^log values with log ≥ 1;
    the last has log 0 (count = the rest) or also 2^log -/
def WellLogged : List (Nat × Nat) → Prop
  | [] => True
  | [(n, l)] => l = 0 ∨ (1 ≤ l ∧ n = 2 ^ l)
  | (n, l) :: m :: rest => 1 ≤ l ∧ n = 2 ^ l ∧ WellLogged (m :: rest)

theorem chunkCounts_wellLogged (total : Nat) (nl : List (Nat × Nat)) (sizes : List (List Nat)) (prev : Nat)
    (hw : WellLogged nl) (hsum : prev + (nl.map (·.1)).sum = total) (hlen : sizes.length = nl.length) :
    chunkCounts total prev (List.zipWith (fun s (p : Nat × Nat) => ⟨s, p.2⟩) sizes nl) = nl.map (·.1) := by
  induction nl generalizing sizes prev with
  | nil => cases sizes <;> simp [chunkCounts]
  | cons x rest ih =>
    obtain ⟨n, l⟩ := x
    cases sizes with
    | nil => simp at hlen
    | cons s sizes =>
      simp only [List.zipWith_cons_cons, chunkCounts, List.map_cons, Chunk.numValues]
      cases rest with
      | nil =>
        simp only [List.map_cons, List.map_nil, List.sum_cons, List.sum_nil] at hsum
        have : sizes = [] := by cases sizes with
          | nil => rfl
          | cons a b => simp at hlen
        subst this
        simp only [List.zipWith_nil_left, chunkCounts, List.map_nil, List.cons.injEq, and_true]
        simp only [WellLogged] at hw
        rcases hw with h0 | ⟨h1, h2⟩
        · simp [h0]; omega
        · have : l ≠ 0 := by omega
          simp [this, h2]
      | cons m rest =>
        simp only [WellLogged] at hw
        obtain ⟨h1, h2, h3⟩ := hw
        have hl : l ≠ 0 := by omega
        simp only [hl, if_false, List.cons.injEq]
        refine ⟨h2.symm, ?_⟩
        rw [← h2]
        have := ih sizes (prev + n) h3 (by simp only [List.map_cons, List.sum_cons] at hsum ⊢; omega)
          (by simpa using hlen)
        simpa using this

end LanceModel.C26
