import LanceModel.C26.BitpackLemmas
/-! out-of-line bit-packing: whole chunks packed, tail raw or padded+packed, layout inferred from the length -/
namespace LanceModel.C26

theorem wpc_eq (bits w P : Nat) (hb : 0 < bits) (h : P * bits = w * 1024) : divCeil (1024 * w) bits = P := by
  unfold divCeil
  have : 1024 * w + bits - 1 = bits * P + (bits - 1) := by rw [Nat.mul_comm bits P, h]; omega
  rw [this, Nat.mul_add_div hb, Nat.div_eq_of_lt (by omega)]; omega

theorem ool_roundtrip_loop (k : Kernel) (hk : KernelOK k) (hb : 0 < k.bits) (w : Nat) (hw : w ≤ k.bits) :
    ∀ (fuel : Nat) (xs : List Nat), xs.length < fuel * 1024 → (∀ x ∈ xs, x < 2 ^ w) →
      oolDecodeLoop k w (divCeil (1024 * w) k.bits) fuel (oolEncode k w fuel xs) xs.length = xs := by
  intro fuel
  induction fuel with
  | zero => intro xs h; omega
  | succ f ih =>
    intro xs hf hfit
    simp only [oolEncode, oolDecodeLoop]
    by_cases hemp : xs = []
    · subst hemp; simp
    · have hne : xs.isEmpty = false := by cases xs <;> simp at hemp ⊢
      have hpos : 0 < xs.length := List.length_pos_iff.mpr hemp
      simp only [hne, Bool.false_eq_true, if_false, show xs.length ≠ 0 by omega]
      split
      · rename_i hge
        have htl : (xs.take 1024).length = 1024 := by simp; omega
        have hP := hk.hpack_len w _ htl
        have hwpc := wpc_eq k.bits w _ hb hP
        have hfit1 : ∀ x ∈ xs.take 1024, x < 2 ^ w := fun x hx => hfit x (List.mem_of_mem_take hx)
        rw [hwpc, List.take_left' rfl, List.drop_left' rfl, hk.hunpack w _ htl hfit1]
        have := ih (xs.drop 1024) (by simp; omega) (fun x hx => hfit x (List.mem_of_mem_drop hx))
        simp only [List.length_drop] at this
        rw [hwpc] at this
        rw [this, List.take_append_drop]
      · rename_i hlt
        have hlen : (xs ++ List.replicate (1024 - xs.length) 0).length = 1024 := by simp; omega
        have hall : ∀ x ∈ xs ++ List.replicate (1024 - xs.length) 0, x < 2 ^ w := by
          intro x hx
          rcases List.mem_append.mp hx with hx | hx
          · exact hfit x hx
          · have := List.eq_of_mem_replicate hx
            subst this; exact Nat.pow_pos (by omega)
        split
        · rename_i hpack
          have hP := hk.hpack_len w _ hlen
          have hwpc := wpc_eq k.bits w _ hb hP
          have hneq : (k.pack w (xs ++ List.replicate (1024 - xs.length) 0)).length ≠ xs.length := by
            intro heq
            rw [heq] at hP
            have e1 : w * (1024 - xs.length) = w * 1024 - w * xs.length := Nat.mul_sub w 1024 xs.length
            have e2 : (k.bits - w) * xs.length = k.bits * xs.length - w * xs.length := Nat.sub_mul _ _ _
            have e3 : xs.length * k.bits = k.bits * xs.length := Nat.mul_comm _ _
            have e4 : w * xs.length ≤ w * 1024 := Nat.mul_le_mul_left w (by omega)
            omega
          rw [if_neg hneq, hwpc, List.take_of_length_le (Nat.le_refl _), hk.hunpack w _ hlen hall]
          simp
        · simp

theorem ool_roundtrip (k : Kernel) (hk : KernelOK k) (hb : 0 < k.bits) (w : Nat) (hw : w ≤ k.bits) (xs : List Nat)
    (hfit : ∀ x ∈ xs, x < 2 ^ w) :
    oolDecode k w (oolEncode k w (xs.length + 1) xs) xs.length = xs := by
  unfold oolDecode
  exact ool_roundtrip_loop k hk hb w hw (xs.length + 1) xs (by omega) hfit

end LanceModel.C26
