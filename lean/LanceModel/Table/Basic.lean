/-
Shared, import-free base of the "table family" models (C11 and the properties that run histories on real datasets).

Counterpart of `harness/src/tablekit.rs`.  Canonical text forms (identical on both sides, never contain a space):

  cell     ::= "n" | ["-"] digit+          n = NULL, decimal i64 otherwise
  row      ::= cell ("," cell)*
  rows     ::= "-" | row (";" row)*        "-" = no rows
  batches  ::= "_" | rows ("|" rows)*      "_" = zero batches, "-" = one empty batch
  frags    ::= "-" | id ":" rows ":" dels ("," …)*
  spec     ::= k=<K> x=<letters|->         K Int64 columns c0.. then extra typed columns, letters from "uUfsl", distinct

A model only ever sees `Option Int` cells: the harness derives every typed value (Utf8, LargeUtf8, Float32, struct,
list) from an integer key and checks on the way back that the value read is exactly the derivation of the key.
-/
namespace LanceModel.Table

abbrev Cell := Option Int
abbrev Row := List Cell

/-! ### strict decimal parsing (what Rust's `str::parse` accepts once `+` and empty strings are excluded) -/

def parseDigits : List Char → Nat → Option Nat
  | [], acc => some acc
  | c :: cs, acc => if c.isDigit then parseDigits cs (acc * 10 + (c.toNat - 48)) else none

def parseNatChars (cs : List Char) : Option Nat :=
  if cs.isEmpty then none else parseDigits cs 0

/-- a `usize` (64 bit): digits only, below 2^64 -/
def parseUsize (s : String) : Option Nat :=
  match parseNatChars s.toList with
  | some n => if n < 18446744073709551616 then some n else none
  | none => none

/-- an `i64`: optional `-`, digits, within range -/
def parseI64 (s : String) : Option Int :=
  match s.toList with
  | '-' :: cs =>
    match parseNatChars cs with
    | some n => if n ≤ 9223372036854775808 then some (-(n : Int)) else none
    | none => none
  | cs =>
    match parseNatChars cs with
    | some n => if n < 9223372036854775808 then some (n : Int) else none
    | none => none

/-! ### canonical text -/

def showCell : Cell → String
  | none => "n"
  | some v => toString v

def parseCell (s : String) : Option Cell :=
  if s = "n" then some none else (parseI64 s).map some

def showRow (r : Row) : String := ",".intercalate (r.map showCell)

def parseRow (s : String) : Option Row := (s.splitOn ",").mapM parseCell

def showRows (rs : List Row) : String :=
  if rs.isEmpty then "-" else ";".intercalate (rs.map showRow)

def parseRows (s : String) : Option (List Row) :=
  if s = "-" then some [] else (s.splitOn ";").mapM parseRow

def showBatches (bs : List (List Row)) : String :=
  if bs.isEmpty then "_" else "|".intercalate (bs.map showRows)

def parseBatches (s : String) : Option (List (List Row)) :=
  if s = "_" then some [] else (s.splitOn "|").mapM parseRows

/-- per-fragment `(id, physical_rows, num_deletions)` -/
def showFrags (fs : List (Nat × Nat × Nat)) : String :=
  if fs.isEmpty then "-"
  else ",".intercalate (fs.map fun f => toString f.1 ++ ":" ++ toString f.2.1 ++ ":" ++ toString f.2.2)

/-! ### schema spec -/

/-- `ints` nullable Int64 columns `c0..` followed by the extra typed columns named by `extras`
    (`u` Utf8, `U` LargeUtf8, `f` Float32, `s` Struct{a:Int32,b:Utf8}, `l` List<Int32>) -/
structure Spec where
  ints : Nat
  extras : List Char
  deriving DecidableEq, Repr

def Spec.width (s : Spec) : Nat := s.ints + s.extras.length

def extraLetters : List Char := ['u', 'U', 'f', 's', 'l']

def distinct : List Char → Bool
  | [] => true
  | c :: cs => !cs.contains c && distinct cs

/-- values of the `k=` and `x=` tokens -/
def Spec.parse (k x : String) : Option Spec :=
  match parseUsize k with
  | none => none
  | some ints =>
    if ints > 64 then none
    else
      let ex : List Char := if x = "-" then [] else x.toList
      if x.isEmpty then none
      else if !(ex.all extraLetters.contains) then none
      else if !(distinct ex) then none
      else if ints + ex.length = 0 then none
      else some { ints := ints, extras := ex }

def Spec.show (s : Spec) : String :=
  "k=" ++ toString s.ints ++ " x=" ++ (if s.extras.isEmpty then "-" else String.ofList s.extras)

/-- the bound on extra-column keys (`tablekit::EXTRA_KEY_MAX`) -/
def extraKeyMax : Int := 1048576

def cellInRange (c : Cell) : Bool :=
  match c with
  | none => true
  | some k => decide (-extraKeyMax ≤ k) && decide (k ≤ extraKeyMax)

/-- `SchemaSpec::check_rows`: width, and key range of the extra cells -/
def Spec.rowOk (s : Spec) (r : Row) : Bool :=
  r.length == s.width && (r.drop s.ints).all cellInRange

def Spec.rowsOk (s : Spec) (rs : List Row) : Bool := rs.all s.rowOk

/-! ### small list utilities -/

/-- `xs[i]` or NULL -/
def cellAt (r : Row) (i : Nat) : Cell :=
  match r[i]? with
  | some c => c
  | none => none

def indexOf? (c : Char) : List Char → Option Nat
  | [] => none
  | d :: ds => if c = d then some 0 else (indexOf? c ds).map (· + 1)

def natSum : List Nat → Nat
  | [] => 0
  | x :: xs => x + natSum xs

theorem natSum_append (a b : List Nat) : natSum (a ++ b) = natSum a + natSum b := by
  induction a with
  | nil => simp [natSum]
  | cons x xs ih => simp [natSum, ih]; omega

theorem length_flatten_natSum {α : Type} (L : List (List α)) : L.flatten.length = natSum (L.map List.length) := by
  induction L with
  | nil => simp [natSum]
  | cons x xs ih => simp [natSum, ih]

end LanceModel.Table
