import LanceModel.C14.Driver
def main : IO Unit := LanceModel.Util.runDriver LanceModel.C14.Driver.step LanceModel.C14.Driver.St.init
