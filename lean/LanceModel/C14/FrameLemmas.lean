import LanceModel.C14.Lemmas
/-
C14 frame lemmas: what add / alter / drop leave alone.
-/
namespace LanceModel.C14
open LanceModel.Table

/-! ### fragments -/

theorem column_addFile (mk : Frag → DFile) (f : Frag) (id : Int) (h : id ∉ (mk f).ids) :
    (addFile mk f).column id = f.column id := by
  simp only [Frag.column, addFile, lookupFiles_append]
  cases lookupFiles f.files id with
  | some c => rfl
  | none => simp [lookupFiles, lookup_none_of_not_mem h]

theorem column_retain (ids : List Int) (f : Frag) (id : Int) (h : id ∈ ids) :
    (retainFiles ids f).column id = f.column id := by
  simp only [Frag.column, retainFiles]
  rw [lookupFiles_filter]
  intro d _ hm
  exact List.any_eq_true.mpr ⟨id, hm, by simpa using h⟩

/-- a fragment transformer that keeps the deletion vector, the row count and column `id` -/
def Keeps (id : Int) (g : Frag → Frag) (fs : List Frag) : Prop :=
  ∀ f ∈ fs, (g f).dels = f.dels ∧ (g f).phys = f.phys ∧ (g f).column id = f.column id

theorem flatMap_liveCol_map (id : Int) (g : Frag → Frag) (fs : List Frag) (h : Keeps id g fs) :
    (fs.map g).flatMap (·.liveCol id) = fs.flatMap (·.liveCol id) := by
  induction fs with
  | nil => rfl
  | cons f fs ih =>
    have hf := h f List.mem_cons_self
    simp only [List.map_cons, List.flatMap_cons, Frag.liveCol, hf.1, hf.2.2]
    rw [show (fs.map g).flatMap (fun x => keepLive x.dels 0 (x.column id)) = fs.flatMap (fun x => keepLive x.dels 0 (x.column id))
      from ih (fun f hf => h f (List.mem_cons_of_mem _ hf))]

theorem live_map (g : Frag → Frag) (fs : List Frag) (h : ∀ f ∈ fs, (g f).dels = f.dels ∧ (g f).phys = f.phys) :
    natSum ((fs.map g).map (·.live)) = natSum (fs.map (·.live)) := by
  induction fs with
  | nil => rfl
  | cons f fs ih =>
    have hf := h f List.mem_cons_self
    simp only [List.map_cons, natSum, Frag.live, hf.1, hf.2]
    have := ih (fun f hf => h f (List.mem_cons_of_mem _ hf))
    simp only [Frag.live] at this
    rw [this]

theorem keeps_addFile (id : Int) (mk : Frag → DFile) (fs : List Frag) (h : ∀ f ∈ fs, id ∉ (mk f).ids) :
    Keeps id (addFile mk) fs :=
  fun f hf => ⟨rfl, rfl, column_addFile mk f id (h f hf)⟩

theorem keeps_retain (id : Int) (ids : List Int) (fs : List Frag) (h : id ∈ ids) : Keeps id (retainFiles ids) fs :=
  fun f _ => ⟨rfl, rfl, column_retain ids f id h⟩

/-! ### Operation::Project -/

theorem project_scanCol (t : Tbl) (s : List Fld) (id : Int) (h : id ∈ s.map (·.id)) :
    scanCol (project t s) id = scanCol t id := by
  simp only [scanCol, project]
  exact flatMap_liveCol_map id _ _ (keeps_retain id _ _ h)

theorem project_liveCount (t : Tbl) (s : List Fld) : liveCount (project t s) = liveCount t := by
  simp only [liveCount, project]
  exact live_map _ _ (fun _ _ => ⟨rfl, rfl⟩)

/-! ### add -/

theorem fresh_not_mem_mkFlds (t : Tbl) (cs : List ColDef) {fl : Fld} (h : fl ∈ t.schema) :
    fl.id ∉ (mkFlds cs (t.maxFieldId + 1)).map (·.id) := by
  intro hm
  have := mkFlds_ids_ge hm
  have := schema_id_le_max t h
  omega

theorem feed_frame (bs : Nat) (ids : List Int) (w : Nat) (tr : Bool) (id : Int) (hid : id ∉ ids) :
    ∀ (fs : List Frag) (rest : List Row) (fs' : List Frag), feed bs ids w tr fs rest = .ok fs' →
      fs'.flatMap (·.liveCol id) = fs.flatMap (·.liveCol id) ∧
      natSum (fs'.map (·.live)) = natSum (fs.map (·.live)) := by
  intro fs
  induction fs with
  | nil =>
    intro rest fs' h
    simp only [feed] at h
    split at h
    · cases h; exact ⟨rfl, rfl⟩
    · cases h
  | cons f fs ih =>
    intro rest fs' h
    simp only [feed] at h
    split at h
    · cases h
    · split at h
      · cases h
      · split at h
        · cases h
        · rename_i fs'' heq
          cases h
          obtain ⟨h1, h2⟩ := ih _ _ heq
          have hc : (addFile (fun f => ids.zip ((colsOfRows w (List.take f.live rest)).map (spread f.dels 0 f.phys))) f).column id
              = f.column id := column_addFile _ f id (fun hm => hid (zip_ids_subset hm))
          refine ⟨?_, ?_⟩
          · simp only [List.flatMap_cons, Frag.liveCol, hc]
            simp only [Frag.liveCol] at h1
            rw [h1]; rfl
          · simp only [List.map_cons, natSum, h2]; rfl

/-! ### alter -/

/-- the alterations leave every field alone whose id is not the id of a named source field -/
theorem applyAlts_keeps (old : List Fld) (fl : Fld) :
    ∀ (alts : List Alt) (st st' : AltSt), applyAlts old st alts = .ok st' →
      (∀ a ∈ alts, ∀ src, findFld old a.col = some src → src.id ≠ fl.id) →
      fl ∈ st.schema → fl ∈ st'.schema := by
  intro alts
  induction alts with
  | nil => intro st st' h _ hm; simp only [applyAlts] at h; cases h; exact hm
  | cons a as ih =>
    intro st st' h hne hm
    simp only [applyAlts] at h
    split at h
    · cases h
    · rename_i st1 h1
      refine ih st1 st' h (fun b hb => hne b (List.mem_cons_of_mem _ hb)) ?_
      simp only [applyAlt] at h1
      split at h1
      · cases h1
      · rename_i src hsrc
        have hn := hne a List.mem_cons_self src hsrc
        split at h1
        · cases h1
        · split at h1
          · cases h1
            simp only
            exact List.mem_map.mpr ⟨fl, hm, by simp [Ne.symm hn]⟩
          · cases h1
            simp only
            exact List.mem_map.mpr ⟨fl, hm, by simp [Ne.symm hn]⟩

/-- ids handed out by the casts lie in `[lo, next)` -/
theorem applyAlts_casts (old : List Fld) (lo : Int) :
    ∀ (alts : List Alt) (st st' : AltSt), applyAlts old st alts = .ok st' →
      lo ≤ st.next → (∀ p ∈ st.casts, lo ≤ p.2 ∧ p.2 < st.next) →
      lo ≤ st'.next ∧ ∀ p ∈ st'.casts, lo ≤ p.2 ∧ p.2 < st'.next := by
  intro alts
  induction alts with
  | nil => intro st st' h h1 h2; simp only [applyAlts] at h; cases h; exact ⟨h1, h2⟩
  | cons a as ih =>
    intro st st' h hlo hc
    simp only [applyAlts] at h
    split at h
    · cases h
    · rename_i st1 h1
      simp only [applyAlt] at h1
      split at h1
      · cases h1
      · split at h1
        · cases h1
        · split at h1
          · cases h1
            exact ih _ st' h hlo hc
          · cases h1
            refine ih _ st' h (by simp only; omega) ?_
            intro p hp
            simp only [List.mem_append, List.mem_singleton] at hp
            rcases hp with hp | rfl
            · have := hc p hp; simp only; omega
            · simp only; omega

theorem castFile_ids_sub (s : List Fld) (casts : List (Int × Int)) (f : Frag) {i : Int}
    (h : i ∈ (castFile s casts f).ids) : ∃ p ∈ casts, p.2 = i := by
  simp only [castFile, DFile.ids, List.mem_map, List.mem_filterMap] at h
  obtain ⟨q, ⟨fl, _, hq⟩, rfl⟩ := h
  split at hq
  · rename_i p hp
    cases hq
    have := List.find?_some hp
    exact ⟨p, List.mem_of_find?_eq_some hp, by simpa using this⟩
  · cases hq

theorem find_some_name {s : List Fld} {n : String} {fl : Fld} (h : findFld s n = some fl) : fl ∈ s ∧ fl.name = n := by
  simp only [findFld] at h
  exact ⟨List.mem_of_find?_eq_some h, by simpa using List.find?_some h⟩

theorem eq_of_id_eq {s : List Fld} (hn : (s.map (·.id)).Nodup) {a b : Fld} (ha : a ∈ s) (hb : b ∈ s)
    (h : a.id = b.id) : a = b := by
  induction s with
  | nil => cases ha
  | cons x xs ih =>
    simp only [List.map_cons, List.nodup_cons] at hn
    rcases List.mem_cons.mp ha with rfl | ha' <;> rcases List.mem_cons.mp hb with rfl | hb'
    · rfl
    · exact absurd (show a.id ∈ xs.map (·.id) from List.mem_map.mpr ⟨b, hb', h.symm⟩) hn.1
    · exact absurd (show b.id ∈ xs.map (·.id) from List.mem_map.mpr ⟨a, ha', h⟩) hn.1
    · exact ih hn.2 ha' hb'

end LanceModel.C14
