import LanceModel.C14.Frame
import LanceModel.C14.Wf
import LanceModel.C14.Values
import LanceModel.C14.AlterValues
import LanceModel.C14.Readable
/-
C14 — Schema evolution preserves untouched data.

  "Adding (from expressions, batches, functions or a key join), altering (rename, cast, nullability) and dropping columns
   keeps every other column's values and the row order unchanged, fills added columns with exactly the requested values
   (NULL where a join finds no match), and a column re-added under a dropped name never shows the dropped data.  All
   field ids in a version stay unique."

Property theorems over the model of `Model.lean` (tables of flat Int32 / Int64 columns; add by SQL expression /
AllNulls / Reader, alter, drop, interleaved with append, delete, compaction):

  field_ids_unique        every reachable table: schema ids pairwise different, no id stored twice in a fragment, names unique
  max_field_id_bounds     Manifest::max_field_id bounds every id of the schema and of every data file of the version
  ids_ever_used_counterexample   … but NOT every id ever used: it is computed, and falls when the last file of a dropped
                          field goes away (harmless by `add_ids_fresh`: a reused id is stored by no data file)
  evolve_frame            add / alter / drop keep row count and order and every column they do not name
  C14_frame_full / _partial / _counterexample   the same including "the table can still be read": FALSE of the code —
                          dropping the last column that has a data file leaves fragments without data files
  drop_readable_iff       exactly when drop_columns leaves the table readable;  add_readable;
  readable_step           every operation other than drop_columns keeps the table readable
  add_values_sql / _nulls / _reader / _merge   the new columns hold exactly the requested values (merge: the hash join on
                          the key column) and get the next field ids above Manifest::max_field_id
  add_ids_fresh           ids handed out by add are stored by no data file and used by no field of the version before
  drop_readd_fresh        … in particular for a name dropped earlier in the history: NULL / the new values, never old data
  alter_values            a renamed / re-typed / nullability-changed column keeps its cells (a cast field gets a fresh id)
  scan_shape, compact_preserves     every column has one cell per live row; compaction keeps every column's cells
-/
namespace LanceModel.C14
open LanceModel.Table

/-! ## field ids -/

/-- `field_ids_unique`: in every version reachable from a create by any history of operations (failed ones included) no two
    fields share an id, no fragment stores a field id twice, field names are unique, every data file stores a live field
    and every stored column has one cell per physical row -/
theorem field_ids_unique (cs : List ColDef) (rows : List Row) (ops : List Op) (h : createOk cs rows = true) :
    WF (run (create cs rows) ops) :=
  wf_run _ ops (wf_create cs rows h)

/-- `Manifest::max_field_id` bounds every field id of the schema and every id stored by a data file of the version -/
theorem max_field_id_bounds (t : Tbl) :
    (∀ fl ∈ t.schema, fl.id ≤ t.maxFieldId) ∧ (∀ i ∈ t.fileIds, i ≤ t.maxFieldId) :=
  ⟨fun _ h => schema_id_le_max t h, fun _ h => file_id_le_max t h⟩

/-- the ids an add hands out are above `max_field_id`: stored by no data file and used by no field of the version before -/
theorem add_ids_fresh (t t' : Tbl) (op : Op) (h : step t op = .ok t')
    (hop : (∃ bs es, op = .addSql bs es) ∨ (∃ cs, op = .addNulls cs) ∨ (∃ bs cs rows tr, op = .addReader bs cs rows tr)) :
    ∀ fl ∈ t'.schema, fl ∉ t.schema → t.maxFieldId < fl.id ∧ fl.id ∉ t.fileIds ∧ fl.id ∉ t.schema.map (·.id) := by
  have key : ∀ (cs : List ColDef), t'.schema = t.schema ++ mkFlds cs (t.maxFieldId + 1) →
      ∀ fl ∈ t'.schema, fl ∉ t.schema → t.maxFieldId < fl.id ∧ fl.id ∉ t.fileIds ∧ fl.id ∉ t.schema.map (·.id) := by
    intro cs hs fl hfl hnot
    rw [hs] at hfl
    rcases List.mem_append.mp hfl with hfl | hfl
    · exact absurd hfl hnot
    · have := (mkFlds_id_range hfl).1
      have hlt : t.maxFieldId < fl.id := by omega
      exact ⟨hlt, fresh_not_stored t _ hlt, fresh_not_in_schema t _ hlt⟩
  rcases hop with ⟨bs, es, rfl⟩ | ⟨cs, rfl⟩ | ⟨bs, cs, rows, tr, rfl⟩
  · simp only [step, addSql] at h
    split at h
    · cases h
    · split at h
      · cases h
      · split at h
        · cases h
        · split at h
          · cases h; exact key _ rfl
          · split at h
            · cases h
            · cases h; exact key _ rfl
  · simp only [step, addNulls] at h
    split at h
    · cases h
    · split at h
      · cases h
      · split at h
        · cases h
        · cases h; exact key _ rfl
  · simp only [step, addReader] at h
    split at h
    · cases h
    · split at h
      · cases h
      · split at h
        · cases h
        · cases h; exact key _ rfl

/-- the table of the counterexamples: one Int64 column `a`, two rows -/
def exT : Tbl := create [⟨"a", .i64, true⟩] [[some 7], [some 1]]

theorem exT_wf : WF exT := wf_create _ _ (by decide)

/-- "max_field_id >= every id EVER used" does not hold: the value is computed from the schema and the data files of the
    version, and falls again when the last data file that stores a dropped field goes away
    (create a; add x = a + 1 [id 1, own file]; drop x → max_field_id is 0 again, the next add reuses id 1) -/
theorem ids_ever_used_counterexample :
    ¬ (∀ t op t', WF t → step t op = .ok t' → t.maxFieldId ≤ t'.maxFieldId) := by
  intro h
  have h1 : ∃ t1, step exT (.addSql none [("x", .plus "a" 1)]) = .ok t1 ∧ t1.maxFieldId = 1 ∧
      ∃ t2, step t1 (.drop ["x"]) = .ok t2 ∧ t2.maxFieldId = 0 := ⟨_, rfl, by decide, _, rfl, by decide⟩
  obtain ⟨t1, s1, m1, t2, s2, m2⟩ := h1
  have := h t1 _ t2 (wf_step _ _ _ exT_wf s1) s2
  omega

/-! ## frame -/

/-- `evolve_frame`: for every op in {add (3 variants), alter, drop} on a well-formed table: the number (and so the order) of
    the rows is unchanged, and every column the op does not name is still in the schema, with its field id, and scans to
    exactly the cells it had -/
theorem evolve_frame (t t' : Tbl) (op : Op) (hw : WF t) (hev : op.isEvolve = true) (h : step t op = .ok t') :
    liveCount t' = liveCount t ∧
      ∀ fl ∈ t.schema, fl.name ∉ op.named → fl ∈ t'.schema ∧ scanCol t' fl.id = scanCol t fl.id :=
  evolve_frame_core t t' op hw.ids hev h

example : ∃ t', step exT (.alter [⟨"a", some "b", none, some .i32⟩]) = .ok t' ∧ Op.isEvolve (.alter [⟨"a", some "b", none, some .i32⟩]) = true :=
  ⟨_, rfl, rfl⟩

/-- `alter_values` (proved in AlterValues.lean): the altered column itself keeps its cells, under its new name -/
theorem altered_column_keeps_cells (t t' : Tbl) (alts : List Alt) (hw : WF t) (h : step t (.alter alts) = .ok t') :
    ∀ a ∈ alts, ∀ src, findFld t.schema a.col = some src →
      ∃ fl' ∈ t'.schema, fl'.name = a.newName ∧ scanCol t' fl'.id = scanCol t src.id ∧
        (a.cast = none → fl'.id = src.id) ∧ (a.cast ≠ none → t.maxFieldId < fl'.id) :=
  alter_values t t' alts hw h

example : ∃ t', step exT (.alter [⟨"a", some "b", none, some .i32⟩]) = .ok t' ∧
    t'.schema = [⟨"b", 1, .i32, true⟩] ∧ scanCol t' 1 = [some 7, some 1] ∧ scanCol exT 0 = [some 7, some 1] :=
  ⟨_, rfl, by decide, by decide, by decide⟩

/-- the property's frame clause at full strength: after a successful evolution op the table can be read and the untouched
    columns are as before -/
def C14_frame_full : Prop :=
  ∀ (t t' : Tbl) (op : Op), WF t → t.readable = true → op.isEvolve = true → step t op = .ok t' →
    t'.readable = true ∧ liveCount t' = liveCount t ∧
      ∀ fl ∈ t.schema, fl.name ∉ op.named → fl ∈ t'.schema ∧ scanCol t' fl.id = scanCol t fl.id

/-- … holds wherever the op leaves every fragment at least one data file (`t'.readable`, decidable on `(t, op)`) -/
theorem C14_frame_partial (t t' : Tbl) (op : Op) (hw : WF t) (hev : op.isEvolve = true) (h : step t op = .ok t')
    (hr : t'.readable = true) :
    t'.readable = true ∧ liveCount t' = liveCount t ∧
      ∀ fl ∈ t.schema, fl.name ∉ op.named → fl ∈ t'.schema ∧ scanCol t' fl.id = scanCol t fl.id :=
  ⟨hr, evolve_frame t t' op hw hev h⟩

/-- … and is false of the code: `create a; add_columns AllNulls y; drop_columns a` — the Project arm removes the only data
    file of the fragment (it stores no live field any more), `y` has none: the fragment is left without data files and
    every read of the table fails ("Fragment 0 does not contain any data") -/
theorem C14_frame_counterexample : ¬ C14_frame_full := by
  intro h
  have h1 : ∃ t1, step exT (.addNulls [⟨"y", .i32, true⟩]) = .ok t1 ∧ t1.readable = true ∧
      ∃ t2, step t1 (.drop ["a"]) = .ok t2 ∧ t2.readable = false := ⟨_, rfl, by decide, _, rfl, by decide⟩
  obtain ⟨t1, s1, r1, t2, s2, r2⟩ := h1
  have := (h t1 t2 _ (wf_step _ _ _ exT_wf s1) r1 rfl s2).1
  rw [r2] at this
  cases this

/-- the defective region, exactly: drop_columns leaves the table readable iff every fragment has a data file that stores
    one of the remaining fields -/
theorem drop_readable_iff (t t' : Tbl) (cs : List String) (h : dropCols t cs = .ok t') :
    t'.readable = true ↔
      ∀ f ∈ t.frags, ∃ d ∈ f.files, ∃ i ∈ d.ids, ∃ fl ∈ t.schema, fl.name ∉ cs ∧ fl.id = i := by
  simp only [dropCols] at h
  split at h
  · cases h
  · split at h
    · cases h
    · split at h
      · cases h
      · cases h
        simp only [Tbl.readable, project, List.all_map, List.all_eq_true, Function.comp_apply, retainFiles,
          Bool.not_eq_true', List.isEmpty_eq_false_iff]
        constructor
        · intro hr f hf
          obtain ⟨d, hd⟩ := List.exists_mem_of_ne_nil _ (hr f hf)
          obtain ⟨hd1, hd2⟩ := List.mem_filter.mp hd
          obtain ⟨i, hi, hm⟩ := List.any_eq_true.mp hd2
          have hm' : i ∈ (t.schema.filter fun fl => !cs.contains fl.name).map (·.id) := by simpa using hm
          obtain ⟨fl, hfl, rfl⟩ := List.mem_map.mp hm'
          obtain ⟨hfl1, hfl2⟩ := List.mem_filter.mp hfl
          exact ⟨d, hd1, _, hi, fl, hfl1, by simpa using hfl2, rfl⟩
        · intro hx f hf
          obtain ⟨d, hd, i, hi, fl, hfl, hn, rfl⟩ := hx f hf
          refine List.ne_nil_of_mem (a := d) (List.mem_filter.mpr ⟨hd, List.any_eq_true.mpr ⟨fl.id, hi, ?_⟩⟩)
          have : fl.id ∈ (t.schema.filter fun fl => !cs.contains fl.name).map (·.id) :=
            List.mem_map.mpr ⟨fl, List.mem_filter.mpr ⟨hfl, by simpa using hn⟩, rfl⟩
          simpa using this

theorem feed_files (bs : Nat) (ids : List Int) (w : Nat) (tr : Bool) :
    ∀ (fs : List Frag) (rest : List Row) (fs' : List Frag), feed bs ids w tr fs rest = .ok fs' →
      ∀ f' ∈ fs', f'.files ≠ [] := by
  intro fs
  induction fs with
  | nil =>
    intro rest fs' h
    simp only [feed] at h
    split at h
    · cases h; intro f' hf'; cases hf'
    · cases h
  | cons f fs ih =>
    intro rest fs' h
    simp only [feed] at h
    split at h
    · cases h
    · split at h
      · cases h
      · split at h
        · cases h
        · rename_i fs'' heq
          cases h
          intro f' hf'
          rcases List.mem_cons.mp hf' with rfl | hf'
          · simp [addFile]
          · exact ih _ _ heq f' hf'

/-- adding columns never makes a table unreadable -/
theorem add_readable (t t' : Tbl) (op : Op) (hr : t.readable = true) (h : step t op = .ok t')
    (hop : (∃ bs es, op = .addSql bs es) ∨ (∃ cs, op = .addNulls cs) ∨ (∃ bs cs rows tr, op = .addReader bs cs rows tr)) :
    t'.readable = true := by
  rcases hop with ⟨bs, es, rfl⟩ | ⟨cs, rfl⟩ | ⟨bs, cs, rows, tr, rfl⟩
  · simp only [step, addSql] at h
    split at h
    · cases h
    · split at h
      · cases h
      · split at h
        · cases h
        · split at h
          · cases h; exact hr
          · split at h
            · cases h
            · cases h
              simp [Tbl.readable, addFile]
  · simp only [step, addNulls] at h
    split at h
    · cases h
    · split at h
      · cases h
      · split at h
        · cases h
        · cases h; exact hr
  · simp only [step, addReader] at h
    split at h
    · cases h
    · split at h
      · cases h
      · split at h
        · cases h
        · rename_i fs hfeed
          cases h
          simp only [Tbl.readable, List.all_eq_true, Bool.not_eq_true', List.isEmpty_eq_false_iff]
          exact feed_files _ _ _ _ _ _ _ hfeed

/-- drop_columns is the ONLY operation that can leave a fragment without data files: append, delete, compaction, the three
    add transforms and alter_columns (rename / nullability / cast) keep a well-formed readable table readable -/
theorem readable_step (t t' : Tbl) (op : Op) (hw : WF t) (hr : t.readable = true) (h : step t op = .ok t')
    (hnd : ∀ cs, op ≠ .drop cs) : t'.readable = true := by
  cases op with
  | append rows =>
    simp only [step, append] at h
    split at h
    · cases h
    · cases h
      rw [readable_iff] at hr ⊢
      intro f hf
      simp only [List.mem_append, List.mem_singleton] at hf
      rcases hf with hf | rfl
      · exact hr f hf
      · simp
  | delete c cmp k =>
    simp only [step, delete] at h
    split at h
    · cases h
    · cases h
      rw [readable_iff] at hr ⊢
      intro f hf
      simp only [List.mem_filter, List.mem_map] at hf
      obtain ⟨⟨g, hg, rfl⟩, _⟩ := hf
      exact hr g hg
  | compact =>
    simp only [step] at h
    cases h
    simp only [compact]
    split
    · simp [Tbl.readable]
    · exact hr
  | addSql bs es => exact add_readable t t' _ hr h (Or.inl ⟨bs, es, rfl⟩)
  | addNulls cs => exact add_readable t t' _ hr h (Or.inr (Or.inl ⟨cs, rfl⟩))
  | addReader bs cs rows tr => exact add_readable t t' _ hr h (Or.inr (Or.inr ⟨bs, cs, rows, tr, rfl⟩))
  | alter alts => exact alter_readable t t' alts hw hr h
  | drop cs => exact absurd rfl (hnd cs)
  | merge c cs rows =>
    simp only [step, mergeCols] at h
    split at h
    · cases h
    · split at h
      · cases h
      · split at h
        · cases h
        · split at h
          · cases h
          · cases h
            simp [Tbl.readable, addFile]

/-! ## added values -/

/-- `add_values`, SqlExpressions: the j-th expression's column gets field id `max_field_id + 1 + j` and scans to the
    expression evaluated row by row on the table before the op -/
theorem add_values_sql (t t' : Tbl) (bs : Option Nat) (es : List (String × Expr)) (h : step t (.addSql bs es) = .ok t')
    (j : Nat) (hj : j < es.length) :
    ∃ fl ∈ t'.schema, fl.name = es[j].1 ∧ fl.id = t.maxFieldId + 1 + j ∧ scanCol t' fl.id = evalScan t es[j].2 :=
  addSql_values t t' bs es h j hj

example : ∃ t', step exT (.addSql (some 1) [("x", .plus "a" 1), ("z", .null .i32)]) = .ok t' ∧
    scanCol t' 1 = [some 8, some 2] ∧ scanCol t' 2 = [none, none] := ⟨_, rfl, by decide, by decide⟩

/-- `add_values`, AllNulls: the j-th column gets the next field id, no data file stores it, every row reads NULL -/
theorem add_values_nulls (t t' : Tbl) (cs : List ColDef) (h : step t (.addNulls cs) = .ok t') (j : Nat) (hj : j < cs.length) :
    ∃ fl ∈ t'.schema, fl.name = cs[j].name ∧ fl.id = t.maxFieldId + 1 + j ∧ fl.id ∉ t'.fileIds ∧
      scanCol t' fl.id = List.replicate (liveCount t) none :=
  addNulls_values t t' cs h j hj

/-- `add_values`, Reader / Stream: the op succeeds only with one stream row per live row, and the j-th column scans to
    the j-th column of the stream, in stream order — however the stream is cut into batches -/
theorem add_values_reader (t t' : Tbl) (bs : Option Nat) (cs : List ColDef) (rows : List Row) (tr : Bool)
    (h : step t (.addReader bs cs rows tr) = .ok t') (j : Nat) (hj : j < cs.length) :
    ∃ fl ∈ t'.schema, fl.name = cs[j].name ∧ fl.id = t.maxFieldId + 1 + j ∧ scanCol t' fl.id = colOf rows j ∧
      rows.length = liveCount t :=
  addReader_values t t' bs cs rows tr h j hj

example : ∃ t', step exT (.addReader none [⟨"r", .i32, false⟩] [[some 4], [some 5]] false) = .ok t' ∧
    scanCol t' 1 = [some 4, some 5] := ⟨_, rfl, by decide⟩

/-- `add_values`, Dataset::merge (hash-join add): the j-th right-hand value column gets field id `max_field_id + 1 + j` -
    numbered from the MANIFEST's maximum, so no data file of the version stores it - and scans to the join of the key
    column with the right-hand rows (`joinCell`: the value of the row with that key; the code refuses the merge when a
    live row would get a NULL in an Int32 / Int64 column, see `mergeNulls`) -/
theorem add_values_merge (t t' : Tbl) (c : String) (cs : List ColDef) (rows : List Row)
    (h : step t (.merge c cs rows) = .ok t') (j : Nat) (hj : j < cs.length) :
    ∃ key, findFld t.schema c = some key ∧
      ∃ fl ∈ t'.schema, fl.name = cs[j].name ∧ fl.id = t.maxFieldId + 1 + j ∧ fl.id ∉ t.fileIds ∧
        scanCol t' fl.id = (scanCol t key.id).map (joinCell rows j) :=
  mergeCols_values t t' c cs rows h j hj

example : ∃ t', step exT (.merge "a" [⟨"m", .i32, true⟩] [[some 1, some 11], [some 7, some 77], [some 9, some 99]]) = .ok t' ∧
    scanCol t' 1 = [some 77, some 11] := ⟨_, rfl, by decide⟩

/-! ## drop, then re-add the name -/

/-- `drop_readd_fresh`: drop a column, run ANY history, add a column of the same name again (here as AllNulls; for the
    other transforms see `drop_readd_fresh_sql` / `_reader`): the field gets an id that no data file of the version stores
    and no field uses, and every row reads NULL — never the dropped data -/
theorem drop_readd_fresh (t0 t1 t3 : Tbl) (n : String) (ops : List Op) (c : ColDef) (hname : c.name = n)
    (_hd : step t0 (.drop [n]) = .ok t1) (ha : step (run t1 ops) (.addNulls [c]) = .ok t3) :
    ∃ fl ∈ t3.schema, fl.name = n ∧ (run t1 ops).maxFieldId < fl.id ∧ fl.id ∉ (run t1 ops).fileIds ∧
      fl.id ∉ t3.fileIds ∧ scanCol t3 fl.id = List.replicate (liveCount (run t1 ops)) none := by
  obtain ⟨fl, hfl, h1, h2, h3, h4⟩ := add_values_nulls _ _ _ ha 0 (by simp)
  refine ⟨fl, hfl, by simpa [hname] using h1, by omega, fresh_not_stored _ _ (by omega), h3, h4⟩

/-- the same for a column re-added by an SQL expression: its cells are the expression's values on the current table -/
theorem drop_readd_fresh_sql (t0 t1 t3 : Tbl) (n : String) (ops : List Op) (bs : Option Nat) (e : Expr)
    (_hd : step t0 (.drop [n]) = .ok t1) (ha : step (run t1 ops) (.addSql bs [(n, e)]) = .ok t3) :
    ∃ fl ∈ t3.schema, fl.name = n ∧ (run t1 ops).maxFieldId < fl.id ∧ fl.id ∉ (run t1 ops).fileIds ∧
      scanCol t3 fl.id = evalScan (run t1 ops) e := by
  obtain ⟨fl, hfl, h1, h2, h3⟩ := add_values_sql _ _ _ _ ha 0 (by simp)
  exact ⟨fl, hfl, h1, by omega, fresh_not_stored _ _ (by omega), h3⟩

/-- the same for a column re-added from a reader: its cells are the stream's values -/
theorem drop_readd_fresh_reader (t0 t1 t3 : Tbl) (n : String) (ops : List Op) (bs : Option Nat) (c : ColDef)
    (rows : List Row) (tr : Bool) (hname : c.name = n)
    (_hd : step t0 (.drop [n]) = .ok t1) (ha : step (run t1 ops) (.addReader bs [c] rows tr) = .ok t3) :
    ∃ fl ∈ t3.schema, fl.name = n ∧ (run t1 ops).maxFieldId < fl.id ∧ fl.id ∉ (run t1 ops).fileIds ∧
      scanCol t3 fl.id = colOf rows 0 := by
  obtain ⟨fl, hfl, h1, h2, h3, _⟩ := add_values_reader _ _ _ _ _ _ ha 0 (by simp)
  exact ⟨fl, hfl, by simpa [hname] using h1, by omega, fresh_not_stored _ _ (by omega), h3⟩

/-- the same for a column re-added by Dataset::merge - the history of the seeded change of C05/1: drop the column with the
    highest field id while a shared data file still stores it, then merge: the new field's id is above everything the data
    files store, and the column holds the joined values -/
theorem drop_readd_fresh_merge (t0 t1 t3 : Tbl) (n : String) (ops : List Op) (c : String) (d : ColDef) (rows : List Row)
    (hname : d.name = n) (_hd : step t0 (.drop [n]) = .ok t1) (ha : step (run t1 ops) (.merge c [d] rows) = .ok t3) :
    ∃ key, findFld (run t1 ops).schema c = some key ∧
      ∃ fl ∈ t3.schema, fl.name = n ∧ (run t1 ops).maxFieldId < fl.id ∧ fl.id ∉ (run t1 ops).fileIds ∧
        scanCol t3 fl.id = (scanCol (run t1 ops) key.id).map (joinCell rows 0) := by
  obtain ⟨key, hk, fl, hfl, h1, h2, h3, h4⟩ := add_values_merge _ _ _ _ _ ha 0 (by simp)
  exact ⟨key, hk, fl, hfl, by simpa [hname] using h1, by omega, h3, h4⟩

/-- create a, b; drop b (its values stay in the shared data file: max_field_id stays 1); merge b back on key a: id 2 -/
example : ∃ t1 t3, step (create [⟨"a", .i64, true⟩, ⟨"b", .i64, true⟩] [[some 1, some 10], [some 2, some 20]]) (.drop ["b"]) = .ok t1 ∧
    t1.maxFieldId = 1 ∧ step t1 (.merge "a" [⟨"b", .i64, true⟩] [[some 2, some 5], [some 1, some 6]]) = .ok t3 ∧
    t3.schema.map (·.id) = [0, 2] ∧ t3.frags.map Frag.fileIds = [[0, 1, 2]] ∧ scanCol t3 2 = [some 6, some 5] :=
  ⟨_, _, rfl, by decide, rfl, by decide, by decide, by decide⟩

/-- non-vacuity, and the dangerous history: `x` is added with its own data file (field id 1), dropped (the file goes, the
    computed max_field_id falls back to 0), and re-added: the new `x` gets id 1 AGAIN — and still reads NULL, because no
    data file of the version stores id 1 -/
example : ∃ t1 t2 t3, step exT (.addSql none [("x", .plus "a" 1)]) = .ok t1 ∧ step t1 (.drop ["x"]) = .ok t2 ∧
    step (run t2 [.append [[some 3]], .delete "a" .eq 7]) (.addNulls [⟨"x", .i64, true⟩]) = .ok t3 ∧
    t3.schema.map (·.id) = [0, 1] ∧ scanCol t1 1 = [some 8, some 2] ∧ scanCol t3 1 = [none, none] :=
  ⟨_, _, _, rfl, rfl, rfl, by decide, by decide, by decide⟩

/-! ## shape, compaction -/

/-- every column of a well-formed table scans to one cell per live row -/
theorem scan_shape (t : Tbl) (hw : WF t) (id : Int) : (scanCol t id).length = liveCount t :=
  scanCol_length t hw.frags id

theorem keepLive_nil {α : Type} (i : Nat) (xs : List α) : keepLive [] i xs = xs := by
  induction xs generalizing i with
  | nil => rfl
  | cons x xs ih => simp [keepLive, ih]

theorem liveLen_nil (i n : Nat) : liveLen [] i n = n := by
  induction n generalizing i with
  | zero => rfl
  | succ n ih => simp [liveLen, ih]

/-- compaction (all fragments rewritten into one, deletions materialised, dropped fields left behind) keeps the number of
    rows and the cells of every column of the schema -/
theorem compact_preserves (t : Tbl) (hw : WF t) :
    liveCount (compact t) = liveCount t ∧ ∀ fl ∈ t.schema, scanCol (compact t) fl.id = scanCol t fl.id := by
  simp only [compact]
  split
  · refine ⟨by simp [liveCount, Frag.live, liveLen_nil, natSum], ?_⟩
    intro fl hfl
    obtain ⟨k, hk, rfl⟩ := List.mem_iff_getElem.mp hfl
    have hl := lookup_zip_getElem (ids := t.schema.map (·.id)) (cols := t.schema.map fun fl => scanCol t fl.id)
      hw.ids k (by simpa using hk) (by simpa using hk)
    simp only [List.getElem_map] at hl
    have hcol : Frag.column (⟨nextFragId t, liveCount t, [],
        [(t.schema.map (·.id)).zip (t.schema.map fun fl => scanCol t fl.id)]⟩ : Frag) t.schema[k].id
        = scanCol t t.schema[k].id := by
      simp only [Frag.column, lookupFiles, hl]
    show List.flatMap (fun f => Frag.liveCol f t.schema[k].id) [_] = _
    simp only [List.flatMap_cons, List.flatMap_nil, List.append_nil, Frag.liveCol, keepLive_nil, hcol]
  · exact ⟨rfl, fun _ _ => rfl⟩

example : (stepKeep (stepKeep exT (.append [[some 3]])) (.delete "a" .eq 7)).frags.length = 2 ∧
    (compact (stepKeep (stepKeep exT (.append [[some 3]])) (.delete "a" .eq 7))).frags.length = 1 ∧
    scanCol (compact (stepKeep (stepKeep exT (.append [[some 3]])) (.delete "a" .eq 7))) 0 = [some 1, some 3] := by decide

end LanceModel.C14
