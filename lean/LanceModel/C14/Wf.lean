import LanceModel.C14.WfLemmas
/-
C14: every operation preserves `WF` (field ids unique in the schema and inside every fragment, names unique, every data file
alive, columns of the right length); hence every reachable table is well formed.
-/
namespace LanceModel.C14
open LanceModel.Table

theorem wf_create (cs : List ColDef) (rows : List Row) (h : createOk cs rows = true) : WF (create cs rows) := by
  simp only [createOk, Bool.and_eq_true, Bool.not_eq_true', List.isEmpty_eq_false_iff] at h
  obtain ⟨⟨hne, hnames⟩, _⟩ := h
  have hne' : (mkFlds cs 0).map (·.id) ≠ [] := by
    cases cs with
    | nil => exact absurd rfl hne
    | cons c cs => simp [mkFlds]
  refine ⟨mkFlds_ids_nodup _ _, ?_, ?_, ?_⟩
  · simp only [create, mkFlds_names]; exact (namesDistinct_iff _).mp hnames
  · cases cs with
    | nil => exact absurd rfl hne
    | cons c cs => simp [create, mkFlds]
  · intro f hf
    simp only [create] at hf ⊢
    split at hf
    · cases hf
    · simp only [List.mem_singleton] at hf
      subst hf
      exact fragOk_fresh _ (mkFlds_ids_nodup _ _) hne' 0 rows.length _
        (by simp [colsOfRows_length, mkFlds_length]) (fun c hc => mem_colsOfRows hc)

theorem wf_append (t t' : Tbl) (rows : List Row) (hw : WF t) (h : append t rows = .ok t') : WF t' := by
  simp only [append] at h
  split at h
  · cases h
  · cases h
    refine ⟨hw.ids, hw.names, hw.nonempty, ?_⟩
    intro f hf
    simp only [List.mem_append, List.mem_singleton] at hf
    rcases hf with hf | rfl
    · exact hw.frags f hf
    · refine fragOk_fresh _ hw.ids ?_ _ rows.length _ (by simp [colsOfRows_length]) (fun c hc => mem_colsOfRows hc)
      intro he
      exact hw.nonempty (List.map_eq_nil_iff.mp he)

theorem wf_delete (t t' : Tbl) (c : String) (cmp : Cmp) (k : Int) (hw : WF t) (h : delete t c cmp k = .ok t') :
    WF t' := by
  simp only [delete] at h
  split at h
  · cases h
  · cases h
    refine ⟨hw.ids, hw.names, hw.nonempty, ?_⟩
    intro f hf
    simp only [List.mem_filter, List.mem_map] at hf
    obtain ⟨⟨g, hg, rfl⟩, _⟩ := hf
    have := hw.frags g hg
    exact ⟨this.nodup, this.livefile, this.len⟩

theorem wf_compact (t : Tbl) (hw : WF t) : WF (compact t) := by
  simp only [compact]
  split
  · refine ⟨hw.ids, hw.names, hw.nonempty, ?_⟩
    intro f hf
    simp only [List.mem_singleton] at hf
    subst hf
    refine fragOk_fresh _ hw.ids ?_ _ (liveCount t) _ (by simp) ?_
    · intro he
      exact hw.nonempty (List.map_eq_nil_iff.mp he)
    · intro c hc
      obtain ⟨fl, _, rfl⟩ := List.mem_map.mp hc
      exact scanCol_length t hw.frags fl.id
  · exact hw

theorem exprDef_name (s : List Fld) (n : String) (e : Expr) : (exprDef s n e).name = n := by
  cases e <;> simp only [exprDef] <;> split <;> rfl

theorem exprDefs_names (s : List Fld) (es : List (String × Expr)) :
    (es.map fun e => exprDef s e.1 e.2).map (·.name) = es.map (·.1) := by
  simp [List.map_map, Function.comp_def, exprDef_name]

theorem exprCol_length {ids : List Int} {f : Frag} (h : FragOk ids f) (s : List Fld) (e : Expr) :
    (exprCol s f e).length = f.phys := by
  cases e <;> simp only [exprCol]
  · split <;> simp [column_length h]
  · split <;> simp [column_length h]
  · simp

theorem mem_append_ids {s s' : List Fld} : ∀ i ∈ s.map (·.id), i ∈ (s ++ s').map (·.id) := by
  intro i hi
  rw [List.map_append]
  exact List.mem_append_left _ hi

/-- a fragment of `t` after `add_columns` wrote the data file `ids.zip cols` of fresh ids for it -/
theorem fragOk_add (t : Tbl) (hw : WF t) (cs : List ColDef) (hcs : cs ≠ []) (f : Frag) (hf : f ∈ t.frags)
    (mk : Frag → DFile) (hmk : ∃ cols : List (List Cell), mk f = ((mkFlds cs (t.maxFieldId + 1)).map (·.id)).zip cols ∧
      cols.length = cs.length ∧ ∀ c ∈ cols, c.length = f.phys) :
    FragOk ((t.schema ++ mkFlds cs (t.maxFieldId + 1)).map (·.id)) (addFile mk f) := by
  obtain ⟨cols, hmk, hcl, hlen⟩ := hmk
  have hz : (mk f).ids = (mkFlds cs (t.maxFieldId + 1)).map (·.id) := by
    rw [hmk]; exact zip_ids (by simp [mkFlds_length, hcl])
  refine fragOk_addFile mk (hw.frags f hf) mem_append_ids ?_ ?_ ?_ ?_
  · rw [hz]; exact mkFlds_ids_nodup _ _
  · intro i hi hm
    rw [hz] at hi
    have := mkFlds_ids_ge hi
    have := file_id_le_max t (mem_fileIds hf hm)
    omega
  · rw [hz]
    cases cs with
    | nil => exact absurd rfl hcs
    | cons c cs =>
      refine ⟨t.maxFieldId + 1, by simp [mkFlds], ?_⟩
      simp [mkFlds]
  · intro p hp
    rw [hmk] at hp
    exact hlen _ (List.of_mem_zip hp).2

theorem wf_addSql (t t' : Tbl) (bs : Option Nat) (es : List (String × Expr)) (hw : WF t)
    (h : addSql t bs es = .ok t') : WF t' := by
  simp only [addSql] at h
  split at h
  · cases h
  · rename_i h0
    simp only [Bool.or_eq_true, Bool.not_eq_true', not_or, Bool.not_eq_true, Bool.not_eq_false] at h0
    split at h
    · cases h
    · split at h
      · cases h
      · rename_i hnew
        have hnames : namesDistinct ((es.map fun e => exprDef t.schema e.1 e.2).map (·.name)) = true := by
          rw [exprDefs_names]; exact h0.2
        have hnew' : ∀ c ∈ es.map (fun e => exprDef t.schema e.1 e.2), (findFld t.schema c.name).isSome = false := by
          intro c hc
          obtain ⟨e, he, rfl⟩ := List.mem_map.mp hc
          rw [exprDef_name]
          exact Bool.eq_false_iff.mpr (fun hc => hnew (List.any_eq_true.mpr ⟨e, he, hc⟩))
        obtain ⟨hi, hn, hne⟩ := schema_append_ok t hw _ hnames hnew'
        have hes : es.map (fun e => exprDef t.schema e.1 e.2) ≠ [] := by
          intro he
          have := List.map_eq_nil_iff.mp he
          simp [this] at h0
        split at h
        · cases h
          exact ⟨hi, hn, hne, fun f hf => fragOk_mono mem_append_ids (hw.frags f hf)⟩
        · split at h
          · cases h
          · cases h
            refine ⟨hi, hn, hne, ?_⟩
            intro f' hf'
            obtain ⟨f, hf, rfl⟩ := List.mem_map.mp hf'
            refine fragOk_add t hw _ hes f hf _ ⟨_, rfl, by simp, ?_⟩
            intro c hc
            obtain ⟨e, _, rfl⟩ := List.mem_map.mp hc
            exact exprCol_length (hw.frags f hf) _ _

theorem wf_addNulls (t t' : Tbl) (cs : List ColDef) (hw : WF t) (h : addNulls t cs = .ok t') : WF t' := by
  simp only [addNulls] at h
  split at h
  · cases h
  · rename_i h0
    simp only [Bool.or_eq_true, Bool.not_eq_true', not_or, Bool.not_eq_true, Bool.not_eq_false] at h0
    split at h
    · cases h
    · rename_i hnew
      split at h
      · cases h
      · cases h
        have hnew' : ∀ c ∈ cs, (findFld t.schema c.name).isSome = false := by
          intro c hc
          exact Bool.eq_false_iff.mpr (fun hx => hnew (List.any_eq_true.mpr ⟨c, hc, hx⟩))
        obtain ⟨hi, hn, hne⟩ := schema_append_ok t hw cs h0.2 hnew'
        exact ⟨hi, hn, hne, fun f hf => fragOk_mono mem_append_ids (hw.frags f hf)⟩

theorem feed_fragOk (t : Tbl) (hw : WF t) (cs : List ColDef) (hcs : cs ≠ []) (bs : Nat) (tr : Bool) :
    ∀ (fs : List Frag) (rest : List Row) (fs' : List Frag), (∀ f ∈ fs, f ∈ t.frags) →
      feed bs ((mkFlds cs (t.maxFieldId + 1)).map (·.id)) cs.length tr fs rest = .ok fs' →
      ∀ f' ∈ fs', FragOk ((t.schema ++ mkFlds cs (t.maxFieldId + 1)).map (·.id)) f' := by
  intro fs
  induction fs with
  | nil =>
    intro rest fs' _ h
    simp only [feed] at h
    split at h
    · cases h; intro f' hf'; cases hf'
    · cases h
  | cons f fs ih =>
    intro rest fs' hsub h
    simp only [feed] at h
    split at h
    · cases h
    · split at h
      · cases h
      · split at h
        · cases h
        · rename_i fs'' heq
          cases h
          intro f' hf'
          rcases List.mem_cons.mp hf' with rfl | hf'
          · refine fragOk_add t hw cs hcs f (hsub f List.mem_cons_self) _ ⟨_, rfl, by simp [colsOfRows_length], ?_⟩
            intro c hc
            obtain ⟨c0, _, rfl⟩ := List.mem_map.mp hc
            exact spread_length _ _ _ _
          · exact ih _ _ (fun g hg => hsub g (List.mem_cons_of_mem _ hg)) heq f' hf'

theorem wf_addReader (t t' : Tbl) (bs : Option Nat) (cs : List ColDef) (rows : List Row) (tr : Bool) (hw : WF t)
    (h : addReader t bs cs rows tr = .ok t') : WF t' := by
  simp only [addReader] at h
  split at h
  · cases h
  · rename_i h0
    simp only [Bool.or_eq_true, Bool.not_eq_true', not_or, Bool.not_eq_true, Bool.not_eq_false] at h0
    split at h
    · cases h
    · rename_i hnew
      split at h
      · cases h
      · rename_i fs hfeed
        cases h
        have hnew' : ∀ c ∈ cs, (findFld t.schema c.name).isSome = false := by
          intro c hc
          exact Bool.eq_false_iff.mpr (fun hx => hnew (List.any_eq_true.mpr ⟨c, hc, hx⟩))
        obtain ⟨hi, hn, hne⟩ := schema_append_ok t hw cs h0.1.2 hnew'
        have hcs : cs ≠ [] := by
          intro he; simp [he] at h0
        exact ⟨hi, hn, hne, feed_fragOk t hw cs hcs _ tr _ _ _ (fun _ hf => hf) hfeed⟩

theorem wf_merge (t t' : Tbl) (c : String) (cs : List ColDef) (rows : List Row) (hw : WF t)
    (h : mergeCols t c cs rows = .ok t') : WF t' := by
  simp only [mergeCols] at h
  split at h
  · cases h
  · rename_i h0
    simp only [mergeOk, Bool.not_eq_true', Bool.and_eq_false_iff, not_or, Bool.not_eq_false, Bool.and_eq_true,
      Bool.not_eq_true, List.isEmpty_eq_false_iff] at h0
    split at h
    · cases h
    · rename_i key _
      split at h
      · cases h
      · rename_i hnew
        split at h
        · cases h
        · cases h
          have hnew' : ∀ d ∈ cs, (findFld t.schema d.name).isSome = false := by
            intro d hd
            exact Bool.eq_false_iff.mpr (fun hx => hnew (List.any_eq_true.mpr ⟨d, hd, hx⟩))
          obtain ⟨hi, hn, hne⟩ := schema_append_ok t hw cs h0.1.1.1.2 hnew'
          refine ⟨hi, hn, hne, ?_⟩
          intro f' hf'
          obtain ⟨f, hf, rfl⟩ := List.mem_map.mp hf'
          refine fragOk_add t hw cs h0.1.1.1.1 f hf _ ⟨_, rfl, by simp, ?_⟩
          intro col hc
          obtain ⟨j, _, rfl⟩ := List.mem_map.mp hc
          simp [column_length (hw.frags f hf)]

/-! ### alter -/

theorem nodup_replace (l : List Int) (a b : Int) (hn : l.Nodup) (hb : b ∉ l) :
    (l.map fun i => if i = a then b else i).Nodup := by
  induction l with
  | nil => simp
  | cons x xs ih =>
    simp only [List.mem_cons, not_or] at hb
    obtain ⟨hx, hxs⟩ := List.nodup_cons.mp hn
    simp only [List.map_cons, List.nodup_cons]
    refine ⟨?_, ih hxs hb.2⟩
    intro hm
    obtain ⟨y, hy, he⟩ := List.mem_map.mp hm
    by_cases hya : y = a
    · by_cases hxa : x = a
      · subst hya hxa; exact hx hy
      · simp only [hya, if_true, hxa, if_false] at he
        exact hb.1 he
    · by_cases hxa : x = a
      · simp only [hya, if_false, hxa, if_true] at he
        subst he; exact hb.2 hy
      · simp only [hya, if_false, hxa] at he
        subst he; exact hx hy

theorem map_upd_ids_same (s : List Fld) (a : Int) (g : Fld → Fld) (hg : ∀ fl, (g fl).id = fl.id) :
    (s.map fun fl => if fl.id = a then g fl else fl).map (·.id) = s.map (·.id) := by
  induction s with
  | nil => rfl
  | cons x xs ih =>
    simp only [List.map_cons, ih, List.cons.injEq, and_true]
    split
    · exact hg x
    · rfl

theorem map_upd_ids_cast (s : List Fld) (a b : Int) (g : Fld → Fld) (hg : ∀ fl, (g fl).id = b) :
    (s.map fun fl => if fl.id = a then g fl else fl).map (·.id) = (s.map (·.id)).map fun i => if i = a then b else i := by
  induction s with
  | nil => rfl
  | cons x xs ih =>
    simp only [List.map_cons, ih, List.cons.injEq, and_true]
    split
    · exact hg x
    · rfl

theorem altUpd_id (a : Alt) (fl : Fld) : (altUpd a fl).id = fl.id := rfl

theorem applyAlts_inv (old : List Fld) :
    ∀ (alts : List Alt) (st st' : AltSt), applyAlts old st alts = .ok st' →
      (st.schema.map (·.id)).Nodup → (∀ i ∈ st.schema.map (·.id), i < st.next) →
      (st'.schema.map (·.id)).Nodup ∧ (∀ i ∈ st'.schema.map (·.id), i < st'.next) ∧
        st'.schema.length = st.schema.length := by
  intro alts
  induction alts with
  | nil => intro st st' h h1 h2; simp only [applyAlts] at h; cases h; exact ⟨h1, h2, rfl⟩
  | cons a as ih =>
    intro st st' h hn hlt
    simp only [applyAlts] at h
    split at h
    · cases h
    · rename_i st1 h1
      simp only [applyAlt] at h1
      split at h1
      · cases h1
      · rename_i src _
        split at h1
        · cases h1
        · split at h1
          · cases h1
            have hids := map_upd_ids_same st.schema src.id (altUpd a) (altUpd_id a)
            obtain ⟨r1, r2, r3⟩ := ih _ st' h (by simp only [hids]; exact hn) (by simp only [hids]; exact hlt)
            exact ⟨r1, r2, by simpa using r3⟩
          · rename_i ty _
            cases h1
            have hids := map_upd_ids_cast st.schema src.id st.next
              (fun fl => { altUpd a fl with ty := ty, id := st.next }) (fun _ => rfl)
            have hnot : st.next ∉ st.schema.map (·.id) := fun hm => by have := hlt _ hm; omega
            obtain ⟨r1, r2, r3⟩ := ih _ st' h
              (by simp only [hids]; exact nodup_replace _ _ _ hn hnot)
              (by
                simp only [hids]
                intro i hi
                obtain ⟨y, hy, rfl⟩ := List.mem_map.mp hi
                have := hlt y hy
                split <;> omega)
            exact ⟨r1, r2, by simpa using r3⟩

theorem castFile_ids_sublist (s : List Fld) (casts : List (Int × Int)) (f : Frag) :
    (castFile s casts f).ids.Sublist (s.map (·.id)) := by
  induction s with
  | nil => exact List.Sublist.refl _
  | cons x xs ih =>
    simp only [castFile, List.filterMap_cons, List.map_cons] at ih ⊢
    split
    · rename_i hnone
      split at hnone
      · cases hnone
      · exact List.Sublist.cons _ ih
    · rename_i b hsome
      split at hsome
      · cases hsome
        simp only [DFile.ids, List.map_cons]
        exact List.Sublist.cons_cons _ ih
      · cases hsome

theorem castFile_len {ids : List Int} {f : Frag} (h : FragOk ids f) (s : List Fld) (casts : List (Int × Int)) :
    ∀ p ∈ castFile s casts f, p.2.length = f.phys := by
  intro p hp
  simp only [castFile, List.mem_filterMap] at hp
  obtain ⟨fl, _, hq⟩ := hp
  split at hq
  · cases hq; exact column_length h _
  · cases hq

theorem wf_project (t : Tbl) (hw : WF t) (s : List Fld) (hi : (s.map (·.id)).Nodup) (hn : (s.map (·.name)).Nodup)
    (hne : s ≠ []) : WF (project t s) := by
  refine ⟨hi, hn, hne, ?_⟩
  intro f' hf'
  simp only [project, List.mem_map] at hf'
  obtain ⟨f, hf, rfl⟩ := hf'
  exact fragOk_retain (hw.frags f hf).nodup (hw.frags f hf).len

theorem wf_alter (t t' : Tbl) (alts : List Alt) (hw : WF t) (h : alter t alts = .ok t') : WF t' := by
  simp only [alter] at h
  split at h
  · cases h
  · split at h
    · cases h
    · rename_i st hst
      obtain ⟨hids, _, hlen⟩ := applyAlts_inv t.schema alts _ st hst hw.ids (by
        intro i hi
        obtain ⟨fl, hfl, rfl⟩ := List.mem_map.mp hi
        have := schema_id_le_max t hfl
        simp only; omega)
      have hne : st.schema ≠ [] := by
        intro he
        rw [he] at hlen
        exact hw.nonempty (List.length_eq_zero_iff.mp hlen.symm)
      split at h
      · cases h
      · rename_i hnames
        have hnames' : (st.schema.map (·.name)).Nodup := (namesDistinct_iff _).mp (by simpa using hnames)
        split at h
        · cases h
          exact wf_project t hw _ hids hnames' hne
        · split at h
          · cases h
          · cases h
            refine ⟨hids, hnames', hne, ?_⟩
            intro f' hf'
            obtain ⟨f, hf, rfl⟩ := List.mem_map.mp hf'
            have hf0 := hw.frags f hf
            refine fragOk_retain ?_ ?_
            · rw [fileIds_addFile]
              refine nodup_append_of hf0.nodup ((castFile_ids_sublist _ _ _).nodup hids) ?_
              intro i hi hc
              obtain ⟨p, hp, rfl⟩ := castFile_ids_sub _ _ _ hc
              have hr := (applyAlts_casts t.schema (t.maxFieldId + 1) alts _ st hst (by simp)
                (by intro p hp; cases hp)).2 p hp
              have := file_id_le_max t (mem_fileIds hf hi)
              omega
            · intro d hd
              simp only [addFile, List.mem_append, List.mem_singleton] at hd
              rcases hd with hd | rfl
              · exact hf0.len d hd
              · exact castFile_len hf0 _ _

theorem wf_drop (t t' : Tbl) (cs : List String) (hw : WF t) (h : dropCols t cs = .ok t') : WF t' := by
  simp only [dropCols] at h
  split at h
  · cases h
  · split at h
    · cases h
    · split at h
      · cases h
      · rename_i hne
        cases h
        refine wf_project t hw _ ?_ ?_ ?_
        · exact (List.Sublist.map _ List.filter_sublist).nodup hw.ids
        · exact (List.Sublist.map _ List.filter_sublist).nodup hw.names
        · intro he
          rw [he] at hne
          exact hne rfl

/-- `field_ids_unique`, one step -/
theorem wf_step (t t' : Tbl) (op : Op) (hw : WF t) (h : step t op = .ok t') : WF t' := by
  cases op with
  | append rows => exact wf_append t t' rows hw h
  | delete c cmp k => exact wf_delete t t' c cmp k hw h
  | compact => simp only [step] at h; cases h; exact wf_compact t hw
  | addSql bs es => exact wf_addSql t t' bs es hw h
  | addNulls cs => exact wf_addNulls t t' cs hw h
  | addReader bs cs rows tr => exact wf_addReader t t' bs cs rows tr hw h
  | alter alts => exact wf_alter t t' alts hw h
  | drop cs => exact wf_drop t t' cs hw h
  | merge c cs rows => exact wf_merge t t' c cs rows hw h

theorem wf_stepKeep (t : Tbl) (op : Op) (hw : WF t) : WF (stepKeep t op) := by
  simp only [stepKeep]
  split
  · rename_i t' h; exact wf_step t t' op hw h
  · exact hw

theorem wf_run (t : Tbl) (ops : List Op) (hw : WF t) : WF (run t ops) := by
  induction ops generalizing t with
  | nil => exact hw
  | cons op ops ih => exact ih _ (wf_stepKeep t op hw)

end LanceModel.C14
