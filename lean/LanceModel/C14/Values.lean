import LanceModel.C14.WfLemmas
/-
C14: the added columns hold exactly the requested values (`add_values`), and a field id that no data file stores reads NULL.
-/
namespace LanceModel.C14
open LanceModel.Table

/-- the requested values of an SQL expression: the expression row by row over the scan of the table BEFORE the op -/
def evalScan (t : Tbl) : Expr → List Cell
  | .col c =>
    match findFld t.schema c with
    | some fl => scanCol t fl.id
    | none => []
  | .plus c k =>
    match findFld t.schema c with
    | some fl => (scanCol t fl.id).map (addK k)
    | none => []
  | .null _ => List.replicate (liveCount t) none

theorem flatMap_map_congr {β : Type} (fs : List Frag) (g : Frag → Frag) (F G : Frag → List β)
    (h : ∀ f ∈ fs, F (g f) = G f) : (fs.map g).flatMap F = fs.flatMap G := by
  induction fs with
  | nil => rfl
  | cons f fs ih =>
    simp only [List.map_cons, List.flatMap_cons, h f List.mem_cons_self,
      ih (fun f hf => h f (List.mem_cons_of_mem _ hf))]

theorem flatMap_congr' {β : Type} (fs : List Frag) (F G : Frag → List β) (h : ∀ f ∈ fs, F f = G f) :
    fs.flatMap F = fs.flatMap G := by
  induction fs with
  | nil => rfl
  | cons f fs ih =>
    simp only [List.flatMap_cons, h f List.mem_cons_self, ih (fun f hf => h f (List.mem_cons_of_mem _ hf))]

theorem liveCol_not_stored (f : Frag) (id : Int) (h : id ∉ f.fileIds) :
    f.liveCol id = List.replicate f.live none := by
  simp only [Frag.liveCol, Frag.column, lookupFiles_none h, keepLive_replicate, Frag.live]

/-- a field that no data file of the version stores reads NULL in every row -/
theorem scanCol_not_stored (t : Tbl) (id : Int) (h : id ∉ t.fileIds) :
    scanCol t id = List.replicate (liveCount t) none := by
  simp only [scanCol, liveCount]
  rw [flatMap_congr' t.frags _ (fun f => List.replicate f.live none)
    (fun f hf => liveCol_not_stored f id (fun hm => h (mem_fileIds hf hm)))]
  exact flatMap_replicate_none _

theorem fresh_not_stored (t : Tbl) (i : Int) (h : t.maxFieldId < i) : i ∉ t.fileIds :=
  fun hm => by have := file_id_le_max t hm; omega

theorem fresh_not_in_schema (t : Tbl) (i : Int) (h : t.maxFieldId < i) : i ∉ t.schema.map (·.id) := by
  intro hm
  obtain ⟨fl, hfl, rfl⟩ := List.mem_map.mp hm
  have := schema_id_le_max t hfl
  omega

/-- the column read back from the data file `ids.zip cols` that was added for fresh ids -/
theorem column_added (f : Frag) (mk : Frag → DFile) (ids : List Int) (cols : List (List Cell))
    (hmk : mk f = ids.zip cols) (hn : ids.Nodup) (j : Nat)
    (h1 : j < ids.length) (h2 : j < cols.length) (hf : ids[j] ∉ f.fileIds) :
    (addFile mk f).column ids[j] = cols[j] := by
  simp only [Frag.column, addFile, lookupFiles_append, lookupFiles_none hf, lookupFiles, hmk,
    lookup_zip_getElem hn j h1 h2]

theorem exprCol_live (s : List Fld) (f : Frag) (e : Expr) :
    keepLive f.dels 0 (exprCol s f e) =
      match e with
      | .col c =>
        match findFld s c with
        | some fl => f.liveCol fl.id
        | none => List.replicate f.live none
      | .plus c k =>
        match findFld s c with
        | some fl => (f.liveCol fl.id).map (addK k)
        | none => List.replicate f.live none
      | .null _ => List.replicate f.live none := by
  cases e with
  | col c =>
    cases hf : findFld s c with
    | some fl => simp only [exprCol, hf, Frag.liveCol]
    | none => simp only [exprCol, hf, keepLive_replicate, Frag.live]
  | plus c k =>
    cases hf : findFld s c with
    | some fl => simp only [exprCol, hf, keepLive_map, Frag.liveCol]
    | none => simp only [exprCol, hf, keepLive_replicate, Frag.live]
  | null ty => simp only [exprCol, keepLive_replicate, Frag.live]

theorem map_flatMap' {α β γ : Type} (g : β → γ) (F : α → List β) (l : List α) :
    l.flatMap (fun x => (F x).map g) = (l.flatMap F).map g := by
  induction l with
  | nil => rfl
  | cons x xs ih => simp [List.flatMap_cons, ih]

theorem flatMap_exprCol (t : Tbl) (e : Expr) (hok : exprOk t.schema e = true) :
    t.frags.flatMap (fun f => keepLive f.dels 0 (exprCol t.schema f e)) = evalScan t e := by
  rw [flatMap_congr' t.frags _ _ (fun f _ => exprCol_live t.schema f e)]
  cases e with
  | col c =>
    simp only [exprOk] at hok
    simp only [evalScan]
    cases hf : findFld t.schema c with
    | none => rw [hf] at hok; cases hok
    | some fl => rfl
  | plus c k =>
    simp only [exprOk] at hok
    simp only [evalScan]
    cases hf : findFld t.schema c with
    | none => rw [hf] at hok; cases hok
    | some fl => exact map_flatMap' _ _ _
  | null ty => exact flatMap_replicate_none _

/-- `add_values`, SQL expressions: the j-th new column gets the next field id and holds the expression's values -/
theorem addSql_values (t t' : Tbl) (bs : Option Nat) (es : List (String × Expr)) (h : addSql t bs es = .ok t')
    (j : Nat) (hj : j < es.length) :
    ∃ fl ∈ t'.schema, fl.name = es[j].1 ∧ fl.id = t.maxFieldId + 1 + j ∧ scanCol t' fl.id = evalScan t es[j].2 := by
  have hlen : (es.map fun e => exprDef t.schema e.1 e.2).length = es.length := by simp
  have hj' : j < (mkFlds (es.map fun e => exprDef t.schema e.1 e.2) (t.maxFieldId + 1)).length := by
    rw [mkFlds_length, hlen]; exact hj
  have hget := mkFlds_getElem (es.map fun e => exprDef t.schema e.1 e.2) (t.maxFieldId + 1) j (by rw [hlen]; exact hj)
  have hname : ((mkFlds (es.map fun e => exprDef t.schema e.1 e.2) (t.maxFieldId + 1))[j]'hj').name = es[j].1 := by
    rw [hget]; simp [exprDef_name']
  have hid : ((mkFlds (es.map fun e => exprDef t.schema e.1 e.2) (t.maxFieldId + 1))[j]'hj').id = t.maxFieldId + 1 + j := by
    rw [hget]
  simp only [addSql] at h
  split at h
  · cases h
  · split at h
    · cases h
    · rename_i hok
      have hokj : exprOk t.schema es[j].2 = true := by
        cases hx : exprOk t.schema es[j].2 with
        | true => rfl
        | false => exact absurd (List.any_eq_true.mpr ⟨es[j], List.getElem_mem hj, by simp [hx]⟩) hok
      split at h
      · cases h
      · split at h
        · rename_i hall
          cases h
          refine ⟨_, List.mem_append_right _ (List.getElem_mem hj'), hname, hid, ?_⟩
          rw [hid]
          have hnull : es[j].2.isNull = true := List.all_eq_true.mp hall es[j] (List.getElem_mem hj)
          have : scanCol { t with schema := t.schema ++ mkFlds (es.map fun e => exprDef t.schema e.1 e.2) (t.maxFieldId + 1) }
              (t.maxFieldId + 1 + j) = scanCol t (t.maxFieldId + 1 + j) := rfl
          rw [this, scanCol_not_stored t _ (fresh_not_stored t _ (by omega))]
          cases he : es[j].2 with
          | null ty => rfl
          | col c => rw [he] at hnull; cases hnull
          | plus c k => rw [he] at hnull; cases hnull
        · split at h
          · cases h
          · cases h
            refine ⟨_, List.mem_append_right _ (List.getElem_mem hj'), hname, hid, ?_⟩
            rw [← flatMap_exprCol t es[j].2 hokj]
            simp only [scanCol]
            refine flatMap_map_congr _ _ _ _ (fun f hf => ?_)
            have hjm : j < ((mkFlds (es.map fun e => exprDef t.schema e.1 e.2) (t.maxFieldId + 1)).map (·.id)).length := by
              simpa using hj'
            have hidx : ((mkFlds (es.map fun e => exprDef t.schema e.1 e.2) (t.maxFieldId + 1)).map (·.id))[j]'hjm
                = ((mkFlds (es.map fun e => exprDef t.schema e.1 e.2) (t.maxFieldId + 1))[j]'hj').id := by
              simp
            have hc := column_added f (fun f => ((mkFlds (es.map fun e => exprDef t.schema e.1 e.2) (t.maxFieldId + 1)).map (·.id)).zip
                (es.map fun e => exprCol t.schema f e.2)) _ (es.map fun e => exprCol t.schema f e.2) rfl
              (mkFlds_ids_nodup _ _) j hjm
              (by simpa using hj) (by
                rw [hidx, hid]
                exact fun hm => fresh_not_stored t _ (by omega) (mem_fileIds hf hm))
            rw [hidx] at hc
            show keepLive f.dels 0 ((addFile _ f).column _) = _
            rw [hc]
            simp only [List.getElem_map]
where
  exprDef_name' (s : List Fld) (n : String) (e : Expr) : (exprDef s n e).name = n := by
    cases e <;> simp only [exprDef] <;> split <;> rfl

/-- `add_values`, AllNulls: the j-th new column gets the next field id, no data file stores it, it reads NULL -/
theorem addNulls_values (t t' : Tbl) (cs : List ColDef) (h : addNulls t cs = .ok t') (j : Nat) (hj : j < cs.length) :
    ∃ fl ∈ t'.schema, fl.name = cs[j].name ∧ fl.id = t.maxFieldId + 1 + j ∧ fl.id ∉ t'.fileIds ∧
      scanCol t' fl.id = List.replicate (liveCount t) none := by
  have hj' : j < (mkFlds cs (t.maxFieldId + 1)).length := by rw [mkFlds_length]; exact hj
  have hget := mkFlds_getElem cs (t.maxFieldId + 1) j hj
  simp only [addNulls] at h
  split at h
  · cases h
  · split at h
    · cases h
    · split at h
      · cases h
      · cases h
        refine ⟨_, List.mem_append_right _ (List.getElem_mem hj'), by rw [hget], by rw [hget], ?_, ?_⟩
        · rw [hget]
          exact fresh_not_stored t _ (by simp only; omega)
        · rw [hget]
          exact scanCol_not_stored t _ (fresh_not_stored t _ (by simp only; omega))

/-- `add_values`, Dataset::merge: the j-th right-hand value column gets field id `max_field_id + 1 + j`, which no data file of
    the version stores, and scans to the hash join of the key column with the right-hand rows -/
theorem mergeCols_values (t t' : Tbl) (c : String) (cs : List ColDef) (rows : List Row)
    (h : mergeCols t c cs rows = .ok t') (j : Nat) (hj : j < cs.length) :
    ∃ key, findFld t.schema c = some key ∧
      ∃ fl ∈ t'.schema, fl.name = cs[j].name ∧ fl.id = t.maxFieldId + 1 + j ∧ fl.id ∉ t.fileIds ∧
        scanCol t' fl.id = (scanCol t key.id).map (joinCell rows j) := by
  have hj' : j < (mkFlds cs (t.maxFieldId + 1)).length := by rw [mkFlds_length]; exact hj
  have hget := mkFlds_getElem cs (t.maxFieldId + 1) j hj
  have hjm : j < ((mkFlds cs (t.maxFieldId + 1)).map (·.id)).length := by simpa using hj'
  have hidx : ((mkFlds cs (t.maxFieldId + 1)).map (·.id))[j]'hjm = t.maxFieldId + 1 + j := by
    simp [hget]
  simp only [mergeCols] at h
  split at h
  · cases h
  · split at h
    · cases h
    · rename_i key hkey
      split at h
      · cases h
      · split at h
        · cases h
        · cases h
          refine ⟨key, hkey, _, List.mem_append_right _ (List.getElem_mem hj'), by rw [hget], by rw [hget], ?_, ?_⟩
          · rw [hget]; exact fresh_not_stored t _ (by simp only; omega)
          · rw [hget]
            simp only [scanCol]
            rw [← map_flatMap']
            refine flatMap_map_congr _ _ _ _ (fun f hf => ?_)
            have hc := column_added f (fun f => ((mkFlds cs (t.maxFieldId + 1)).map (·.id)).zip
                ((List.range cs.length).map fun j => (f.column key.id).map (joinCell rows j))) _
              ((List.range cs.length).map fun j => (f.column key.id).map (joinCell rows j)) rfl
              (mkFlds_ids_nodup _ _) j hjm (by simpa using hj) (by
                rw [hidx]
                exact fun hm => fresh_not_stored t _ (by omega) (mem_fileIds hf hm))
            rw [hidx] at hc
            show keepLive f.dels 0 ((addFile _ f).column _) = _
            rw [hc]
            simp only [List.getElem_map, List.getElem_range, keepLive_map, Frag.liveCol]

theorem colOf_append (a b : List Row) (j : Nat) : colOf (a ++ b) j = colOf a j ++ colOf b j := by
  simp [colOf]

theorem feed_values (bs : Nat) (ids : List Int) (w : Nat) (tr : Bool) (hn : ids.Nodup) (hw : ids.length = w)
    (j : Nat) (hj : j < ids.length) :
    ∀ (fs : List Frag) (rest : List Row) (fs' : List Frag), (∀ f ∈ fs, ids[j] ∉ f.fileIds) →
      feed bs ids w tr fs rest = .ok fs' →
      fs'.flatMap (·.liveCol ids[j]) = colOf rest j ∧ rest.length = natSum (fs.map (·.live)) := by
  intro fs
  induction fs with
  | nil =>
    intro rest fs' _ h
    simp only [feed] at h
    split at h
    · rename_i hr
      cases h
      simp only [Bool.and_eq_true, List.isEmpty_iff] at hr
      simp [hr.1, colOf, natSum]
    · cases h
  | cons f fs ih =>
    intro rest fs' hfresh h
    simp only [feed] at h
    split at h
    · cases h
    · split at h
      · cases h
      · rename_i hlen
        split at h
        · cases h
        · rename_i fs'' heq
          cases h
          obtain ⟨ih1, ih2⟩ := ih _ _ (fun g hg => hfresh g (List.mem_cons_of_mem _ hg)) heq
          have hjw : j < ((colsOfRows w (List.take f.live rest)).map (spread f.dels 0 f.phys)).length := by
            simp [colsOfRows_length]; omega
          have hc := column_added f
            (fun f => ids.zip ((colsOfRows w (List.take f.live rest)).map (spread f.dels 0 f.phys))) ids _ rfl
            hn j hj hjw (hfresh f List.mem_cons_self)
          have htake : (List.take f.live rest).length = f.live := by
            rw [List.length_take]; omega
          refine ⟨?_, ?_⟩
          · simp only [List.flatMap_cons, ih1]
            show keepLive f.dels 0 ((addFile _ f).column ids[j]) ++ _ = _
            rw [hc]
            simp only [List.getElem_map, colsOfRows, List.getElem_range]
            rw [keepLive_spread _ _ _ _ (by simp only [colOf, List.length_map, htake]; rfl)]
            rw [← colOf_append, List.take_append_drop]
          · simp only [List.map_cons, natSum, ← ih2, List.length_drop]
            omega

/-- `add_values`, Reader / Stream: the j-th new column gets the next field id and holds the j-th column of the stream -/
theorem addReader_values (t t' : Tbl) (bs : Option Nat) (cs : List ColDef) (rows : List Row) (tr : Bool)
    (h : addReader t bs cs rows tr = .ok t') (j : Nat) (hj : j < cs.length) :
    ∃ fl ∈ t'.schema, fl.name = cs[j].name ∧ fl.id = t.maxFieldId + 1 + j ∧ scanCol t' fl.id = colOf rows j ∧
      rows.length = liveCount t := by
  have hj' : j < (mkFlds cs (t.maxFieldId + 1)).length := by rw [mkFlds_length]; exact hj
  have hget := mkFlds_getElem cs (t.maxFieldId + 1) j hj
  have hjm : j < ((mkFlds cs (t.maxFieldId + 1)).map (·.id)).length := by simpa using hj'
  have hidx : ((mkFlds cs (t.maxFieldId + 1)).map (·.id))[j]'hjm = t.maxFieldId + 1 + j := by
    simp [hget]
  simp only [addReader] at h
  split at h
  · cases h
  · split at h
    · cases h
    · split at h
      · cases h
      · rename_i fs hfeed
        cases h
        obtain ⟨v1, v2⟩ := feed_values _ _ _ tr (mkFlds_ids_nodup cs (t.maxFieldId + 1)) (by simp [mkFlds_length]) j hjm
          t.frags rows fs (by
            intro f hf hm
            rw [hidx] at hm
            exact fresh_not_stored t _ (by omega) (mem_fileIds hf hm)) hfeed
        refine ⟨_, List.mem_append_right _ (List.getElem_mem hj'), by rw [hget], by rw [hget], ?_, v2⟩
        rw [hget]
        simp only [scanCol]
        rw [hidx] at v1
        exact v1

end LanceModel.C14
