import LanceModel.C14.Model
/-
C14 helper lemmas: maxima, generated field ids, data-file lookup, live filtering.
-/
namespace LanceModel.C14
open LanceModel.Table

/-! ### maxOf -/

theorem le_maxOf {l : List Int} {x : Int} (h : x ∈ l) : x ≤ maxOf l := by
  induction l with
  | nil => cases h
  | cons y ys ih =>
    simp only [maxOf]
    rcases List.mem_cons.mp h with rfl | h
    · omega
    · have := ih h; omega

theorem schema_id_le_max (t : Tbl) {fl : Fld} (h : fl ∈ t.schema) : fl.id ≤ t.maxFieldId := by
  have : fl.id ≤ maxOf (t.schema.map (·.id)) := le_maxOf (List.mem_map.mpr ⟨fl, h, rfl⟩)
  simp only [Tbl.maxFieldId]; omega

theorem file_id_le_max (t : Tbl) {i : Int} (h : i ∈ t.fileIds) : i ≤ t.maxFieldId := by
  have : i ≤ maxOf t.fileIds := le_maxOf h
  simp only [Tbl.maxFieldId]; omega

theorem mem_fileIds {t : Tbl} {f : Frag} {i : Int} (hf : f ∈ t.frags) (hi : i ∈ f.fileIds) : i ∈ t.fileIds :=
  List.mem_flatMap.mpr ⟨f, hf, hi⟩

theorem mem_frag_fileIds {f : Frag} {d : DFile} {i : Int} (hd : d ∈ f.files) (hi : i ∈ d.ids) : i ∈ f.fileIds :=
  List.mem_flatMap.mpr ⟨d, hd, hi⟩

/-! ### namesDistinct -/

theorem namesDistinct_iff (l : List String) : namesDistinct l = true ↔ l.Nodup := by
  induction l with
  | nil => simp [namesDistinct]
  | cons x xs ih => simp [namesDistinct, ih, List.nodup_cons]

/-! ### mkFlds -/

theorem mkFlds_length (cs : List ColDef) (s : Int) : (mkFlds cs s).length = cs.length := by
  induction cs generalizing s with
  | nil => rfl
  | cons c cs ih => simp [mkFlds, ih]

theorem mkFlds_names (cs : List ColDef) (s : Int) : (mkFlds cs s).map (·.name) = cs.map (·.name) := by
  induction cs generalizing s with
  | nil => rfl
  | cons c cs ih => simp [mkFlds, ih]

theorem mkFlds_id_range {cs : List ColDef} {s : Int} {fl : Fld} (h : fl ∈ mkFlds cs s) :
    s ≤ fl.id ∧ fl.id < s + cs.length := by
  induction cs generalizing s with
  | nil => simp [mkFlds] at h
  | cons c cs ih =>
    simp only [mkFlds, List.mem_cons] at h
    rcases h with rfl | h
    · simp only [List.length_cons]; omega
    · have := ih h; simp only [List.length_cons]; omega

theorem mkFlds_ids_ge {cs : List ColDef} {s i : Int} (h : i ∈ (mkFlds cs s).map (·.id)) : s ≤ i := by
  obtain ⟨fl, hfl, rfl⟩ := List.mem_map.mp h
  exact (mkFlds_id_range hfl).1

theorem mkFlds_ids_nodup (cs : List ColDef) (s : Int) : ((mkFlds cs s).map (·.id)).Nodup := by
  induction cs generalizing s with
  | nil => simp [mkFlds]
  | cons c cs ih =>
    simp only [mkFlds, List.map_cons, List.nodup_cons]
    refine ⟨?_, ih (s + 1)⟩
    intro h
    have := mkFlds_ids_ge h
    omega

theorem mkFlds_getElem (cs : List ColDef) (s : Int) (j : Nat) (h : j < cs.length) :
    (mkFlds cs s)[j]'(by rw [mkFlds_length]; exact h) = ⟨cs[j].name, s + j, cs[j].ty, cs[j].nullable⟩ := by
  induction cs generalizing s j with
  | nil => simp at h
  | cons c cs ih =>
    cases j with
    | zero => simp [mkFlds]
    | succ j =>
      simp only [mkFlds, List.getElem_cons_succ]
      rw [ih (s + 1) j (by simpa using h)]
      simp only [Fld.mk.injEq, true_and, and_true]
      push_cast; omega

/-! ### lookup in data files -/

theorem lookup_none_of_not_mem {d : DFile} {id : Int} (h : id ∉ d.ids) : d.lookup id = none := by
  induction d with
  | nil => rfl
  | cons p ps ih =>
    simp only [DFile.ids, List.map_cons, List.mem_cons, not_or] at h
    have hne : (id == p.1) = false := by simpa using h.1
    simp only [List.lookup, hne]
    exact ih h.2

theorem lookup_some_mem {d : DFile} {id : Int} {c : List Cell} (h : d.lookup id = some c) : (id, c) ∈ d := by
  induction d with
  | nil => simp [List.lookup] at h
  | cons p ps ih =>
    obtain ⟨a, b⟩ := p
    by_cases he : id = a
    · subst he
      simp [List.lookup] at h
      subst h
      exact List.mem_cons_self
    · have hne : (id == a) = false := by simpa using he
      simp only [List.lookup, hne] at h
      exact List.mem_cons_of_mem _ (ih h)

theorem lookup_isSome_of_mem {d : DFile} {id : Int} (h : id ∈ d.ids) : ∃ c, d.lookup id = some c := by
  induction d with
  | nil => simp [DFile.ids] at h
  | cons p ps ih =>
    obtain ⟨a, b⟩ := p
    by_cases he : id = a
    · subst he; exact ⟨b, by simp [List.lookup]⟩
    · have hne : (id == a) = false := by simpa using he
      simp only [DFile.ids, List.map_cons, List.mem_cons] at h
      rcases h with h | h
      · exact absurd h he
      · obtain ⟨c, hc⟩ := ih h
        exact ⟨c, by simp only [List.lookup, hne]; exact hc⟩

theorem lookupFiles_append (fs gs : List DFile) (id : Int) :
    lookupFiles (fs ++ gs) id = match lookupFiles fs id with
      | some c => some c
      | none => lookupFiles gs id := by
  induction fs with
  | nil => simp [lookupFiles]
  | cons d ds ih =>
    simp only [List.cons_append, lookupFiles]
    cases d.lookup id with
    | some c => rfl
    | none => exact ih

theorem lookupFiles_none {fs : List DFile} {id : Int} (h : id ∉ fs.flatMap DFile.ids) : lookupFiles fs id = none := by
  induction fs with
  | nil => rfl
  | cons d ds ih =>
    simp only [List.flatMap_cons, List.mem_append, not_or] at h
    simp only [lookupFiles, lookup_none_of_not_mem h.1]
    exact ih h.2

theorem lookupFiles_filter (fs : List DFile) (p : DFile → Bool) (id : Int)
    (h : ∀ d ∈ fs, id ∈ d.ids → p d = true) : lookupFiles (fs.filter p) id = lookupFiles fs id := by
  induction fs with
  | nil => rfl
  | cons d ds ih =>
    have ih' := ih (fun d hd => h d (List.mem_cons_of_mem _ hd))
    by_cases hm : id ∈ d.ids
    · have hp := h d List.mem_cons_self hm
      simp only [List.filter_cons, hp, if_true, lookupFiles, ih']
    · cases hp : p d
      · simp only [List.filter_cons, hp, lookupFiles, lookup_none_of_not_mem hm]
        simpa using ih'
      · simp only [List.filter_cons, hp, if_true, lookupFiles, ih']

theorem lookupFiles_some_mem {fs : List DFile} {id : Int} {c : List Cell} (h : lookupFiles fs id = some c) :
    ∃ d ∈ fs, (id, c) ∈ d := by
  induction fs with
  | nil => simp [lookupFiles] at h
  | cons d ds ih =>
    simp only [lookupFiles] at h
    cases hd : d.lookup id with
    | some c' =>
      rw [hd] at h
      simp only [Option.some.injEq] at h
      subst h
      exact ⟨d, List.mem_cons_self, lookup_some_mem hd⟩
    | none =>
      rw [hd] at h
      obtain ⟨d', hd', hm⟩ := ih h
      exact ⟨d', List.mem_cons_of_mem _ hd', hm⟩

/-- looking a generated id up in the file written for the generated ids -/
theorem lookup_zip_getElem {ids : List Int} {cols : List (List Cell)} (hn : ids.Nodup) (j : Nat)
    (h1 : j < ids.length) (h2 : j < cols.length) : (ids.zip cols).lookup ids[j] = some cols[j] := by
  induction ids generalizing cols j with
  | nil => simp at h1
  | cons i is ih =>
    cases cols with
    | nil => simp at h2
    | cons c cs =>
      cases j with
      | zero => simp [List.lookup]
      | succ j =>
        have hne : is[j]'(by simpa using h1) ≠ i := by
          intro he
          have : i ∈ is := he ▸ List.getElem_mem _
          exact (List.nodup_cons.mp hn).1 this
        have hne' : (is[j]'(by simpa using h1) == i) = false := by simpa using hne
        simp only [List.zip_cons_cons, List.getElem_cons_succ, List.lookup, hne']
        exact ih (List.nodup_cons.mp hn).2 j (by simpa using h1) (by simpa using h2)

theorem zip_ids {ids : List Int} {cols : List (List Cell)} (h : ids.length ≤ cols.length) :
    DFile.ids (ids.zip cols) = ids := by
  induction ids generalizing cols with
  | nil => simp [DFile.ids]
  | cons i is ih =>
    cases cols with
    | nil => simp at h
    | cons c cs =>
      simp only [DFile.ids, List.zip_cons_cons, List.map_cons, List.cons.injEq, true_and]
      exact ih (by simpa using h)

theorem zip_ids_subset {ids : List Int} {cols : List (List Cell)} {i : Int} (h : i ∈ DFile.ids (ids.zip cols)) :
    i ∈ ids := by
  obtain ⟨p, hp, rfl⟩ := List.mem_map.mp h
  exact (List.of_mem_zip hp).1

/-! ### live filtering -/

theorem keepLive_length {α : Type} (dels : List Nat) (i : Nat) (xs : List α) :
    (keepLive dels i xs).length = liveLen dels i xs.length := by
  induction xs generalizing i with
  | nil => rfl
  | cons x xs ih =>
    simp only [keepLive, List.length_cons, liveLen]
    split <;> simp [ih]

theorem keepLive_map {α β : Type} (g : α → β) (dels : List Nat) (i : Nat) (xs : List α) :
    keepLive dels i (xs.map g) = (keepLive dels i xs).map g := by
  induction xs generalizing i with
  | nil => rfl
  | cons x xs ih =>
    simp only [List.map_cons, keepLive]
    split <;> simp [ih]

theorem keepLive_replicate {α : Type} (dels : List Nat) (i n : Nat) (x : α) :
    keepLive dels i (List.replicate n x) = List.replicate (liveLen dels i n) x := by
  induction n generalizing i with
  | zero => rfl
  | succ n ih =>
    simp only [List.replicate_succ, keepLive, liveLen]
    split <;> simp [ih, List.replicate_succ]

theorem spread_length (dels : List Nat) (i n : Nat) (vs : List Cell) : (spread dels i n vs).length = n := by
  induction n generalizing i vs with
  | zero => rfl
  | succ n ih =>
    simp only [spread]
    split
    · simp [ih]
    · cases vs <;> simp [ih]

theorem keepLive_spread (dels : List Nat) (i n : Nat) (vs : List Cell) (h : vs.length = liveLen dels i n) :
    keepLive dels i (spread dels i n vs) = vs := by
  induction n generalizing i vs with
  | zero =>
    simp only [liveLen] at h
    simp [spread, keepLive, List.length_eq_zero_iff.mp h]
  | succ n ih =>
    simp only [liveLen] at h
    simp only [spread]
    cases hd : dels.contains i
    · simp only [hd] at h ⊢
      cases vs with
      | nil => simp at h
      | cons v vs =>
        have h' : vs.length = liveLen dels (i + 1) n := by simpa using h
        have hd' : i ∉ dels := by simpa using hd
        simp [keepLive, hd', ih (i + 1) vs h']
    · simp only [hd, if_true] at h ⊢
      simp only [keepLive, hd, if_true]
      exact ih (i + 1) vs h

theorem flatMap_replicate_none (fs : List Frag) :
    fs.flatMap (fun f => List.replicate f.live (none : Cell)) = List.replicate (natSum (fs.map (·.live))) none := by
  induction fs with
  | nil => rfl
  | cons f fs ih => simp [natSum, ih, List.replicate_append_replicate]

end LanceModel.C14
