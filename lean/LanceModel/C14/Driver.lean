import LanceModel.Util
import LanceModel.Table.Basic
import LanceModel.C14.Model
/-
C14 driver.  Op lines (grammar: top of harness/src/bin/c14.rs):

  create <coldefs> <rows> | append <rows> | delete <col> <lt|eq|ge> <k> | compact | add_sql <bs> <name>=<expr>(;…)
  | add_nulls <coldefs> | add_reader <bs> <coldefs> <batches> | alter <col>[/r=<new>][/n=<0|1>][/t=<i|l>](;…) | drop <col>(,…)

→ `ok schema=<name:ty:id,…> frags=<id:phys:dels:<file>/<file>…,…> rows=<ordered scan>` / `err <kind>`.
-/
namespace LanceModel.C14.Driver
open LanceModel.Util LanceModel.Table LanceModel.C14

/-- `dead`: the real table became unreadable (a fragment without data files); every later line prints `skip` -/
structure St where
  tbl : Option Tbl
  dead : Bool

def St.init : St := ⟨none, false⟩

def nameOk (s : String) : Bool :=
  match s.toList with
  | [] => false
  | c :: cs => c.isLower && cs.all fun d => d.isLower || d.isDigit

def parseTy (s : String) : Option (Ty × Bool) :=
  match s with
  | "i" => some (.i32, true)
  | "l" => some (.i64, true)
  | "I" => some (.i32, false)
  | "L" => some (.i64, false)
  | _ => none

def parseColDef (s : String) : Option ColDef :=
  match s.splitOn ":" with
  | [n, t] => if nameOk n then (parseTy t).map fun p => ⟨n, p.1, p.2⟩ else none
  | _ => none

def parseColDefs (s : String) : Option (List ColDef) := (s.splitOn ",").mapM parseColDef

/-- strict decimal, at most 7 digits, |v| <= 2^20 -/
def parseSmall (s : String) : Option Int :=
  let d := match s.toList with
    | '-' :: cs => cs
    | cs => cs
  if d.isEmpty || d.length > 7 then none
  else
    match parseI64 s with
    | some v => if v.natAbs ≤ 1048576 then some v else none
    | none => none

def cellSmall (c : Cell) : Bool :=
  match c with
  | none => true
  | some v => decide (v.natAbs ≤ 1048576)

def rowsSmall (rows : List Row) : Bool := rows.all fun r => r.all cellSmall

def parseExpr (s : String) : Option Expr :=
  if s = "null:i" then some (.null .i32)
  else if s = "null:l" then some (.null .i64)
  else
    match s.splitOn "+" with
    | [c] => if nameOk c then some (.col c) else none
    | c :: rest =>
      -- split_once('+'): everything after the first '+' is the literal
      if nameOk c then
        match parseSmall ("+".intercalate rest) with
        | some k => if k < 0 then none else some (.plus c k)
        | none => none
      else none
    | [] => none

def parseBs (s : String) : Option (Option Nat) :=
  if s = "d" then some none
  else if s.isEmpty || s.length > 6 then none
  else
    match parseNatChars s.toList with
    | some v => if v = 0 then none else some (some v)
    | none => none

def parseNamedExpr (s : String) : Option (String × Expr) :=
  match s.splitOn "=" with
  | n :: rest =>
    if rest.isEmpty then none
    else if nameOk n then (parseExpr ("=".intercalate rest)).map fun e => (n, e) else none
  | [] => none

def parseAltParts : List String → Nat → Alt → Option Alt
  | [], _, a => some a
  | p :: ps, stage, a =>
    if p.startsWith "r=" then
      let r := String.ofList (p.toList.drop 2)
      if stage > 0 || !nameOk r then none else parseAltParts ps 1 { a with rename := some r }
    else if p.startsWith "n=" then
      let v := String.ofList (p.toList.drop 2)
      if stage > 1 then none
      else if v = "0" then parseAltParts ps 2 { a with nullable := some false }
      else if v = "1" then parseAltParts ps 2 { a with nullable := some true }
      else none
    else if p.startsWith "t=" then
      let v := String.ofList (p.toList.drop 2)
      if stage > 2 then none
      else if v = "i" then parseAltParts ps 3 { a with cast := some .i32 }
      else if v = "l" then parseAltParts ps 3 { a with cast := some .i64 }
      else none
    else none

def parseAlt (s : String) : Option Alt :=
  match s.splitOn "/" with
  | c :: ps => if nameOk c then parseAltParts ps 0 ⟨c, none, none, none⟩ else none
  | [] => none

def parseCmp (s : String) : Option Cmp :=
  match s with
  | "lt" => some .lt
  | "eq" => some .eq
  | "ge" => some .ge
  | _ => none

inductive Line where
  | create (cs : List ColDef) (rows : List Row)
  | op (o : Op)

def parseLine (line : String) : Option Line :=
  match splitTokens line with
  | ["create", cs, rows] => do
    let cs ← parseColDefs cs
    let rows ← parseRows rows
    if !rowsSmall rows || rows.any (fun r => r.length != cs.length) then none
    some (.create cs rows)
  | ["append", rows] => do
    let rows ← parseRows rows
    if rows.isEmpty || !rowsSmall rows then none
    some (.op (.append rows))
  | ["delete", c, cmp, k] => do
    if !nameOk c then none
    let cmp ← parseCmp cmp
    let k ← parseSmall k
    some (.op (.delete c cmp k))
  | ["compact"] => some (.op .compact)
  | ["add_sql", bs, es] => do
    let bs ← parseBs bs
    let es ← (es.splitOn ";").mapM parseNamedExpr
    some (.op (.addSql bs es))
  | ["add_nulls", cs] => do
    let cs ← parseColDefs cs
    some (.op (.addNulls cs))
  | ["add_reader", bs, cs, b] => do
    let bs ← parseBs bs
    let cs ← parseColDefs cs
    let b ← parseBatches b
    if b.any (fun rows => !rowsSmall rows || rows.any fun r => r.length != cs.length) then none
    let trailing := match b.getLast? with
      | some [] => true
      | _ => false
    some (.op (.addReader bs cs b.flatten trailing))
  | ["alter", alts] => do
    let alts ← (alts.splitOn ";").mapM parseAlt
    some (.op (.alter alts))
  | ["merge", c, cs, rows] => do
    if !nameOk c then none
    let cs ← parseColDefs cs
    let rows ← parseRows rows
    if !rowsSmall rows then none
    some (.op (.merge c cs rows))
  | ["drop", cs] =>
    let cs := cs.splitOn ","
    if cs.all nameOk then some (.op (.drop cs)) else none
  | _ => none

def showTy (t : Ty) (nullable : Bool) : String :=
  match t, nullable with
  | .i32, true => "i"
  | .i64, true => "l"
  | .i32, false => "I"
  | .i64, false => "L"

def showFrag (f : Frag) : String :=
  toString f.id ++ ":" ++ toString f.phys ++ ":" ++ toString f.dels.length ++ ":" ++
    "/".intercalate (f.files.map fun d => ".".intercalate (d.ids.map toString))

def showTbl (t : Tbl) : String :=
  "ok schema=" ++ ",".intercalate (t.schema.map fun fl => fl.name ++ ":" ++ showTy fl.ty fl.nullable ++ ":" ++ toString fl.id) ++
    " frags=" ++ (if t.frags.isEmpty then "-" else ",".intercalate (t.frags.map showFrag)) ++
    " rows=" ++ showRows (scanRows t)

def showErr : Err → String
  | .parse => "err parse"
  | .invalidInput => "err invalid_input"
  | .other => "err other"

def step (s : St) (line : String) : St × String :=
  if s.dead then (s, "skip")
  else
  match parseLine line with
  | none => (s, "err parse")
  | some (.create cs rows) =>
    match s.tbl with
    | some _ => (s, "err exists")
    | none =>
      if createOk cs rows then (⟨some (create cs rows), false⟩, showTbl (create cs rows)) else (s, "err parse")
  | some (.op o) =>
    match s.tbl with
    | none => (s, "err no_table")
    | some t =>
      match LanceModel.C14.step t o with
      | .ok t' => if t'.readable then (⟨some t', false⟩, showTbl t') else (⟨some t', true⟩, "err unreadable")
      | .error e => (s, showErr e)

end LanceModel.C14.Driver
