import LanceModel.C14.Wf
import LanceModel.C14.Frame
/-
C14: an ALTERED column keeps its cells: rename and nullability change nothing below the schema; a cast (the identity on the
keys of this check) writes the source column under a fresh field id, and the field reads it back from there.
-/
namespace LanceModel.C14
open LanceModel.Table

/-- the name of the altered column after the alteration -/
def Alt.newName (a : Alt) : String :=
  match a.rename with
  | some n => n
  | none => a.col

theorem applyAlts_single {old : List Fld} {st st1 : AltSt} {a : Alt} (h : applyAlt old st a = .ok st1) :
    applyAlts old st [a] = .ok st1 := by
  simp [applyAlts, h]

/-- the turn of alteration `a` itself -/
theorem applyAlt_self (old : List Fld) (st st1 : AltSt) (a : Alt) (src : Fld) (h : applyAlt old st a = .ok st1)
    (hs : findFld old a.col = some src) (hm : src ∈ st.schema) :
    st.next ≤ st1.next ∧ (∀ p ∈ st.casts, p ∈ st1.casts) ∧
    ∃ fl' ∈ st1.schema, fl'.name = a.newName ∧
      ((a.cast = none ∧ fl'.id = src.id) ∨ (a.cast ≠ none ∧ fl'.id = st.next ∧ (src.id, st.next) ∈ st1.casts)) := by
  have hname : src.name = a.col := (find_some_name hs).2
  simp only [applyAlt, hs] at h
  split at h
  · cases h
  · split at h
    · rename_i hc
      cases h
      refine ⟨Int.le_refl _, fun p hp => hp, altUpd a src, List.mem_map.mpr ⟨src, hm, by simp⟩, ?_, Or.inl ⟨hc, rfl⟩⟩
      simp only [altUpd, Alt.newName]
      cases a.rename <;> simp [hname]
    · rename_i ty hc
      cases h
      refine ⟨by simp only; omega, fun p hp => List.mem_append_left _ hp,
        { altUpd a src with ty := ty, id := st.next }, List.mem_map.mpr ⟨src, hm, by simp⟩, ?_,
        Or.inr ⟨by rw [hc]; simp, rfl, by simp⟩⟩
      simp only [altUpd, Alt.newName]
      cases a.rename <;> simp [hname]

theorem applyAlts_mono (old : List Fld) :
    ∀ (alts : List Alt) (st st' : AltSt), applyAlts old st alts = .ok st' →
      st.next ≤ st'.next ∧ ∀ p ∈ st.casts, p ∈ st'.casts := by
  intro alts
  induction alts with
  | nil => intro st st' h; simp only [applyAlts] at h; cases h; exact ⟨Int.le_refl _, fun _ hp => hp⟩
  | cons a as ih =>
    intro st st' h
    simp only [applyAlts] at h
    split at h
    · cases h
    · rename_i st1 h1
      obtain ⟨m1, m2⟩ := ih st1 st' h
      simp only [applyAlt] at h1
      split at h1
      · cases h1
      · split at h1
        · cases h1
        · split at h1
          · cases h1; exact ⟨m1, m2⟩
          · cases h1
            exact ⟨by simp only at m1; omega, fun p hp => m2 p (List.mem_append_left _ hp)⟩

/-- two alterations of different columns have sources of different ids -/
theorem src_id_ne {old : List Fld} (hn : (old.map (·.id)).Nodup) {a b : Alt} (hab : a.col ≠ b.col) {sa sb : Fld}
    (ha : findFld old a.col = some sa) (hb : findFld old b.col = some sb) : sb.id ≠ sa.id := by
  intro he
  obtain ⟨ma, na⟩ := find_some_name ha
  obtain ⟨mb, nb⟩ := find_some_name hb
  have := eq_of_id_eq hn mb ma he
  subst this
  exact hab (na.symm.trans nb)

/-- what the whole loop leaves of alteration `a` -/
theorem applyAlts_target (old : List Fld) (hn : (old.map (·.id)).Nodup) (lo : Int) (hlo : ∀ fl ∈ old, fl.id < lo) :
    ∀ (alts : List Alt) (st st' : AltSt), applyAlts old st alts = .ok st' → (alts.map (·.col)).Nodup → lo ≤ st.next →
      (∀ b ∈ alts, ∀ s, findFld old b.col = some s → s ∈ st.schema) →
      ∀ a ∈ alts, ∀ src, findFld old a.col = some src →
        ∃ fl' ∈ st'.schema, fl'.name = a.newName ∧
          ((a.cast = none ∧ fl'.id = src.id) ∨ (a.cast ≠ none ∧ (src.id, fl'.id) ∈ st'.casts ∧ lo ≤ fl'.id)) := by
  intro alts
  induction alts with
  | nil => intro st st' _ _ _ _ a ha; cases ha
  | cons a0 as ih =>
    intro st st' h hnd hnext hP a ha src hsrc
    obtain ⟨hnot, hnd'⟩ := List.nodup_cons.mp (show (a0.col :: as.map (·.col)).Nodup from hnd)
    simp only [applyAlts] at h
    split at h
    · cases h
    · rename_i st1 h1
      -- the source of the head alteration
      have hsrc0 : ∃ src0, findFld old a0.col = some src0 := by
        simp only [applyAlt] at h1
        split at h1
        · cases h1
        · rename_i s0 hs0; exact ⟨s0, hs0⟩
      obtain ⟨src0, hs0⟩ := hsrc0
      have hne_tail : ∀ b ∈ as, ∀ s, findFld old b.col = some s → s.id ≠ src0.id := by
        intro b hb s hs
        refine src_id_ne hn (a := a0) (b := b) ?_ hs0 hs
        intro he
        exact hnot (List.mem_map.mpr ⟨b, hb, he.symm⟩)
      have hP1 : ∀ b ∈ as, ∀ s, findFld old b.col = some s → s ∈ st1.schema := by
        intro b hb s hs
        refine applyAlts_keeps old s [a0] st st1 (applyAlts_single h1) ?_ (hP b (List.mem_cons_of_mem _ hb) s hs)
        intro c hc s0' hs0'
        simp only [List.mem_singleton] at hc
        subst hc
        rw [hs0] at hs0'
        cases hs0'
        exact (hne_tail b hb s hs).symm
      obtain ⟨hmono, hcm, fl', hfl', hnm, hcase⟩ :=
        applyAlt_self old st st1 a0 src0 h1 hs0 (hP a0 List.mem_cons_self src0 hs0)
      rcases List.mem_cons.mp ha with rfl | ha
      · -- the head itself: its field survives the rest of the loop
        rw [hs0] at hsrc
        cases hsrc
        obtain ⟨_, hcm'⟩ := applyAlts_mono old as st1 st' h
        have hkeep : fl' ∈ st'.schema := by
          refine applyAlts_keeps old fl' as st1 st' h ?_ hfl'
          intro b hb s hs
          rcases hcase with ⟨_, hid⟩ | ⟨_, hid, _⟩
          · rw [hid]; exact hne_tail b hb s hs
          · have := hlo s (find_some_name hs).1
            rw [hid]; omega
        refine ⟨fl', hkeep, hnm, ?_⟩
        rcases hcase with ⟨hc, hid⟩ | ⟨hc, hid, hmem⟩
        · exact Or.inl ⟨hc, hid⟩
        · exact Or.inr ⟨hc, by rw [hid]; exact hcm' _ hmem, by omega⟩
      · exact ih st1 st' h hnd' (by omega) hP1 a ha src hsrc

theorem eq_of_snd_eq {l : List (Int × Int)} (hn : (l.map (·.2)).Nodup) {p q : Int × Int} (hp : p ∈ l) (hq : q ∈ l)
    (h : p.2 = q.2) : p = q := by
  induction l with
  | nil => cases hp
  | cons x xs ih =>
    simp only [List.map_cons, List.nodup_cons] at hn
    rcases List.mem_cons.mp hp with rfl | hp' <;> rcases List.mem_cons.mp hq with rfl | hq'
    · rfl
    · exact absurd (show p.2 ∈ xs.map (·.2) from List.mem_map.mpr ⟨q, hq', h.symm⟩) hn.1
    · exact absurd (show q.2 ∈ xs.map (·.2) from List.mem_map.mpr ⟨p, hp', h⟩) hn.1
    · exact ih hn.2 hp' hq'

theorem applyAlts_casts_nodup (old : List Fld) :
    ∀ (alts : List Alt) (st st' : AltSt), applyAlts old st alts = .ok st' →
      (st.casts.map (·.2)).Nodup → (∀ p ∈ st.casts, p.2 < st.next) →
      (st'.casts.map (·.2)).Nodup := by
  intro alts
  induction alts with
  | nil => intro st st' h h1 _; simp only [applyAlts] at h; cases h; exact h1
  | cons a as ih =>
    intro st st' h hn hlt
    simp only [applyAlts] at h
    split at h
    · cases h
    · rename_i st1 h1
      simp only [applyAlt] at h1
      split at h1
      · cases h1
      · split at h1
        · cases h1
        · split at h1
          · cases h1; exact ih _ st' h hn hlt
          · cases h1
            refine ih _ st' h ?_ ?_
            · simp only [List.map_append, List.map_cons, List.map_nil]
              refine nodup_append_of hn (by simp) ?_
              intro x hx hx'
              simp only [List.mem_singleton] at hx'
              obtain ⟨p, hp, rfl⟩ := List.mem_map.mp hx
              have := hlt p hp
              omega
            · intro p hp
              simp only [List.mem_append, List.mem_singleton] at hp
              rcases hp with hp | rfl
              · have := hlt p hp; simp only; omega
              · simp only; omega

/-- the re-typed field reads the source column back from the cast file -/
theorem castFile_lookup (s : List Fld) (casts : List (Int × Int)) (f : Frag) (hn : (s.map (·.id)).Nodup)
    (hc : (casts.map (·.2)).Nodup) (fl' : Fld) (hfl : fl' ∈ s) (src : Int) (hp : (src, fl'.id) ∈ casts) :
    (castFile s casts f).lookup fl'.id = some (f.column src) := by
  induction s with
  | nil => cases hfl
  | cons x xs ih =>
    obtain ⟨hx, hxs⟩ := List.nodup_cons.mp (show (x.id :: xs.map (·.id)).Nodup from hn)
    simp only [castFile, List.filterMap_cons]
    by_cases hid : x.id = fl'.id
    · -- the head is the field (ids are unique)
      cases hfind : casts.find? (fun p => p.2 == x.id) with
      | none =>
        have := List.find?_eq_none.mp hfind _ hp
        simp [hid] at this
      | some p =>
        have hp2 : p.2 = x.id := by simpa using List.find?_some hfind
        have hpm : p ∈ casts := List.mem_of_find?_eq_some hfind
        have : p = (src, fl'.id) := eq_of_snd_eq hc hpm hp (by simp [hp2, hid])
        subst this
        simp [List.lookup, hid]
    · have hfl' : fl' ∈ xs := by
        rcases List.mem_cons.mp hfl with rfl | h
        · exact absurd rfl hid
        · exact h
      have ih' := ih hxs hfl'
      simp only [castFile] at ih'
      cases hfind : casts.find? (fun p => p.2 == x.id) with
      | none => simpa using ih'
      | some p =>
        have hne : (fl'.id == x.id) = false := by
          simpa using fun h : fl'.id = x.id => hid h.symm
        simp only [List.lookup, hne]
        exact ih'

/-- `alter_values`: the column an alteration names is in the new schema under its (possibly new) name and scans to exactly
    the cells it had — whether it was renamed, made nullable, or cast (the field then has a fresh id, above every id the
    version used) -/
theorem alter_values (t t' : Tbl) (alts : List Alt) (hw : WF t) (h : alter t alts = .ok t') :
    ∀ a ∈ alts, ∀ src, findFld t.schema a.col = some src →
      ∃ fl' ∈ t'.schema, fl'.name = a.newName ∧ scanCol t' fl'.id = scanCol t src.id ∧
        (a.cast = none → fl'.id = src.id) ∧ (a.cast ≠ none → t.maxFieldId < fl'.id) := by
  intro a ha src hsrc
  simp only [alter] at h
  split at h
  · cases h
  · rename_i h0
    simp only [Bool.or_eq_true, Bool.not_eq_true', not_or, Bool.not_eq_true, Bool.not_eq_false] at h0
    split at h
    · cases h
    · rename_i st hst
      have hnd : (alts.map (·.col)).Nodup := (namesDistinct_iff _).mp h0.2
      obtain ⟨fl', hfl', hnm, hcase⟩ := applyAlts_target t.schema hw.ids (t.maxFieldId + 1)
        (fun fl hfl => by have := schema_id_le_max t hfl; omega) alts _ st hst hnd (by simp)
        (fun b _ s hs => (find_some_name hs).1) a ha src hsrc
      obtain ⟨hids, _, _⟩ := applyAlts_inv t.schema alts _ st hst hw.ids (by
        intro i hi
        obtain ⟨fl, hfl, rfl⟩ := List.mem_map.mp hi
        have := schema_id_le_max t hfl
        simp only; omega)
      have hcr := (applyAlts_casts t.schema (t.maxFieldId + 1) alts _ st hst (by simp) (by intro p hp; cases hp)).2
      have hcn := applyAlts_casts_nodup t.schema alts _ st hst (by simp) (by intro p hp; cases hp)
      have hidm : fl'.id ∈ st.schema.map (·.id) := List.mem_map.mpr ⟨fl', hfl', rfl⟩
      have hsrcm := (find_some_name hsrc).1
      split at h
      · cases h
      · split at h
        · -- no cast anywhere in the call: Operation::Project
          rename_i hce
          cases h
          refine ⟨fl', hfl', hnm, ?_, ?_, ?_⟩
          · rcases hcase with ⟨_, hid⟩ | ⟨_, hmem, _⟩
            · rw [project_scanCol _ _ _ hidm, hid]
            · simp only [List.isEmpty_iff] at hce
              rw [hce] at hmem; cases hmem
          · intro hc
            rcases hcase with ⟨_, hid⟩ | ⟨hc', _, _⟩
            · exact hid
            · exact absurd hc hc'
          · intro hc
            rcases hcase with ⟨hc', _⟩ | ⟨_, hmem, _⟩
            · exact absurd hc' hc
            · simp only [List.isEmpty_iff] at hce
              rw [hce] at hmem; cases hmem
        · split at h
          · cases h
          · cases h
            refine ⟨fl', hfl', hnm, ?_, ?_, ?_⟩
            · simp only [scanCol]
              refine flatMap_map_congr' _ _ _ _ (fun f hf => ?_)
              show keepLive f.dels 0 ((retainFiles _ (addFile _ f)).column fl'.id) = keepLive f.dels 0 (f.column src.id)
              rw [column_retain _ _ _ hidm]
              rcases hcase with ⟨_, hid⟩ | ⟨_, hmem, hlo⟩
              · rw [hid]
                rw [column_addFile _ f src.id]
                intro hc
                obtain ⟨p, hp, hpe⟩ := castFile_ids_sub _ _ _ hc
                have := hcr p hp
                have := schema_id_le_max t hsrcm
                omega
              · -- the cast field: stored by no old file, read back from the cast file
                have hnf : fl'.id ∉ f.fileIds := fun hm => by
                  have := file_id_le_max t (mem_fileIds hf hm); omega
                simp only [Frag.column, addFile, lookupFiles_append, lookupFiles_none hnf, lookupFiles,
                  castFile_lookup st.schema st.casts f hids hcn fl' hfl' src.id hmem]
            · intro hc
              rcases hcase with ⟨_, hid⟩ | ⟨hc', _, _⟩
              · exact hid
              · exact absurd hc hc'
            · intro hc
              rcases hcase with ⟨hc', _⟩ | ⟨_, _, hlo⟩
              · exact absurd hc' hc
              · omega
where
  flatMap_map_congr' {β : Type} (fs : List Frag) (g : Frag → Frag) (F G : Frag → List β)
      (h : ∀ f ∈ fs, F (g f) = G f) : (fs.map g).flatMap F = fs.flatMap G := by
    induction fs with
    | nil => rfl
    | cons f fs ih =>
      simp only [List.map_cons, List.flatMap_cons, h f List.mem_cons_self,
        ih (fun f hf => h f (List.mem_cons_of_mem _ hf))]

end LanceModel.C14
