import LanceModel.Table.Basic
/-
C14 — schema evolution preserves untouched data.  MODEL (import-free apart from the table-family base).

A table is a schema (flat list of fields: name, field id, type, nullability), a list of fragments (physical row
count, deleted offsets, data files; a data file is the list of `(field id, column)` it stores) and the fragment-id
high-water mark.  `Manifest::max_field_id` is COMPUTED from the schema and the data files (it is not stored).

Counterparts in /repo (pinned commit + fix:/hook: commits):
  rust/lance/src/dataset/schema_evolution.rs   add_columns_to_fragments (SqlExpressions / AllNulls / Reader arms, check_names),
                                               add_columns, add_columns_impl, add_columns_from_stream, alter_columns, drop_columns
  rust/lance/src/dataset/schema_evolution/optimize.rs   SqlToAllNullsOptimizer
  rust/lance/src/dataset/updater.rs            Updater::{next, update, finish}, DeletionRestorer, add_blanks
  rust/lance/src/dataset/transaction.rs        Transaction::build_manifest, arms Operation::Merge / Operation::Project / Append /
                                               Delete / Rewrite, remove_tombstoned_data_files
  rust/lance-table/src/format/manifest.rs      Manifest::max_field_id, max_fragment_id
  rust/lance-core/src/datatypes/schema.rs      Schema::set_field_id, Schema::merge, Schema::validate (duplicate names)
  rust/lance/src/dataset/optimize.rs           plan_compaction / compact_files with target_rows_per_fragment = 1 Mi,
                                               materialize_deletions_threshold = 0 (every fragment of the small tables is a candidate)
  rust/lance/src/dataset/fragment.rs           FileFragment::updater, the per-field read of a fragment (a field stored by no
                                               data file reads as NULL: NullReader)

Cells are integer keys (`Option Int`): Int32 and Int64 columns hold |key| <= 2^20 + small, so the Int32 <-> Int64 casts the
check performs are the identity on keys.  Values written at DELETED offsets by the updater (`add_blanks` repeats the first
value of the batch) are not observable; the model writes the expression value / NULL there.
-/
namespace LanceModel.C14
open LanceModel.Table

inductive Ty where
  | i32
  | i64
  deriving DecidableEq, Repr

structure ColDef where
  name : String
  ty : Ty
  nullable : Bool
  deriving DecidableEq, Repr

/-- lance_core::datatypes::Field (flat: no children) -/
structure Fld where
  name : String
  id : Int
  ty : Ty
  nullable : Bool
  deriving DecidableEq, Repr

/-- lance_table::format::DataFile: `fields` and the column stored for each of them -/
abbrev DFile := List (Int × List Cell)

def DFile.ids (d : DFile) : List Int := d.map (·.1)

/-- lance_table::format::Fragment (+ the deleted offsets of its deletion file) -/
structure Frag where
  id : Nat
  phys : Nat
  dels : List Nat
  files : List DFile
  deriving Repr

/-- the part of the Manifest this property talks about -/
structure Tbl where
  schema : List Fld
  frags : List Frag
  /-- Manifest::max_fragment_id (a stored high-water mark) -/
  maxFragId : Option Nat
  deriving Repr

inductive Err where
  | parse
  | invalidInput
  | other
  deriving DecidableEq, Repr

inductive Expr where
  | col (c : String)
  | plus (c : String) (k : Int)
  | null (t : Ty)
  deriving DecidableEq, Repr

inductive Cmp where
  | lt
  | eq
  | ge
  deriving DecidableEq, Repr

/-- schema_evolution.rs ColumnAlteration -/
structure Alt where
  col : String
  rename : Option String
  nullable : Option Bool
  cast : Option Ty
  deriving DecidableEq, Repr

inductive Op where
  | append (rows : List Row)
  | delete (c : String) (cmp : Cmp) (k : Int)
  | compact
  | addSql (bs : Option Nat) (es : List (String × Expr))
  | addNulls (cs : List ColDef)
  /-- the reader's batches, concatenated (the batch boundaries of the stream do not matter, except that the stream must be
      exhausted with the last row: `trailing` = the last batch is empty) -/
  | addReader (bs : Option Nat) (cs : List ColDef) (rows : List Row) (trailing : Bool)
  | alter (alts : List Alt)
  | drop (cs : List String)
  /-- Dataset::merge(stream, left_on = c, right_on = c): `rows` = the right-hand batch, key cell first -/
  | merge (c : String) (cs : List ColDef) (rows : List Row)
  deriving Repr

/-! ## reading -/

/-- the first data file that stores `id` wins (in a well-formed fragment there is at most one) -/
def lookupFiles : List DFile → Int → Option (List Cell)
  | [], _ => none
  | d :: ds, id =>
    match d.lookup id with
    | some c => some c
    | none => lookupFiles ds id

/-- the physical column of field `id` in a fragment; a field stored by no data file reads as NULL (NullReader) -/
def Frag.column (f : Frag) (id : Int) : List Cell :=
  match lookupFiles f.files id with
  | some c => c
  | none => List.replicate f.phys none

/-- drop the entries at deleted offsets; `i` = offset of the head -/
def keepLive {α : Type} (dels : List Nat) : Nat → List α → List α
  | _, [] => []
  | i, x :: xs => if dels.contains i then keepLive dels (i + 1) xs else x :: keepLive dels (i + 1) xs

/-- how many of the `n` offsets from `i` on are live -/
def liveLen (dels : List Nat) : Nat → Nat → Nat
  | _, 0 => 0
  | i, n + 1 => if dels.contains i then liveLen dels (i + 1) n else liveLen dels (i + 1) n + 1

def Frag.liveCol (f : Frag) (id : Int) : List Cell := keepLive f.dels 0 (f.column id)

def Frag.live (f : Frag) : Nat := liveLen f.dels 0 f.phys

/-- the cells of field `id` in scan order (fragments in manifest order, live offsets ascending) -/
def scanCol (t : Tbl) (id : Int) : List Cell := t.frags.flatMap (·.liveCol id)

def liveCount (t : Tbl) : Nat := natSum (t.frags.map (·.live))

/-- the ordered scan: row `i` holds cell `i` of every schema column -/
def scanRows (t : Tbl) : List Row :=
  (List.range (liveCount t)).map fun i => t.schema.map fun fl => cellAt (scanCol t fl.id) i

/-- FileFragment::open refuses a fragment without data files ("Fragment {id} does not contain any data"): scan, delete,
    compaction, add and cast all fail on such a table -/
def Tbl.readable (t : Tbl) : Bool := t.frags.all fun f => !f.files.isEmpty

/-! ## field ids -/

def maxOf : List Int → Int
  | [] => -1
  | x :: xs => max x (maxOf xs)

def Frag.fileIds (f : Frag) : List Int := f.files.flatMap DFile.ids

def Tbl.fileIds (t : Tbl) : List Int := t.frags.flatMap Frag.fileIds

/-- Manifest::max_field_id: the schema's maximum and every id a data file of this version still stores -/
def Tbl.maxFieldId (t : Tbl) : Int := max (maxOf (t.schema.map (·.id))) (maxOf t.fileIds)

/-- Schema::field(name) on a flat schema -/
def findFld (s : List Fld) (n : String) : Option Fld := s.find? (·.name == n)

def namesDistinct : List String → Bool
  | [] => true
  | n :: ns => !ns.contains n && namesDistinct ns

/-- Schema::set_field_id on the fields appended by Schema::merge: consecutive ids from `start` -/
def mkFlds : List ColDef → Int → List Fld
  | [], _ => []
  | c :: cs, i => ⟨c.name, i, c.ty, c.nullable⟩ :: mkFlds cs (i + 1)

/-! ## writes -/

def colOf (rows : List Row) (j : Nat) : List Cell := rows.map (cellAt · j)

def colsOfRows (w : Nat) (rows : List Row) : List (List Cell) := (List.range w).map (colOf rows)

def rowFits (s : List Fld) (r : Row) : Bool :=
  r.length == s.length && (List.zip r s).all fun p => p.2.nullable || p.1.isSome

def defsFit (cs : List ColDef) (r : Row) : Bool :=
  r.length == cs.length && (List.zip r cs).all fun p => p.2.nullable || p.1.isSome

def nextFragId (t : Tbl) : Nat :=
  match t.maxFragId with
  | some m => m + 1
  | none => 0

/-- Dataset::write(Create): field ids 0.., one fragment holding the batch (none for an empty batch) -/
def create (cs : List ColDef) (rows : List Row) : Tbl :=
  { schema := mkFlds cs 0
    frags := if rows.isEmpty then []
             else [{ id := 0, phys := rows.length, dels := [],
                     files := [((mkFlds cs 0).map (·.id)).zip (colsOfRows cs.length rows)] }]
    maxFragId := if rows.isEmpty then none else some 0 }

def createOk (cs : List ColDef) (rows : List Row) : Bool :=
  !cs.isEmpty && namesDistinct (cs.map (·.name)) && rows.all (defsFit cs)

/-- Dataset::write(Append) of one batch in the table's schema: one new fragment, one data file with the schema's ids -/
def append (t : Tbl) (rows : List Row) : Except Err Tbl :=
  if rows.isEmpty || !rows.all (rowFits t.schema) then .error .parse
  else .ok { t with
    frags := t.frags ++ [{ id := nextFragId t, phys := rows.length, dels := [],
                           files := [(t.schema.map (·.id)).zip (colsOfRows t.schema.length rows)] }]
    maxFragId := some (nextFragId t) }

def cmpHolds : Cmp → Int → Int → Bool
  | .lt, v, k => decide (v < k)
  | .eq, v, k => decide (v = k)
  | .ge, v, k => decide (v ≥ k)

/-- SQL three-valued comparison: NULL never matches -/
def cellMatches (cmp : Cmp) (k : Int) : Cell → Bool
  | none => false
  | some v => cmpHolds cmp v k

def delFrag (id : Int) (cmp : Cmp) (k : Int) (f : Frag) : Frag :=
  { f with dels := f.dels ++ (List.range f.phys).filter fun i =>
      !f.dels.contains i && cellMatches cmp k (cellAt (f.column id) i) }

/-- Dataset::delete(predicate): extend the deletion vectors; a fragment without live rows leaves the manifest -/
def delete (t : Tbl) (c : String) (cmp : Cmp) (k : Int) : Except Err Tbl :=
  match findFld t.schema c with
  | none => .error .invalidInput
  | some fl => .ok { t with frags := (t.frags.map (delFrag fl.id cmp k)).filter fun f => f.live != 0 }

/-- compact_files (target 1 Mi rows, deletions materialised from the first one): a single fragment without deletions is
    left alone; otherwise all fragments form one bin and are rewritten into one fragment with one data file -/
def compact (t : Tbl) : Tbl :=
  if decide (t.frags.length ≥ 2) || t.frags.any (fun f => !f.dels.isEmpty) then
    { t with
      frags := [{ id := nextFragId t, phys := liveCount t, dels := [],
                  files := [(t.schema.map (·.id)).zip (t.schema.map fun fl => scanCol t fl.id)] }]
      maxFragId := some (nextFragId t) }
  else t

/-! ## add columns -/

def addK (k : Int) : Cell → Cell
  | none => none
  | some v => some (v + k)

def Expr.isNull : Expr → Bool
  | .null _ => true
  | _ => false

def exprOk (s : List Fld) : Expr → Bool
  | .col c => (findFld s c).isSome
  | .plus c _ => (findFld s c).isSome
  | .null _ => true

/-- name, type and nullability of the column an expression defines (DataFusion narrows the integer literal to the column's
    type, so `col + k` has the type of `col`; a binary expression is nullable iff an operand is; `CAST(NULL AS t)` is
    nullable) -/
def exprDef (s : List Fld) (name : String) : Expr → ColDef
  | .col c =>
    match findFld s c with
    | some fl => ⟨name, fl.ty, fl.nullable⟩
    | none => ⟨name, .i64, true⟩
  | .plus c _ =>
    match findFld s c with
    | some fl => ⟨name, fl.ty, fl.nullable⟩
    | none => ⟨name, .i64, true⟩
  | .null t => ⟨name, t, true⟩

/-- the physical column an expression evaluates to on a fragment -/
def exprCol (s : List Fld) (f : Frag) : Expr → List Cell
  | .col c =>
    match findFld s c with
    | some fl => f.column fl.id
    | none => List.replicate f.phys none
  | .plus c k =>
    match findFld s c with
    | some fl => (f.column fl.id).map (addK k)
    | none => List.replicate f.phys none
  | .null _ => List.replicate f.phys none

/-- Updater + DeletionRestorer (v2 files): the reader yields one batch per `bs` physical rows with the deleted rows
    removed; `restore` greedily re-inserts every deleted offset up to and including the end of the batch, so the only batch
    that can be empty while a deletion is pending at its start is the first one: `add_blanks` then fails with
    NotSupported("Missing too many rows in merge") -/
def leadingDeleted (bs : Nat) (f : Frag) : Bool :=
  decide (0 < f.phys) && (List.range (min bs f.phys)).all fun i => f.dels.contains i

/-- scanner::get_default_batch_size().unwrap_or(1024) -/
def defaultBatch : Nat := 1024

def batchOf (bs : Option Nat) : Nat :=
  match bs with
  | some b => b
  | none => defaultBatch

/-- Operation::Merge as add_columns issues it: every fragment gets one more data file -/
def addFile (mk : Frag → DFile) (f : Frag) : Frag := { f with files := f.files ++ [mk f] }

/-- add_columns, NewColumnTransform::SqlExpressions (incl. the SqlToAllNullsOptimizer rewrite when every expression is
    `CAST(NULL AS t)`) -/
def addSql (t : Tbl) (bs : Option Nat) (es : List (String × Expr)) : Except Err Tbl :=
  if es.isEmpty || !namesDistinct (es.map (·.1)) then .error .parse
  else if es.any (fun e => !exprOk t.schema e.2) then .error .invalidInput
  else if es.any (fun e => (findFld t.schema e.1).isSome) then .error .invalidInput
  else if es.all (fun e => e.2.isNull) then
    .ok { t with schema := t.schema ++ mkFlds (es.map fun e => exprDef t.schema e.1 e.2) (t.maxFieldId + 1) }
  else if t.frags.any (leadingDeleted (batchOf bs)) then .error .other
  else
    .ok { t with
      schema := t.schema ++ mkFlds (es.map fun e => exprDef t.schema e.1 e.2) (t.maxFieldId + 1)
      frags := t.frags.map (addFile fun f =>
        ((mkFlds (es.map fun e => exprDef t.schema e.1 e.2) (t.maxFieldId + 1)).map (·.id)).zip
          (es.map fun e => exprCol t.schema f e.2)) }

/-- add_columns, NewColumnTransform::AllNulls: metadata only -/
def addNulls (t : Tbl) (cs : List ColDef) : Except Err Tbl :=
  if cs.isEmpty || !namesDistinct (cs.map (·.name)) then .error .parse
  else if cs.any (fun c => (findFld t.schema c.name).isSome) then .error .invalidInput
  else if cs.any (fun c => !c.nullable) then .error .invalidInput
  else .ok { t with schema := t.schema ++ mkFlds cs (t.maxFieldId + 1) }

/-- put the stream's values at the live offsets of a fragment (`i` = offset of the head; `n` offsets to go) -/
def spread (dels : List Nat) : Nat → Nat → List Cell → List Cell
  | _, 0, _ => []
  | i, n + 1, vs =>
    if dels.contains i then none :: spread dels (i + 1) n vs
    else
      match vs with
      | [] => none :: spread dels (i + 1) n []
      | v :: vs => v :: spread dels (i + 1) n vs

/-- add_columns_from_stream: walk the fragments in order, each consuming as many stream rows as it has live rows; after the
    last fragment the stream must be at its end ("Stream produced more values than expected" also for an empty batch) -/
def feed (bs : Nat) (ids : List Int) (w : Nat) (trailing : Bool) : List Frag → List Row → Except Err (List Frag)
  | [], rest => if rest.isEmpty && !trailing then .ok [] else .error .invalidInput
  | f :: fs, rest =>
    if leadingDeleted bs f then .error .other
    else if rest.length < f.live then .error .invalidInput
    else
      match feed bs ids w trailing fs (rest.drop f.live) with
      | .error e => .error e
      | .ok fs' =>
        .ok (addFile (fun f => ids.zip ((colsOfRows w (rest.take f.live)).map (spread f.dels 0 f.phys))) f :: fs')

/-- add_columns, NewColumnTransform::Reader / Stream -/
def addReader (t : Tbl) (bs : Option Nat) (cs : List ColDef) (rows : List Row) (trailing : Bool) : Except Err Tbl :=
  if cs.isEmpty || !namesDistinct (cs.map (·.name)) || !rows.all (defsFit cs) then .error .parse
  else if cs.any (fun c => (findFld t.schema c.name).isSome) then .error .invalidInput
  else
    match feed (batchOf bs) ((mkFlds cs (t.maxFieldId + 1)).map (·.id)) cs.length trailing t.frags rows with
    | .error e => .error e
    | .ok fs => .ok { t with schema := t.schema ++ mkFlds cs (t.maxFieldId + 1), frags := fs }

/-! ## merge (hash-join add) -/

/-- HashJoiner::collect for value column `j`: the right-hand row whose key equals the left cell (a NULL left key finds no
    row: the right keys are non-NULL), NULL when there is none -/
def joinCell (rows : List Row) (j : Nat) : Cell → Cell
  | none => none
  | some k =>
    match rows.find? (fun r => cellAt r 0 == some k) with
    | some r => cellAt r (j + 1)
    | none => none

def keysDistinct : List Row → Bool
  | [] => true
  | r :: rs => !(rs.any fun x => cellAt x 0 == cellAt r 0) && keysDistinct rs

/-- the grammar of the merge op: >= 1 nullable value column of new, pairwise different names (none named like the key),
    rows of width 1 + #columns with non-NULL, pairwise different keys -/
def mergeOk (c : String) (cs : List ColDef) (rows : List Row) : Bool :=
  !cs.isEmpty && namesDistinct (cs.map (·.name)) && cs.all (fun d => d.nullable && d.name != c) &&
    rows.all (fun r => r.length == cs.length + 1 && (cellAt r 0).isSome) && keysDistinct rows

/-- HashJoiner::collect refuses to produce a NULL in a column whose type "does not support nulls" by the legacy rule
    (lance_core::datatypes::lance_supports_nulls: every fixed-width type, Int32 / Int64 included - also on 2.x files): a live
    left row whose key is NULL or matches no right row, or matches a NULL value, fails the merge -/
def mergeNulls (rows : List Row) (w : Nat) (keyId : Int) (f : Frag) : Bool :=
  (List.range w).any fun j => (keepLive f.dels 0 ((f.column keyId).map (joinCell rows j))).any fun c => c.isNone

/-- the fragments are merged one after the other; the first failure wins -/
def mergeCheck (rows : List Row) (w : Nat) (keyId : Int) : List Frag → Option Err
  | [] => none
  | f :: fs =>
    if leadingDeleted defaultBatch f then some .other
    else if mergeNulls rows w keyId f then some .invalidInput
    else mergeCheck rows w keyId fs

/-- Dataset::merge / merge_impl: the new fields are numbered from Manifest::max_field_id (dataset.rs) and so is the data
    file every fragment's Updater writes (updater.rs, schema inferred from the first batch); FileFragment::merge reads the
    key column with the default batch size -/
def mergeCols (t : Tbl) (c : String) (cs : List ColDef) (rows : List Row) : Except Err Tbl :=
  if !mergeOk c cs rows then .error .parse
  else
    match findFld t.schema c with
    | none => .error .invalidInput
    | some key =>
      if cs.any (fun d => (findFld t.schema d.name).isSome) then .error .invalidInput
      else
        match mergeCheck rows cs.length key.id t.frags with
        | some e => .error e
        | none =>
          .ok { t with
            schema := t.schema ++ mkFlds cs (t.maxFieldId + 1)
            frags := t.frags.map (addFile fun f =>
              ((mkFlds cs (t.maxFieldId + 1)).map (·.id)).zip
                ((List.range cs.length).map fun j => (f.column key.id).map (joinCell rows j))) }

/-! ## alter / drop -/

/-- the retain step of the Operation::Project arm (and of alter_columns before its Merge): a data file stays while it
    stores at least one field of the new schema -/
def retainFiles (ids : List Int) (f : Frag) : Frag :=
  { f with files := f.files.filter fun d => d.ids.any fun i => ids.contains i }

/-- Operation::Project -/
def project (t : Tbl) (s : List Fld) : Tbl :=
  { t with schema := s, frags := t.frags.map (retainFiles (s.map (·.id))) }

structure AltSt where
  schema : List Fld
  next : Int
  /-- (id of the source field, id of the re-typed field) in the order of the alterations -/
  casts : List (Int × Int)
  deriving Repr

def altUpd (a : Alt) (fl : Fld) : Fld :=
  { fl with
    name := match a.rename with | some n => n | none => fl.name
    nullable := match a.nullable with | some b => b | none => fl.nullable }

/-- one turn of the `for alteration in alterations` loop of alter_columns: the source is looked up BY NAME in the dataset's
    schema, the destination BY ID in the schema under construction -/
def applyAlt (old : List Fld) (st : AltSt) (a : Alt) : Except Err AltSt :=
  match findFld old a.col with
  | none => .error .invalidInput
  | some src =>
    if a.nullable == some false && src.nullable then .error .invalidInput
    else
      match a.cast with
      | none =>
        .ok { st with schema := st.schema.map fun fl => if fl.id = src.id then altUpd a fl else fl }
      | some ty =>
        .ok { schema := st.schema.map fun fl =>
                if fl.id = src.id then { altUpd a fl with ty := ty, id := st.next } else fl
              next := st.next + 1
              casts := st.casts ++ [(src.id, st.next)] }

def applyAlts (old : List Fld) : AltSt → List Alt → Except Err AltSt
  | st, [] => .ok st
  | st, a :: as =>
    match applyAlt old st a with
    | .error e => .error e
    | .ok st' => applyAlts old st' as

/-- the data file alter_columns writes for a fragment: the re-typed fields in schema order (project_by_ids), each holding
    the cast of its source column (the identity on the keys of this check) -/
def castFile (s : List Fld) (casts : List (Int × Int)) (f : Frag) : DFile :=
  s.filterMap fun fl =>
    match casts.find? (fun p => p.2 == fl.id) with
    | some p => some (fl.id, f.column p.1)
    | none => none

/-- Dataset::alter_columns -/
def alter (t : Tbl) (alts : List Alt) : Except Err Tbl :=
  if alts.isEmpty || !namesDistinct (alts.map (·.col)) then .error .parse
  else
    match applyAlts t.schema ⟨t.schema, t.maxFieldId + 1, []⟩ alts with
    | .error e => .error e
    | .ok st =>
      if !namesDistinct (st.schema.map (·.name)) then .error .invalidInput
      else if st.casts.isEmpty then .ok (project t st.schema)
      else if t.frags.any (leadingDeleted defaultBatch) then .error .other
      else
        .ok { t with
          schema := st.schema
          frags := t.frags.map fun f =>
            retainFiles (st.schema.map (·.id)) (addFile (castFile st.schema st.casts) f) }

/-- Dataset::drop_columns -/
def dropCols (t : Tbl) (cs : List String) : Except Err Tbl :=
  if cs.isEmpty || !namesDistinct cs then .error .parse
  else if cs.any (fun c => (findFld t.schema c).isNone) then .error .invalidInput
  else if (t.schema.filter fun fl => !cs.contains fl.name).isEmpty then .error .invalidInput
  else .ok (project t (t.schema.filter fun fl => !cs.contains fl.name))

/-! ## one operation, histories -/

def step (t : Tbl) : Op → Except Err Tbl
  | .append rows => append t rows
  | .delete c cmp k => delete t c cmp k
  | .compact => .ok (compact t)
  | .addSql bs es => addSql t bs es
  | .addNulls cs => addNulls t cs
  | .addReader bs cs rows tr => addReader t bs cs rows tr
  | .alter alts => alter t alts
  | .drop cs => dropCols t cs
  | .merge c cs rows => mergeCols t c cs rows

/-- a failed operation leaves the table as it was -/
def stepKeep (t : Tbl) (op : Op) : Tbl :=
  match step t op with
  | .ok t' => t'
  | .error _ => t

def run (t : Tbl) : List Op → Tbl
  | [] => t
  | op :: ops => run (stepKeep t op) ops

/-- the columns an evolution op names -/
def Op.named : Op → List String
  | .alter alts => alts.map (·.col)
  | .drop cs => cs
  | _ => []

def Op.isEvolve : Op → Bool
  | .addSql .. => true
  | .addNulls .. => true
  | .addReader .. => true
  | .alter .. => true
  | .drop .. => true
  | .merge .. => true
  | _ => false

end LanceModel.C14
