import LanceModel.C14.AlterValues
/-
C14: which operations can leave a fragment without data files (`Tbl.readable`): only drop_columns.
-/
namespace LanceModel.C14
open LanceModel.Table

theorem readable_iff (t : Tbl) : t.readable = true ↔ ∀ f ∈ t.frags, f.files ≠ [] := by
  simp [Tbl.readable, List.all_eq_true]

/-- alterations without a cast leave the field ids alone -/
theorem applyAlts_nocast (old : List Fld) :
    ∀ (alts : List Alt) (st st' : AltSt), applyAlts old st alts = .ok st' → (∀ a ∈ alts, a.cast = none) →
      st'.casts = st.casts ∧ st'.schema.map (·.id) = st.schema.map (·.id) := by
  intro alts
  induction alts with
  | nil => intro st st' h _; simp only [applyAlts] at h; cases h; exact ⟨rfl, rfl⟩
  | cons a as ih =>
    intro st st' h hall
    simp only [applyAlts] at h
    split at h
    · cases h
    · rename_i st1 h1
      obtain ⟨r1, r2⟩ := ih st1 st' h (fun b hb => hall b (List.mem_cons_of_mem _ hb))
      have hc := hall a List.mem_cons_self
      simp only [applyAlt] at h1
      split at h1
      · cases h1
      · rename_i src _
        split at h1
        · cases h1
        · rw [hc] at h1
          simp only at h1
          cases h1
          exact ⟨r1, by rw [r2]; exact map_upd_ids_same _ _ _ (altUpd_id a)⟩

theorem applyAlts_sources (old : List Fld) :
    ∀ (alts : List Alt) (st st' : AltSt), applyAlts old st alts = .ok st' →
      ∀ a ∈ alts, ∃ src, findFld old a.col = some src := by
  intro alts
  induction alts with
  | nil => intro _ _ _ a ha; cases ha
  | cons a0 as ih =>
    intro st st' h a ha
    simp only [applyAlts] at h
    split at h
    · cases h
    · rename_i st1 h1
      rcases List.mem_cons.mp ha with rfl | ha
      · simp only [applyAlt] at h1
        split at h1
        · cases h1
        · rename_i s hs; exact ⟨s, hs⟩
      · exact ih st1 st' h a ha

theorem castFile_mem (s : List Fld) (casts : List (Int × Int)) (f : Frag) (fl' : Fld) (hfl : fl' ∈ s) (src : Int)
    (hp : (src, fl'.id) ∈ casts) : fl'.id ∈ (castFile s casts f).ids := by
  simp only [castFile, DFile.ids, List.mem_map, List.mem_filterMap]
  cases hfind : casts.find? (fun p => p.2 == fl'.id) with
  | none =>
    have := List.find?_eq_none.mp hfind _ hp
    simp at this
  | some p => exact ⟨(fl'.id, f.column p.1), ⟨fl', hfl, by simp [hfind]⟩, rfl⟩

/-- alter_columns never leaves a fragment without data files -/
theorem alter_readable (t t' : Tbl) (alts : List Alt) (hw : WF t) (hr : t.readable = true) (h : alter t alts = .ok t') :
    t'.readable = true := by
  rw [readable_iff] at hr ⊢
  simp only [alter] at h
  split at h
  · cases h
  · rename_i h0
    simp only [Bool.or_eq_true, Bool.not_eq_true', not_or, Bool.not_eq_true, Bool.not_eq_false] at h0
    split at h
    · cases h
    · rename_i st hst
      have hnd : (alts.map (·.col)).Nodup := (namesDistinct_iff _).mp h0.2
      split at h
      · cases h
      · split at h
        · -- Operation::Project with unchanged field ids
          rename_i hce
          cases h
          have hnc : ∀ a ∈ alts, a.cast = none := by
            intro a ha
            cases hc : a.cast with
            | none => rfl
            | some ty =>
              obtain ⟨src, hsrc⟩ := applyAlts_sources t.schema alts _ st hst a ha
              obtain ⟨fl', _, _, hcase⟩ := applyAlts_target t.schema hw.ids (t.maxFieldId + 1)
                (fun fl hfl => by have := schema_id_le_max t hfl; omega) alts _ st hst hnd (by simp)
                (fun b _ s hs => (find_some_name hs).1) a ha src hsrc
              rcases hcase with ⟨hc', _⟩ | ⟨_, hmem, _⟩
              · rw [hc] at hc'; cases hc'
              · simp only [List.isEmpty_iff] at hce
                rw [hce] at hmem; cases hmem
          have hids := (applyAlts_nocast t.schema alts _ st hst hnc).2
          intro f' hf'
          simp only [project, List.mem_map] at hf'
          obtain ⟨f, hf, rfl⟩ := hf'
          obtain ⟨d, hd⟩ := List.exists_mem_of_ne_nil _ (hr f hf)
          obtain ⟨i, hi, hm⟩ := (hw.frags f hf).livefile d hd
          refine List.ne_nil_of_mem (a := d) ?_
          simp only [retainFiles, List.mem_filter]
          refine ⟨hd, List.any_eq_true.mpr ⟨i, hi, ?_⟩⟩
          rw [hids]
          simpa using hm
        · split at h
          · cases h
          · rename_i hce _
            cases h
            -- some alteration casts: its field is in the schema and in the cast file
            have hex : ∃ a ∈ alts, a.cast ≠ none := by
              apply Classical.byContradiction
              intro hno
              have hnc : ∀ a ∈ alts, a.cast = none := by
                intro a ha
                cases hc : a.cast with
                | none => rfl
                | some ty => exact absurd ⟨a, ha, by rw [hc]; simp⟩ hno
              have := (applyAlts_nocast t.schema alts _ st hst hnc).1
              simp [this] at hce
            obtain ⟨a, ha, hac⟩ := hex
            obtain ⟨src, hsrc⟩ := applyAlts_sources t.schema alts _ st hst a ha
            obtain ⟨fl', hfl', _, hcase⟩ := applyAlts_target t.schema hw.ids (t.maxFieldId + 1)
              (fun fl hfl => by have := schema_id_le_max t hfl; omega) alts _ st hst hnd (by simp)
              (fun b _ s hs => (find_some_name hs).1) a ha src hsrc
            rcases hcase with ⟨hc', _⟩ | ⟨_, hmem, _⟩
            · exact absurd hc' hac
            · intro f' hf'
              obtain ⟨f, _, rfl⟩ := List.mem_map.mp hf'
              refine List.ne_nil_of_mem (a := castFile st.schema st.casts f) ?_
              simp only [retainFiles, addFile, List.mem_filter, List.mem_append, List.mem_singleton]
              refine ⟨Or.inr trivial, List.any_eq_true.mpr ⟨fl'.id, castFile_mem _ _ f fl' hfl' src.id hmem, ?_⟩⟩
              have : fl'.id ∈ st.schema.map (·.id) := List.mem_map.mpr ⟨fl', hfl', rfl⟩
              simpa using this

end LanceModel.C14
