import LanceModel.C14.FrameLemmas
/-
C14: the well-formedness invariant (`field_ids_unique` and the shape facts it needs) and the lemmas that carry it through
one fragment transformer.
-/
namespace LanceModel.C14
open LanceModel.Table

/-- a fragment is well formed w.r.t. the schema's field ids: no field id is stored twice, every data file stores at least
    one live field, every stored column has one cell per physical row -/
structure FragOk (ids : List Int) (f : Frag) : Prop where
  nodup : f.fileIds.Nodup
  livefile : ∀ d ∈ f.files, ∃ i ∈ d.ids, i ∈ ids
  len : ∀ d ∈ f.files, ∀ p ∈ d, p.2.length = f.phys

/-- the invariant of every reachable table -/
structure WF (t : Tbl) : Prop where
  ids : (t.schema.map (·.id)).Nodup
  names : (t.schema.map (·.name)).Nodup
  nonempty : t.schema ≠ []
  frags : ∀ f ∈ t.frags, FragOk (t.schema.map (·.id)) f

theorem column_length {ids : List Int} {f : Frag} (h : FragOk ids f) (id : Int) : (f.column id).length = f.phys := by
  simp only [Frag.column]
  cases hl : lookupFiles f.files id with
  | none => simp
  | some c =>
    obtain ⟨d, hd, hm⟩ := lookupFiles_some_mem hl
    exact h.len d hd _ hm

theorem liveCol_length {ids : List Int} {f : Frag} (h : FragOk ids f) (id : Int) : (f.liveCol id).length = f.live := by
  simp only [Frag.liveCol, Frag.live, keepLive_length, column_length h]

theorem flatMap_liveCol_length (ids : List Int) (id : Int) (fs : List Frag) (h : ∀ f ∈ fs, FragOk ids f) :
    (fs.flatMap (·.liveCol id)).length = natSum (fs.map (·.live)) := by
  induction fs with
  | nil => rfl
  | cons f fs ih =>
    simp only [List.flatMap_cons, List.length_append, List.map_cons, natSum,
      liveCol_length (h f List.mem_cons_self)]
    rw [ih (fun f hf => h f (List.mem_cons_of_mem _ hf))]

theorem scanCol_length (t : Tbl) (h : ∀ f ∈ t.frags, FragOk (t.schema.map (·.id)) f) (id : Int) :
    (scanCol t id).length = liveCount t :=
  flatMap_liveCol_length _ id t.frags h

theorem fragOk_mono {ids ids' : List Int} {f : Frag} (hs : ∀ i ∈ ids, i ∈ ids') (h : FragOk ids f) : FragOk ids' f :=
  ⟨h.nodup, fun d hd => let ⟨i, hi, hm⟩ := h.livefile d hd; ⟨i, hi, hs i hm⟩, h.len⟩

theorem filter_flatMap_sublist {α β : Type} (p : α → Bool) (g : α → List β) (l : List α) :
    ((l.filter p).flatMap g).Sublist (l.flatMap g) := by
  induction l with
  | nil => exact List.Sublist.refl _
  | cons x xs ih =>
    simp only [List.filter_cons, List.flatMap_cons]
    split
    · simp only [List.flatMap_cons]
      exact List.Sublist.append (List.Sublist.refl _) ih
    · exact (ih.trans (List.sublist_append_right _ _))

/-- the retain step re-establishes "every data file stores a live field" for the NEW schema ids -/
theorem fragOk_retain {ids : List Int} {f : Frag} (hn : f.fileIds.Nodup)
    (hl : ∀ d ∈ f.files, ∀ p ∈ d, p.2.length = f.phys) : FragOk ids (retainFiles ids f) := by
  refine ⟨?_, ?_, ?_⟩
  · exact (filter_flatMap_sublist _ _ _).nodup hn
  · intro d hd
    simp only [retainFiles, List.mem_filter] at hd
    obtain ⟨i, hi, hm⟩ := List.any_eq_true.mp hd.2
    exact ⟨i, hi, by simpa using hm⟩
  · intro d hd
    simp only [retainFiles, List.mem_filter] at hd
    exact hl d hd.1

theorem fileIds_addFile (mk : Frag → DFile) (f : Frag) : (addFile mk f).fileIds = f.fileIds ++ (mk f).ids := by
  simp [addFile, Frag.fileIds, List.flatMap_append]

/-- adding a data file of fresh, pairwise different ids -/
theorem fragOk_addFile {ids ids' : List Int} {f : Frag} (mk : Frag → DFile) (h : FragOk ids f)
    (hs : ∀ i ∈ ids, i ∈ ids') (hn : (mk f).ids.Nodup) (hd : ∀ i ∈ (mk f).ids, i ∉ f.fileIds)
    (hlive : ∃ i ∈ (mk f).ids, i ∈ ids') (hlen : ∀ p ∈ mk f, p.2.length = f.phys) :
    FragOk ids' (addFile mk f) := by
  refine ⟨?_, ?_, ?_⟩
  · rw [fileIds_addFile]
    exact List.nodup_append.mpr ⟨h.nodup, hn, fun a ha b hb hab => hd b hb (hab ▸ ha)⟩
  · intro d hdm
    simp only [addFile, List.mem_append, List.mem_singleton] at hdm
    rcases hdm with hdm | rfl
    · obtain ⟨i, hi, hm⟩ := h.livefile d hdm
      exact ⟨i, hi, hs i hm⟩
    · exact hlive
  · intro d hdm
    simp only [addFile, List.mem_append, List.mem_singleton] at hdm
    rcases hdm with hdm | rfl
    · exact h.len d hdm
    · exact hlen

theorem colsOfRows_length (w : Nat) (rows : List Row) : (colsOfRows w rows).length = w := by
  simp [colsOfRows]

theorem mem_colsOfRows {w : Nat} {rows : List Row} {c : List Cell} (h : c ∈ colsOfRows w rows) :
    c.length = rows.length := by
  simp only [colsOfRows, List.mem_map] at h
  obtain ⟨j, _, rfl⟩ := h
  simp [colOf]

/-- the single data file a write of `rows` in the schema `ids` produces -/
theorem fragOk_fresh (ids : List Int) (hn : ids.Nodup) (hne : ids ≠ []) (id n : Nat) (cols : List (List Cell))
    (hc : cols.length = ids.length) (hl : ∀ c ∈ cols, c.length = n) :
    FragOk ids { id := id, phys := n, dels := [], files := [ids.zip cols] } := by
  have hz : DFile.ids (ids.zip cols) = ids := zip_ids (by omega)
  refine ⟨?_, ?_, ?_⟩
  · simp [Frag.fileIds, hz, hn]
  · intro d hd
    simp only [List.mem_singleton] at hd
    subst hd
    rw [hz]
    cases ids with
    | nil => exact absurd rfl hne
    | cons i is => exact ⟨i, List.mem_cons_self, List.mem_cons_self⟩
  · intro d hd p hp
    simp only [List.mem_singleton] at hd
    subst hd
    exact hl _ (List.of_mem_zip hp).2

theorem nodup_append_of {l1 l2 : List Int} (h1 : l1.Nodup) (h2 : l2.Nodup) (hd : ∀ a ∈ l1, a ∉ l2) :
    (l1 ++ l2).Nodup :=
  List.nodup_append.mpr ⟨h1, h2, fun a ha b hb hab => hd a ha (hab ▸ hb)⟩

theorem findFld_none {s : List Fld} {n : String} (h : (findFld s n).isSome = false) : n ∉ s.map (·.name) := by
  intro hm
  obtain ⟨fl, hfl, rfl⟩ := List.mem_map.mp hm
  simp only [findFld] at h
  have : (s.find? fun x => x.name == fl.name) = none := by
    cases hf : s.find? fun x => x.name == fl.name with
    | none => rfl
    | some _ => rw [hf] at h; cases h
  have := List.find?_eq_none.mp this fl hfl
  simp at this

/-- the schema part of `WF` after appending freshly numbered fields of new, pairwise different names -/
theorem schema_append_ok (t : Tbl) (hw : WF t) (cs : List ColDef) (hn : namesDistinct (cs.map (·.name)) = true)
    (hnew : ∀ c ∈ cs, (findFld t.schema c.name).isSome = false) :
    ((t.schema ++ mkFlds cs (t.maxFieldId + 1)).map (·.id)).Nodup ∧
    ((t.schema ++ mkFlds cs (t.maxFieldId + 1)).map (·.name)).Nodup ∧
    t.schema ++ mkFlds cs (t.maxFieldId + 1) ≠ [] := by
  refine ⟨?_, ?_, ?_⟩
  · rw [List.map_append]
    refine nodup_append_of hw.ids (mkFlds_ids_nodup _ _) ?_
    intro a ha hm
    obtain ⟨fl, hfl, rfl⟩ := List.mem_map.mp ha
    exact fresh_not_mem_mkFlds t cs hfl hm
  · rw [List.map_append, mkFlds_names]
    refine List.nodup_append.mpr ⟨hw.names, (namesDistinct_iff _).mp hn, ?_⟩
    intro a ha b hb hab
    subst hab
    obtain ⟨c, hc, rfl⟩ := List.mem_map.mp hb
    exact findFld_none (hnew c hc) ha
  · intro h
    exact hw.nonempty (List.append_eq_nil_iff.mp h).1

end LanceModel.C14
