import LanceModel.C14.FrameLemmas
/-
C14: the frame theorem of every evolution op (add / alter / drop): row count and order, and every column the op does not
name.
-/
namespace LanceModel.C14
open LanceModel.Table

theorem addSql_frame (t t' : Tbl) (bs : Option Nat) (es : List (String × Expr)) (h : addSql t bs es = .ok t') :
    liveCount t' = liveCount t ∧ ∀ fl ∈ t.schema, fl ∈ t'.schema ∧ scanCol t' fl.id = scanCol t fl.id := by
  simp only [addSql] at h
  split at h
  · cases h
  · split at h
    · cases h
    · split at h
      · cases h
      · split at h
        · cases h
          exact ⟨rfl, fun fl hfl => ⟨List.mem_append_left _ hfl, rfl⟩⟩
        · split at h
          · cases h
          · cases h
            refine ⟨?_, fun fl hfl => ⟨List.mem_append_left _ hfl, ?_⟩⟩
            · simp only [liveCount]
              exact live_map _ _ (fun _ _ => ⟨rfl, rfl⟩)
            · simp only [scanCol]
              refine flatMap_liveCol_map fl.id _ _ (keeps_addFile fl.id _ _ ?_)
              intro f _ hm
              exact fresh_not_mem_mkFlds t _ hfl (zip_ids_subset hm)

theorem addNulls_frame (t t' : Tbl) (cs : List ColDef) (h : addNulls t cs = .ok t') :
    liveCount t' = liveCount t ∧ ∀ fl ∈ t.schema, fl ∈ t'.schema ∧ scanCol t' fl.id = scanCol t fl.id := by
  simp only [addNulls] at h
  split at h
  · cases h
  · split at h
    · cases h
    · split at h
      · cases h
      · cases h
        exact ⟨rfl, fun fl hfl => ⟨List.mem_append_left _ hfl, rfl⟩⟩

theorem addReader_frame (t t' : Tbl) (bs : Option Nat) (cs : List ColDef) (rows : List Row) (tr : Bool)
    (h : addReader t bs cs rows tr = .ok t') :
    liveCount t' = liveCount t ∧ ∀ fl ∈ t.schema, fl ∈ t'.schema ∧ scanCol t' fl.id = scanCol t fl.id := by
  simp only [addReader] at h
  split at h
  · cases h
  · split at h
    · cases h
    · split at h
      · cases h
      · rename_i fs hfeed
        cases h
        refine ⟨?_, fun fl hfl => ⟨List.mem_append_left _ hfl, ?_⟩⟩
        · simp only [liveCount]
          exact (feed_frame _ _ _ _ (t.maxFieldId + 1 - 1 - 1) (by
            intro hm
            have := mkFlds_ids_ge hm
            omega) _ _ _ hfeed).2
        · simp only [scanCol]
          exact (feed_frame _ _ _ _ fl.id (fresh_not_mem_mkFlds t cs hfl) _ _ _ hfeed).1

theorem mergeCols_frame (t t' : Tbl) (c : String) (cs : List ColDef) (rows : List Row)
    (h : mergeCols t c cs rows = .ok t') :
    liveCount t' = liveCount t ∧ ∀ fl ∈ t.schema, fl ∈ t'.schema ∧ scanCol t' fl.id = scanCol t fl.id := by
  simp only [mergeCols] at h
  split at h
  · cases h
  · split at h
    · cases h
    · split at h
      · cases h
      · split at h
        · cases h
        · cases h
          refine ⟨?_, fun fl hfl => ⟨List.mem_append_left _ hfl, ?_⟩⟩
          · simp only [liveCount]
            exact live_map _ _ (fun _ _ => ⟨rfl, rfl⟩)
          · simp only [scanCol]
            refine flatMap_liveCol_map fl.id _ _ (keeps_addFile fl.id _ _ ?_)
            intro f _ hm
            exact fresh_not_mem_mkFlds t _ hfl (zip_ids_subset hm)

theorem dropCols_frame (t t' : Tbl) (cs : List String) (h : dropCols t cs = .ok t') :
    liveCount t' = liveCount t ∧
      ∀ fl ∈ t.schema, fl.name ∉ cs → fl ∈ t'.schema ∧ scanCol t' fl.id = scanCol t fl.id := by
  simp only [dropCols] at h
  split at h
  · cases h
  · split at h
    · cases h
    · split at h
      · cases h
      · cases h
        refine ⟨project_liveCount _ _, fun fl hfl hn => ?_⟩
        have hm : fl ∈ t.schema.filter fun fl => !cs.contains fl.name :=
          List.mem_filter.mpr ⟨hfl, by simpa using hn⟩
        exact ⟨hm, project_scanCol _ _ _ (List.mem_map.mpr ⟨fl, hm, rfl⟩)⟩

theorem alter_frame (t t' : Tbl) (alts : List Alt) (hn : (t.schema.map (·.id)).Nodup) (h : alter t alts = .ok t') :
    liveCount t' = liveCount t ∧
      ∀ fl ∈ t.schema, fl.name ∉ alts.map (·.col) → fl ∈ t'.schema ∧ scanCol t' fl.id = scanCol t fl.id := by
  simp only [alter] at h
  split at h
  · cases h
  · split at h
    · cases h
    · rename_i st hst
      have hkeep : ∀ fl ∈ t.schema, fl.name ∉ alts.map (·.col) → fl ∈ st.schema := by
        intro fl hfl hname
        refine applyAlts_keeps t.schema fl alts _ st hst ?_ hfl
        intro a ha src hsrc heq
        obtain ⟨hmem, hnm⟩ := find_some_name hsrc
        have := eq_of_id_eq hn hmem hfl heq
        subst this
        exact hname (List.mem_map.mpr ⟨a, ha, hnm.symm⟩)
      split at h
      · cases h
      · split at h
        · cases h
          refine ⟨project_liveCount _ _, fun fl hfl hname => ?_⟩
          have hm := hkeep fl hfl hname
          exact ⟨hm, project_scanCol _ _ _ (List.mem_map.mpr ⟨fl, hm, rfl⟩)⟩
        · split at h
          · cases h
          · cases h
            refine ⟨?_, fun fl hfl hname => ?_⟩
            · simp only [liveCount]
              exact live_map _ _ (fun _ _ => ⟨rfl, rfl⟩)
            · have hm := hkeep fl hfl hname
              refine ⟨hm, ?_⟩
              simp only [scanCol]
              refine flatMap_liveCol_map fl.id _ _ (fun f _ => ⟨rfl, rfl, ?_⟩)
              rw [column_retain _ _ _ (List.mem_map.mpr ⟨fl, hm, rfl⟩)]
              refine column_addFile _ f fl.id ?_
              intro hc
              obtain ⟨p, hp, hpe⟩ := castFile_ids_sub _ _ _ hc
              have hr := (applyAlts_casts t.schema (t.maxFieldId + 1) alts _ st hst (by simp)
                (by intro p hp; cases hp)).2 p hp
              have := schema_id_le_max t hfl
              omega

/-- `evolve_frame`: an evolution op keeps the number and the order of the rows, and every column it does not name keeps
    its field and its cells -/
theorem evolve_frame_core (t t' : Tbl) (op : Op) (hn : (t.schema.map (·.id)).Nodup) (hev : op.isEvolve = true)
    (h : step t op = .ok t') :
    liveCount t' = liveCount t ∧
      ∀ fl ∈ t.schema, fl.name ∉ op.named → fl ∈ t'.schema ∧ scanCol t' fl.id = scanCol t fl.id := by
  cases op with
  | append rows => cases hev
  | delete c cmp k => cases hev
  | compact => cases hev
  | addSql bs es =>
    obtain ⟨h1, h2⟩ := addSql_frame t t' bs es h
    exact ⟨h1, fun fl hfl _ => h2 fl hfl⟩
  | addNulls cs =>
    obtain ⟨h1, h2⟩ := addNulls_frame t t' cs h
    exact ⟨h1, fun fl hfl _ => h2 fl hfl⟩
  | addReader bs cs rows tr =>
    obtain ⟨h1, h2⟩ := addReader_frame t t' bs cs rows tr h
    exact ⟨h1, fun fl hfl _ => h2 fl hfl⟩
  | alter alts => exact alter_frame t t' alts hn h
  | drop cs => exact dropCols_frame t t' cs h
  | merge c cs rows =>
    obtain ⟨h1, h2⟩ := mergeCols_frame t t' c cs rows h
    exact ⟨h1, fun fl hfl _ => h2 fl hfl⟩

end LanceModel.C14
