import LanceModel.C39.SeqLemmas
/-!
C39 helper lemmas, part 5: what the conflict check guarantees about two transactions planned by public functions, and
schedules of any number of writers (`World`).
-/
namespace LanceModel.C39
set_option linter.unusedSimpArgs false

/-- the generations a transaction changes (added, updated, or marked merged by a merge_insert) -/
def touched : Txn → List (Nat × Nat)
  | .mw a u _ => ids (a ++ u)
  | .upd (some m) => [m.id]
  | _ => []

theorem seqE_ok {a b : Except Err Unit} (h : seqE a b = .ok ()) : a = .ok () ∧ b = .ok () := by
  cases a with
  | error e => simp [seqE] at h
  | ok u => cases u; exact ⟨rfl, by simpa [seqE] using h⟩

theorem sameHead_single {c t : MemWal} (h : sameHead [c] [t] = .ok ()) : c.id ≠ t.id := by
  by_cases hh : c.id = t.id
  · simp [sameHead, hh] at h
  · exact hh

/-- two transactions planned by public functions that pass the check, the earlier one an UpdateMemWalState:
    they touch different generations -/
theorem checkTxn_disjoint {s s' : List MemWal} {x y : Txn} (hx : Shape s x) (hy : Shape s' y)
    (hc : checkTxn x y = .ok ()) (hy' : ∀ m, y ≠ .upd (some m)) : ∀ i ∈ touched x, i ∉ touched y := by
  cases hy with
  | mi m _ _ => exact absurd rfl (hy' m)
  | ins => intro i _ h; cases h
  | append => intro i _ h; cases h
  | trim rm _ => intro i _ h; simp [touched, ids] at h
  | advNew n' _ _ _ =>
    cases hx with
    | ins => intro i h; cases h
    | append => intro i h; cases h
    | trim rm _ => intro i h; simp [touched, ids] at h
    | mi m _ _ =>
      simp only [checkTxn, Option.toList] at hc
      have := sameHead_single (seqE_ok hc).1
      simp only [touched, ids, List.mem_singleton, List.append_nil, List.map_cons, List.map_nil]
      rintro i rfl h; exact this h.symm
    | advNew n _ _ _ =>
      simp [checkTxn] at hc
      have := sameHead_single (seqE_ok hc).1
      simp only [touched, ids, List.mem_singleton, List.append_nil, List.map_cons, List.map_nil]
      rintro i rfl h; exact this h.symm
    | advPlain n m _ _ _ _ _ _ =>
      simp [checkTxn] at hc
      have := sameHead_single (seqE_ok hc).1
      simp only [touched, ids, List.mem_singleton, List.append_nil, List.map_cons, List.map_nil]
      rintro i rfl h; exact this h.symm
    | advSeal n m _ _ _ _ _ _ =>
      simp [checkTxn] at hc
      have h1 := sameHead_single (seqE_ok hc).1
      have h2 := sameHead_single (seqE_ok (seqE_ok hc).2).1
      simp only [touched, ids, List.mem_singleton, List.append_nil, List.map_cons, List.map_nil, List.cons_append,
        List.nil_append, List.mem_cons, List.not_mem_nil, or_false]
      rintro i (rfl | rfl) h
      · exact h1 h.symm
      · exact h2 h.symm
    | mutate m m' _ _ _ _ =>
      simp [checkTxn] at hc
      have h2 := sameHead_single (seqE_ok (seqE_ok hc).2).1
      simp only [touched, ids, List.mem_singleton, List.append_nil, List.map_cons, List.map_nil, List.nil_append]
      rintro i rfl h; exact h2 h.symm
  | advPlain n' m0 _ _ _ _ _ _ =>
    cases hx with
    | ins => intro i h; cases h
    | append => intro i h; cases h
    | trim rm _ => intro i h; simp [touched, ids] at h
    | mi m _ _ =>
      simp only [checkTxn, Option.toList] at hc
      have := sameHead_single (seqE_ok hc).1
      simp only [touched, ids, List.mem_singleton, List.append_nil, List.map_cons, List.map_nil]
      rintro i rfl h; exact this h.symm
    | advNew n _ _ _ =>
      simp [checkTxn] at hc
      have := sameHead_single (seqE_ok hc).1
      simp only [touched, ids, List.mem_singleton, List.append_nil, List.map_cons, List.map_nil]
      rintro i rfl h; exact this h.symm
    | advPlain n m _ _ _ _ _ _ =>
      simp [checkTxn] at hc
      have := sameHead_single (seqE_ok hc).1
      simp only [touched, ids, List.mem_singleton, List.append_nil, List.map_cons, List.map_nil]
      rintro i rfl h; exact this h.symm
    | advSeal n m _ _ _ _ _ _ =>
      simp [checkTxn] at hc
      have h1 := sameHead_single (seqE_ok hc).1
      have h2 := sameHead_single (seqE_ok (seqE_ok hc).2).1
      simp only [touched, ids, List.mem_singleton, List.append_nil, List.map_cons, List.map_nil, List.cons_append,
        List.nil_append, List.mem_cons, List.not_mem_nil, or_false]
      rintro i (rfl | rfl) h
      · exact h1 h.symm
      · exact h2 h.symm
    | mutate m m' _ _ _ _ =>
      simp [checkTxn] at hc
      have h2 := sameHead_single (seqE_ok (seqE_ok hc).2).1
      simp only [touched, ids, List.mem_singleton, List.append_nil, List.map_cons, List.map_nil, List.nil_append]
      rintro i rfl h; exact h2 h.symm
  | advSeal n' m0 _ _ _ _ _ _ =>
    cases hx with
    | ins => intro i h; cases h
    | append => intro i h; cases h
    | trim rm _ => intro i h; simp [touched, ids] at h
    | mi m _ _ =>
      simp only [checkTxn, Option.toList] at hc
      have h1 := sameHead_single (seqE_ok hc).1
      have h2 := sameHead_single (seqE_ok hc).2
      simp only [touched, ids, List.mem_singleton, List.append_nil, List.map_cons, List.map_nil, List.cons_append,
        List.nil_append, List.mem_cons, List.not_mem_nil, or_false]
      rintro i rfl (h | h)
      · exact h1 h.symm
      · exact h2 h.symm
    | advNew n _ _ _ =>
      simp [checkTxn] at hc
      have h1 := sameHead_single (seqE_ok hc).1
      have h3 := sameHead_single (seqE_ok (seqE_ok (seqE_ok hc).2).2).1
      simp only [touched, ids, List.mem_singleton, List.append_nil, List.map_cons, List.map_nil, List.cons_append,
        List.nil_append, List.mem_cons, List.not_mem_nil, or_false]
      rintro i rfl (h | h)
      · exact h1 h.symm
      · exact h3 h.symm
    | advPlain n m _ _ _ _ _ _ =>
      simp [checkTxn] at hc
      have h1 := sameHead_single (seqE_ok hc).1
      have h3 := sameHead_single (seqE_ok (seqE_ok (seqE_ok hc).2).2).1
      simp only [touched, ids, List.mem_singleton, List.append_nil, List.map_cons, List.map_nil, List.cons_append,
        List.nil_append, List.mem_cons, List.not_mem_nil, or_false]
      rintro i rfl (h | h)
      · exact h1 h.symm
      · exact h3 h.symm
    | advSeal n m _ _ _ _ _ _ =>
      simp [checkTxn] at hc
      have h1 := sameHead_single (seqE_ok hc).1
      have h2 := sameHead_single (seqE_ok (seqE_ok hc).2).1
      have h3 := sameHead_single (seqE_ok (seqE_ok (seqE_ok hc).2).2).1
      have h4 := sameHead_single (seqE_ok (seqE_ok (seqE_ok hc).2).2).2
      simp only [touched, ids, List.mem_singleton, List.append_nil, List.map_cons, List.map_nil, List.cons_append,
        List.nil_append, List.mem_cons, List.not_mem_nil, or_false]
      rintro i (rfl | rfl) (h | h)
      · exact h1 h.symm
      · exact h3 h.symm
      · exact h2 h.symm
      · exact h4 h.symm
    | mutate m m' _ _ _ _ =>
      simp [checkTxn] at hc
      have h2 := sameHead_single (seqE_ok (seqE_ok hc).2).1
      have h4 := sameHead_single (seqE_ok (seqE_ok (seqE_ok hc).2).2).2
      simp only [touched, ids, List.mem_singleton, List.append_nil, List.map_cons, List.map_nil, List.cons_append,
        List.nil_append, List.mem_cons, List.not_mem_nil, or_false]
      rintro i rfl (h | h)
      · exact h2 h.symm
      · exact h4 h.symm
  | mutate m0 m0' _ _ _ _ =>
    cases hx with
    | ins => intro i h; cases h
    | append => intro i h; cases h
    | trim rm _ => intro i h; simp [touched, ids] at h
    | mi m _ _ =>
      simp only [checkTxn, Option.toList] at hc
      have h2 := sameHead_single (seqE_ok hc).2
      simp only [touched, ids, List.mem_singleton, List.append_nil, List.map_cons, List.map_nil, List.nil_append]
      rintro i rfl h; exact h2 h.symm
    | advNew n _ _ _ =>
      simp [checkTxn] at hc
      have h3 := sameHead_single (seqE_ok (seqE_ok (seqE_ok hc).2).2).1
      simp only [touched, ids, List.mem_singleton, List.append_nil, List.map_cons, List.map_nil, List.nil_append]
      rintro i rfl h; exact h3 h.symm
    | advPlain n m _ _ _ _ _ _ =>
      simp [checkTxn] at hc
      have h3 := sameHead_single (seqE_ok (seqE_ok (seqE_ok hc).2).2).1
      simp only [touched, ids, List.mem_singleton, List.append_nil, List.map_cons, List.map_nil, List.nil_append]
      rintro i rfl h; exact h3 h.symm
    | advSeal n m _ _ _ _ _ _ =>
      simp [checkTxn] at hc
      have h3 := sameHead_single (seqE_ok (seqE_ok (seqE_ok hc).2).2).1
      have h4 := sameHead_single (seqE_ok (seqE_ok (seqE_ok hc).2).2).2
      simp only [touched, ids, List.mem_singleton, List.append_nil, List.map_cons, List.map_nil, List.cons_append,
        List.nil_append, List.mem_cons, List.not_mem_nil, or_false]
      rintro i (rfl | rfl) h
      · exact h3 h.symm
      · exact h4 h.symm
    | mutate m m' _ _ _ _ =>
      simp [checkTxn] at hc
      have h4 := sameHead_single (seqE_ok (seqE_ok (seqE_ok hc).2).2).2
      simp only [touched, ids, List.mem_singleton, List.append_nil, List.map_cons, List.map_nil, List.nil_append]
      rintro i rfl h; exact h4 h.symm

/-! ## schedules of any number of writers -/

/-- the table and every writer's handle (writer ids are natural numbers) -/
structure World where
  tab : Tab
  hs : Nat → Snap

/-- a writer re-opens the latest version, or runs one operation through its (possibly stale) handle -/
inductive Act where
  | sync (h : Nat)
  | run (h : Nat) (op : Op)

def updH (f : Nat → Snap) (i : Nat) (v : Snap) : Nat → Snap := fun j => if j = i then v else f j

def World.act (w : World) : Act → World
  | .sync h => { w with hs := updH w.hs h w.tab.snap }
  | .run h op =>
    match exec w.tab (w.hs h) op with
    | .ok t' => { tab := t', hs := updH w.hs h t'.snap }
    | .error _ => w

def World.init : World := { tab := Tab.init, hs := fun _ => Tab.init.snap }

def World.runs (w : World) (acts : List Act) : World := acts.foldl World.act w

/-- every committed transaction was planned by a public function on some snapshot -/
def Planned (t : Tab) : Prop := ∀ p ∈ t.log, ∃ s, Shape s p.2

theorem applyTxn_log {t t' : Tab} {x : Txn} (ha : applyTxn t x = .ok t') : t'.log = t.log ++ [(t.version + 1, x)] := by
  unfold applyTxn at ha
  split at ha
  · split at ha
    · cases ha
    · cases ha; rfl
  · split at ha
    · cases ha
    · cases ha; rfl
  · cases ha; rfl
  · cases ha; rfl
  · cases ha; rfl

theorem planned_exec {t t' : Tab} {h : Snap} {op : Op} (hp : Planned t) (he : exec t h op = .ok t') : Planned t' := by
  obtain ⟨x, hx, _, ha⟩ := exec_ok he
  intro p hpm
  rw [applyTxn_log ha, List.mem_append] at hpm
  rcases hpm with hpm | hpm
  · exact hp p hpm
  · rw [List.mem_singleton] at hpm
    subst hpm
    exact ⟨_, plan_shape hx⟩

theorem planned_runs (acts : List Act) : ∀ w : World, Planned w.tab → Planned (w.runs acts).tab := by
  induction acts with
  | nil => intro w h; exact h
  | cons a rest ih =>
    intro w h
    apply ih
    cases a with
    | sync i => exact h
    | run i op =>
      simp only [World.act]
      split
      · next t' he => exact planned_exec h he
      · exact h

theorem planned_init : Planned Tab.init := by intro p hp; cases hp

theorem checkAll_mem {x : Txn} {l : List Txn} (h : checkAll x l = .ok ()) : ∀ y ∈ l, checkTxn x y = .ok () := by
  induction l with
  | nil => intro y hy; cases hy
  | cons a t ih =>
    intro y hy
    have := seqE_ok h
    rcases List.mem_cons.mp hy with rfl | hy
    · exact this.1
    · exact ih this.2 y hy

theorem mem_since {t : Tab} {rv : Nat} {p : Nat × Txn} (hp : p ∈ t.log) (hv : rv < p.1) : p.2 ∈ since t rv := by
  unfold since
  exact List.mem_map.mpr ⟨p, List.mem_filter.mpr ⟨hp, by simpa using hv⟩, rfl⟩

def committed (r : Except Err Tab) : Bool :=
  match r with
  | .ok _ => true
  | .error _ => false

theorem commit_disjoint {t : Tab} {rv : Nat} {s : List MemWal} {x : Txn} (hpl : Planned t) (hx : Shape s x)
    (hc : committed (commit t rv x) = true) :
    ∀ p ∈ t.log, rv < p.1 → (∀ m, p.2 ≠ .upd (some m)) → ∀ i ∈ touched x, i ∉ touched p.2 := by
  intro p hp hv hnm
  unfold commit at hc
  split at hc
  · cases hc
  · next u hu =>
    cases u
    obtain ⟨s', hs'⟩ := hpl p hp
    exact checkTxn_disjoint hx hs' (checkAll_mem hu _ (mem_since hp hv)) hnm

end LanceModel.C39
