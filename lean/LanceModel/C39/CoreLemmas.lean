import LanceModel.C39.Lemmas
/-!
C39 helper lemmas, part 2: `applyL` (update_mem_wal_index_in_indices_list) preserves the per-list invariant `Core`
for each shape of transaction the public functions build, under local facts about the list it is applied to.
-/
namespace LanceModel.C39

theorem mem_applyL {l : List MemWal} {nv : Nat} {a u rm : List MemWal} {x : MemWal} :
    x ∈ applyL l nv a u rm ↔
      (x ∈ l ∧ ∀ y ∈ rm, y.id ≠ x.id) ∨ (∃ y ∈ a, x = setLu nv y) ∨ (∃ y ∈ u, x = setLu nv y) := by
  unfold applyL
  simp only [List.mem_append, mem_keep, List.mem_map]
  constructor
  · rintro ((h | ⟨y, hy, rfl⟩) | ⟨y, hy, rfl⟩)
    · exact Or.inl h
    · exact Or.inr (Or.inl ⟨y, hy, rfl⟩)
    · exact Or.inr (Or.inr ⟨y, hy, rfl⟩)
  · rintro (h | ⟨y, hy, rfl⟩ | ⟨y, hy, rfl⟩)
    · exact Or.inl (Or.inl h)
    · exact Or.inl (Or.inr ⟨y, hy, rfl⟩)
    · exact Or.inr ⟨y, hy, rfl⟩

theorem uniq_keep {l rm : List MemWal} (h : l.Pairwise (fun a b => a.id ≠ b.id)) :
    (l.filter (fun m => !removedBy rm m)).Pairwise (fun a b => a.id ≠ b.id) :=
  h.filter _

/-- trim shape: removing any set of ids (they become trimmed) keeps `Core` -/
theorem core_trim {l : List MemWal} {tr : List (Nat × Nat)} (hc : Core l tr) (nv : Nat) (rm : List MemWal) :
    Core (applyL l nv [] [] rm) (tr ++ (ids rm).filter (fun i => i ∉ ids ([] ++ []))) := by
  have hmem : ∀ x, x ∈ applyL l nv [] [] rm ↔ x ∈ l ∧ ∀ y ∈ rm, y.id ≠ x.id := by
    intro x; rw [mem_applyL]; simp
  have htr : ∀ i, i ∈ tr ++ (ids rm).filter (fun i => i ∉ ids ([] ++ [])) ↔ i ∈ tr ∨ ∃ y ∈ rm, y.id = i := by
    intro i; simp [ids]
  refine ⟨?_, ?_, ?_, ?_⟩
  · unfold applyL; simpa using uniq_keep hc.uniq
  · intro m hm ho x hx hr
    exact hc.openLatest m ((hmem m).mp hm).1 ho x ((hmem x).mp hx).1 hr
  · intro m hm hin
    rcases (htr _).mp hin with h | ⟨y, hy, hid⟩
    · exact hc.disj m ((hmem m).mp hm).1 h
    · exact ((hmem m).mp hm).2 y hy hid
  · intro m hm g hg
    rcases hc.closed m ((hmem m).mp hm).1 g hg with ⟨x, hx, hid⟩ | h
    · by_cases hrm : ∃ y ∈ rm, y.id = x.id
      · obtain ⟨y, hy, hyid⟩ := hrm
        exact Or.inr ((htr _).mpr (Or.inr ⟨y, hy, hyid.trans hid⟩))
      · exact Or.inl ⟨x, (hmem x).mpr ⟨hx, fun y hy hyid => hrm ⟨y, hy, hyid⟩⟩, hid⟩
    · exact Or.inr ((htr _).mpr (Or.inl h))

/-- mutate shape: the record with the id of `m` is replaced by `m'` (same id) -/
theorem core_replace {l : List MemWal} {tr : List (Nat × Nat)} (hc : Core l tr) (nv : Nat) (m m' : MemWal)
    (hz : ∃ z ∈ l, z.id = m.id) (hid : m'.id = m.id)
    (hopen : m'.state = .open → ∀ x ∈ l, x.region = m.region → x.gen ≤ m.gen) :
    Core (applyL l nv [] [m'] [m]) tr := by
  obtain ⟨z, hzl, hzid⟩ := hz
  have hmem : ∀ x, x ∈ applyL l nv [] [m'] [m] ↔ (x ∈ l ∧ m.id ≠ x.id) ∨ x = setLu nv m' := by
    intro x; rw [mem_applyL]; simp
  have hreg : m'.region = m.region ∧ m'.gen = m.gen := (id_eq_iff _ _).mp hid
  have hzr : z.region = m.region ∧ z.gen = m.gen := (id_eq_iff _ _).mp hzid
  refine ⟨?_, ?_, ?_, ?_⟩
  · unfold applyL
    simp only [List.map_nil, List.append_nil, List.map_cons]
    rw [List.pairwise_append]
    refine ⟨uniq_keep hc.uniq, List.pairwise_singleton _ _, ?_⟩
    intro a ha b hb
    rw [List.mem_singleton] at hb
    subst hb
    have := (mem_keep.mp ha).2 m (List.mem_singleton.mpr rfl)
    rw [setLu_id, hid]
    exact fun h => this h.symm
  · intro x hx ho y hy hr
    rcases (hmem x).mp hx with ⟨hxl, _⟩ | rfl
    · rcases (hmem y).mp hy with ⟨hyl, _⟩ | rfl
      · exact hc.openLatest x hxl ho y hyl hr
      · have := hc.openLatest x hxl ho z hzl (by rw [hzr.1, ← hreg.1]; exact hr)
        rw [setLu_gen, hreg.2, ← hzr.2]; exact this
    · rw [setLu_state] at ho
      rw [setLu_gen, hreg.2]
      rcases (hmem y).mp hy with ⟨hyl, _⟩ | rfl
      · exact hopen ho y hyl (by rw [hr, setLu_region, hreg.1])
      · rw [setLu_gen, hreg.2]; exact Nat.le_refl _
  · intro x hx
    rcases (hmem x).mp hx with ⟨hxl, _⟩ | rfl
    · exact hc.disj x hxl
    · rw [setLu_id, hid, ← hzid]; exact hc.disj z hzl
  · intro x hx g hg
    have key : ∀ w ∈ l, ∃ w' ∈ applyL l nv [] [m'] [m], w'.id = w.id := by
      intro w hw
      by_cases hwm : m.id = w.id
      · exact ⟨setLu nv m', (hmem _).mpr (Or.inr rfl), by rw [setLu_id, hid, hwm]⟩
      · exact ⟨w, (hmem _).mpr (Or.inl ⟨hw, hwm⟩), rfl⟩
    have hxsrc : ∃ x0 ∈ l, x0.region = x.region ∧ x0.gen = x.gen := by
      rcases (hmem x).mp hx with ⟨hxl, _⟩ | rfl
      · exact ⟨x, hxl, rfl, rfl⟩
      · exact ⟨z, hzl, by rw [setLu_region, hreg.1, hzr.1], by rw [setLu_gen, hreg.2, hzr.2]⟩
    obtain ⟨x0, hx0, hr0, hg0⟩ := hxsrc
    rcases hc.closed x0 hx0 g (by omega) with ⟨w, hw, hwid⟩ | h
    · obtain ⟨w', hw', hw'id⟩ := key w hw
      exact Or.inl ⟨w', hw', by rw [hw'id, hwid, hr0]⟩
    · exact Or.inr (by rw [← hr0]; exact h)

/-- advance shape without sealing: a new Open generation `n` is pushed -/
theorem core_advance_plain {l : List MemWal} {tr : List (Nat × Nat)} (hc : Core l tr) (nv : Nat) (n : MemWal)
    (hnew : ∀ x ∈ l, x.id ≠ n.id) (hntr : n.id ∉ tr)
    (hmax : ∀ x ∈ l, x.region = n.region → x.gen < n.gen)
    (hclosed : ∀ g, g < n.gen → (∃ x ∈ l, x.id = (n.region, g)) ∨ (n.region, g) ∈ tr)
    (hnoopen : ∀ x ∈ l, x.region = n.region → x.state ≠ .open) :
    Core (applyL l nv [n] [] []) tr := by
  have hmem : ∀ x, x ∈ applyL l nv [n] [] [] ↔ x ∈ l ∨ x = setLu nv n := by
    intro x; rw [mem_applyL]; simp
  refine ⟨?_, ?_, ?_, ?_⟩
  · unfold applyL
    simp only [List.map_nil, List.append_nil, List.map_cons]
    rw [List.pairwise_append]
    refine ⟨uniq_keep hc.uniq, List.pairwise_singleton _ _, ?_⟩
    intro a ha b hb
    rw [List.mem_singleton] at hb
    subst hb
    rw [setLu_id]
    exact hnew a (mem_keep.mp ha).1
  · intro x hx ho y hy hr
    rcases (hmem x).mp hx with hxl | rfl
    · rcases (hmem y).mp hy with hyl | rfl
      · exact hc.openLatest x hxl ho y hyl hr
      · exact absurd ho (hnoopen x hxl (by rw [← hr, setLu_region]))
    · rw [setLu_gen]
      rcases (hmem y).mp hy with hyl | rfl
      · exact Nat.le_of_lt (hmax y hyl (by rw [hr, setLu_region]))
      · rw [setLu_gen]; exact Nat.le_refl _
  · intro x hx
    rcases (hmem x).mp hx with hxl | rfl
    · exact hc.disj x hxl
    · rw [setLu_id]; exact hntr
  · intro x hx g hg
    rcases (hmem x).mp hx with hxl | rfl
    · rcases hc.closed x hxl g hg with ⟨w, hw, hwid⟩ | h
      · exact Or.inl ⟨w, (hmem w).mpr (Or.inl hw), hwid⟩
      · exact Or.inr h
    · rw [setLu_gen] at hg
      rw [setLu_region]
      rcases hclosed g hg with ⟨w, hw, hwid⟩ | h
      · exact Or.inl ⟨w, (hmem w).mpr (Or.inl hw), hwid⟩
      · exact Or.inr h

/-- advance shape with sealing: a new Open generation `n` is pushed and the record with the id of `m` is replaced by
    `m'` (same id, not Open) -/
theorem core_advance_seal {l : List MemWal} {tr : List (Nat × Nat)} (hc : Core l tr) (nv : Nat) (n m m' : MemWal)
    (hz : ∃ z ∈ l, z.id = m.id) (hid : m'.id = m.id) (hst : m'.state ≠ .open)
    (hnm : n.id ≠ m.id)
    (hnew : ∀ x ∈ l, x.id ≠ n.id) (hntr : n.id ∉ tr)
    (hmax : ∀ x ∈ l, x.region = n.region → x.gen < n.gen)
    (hclosed : ∀ g, g < n.gen → (∃ x ∈ l, x.id = (n.region, g)) ∨ (n.region, g) ∈ tr)
    (hnoopen : ∀ x ∈ l, x.region = n.region → x.state = .open → x.id = m.id) :
    Core (applyL l nv [n] [m'] [m]) tr := by
  obtain ⟨z, hzl, hzid⟩ := hz
  have hmem : ∀ x, x ∈ applyL l nv [n] [m'] [m] ↔ (x ∈ l ∧ m.id ≠ x.id) ∨ x = setLu nv n ∨ x = setLu nv m' := by
    intro x; rw [mem_applyL]; simp
  have hreg : m'.region = m.region ∧ m'.gen = m.gen := (id_eq_iff _ _).mp hid
  have hzr : z.region = m.region ∧ z.gen = m.gen := (id_eq_iff _ _).mp hzid
  refine ⟨?_, ?_, ?_, ?_⟩
  · unfold applyL
    simp only [List.map_nil, List.map_cons]
    rw [List.pairwise_append, List.pairwise_append]
    refine ⟨⟨uniq_keep hc.uniq, List.pairwise_singleton _ _, ?_⟩, List.pairwise_singleton _ _, ?_⟩
    · intro a ha b hb
      rw [List.mem_singleton] at hb
      subst hb
      rw [setLu_id]
      exact hnew a (mem_keep.mp ha).1
    · intro a ha b hb
      rw [List.mem_singleton] at hb
      subst hb
      rw [setLu_id, hid]
      rcases List.mem_append.mp ha with ha | ha
      · have := (mem_keep.mp ha).2 m (List.mem_singleton.mpr rfl)
        exact fun h => this h.symm
      · rw [List.mem_singleton] at ha
        subst ha
        rw [setLu_id]; exact hnm
  · intro x hx ho y hy hr
    rcases (hmem x).mp hx with ⟨hxl, hxm⟩ | rfl | rfl
    · -- an old Open record other than `m`: then it is not of the region of `n`
      have hxr : x.region ≠ n.region := fun h => hxm (hnoopen x hxl h ho).symm
      rcases (hmem y).mp hy with ⟨hyl, _⟩ | rfl | rfl
      · exact hc.openLatest x hxl ho y hyl hr
      · exact absurd (by rw [← hr, setLu_region]) hxr
      · have := hc.openLatest x hxl ho z hzl (by rw [hzr.1, ← hreg.1]; exact hr)
        rw [setLu_gen, hreg.2, ← hzr.2]; exact this
    · rw [setLu_gen]
      rcases (hmem y).mp hy with ⟨hyl, _⟩ | rfl | rfl
      · exact Nat.le_of_lt (hmax y hyl (by rw [hr, setLu_region]))
      · rw [setLu_gen]; exact Nat.le_refl _
      · rw [setLu_gen, hreg.2, ← hzr.2]
        exact Nat.le_of_lt (hmax z hzl (by rw [hzr.1, ← hreg.1]; rw [setLu_region, setLu_region] at hr; exact hr))
    · rw [setLu_state] at ho; exact absurd ho hst
  · intro x hx
    rcases (hmem x).mp hx with ⟨hxl, _⟩ | rfl | rfl
    · exact hc.disj x hxl
    · rw [setLu_id]; exact hntr
    · rw [setLu_id, hid, ← hzid]; exact hc.disj z hzl
  · have key : ∀ w ∈ l, ∃ w' ∈ applyL l nv [n] [m'] [m], w'.id = w.id := by
      intro w hw
      by_cases hwm : m.id = w.id
      · exact ⟨setLu nv m', (hmem _).mpr (Or.inr (Or.inr rfl)), by rw [setLu_id, hid, hwm]⟩
      · exact ⟨w, (hmem _).mpr (Or.inl ⟨hw, hwm⟩), rfl⟩
    intro x hx g hg
    rcases (hmem x).mp hx with ⟨hxl, _⟩ | rfl | rfl
    · rcases hc.closed x hxl g hg with ⟨w, hw, hwid⟩ | h
      · obtain ⟨w', hw', hw'id⟩ := key w hw
        exact Or.inl ⟨w', hw', by rw [hw'id, hwid]⟩
      · exact Or.inr h
    · rw [setLu_gen] at hg
      rw [setLu_region]
      rcases hclosed g hg with ⟨w, hw, hwid⟩ | h
      · obtain ⟨w', hw', hw'id⟩ := key w hw
        exact Or.inl ⟨w', hw', by rw [hw'id, hwid]⟩
      · exact Or.inr h
    · rw [setLu_gen, hreg.2, ← hzr.2] at hg
      rw [setLu_region, hreg.1, ← hzr.1]
      rcases hc.closed z hzl g hg with ⟨w, hw, hwid⟩ | h
      · obtain ⟨w', hw', hw'id⟩ := key w hw
        exact Or.inl ⟨w', hw', by rw [hw'id, hwid]⟩
      · exact Or.inr h

end LanceModel.C39
