import LanceModel.C39.RoundLemmas
/-!
# C39 — the MemWAL index follows its state machine, also under concurrent writers

"For every region, generations are numbered consecutively, each generation appears once, only the latest generation may
be open, a generation's state only moves forward through open, sealed, flushed and merged, a trimmed merged generation
never reappears, and two concurrent changes to the same generation or ownership never both commit."

Everything below is about the model in `Model.lean` (`plan` = what each public function of `index/mem_wal.rs` /
`merge_insert.rs` puts into its transaction, `checkTxn` = the conflict rules, `applyTxn` = `build_manifest`); the tie to the
Rust code is the correspondence run of `./check C39`.

`Core l tr` (Lemmas.lean) is the list invariant: `l` = the live generations, `tr` = the ghost set of ids a commit removed
and did not push back.  Its four fields are the first four clauses of the property:
`uniq` (each generation once), `openLatest` (only the latest may be open), `disj` (a trimmed generation is not live — it
never reappears), `closed` (below a live generation every number is live or trimmed — numbering is consecutive).
`TrimBelow` says that every trimmed generation is older than a live one of its region.

The code does NOT meet the property in four places (all reproduced on the real code, see known_findings.json):
* a trim that removes the newest generation of a region lets the next advance start again at generation 0
  (`seq_full_counterexample`);
* a trim-only commit is compatible with everything: a stale update of a generation it removed brings it back
  (`trimmed_reappears_counterexample`);
* an UpdateMemWalState commit is compatible with every earlier merge_insert that merges a generation: a stale change of that
  generation commits too and can move it back from Merged (`state_backward_counterexample`,
  `same_generation_conflict_counterexample`);
* two merge_inserts merging the same generation both commit (`same_generation_conflict_counterexample_mi_mi`).
-/
namespace LanceModel.C39

instance instDecEqExcept {ε α : Type} [DecidableEq ε] [DecidableEq α] : DecidableEq (Except ε α) := fun a b =>
  match a, b with
  | .ok x, .ok y => if h : x = y then isTrue (by rw [h]) else isFalse (by intro h'; cases h'; exact h rfl)
  | .error x, .error y => if h : x = y then isTrue (by rw [h]) else isFalse (by intro h'; cases h'; exact h rfl)
  | .ok _, .error _ => isFalse (by intro h; cases h)
  | .error _, .ok _ => isFalse (by intro h; cases h)

/-! ## Part 1: one writer (every op list) -/

def trimBelowB (t : Tab) : Bool :=
  t.trimmed.all (fun i => t.live.any (fun m => decide (m.region = i.1) && decide (i.2 < m.gen)))

theorem trimBelowB_iff (t : Tab) : trimBelowB t = true ↔ TrimBelow t.live t.trimmed := by
  simp [trimBelowB, TrimBelow]

/-- the decidable hypothesis of the `_partial` theorems: after every step of the run, every trimmed generation is older
    than a live generation of its region — i.e. no trim removed the newest generation of a region -/
def safeRun : Tab → List Op → Bool
  | _, [] => true
  | t, op :: rest => trimBelowB (step t op) && safeRun (step t op) rest

/-- the invariant as a statement about a table -/
def Inv (t : Tab) : Prop := Core t.live t.trimmed

/-- FULL statement for one writer: the invariant holds after every op list -/
def C39_seq_full : Prop := ∀ ops : List Op, Inv (run Tab.init ops)

theorem inv_init : Inv Tab.init ∧ TrimBelow Tab.init.live Tab.init.trimmed := by
  refine ⟨⟨List.Pairwise.nil, ?_, ?_, ?_⟩, ?_⟩ <;> intro m hm <;> cases hm

/-- one step through an up-to-date handle keeps the invariant -/
theorem inv_step (t : Tab) (op : Op) (hi : Inv t) (hb : TrimBelow t.live t.trimmed) : Inv (step t op) := by
  unfold step
  split
  · next t' he =>
    obtain ⟨x, hx, _, ha⟩ := exec_ok he
    have hs : Shape t.live x := plan_shape hx
    exact applyTxn_core hi (shape_fits_self hi hb hs) ha
  · exact hi

/-- generations are numbered consecutively, each appears once, only the latest may be open and a trimmed generation never
    reappears — after EVERY op list of one writer in which no trim removes the newest generation of a region -/
theorem seq_invariant_partial (ops : List Op) :
    ∀ t : Tab, Inv t → TrimBelow t.live t.trimmed → safeRun t ops = true →
      Inv (run t ops) ∧ TrimBelow (run t ops).live (run t ops).trimmed := by
  induction ops with
  | nil => intro t hi hb _; exact ⟨hi, hb⟩
  | cons op rest ih =>
    intro t hi hb hs
    simp only [safeRun, Bool.and_eq_true] at hs
    exact ih (step t op) (inv_step t op hi hb) ((trimBelowB_iff _).mp hs.1) hs.2

def restartOps : List Op :=
  [.adv 0 1 1 none 0, .markSealed 0 0 0, .markFlushed 0 0 0, .markMerged 0 0 0, .trim, .adv 0 2 2 none 0]

/-- the code does not meet the full statement: once a trim has removed the only generation of a region, the next advance
    creates generation 0 again (a trimmed generation reappears, numbering restarts) -/
theorem seq_full_counterexample : ¬ C39_seq_full := by
  intro h
  exact (h restartOps).disj (newEmpty 0 0 2 2 0 |> setLu 7) (by decide) (by decide)

/-- non-vacuity: a run with a trim that keeps the newest generation satisfies the hypothesis (and trims something) -/
example : safeRun Tab.init [.adv 0 1 1 none 0, .adv 0 2 2 (some 0) 1, .markFlushed 0 0 0, .markMerged 0 0 0, .trim] = true ∧
    (run Tab.init [.adv 0 1 1 none 0, .adv 0 2 2 (some 0) 1, .markFlushed 0 0 0, .markMerged 0 0 0, .trim]).trimmed = [(0, 0)] := by
  decide
example : safeRun Tab.init restartOps = false := by decide

/-- a generation's state only moves forward: one step of one writer never lowers the state of a generation that stays
    live (unconditional given the invariant of the state it starts from) -/
theorem state_forward_step (t : Tab) (op : Op) (hi : Inv t) :
    ∀ m ∈ t.live, ∀ m' ∈ (step t op).live, m'.id = m.id → m.state.rank ≤ m'.state.rank := by
  unfold step
  split
  · next t' he =>
    obtain ⟨x, hx, _, ha⟩ := exec_ok he
    exact applyTxn_forward hi (plan_shape hx) ha
  · intro m hm m' hm' hid
    rw [uniq_eq hi.uniq hm' hm hid]; exact Nat.le_refl _

/-- … along every run of one writer: between any two consecutive tables of the run -/
theorem states_move_forward (pre : List Op) (op : Op) (hs : safeRun Tab.init pre = true) :
    ∀ m ∈ (run Tab.init pre).live, ∀ m' ∈ (run Tab.init (pre ++ [op])).live, m'.id = m.id →
      m.state.rank ≤ m'.state.rank := by
  have hi := (seq_invariant_partial pre Tab.init inv_init.1 inv_init.2 hs).1
  have : run Tab.init (pre ++ [op]) = step (run Tab.init pre) op := by simp [run, List.foldl_append]
  rw [this]
  exact state_forward_step _ op hi

example : (run Tab.init [.adv 0 1 1 none 0, .markSealed 0 0 0]).live.map (·.state) = [.sealed] := by decide

/-! ## Part 2: any number of writers with stale handles (every schedule) -/

/-- FULL statement: a commit never touches a generation that a transaction committed after its read version touched -/
def SameGenerationFull : Prop :=
  ∀ (acts : List Act) (h : Nat) (op : Op) (x : Txn),
    plan ((World.init.runs acts).hs h) op = .ok x →
    committed (commit (World.init.runs acts).tab ((World.init.runs acts).hs h).version x) = true →
    ∀ p ∈ (World.init.runs acts).tab.log, ((World.init.runs acts).hs h).version < p.1 →
      ∀ i ∈ touched x, i ∉ touched p.2

/-- two concurrent changes to the same generation or ownership never both commit — for every schedule of any number of
    writers, whenever the EARLIER of the two commits is not a merge_insert that merges a generation -/
theorem same_generation_conflict_partial (acts : List Act) (h : Nat) (op : Op) (x : Txn)
    (hp : plan ((World.init.runs acts).hs h) op = .ok x)
    (hc : committed (commit (World.init.runs acts).tab ((World.init.runs acts).hs h).version x) = true) :
    ∀ p ∈ (World.init.runs acts).tab.log, ((World.init.runs acts).hs h).version < p.1 →
      (∀ m, p.2 ≠ .upd (some m)) → ∀ i ∈ touched x, i ∉ touched p.2 :=
  commit_disjoint (planned_runs acts World.init planned_init) (plan_shape hp) hc

/-- generation 0 flushed, generation 1 open; writers 1 and 2 open the table; writer 1 merges generation 0 by merge_insert -/
def miActs : List Act :=
  [.run 0 (.adv 0 1 1 none 0), .run 0 (.adv 0 2 2 (some 0) 1), .run 0 (.markFlushed 0 0 0), .sync 1, .sync 2,
   .run 1 (.mi 0 0 0)]

def gen0Flushed : MemWal :=
  { region := 0, gen := 0, mt := 1, wal := 1, entries := [], state := .flushed, owner := 0, lu := 4 }

/-- … then writer 2's stale owner change of generation 0 commits as well -/
theorem same_generation_conflict_counterexample : ¬ SameGenerationFull := by
  intro hf
  exact hf miActs 2 (.own 0 0 3 none) (.mw [] [{ gen0Flushed with owner := 3 }] [gen0Flushed]) (by decide) (by decide)
    (5, .upd (some gen0Flushed)) (by decide) (by decide) (0, 0) (by decide) (by decide)

/-- … and so does writer 2's merge_insert merging the same generation -/
theorem same_generation_conflict_counterexample_mi_mi : ¬ SameGenerationFull := by
  intro hf
  exact hf miActs 2 (.mi 0 0 0) (.upd (some gen0Flushed)) (by decide) (by decide)
    (5, .upd (some gen0Flushed)) (by decide) (by decide) (0, 0) (by decide) (by decide)

/-- non-vacuity of the partial theorem: two writers changing different generations both commit -/
example : committed (commit (World.init.runs (miActs ++ [.run 1 (.app 0 1 7 1)])).tab 4
    (.mw [] [{ gen0Flushed with owner := 3 }] [gen0Flushed])) = true := by decide

/-- FULL statement: whatever the schedule, the invariant holds and no commit lowers a state -/
def C39_conc_full : Prop := ∀ acts : List Act, Inv (World.init.runs acts).tab

/-- a trim-only commit is compatible with everything: writer 2's stale owner change of the generation writer 1 trimmed
    pushes the generation back into the list -/
theorem trimmed_reappears_counterexample : ¬ C39_conc_full := by
  intro h
  have := (h [.run 0 (.adv 0 1 1 none 0), .run 0 (.adv 0 2 2 (some 0) 1), .run 0 (.markFlushed 0 0 0),
    .run 0 (.markMerged 0 0 0), .sync 1, .sync 2, .run 1 .trim, .run 2 (.own 0 0 3 none)]).disj
      { region := 0, gen := 0, mt := 1, wal := 1, entries := [], state := .merged, owner := 3, lu := 7 }
  exact this (by decide) (by decide)

/-- the state of generation 0 after the schedule `miActs` followed by writer 2's stale owner change: Flushed again,
    after it had been Merged -/
theorem state_backward_counterexample :
    ((World.init.runs miActs).tab.live.filter (fun m => m.id = (0, 0))).map (·.state) = [.merged] ∧
    ((World.init.runs (miActs ++ [.run 2 (.own 0 0 3 none)])).tab.live.filter (fun m => m.id = (0, 0))).map (·.state)
      = [.flushed] := by
  decide

/-! ## Part 3: rounds of concurrent writers planned on a common read version, committed in any order -/

/-- FULL statement: every op of the list is planned on the same snapshot of a good table (a common read version) and the
    transactions are committed in list order through the conflict check and the rebase; the invariant holds afterwards -/
def C39_round_full : Prop :=
  ∀ (t : Tab) (ops : List Op), Inv t → TrimBelow t.live t.trimmed → LogOK t → Inv (round t t.snap ops).1

/-- the invariant is preserved by every accepted commit of a round of any number of concurrent writers, in every commit
    order (the list order is arbitrary) — provided no accepted commit runs into one of the three gaps of the conflict check
    (`roundSafe`: touching a generation a trim-only commit of the round removed, or the generation a merge_insert of the
    round merged) -/
theorem round_invariant_partial (t : Tab) (ops : List Op) (hi : Inv t) (hb : TrimBelow t.live t.trimmed) (hl : LogOK t)
    (hs : roundSafe t t.snap ops = true) : Inv (round t t.snap ops).1 := by
  have h0 : RInv t.live t.trimmed t.snap.version t := by
    refine ⟨?_, hi, Nat.le_refl _⟩
    show J t.live t.trimmed t.live t.trimmed (since t t.version)
    rw [since_self hl]
    exact J_init _ _
  exact (round_rinv (h := t.snap) rfl hi hb ops t h0 hs).core

/-- histories made of rounds: all writers re-open the table between two rounds (a round of one op is a sequential step) -/
def rounds (t : Tab) : List (List Op) → Tab
  | [] => t
  | r :: rest => rounds (round t t.snap r).1 rest

def roundsSafe (t : Tab) : List (List Op) → Bool
  | [] => true
  | r :: rest => trimBelowB t && roundSafe t t.snap r && roundsSafe (round t t.snap r).1 rest

/-- … after every history of rounds starting from the empty table -/
theorem rounds_invariant_partial (rs : List (List Op)) :
    ∀ t : Tab, Inv t → LogOK t → roundsSafe t rs = true → Inv (rounds t rs) := by
  induction rs with
  | nil => intro t hi _ _; exact hi
  | cons r rest ih =>
    intro t hi hl hs
    simp only [roundsSafe, Bool.and_eq_true] at hs
    exact ih _ (round_invariant_partial t r hi ((trimBelowB_iff t).mp hs.1.1) hl hs.1.2) (logOK_round _ r t hl) hs.2

def mergedThenOpen : Tab :=
  run Tab.init [.adv 0 1 1 none 0, .adv 0 2 2 (some 0) 1, .markFlushed 0 0 0, .markMerged 0 0 0]

/-- the code does not meet the full statement: a trim and a stale owner change of the generation it removes, planned on
    the same version and committed in this order -/
theorem round_full_counterexample : ¬ C39_round_full := by
  intro h
  have hrun := seq_invariant_partial [.adv 0 1 1 none 0, .adv 0 2 2 (some 0) 1, .markFlushed 0 0 0, .markMerged 0 0 0]
    Tab.init inv_init.1 inv_init.2 (by decide)
  have hlog : LogOK mergedThenOpen := by
    intro p hp
    have : ∀ q ∈ mergedThenOpen.log, q.1 ≤ mergedThenOpen.version := by decide
    exact this p hp
  have := (h mergedThenOpen [.trim, .own 0 0 3 none] hrun.1 hrun.2 hlog).disj
    { region := 0, gen := 0, mt := 1, wal := 1, entries := [], state := .merged, owner := 3, lu := 7 }
  exact this (by decide) (by decide)

/-- non-vacuity: a round of three writers (advance, flush of the sealed generation, merge_insert … ) satisfies the
    hypothesis and two of them commit; the round `[trim, own]` above does not -/
example : roundSafe mergedThenOpen mergedThenOpen.snap [.adv 0 3 3 (some 1) 2, .app 0 1 5 1, .own 0 0 3 none, .trim] = true ∧
    (round mergedThenOpen mergedThenOpen.snap [.adv 0 3 3 (some 1) 2, .app 0 1 5 1, .own 0 0 3 none, .trim]).2
      = [true, false, true, true] := by decide
example : roundSafe mergedThenOpen mergedThenOpen.snap [.trim, .own 0 0 3 none] = false := by decide
example : roundsSafe Tab.init [[.adv 0 1 1 none 0], [.adv 0 2 2 (some 0) 1, .app 0 0 4 0], [.markFlushed 0 0 0, .app 0 1 9 1]]
    = true := by decide

end LanceModel.C39
