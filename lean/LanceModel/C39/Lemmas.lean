import LanceModel.C39.Model
/-!
C39 helper lemmas, part 1: reading the list (`lookup`, `latest`), the shape of planned transactions, and the effect of
`applyL` on the per-list invariant `Core`.
-/
namespace LanceModel.C39

/-! ## lookup / latest -/

theorem lookup_some {l : List MemWal} {r g : Nat} {m : MemWal} (h : lookup l r g = some m) :
    m ∈ l ∧ m.region = r ∧ m.gen = g := by
  induction l with
  | nil => simp [lookup] at h
  | cons a t ih =>
    simp only [lookup] at h
    split at h
    · next x hx =>
      cases h
      have := ih hx
      exact ⟨List.mem_cons_of_mem _ this.1, this.2⟩
    · split at h
      · next hc => cases h; exact ⟨List.mem_cons_self, hc⟩
      · cases h

theorem lookup_none {l : List MemWal} {r g : Nat} (h : lookup l r g = none) :
    ∀ m ∈ l, ¬ (m.region = r ∧ m.gen = g) := by
  induction l with
  | nil => simp
  | cons a t ih =>
    simp only [lookup] at h
    split at h
    · cases h
    · next hx =>
      split at h
      · cases h
      · next hc =>
        intro m hm
        rcases List.mem_cons.mp hm with rfl | hm
        · exact hc
        · exact ih hx m hm

theorem latest_none {l : List MemWal} {r : Nat} (h : latest l r = none) : ∀ x ∈ l, x.region ≠ r := by
  induction l with
  | nil => simp
  | cons b u ihu =>
    intro x hx'
    simp only [latest] at h
    split at h
    · split at h <;> cases h
    · next hb =>
      split at h
      · cases h
      · next hbr =>
        rcases List.mem_cons.mp hx' with rfl | hx'
        · exact hbr
        · exact ihu hb x hx'

theorem latest_some {l : List MemWal} {r : Nat} {m : MemWal} (h : latest l r = some m) :
    m ∈ l ∧ m.region = r ∧ ∀ x ∈ l, x.region = r → x.gen ≤ m.gen := by
  induction l generalizing m with
  | nil => simp [latest] at h
  | cons a t ih =>
    simp only [latest] at h
    split at h
    · next x hx =>
      have ihx := ih hx
      split at h
      · next hc =>
        cases h
        refine ⟨List.mem_cons_self, hc.1, ?_⟩
        intro y hy hr
        rcases List.mem_cons.mp hy with rfl | hy
        · exact Nat.le_refl _
        · have := ihx.2.2 y hy hr; omega
      · next hc =>
        cases h
        refine ⟨List.mem_cons_of_mem _ ihx.1, ihx.2.1, ?_⟩
        intro y hy hr
        rcases List.mem_cons.mp hy with rfl | hy
        · have : ¬ (m.gen < y.gen) := fun hlt => hc ⟨hr, hlt⟩
          omega
        · exact ihx.2.2 y hy hr
    · next hx =>
      split at h
      · next hc =>
        cases h
        refine ⟨List.mem_cons_self, hc, ?_⟩
        intro y hy hr
        rcases List.mem_cons.mp hy with rfl | hy
        · exact Nat.le_refl _
        · exact absurd hr (latest_none hx y hy)
      · cases h

/-! ## the per-list invariant -/

/-- the part of the invariant that talks about the list `l` of live generations and the ghost set `tr` of trimmed ids:
    each generation once; only the newest generation of a region may be Open; a trimmed id is not live;
    below every live generation every number is live or trimmed (consecutive numbering) -/
structure Core (l : List MemWal) (tr : List (Nat × Nat)) : Prop where
  uniq : l.Pairwise (fun a b => a.id ≠ b.id)
  openLatest : ∀ m ∈ l, m.state = .open → ∀ x ∈ l, x.region = m.region → x.gen ≤ m.gen
  disj : ∀ m ∈ l, m.id ∉ tr
  closed : ∀ m ∈ l, ∀ g, g < m.gen → (∃ x ∈ l, x.id = (m.region, g)) ∨ (m.region, g) ∈ tr

/-- every trimmed generation is older than some live generation of its region (what a trim of a region's newest
    generation destroys) -/
def TrimBelow (l : List MemWal) (tr : List (Nat × Nat)) : Prop :=
  ∀ i ∈ tr, ∃ m ∈ l, m.region = i.1 ∧ i.2 < m.gen

theorem uniq_eq {l : List MemWal} (h : l.Pairwise (fun a b => a.id ≠ b.id)) {a b : MemWal}
    (ha : a ∈ l) (hb : b ∈ l) (hid : a.id = b.id) : a = b := by
  induction l with
  | nil => cases ha
  | cons c t ih =>
    rw [List.pairwise_cons] at h
    rcases List.mem_cons.mp ha with rfl | ha'
    · rcases List.mem_cons.mp hb with rfl | hb'
      · rfl
      · exact absurd hid (h.1 b hb')
    · rcases List.mem_cons.mp hb with rfl | hb'
      · exact absurd hid.symm (h.1 a ha')
      · exact ih h.2 ha' hb'

theorem setLu_id (nv : Nat) (m : MemWal) : (setLu nv m).id = m.id := rfl
theorem setLu_state (nv : Nat) (m : MemWal) : (setLu nv m).state = m.state := rfl
theorem setLu_region (nv : Nat) (m : MemWal) : (setLu nv m).region = m.region := rfl
theorem setLu_gen (nv : Nat) (m : MemWal) : (setLu nv m).gen = m.gen := rfl

theorem removedBy_iff (rm : List MemWal) (m : MemWal) : removedBy rm m = true ↔ ∃ x ∈ rm, x.id = m.id := by
  simp [removedBy]

theorem mem_keep {l rm : List MemWal} {m : MemWal} :
    m ∈ l.filter (fun m => !removedBy rm m) ↔ m ∈ l ∧ ∀ x ∈ rm, x.id ≠ m.id := by
  rw [List.mem_filter]
  constructor
  · rintro ⟨h1, h2⟩
    refine ⟨h1, fun x hx hid => ?_⟩
    have : removedBy rm m = true := (removedBy_iff rm m).mpr ⟨x, hx, hid⟩
    simp [this] at h2
  · rintro ⟨h1, h2⟩
    refine ⟨h1, ?_⟩
    cases hb : removedBy rm m
    · rfl
    · obtain ⟨x, hx, hid⟩ := (removedBy_iff rm m).mp hb
      exact absurd hid (h2 x hx)

theorem id_eq_iff (a b : MemWal) : a.id = b.id ↔ a.region = b.region ∧ a.gen = b.gen := by
  simp [MemWal.id, Prod.ext_iff]

end LanceModel.C39
