import LanceModel.C39.PlanLemmas
/-!
C39 helper lemmas, part 4: `Fits` (the local facts under which a transaction keeps `Core` when it is applied to a list),
`applyTxn` under `Fits`, and the sequential case (a transaction planned on the list it is applied to fits it).
-/
namespace LanceModel.C39

/-- local facts about the list `l` (and the trimmed ids `tr`) a transaction is applied to -/
inductive Fits (l : List MemWal) (tr : List (Nat × Nat)) : Txn → Prop
  | advPlain (n : MemWal) :
      (∀ x ∈ l, x.id ≠ n.id) → n.id ∉ tr → (∀ x ∈ l, x.region = n.region → x.gen < n.gen) →
      (∀ g, g < n.gen → (∃ x ∈ l, x.id = (n.region, g)) ∨ (n.region, g) ∈ tr) →
      (∀ x ∈ l, x.region = n.region → x.state ≠ .open) → Fits l tr (.mw [n] [] [])
  | advSeal (n m m' : MemWal) :
      (∃ z ∈ l, z.id = m.id) → m'.id = m.id → m'.state ≠ .open → n.id ≠ m.id →
      (∀ x ∈ l, x.id ≠ n.id) → n.id ∉ tr → (∀ x ∈ l, x.region = n.region → x.gen < n.gen) →
      (∀ g, g < n.gen → (∃ x ∈ l, x.id = (n.region, g)) ∨ (n.region, g) ∈ tr) →
      (∀ x ∈ l, x.region = n.region → x.state = .open → x.id = m.id) → Fits l tr (.mw [n] [m'] [m])
  | replace (m m' : MemWal) :
      (∃ z ∈ l, z.id = m.id) → m'.id = m.id →
      (m'.state = .open → ∀ x ∈ l, x.region = m.region → x.gen ≤ m.gen) → Fits l tr (.mw [] [m'] [m])
  | trim (rm : List MemWal) : Fits l tr (.mw [] [] rm)
  | mi (m : MemWal) : (∃ z ∈ l, z.id = m.id) → Fits l tr (.upd (some m))
  | ins : Fits l tr (.upd none)
  | append : Fits l tr .append

theorem applyMw_ok {s : Option (List MemWal)} {nv : Nat} {a u rm l' : List MemWal}
    (h : applyMw s nv a u rm = .ok l') : l' = applyL (s.getD []) nv a u rm := by
  unfold applyMw at h
  split at h
  · cases h; rfl
  · split at h
    · cases h
    · next hn =>
      cases h
      have hu : u = [] := Classical.not_not.mp (fun hh => hn (Or.inl hh))
      have hr : rm = [] := Classical.not_not.mp (fun hh => hn (Or.inr hh))
      subst hu; subst hr
      simp [applyL]

theorem ghost_same {m m' : MemWal} (hid : m'.id = m.id) (a : List MemWal) :
    (ids [m]).filter (fun i => i ∉ ids (a ++ [m'])) = [] := by
  simp [ids, hid]

/-- applying a transaction that fits keeps `Core` -/
theorem applyTxn_core {t t' : Tab} {x : Txn} (hc : Core t.live t.trimmed) (hf : Fits t.live t.trimmed x)
    (ha : applyTxn t x = .ok t') : Core t'.live t'.trimmed := by
  unfold applyTxn at ha
  cases hf with
  | advPlain n h1 h2 h3 h4 h5 =>
    simp only at ha
    split at ha
    · cases ha
    · next l hl =>
      cases ha
      have := applyMw_ok hl
      simp only [Tab.live, Option.getD_some, this]
      have hg : (ids ([] : List MemWal)).filter (fun i => i ∉ ids ([n] ++ [])) = [] := rfl
      rw [hg, List.append_nil]
      exact core_advance_plain hc _ n h1 h2 h3 h4 h5
  | advSeal n m m' h0 hid hst hnm h1 h2 h3 h4 h5 =>
    simp only at ha
    split at ha
    · cases ha
    · next l hl =>
      cases ha
      have := applyMw_ok hl
      simp only [Tab.live, Option.getD_some, this]
      rw [ghost_same hid [n], List.append_nil]
      exact core_advance_seal hc _ n m m' h0 hid hst hnm h1 h2 h3 h4 h5
  | replace m m' h0 hid hopen =>
    simp only at ha
    split at ha
    · cases ha
    · next l hl =>
      cases ha
      have := applyMw_ok hl
      simp only [Tab.live, Option.getD_some, this]
      rw [ghost_same hid [], List.append_nil]
      exact core_replace hc _ m m' h0 hid hopen
  | trim rm =>
    simp only at ha
    split at ha
    · cases ha
    · next l hl =>
      cases ha
      have := applyMw_ok hl
      simp only [Tab.live, Option.getD_some, this]
      exact core_trim hc _ rm
  | mi m h0 =>
    simp only at ha
    split at ha
    · cases ha
    · next l hl =>
      cases ha
      have := applyMw_ok hl
      simp only [Tab.live, Option.getD_some, this]
      exact core_replace hc _ m { m with state := .merged } h0 rfl (fun h => by cases h)
  | ins => cases ha; exact hc
  | append => cases ha; exact hc

/-- sequential case: a transaction planned on the very list it is applied to fits it -/
theorem shape_fits_self {l : List MemWal} {tr : List (Nat × Nat)} {x : Txn}
    (hc : Core l tr) (hb : TrimBelow l tr) (hs : Shape l x) : Fits l tr x := by
  cases hs with
  | advNew n hg ho hreg =>
    refine Fits.advPlain n ?_ ?_ ?_ ?_ ?_
    · intro x hx hid; exact hreg x hx ((id_eq_iff _ _).mp hid).1
    · intro hin
      obtain ⟨m, hm, hr, _⟩ := hb _ hin
      exact hreg m hm hr
    · intro x hx hr; exact absurd hr (hreg x hx)
    · intro g hlt; omega
    · intro x hx hr; exact absurd hr (hreg x hx)
  | advPlain n m hm hr hg ho hmax hst =>
    refine Fits.advPlain n ?_ ?_ ?_ ?_ ?_
    · intro x hx hid
      have := (id_eq_iff _ _).mp hid
      have := hmax x hx (this.1.trans hr)
      omega
    · intro hin
      obtain ⟨y, hy, hyr, hyg⟩ := hb _ hin
      have := hmax y hy (hyr.trans hr)
      simp only [MemWal.id] at hyg
      omega
    · intro x hx hxr
      have := hmax x hx (hxr.trans hr)
      omega
    · intro g hlt
      by_cases hgm : g = m.gen
      · exact Or.inl ⟨m, hm, by rw [hgm, hr]; rfl⟩
      · rw [hr]; exact hc.closed m hm g (by omega)
    · intro x hx hxr hxo
      have h1 := hc.openLatest x hx hxo m hm (hr.symm.trans hxr.symm)
      have h2 := hmax x hx (hxr.trans hr)
      have : x = m := uniq_eq hc.uniq hx hm ((id_eq_iff _ _).mpr ⟨hxr.trans hr, by omega⟩)
      exact hst (this ▸ hxo)
  | advSeal n m hm hr hg ho hmax hst =>
    refine Fits.advSeal n m _ ⟨m, hm, rfl⟩ rfl (by simp) ?_ ?_ ?_ ?_ ?_ ?_
    · intro hid
      have := (id_eq_iff _ _).mp hid
      omega
    · intro x hx hid
      have := (id_eq_iff _ _).mp hid
      have := hmax x hx (this.1.trans hr)
      omega
    · intro hin
      obtain ⟨y, hy, hyr, hyg⟩ := hb _ hin
      have := hmax y hy (hyr.trans hr)
      simp only [MemWal.id] at hyg
      omega
    · intro x hx hxr
      have := hmax x hx (hxr.trans hr)
      omega
    · intro g hlt
      by_cases hgm : g = m.gen
      · exact Or.inl ⟨m, hm, by rw [hgm, hr]; rfl⟩
      · rw [hr]; exact hc.closed m hm g (by omega)
    · intro x hx hxr hxo
      have h1 := hc.openLatest x hx hxo m hm (hr.symm.trans hxr.symm)
      have h2 := hmax x hx (hxr.trans hr)
      exact (id_eq_iff _ _).mpr ⟨hxr.trans hr, by omega⟩
  | mutate m m' hm hid hrank hopen =>
    exact Fits.replace m m' ⟨m, hm, rfl⟩ hid (fun ho x hx hxr => hc.openLatest m hm (hopen ho) x hx hxr)
  | trim rm _ => exact Fits.trim rm
  | mi m hm _ => exact Fits.mi m ⟨m, hm, rfl⟩
  | ins => exact Fits.ins
  | append => exact Fits.append

/-! ## states only move forward (sequential step) -/

theorem applyTxn_live {t t' : Tab} {a u rm : List MemWal} (ha : applyTxn t (.mw a u rm) = .ok t') :
    t'.live = applyL t.live (t.version + 1) a u rm := by
  unfold applyTxn at ha
  simp only at ha
  split at ha
  · cases ha
  · next l hl =>
    cases ha
    simp only [Tab.live, Option.getD_some]
    exact applyMw_ok hl

theorem applyTxn_live_mi {t t' : Tab} {m : MemWal} (ha : applyTxn t (.upd (some m)) = .ok t') :
    t'.live = applyL t.live (t.version + 1) [] [{ m with state := .merged }] [m] := by
  unfold applyTxn at ha
  simp only at ha
  split at ha
  · cases ha
  · next l hl =>
    cases ha
    simp only [Tab.live, Option.getD_some]
    exact applyMw_ok hl

theorem applyTxn_forward {t t' : Tab} {x : Txn} (hc : Core t.live t.trimmed) (hs : Shape t.live x)
    (ha : applyTxn t x = .ok t') :
    ∀ m ∈ t.live, ∀ m' ∈ t'.live, m'.id = m.id → m.state.rank ≤ m'.state.rank := by
  intro m hm m' hm' hid
  have same : m' ∈ t.live → m.state.rank ≤ m'.state.rank := fun h => by
    rw [uniq_eq hc.uniq h hm hid]; exact Nat.le_refl _
  cases hs with
  | advNew n hg ho hreg =>
    rw [applyTxn_live ha, mem_applyL] at hm'
    rcases hm' with ⟨h, _⟩ | ⟨y, hy, rfl⟩ | ⟨y, hy, _⟩
    · exact same h
    · rw [List.mem_singleton] at hy; subst hy
      exact absurd ((id_eq_iff _ _).mp hid).1.symm (hreg m hm)
    · cases hy
  | advPlain n m0 hm0 hr hg ho hmax hst =>
    rw [applyTxn_live ha, mem_applyL] at hm'
    rcases hm' with ⟨h, _⟩ | ⟨y, hy, rfl⟩ | ⟨y, hy, _⟩
    · exact same h
    · rw [List.mem_singleton] at hy; subst hy
      have h1 := (id_eq_iff _ _).mp hid
      rw [setLu_region, setLu_gen] at h1
      have := hmax m hm (h1.1.symm.trans hr)
      omega
    · cases hy
  | advSeal n m0 hm0 hr hg ho hmax hst =>
    rw [applyTxn_live ha, mem_applyL] at hm'
    rcases hm' with ⟨h, _⟩ | ⟨y, hy, rfl⟩ | ⟨y, hy, rfl⟩
    · exact same h
    · rw [List.mem_singleton] at hy; subst hy
      have h1 := (id_eq_iff _ _).mp hid
      rw [setLu_region, setLu_gen] at h1
      have := hmax m hm (h1.1.symm.trans hr)
      omega
    · rw [List.mem_singleton] at hy; subst hy
      have : m = m0 := uniq_eq hc.uniq hm hm0 hid.symm
      subst this
      rw [setLu_state, hst]; exact Nat.zero_le _
  | mutate m0 m1 hm0 hid1 hrank hopen =>
    rw [applyTxn_live ha, mem_applyL] at hm'
    rcases hm' with ⟨h, _⟩ | ⟨y, hy, _⟩ | ⟨y, hy, rfl⟩
    · exact same h
    · cases hy
    · rw [List.mem_singleton] at hy; subst hy
      have : m = m0 := uniq_eq hc.uniq hm hm0 (by rw [← hid, setLu_id, hid1])
      subst this
      rw [setLu_state]; exact hrank
  | trim rm _ =>
    rw [applyTxn_live ha, mem_applyL] at hm'
    rcases hm' with ⟨h, _⟩ | ⟨y, hy, _⟩ | ⟨y, hy, _⟩
    · exact same h
    · cases hy
    · cases hy
  | mi m0 hm0 hst =>
    rw [applyTxn_live_mi ha, mem_applyL] at hm'
    rcases hm' with ⟨h, _⟩ | ⟨y, hy, _⟩ | ⟨y, hy, rfl⟩
    · exact same h
    · cases hy
    · rw [List.mem_singleton] at hy; subst hy
      have : m = m0 := uniq_eq hc.uniq hm hm0 hid.symm
      subst this
      rw [setLu_state, hst]; show WState.flushed.rank ≤ WState.merged.rank; decide
  | ins => cases ha; exact same hm'
  | append => cases ha; exact same hm'

/-! ## exec -/

theorem exec_ok {t t' : Tab} {h : Snap} {op : Op} (he : exec t h op = .ok t') :
    ∃ x, plan h op = .ok x ∧ checkAll x (since t h.version) = .ok () ∧ applyTxn t x = .ok t' := by
  unfold exec at he
  split at he
  · cases he
  · next x hx =>
    unfold commit at he
    split at he
    · cases he
    · next u hu => exact ⟨x, hx, hu, he⟩

end LanceModel.C39
