import LanceModel.C39.Driver
def main : IO Unit := LanceModel.Util.runDriver LanceModel.C39.Driver.step LanceModel.C39.Driver.St.init
