import LanceModel.C39.ConcLemmas
/-!
C39 helper lemmas, part 6: a round of concurrent writers that all planned on one snapshot `S`.
`J` relates the snapshot `S`, the current list `C` and the transactions `L` accepted so far in the round.
-/
namespace LanceModel.C39
set_option linter.unusedSimpArgs false

/-- (added, updated, removed) of a transaction as `build_manifest` applies them -/
def parts : Txn → List MemWal × List MemWal × List MemWal
  | .mw a u rm => (a, u, rm)
  | .upd (some m) => ([], [{ m with state := .merged }], [m])
  | _ => ([], [], [])

def addedIds (y : Txn) : List (Nat × Nat) := ids (parts y).1
def removedIds (y : Txn) : List (Nat × Nat) := ids (parts y).2.2
/-- every id a transaction mentions -/
def touchedP (y : Txn) : List (Nat × Nat) := ids ((parts y).1 ++ (parts y).2.1 ++ (parts y).2.2)

theorem touched_eq (y : Txn) : touched y = ids ((parts y).1 ++ (parts y).2.1) := by
  cases y with
  | mw a u rm => rfl
  | upd m => cases m <;> rfl
  | append => rfl
  | cidx c d => rfl

theorem mem_ids {l : List MemWal} {i : Nat × Nat} : i ∈ ids l ↔ ∃ m ∈ l, m.id = i := by
  simp [ids]

theorem touched_sub_touchedP {y : Txn} {i : Nat × Nat} (h : i ∈ touched y) : i ∈ touchedP y := by
  rw [touched_eq] at h
  unfold touchedP
  rw [mem_ids] at *
  obtain ⟨m, hm, hid⟩ := h
  exact ⟨m, List.mem_append.mpr (Or.inl hm), hid⟩

theorem added_sub_touchedP {y : Txn} {i : Nat × Nat} (h : i ∈ addedIds y) : i ∈ touchedP y := by
  unfold addedIds at h; unfold touchedP
  rw [mem_ids] at *
  obtain ⟨m, hm, hid⟩ := h
  exact ⟨m, List.mem_append.mpr (Or.inl (List.mem_append.mpr (Or.inl hm))), hid⟩

theorem removed_sub_touchedP {y : Txn} {i : Nat × Nat} (h : i ∈ removedIds y) : i ∈ touchedP y := by
  unfold removedIds at h; unfold touchedP
  rw [mem_ids] at *
  obtain ⟨m, hm, hid⟩ := h
  exact ⟨m, List.mem_append.mpr (Or.inr hm), hid⟩

/-! ## what `Shape` says about the parts -/

/-- removed records are records of the snapshot -/
theorem shape_removed {S : List MemWal} {y : Txn} (h : Shape S y) : ∀ r ∈ (parts y).2.2, r ∈ S := by
  cases h with
  | advNew n _ _ _ => intro r hr; cases hr
  | advPlain n m _ _ _ _ _ _ => intro r hr; cases hr
  | advSeal n m hm _ _ _ _ _ => intro r hr; simp [parts] at hr; subst hr; exact hm
  | mutate m m' hm _ _ _ => intro r hr; simp [parts] at hr; subst hr; exact hm
  | trim rm hrm => intro r hr; exact (hrm r hr).1
  | mi m hm _ => intro r hr; simp [parts] at hr; subst hr; exact hm
  | ins => intro r hr; cases hr
  | append => intro r hr; cases hr

/-- an updated record replaces a removed record of the snapshot with the same id; it is Open only if that one was -/
theorem shape_updated {S : List MemWal} {y : Txn} (h : Shape S y) :
    ∀ u ∈ (parts y).2.1, ∃ r ∈ (parts y).2.2, r.id = u.id ∧ (u.state = .open → r.state = .open) := by
  cases h with
  | advNew n _ _ _ => intro u hu; cases hu
  | advPlain n m _ _ _ _ _ _ => intro u hu; cases hu
  | advSeal n m hm _ _ _ _ _ =>
    intro u hu; simp [parts] at hu; subst hu
    exact ⟨m, by simp [parts], rfl, fun h => by cases h⟩
  | mutate m m' hm hid _ hop =>
    intro u hu; simp [parts] at hu; subst hu
    exact ⟨m, by simp [parts], hid.symm, hop⟩
  | trim rm hrm => intro u hu; cases hu
  | mi m hm _ =>
    intro u hu; simp [parts] at hu; subst hu
    exact ⟨m, by simp [parts], rfl, fun h => by cases h⟩
  | ins => intro u hu; cases hu
  | append => intro u hu; cases hu

/-- an added record is generation 0 of a region the snapshot does not have, or the successor of the newest generation
    `m` of its region in the snapshot — and if `m` is Open the transaction also touches `m` -/
theorem shape_added {S : List MemWal} {y : Txn} (h : Shape S y) :
    ∀ n ∈ (parts y).1, n.state = .open ∧
      ((n.gen = 0 ∧ ∀ s ∈ S, s.region ≠ n.region) ∨
       (∃ m ∈ S, m.region = n.region ∧ n.gen = m.gen + 1 ∧ (∀ s ∈ S, s.region = n.region → s.gen ≤ m.gen) ∧
          (m.state = .open → m.id ∈ touchedP y))) := by
  cases h with
  | advNew n hg ho hreg => intro x hx; simp [parts] at hx; subst hx; exact ⟨ho, Or.inl ⟨hg, hreg⟩⟩
  | advPlain n m hm hr hg ho hmax hst =>
    intro x hx; simp [parts] at hx; subst hx
    exact ⟨ho, Or.inr ⟨m, hm, hr.symm, hg, fun s hs hsr => hmax s hs (hsr.trans hr), fun h => absurd h hst⟩⟩
  | advSeal n m hm hr hg ho hmax hst =>
    intro x hx; simp [parts] at hx; subst hx
    refine ⟨ho, Or.inr ⟨m, hm, hr.symm, hg, fun s hs hsr => hmax s hs (hsr.trans hr), fun _ => ?_⟩⟩
    simp [touchedP, parts, ids]
  | mutate m m' _ _ _ _ => intro x hx; cases hx
  | trim rm _ => intro x hx; cases hx
  | mi m _ _ => intro x hx; cases hx
  | ins => intro x hx; cases hx
  | append => intro x hx; cases hx

/-! ## the relation between the snapshot, the current list and the accepted transactions -/

structure J (S : List MemWal) (trS : List (Nat × Nat)) (C : List MemWal) (trC : List (Nat × Nat)) (L : List Txn) :
    Prop where
  planned : ∀ y ∈ L, Shape S y
  frame : ∀ x : MemWal, (∀ y ∈ L, x.id ∉ touchedP y) → (x ∈ C ↔ x ∈ S)
  idsC : ∀ x ∈ C, (∃ s ∈ S, s.id = x.id) ∨ (∃ y ∈ L, x.id ∈ addedIds y)
  trOrigin : ∀ i ∈ trC, i ∈ trS ∨ (∃ y ∈ L, i ∈ removedIds y)
  keep : ∀ s ∈ S, (∃ x ∈ C, x.id = s.id) ∨ s.id ∈ trC
  trMono : ∀ i ∈ trS, i ∈ trC
  openC : ∀ x ∈ C, x.state = .open → (∃ s ∈ S, s.id = x.id ∧ s.state = .open) ∨ (∃ y ∈ L, x.id ∈ addedIds y)

theorem J_init (S : List MemWal) (trS : List (Nat × Nat)) : J S trS S trS [] := by
  refine ⟨?_, ?_, ?_, ?_, ?_, ?_, ?_⟩
  · intro y hy; cases hy
  · intro x _; exact Iff.rfl
  · intro x hx; exact Or.inl ⟨x, hx, rfl⟩
  · intro i hi; exact Or.inl hi
  · intro s hs; exact Or.inl ⟨s, hs, rfl⟩
  · intro i hi; exact hi
  · intro x hx ho; exact Or.inl ⟨x, hx, rfl, ho⟩

/-- `J` after applying one more transaction planned on `S` -/
theorem J_step {S : List MemWal} {trS : List (Nat × Nat)} {C : List MemWal} {trC : List (Nat × Nat)} {L : List Txn}
    (hj : J S trS C trC L) {x : Txn} (hx : Shape S x) (nv : Nat) :
    J S trS (applyL C nv (parts x).1 (parts x).2.1 (parts x).2.2)
      (trC ++ (ids (parts x).2.2).filter (fun i => i ∉ ids ((parts x).1 ++ (parts x).2.1))) (L ++ [x]) := by
  have hrm := shape_removed hx
  have hup := shape_updated hx
  have hmemL : ∀ y, y ∈ L ++ [x] ↔ y ∈ L ∨ y = x := by intro y; simp
  have htr : ∀ i, i ∈ trC ++ (ids (parts x).2.2).filter (fun i => i ∉ ids ((parts x).1 ++ (parts x).2.1)) ↔
      i ∈ trC ∨ (i ∈ ids (parts x).2.2 ∧ i ∉ ids ((parts x).1 ++ (parts x).2.1)) := by
    intro i; simp
  refine ⟨?_, ?_, ?_, ?_, ?_, ?_, ?_⟩
  · intro y hy
    rcases (hmemL y).mp hy with h | rfl
    · exact hj.planned y h
    · exact hx
  · intro x0 hun
    have hunL : ∀ y ∈ L, x0.id ∉ touchedP y := fun y hy => hun y ((hmemL y).mpr (Or.inl hy))
    have hunx : x0.id ∉ touchedP x := hun x ((hmemL x).mpr (Or.inr rfl))
    rw [mem_applyL, ← hj.frame x0 hunL]
    constructor
    · rintro (⟨h, _⟩ | ⟨y, hy, rfl⟩ | ⟨y, hy, rfl⟩)
      · exact h
      · exact absurd (mem_ids.mpr ⟨y, List.mem_append.mpr (Or.inl (List.mem_append.mpr (Or.inl hy))), rfl⟩) hunx
      · exact absurd (mem_ids.mpr ⟨y, List.mem_append.mpr (Or.inl (List.mem_append.mpr (Or.inr hy))), rfl⟩) hunx
    · intro h
      refine Or.inl ⟨h, fun y hy hid => hunx ?_⟩
      exact mem_ids.mpr ⟨y, List.mem_append.mpr (Or.inr hy), hid⟩
  · intro x0 hx0
    rcases mem_applyL.mp hx0 with ⟨h, _⟩ | ⟨y, hy, rfl⟩ | ⟨y, hy, rfl⟩
    · rcases hj.idsC x0 h with h1 | ⟨y, hy, h2⟩
      · exact Or.inl h1
      · exact Or.inr ⟨y, (hmemL y).mpr (Or.inl hy), h2⟩
    · exact Or.inr ⟨x, (hmemL x).mpr (Or.inr rfl), mem_ids.mpr ⟨y, hy, rfl⟩⟩
    · obtain ⟨r, hr, hid, _⟩ := hup y hy
      exact Or.inl ⟨r, hrm r hr, by rw [setLu_id]; exact hid⟩
  · intro i hi
    rcases (htr i).mp hi with h | ⟨h, _⟩
    · rcases hj.trOrigin i h with h1 | ⟨y, hy, h2⟩
      · exact Or.inl h1
      · exact Or.inr ⟨y, (hmemL y).mpr (Or.inl hy), h2⟩
    · exact Or.inr ⟨x, (hmemL x).mpr (Or.inr rfl), h⟩
  · intro s hs
    rcases hj.keep s hs with ⟨x0, hx0, hid⟩ | h
    · by_cases hr : ∃ y ∈ (parts x).2.2, y.id = x0.id
      · by_cases hp : x0.id ∈ ids ((parts x).1 ++ (parts x).2.1)
        · obtain ⟨p, hp, hpid⟩ := mem_ids.mp hp
          refine Or.inl ⟨setLu nv p, ?_, by rw [setLu_id, hpid, hid]⟩
          rcases List.mem_append.mp hp with hp | hp
          · exact mem_applyL.mpr (Or.inr (Or.inl ⟨p, hp, rfl⟩))
          · exact mem_applyL.mpr (Or.inr (Or.inr ⟨p, hp, rfl⟩))
        · obtain ⟨y, hy, hyid⟩ := hr
          refine Or.inr ((htr _).mpr (Or.inr ⟨mem_ids.mpr ⟨y, hy, hyid.trans hid⟩, ?_⟩))
          rw [← hid]; exact hp
      · exact Or.inl ⟨x0, mem_applyL.mpr (Or.inl ⟨hx0, fun y hy hyid => hr ⟨y, hy, hyid⟩⟩), hid⟩
    · exact Or.inr ((htr _).mpr (Or.inl h))
  · intro i hi; exact (htr i).mpr (Or.inl (hj.trMono i hi))
  · intro x0 hx0 ho
    rcases mem_applyL.mp hx0 with ⟨h, _⟩ | ⟨y, hy, rfl⟩ | ⟨y, hy, rfl⟩
    · rcases hj.openC x0 h ho with h1 | ⟨y, hy, h2⟩
      · exact Or.inl h1
      · exact Or.inr ⟨y, (hmemL y).mpr (Or.inl hy), h2⟩
    · exact Or.inr ⟨x, (hmemL x).mpr (Or.inr rfl), mem_ids.mpr ⟨y, hy, rfl⟩⟩
    · obtain ⟨r, hr, hid, hop⟩ := hup y hy
      rw [setLu_state] at ho
      exact Or.inl ⟨r, hrm r hr, by rw [setLu_id]; exact hid, hop ho⟩

/-- the new transaction touches no id an accepted transaction of the round mentions -/
def Strict (x : Txn) (L : List Txn) : Prop := ∀ y ∈ L, ∀ i ∈ touched x, i ∉ touchedP y

/-- a record of the current list whose id the snapshot does not have was added in this round, as generation 0 of a region
    the snapshot does not have or as the successor of the newest generation of its region in the snapshot -/
theorem added_in_C {S : List MemWal} {trS : List (Nat × Nat)} {C : List MemWal} {trC : List (Nat × Nat)} {L : List Txn}
    (hj : J S trS C trC L) {x0 : MemWal} (hx0 : x0 ∈ C) (hnot : ∀ s ∈ S, s.id ≠ x0.id) :
    ∃ y ∈ L, x0.id ∈ touchedP y ∧
      ((x0.gen = 0 ∧ ∀ s ∈ S, s.region ≠ x0.region) ∨
       (∃ m ∈ S, m.region = x0.region ∧ x0.gen = m.gen + 1 ∧ (∀ s ∈ S, s.region = x0.region → s.gen ≤ m.gen) ∧
          (m.state = .open → m.id ∈ touchedP y))) := by
  rcases hj.idsC x0 hx0 with ⟨s, hs, hid⟩ | ⟨y, hy, hadd⟩
  · exact absurd hid (hnot s hs)
  · obtain ⟨n, hn, hnid⟩ := mem_ids.mp hadd
    have hreg := (id_eq_iff _ _).mp hnid
    obtain ⟨_, hcase⟩ := shape_added (hj.planned y hy) n hn
    refine ⟨y, hy, added_sub_touchedP hadd, ?_⟩
    rw [← hreg.1, ← hreg.2]
    exact hcase

/-- a transaction planned on the snapshot and strict against the round so far fits the current list -/
theorem shape_fits_round {S : List MemWal} {trS : List (Nat × Nat)} {C : List MemWal} {trC : List (Nat × Nat)}
    {L : List Txn} (hj : J S trS C trC L) (hcS : Core S trS) (hbS : TrimBelow S trS)
    {x : Txn} (hx : Shape S x) (hst : Strict x L) : Fits C trC x := by
  -- a record of S whose id the new transaction touches is still in C
  have still : ∀ m ∈ S, m.id ∈ touched x → m ∈ C := by
    intro m hm ht
    exact (hj.frame m (fun y hy => hst y hy m.id ht)).mpr hm
  -- an id the snapshot does not have and the new transaction touches is not in C
  have fresh : ∀ x0 ∈ C, x0.id ∈ touched x → ∃ s ∈ S, s.id = x0.id := by
    intro x0 hx0 ht
    rcases hj.idsC x0 hx0 with h | ⟨y, hy, hadd⟩
    · exact h
    · exact absurd (added_sub_touchedP hadd) (hst y hy _ ht)
  -- a trimmed id the new transaction touches was trimmed before the round
  have trim_old : ∀ i ∈ trC, i ∈ touched x → i ∈ trS := by
    intro i hi ht
    rcases hj.trOrigin i hi with h | ⟨y, hy, hrm⟩
    · exact h
    · exact absurd (removed_sub_touchedP hrm) (hst y hy _ ht)
  -- below a live generation of the snapshot everything is live or trimmed now
  have closedC : ∀ m ∈ S, ∀ g, g ≤ m.gen → (∃ x0 ∈ C, x0.id = (m.region, g)) ∨ (m.region, g) ∈ trC := by
    intro m hm g hg
    have h1 : (∃ s ∈ S, s.id = (m.region, g)) ∨ (m.region, g) ∈ trS := by
      by_cases hgm : g = m.gen
      · exact Or.inl ⟨m, hm, by rw [hgm]; rfl⟩
      · exact hcS.closed m hm g (by omega)
    rcases h1 with ⟨s, hs, hid⟩ | h
    · rcases hj.keep s hs with ⟨x0, hx0, hxid⟩ | h
      · exact Or.inl ⟨x0, hx0, hxid.trans hid⟩
      · exact Or.inr (hid ▸ h)
    · exact Or.inr (hj.trMono _ h)
  cases hx with
  | advNew n hg ho hreg =>
    have hn : n.id ∈ touched (.mw [n] [] []) := by simp [touched, ids]
    -- no record of the region of `n` is in C
    have none : ∀ x0 ∈ C, x0.region ≠ n.region := by
      intro x0 hx0 hr
      have hnot : ∀ s ∈ S, s.id ≠ x0.id := fun s hs hid => hreg s hs (((id_eq_iff _ _).mp hid).1.trans hr)
      obtain ⟨y, hy, hty, hcase⟩ := added_in_C hj hx0 hnot
      rcases hcase with ⟨hg0, _⟩ | ⟨m, hm, hmr, _⟩
      · have : x0.id = n.id := (id_eq_iff _ _).mpr ⟨hr, by omega⟩
        exact hst y hy n.id hn (this ▸ hty)
      · exact hreg m hm (hmr.trans hr)
    refine Fits.advPlain n ?_ ?_ ?_ ?_ ?_
    · intro x0 hx0 hid; exact none x0 hx0 ((id_eq_iff _ _).mp hid).1
    · intro hin
      obtain ⟨m, hm, hr, _⟩ := hbS _ (trim_old _ hin hn)
      exact hreg m hm hr
    · intro x0 hx0 hr; exact absurd hr (none x0 hx0)
    · intro g hlt; omega
    · intro x0 hx0 hr; exact absurd hr (none x0 hx0)
  | advPlain n m hm hr hg ho hmax hstate =>
    have hn : n.id ∈ touched (.mw [n] [] []) := by simp [touched, ids]
    -- every record of the region in C has a generation of the snapshot
    have old : ∀ x0 ∈ C, x0.region = n.region → ∃ s ∈ S, s.id = x0.id := by
      intro x0 hx0 hxr
      refine Classical.byContradiction (fun hno => ?_)
      have hnot : ∀ s ∈ S, s.id ≠ x0.id := fun s hs hid => hno ⟨s, hs, hid⟩
      obtain ⟨y, hy, hty, hcase⟩ := added_in_C hj hx0 hnot
      rcases hcase with ⟨_, hab⟩ | ⟨m', hm', hmr', hg', hmax', _⟩
      · exact hab m hm (hr.symm.trans hxr.symm)
      · have h1 := hmax m' hm' (hmr'.trans (hxr.trans hr))
        have h2 := hmax' m hm (hr.symm.trans hxr.symm)
        have : x0.id = n.id := (id_eq_iff _ _).mpr ⟨hxr, by omega⟩
        exact hst y hy n.id hn (this ▸ hty)
    refine Fits.advPlain n ?_ ?_ ?_ ?_ ?_
    · intro x0 hx0 hid
      obtain ⟨s, hs, hsid⟩ := fresh x0 hx0 (hid ▸ hn)
      have := (id_eq_iff _ _).mp (hsid.trans hid)
      have := hmax s hs (this.1.trans hr)
      omega
    · intro hin
      obtain ⟨y, hy, hyr, hyg⟩ := hbS _ (trim_old _ hin hn)
      have := hmax y hy (hyr.trans hr)
      simp only [MemWal.id] at hyg
      omega
    · intro x0 hx0 hxr
      obtain ⟨s, hs, hsid⟩ := old x0 hx0 hxr
      have h1 := (id_eq_iff _ _).mp hsid
      have := hmax s hs (h1.1.trans (hxr.trans hr))
      omega
    · intro g hlt
      rw [hr]; exact closedC m hm g (by omega)
    · intro x0 hx0 hxr hxo
      rcases hj.openC x0 hx0 hxo with ⟨s, hs, hsid, hso⟩ | ⟨y, hy, hadd⟩
      · have h1 := (id_eq_iff _ _).mp hsid
        have hsr : s.region = m.region := h1.1.trans (hxr.trans hr)
        have h2 := hcS.openLatest s hs hso m hm hsr.symm
        have h3 := hmax s hs hsr
        have : s = m := uniq_eq hcS.uniq hs hm ((id_eq_iff _ _).mpr ⟨hsr, by omega⟩)
        exact hstate (this ▸ hso)
      · obtain ⟨s, hs, hsid⟩ := old x0 hx0 hxr
        obtain ⟨n', hn', hn'id⟩ := mem_ids.mp hadd
        obtain ⟨_, hcase⟩ := shape_added (hj.planned y hy) n' hn'
        have hreg' := (id_eq_iff _ _).mp (hn'id.trans hsid.symm)
        rcases hcase with ⟨_, hab⟩ | ⟨m', hm', hmr', hg', hmax', _⟩
        · exact hab s hs hreg'.1.symm
        · have := hmax' s hs hreg'.1.symm
          omega
  | advSeal n m hm hr hg ho hmax hstate =>
    have hn : n.id ∈ touched (.mw [n] [{ m with state := .sealed }] [m]) := by simp [touched, ids]
    have hmt : m.id ∈ touched (.mw [n] [{ m with state := .sealed }] [m]) := by simp [touched, ids, MemWal.id]
    have old : ∀ x0 ∈ C, x0.region = n.region → ∃ s ∈ S, s.id = x0.id := by
      intro x0 hx0 hxr
      refine Classical.byContradiction (fun hno => ?_)
      have hnot : ∀ s ∈ S, s.id ≠ x0.id := fun s hs hid => hno ⟨s, hs, hid⟩
      obtain ⟨y, hy, hty, hcase⟩ := added_in_C hj hx0 hnot
      rcases hcase with ⟨_, hab⟩ | ⟨m', hm', hmr', hg', hmax', _⟩
      · exact hab m hm (hr.symm.trans hxr.symm)
      · have h1 := hmax m' hm' (hmr'.trans (hxr.trans hr))
        have h2 := hmax' m hm (hr.symm.trans hxr.symm)
        have : x0.id = n.id := (id_eq_iff _ _).mpr ⟨hxr, by omega⟩
        exact hst y hy n.id hn (this ▸ hty)
    refine Fits.advSeal n m _ ⟨m, still m hm hmt, rfl⟩ rfl (by simp) ?_ ?_ ?_ ?_ ?_ ?_
    · intro hid
      have := (id_eq_iff _ _).mp hid
      omega
    · intro x0 hx0 hid
      obtain ⟨s, hs, hsid⟩ := fresh x0 hx0 (hid ▸ hn)
      have := (id_eq_iff _ _).mp (hsid.trans hid)
      have := hmax s hs (this.1.trans hr)
      omega
    · intro hin
      obtain ⟨y, hy, hyr, hyg⟩ := hbS _ (trim_old _ hin hn)
      have := hmax y hy (hyr.trans hr)
      simp only [MemWal.id] at hyg
      omega
    · intro x0 hx0 hxr
      obtain ⟨s, hs, hsid⟩ := old x0 hx0 hxr
      have h1 := (id_eq_iff _ _).mp hsid
      have := hmax s hs (h1.1.trans (hxr.trans hr))
      omega
    · intro g hlt
      rw [hr]; exact closedC m hm g (by omega)
    · intro x0 hx0 hxr hxo
      rcases hj.openC x0 hx0 hxo with ⟨s, hs, hsid, hso⟩ | ⟨y, hy, hadd⟩
      · have h1 := (id_eq_iff _ _).mp hsid
        have hsr : s.region = m.region := h1.1.trans (hxr.trans hr)
        have h2 := hcS.openLatest s hs hso m hm hsr.symm
        have h3 := hmax s hs hsr
        rw [← hsid]
        exact (id_eq_iff _ _).mpr ⟨hsr, by omega⟩
      · obtain ⟨s, hs, hsid⟩ := old x0 hx0 hxr
        obtain ⟨n', hn', hn'id⟩ := mem_ids.mp hadd
        obtain ⟨_, hcase⟩ := shape_added (hj.planned y hy) n' hn'
        have hreg' := (id_eq_iff _ _).mp (hn'id.trans hsid.symm)
        rcases hcase with ⟨_, hab⟩ | ⟨m', hm', hmr', hg', hmax', _⟩
        · exact absurd hreg'.1.symm (hab s hs)
        · have := hmax' s hs hreg'.1.symm
          omega
  | mutate m m' hm hid hrank hopen =>
    have hmt : m.id ∈ touched (.mw [] [m'] [m]) := by simp [touched, ids, hid]
    refine Fits.replace m m' ⟨m, still m hm hmt, rfl⟩ hid ?_
    intro ho x0 hx0 hxr
    have hmo := hopen ho
    rcases Classical.em (∃ s ∈ S, s.id = x0.id) with ⟨s, hs, hsid⟩ | hno
    · have h1 := (id_eq_iff _ _).mp hsid
      rw [← h1.2]
      exact hcS.openLatest m hm hmo s hs (h1.1.trans hxr)
    · have hnot : ∀ s ∈ S, s.id ≠ x0.id := fun s hs hid => hno ⟨s, hs, hid⟩
      obtain ⟨y, hy, hty, hcase⟩ := added_in_C hj hx0 hnot
      rcases hcase with ⟨_, hab⟩ | ⟨m0, hm0, hmr0, hg0, hmax0, htouch⟩
      · exact absurd hxr.symm (hab m hm)
      · -- `m` is Open, hence the newest of its region in S, hence `m0 = m`, which `y` then touches
        have h1 := hcS.openLatest m hm hmo m0 hm0 (hmr0.trans hxr)
        have h2 := hmax0 m hm hxr.symm
        have : m0 = m := uniq_eq hcS.uniq hm0 hm ((id_eq_iff _ _).mpr ⟨hmr0.trans hxr, by omega⟩)
        subst this
        exact absurd (htouch hmo) (hst y hy _ hmt)
  | trim rm _ => exact Fits.trim rm
  | mi m hm _ =>
    have hmt : m.id ∈ touched (.upd (some m)) := by simp [touched]
    exact Fits.mi m ⟨m, still m hm hmt, rfl⟩
  | ins => exact Fits.ins
  | append => exact Fits.append

/-! ## from the real conflict check to `Strict` -/

/-- the three gaps of the conflict check, as a decidable condition on a transaction `x` about to be committed and the
    transactions `L` committed after its read version: `x` must not touch a generation that a trim-only commit of `L`
    removed, nor the generation a merge_insert of `L` merged -/
def gapOK (x : Txn) (y : Txn) : Bool :=
  match y with
  | .mw [] [] rm => (touched x).all (fun i => decide (i ∉ ids rm))
  | .upd (some m) => decide (m.id ∉ touched x)
  | _ => true

def noDefectB (x : Txn) (L : List Txn) : Bool := L.all (gapOK x)

theorem strict_of_check {S : List MemWal} {x : Txn} {L : List Txn} (hx : Shape S x) (hL : ∀ y ∈ L, Shape S y)
    (hc : checkAll x L = .ok ()) (hn : noDefectB x L = true) : Strict x L := by
  intro y hy i hi
  have hcy := checkAll_mem hc y hy
  have hny : gapOK x y = true := by
    unfold noDefectB at hn
    rw [List.all_eq_true] at hn
    exact hn y hy
  have hsy := hL y hy
  -- for an UpdateMemWalState that is not a trim, every mentioned id is a touched id
  have nontrim : (∀ m, y ≠ .upd (some m)) → (∀ j ∈ touchedP y, j ∈ touched y) → i ∉ touchedP y := by
    intro h1 h2 hin
    exact checkTxn_disjoint hx hsy hcy h1 i hi (h2 i hin)
  cases hsy with
  | advNew n _ _ _ =>
    exact nontrim (fun m h => by cases h) (fun j hj => by simpa [touchedP, touched, parts, ids] using hj)
  | advPlain n m _ _ _ _ _ _ =>
    exact nontrim (fun m h => by cases h) (fun j hj => by simpa [touchedP, touched, parts, ids] using hj)
  | advSeal n m _ _ _ _ _ _ =>
    refine nontrim (fun m h => by cases h) (fun j hj => ?_)
    simp only [touchedP, touched, parts, ids, List.map_append, List.map_cons, List.map_nil, List.mem_append,
      List.mem_cons, List.not_mem_nil, or_false] at hj ⊢
    rcases hj with (h | h) | h
    · exact Or.inl h
    · exact Or.inr h
    · exact Or.inr h
  | mutate m m' _ hid _ _ =>
    refine nontrim (fun m h => by cases h) (fun j hj => ?_)
    simp only [touchedP, touched, parts, ids, List.map_append, List.map_cons, List.map_nil, List.mem_append,
      List.mem_cons, List.not_mem_nil, or_false, List.nil_append, false_or] at hj ⊢
    rcases hj with h | h
    · exact h
    · rw [h, hid]
  | trim rm _ =>
    simp only [touchedP, parts, List.nil_append]
    cases rm with
    | nil => simp [ids]
    | cons r rest =>
      simp only [gapOK, List.all_eq_true, decide_eq_true_eq] at hny
      exact hny i hi
  | mi m _ _ =>
    simp only [gapOK, decide_eq_true_eq] at hny
    simp only [touchedP, parts, ids, List.map_append, List.map_cons, List.map_nil, List.mem_append, List.mem_cons,
      List.not_mem_nil, or_false, List.nil_append, false_or]
    rintro (h | h)
    · exact hny (by rw [← show i = m.id from h]; exact hi)
    · exact hny (by rw [← show i = m.id from h]; exact hi)
  | ins => simp [touchedP, parts, ids]
  | append => simp [touchedP, parts, ids]

/-! ## one accepted commit of the round -/

def LogOK (t : Tab) : Prop := ∀ p ∈ t.log, p.1 ≤ t.version

theorem applyTxn_version {t t' : Tab} {x : Txn} (ha : applyTxn t x = .ok t') : t'.version = t.version + 1 := by
  unfold applyTxn at ha
  split at ha
  · split at ha
    · cases ha
    · cases ha; rfl
  · split at ha
    · cases ha
    · cases ha; rfl
  · cases ha; rfl
  · cases ha; rfl
  · cases ha; rfl

theorem logOK_step {t t' : Tab} {x : Txn} (hl : LogOK t) (ha : applyTxn t x = .ok t') : LogOK t' := by
  intro p hp
  rw [applyTxn_log ha, List.mem_append] at hp
  rw [applyTxn_version ha]
  rcases hp with hp | hp
  · have := hl p hp; omega
  · rw [List.mem_singleton] at hp; subst hp; exact Nat.le_refl _

theorem since_step {t t' : Tab} {x : Txn} {rv : Nat} (ha : applyTxn t x = .ok t') (hv : rv ≤ t.version) :
    since t' rv = since t rv ++ [x] := by
  unfold since
  rw [applyTxn_log ha, List.filter_append, List.map_append]
  have : (List.filter (fun p : Nat × Txn => decide (rv < p.1)) [(t.version + 1, x)]) = [(t.version + 1, x)] := by
    have hlt : rv < t.version + 1 := by omega
    simp [List.filter, hlt]
  rw [this]; rfl

theorem since_self {t : Tab} (hl : LogOK t) : since t t.version = [] := by
  unfold since
  rw [List.map_eq_nil_iff, List.filter_eq_nil_iff]
  intro p hp
  have := hl p hp
  simp; omega

/-- live list and ghost set after applying any transaction of the four kinds, through `parts` -/
theorem applyTxn_parts {t t' : Tab} {S : List MemWal} {x : Txn} (hx : Shape S x) (ha : applyTxn t x = .ok t') :
    t'.live = applyL t.live (t.version + 1) (parts x).1 (parts x).2.1 (parts x).2.2 ∧
    t'.trimmed = t.trimmed ++ (ids (parts x).2.2).filter (fun i => i ∉ ids ((parts x).1 ++ (parts x).2.1)) := by
  have plain : ∀ l : List MemWal, applyL l (t.version + 1) [] [] [] = l := by
    intro l; simp [applyL, removedBy]
  cases hx with
  | advNew n _ _ _ => exact ⟨applyTxn_live ha, by unfold applyTxn at ha; simp only at ha; split at ha <;> cases ha; rfl⟩
  | advPlain n m _ _ _ _ _ _ =>
    exact ⟨applyTxn_live ha, by unfold applyTxn at ha; simp only at ha; split at ha <;> cases ha; rfl⟩
  | advSeal n m _ _ _ _ _ _ =>
    exact ⟨applyTxn_live ha, by unfold applyTxn at ha; simp only at ha; split at ha <;> cases ha; rfl⟩
  | mutate m m' _ _ _ _ =>
    exact ⟨applyTxn_live ha, by unfold applyTxn at ha; simp only at ha; split at ha <;> cases ha; rfl⟩
  | trim rm _ => exact ⟨applyTxn_live ha, by unfold applyTxn at ha; simp only at ha; split at ha <;> cases ha; rfl⟩
  | mi m _ _ =>
    refine ⟨applyTxn_live_mi ha, ?_⟩
    unfold applyTxn at ha; simp only at ha
    split at ha
    · cases ha
    · cases ha
      simp [parts, ids, MemWal.id]
  | ins => cases ha; exact ⟨(plain _).symm, by simp [parts, ids]⟩
  | append => cases ha; exact ⟨(plain _).symm, by simp [parts, ids]⟩

/-! ## the round -/

/-- the decidable hypothesis of the round theorem: no accepted commit of the round runs into one of the three gaps of
    the conflict check -/
def roundSafe (t : Tab) (h : Snap) : List Op → Bool
  | [] => true
  | op :: rest =>
    match plan h op with
    | .error _ => roundSafe t h rest
    | .ok x =>
      match commit t h.version x with
      | .error _ => roundSafe t h rest
      | .ok t' => noDefectB x (since t h.version) && roundSafe t' h rest

structure RInv (S : List MemWal) (trS : List (Nat × Nat)) (rv : Nat) (t : Tab) : Prop where
  j : J S trS t.live t.trimmed (since t rv)
  core : Core t.live t.trimmed
  ver : rv ≤ t.version

theorem round_step {S : List MemWal} {trS : List (Nat × Nat)} {rv : Nat} {t t' : Tab} {x : Txn}
    (hcS : Core S trS) (hbS : TrimBelow S trS) (hr : RInv S trS rv t) (hx : Shape S x)
    (hc : checkAll x (since t rv) = .ok ()) (hn : noDefectB x (since t rv) = true) (ha : applyTxn t x = .ok t') :
    RInv S trS rv t' := by
  have strict := strict_of_check hx hr.j.planned hc hn
  have fits := shape_fits_round hr.j hcS hbS hx strict
  obtain ⟨hl, ht⟩ := applyTxn_parts hx ha
  refine ⟨?_, applyTxn_core hr.core fits ha, ?_⟩
  · rw [since_step ha hr.ver, hl, ht]
    exact J_step hr.j hx _
  · rw [applyTxn_version ha]; have := hr.ver; omega

theorem round_rinv {S : List MemWal} {trS : List (Nat × Nat)} {h : Snap} (hS : h.live = S)
    (hcS : Core S trS) (hbS : TrimBelow S trS) (ops : List Op) :
    ∀ t : Tab, RInv S trS h.version t → roundSafe t h ops = true → RInv S trS h.version (round t h ops).1 := by
  induction ops with
  | nil => intro t hr _; exact hr
  | cons op rest ih =>
    intro t hr hs
    simp only [roundSafe] at hs
    simp only [round, exec]
    cases hp : plan h op with
    | error e =>
      simp only [hp] at hs ⊢
      exact ih t hr hs
    | ok x =>
      simp only [hp] at hs ⊢
      cases hc : commit t h.version x with
      | error e =>
        simp only [hc] at hs ⊢
        exact ih t hr hs
      | ok t' =>
        simp only [hc, Bool.and_eq_true] at hs ⊢
        have hx : Shape S x := hS ▸ plan_shape hp
        unfold commit at hc
        split at hc
        · cases hc
        · next u hu =>
          cases u
          exact ih t' (round_step hcS hbS hr hx hu hs.1 hc) hs.2

theorem logOK_exec {t t' : Tab} {h : Snap} {op : Op} (hl : LogOK t) (he : exec t h op = .ok t') : LogOK t' := by
  obtain ⟨x, _, _, ha⟩ := exec_ok he
  exact logOK_step hl ha

theorem logOK_round (h : Snap) (ops : List Op) : ∀ t : Tab, LogOK t → LogOK (round t h ops).1 := by
  induction ops with
  | nil => intro t hl; exact hl
  | cons op rest ih =>
    intro t hl
    simp only [round]
    split
    · next t' he => exact ih t' (logOK_exec hl he)
    · exact ih t hl

theorem logOK_init : LogOK Tab.init := by intro p hp; cases hp

end LanceModel.C39
