/-
C39 — MemWAL index state machine: the MODEL (import-free).

Counterparts in lance (pinned commit + `fix:` commits):
  rust/lance-index/src/mem_wal.rs          State, MemWalId, MemWal, MemWal::new_empty, check_state, check_expected_owner_id,
                                           MemWalIndex::new (HashMap<region, BTreeMap<generation, MemWal>>)
  rust/lance/src/index/mem_wal.rs          advance_mem_wal_generation, create_mem_wal_generation, append_mem_wal_entry,
                                           mark_mem_wal_as_sealed / _flushed / _merged, update_mem_wal_owner, trim_mem_wal_index,
                                           mutate_mem_wal, update_mem_wal_index_in_indices_list
  rust/lance/src/dataset/write/merge_insert.rs   MergeInsertBuilder::mark_mem_wal_as_merged  (Update { mem_wal_to_merge })
  rust/lance/src/dataset/transaction.rs    Transaction::build_manifest, arms UpdateMemWalState and Update { mem_wal_to_merge }
  rust/lance/src/io/commit/conflict_resolver.rs  check_update_mem_wal_state_txn, check_update_mem_wal_state_not_modify_same_mem_wal,
                                           the UpdateMemWalState arms of check_update_txn / check_append_txn / check_create_index_txn
  rust/lance/src/io/commit.rs              commit_transaction (load the transactions committed after the read version, check each,
                                           build the manifest on top of the latest version)

Strings (region, owner id, MemTable location, WAL location) are natural-number ids; a WAL entry list is the list of the
entry ids appended so far (`U64Segment` starting from `Range(0..0)` under `with_new_high` is a strictly increasing list).
-/
namespace LanceModel.C39

/-- lance_index::mem_wal::State -/
inductive WState where
  | open | sealed | flushed | merged
deriving DecidableEq, Repr, Inhabited

/-- position in the life cycle Open → Sealed → Flushed → Merged -/
def WState.rank : WState → Nat
  | .open => 0 | .sealed => 1 | .flushed => 2 | .merged => 3

/-- lance_index::mem_wal::MemWal (id = (region, generation)) -/
structure MemWal where
  region : Nat
  gen : Nat
  mt : Nat
  wal : Nat
  entries : List Nat
  state : WState
  owner : Nat
  lu : Nat
deriving DecidableEq, Repr

def MemWal.id (m : MemWal) : Nat × Nat := (m.region, m.gen)

/-- error classes: Error::InvalidInput, Error::NotSupported, Error::CommitConflict, Error::Internal -/
inductive Err where
  | invalid | notSupported | conflict | internal
deriving DecidableEq, Repr

/-- the transaction kinds the check commits (dataset/transaction.rs: Operation):
    `mw` = UpdateMemWalState {added, updated, removed}; `upd` = Update {mem_wal_to_merge} as produced by a merge_insert that
    only inserts fresh rows (no fragment is modified); `append` = Append; `cidx` = CreateIndex of user index `col` built at
    dataset version `dv` -/
inductive Txn where
  | mw (added updated removed : List MemWal)
  | upd (merge : Option MemWal)
  | append
  | cidx (col : Nat) (dv : Nat)
deriving DecidableEq, Repr

/-! ## reading the index (MemWalIndex::new: a later list entry with the same id replaces an earlier one) -/

def ids (l : List MemWal) : List (Nat × Nat) := l.map MemWal.id

/-- `mem_wal_map.get(region).get(generation)` -/
def lookup : List MemWal → Nat → Nat → Option MemWal
  | [], _, _ => none
  | m :: t, r, g =>
    match lookup t r g with
    | some x => some x
    | none => if m.region = r ∧ m.gen = g then some m else none

/-- `mem_wal_map.get(region).values().last()`: the record with the largest generation of the region -/
def latest : List MemWal → Nat → Option MemWal
  | [], _ => none
  | m :: t, r =>
    match latest t r with
    | some x => if m.region = r ∧ x.gen < m.gen then some m else some x
    | none => if m.region = r then some m else none

/-- MemWal::new_empty -/
def newEmpty (r g mt wal owner : Nat) : MemWal :=
  { region := r, gen := g, mt := mt, wal := wal, entries := [], state := .open, owner := owner, lu := 0 }

/-! ## planning: what each public function puts into its transaction, given the index it reads through its handle
    (`none` = the dataset has no MemWAL index yet) -/

/-- advance_mem_wal_generation -/
def planAdvance (s : Option (List MemWal)) (r mt wal : Nat) (exp : Option Nat) (newOwner : Nat) : Except Err Txn :=
  match s with
  | none =>
    match exp with
    | some _ => .error .invalid
    | none => .ok (.mw [newEmpty r 0 mt wal newOwner] [] [])
  | some l =>
    match latest l r with
    | none =>
      match exp with
      | some _ => .error .invalid
      | none => .ok (.mw [newEmpty r 0 mt wal newOwner] [] [])
    | some m =>
      if m.wal = wal then .error .invalid else
      match exp with
      | none => .error .invalid
      | some e =>
        if m.owner ≠ e then .error .invalid else
        if m.mt = mt then .error .invalid else
        if m.state = .open then
          .ok (.mw [newEmpty r (m.gen + 1) mt wal newOwner] [{ m with state := .sealed }] [m])
        else
          .ok (.mw [newEmpty r (m.gen + 1) mt wal newOwner] [] [])

/-- create_mem_wal_generation (no validation at all; outside the property's op alphabet, kept for the tie) -/
def planCreate (r g mt wal owner : Nat) : Txn := .mw [newEmpty r g mt wal owner] [] []

/-- mutate_mem_wal -/
def planMutate (s : Option (List MemWal)) (r g : Nat) (f : MemWal → Except Err MemWal) : Except Err Txn :=
  match s with
  | none => .error .notSupported
  | some l =>
    match lookup l r g with
    | none => .error .invalid
    | some m =>
      match f m with
      | .error e => .error e
      | .ok m' => .ok (.mw [] [m'] [m])

/-- the closure of append_mem_wal_entry (`with_new_high`: the new entry must exceed the current maximum) -/
def fAppend (e owner : Nat) (m : MemWal) : Except Err MemWal :=
  if m.state ≠ .open then .error .invalid else
  if m.owner ≠ owner then .error .invalid else
  match m.entries.getLast? with
  | some x => if e ≤ x then .error .invalid else .ok { m with entries := m.entries ++ [e] }
  | none => .ok { m with entries := m.entries ++ [e] }

/-- the closures of mark_mem_wal_as_sealed / _flushed / _merged: `src` is the required state, `dst` the new one -/
def fMark (src dst : WState) (owner : Nat) (m : MemWal) : Except Err MemWal :=
  if m.state ≠ src then .error .invalid else
  if m.owner ≠ owner then .error .invalid else
  .ok { m with state := dst }

/-- the closure of update_mem_wal_owner -/
def fOwner (newOwner : Nat) (newMt : Option Nat) (m : MemWal) : Except Err MemWal :=
  if newOwner = m.owner then .error .invalid else
  match newMt with
  | some x => if x = m.mt then .error .invalid else .ok { m with owner := newOwner, mt := x }
  | none => .ok { m with owner := newOwner }

/-- `min` over the user indices of their dataset version (`u64::MAX` when there is none = `none`) -/
def minIdx : List (Nat × Nat) → Option Nat
  | [] => none
  | (_, v) :: t =>
    match minIdx t with
    | none => some v
    | some w => some (if v ≤ w then v else w)

def trimmable (minv : Option Nat) (m : MemWal) : Bool :=
  decide (m.state = .merged) &&
  (match minv with
   | none => true
   | some v => decide (m.lu ≤ v))

/-- trim_mem_wal_index: every record of the map that is Merged and not newer than the oldest user index -/
def planTrim (s : Option (List MemWal)) (uidx : List (Nat × Nat)) : Except Err Txn :=
  match s with
  | none => .error .notSupported
  | some l => .ok (.mw [] [] (l.filter (fun m => decide (lookup l m.region m.gen = some m) && trimmable (minIdx uidx) m)))

/-- MergeInsertBuilder::mark_mem_wal_as_merged + execute (fresh rows only) -/
def planMI (s : Option (List MemWal)) (r g owner : Nat) : Except Err Txn :=
  match s with
  | none => .error .notSupported
  | some l =>
    match lookup l r g with
    | none => .error .invalid
    | some m =>
      if m.state ≠ .flushed then .error .invalid else
      if m.owner ≠ owner then .error .invalid else
      .ok (.upd (some m))

/-! ## conflict check -/

/-- check_update_mem_wal_state_not_modify_same_mem_wal (compares the FIRST elements only) -/
def sameHead (committed toCommit : List MemWal) : Except Err Unit :=
  match committed with
  | [] => .ok ()
  | c :: ct =>
    match toCommit with
    | [] => .ok ()
    | t :: tt =>
      if ct ≠ [] then .error .internal else
      if tt ≠ [] then .error .notSupported else
      if c.id = t.id then .error .conflict else .ok ()

def seqE (a b : Except Err Unit) : Except Err Unit :=
  match a with
  | .error e => .error e
  | .ok _ => b

/-- TransactionRebase::check_txn restricted to the four transaction kinds (`self` is being committed, `other` was
    committed after `self`'s read version) -/
def checkTxn (self other : Txn) : Except Err Unit :=
  match self with
  | .mw a u _ =>
    match other with
    | .mw ca cu _ =>
      if (ca = [] ∧ cu = []) ∨ (a = [] ∧ u = []) then .ok () else
      seqE (sameHead ca a) (seqE (sameHead ca u) (seqE (sameHead cu a) (sameHead cu u)))
    | .upd (some _) => .ok ()
    | .upd none => .error .conflict
    | .append => .error .conflict
    | .cidx _ _ => .ok ()
  | .upd mm =>
    match other with
    | .mw ca cu _ => seqE (sameHead ca mm.toList) (sameHead cu mm.toList)
    | _ => .ok ()
  | .append =>
    match other with
    | .mw _ _ _ => .error .conflict
    | _ => .ok ()
  | .cidx _ _ =>
    match other with
    | .mw _ _ _ => .error .conflict
    | _ => .ok ()

def checkAll (self : Txn) : List Txn → Except Err Unit
  | [] => .ok ()
  | o :: t => seqE (checkTxn self o) (checkAll self t)

/-! ## building the new version -/

def setLu (nv : Nat) (m : MemWal) : MemWal := { m with lu := nv }

def removedBy (rm : List MemWal) (m : MemWal) : Bool := rm.any (fun x => decide (x.id = m.id))

/-- update_mem_wal_index_in_indices_list on an existing index: drop the records whose id is in `removed`, push `added`
    then `updated`, stamped with the new dataset version -/
def applyL (l : List MemWal) (nv : Nat) (a u rm : List MemWal) : List MemWal :=
  l.filter (fun m => !removedBy rm m) ++ a.map (setLu nv) ++ u.map (setLu nv)

/-- update_mem_wal_index_in_indices_list (`none` = no MemWAL index yet: only `added` is allowed) -/
def applyMw (s : Option (List MemWal)) (nv : Nat) (a u rm : List MemWal) : Except Err (List MemWal) :=
  match s with
  | some l => .ok (applyL l nv a u rm)
  | none => if u ≠ [] ∨ rm ≠ [] then .error .invalid else .ok (a.map (setLu nv))

/-- the latest table state (`rows` = number of rows: 5 initially, +1 per data-writing commit).  `trimmed` is ghost state (ids removed and not pushed back by a commit); nothing reads it. -/
structure Tab where
  version : Nat
  rows : Nat
  mw : Option (List MemWal)
  uidx : List (Nat × Nat)
  log : List (Nat × Txn)
  trimmed : List (Nat × Nat)
deriving Repr

def Tab.init : Tab := { version := 1, rows := 5, mw := none, uidx := [], log := [], trimmed := [] }

def setIdx (u : List (Nat × Nat)) (c v : Nat) : List (Nat × Nat) := (c, v) :: u.filter (fun p => p.1 ≠ c)

/-- Transaction::build_manifest for the four kinds, on top of the latest version -/
def applyTxn (t : Tab) (x : Txn) : Except Err Tab :=
  match x with
  | .mw a u rm =>
    match applyMw t.mw (t.version + 1) a u rm with
    | .error e => .error e
    | .ok l => .ok { t with version := t.version + 1, mw := some l, log := t.log ++ [(t.version + 1, x)],
                            trimmed := t.trimmed ++ (ids rm).filter (fun i => i ∉ ids (a ++ u)) }
  | .upd (some m) =>
    match applyMw t.mw (t.version + 1) [] [{ m with state := .merged }] [m] with
    | .error e => .error e
    | .ok l => .ok { t with version := t.version + 1, rows := t.rows + 1, mw := some l, log := t.log ++ [(t.version + 1, x)] }
  | .upd none => .ok { t with version := t.version + 1, rows := t.rows + 1, log := t.log ++ [(t.version + 1, x)] }
  | .append => .ok { t with version := t.version + 1, rows := t.rows + 1, log := t.log ++ [(t.version + 1, x)] }
  | .cidx c dv => .ok { t with version := t.version + 1, uidx := setIdx t.uidx c dv, log := t.log ++ [(t.version + 1, x)] }

/-- the transactions committed after read version `rv`, oldest first (load_and_sort_new_transactions) -/
def since (t : Tab) (rv : Nat) : List Txn := (t.log.filter (fun p => rv < p.1)).map (·.2)

/-- commit_transaction: check against everything committed after the read version, then build on the latest version -/
def commit (t : Tab) (rv : Nat) (x : Txn) : Except Err Tab :=
  match checkAll x (since t rv) with
  | .error e => .error e
  | .ok _ => applyTxn t x

/-! ## handles and the op alphabet -/

/-- what a `Dataset` handle sees: its manifest version and the index metadata of that version -/
structure Snap where
  version : Nat
  mw : Option (List MemWal)
  uidx : List (Nat × Nat)
deriving Repr

def Tab.snap (t : Tab) : Snap := { version := t.version, mw := t.mw, uidx := t.uidx }

/-- the operations of the property (create_mem_wal_generation is not one of them) -/
inductive Op where
  | adv (r mt wal : Nat) (exp : Option Nat) (newOwner : Nat)
  | app (r g e owner : Nat)
  | markSealed (r g owner : Nat)
  | markFlushed (r g owner : Nat)
  | markMerged (r g owner : Nat)
  | own (r g newOwner : Nat) (newMt : Option Nat)
  | trim
  | mi (r g owner : Nat)      -- merge_insert + mark_mem_wal_as_merged
  | ins                        -- merge_insert of fresh rows without a MemWAL
  | appendRows                 -- Dataset::write(Append)
deriving DecidableEq, Repr

def plan (h : Snap) : Op → Except Err Txn
  | .adv r mt wal exp no => planAdvance h.mw r mt wal exp no
  | .app r g e o => planMutate h.mw r g (fAppend e o)
  | .markSealed r g o => planMutate h.mw r g (fMark .open .sealed o)
  | .markFlushed r g o => planMutate h.mw r g (fMark .sealed .flushed o)
  | .markMerged r g o => planMutate h.mw r g (fMark .flushed .merged o)
  | .own r g no nm => planMutate h.mw r g (fOwner no nm)
  | .trim => planTrim h.mw h.uidx
  | .mi r g o => planMI h.mw r g o
  | .ins => .ok (.upd none)
  | .appendRows => .ok .append

/-- run one op through a handle: plan on the handle's snapshot, commit against the table -/
def exec (t : Tab) (h : Snap) (op : Op) : Except Err Tab :=
  match plan h op with
  | .error e => .error e
  | .ok x => commit t h.version x

/-- sequential run: every op goes through a handle that is up to date; a rejected op changes nothing -/
def step (t : Tab) (op : Op) : Tab :=
  match exec t t.snap op with
  | .ok t' => t'
  | .error _ => t

def run (t : Tab) (ops : List Op) : Tab := ops.foldl step t

/-- one round of concurrent writers: every op is planned on the same snapshot `h` (a common read version) and the
    transactions are committed in list order; returns the final table and, per op, whether it committed -/
def round (t : Tab) (h : Snap) : List Op → Tab × List Bool
  | [] => (t, [])
  | op :: rest =>
    match exec t h op with
    | .ok t' => ((round t' h rest).1, true :: (round t' h rest).2)
    | .error _ => ((round t h rest).1, false :: (round t h rest).2)

end LanceModel.C39
