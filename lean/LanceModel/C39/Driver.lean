import LanceModel.Util
import LanceModel.C39.Model
/-
C39 driver.  State: the latest table and four `Dataset` handles (snapshots).  One output line per op line.

  sync h                          handle h := latest version                      -> ok + dump of the handle's view
  adv h r mt wal exp|- newowner   advance_mem_wal_generation through handle h
  create h r g mt wal owner       create_mem_wal_generation
  app h r g entry owner           append_mem_wal_entry
  seal|flush|merge h r g owner    mark_mem_wal_as_sealed / _flushed / _merged
  own h r g newowner mt|-         update_mem_wal_owner
  trim h                          trim_mem_wal_index
  mi h r g owner                  merge_insert (one fresh row) + mark_mem_wal_as_merged
  ins h                           merge_insert (one fresh row)
  appd h                          Dataset::write(Append) of one row
  cidx c                          create (replace) the user index on column c through an up-to-date handle

Output: `ok <dump of the LATEST table>` (a successful op also moves handle h to the new version) or `err <class>`.
dump := v=<version> rows=<n> mw=<none | - | r/g:state:owner:mt:wal:entries:lu;…  (list order)> idx=<- | c:v,…>
-/
namespace LanceModel.C39.Driver
open LanceModel.Util LanceModel.C39

structure St where
  tab : Tab
  hs : List Snap

def St.init : St := { tab := Tab.init, hs := List.replicate 4 Tab.init.snap }

def showState : WState → String
  | .open => "O" | .sealed => "S" | .flushed => "F" | .merged => "M"

def showMw (m : MemWal) : String :=
  s!"{m.region}/{m.gen}:{showState m.state}:{m.owner}:{m.mt}:{m.wal}:{showNatList m.entries}:{m.lu}"

def showList (o : Option (List MemWal)) : String :=
  match o with
  | none => "none"
  | some [] => "-"
  | some l => ";".intercalate (l.map showMw)

def insPair (x : Nat × Nat) : List (Nat × Nat) → List (Nat × Nat)
  | [] => [x]
  | y :: t => if x.1 ≤ y.1 then x :: y :: t else y :: insPair x t

def showIdx (u : List (Nat × Nat)) : String :=
  if u.isEmpty then "-" else ",".intercalate ((u.foldr insPair []).map (fun p => s!"{p.1}:{p.2}"))

def dump (v rows : Nat) (mw : Option (List MemWal)) (u : List (Nat × Nat)) : String :=
  s!"v={v} rows={rows} mw={showList mw} idx={showIdx u}"

def dumpTab (t : Tab) : String := dump t.version t.rows t.mw t.uidx

def showErr : Err → String
  | .invalid => "invalid" | .notSupported => "not_supported" | .conflict => "conflict" | .internal => "internal"

def parseOpt (s : String) : Option (Option Nat) :=
  if s = "-" then some none else s.toNat?.map some

def setAt (l : List Snap) (i : Nat) (v : Snap) : List Snap :=
  l.zipIdx.map (fun p => if p.2 = i then v else p.1)

def bad : String := "bad-op"

/-- plan on handle `h`, commit, move the handle on success -/
def runTxn (s : St) (h : Nat) (p : Snap → Except Err Txn) : St × String :=
  match s.hs[h]? with
  | none => (s, bad)
  | some snap =>
    match p snap with
    | .error e => (s, "err " ++ showErr e)
    | .ok x =>
      match commit s.tab snap.version x with
      | .error e => (s, "err " ++ showErr e)
      | .ok t' => ({ tab := t', hs := setAt s.hs h t'.snap }, "ok " ++ dumpTab t')

def nat3 (a b c : String) : Option (Nat × Nat × Nat) :=
  match a.toNat?, b.toNat?, c.toNat? with
  | some x, some y, some z => some (x, y, z)
  | _, _, _ => none

def step (s : St) (line : String) : St × String :=
  match splitTokens line with
  | ["sync", h] =>
    match h.toNat? with
    | some h =>
      if h < s.hs.length then
        ({ s with hs := setAt s.hs h s.tab.snap }, "ok " ++ dumpTab s.tab)
      else (s, bad)
    | none => (s, bad)
  | ["adv", h, r, mt, wal, exp, no] =>
    match h.toNat?, nat3 r mt wal, parseOpt exp, no.toNat? with
    | some h, some (r, mt, wal), some exp, some no => runTxn s h (fun sn => plan sn (.adv r mt wal exp no))
    | _, _, _, _ => (s, bad)
  | ["create", h, r, g, mt, wal, o] =>
    match h.toNat?, nat3 r g mt, wal.toNat?, o.toNat? with
    | some h, some (r, g, mt), some wal, some o => runTxn s h (fun _ => .ok (planCreate r g mt wal o))
    | _, _, _, _ => (s, bad)
  | ["app", h, r, g, e, o] =>
    match h.toNat?, nat3 r g e, o.toNat? with
    | some h, some (r, g, e), some o => runTxn s h (fun sn => plan sn (.app r g e o))
    | _, _, _ => (s, bad)
  | ["seal", h, r, g, o] =>
    match h.toNat?, nat3 r g o with
    | some h, some (r, g, o) => runTxn s h (fun sn => plan sn (.markSealed r g o))
    | _, _ => (s, bad)
  | ["flush", h, r, g, o] =>
    match h.toNat?, nat3 r g o with
    | some h, some (r, g, o) => runTxn s h (fun sn => plan sn (.markFlushed r g o))
    | _, _ => (s, bad)
  | ["merge", h, r, g, o] =>
    match h.toNat?, nat3 r g o with
    | some h, some (r, g, o) => runTxn s h (fun sn => plan sn (.markMerged r g o))
    | _, _ => (s, bad)
  | ["own", h, r, g, no, nm] =>
    match h.toNat?, nat3 r g no, parseOpt nm with
    | some h, some (r, g, no), some nm => runTxn s h (fun sn => plan sn (.own r g no nm))
    | _, _, _ => (s, bad)
  | ["trim", h] =>
    match h.toNat? with
    | some h => runTxn s h (fun sn => plan sn .trim)
    | none => (s, bad)
  | ["mi", h, r, g, o] =>
    match h.toNat?, nat3 r g o with
    | some h, some (r, g, o) => runTxn s h (fun sn => plan sn (.mi r g o))
    | _, _ => (s, bad)
  | ["ins", h] =>
    match h.toNat? with
    | some h => runTxn s h (fun sn => plan sn .ins)
    | none => (s, bad)
  | ["appd", h] =>
    match h.toNat? with
    | some h => runTxn s h (fun sn => plan sn .appendRows)
    | none => (s, bad)
  | ["cidx", c] =>
    match c.toNat? with
    | some c =>
      if c < 2 then
        match commit s.tab s.tab.version (.cidx c s.tab.version) with
        | .error e => (s, "err " ++ showErr e)
        | .ok t' => ({ s with tab := t' }, "ok " ++ dumpTab t')
      else (s, bad)
    | none => (s, bad)
  | _ => (s, bad)

end LanceModel.C39.Driver
