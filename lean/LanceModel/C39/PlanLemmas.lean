import LanceModel.C39.CoreLemmas
/-!
C39 helper lemmas, part 3: the shape of the transaction each public function plans on the snapshot it reads (`Shape`),
the local facts under which applying a transaction keeps `Core` (`Fits`), and `applyTxn` under those facts.
-/
namespace LanceModel.C39

/-- what a handle's snapshot lists (no index = nothing) -/
def Snap.live (h : Snap) : List MemWal := h.mw.getD []
def Tab.live (t : Tab) : List MemWal := t.mw.getD []

theorem snap_live (t : Tab) : t.snap.live = t.live := rfl

/-- the transactions `plan` can produce on a snapshot listing `s` -/
inductive Shape (s : List MemWal) : Txn → Prop
  | advNew (n : MemWal) : n.gen = 0 → n.state = .open → (∀ x ∈ s, x.region ≠ n.region) → Shape s (.mw [n] [] [])
  | advPlain (n m : MemWal) : m ∈ s → n.region = m.region → n.gen = m.gen + 1 → n.state = .open →
      (∀ x ∈ s, x.region = m.region → x.gen ≤ m.gen) → m.state ≠ .open → Shape s (.mw [n] [] [])
  | advSeal (n m : MemWal) : m ∈ s → n.region = m.region → n.gen = m.gen + 1 → n.state = .open →
      (∀ x ∈ s, x.region = m.region → x.gen ≤ m.gen) → m.state = .open →
      Shape s (.mw [n] [{ m with state := .sealed }] [m])
  | mutate (m m' : MemWal) : m ∈ s → m'.id = m.id → m.state.rank ≤ m'.state.rank →
      (m'.state = .open → m.state = .open) → Shape s (.mw [] [m'] [m])
  | trim (rm : List MemWal) : (∀ x ∈ rm, x ∈ s ∧ x.state = .merged) → Shape s (.mw [] [] rm)
  | mi (m : MemWal) : m ∈ s → m.state = .flushed → Shape s (.upd (some m))
  | ins : Shape s (.upd none)
  | append : Shape s .append

theorem planMutate_shape {s : Option (List MemWal)} {r g : Nat} {f : MemWal → Except Err MemWal} {x : Txn}
    (hf : ∀ m m', f m = .ok m' → m'.id = m.id ∧ m.state.rank ≤ m'.state.rank ∧ (m'.state = .open → m.state = .open))
    (h : planMutate s r g f = .ok x) : Shape (s.getD []) x := by
  unfold planMutate at h
  split at h
  · cases h
  · next l =>
    split at h
    · cases h
    · next m hm =>
      split at h
      · cases h
      · next m' hm' =>
        cases h
        obtain ⟨h1, h2, h3⟩ := hf m m' hm'
        exact Shape.mutate m m' (lookup_some hm).1 h1 h2 h3

theorem fAppend_ok {e o : Nat} {m m' : MemWal} (h : fAppend e o m = .ok m') :
    m'.id = m.id ∧ m.state.rank ≤ m'.state.rank ∧ (m'.state = .open → m.state = .open) := by
  unfold fAppend at h
  split at h
  · cases h
  · split at h
    · cases h
    · split at h
      · split at h
        · cases h
        · cases h; exact ⟨rfl, Nat.le_refl _, id⟩
      · cases h; exact ⟨rfl, Nat.le_refl _, id⟩

theorem fMark_ok {src dst : WState} (hsd : src.rank ≤ dst.rank) (hd : dst ≠ .open) {o : Nat} {m m' : MemWal}
    (h : fMark src dst o m = .ok m') :
    m'.id = m.id ∧ m.state.rank ≤ m'.state.rank ∧ (m'.state = .open → m.state = .open) := by
  unfold fMark at h
  split at h
  · cases h
  · next hs =>
    split at h
    · cases h
    · cases h
      have : m.state = src := Classical.not_not.mp hs
      refine ⟨rfl, by rw [this]; exact hsd, fun ho => absurd ho hd⟩

theorem fOwner_ok {no : Nat} {nm : Option Nat} {m m' : MemWal} (h : fOwner no nm m = .ok m') :
    m'.id = m.id ∧ m.state.rank ≤ m'.state.rank ∧ (m'.state = .open → m.state = .open) := by
  unfold fOwner at h
  split at h
  · cases h
  · split at h
    · split at h
      · cases h
      · cases h; exact ⟨rfl, Nat.le_refl _, id⟩
    · cases h; exact ⟨rfl, Nat.le_refl _, id⟩

theorem planAdvance_shape {s : Option (List MemWal)} {r mt wal : Nat} {exp : Option Nat} {no : Nat} {x : Txn}
    (h : planAdvance s r mt wal exp no = .ok x) : Shape (s.getD []) x := by
  unfold planAdvance at h
  split at h
  · split at h
    · cases h
    · cases h
      exact Shape.advNew _ rfl rfl (by simp)
  · next l =>
    split at h
    · next hl =>
      split at h
      · cases h
      · cases h
        exact Shape.advNew _ rfl rfl (fun x hx => latest_none hl x hx)
    · next m hm =>
      obtain ⟨hml, hmr, hmax⟩ := latest_some hm
      split at h
      · cases h
      · split at h
        · cases h
        · split at h
          · cases h
          · split at h
            · cases h
            · split at h
              · next ho =>
                cases h
                exact Shape.advSeal _ m hml hmr.symm rfl rfl (fun x hx hr => hmax x hx (hr.trans hmr)) ho
              · next ho =>
                cases h
                exact Shape.advPlain _ m hml hmr.symm rfl rfl (fun x hx hr => hmax x hx (hr.trans hmr)) ho

theorem planTrim_shape {s : Option (List MemWal)} {u : List (Nat × Nat)} {x : Txn}
    (h : planTrim s u = .ok x) : Shape (s.getD []) x := by
  unfold planTrim at h
  split at h
  · cases h
  · next l =>
    cases h
    refine Shape.trim _ (fun x hx => ?_)
    rw [List.mem_filter] at hx
    refine ⟨hx.1, ?_⟩
    have := hx.2
    simp only [trimmable, Bool.and_eq_true, decide_eq_true_eq] at this
    exact this.2.1

theorem planMI_shape {s : Option (List MemWal)} {r g o : Nat} {x : Txn}
    (h : planMI s r g o = .ok x) : Shape (s.getD []) x := by
  unfold planMI at h
  split at h
  · cases h
  · next l =>
    split at h
    · cases h
    · next m hm =>
      split at h
      · cases h
      · next hs =>
        split at h
        · cases h
        · cases h
          exact Shape.mi m (lookup_some hm).1 (Classical.not_not.mp hs)

theorem plan_shape {h : Snap} {op : Op} {x : Txn} (hp : plan h op = .ok x) : Shape h.live x := by
  unfold Snap.live
  cases op with
  | adv r mt wal exp no => exact planAdvance_shape hp
  | app r g e o => exact planMutate_shape (fun _ _ => fAppend_ok) hp
  | markSealed r g o => exact planMutate_shape (fun _ _ => fMark_ok (by decide) (by decide)) hp
  | markFlushed r g o => exact planMutate_shape (fun _ _ => fMark_ok (by decide) (by decide)) hp
  | markMerged r g o => exact planMutate_shape (fun _ _ => fMark_ok (by decide) (by decide)) hp
  | own r g no nm => exact planMutate_shape (fun _ _ => fOwner_ok) hp
  | trim => exact planTrim_shape hp
  | mi r g o => exact planMI_shape hp
  | ins => cases hp; exact Shape.ins
  | appendRows => cases hp; exact Shape.append

end LanceModel.C39
