/-
C38 model: caching is transparent.

Three layers.

1. The cache.  `rust/lance-core/src/cache.rs` `LanceCache`: a finite map key → value (moka) that may lose ANY subset of its
   entries between any two operations (capacity 0 = nothing is ever kept, tiny = size-based eviction, large = nothing is
   lost).  `cget` = `get_with_key`, `cput` = `insert_with_key` (replaces), `CacheOp.read` = `get_or_insert_with_key`, or
   the equivalent `get_with_key` + load + `insert_with_key` on a miss that most call sites spell out.

2. The world the keys talk about: up to three table locations sharing the session, each holding the current incarnation
   of a table as a list of published manifests.  create / append / overwrite / delete / restore / create index / drop
   (= remove the directory; a later create at the same location starts again at version 1).  Mirrors
     rust/lance/src/dataset/transaction.rs  Transaction::build_manifest (Append / Overwrite / Delete / CreateIndex arms,
                                            fragments_with_ids, assign_row_ids), restore_old_manifest (with fix 0b56cc4)
     rust/lance/src/io/commit.rs            commit_transaction / commit_new_dataset (`version = latest + 1`, 1 on create)
     rust/lance/src/dataset/write/delete.rs, rust/lance/src/dataset/fragment.rs (extend_deletions / write_deletions)
   `World.log` is a ghost: every manifest ever published, those of dropped tables included — a cache outlives a table.
   Fresh identifiers (manifest e-tag, deletion file id, index uuid, data file uuid) are the serial number of the commit
   that created the object (`World.log.length`); lance draws them at random (uuid v4, `rand::random::<u64>()`) or takes them
   from the object store (e-tag).  Objects created by the same commit share the serial; the keys tell them apart by their
   other components, so every theorem proved here holds a fortiori when each object has its own random identifier.

3. The keys.  `entriesOf` lists, for one published manifest, every (key, value) pair a reader of that version can load
   through the session: one constructor of `Key` per key type of `rust/lance/src/session/caches.rs` and
   `rust/lance/src/session/index_caches.rs`, with exactly the data that goes into the key string (the dataset-uri prefix of
   `GlobalMetadataCache::for_dataset` / `GlobalIndexCache::for_dataset` is the component `t`).
-/
namespace LanceModel.C38

/-! ## 1. cache -/

/-- `LanceCache::get_with_key` -/
def cget {κ ν : Type} [DecidableEq κ] : List (κ × ν) → κ → Option ν
  | [], _ => none
  | (k', v) :: r, k => if k' = k then some v else cget r k

/-- `LanceCache::insert_with_key`: replaces -/
def cput {κ ν : Type} [DecidableEq κ] (c : List (κ × ν)) (k : κ) (v : ν) : List (κ × ν) :=
  (k, v) :: c.filter (fun e => decide (e.1 ≠ k))

/-- eviction: any subset may disappear -/
def cevict {κ ν : Type} (c : List (κ × ν)) (keep : κ → Bool) : List (κ × ν) := c.filter (fun e => keep e.1)

/-- what a session does with its cache.  `read k load`: `load` is the value the loader would return at that moment.
    `refresh k v`: `insert_with_key` of a value that was just loaded or written (commit_transaction, load_manifest). -/
inductive CacheOp (κ ν : Type) where
  | read (k : κ) (load : ν)
  | refresh (k : κ) (v : ν)
  | evict (keep : κ → Bool)

/-- results of the reads, through the cache -/
def runCached {κ ν : Type} [DecidableEq κ] : List (κ × ν) → List (CacheOp κ ν) → List ν
  | _, [] => []
  | c, .read k load :: r =>
    match cget c k with
    | some v => v :: runCached c r
    | none => load :: runCached (cput c k load) r
  | c, .refresh k v :: r => runCached (cput c k v) r
  | c, .evict keep :: r => runCached (cevict c keep) r

/-- results of the reads with caching disabled -/
def runUncached {κ ν : Type} : List (CacheOp κ ν) → List ν
  | [] => []
  | .read _ load :: r => load :: runUncached r
  | .refresh _ _ :: r => runUncached r
  | .evict _ :: r => runUncached r

/-- every (key, value) pair that a loader produced or that was inserted -/
def loads {κ ν : Type} : List (CacheOp κ ν) → List (κ × ν)
  | [] => []
  | .read k v :: r => (k, v) :: loads r
  | .refresh k v :: r => (k, v) :: loads r
  | .evict _ :: r => loads r

/-- a list of pairs is the graph of a partial function -/
def Functional {κ ν : Type} (l : List (κ × ν)) : Prop := ∀ k v v', (k, v) ∈ l → (k, v') ∈ l → v = v'

/-! ## 2. tables -/

/-- `DeletionFile` (`id`, `read_version`) and the deletion vector stored in it (physical offsets, ascending) -/
structure DelFile where
  id : Nat
  readVersion : Nat
  offs : List Nat
  deriving DecidableEq, Repr

/-- a fragment: its id, its data file (uuid of the file), `c0` of every physical row, the inline row id sequence
    (`row_id_meta`, empty without stable row ids) and the deletion file -/
structure Frag where
  id : Nat
  file : Nat
  vals : List Nat
  rids : List Nat
  del : Option DelFile
  deriving DecidableEq, Repr

/-- `IndexMetadata`: uuid, fragment bitmap, and what the index files hold (the indexed values) -/
structure IndexMeta where
  uuid : Nat
  frags : List Nat
  content : List Nat
  deriving DecidableEq, Repr

/-- `Operation` kinds the model commits -/
inductive TxnKind where
  | overwrite | append | delete | restore | createIndex
  deriving DecidableEq, Repr

/-- the part of `Transaction` the harness prints: operation kind, `read_version`, and for Restore the version -/
structure Txn where
  /-- `Transaction::uuid` (fresh per transaction) -/
  uuid : Nat
  kind : TxnKind
  readVersion : Nat
  arg : Nat
  deriving DecidableEq, Repr

structure Manifest where
  version : Nat
  /-- e-tag of the manifest file (`ManifestLocation::e_tag`) -/
  etag : Nat
  /-- FLAG_STABLE_ROW_IDS -/
  stable : Bool
  frags : List Frag
  indices : List IndexMeta
  nextRowId : Nat
  /-- `max_fragment_id + 1` (0 = `None`) -/
  nextFragId : Nat
  txn : Txn
  deriving DecidableEq, Repr

structure World where
  /-- location → current incarnation, newest manifest first -/
  tabs : List (Nat × List Manifest)
  /-- ghost: every manifest ever published at any location, newest first -/
  log : List (Nat × Manifest)
  /-- next value of `c0` (every row ever written is distinct) -/
  nextVal : Nat
  deriving DecidableEq, Repr

def World.init : World := { tabs := [], log := [], nextVal := 0 }

def getTab (tabs : List (Nat × List Manifest)) (t : Nat) : Option (List Manifest) :=
  match tabs with
  | [] => none
  | (t', ms) :: r => if t' = t then some ms else getTab r t

def dropTab (tabs : List (Nat × List Manifest)) (t : Nat) : List (Nat × List Manifest) :=
  tabs.filter (fun e => decide (e.1 ≠ t))

inductive Op where
  | create (t : Nat) (stable : Bool) (f n : Nat)
  | append (t f n : Nat)
  | overwrite (t f n : Nat)
  /-- `delete("c0 >= lo AND c0 < hi")` -/
  | delete (t lo hi : Nat)
  | restore (t v : Nat)
  /-- `create_index(["c0"], BTree, "idx", replace = true)` -/
  | index (t : Nat)
  /-- remove the table directory -/
  | drop (t : Nat)
  deriving DecidableEq, Repr

inductive Res where
  | ok
  | err (kind : String)
  deriving DecidableEq, Repr

/-- write.rs `do_write_fragments` on one batch: consecutive files of `f` rows (`f ≥ 1`; fuel = number of rows) -/
def chunksFuel (f : Nat) : Nat → List Nat → List (List Nat)
  | 0, _ => []
  | fuel + 1, xs => if xs.isEmpty then [] else xs.take f :: chunksFuel f fuel (xs.drop f)

def chunks (f : Nat) (xs : List Nat) : List (List Nat) := chunksFuel f xs.length xs

/-- `fragments_with_ids` + `assign_row_ids`: fragment ids from `fid`, row ids from `rid` (with stable row ids); every
    data file gets the commit serial as its uuid -/
def mkFrags (stable : Bool) (serial : Nat) : Nat → Nat → List (List Nat) → List Frag
  | _, _, [] => []
  | fid, rid, c :: cs =>
    { id := fid, file := serial, vals := c, rids := if stable then List.range' rid c.length else [], del := none }
      :: mkFrags stable serial (fid + 1) (rid + c.length) cs

def delOffs (f : Frag) : List Nat :=
  match f.del with
  | none => []
  | some d => d.offs

/-- offsets of the live rows of `f` whose value lies in `[lo, hi)` -/
def hits (lo hi : Nat) (f : Frag) : List Nat :=
  (List.range f.vals.length).filter fun i =>
    !(delOffs f).contains i && (match f.vals[i]? with | some v => decide (lo ≤ v ∧ v < hi) | none => false)

/-- `apply_deletions` for one fragment: untouched when no live row matches, removed when every physical row is deleted,
    otherwise a new deletion file (`read_version` = the version read, fresh id) holding old and new offsets
    (`newOffs`) -/
def newOffs (lo hi : Nat) (f : Frag) : List Nat :=
  (List.range f.vals.length).filter fun i => (delOffs f).contains i || (hits lo hi f).contains i

/-- see `newOffs` -/
def deleteFrag (serial rv lo hi : Nat) (f : Frag) : Option Frag :=
  if (hits lo hi f).isEmpty then some f
  else if (newOffs lo hi f).length = f.vals.length then none
  else some { f with del := some { id := serial, readVersion := rv, offs := newOffs lo hi f } }

def liveVals (f : Frag) : List Nat :=
  ((List.range f.vals.length).filter fun i => !(delOffs f).contains i).filterMap fun i => f.vals[i]?

/-- publish `m` (its e-tag is the commit serial) as the newest manifest of location `t` -/
def publish (w : World) (t : Nat) (older : List Manifest) (m : Manifest) (nextVal : Nat) : World :=
  { tabs := (t, { m with etag := w.log.length } :: older) :: dropTab w.tabs t
    log := (t, { m with etag := w.log.length }) :: w.log
    nextVal := nextVal }

def createM (w : World) (stable : Bool) (f n : Nat) : Manifest :=
  { version := 1, etag := 0, stable := stable,
    frags := mkFrags stable w.log.length 0 0 (chunks f (List.range' w.nextVal n)),
    indices := [],
    nextRowId := if stable then n else 0,
    nextFragId := (chunks f (List.range' w.nextVal n)).length,
    txn := { uuid := w.log.length, kind := .overwrite, readVersion := 0, arg := 0 } }

def appendM (w : World) (l : Manifest) (f n : Nat) : Manifest :=
  { l with
    version := l.version + 1,
    frags := l.frags ++ mkFrags l.stable w.log.length l.nextFragId l.nextRowId (chunks f (List.range' w.nextVal n)),
    nextRowId := if l.stable then l.nextRowId + n else l.nextRowId,
    nextFragId := l.nextFragId + (chunks f (List.range' w.nextVal n)).length,
    txn := { uuid := w.log.length, kind := .append, readVersion := l.version, arg := 0 } }

def overwriteM (w : World) (l : Manifest) (f n : Nat) : Manifest :=
  { l with
    version := l.version + 1,
    frags := mkFrags l.stable w.log.length 0 l.nextRowId (chunks f (List.range' w.nextVal n)),
    indices := [],
    nextRowId := if l.stable then l.nextRowId + n else l.nextRowId,
    nextFragId := max l.nextFragId (chunks f (List.range' w.nextVal n)).length,
    txn := { uuid := w.log.length, kind := .overwrite, readVersion := l.version, arg := 0 } }

def deleteM (w : World) (l : Manifest) (lo hi : Nat) : Manifest :=
  { l with
    version := l.version + 1,
    frags := l.frags.filterMap (deleteFrag w.log.length l.version lo hi),
    txn := { uuid := w.log.length, kind := .delete, readVersion := l.version, arg := 0 } }

def restoreM (w : World) (l old : Manifest) (v : Nat) : Manifest :=
  { old with
    version := l.version + 1,
    nextRowId := max old.nextRowId l.nextRowId,
    nextFragId := max old.nextFragId l.nextFragId,
    txn := { uuid := w.log.length, kind := .restore, readVersion := l.version, arg := v } }

def indexM (w : World) (l : Manifest) : Manifest :=
  { l with
    version := l.version + 1,
    indices := [{ uuid := w.log.length, frags := l.frags.map (·.id), content := (l.frags.map liveVals).flatten }],
    txn := { uuid := w.log.length, kind := .createIndex, readVersion := l.version, arg := 0 } }

/-- one public call -/
def step (w : World) (op : Op) : World × Res :=
  match op with
  | .create t stable f n =>
    match getTab w.tabs t with
    | some _ => (w, .err "already_exists")
    | none =>
      if f = 0 then (w, .err "invalid_input")
      else (publish w t [] (createM w stable f n) (w.nextVal + n), .ok)
  | .append t f n =>
    match getTab w.tabs t with
    | none => (w, .err "not_found")
    | some [] => (w, .err "not_found")
    | some (l :: older) =>
      if f = 0 then (w, .err "invalid_input")
      else (publish w t (l :: older) (appendM w l f n) (w.nextVal + n), .ok)
  | .overwrite t f n =>
    match getTab w.tabs t with
    | none => (w, .err "not_found")
    | some [] => (w, .err "not_found")
    | some (l :: older) =>
      if f = 0 then (w, .err "invalid_input")
      else (publish w t (l :: older) (overwriteM w l f n) (w.nextVal + n), .ok)
  | .delete t lo hi =>
    match getTab w.tabs t with
    | none => (w, .err "not_found")
    | some [] => (w, .err "not_found")
    | some (l :: older) => (publish w t (l :: older) (deleteM w l lo hi) w.nextVal, .ok)
  | .restore t v =>
    match getTab w.tabs t with
    | none => (w, .err "not_found")
    | some [] => (w, .err "not_found")
    | some (l :: older) =>
      match (l :: older).find? (fun m => m.version == v) with
      | none => (w, .err "not_found")
      | some old => (publish w t (l :: older) (restoreM w l old v) w.nextVal, .ok)
  | .index t =>
    match getTab w.tabs t with
    | none => (w, .err "not_found")
    | some [] => (w, .err "not_found")
    | some (l :: older) => (publish w t (l :: older) (indexM w l) w.nextVal, .ok)
  | .drop t =>
    match getTab w.tabs t with
    | none => (w, .err "not_found")
    | some _ => ({ w with tabs := dropTab w.tabs t }, .ok)

def run (w : World) : List Op → World
  | [] => w
  | op :: ops => run (step w op).1 ops

/-! ## 3. keys -/

/-- one constructor per key type; `t` is the dataset-uri prefix -/
inductive Key where
  /-- `ManifestKey { version, e_tag }` → `Manifest` -/
  | manifest (t v etag : Nat)
  /-- `TransactionKey { version }` → `Transaction` -/
  | txn (t v : Nat)
  /-- `IndexMetadataKey { version }` → `Vec<IndexMetadata>` -/
  | indexMeta (t v : Nat)
  /-- `RowIdMaskKey { version }` → `RowIdMask` (allow list of the live row ids) -/
  | rowIdMask (t v : Nat)
  /-- `RowIdIndexKey { version }` → `RowIdIndex` (live row id → fragment, offset) -/
  | rowIdIndex (t v : Nat)
  /-- `RowIdSequenceKey { version, fragment_id }` → `RowIdSequence`; before fix 37c4aa6 the key had no version, which
      the model writes as version 0 -/
  | rowIdSeq (t v f : Nat)
  /-- `DeletionFileKey { fragment_id, deletion_file: (read_version, id, suffix) }` → `DeletionVector` -/
  | deletion (t f rv id : Nat)
  /-- `DSMetadataCache::file_metadata_cache(path)`: metadata of the data file `data/<uuid>.lance`; the path also carries
      the fragment's position in its commit, written here as the fragment id -/
  | fileMeta (t file f : Nat)
  /-- `DSIndexCache::for_index(uuid, …)`, `FragReuseIndexKey { uuid }`, `ScalarIndexDetailsKey { uuid }` → the opened index -/
  | indexData (t uuid : Nat)
  deriving DecidableEq, Repr

inductive Val where
  | manifest (m : Manifest)
  | txn (x : Txn)
  | indexMeta (l : List IndexMeta)
  | mask (ids : List Nat)
  | ridIndex (l : List (Nat × Nat × Nat))
  | seq (l : List Nat)
  | dv (offs : List Nat)
  | file (vals : List Nat)
  | index (i : IndexMeta)
  deriving DecidableEq, Repr

/-- live (row id, offset) pairs of a fragment -/
def liveRids (f : Frag) : List (Nat × Nat) :=
  ((List.range f.rids.length).filter fun i => !(delOffs f).contains i).filterMap fun i =>
    (f.rids[i]?).map fun r => (r, i)

/-- prefilter.rs `do_create_deletion_mask_row_id` -/
def maskOf (m : Manifest) : List Nat := (m.frags.map fun f => (liveRids f).map (·.1)).flatten

/-- rowids.rs `load_row_id_index` -/
def ridIndexOf (m : Manifest) : List (Nat × Nat × Nat) :=
  (m.frags.map fun f => (liveRids f).map fun p => (p.1, f.id, p.2)).flatten

def delEntry (t : Nat) (f : Frag) : List (Key × Val) :=
  match f.del with
  | none => []
  | some d => [(.deletion t f.id d.readVersion d.id, .dv d.offs)]

/-- everything a reader of version `m` at location `t` can load through the session.  `fixed = false` is the
    `RowIdSequenceKey` of the pinned commit (no version in the key). -/
def entriesOf (fixed : Bool) (t : Nat) (m : Manifest) : List (Key × Val) :=
  [(.manifest t m.version m.etag, .manifest m), (.txn t m.version, .txn m.txn), (.indexMeta t m.version, .indexMeta m.indices)]
  ++ (if m.stable then
        [(.rowIdMask t m.version, .mask (maskOf m)), (.rowIdIndex t m.version, .ridIndex (ridIndexOf m))]
        ++ m.frags.map (fun f => (.rowIdSeq t (if fixed then m.version else 0) f.id, .seq f.rids))
      else [])
  ++ m.frags.flatMap (delEntry t)
  ++ m.frags.map (fun f => (.fileMeta t f.file f.id, .file f.vals))
  ++ m.indices.map (fun i => (.indexData t i.uuid, .index i))

def logEntries (fixed : Bool) (log : List (Nat × Manifest)) : List (Key × Val) :=
  (log.map fun e => entriesOf fixed e.1 e.2).flatten

/-- what can be loaded NOW: the versions of the live tables -/
def entries (fixed : Bool) (w : World) : List (Key × Val) :=
  (w.tabs.map fun e => (e.2.map fun m => entriesOf fixed e.1 m).flatten).flatten

/-! ## 4. a session reading while the tables change -/

inductive Ev where
  | op (o : Op)
  /-- a read of key `k` through the session (a key nothing can be loaded for now is a loader error: not cached, same
      answer with and without cache) -/
  | read (k : Key)
  | evict (keep : Key → Bool)

/-- the cache operations of a session history; the loader of a read returns what the store holds at that moment -/
def trace (fixed : Bool) (w : World) : List Ev → List (CacheOp Key Val)
  | [] => []
  | .op o :: r => trace fixed (step w o).1 r
  | .read k :: r =>
    match cget (entries fixed w) k with
    | some v => .read k v :: trace fixed w r
    | none => trace fixed w r
  | .evict keep :: r => .evict keep :: trace fixed w r

def opsOf : List Ev → List Op
  | [] => []
  | .op o :: r => o :: opsOf r
  | _ :: r => opsOf r

/-- no location is created again after it was dropped -/
def noRecreate (dropped : List Nat) : List Op → Bool
  | [] => true
  | .drop t :: r => noRecreate (t :: dropped) r
  | .create t _ _ _ :: r => !dropped.contains t && noRecreate dropped r
  | _ :: r => noRecreate dropped r

/-! ## 5. observations (the driver's output) -/

def rowAddr (fragId off : Nat) : Nat := fragId * 4294967296 + off

/-- ordered scan with `_rowid`: (c0, row id) of every live row -/
def scanFrag (stable : Bool) (f : Frag) : List (Nat × Nat) :=
  ((List.range f.vals.length).filter fun i => !(delOffs f).contains i).filterMap fun i =>
    match f.vals[i]? with
    | none => none
    | some v => some (v, if stable then (f.rids[i]?).getD 0 else rowAddr f.id i)

def scan (m : Manifest) : List (Nat × Nat) := (m.frags.map (scanFrag m.stable)).flatten

/-- `take_rows(ids)`: the rows that exist, in request order -/
def takeRows (m : Manifest) (ids : List Nat) : List (Nat × Nat) :=
  ids.filterMap fun id => (scan m).find? (fun p => p.2 == id)

/-- per fragment (id, physical rows, deleted rows) -/
def fragInfo (m : Manifest) : List (Nat × Nat × Nat) :=
  m.frags.map fun f => (f.id, f.vals.length, (delOffs f).length)

end LanceModel.C38
