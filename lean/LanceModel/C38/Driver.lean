import LanceModel.Util
import LanceModel.C38.Model
/-
C38 driver.  Op lines (grammar: top of harness/src/bin/c38.rs)

  session <zero|tiny|large>
  create <t> s=<0|1> f=<f> <n> | append <t> f=<f> <n> | overwrite <t> f=<f> <n> | delete <t> <lo> <hi>
  restore <t> <v> | index <t> | drop <t>
  scan <t> | scanv <t> <v> | count <t> | indices <t> | txn <t> <v> | take <t> <ids> | fscan <t> <lo> | txnh <t>

The state is the model world plus the uuids of the indices in creation order (an index is printed as `i<k>`).
The output is what a session with caching disabled reads; the cache capacity of the `session` line changes nothing here —
that it changes nothing in lance either is the property, judged by the harness oracle.
-/
namespace LanceModel.C38.Driver
open LanceModel.Util LanceModel.C38

structure St where
  w : World
  idx : List Nat

def St.init : St := { w := World.init, idx := [] }

def parseNat (s : String) : Option Nat :=
  if s.isEmpty || s.length > 9 then none
  else if s.toList.all Char.isDigit then s.toNat? else none

def tokVal (key tok : String) : Option String :=
  if tok.startsWith (key ++ "=") then some (String.ofList (tok.toList.drop (key.length + 1))) else none

def parseTab (s : String) : Option Nat :=
  match parseNat s with
  | some t => if t < 3 then some t else none
  | none => none

def parseF (s : String) : Option Nat :=
  match (tokVal "f" s) >>= parseNat with
  | some f => if 1 ≤ f ∧ f ≤ 8 then some f else none
  | none => none

def parseN (s : String) : Option Nat :=
  match parseNat s with
  | some n => if 1 ≤ n ∧ n ≤ 40 then some n else none
  | none => none

def parseOp (toks : List String) : Option Op :=
  match toks with
  | ["create", t, s, f, n] => do
    let t ← parseTab t
    let sv ← tokVal "s" s
    let stable ← (if sv = "0" then some false else if sv = "1" then some true else none)
    let f ← parseF f
    let n ← parseN n
    some (.create t stable f n)
  | ["append", t, f, n] => do
    let t ← parseTab t
    let f ← parseF f
    let n ← parseN n
    some (.append t f n)
  | ["overwrite", t, f, n] => do
    let t ← parseTab t
    let f ← parseF f
    let n ← parseN n
    some (.overwrite t f n)
  | ["delete", t, lo, hi] => do
    let t ← parseTab t
    let lo ← parseNat lo
    let hi ← parseNat hi
    some (.delete t lo hi)
  | ["restore", t, v] => do
    let t ← parseTab t
    let v ← parseNat v
    some (.restore t v)
  | ["index", t] => (parseTab t).map .index
  | ["drop", t] => (parseTab t).map .drop
  | _ => none

def showPairs (l : List (Nat × Nat)) : String :=
  if l.isEmpty then "-" else ";".intercalate (l.map fun p => toString p.1 ++ "," ++ toString p.2)

def showFragInfo (l : List (Nat × Nat × Nat)) : String :=
  if l.isEmpty then "-"
  else ",".intercalate (l.map fun p => toString p.1 ++ ":" ++ toString p.2.1 ++ ":" ++ toString p.2.2)

def latestOf (w : World) (t : Nat) : Option Manifest :=
  match getTab w.tabs t with
  | some (m :: _) => some m
  | _ => none

def versionOf (w : World) (t v : Nat) : Option Manifest :=
  match getTab w.tabs t with
  | some ms => ms.find? (fun m => m.version == v)
  | none => none

def showWrite (m : Manifest) : String :=
  "ok v=" ++ toString m.version ++ " frags=" ++ showFragInfo (fragInfo m)

def labelOf (idx : List Nat) (uuid : Nat) : String :=
  "i" ++ toString (idx.findIdx (· == uuid))

def showBitmap (l : List Nat) : String :=
  if l.isEmpty then "-" else ".".intercalate (l.map toString)

def showIndices (idx : List Nat) (l : List IndexMeta) : String :=
  if l.isEmpty then "idx=-" else "idx=" ++ ",".intercalate (l.map fun i => labelOf idx i.uuid ++ ":" ++ showBitmap i.frags)

def showKind : TxnKind → String
  | .overwrite => "Overwrite"
  | .append => "Append"
  | .delete => "Delete"
  | .restore => "Restore"
  | .createIndex => "CreateIndex"

def showScan (m : Manifest) : String := "v=" ++ toString m.version ++ " rows=" ++ showPairs (scan m)

def step (s : St) (line : String) : St × String :=
  match splitTokens line with
  | ["session", c] => if c = "zero" ∨ c = "tiny" ∨ c = "large" then (s, "ok") else (s, "err parse")
  | ["scan", t] =>
    match parseTab t with
    | none => (s, "err parse")
    | some t =>
      match latestOf s.w t with
      | none => (s, "err not_found")
      | some m => (s, showScan m)
  | ["scanv", t, v] =>
    match parseTab t, parseNat v with
    | some t, some v =>
      match versionOf s.w t v with
      | none => (s, "err not_found")
      | some m => (s, showScan m)
    | _, _ => (s, "err parse")
  | ["fscan", t, lo] =>
    match parseTab t, parseNat lo with
    | some t, some lo =>
      match latestOf s.w t with
      | none => (s, "err not_found")
      | some m => (s, "v=" ++ toString m.version ++ " rows=" ++ showPairs ((scan m).filter fun p => decide (lo ≤ p.1)))
    | _, _ => (s, "err parse")
  | ["count", t] =>
    match parseTab t with
    | none => (s, "err parse")
    | some t =>
      match latestOf s.w t with
      | none => (s, "err not_found")
      | some m => (s, "n=" ++ toString (scan m).length)
  | ["indices", t] =>
    match parseTab t with
    | none => (s, "err parse")
    | some t =>
      match latestOf s.w t with
      | none => (s, "err not_found")
      | some m => (s, showIndices s.idx m.indices)
  | ["txnh", t] =>
    match parseTab t with
    | none => (s, "err parse")
    | some t =>
      match latestOf s.w t with
      | none => (s, "err not_found")
      | some m => (s, "txn=" ++ showKind m.txn.kind ++ " rv=" ++ toString m.txn.readVersion)
  | ["txn", t, v] =>
    match parseTab t, parseNat v with
    | some t, some v =>
      match versionOf s.w t v with
      | none => (s, "err not_found")
      | some m => (s, "txn=" ++ showKind m.txn.kind ++ " rv=" ++ toString m.txn.readVersion)
    | _, _ => (s, "err parse")
  | ["take", t, ids] =>
    match parseTab t, parseNatList ids with
    | some t, some ids =>
      match latestOf s.w t with
      | none => (s, "err not_found")
      | some m => if m.stable then (s, "take=" ++ showPairs (takeRows m ids)) else (s, "skip")
    | _, _ => (s, "err parse")
  | toks =>
    match parseOp toks with
    | none => (s, "err parse")
    | some op =>
      match LanceModel.C38.step s.w op with
      | (w', .err k) => ({ s with w := w' }, "err " ++ k)
      | (w', .ok) =>
        match op with
        | .drop _ => ({ s with w := w' }, "ok")
        | .index t =>
          (match latestOf w' t with
           | some m => ({ w := w', idx := s.idx ++ m.indices.map (·.uuid) }, showWrite m)
           | none => ({ s with w := w' }, "err model"))
        | .create t _ _ _ | .append t _ _ | .overwrite t _ _ | .delete t _ _ | .restore t _ =>
          (match latestOf w' t with
           | some m => ({ s with w := w' }, showWrite m)
           | none => ({ s with w := w' }, "err model"))

end LanceModel.C38.Driver
