import LanceModel.C38.HistLemmas
/-
C38: which entries a published manifest contributes, key type by key type.
-/
namespace LanceModel.C38

theorem mem_delEntry {t : Nat} {f : Frag} {k : Key} {x : Val} :
    (k, x) ∈ delEntry t f ↔ ∃ d, f.del = some d ∧ k = .deletion t f.id d.readVersion d.id ∧ x = .dv d.offs := by
  unfold delEntry
  cases f.del with
  | none => simp
  | some d => simp

variable {fixed : Bool} {t : Nat} {m : Manifest} {x : Val}

theorem mem_entriesOf_manifest {t' v e : Nat} :
    (Key.manifest t' v e, x) ∈ entriesOf fixed t m ↔ t' = t ∧ v = m.version ∧ e = m.etag ∧ x = .manifest m := by
  unfold entriesOf
  split <;> simp [mem_delEntry] <;> grind

theorem mem_entriesOf_txn {t' v : Nat} :
    (Key.txn t' v, x) ∈ entriesOf fixed t m ↔ t' = t ∧ v = m.version ∧ x = .txn m.txn := by
  unfold entriesOf
  split <;> simp [mem_delEntry] <;> grind

theorem mem_entriesOf_indexMeta {t' v : Nat} :
    (Key.indexMeta t' v, x) ∈ entriesOf fixed t m ↔ t' = t ∧ v = m.version ∧ x = .indexMeta m.indices := by
  unfold entriesOf
  split <;> simp [mem_delEntry] <;> grind

theorem mem_entriesOf_rowIdMask {t' v : Nat} :
    (Key.rowIdMask t' v, x) ∈ entriesOf fixed t m ↔ m.stable = true ∧ t' = t ∧ v = m.version ∧ x = .mask (maskOf m) := by
  unfold entriesOf
  split <;> simp [mem_delEntry, *] <;> grind

theorem mem_entriesOf_rowIdIndex {t' v : Nat} :
    (Key.rowIdIndex t' v, x) ∈ entriesOf fixed t m ↔
      m.stable = true ∧ t' = t ∧ v = m.version ∧ x = .ridIndex (ridIndexOf m) := by
  unfold entriesOf
  split <;> simp [mem_delEntry, *] <;> grind

theorem mem_entriesOf_rowIdSeq {t' v f' : Nat} :
    (Key.rowIdSeq t' v f', x) ∈ entriesOf fixed t m ↔
      m.stable = true ∧ t' = t ∧ v = (if fixed then m.version else 0) ∧ ∃ f ∈ m.frags, f.id = f' ∧ x = .seq f.rids := by
  unfold entriesOf
  split <;> simp [mem_delEntry, *] <;> grind

theorem mem_entriesOf_deletion {t' f' rv id : Nat} :
    (Key.deletion t' f' rv id, x) ∈ entriesOf fixed t m ↔
      t' = t ∧ ∃ f ∈ m.frags, ∃ d, f.del = some d ∧ f.id = f' ∧ d.readVersion = rv ∧ d.id = id ∧ x = .dv d.offs := by
  unfold entriesOf
  split <;> simp [mem_delEntry] <;> grind

theorem mem_entriesOf_fileMeta {t' file f' : Nat} :
    (Key.fileMeta t' file f', x) ∈ entriesOf fixed t m ↔
      t' = t ∧ ∃ f ∈ m.frags, f.file = file ∧ f.id = f' ∧ x = .file f.vals := by
  unfold entriesOf
  split <;> simp [mem_delEntry] <;> grind

theorem mem_entriesOf_indexData {t' u : Nat} :
    (Key.indexData t' u, x) ∈ entriesOf fixed t m ↔ t' = t ∧ ∃ i ∈ m.indices, i.uuid = u ∧ x = .index i := by
  unfold entriesOf
  split <;> simp [mem_delEntry] <;> grind

theorem mem_logEntries {log : List (Nat × Manifest)} {k : Key} :
    (k, x) ∈ logEntries fixed log ↔ ∃ t m, (t, m) ∈ log ∧ (k, x) ∈ entriesOf fixed t m := by
  simp only [logEntries, List.mem_flatten, List.mem_map]
  constructor
  · rintro ⟨l, ⟨e, he, rfl⟩, h⟩; exact ⟨e.1, e.2, he, h⟩
  · rintro ⟨t, m, he, h⟩; exact ⟨_, ⟨(t, m), he, rfl⟩, h⟩

theorem mem_entries {w : World} {k : Key} :
    (k, x) ∈ entries fixed w ↔ ∃ t ms m, (t, ms) ∈ w.tabs ∧ m ∈ ms ∧ (k, x) ∈ entriesOf fixed t m := by
  unfold entries
  rw [List.mem_flatten]
  constructor
  · rintro ⟨l, hl, h⟩
    rw [List.mem_map] at hl
    obtain ⟨e, he, rfl⟩ := hl
    rw [List.mem_flatten] at h
    obtain ⟨l2, hl2, h⟩ := h
    rw [List.mem_map] at hl2
    obtain ⟨m, hm, rfl⟩ := hl2
    exact ⟨e.1, e.2, m, he, hm, h⟩
  · rintro ⟨t, ms, m, he, hm, h⟩
    exact ⟨_, List.mem_map.mpr ⟨(t, ms), he, rfl⟩, List.mem_flatten.mpr ⟨_, List.mem_map.mpr ⟨m, hm, rfl⟩, h⟩⟩

end LanceModel.C38
