import LanceModel.C38.HistLemmas
/-
C38: invariants about the objects inside the manifests.
  * `FragIdsOK`  fragment ids of one manifest are strictly increasing and below `nextFragId`
  * `ObjOK`      an object that carries a fresh identifier (data file, deletion file, index) never changes: two fragments
                 with the same id and the same data file hold the same rows and row ids; two deletion files of fragments
                 with the same id and the same deletion file id are the same; two indices with the same uuid are the same
-/
namespace LanceModel.C38

/-! ### fragment ids -/

def FragIdsOK (m : Manifest) : Prop :=
  (m.frags.map (·.id)).Pairwise (· < ·) ∧ ∀ f ∈ m.frags, f.id < m.nextFragId

theorem mkFrags_ids (stable : Bool) (serial : Nat) (cs : List (List Nat)) :
    ∀ fid rid, (mkFrags stable serial fid rid cs).map (·.id) = List.range' fid cs.length := by
  induction cs with
  | nil => intro fid rid; rfl
  | cons c cs ih => intro fid rid; simp only [mkFrags, List.map_cons, List.length_cons, List.range'_succ, ih]

theorem mkFrags_new (stable : Bool) (serial : Nat) (cs : List (List Nat)) :
    ∀ fid rid f, f ∈ mkFrags stable serial fid rid cs → f.file = serial ∧ f.del = none := by
  induction cs with
  | nil => intro fid rid f h; cases h
  | cons c cs ih =>
    intro fid rid f h
    simp only [mkFrags, List.mem_cons] at h
    rcases h with h | h
    · subst h; exact ⟨rfl, rfl⟩
    · exact ih _ _ f h

theorem mem_ids {l : List Frag} {f : Frag} (h : f ∈ l) : f.id ∈ l.map (·.id) := List.mem_map.mpr ⟨f, h, rfl⟩

theorem mkFrags_id_range {stable : Bool} {serial fid rid : Nat} {cs : List (List Nat)} {f : Frag}
    (h : f ∈ mkFrags stable serial fid rid cs) : fid ≤ f.id ∧ f.id < fid + cs.length := by
  have := mem_ids h
  rw [mkFrags_ids] at this
  simp only [List.mem_range'_1] at this
  exact this

theorem deleteFrag_some {serial rv lo hi : Nat} {f f' : Frag} (h : deleteFrag serial rv lo hi f = some f') :
    f' = f ∨ f' = { f with del := some { id := serial, readVersion := rv, offs := newOffs lo hi f } } := by
  unfold deleteFrag at h
  split at h
  · cases h; exact .inl rfl
  · split at h
    · cases h
    · cases h; exact .inr rfl

theorem deleteFrag_id {serial rv lo hi : Nat} {f f' : Frag} (h : deleteFrag serial rv lo hi f = some f') :
    f'.id = f.id := by
  rcases deleteFrag_some h with h | h <;> rw [h]

theorem pairwise_filterMap_ids (g : Frag → Option Frag) (hg : ∀ f f', g f = some f' → f'.id = f.id) (l : List Frag)
    (h : (l.map (·.id)).Pairwise (· < ·)) : ((l.filterMap g).map (·.id)).Pairwise (· < ·) := by
  induction l with
  | nil => simp
  | cons a l ih =>
    simp only [List.map_cons, List.pairwise_cons] at h
    have ih := ih h.2
    simp only [List.filterMap_cons]
    cases hga : g a with
    | none => exact ih
    | some a' =>
      simp only [List.map_cons, List.pairwise_cons]
      refine ⟨?_, ih⟩
      intro b hb
      simp only [List.mem_map, List.mem_filterMap] at hb
      obtain ⟨f', ⟨f, hf, hgf⟩, rfl⟩ := hb
      rw [hg a a' hga, hg f f' hgf]
      exact h.1 _ (mem_ids hf)

theorem fragIdsOK_made {w : World} {older : List Manifest} {m : Manifest} (hm : Made w older m)
    (hold : ∀ m0 ∈ older, FragIdsOK m0) : FragIdsOK m := by
  cases hm with
  | create s f n =>
    constructor
    · simp only [createM, mkFrags_ids]; exact List.pairwise_lt_range'
    · intro f hf
      have := mkFrags_id_range hf
      simp only [createM]; omega
  | append l older f n =>
    have hl := hold l (List.mem_cons_self ..)
    constructor
    · simp only [appendM, List.map_append, mkFrags_ids, List.pairwise_append]
      refine ⟨hl.1, List.pairwise_lt_range', ?_⟩
      intro a ha b hb
      simp only [List.mem_map] at ha
      obtain ⟨fa, hfa, rfl⟩ := ha
      have := hl.2 fa hfa
      simp only [List.mem_range'_1] at hb
      omega
    · intro f' hf'
      simp only [appendM, List.mem_append] at hf' ⊢
      rcases hf' with h | h
      · have := hl.2 f' h; omega
      · have := mkFrags_id_range h; omega
  | overwrite l older f n =>
    constructor
    · simp only [overwriteM, mkFrags_ids]; exact List.pairwise_lt_range'
    · intro f' hf'
      have := mkFrags_id_range hf'
      simp only [overwriteM]; omega
  | delete l older lo hi =>
    have hl := hold l (List.mem_cons_self ..)
    constructor
    · exact pairwise_filterMap_ids _ (fun _ _ h => deleteFrag_id h) _ hl.1
    · intro f' hf'
      simp only [deleteM, List.mem_filterMap] at hf' ⊢
      obtain ⟨f0, hf0, hd⟩ := hf'
      rw [deleteFrag_id hd]
      exact hl.2 f0 hf0
  | restore l older old v hmem =>
    have ho := hold old hmem
    constructor
    · exact ho.1
    · intro f' hf'
      have := ho.2 f' hf'
      simp only [restoreM]; omega
  | index l older =>
    have hl := hold l (List.mem_cons_self ..)
    exact ⟨hl.1, hl.2⟩

/-- one fragment id, one fragment (within a manifest) -/
theorem frag_id_inj {m : Manifest} (h : FragIdsOK m) {f f' : Frag} (hf : f ∈ m.frags) (hf' : f' ∈ m.frags)
    (hid : f.id = f'.id) : f = f' := by
  have hp := h.1
  generalize m.frags = l at hp hf hf'
  induction l with
  | nil => cases hf
  | cons a l ih =>
    simp only [List.map_cons, List.pairwise_cons] at hp
    simp only [List.mem_cons] at hf hf'
    rcases hf with hf | hf <;> rcases hf' with hf' | hf'
    · rw [hf, hf']
    · subst hf; have := hp.1 _ (mem_ids hf'); omega
    · subst hf'; have := hp.1 _ (mem_ids hf); omega
    · exact ih hp.2 hf hf'

def LogFragIdsOK (w : World) : Prop := ∀ e ∈ w.log, FragIdsOK e.2

theorem fragIdsOK_etag {m : Manifest} {e : Nat} (h : FragIdsOK m) : FragIdsOK { m with etag := e } := h

theorem logFragIdsOK_step (w : World) (op : Op) (ht : TabsInLog w) (h : LogFragIdsOK w) : LogFragIdsOK (step w op).1 := by
  rcases step_shape w op with ⟨hs, _⟩ | ⟨t, _, hs⟩ | ⟨t, older, m, nv, ⟨hold, _, _, _, hmade⟩, hs⟩ <;> rw [hs]
  · exact h
  · exact h
  · intro e he
    simp only [publish, List.mem_cons] at he
    rcases he with he | he
    · subst he
      apply fragIdsOK_etag
      apply fragIdsOK_made hmade
      intro m0 hm0
      rcases hold with hold | ⟨_, hold, _⟩
      · exact h _ (ht t older m0 hold hm0)
      · subst hold; cases hm0
    · exact h e he

/-! ### objects with fresh identifiers never change -/

structure ObjOK (log : List (Nat × Manifest)) : Prop where
  fileLt : ∀ e ∈ log, ∀ f ∈ e.2.frags, f.file < log.length
  delLt : ∀ e ∈ log, ∀ f ∈ e.2.frags, ∀ d, f.del = some d → d.id < log.length
  idxLt : ∀ e ∈ log, ∀ i ∈ e.2.indices, i.uuid < log.length
  fileFun : ∀ e ∈ log, ∀ e' ∈ log, ∀ f ∈ e.2.frags, ∀ f' ∈ e'.2.frags, f.id = f'.id → f.file = f'.file →
    f.vals = f'.vals ∧ f.rids = f'.rids
  delFun : ∀ e ∈ log, ∀ e' ∈ log, ∀ f ∈ e.2.frags, ∀ f' ∈ e'.2.frags, ∀ d d', f.id = f'.id → f.del = some d →
    f'.del = some d' → d.id = d'.id → d = d'
  idxFun : ∀ e ∈ log, ∀ e' ∈ log, ∀ i ∈ e.2.indices, ∀ i' ∈ e'.2.indices, i.uuid = i'.uuid → i = i'

/-- where the fragments and indices of a new manifest come from -/
structure Prov (serial : Nat) (older : List Manifest) (m : Manifest) : Prop where
  frag : ∀ f ∈ m.frags, (f.file = serial ∧ f.del = none) ∨
    ∃ m0 ∈ older, ∃ f0 ∈ m0.frags, f0.id = f.id ∧ f0.file = f.file ∧ f0.vals = f.vals ∧ f0.rids = f.rids ∧
      (f.del = f0.del ∨ ∃ d, f.del = some d ∧ d.id = serial)
  idx : ∀ i ∈ m.indices, (i.uuid = serial ∧ m.indices = [i]) ∨ ∃ m0 ∈ older, i ∈ m0.indices

theorem prov_made {w : World} {older : List Manifest} {m : Manifest} (hm : Made w older m) :
    Prov w.log.length older m := by
  cases hm with
  | create s f n =>
    exact ⟨fun f hf => .inl (mkFrags_new _ _ _ _ _ f hf), fun i hi => by simp [createM] at hi⟩
  | append l older f n =>
    constructor
    · intro f' hf'
      simp only [appendM, List.mem_append] at hf'
      rcases hf' with h | h
      · exact .inr ⟨l, List.mem_cons_self .., f', h, rfl, rfl, rfl, rfl, .inl rfl⟩
      · exact .inl (mkFrags_new _ _ _ _ _ f' h)
    · intro i hi; exact .inr ⟨l, List.mem_cons_self .., hi⟩
  | overwrite l older f n =>
    exact ⟨fun f hf => .inl (mkFrags_new _ _ _ _ _ f hf), fun i hi => by simp [overwriteM] at hi⟩
  | delete l older lo hi =>
    constructor
    · intro f' hf'
      simp only [deleteM, List.mem_filterMap] at hf'
      obtain ⟨f0, hf0, hd⟩ := hf'
      rcases deleteFrag_some hd with h | h
      · subst h; exact .inr ⟨l, List.mem_cons_self .., f', hf0, rfl, rfl, rfl, rfl, .inl rfl⟩
      · subst h; exact .inr ⟨l, List.mem_cons_self .., f0, hf0, rfl, rfl, rfl, rfl, .inr ⟨_, rfl, rfl⟩⟩
    · intro i hi; exact .inr ⟨l, List.mem_cons_self .., hi⟩
  | restore l older old v hmem =>
    constructor
    · intro f' hf'; exact .inr ⟨old, hmem, f', hf', rfl, rfl, rfl, rfl, .inl rfl⟩
    · intro i hi; exact .inr ⟨old, hmem, hi⟩
  | index l older =>
    constructor
    · intro f' hf'; exact .inr ⟨l, List.mem_cons_self .., f', hf', rfl, rfl, rfl, rfl, .inl rfl⟩
    · intro i hi
      simp only [indexM, List.mem_cons, List.not_mem_nil, or_false] at hi
      subst hi
      exact .inl ⟨rfl, rfl⟩

theorem objOK_nil : ObjOK [] := by
  constructor <;> (intro e he; cases he)

theorem objOK_push {log : List (Nat × Manifest)} {t : Nat} {older : List Manifest} {m : Manifest} {etag : Nat}
    (h : ObjOK log) (hold : ∀ m0 ∈ older, (t, m0) ∈ log) (hids : FragIdsOK m) (hp : Prov log.length older m) :
    ObjOK ((t, { m with etag := etag }) :: log) := by
  -- facts about a fragment of the new manifest
  have newFile : ∀ f ∈ m.frags, f.file ≤ log.length := by
    intro f hf
    rcases hp.frag f hf with ⟨h1, _⟩ | ⟨m0, hm0, f0, hf0, _, hfile, _⟩
    · omega
    · have := h.fileLt _ (hold m0 hm0) f0 hf0; omega
  have newDel : ∀ f ∈ m.frags, ∀ d, f.del = some d → d.id ≤ log.length := by
    intro f hf d hd
    rcases hp.frag f hf with ⟨_, h2⟩ | ⟨m0, hm0, f0, hf0, _, _, _, _, hdel | ⟨d', hd', hid⟩⟩
    · rw [h2] at hd; cases hd
    · rw [hdel] at hd; have := h.delLt _ (hold m0 hm0) f0 hf0 d hd; omega
    · rw [hd'] at hd; cases hd; omega
  have newIdx : ∀ i ∈ m.indices, i.uuid ≤ log.length := by
    intro i hi
    rcases hp.idx i hi with ⟨h1, _⟩ | ⟨m0, hm0, hi0⟩
    · omega
    · have := h.idxLt _ (hold m0 hm0) i hi0; omega
  -- new against old
  have fileNO : ∀ f ∈ m.frags, ∀ e' ∈ log, ∀ f' ∈ e'.2.frags, f.id = f'.id → f.file = f'.file →
      f.vals = f'.vals ∧ f.rids = f'.rids := by
    intro f hf e' he' f' hf' hid hfile
    rcases hp.frag f hf with ⟨h1, _⟩ | ⟨m0, hm0, f0, hf0, hid0, hfile0, hv0, hr0, _⟩
    · have := h.fileLt e' he' f' hf'; omega
    · have := h.fileFun _ (hold m0 hm0) e' he' f0 hf0 f' hf' (by omega) (by omega)
      rw [← hv0, ← hr0]; exact this
  have delNO : ∀ f ∈ m.frags, ∀ e' ∈ log, ∀ f' ∈ e'.2.frags, ∀ d d', f.id = f'.id → f.del = some d →
      f'.del = some d' → d.id = d'.id → d = d' := by
    intro f hf e' he' f' hf' d d' hid hd hd' hdid
    rcases hp.frag f hf with ⟨_, h2⟩ | ⟨m0, hm0, f0, hf0, hid0, _, _, _, hdel | ⟨d2, hd2, hid2⟩⟩
    · rw [h2] at hd; cases hd
    · rw [hdel] at hd
      exact h.delFun _ (hold m0 hm0) e' he' f0 hf0 f' hf' d d' (by omega) hd hd' hdid
    · rw [hd2] at hd; cases hd
      have := h.delLt e' he' f' hf' d' hd'; omega
  have idxNO : ∀ i ∈ m.indices, ∀ e' ∈ log, ∀ i' ∈ e'.2.indices, i.uuid = i'.uuid → i = i' := by
    intro i hi e' he' i' hi' hu
    rcases hp.idx i hi with ⟨h1, _⟩ | ⟨m0, hm0, hi0⟩
    · have := h.idxLt e' he' i' hi'; omega
    · exact h.idxFun _ (hold m0 hm0) e' he' i hi0 i' hi' hu
  constructor
  · intro e he f hf
    simp only [List.mem_cons] at he
    simp only [List.length_cons]
    rcases he with he | he
    · subst he; have := newFile f hf; omega
    · have := h.fileLt e he f hf; omega
  · intro e he f hf d hd
    simp only [List.mem_cons] at he
    simp only [List.length_cons]
    rcases he with he | he
    · subst he; have := newDel f hf d hd; omega
    · have := h.delLt e he f hf d hd; omega
  · intro e he i hi
    simp only [List.mem_cons] at he
    simp only [List.length_cons]
    rcases he with he | he
    · subst he; have := newIdx i hi; omega
    · have := h.idxLt e he i hi; omega
  · intro e he e' he' f hf f' hf' hid hfile
    simp only [List.mem_cons] at he he'
    rcases he with he | he <;> rcases he' with he' | he'
    · subst he; subst he'
      have := frag_id_inj hids hf hf' hid
      subst this; exact ⟨rfl, rfl⟩
    · subst he; exact fileNO f hf e' he' f' hf' hid hfile
    · subst he'
      have := fileNO f' hf' e he f hf hid.symm hfile.symm
      exact ⟨this.1.symm, this.2.symm⟩
    · exact h.fileFun e he e' he' f hf f' hf' hid hfile
  · intro e he e' he' f hf f' hf' d d' hid hd hd' hdid
    simp only [List.mem_cons] at he he'
    rcases he with he | he <;> rcases he' with he' | he'
    · subst he; subst he'
      have := frag_id_inj hids hf hf' hid
      subst this; rw [hd] at hd'; cases hd'; rfl
    · subst he; exact delNO f hf e' he' f' hf' d d' hid hd hd' hdid
    · subst he'; exact (delNO f' hf' e he f hf d' d hid.symm hd' hd hdid.symm).symm
    · exact h.delFun e he e' he' f hf f' hf' d d' hid hd hd' hdid
  · intro e he e' he' i hi i' hi' hu
    simp only [List.mem_cons] at he he'
    rcases he with he | he <;> rcases he' with he' | he'
    · subst he; subst he'
      rcases hp.idx i hi with ⟨_, h2⟩ | ⟨m0, hm0, hi0⟩
      · simp only at hi'; rw [h2] at hi'; simp only [List.mem_cons, List.not_mem_nil, or_false] at hi'; exact hi'.symm
      · rcases hp.idx i' hi' with ⟨_, h2'⟩ | ⟨m0', hm0', hi0'⟩
        · simp only at hi; rw [h2'] at hi; simp only [List.mem_cons, List.not_mem_nil, or_false] at hi; exact hi
        · exact h.idxFun _ (hold m0 hm0) _ (hold m0' hm0') i hi0 i' hi0' hu
    · subst he; exact idxNO i hi e' he' i' hi' hu
    · subst he'; exact (idxNO i' hi' e he i hi hu.symm).symm
    · exact h.idxFun e he e' he' i hi i' hi' hu

/-- all the invariants that hold in EVERY history -/
structure Good (w : World) : Prop where
  etag : EtagOK w.log
  tabs : TabsInLog w
  ids : LogFragIdsOK w
  obj : ObjOK w.log

theorem good_init : Good World.init := by
  refine ⟨trivial, ?_, ?_, objOK_nil⟩
  · intro t ms m h; cases h
  · intro e he; cases he

theorem good_step (w : World) (op : Op) (h : Good w) : Good (step w op).1 := by
  refine ⟨etagOK_step w op h.etag, tabsInLog_step w op h.tabs, logFragIdsOK_step w op h.tabs h.ids, ?_⟩
  rcases step_shape w op with ⟨hs, _⟩ | ⟨t, _, hs⟩ | ⟨t, older, m, nv, ⟨hold, _, _, _, hmade⟩, hs⟩ <;> rw [hs]
  · exact h.obj
  · exact h.obj
  · have hold' : ∀ m0 ∈ older, (t, m0) ∈ w.log := by
      intro m0 hm0
      rcases hold with hold | ⟨_, hold, _⟩
      · exact h.tabs t older m0 hold hm0
      · subst hold; cases hm0
    exact objOK_push h.obj hold' (fragIdsOK_made hmade (fun m0 hm0 => h.ids _ (hold' m0 hm0))) (prov_made hmade)

theorem good_run (ops : List Op) : ∀ w : World, Good w → Good (run w ops) := by
  induction ops with
  | nil => intro w h; exact h
  | cons op r ih => intro w h; exact ih _ (good_step w op h)

end LanceModel.C38
