import LanceModel.C38.Model
/-
C38: the cache lemma.  If every two loads / inserts of the same key carry the same value, then reading through the cache
gives what the loaders give — from any cache content that is itself consistent with the loads, under any eviction.
-/
namespace LanceModel.C38

variable {κ ν : Type} [DecidableEq κ]

theorem cget_mem {c : List (κ × ν)} {k : κ} {v : ν} (h : cget c k = some v) : (k, v) ∈ c := by
  induction c with
  | nil => simp [cget] at h
  | cons e r ih =>
    obtain ⟨k', v'⟩ := e
    simp only [cget] at h
    split at h
    · rename_i hk; cases h; subst hk; simp
    · exact List.mem_cons_of_mem _ (ih h)

theorem mem_cput {c : List (κ × ν)} {k k' : κ} {v v' : ν} (h : (k', v') ∈ cput c k v) :
    (k' = k ∧ v' = v) ∨ (k', v') ∈ c := by
  simp only [cput, List.mem_cons, List.mem_filter, Prod.mk.injEq] at h
  rcases h with h | h
  · exact Or.inl h
  · exact Or.inr h.1

omit [DecidableEq κ] in
theorem mem_cevict {c : List (κ × ν)} {keep : κ → Bool} {e : κ × ν} (h : e ∈ cevict c keep) : e ∈ c := by
  simp only [cevict, List.mem_filter] at h
  exact h.1

/-- a cache is consistent with the loads still to come -/
def Agrees (c : List (κ × ν)) (ops : List (CacheOp κ ν)) : Prop :=
  ∀ k v v', (k, v) ∈ c → (k, v') ∈ loads ops → v = v'

theorem transparent_from (ops : List (CacheOp κ ν)) :
    ∀ c : List (κ × ν), Functional (loads ops) → Agrees c ops → runCached c ops = runUncached ops := by
  induction ops with
  | nil => intro c _ _; rfl
  | cons op r ih =>
    intro c hf ha
    have hfr : Functional (loads r) := by
      intro k v v' h1 h2
      cases op <;> simp only [loads] at hf
      · exact hf k v v' (List.mem_cons_of_mem _ h1) (List.mem_cons_of_mem _ h2)
      · exact hf k v v' (List.mem_cons_of_mem _ h1) (List.mem_cons_of_mem _ h2)
      · exact hf k v v' h1 h2
    cases op with
    | read k load =>
      simp only [runCached, runUncached]
      cases hg : cget c k with
      | some v =>
        simp only
        have hv : v = load := ha k v load (cget_mem hg) (by simp [loads])
        rw [hv, ih c hfr]
        intro k1 v1 v1' h1 h2
        exact ha k1 v1 v1' h1 (by simp only [loads]; exact List.mem_cons_of_mem _ h2)
      | none =>
        simp only
        rw [ih (cput c k load) hfr]
        intro k1 v1 v1' h1 h2
        rcases mem_cput h1 with ⟨hk, hv⟩ | h1
        · subst hk; subst hv
          exact hf k1 v1 v1' (by simp [loads]) (by simp only [loads]; exact List.mem_cons_of_mem _ h2)
        · exact ha k1 v1 v1' h1 (by simp only [loads]; exact List.mem_cons_of_mem _ h2)
    | refresh k v =>
      simp only [runCached, runUncached]
      rw [ih (cput c k v) hfr]
      intro k1 v1 v1' h1 h2
      rcases mem_cput h1 with ⟨hk, hv⟩ | h1
      · subst hk; subst hv
        exact hf k1 v1 v1' (by simp [loads]) (by simp only [loads]; exact List.mem_cons_of_mem _ h2)
      · exact ha k1 v1 v1' h1 (by simp only [loads]; exact List.mem_cons_of_mem _ h2)
    | evict keep =>
      simp only [runCached, runUncached]
      rw [ih (cevict c keep) hfr]
      intro k1 v1 v1' h1 h2
      exact ha k1 v1 v1' (mem_cevict h1) (by simpa only [loads] using h2)

/-- a refreshed key reads back the refreshed value whatever the cache held before and whatever is evicted in between -/
theorem read_after_refresh_aux (c : List (κ × ν)) (k : κ) (v : ν) (keep : κ → Bool) :
    runCached c [.refresh k v, .evict keep, .read k v] = [v] := by
  simp only [runCached]
  cases hg : cget (cevict (cput c k v) keep) k with
  | none => rfl
  | some v' =>
    simp only
    have h1 := mem_cevict (cget_mem hg)
    simp only [cput, List.mem_cons, List.mem_filter, Prod.mk.injEq, ne_eq, not_true_eq_false, decide_false,
      Bool.false_eq_true, and_false, or_false, true_and] at h1
    rw [h1]

end LanceModel.C38
