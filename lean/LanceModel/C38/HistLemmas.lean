import LanceModel.C38.Model
/-
C38: invariants of the table histories that make keys determine values.
  * `EtagOK`   every published manifest carries its own e-tag                       (all histories)
  * `VersOK`   at one location a version number names one manifest                  (histories that never re-create a location)
-/
namespace LanceModel.C38

/-! ### lookup helpers -/

theorem getTab_dropTab_self (tabs : List (Nat × List Manifest)) (t : Nat) : getTab (dropTab tabs t) t = none := by
  induction tabs with
  | nil => rfl
  | cons e r ih =>
    obtain ⟨t', ms⟩ := e
    by_cases h : t' = t
    · simp [dropTab, List.filter_cons, h] at ih ⊢; exact ih
    · simp only [dropTab, List.filter_cons, ne_eq, h, not_false_eq_true, decide_true, ↓reduceIte, getTab] at ih ⊢
      exact ih

theorem getTab_dropTab_ne (tabs : List (Nat × List Manifest)) {t t' : Nat} (h : t' ≠ t) :
    getTab (dropTab tabs t) t' = getTab tabs t' := by
  induction tabs with
  | nil => rfl
  | cons e r ih =>
    obtain ⟨t'', ms⟩ := e
    by_cases h2 : t'' = t
    · subst h2
      have : ¬ t'' = t' := fun x => h x.symm
      simp only [dropTab, List.filter_cons, ne_eq, not_true_eq_false, decide_false, Bool.false_eq_true, ↓reduceIte,
        getTab, this] at ih ⊢
      exact ih
    · simp only [dropTab, List.filter_cons, ne_eq, h2, not_false_eq_true, decide_true, ↓reduceIte, getTab] at ih ⊢
      rw [ih]

theorem getTab_publish (w : World) (t : Nat) (older : List Manifest) (m : Manifest) (nv t' : Nat) :
    getTab (publish w t older m nv).tabs t' =
      if t = t' then some ({ m with etag := w.log.length } :: older) else getTab w.tabs t' := by
  by_cases h : t = t'
  · simp [publish, getTab, h]
  · simp only [publish, getTab, h, ↓reduceIte]
    exact getTab_dropTab_ne _ (fun x => h x.symm)

/-! ### the shape of one step: nothing, a drop, or one publish -/

/-- how the manifest published by a step was made -/
inductive Made (w : World) : List Manifest → Manifest → Prop where
  | create (s : Bool) (f n : Nat) : Made w [] (createM w s f n)
  | append (l : Manifest) (older : List Manifest) (f n : Nat) : Made w (l :: older) (appendM w l f n)
  | overwrite (l : Manifest) (older : List Manifest) (f n : Nat) : Made w (l :: older) (overwriteM w l f n)
  | delete (l : Manifest) (older : List Manifest) (lo hi : Nat) : Made w (l :: older) (deleteM w l lo hi)
  | restore (l : Manifest) (older : List Manifest) (old : Manifest) (v : Nat) :
      old ∈ l :: older → Made w (l :: older) (restoreM w l old v)
  | index (l : Manifest) (older : List Manifest) : Made w (l :: older) (indexM w l)

def PubOK (w : World) (op : Op) (t : Nat) (older : List Manifest) (m : Manifest) : Prop :=
  (getTab w.tabs t = some older ∨ (getTab w.tabs t = none ∧ older = [] ∧ ∃ s f n, op = .create t s f n)) ∧
  (∀ l r, older = l :: r → m.version = l.version + 1) ∧ (older = [] → m.version = 1) ∧ (∀ t', op ≠ .drop t') ∧
  Made w older m

theorem pubOK_existing {w : World} {op : Op} {t : Nat} {l : Manifest} {older : List Manifest} {m : Manifest}
    (hg : getTab w.tabs t = some (l :: older)) (hv : m.version = l.version + 1) (hnd : ∀ t', op ≠ .drop t')
    (hm : Made w (l :: older) m) : PubOK w op t (l :: older) m := by
  refine ⟨Or.inl hg, ?_, ?_, hnd, hm⟩
  · intro l' r h; cases h; exact hv
  · intro h; cases h

theorem step_shape (w : World) (op : Op) :
    ((step w op).1 = w ∧ ∀ t, op = .drop t → getTab w.tabs t = none) ∨
    (∃ t, op = .drop t ∧ (step w op).1 = { w with tabs := dropTab w.tabs t }) ∨
    (∃ t older m nv, PubOK w op t older m ∧ (step w op).1 = publish w t older m nv) := by
  have nd : ∀ {o : Op}, (∀ t, o ≠ .drop t) → ∀ t, o = .drop t → getTab w.tabs t = none := by
    intro o h t h2; exact absurd h2 (h t)
  cases op with
  | create t stable f n =>
    simp only [step]
    split
    · exact .inl ⟨rfl, nd (by intro t h; cases h)⟩
    · rename_i hg
      split
      · exact .inl ⟨rfl, nd (by intro t h; cases h)⟩
      · refine .inr (.inr ⟨t, [], _, _, ⟨Or.inr ⟨hg, rfl, _, _, _, rfl⟩, ?_, ?_, ?_, .create _ _ _⟩, rfl⟩)
        · intro l r h; cases h
        · intro _; rfl
        · intro t' h; cases h
  | append t f n =>
    simp only [step]
    split
    · exact .inl ⟨rfl, nd (by intro t h; cases h)⟩
    · exact .inl ⟨rfl, nd (by intro t h; cases h)⟩
    · rename_i l older hg
      split
      · exact .inl ⟨rfl, nd (by intro t h; cases h)⟩
      · exact .inr (.inr ⟨t, _, _, _, pubOK_existing hg rfl (by intro t' h; cases h) (.append _ _ _ _), rfl⟩)
  | overwrite t f n =>
    simp only [step]
    split
    · exact .inl ⟨rfl, nd (by intro t h; cases h)⟩
    · exact .inl ⟨rfl, nd (by intro t h; cases h)⟩
    · rename_i l older hg
      split
      · exact .inl ⟨rfl, nd (by intro t h; cases h)⟩
      · exact .inr (.inr ⟨t, _, _, _, pubOK_existing hg rfl (by intro t' h; cases h) (.overwrite _ _ _ _), rfl⟩)
  | delete t lo hi =>
    simp only [step]
    split
    · exact .inl ⟨rfl, nd (by intro t h; cases h)⟩
    · exact .inl ⟨rfl, nd (by intro t h; cases h)⟩
    · rename_i l older hg
      exact .inr (.inr ⟨t, _, _, _, pubOK_existing hg rfl (by intro t' h; cases h) (.delete _ _ _ _), rfl⟩)
  | restore t v =>
    simp only [step]
    split
    · exact .inl ⟨rfl, nd (by intro t h; cases h)⟩
    · exact .inl ⟨rfl, nd (by intro t h; cases h)⟩
    · rename_i l older hg
      split
      · exact .inl ⟨rfl, nd (by intro t h; cases h)⟩
      · exact .inr (.inr ⟨t, _, _, _, pubOK_existing hg rfl (by intro t' h; cases h) (.restore _ _ _ _ (List.mem_of_find?_eq_some (by assumption))), rfl⟩)
  | index t =>
    simp only [step]
    split
    · exact .inl ⟨rfl, nd (by intro t h; cases h)⟩
    · exact .inl ⟨rfl, nd (by intro t h; cases h)⟩
    · rename_i l older hg
      exact .inr (.inr ⟨t, _, _, _, pubOK_existing hg rfl (by intro t' h; cases h) (.index _ _), rfl⟩)
  | drop t =>
    simp only [step]
    split
    · rename_i hg
      exact .inl ⟨rfl, by intro t' h; cases h; exact hg⟩
    · exact .inr (.inl ⟨t, rfl, rfl⟩)

/-! ### e-tags -/

def EtagOK : List (Nat × Manifest) → Prop
  | [] => True
  | e :: r => e.2.etag = r.length ∧ EtagOK r

theorem etag_lt {log : List (Nat × Manifest)} (h : EtagOK log) {e : Nat × Manifest} (he : e ∈ log) :
    e.2.etag < log.length := by
  induction log with
  | nil => cases he
  | cons x r ih =>
    simp only [EtagOK] at h
    simp only [List.mem_cons] at he
    rcases he with he | he
    · subst he; simp only [List.length_cons]; omega
    · have := ih h.2 he; simp only [List.length_cons]; omega

theorem etag_inj {log : List (Nat × Manifest)} (h : EtagOK log) {e e' : Nat × Manifest} (he : e ∈ log)
    (he' : e' ∈ log) (heq : e.2.etag = e'.2.etag) : e = e' := by
  induction log with
  | nil => cases he
  | cons x r ih =>
    simp only [EtagOK] at h
    simp only [List.mem_cons] at he he'
    rcases he with he | he <;> rcases he' with he' | he'
    · rw [he, he']
    · subst he; have := etag_lt h.2 he'; omega
    · subst he'; have := etag_lt h.2 he; omega
    · exact ih h.2 he he'

theorem etagOK_step (w : World) (op : Op) (h : EtagOK w.log) : EtagOK (step w op).1.log := by
  rcases step_shape w op with ⟨hs, _⟩ | ⟨t, _, hs⟩ | ⟨t, older, m, nv, _, hs⟩ <;> rw [hs]
  · exact h
  · exact h
  · exact ⟨rfl, h⟩

theorem etagOK_run (ops : List Op) : ∀ w : World, EtagOK w.log → EtagOK (run w ops).log := by
  induction ops with
  | nil => intro w h; exact h
  | cons op r ih => intro w h; exact ih _ (etagOK_step w op h)

/-! ### the log only grows; the live tables are in the log -/

theorem log_step_suffix (w : World) (op : Op) : ∃ pre, (step w op).1.log = pre ++ w.log := by
  rcases step_shape w op with ⟨hs, _⟩ | ⟨t, _, hs⟩ | ⟨t, older, m, nv, _, hs⟩ <;> rw [hs]
  · exact ⟨[], rfl⟩
  · exact ⟨[], rfl⟩
  · exact ⟨[_], rfl⟩

theorem log_run_suffix (ops : List Op) : ∀ w : World, ∃ pre, (run w ops).log = pre ++ w.log := by
  induction ops with
  | nil => intro w; exact ⟨[], rfl⟩
  | cons op r ih =>
    intro w
    obtain ⟨p1, h1⟩ := ih (step w op).1
    obtain ⟨p2, h2⟩ := log_step_suffix w op
    exact ⟨p1 ++ p2, by simp only [run]; rw [h1, h2, List.append_assoc]⟩

/-- every version of a live table is in the log -/
def TabsInLog (w : World) : Prop := ∀ t ms m, getTab w.tabs t = some ms → m ∈ ms → (t, m) ∈ w.log

theorem tabsInLog_step (w : World) (op : Op) (h : TabsInLog w) : TabsInLog (step w op).1 := by
  rcases step_shape w op with ⟨hs, _⟩ | ⟨t, _, hs⟩ | ⟨t, older, m, nv, ⟨hold, _⟩, hs⟩ <;> rw [hs]
  · exact h
  · intro t' ms m hg hm
    by_cases ht : t' = t
    · subst ht; simp only [getTab_dropTab_self] at hg; cases hg
    · simp only [getTab_dropTab_ne _ ht] at hg; exact h t' ms m hg hm
  · intro t' ms m' hg hm
    rw [getTab_publish] at hg
    split at hg
    · rename_i ht; subst ht
      cases hg
      simp only [List.mem_cons] at hm
      rcases hm with hm | hm
      · subst hm; simp [publish]
      · simp only [publish, List.mem_cons]
        right
        rcases hold with hold | ⟨_, hold, _⟩
        · exact h t older m' hold hm
        · subst hold; cases hm
    · simp only [publish, List.mem_cons]
      right
      exact h t' ms m' hg hm

theorem tabsInLog_run (ops : List Op) : ∀ w : World, TabsInLog w → TabsInLog (run w ops) := by
  induction ops with
  | nil => intro w h; exact h
  | cons op r ih => intro w h; exact ih _ (tabsInLog_step w op h)

theorem getTab_mem {tabs : List (Nat × List Manifest)} {t : Nat} {ms : List Manifest} (h : getTab tabs t = some ms) :
    (t, ms) ∈ tabs := by
  induction tabs with
  | nil => cases h
  | cons e r ih =>
    obtain ⟨t', ms'⟩ := e
    simp only [getTab] at h
    split at h
    · rename_i ht; cases h; subst ht; exact List.mem_cons_self ..
    · exact List.mem_cons_of_mem _ (ih h)

/-- every version of every entry of `tabs` is in the log -/
def AllTabsInLog (w : World) : Prop := ∀ t ms m, (t, ms) ∈ w.tabs → m ∈ ms → (t, m) ∈ w.log

theorem allTabsInLog_step (w : World) (op : Op) (h : AllTabsInLog w) : AllTabsInLog (step w op).1 := by
  rcases step_shape w op with ⟨hs, _⟩ | ⟨t, _, hs⟩ | ⟨t, older, m, nv, ⟨hold, _⟩, hs⟩ <;> rw [hs]
  · exact h
  · intro t' ms m hg hm
    simp only [dropTab, List.mem_filter] at hg
    exact h t' ms m hg.1 hm
  · intro t' ms m' hg hm
    simp only [publish, List.mem_cons, Prod.mk.injEq] at hg ⊢
    rcases hg with ⟨rfl, rfl⟩ | hg
    · simp only [List.mem_cons] at hm
      rcases hm with hm | hm
      · left; exact ⟨rfl, hm⟩
      · right
        rcases hold with hold | ⟨_, hold, _⟩
        · exact h _ older m' (getTab_mem hold) hm
        · subst hold; cases hm
    · right
      simp only [dropTab, List.mem_filter] at hg
      exact h t' ms m' hg.1 hm

/-! ### version numbers (no location is created twice) -/

def logOf (t : Nat) (log : List (Nat × Manifest)) : List Manifest := (log.filter (fun e => decide (e.1 = t))).map (·.2)

def Decr (ms : List Manifest) : Prop := ms.Pairwise (fun a b => b.version < a.version)

structure VersOK (w : World) (dropped : List Nat) : Prop where
  gone : ∀ t, t ∈ dropped → getTab w.tabs t = none
  cur : ∀ t, t ∉ dropped → logOf t w.log = (getTab w.tabs t).getD []
  decr : ∀ t, Decr (logOf t w.log)

def droppedAfter (dropped : List Nat) : Op → List Nat
  | .drop t => t :: dropped
  | _ => dropped

theorem noRecreate_cons (dropped : List Nat) (op : Op) (r : List Op) (h : noRecreate dropped (op :: r) = true) :
    noRecreate (droppedAfter dropped op) r = true ∧ (∀ t s f n, op = .create t s f n → t ∉ dropped) := by
  cases op <;> simp_all [noRecreate, droppedAfter]
  intro t
  constructor <;> (intro f n h1 _ _ _; subst h1; exact h.1)

theorem logOf_cons_self (t : Nat) (m : Manifest) (log : List (Nat × Manifest)) :
    logOf t ((t, m) :: log) = m :: logOf t log := by
  simp [logOf, List.filter_cons]

theorem logOf_cons_ne {t t' : Nat} (m : Manifest) (log : List (Nat × Manifest)) (h : t' ≠ t) :
    logOf t ((t', m) :: log) = logOf t log := by
  simp [logOf, List.filter_cons, h]

theorem versOK_step (w : World) (op : Op) (dropped : List Nat) (h : VersOK w dropped)
    (hc : ∀ t s f n, op = .create t s f n → t ∉ dropped) : VersOK (step w op).1 (droppedAfter dropped op) := by
  rcases step_shape w op with ⟨hs, hdrop⟩ | ⟨t, ht, hs⟩ | ⟨t, older, m, nv, ⟨hold, hv, hv1, hnodrop, _⟩, hs⟩ <;> rw [hs]
  · cases op <;> try exact h
    rename_i t
    simp only [droppedAfter]
    refine ⟨?_, ?_, h.decr⟩
    · intro t' ht'
      simp only [List.mem_cons] at ht'
      rcases ht' with ht' | ht'
      · subst ht'; exact hdrop _ rfl
      · exact h.gone t' ht'
    · intro t' ht'
      simp only [List.mem_cons, not_or] at ht'
      exact h.cur t' ht'.2
  · subst ht
    simp only [droppedAfter]
    refine ⟨?_, ?_, h.decr⟩
    · intro t' ht'
      simp only [List.mem_cons] at ht'
      by_cases hh : t' = t
      · subst hh; exact getTab_dropTab_self _ _
      · rcases ht' with ht' | ht'
        · exact absurd ht' hh
        · simp only; rw [getTab_dropTab_ne _ hh]; exact h.gone t' ht'
    · intro t' ht'
      simp only [List.mem_cons, not_or] at ht'
      simp only; rw [getTab_dropTab_ne _ ht'.1]; exact h.cur t' ht'.2
  · have hnd : t ∉ dropped := by
      rcases hold with hold | ⟨_, _, s, f, n, hop⟩
      · intro hd; rw [h.gone t hd] at hold; cases hold
      · exact hc t s f n hop
    have hd : droppedAfter dropped op = dropped := by
      cases op <;> first | rfl | exact absurd rfl (hnodrop _)
    rw [hd]
    have hcur : logOf t w.log = older := by
      rw [h.cur t hnd]
      rcases hold with hold | ⟨hold, ho, _⟩
      · rw [hold]; rfl
      · rw [hold, ho]; rfl
    refine ⟨?_, ?_, ?_⟩
    · intro t' ht'
      rw [getTab_publish]
      have : t ≠ t' := fun x => hnd (x ▸ ht')
      simp only [this, ↓reduceIte]
      exact h.gone t' ht'
    · intro t' ht'
      rw [getTab_publish]
      by_cases hh : t = t'
      · subst hh
        simp only [publish, ↓reduceIte, Option.getD_some, logOf_cons_self, hcur]
      · simp only [publish, hh, ↓reduceIte]
        rw [logOf_cons_ne _ _ hh]
        exact h.cur t' ht'
    · intro t'
      by_cases hh : t = t'
      · subst hh
        simp only [publish, logOf_cons_self, hcur]
        have hdec := h.decr t
        rw [hcur] at hdec
        cases older with
        | nil => simp [Decr]
        | cons l r =>
          simp only [Decr, List.pairwise_cons] at hdec ⊢
          refine ⟨?_, hdec⟩
          intro a ha
          have := hv l r rfl
          simp only [List.mem_cons] at ha
          rcases ha with ha | ha
          · subst ha; show a.version < m.version; omega
          · have := hdec.1 a ha; show a.version < m.version; omega
      · simp only [publish]
        rw [logOf_cons_ne _ _ hh]
        exact h.decr t'

theorem versOK_init : VersOK World.init [] := by
  refine ⟨?_, ?_, ?_⟩
  · intro t h; cases h
  · intro t _; rfl
  · intro t; simp [logOf, World.init, Decr]

theorem versOK_run (ops : List Op) : ∀ (w : World) (dropped : List Nat), VersOK w dropped →
    noRecreate dropped ops = true → ∃ d', VersOK (run w ops) d' := by
  induction ops with
  | nil => intro w d h _; exact ⟨d, h⟩
  | cons op r ih =>
    intro w d h hn
    obtain ⟨h1, h2⟩ := noRecreate_cons d op r hn
    exact ih _ _ (versOK_step w op d h h2) h1

theorem mem_logOf {t : Nat} {m : Manifest} {log : List (Nat × Manifest)} : m ∈ logOf t log ↔ (t, m) ∈ log := by
  simp only [logOf, List.mem_map, List.mem_filter, decide_eq_true_eq]
  constructor
  · rintro ⟨e, ⟨he, ht⟩, hm⟩; obtain ⟨a, b⟩ := e; simp only at ht hm; subst ht; subst hm; exact he
  · intro h; exact ⟨(t, m), ⟨h, rfl⟩, rfl⟩

/-- one version number, one manifest -/
theorem decr_version_inj {ms : List Manifest} (h : Decr ms) {a b : Manifest} (ha : a ∈ ms) (hb : b ∈ ms)
    (hv : a.version = b.version) : a = b := by
  induction ms with
  | nil => cases ha
  | cons x r ih =>
    simp only [Decr, List.pairwise_cons] at h
    simp only [List.mem_cons] at ha hb
    rcases ha with ha | ha <;> rcases hb with hb | hb
    · rw [ha, hb]
    · subst ha; have := h.1 b hb; omega
    · subst hb; have := h.1 a ha; omega
    · exact ih h.2 ha hb

end LanceModel.C38
