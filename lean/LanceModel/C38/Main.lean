import LanceModel.C38.Driver
def main : IO Unit := LanceModel.Util.runDriver LanceModel.C38.Driver.step LanceModel.C38.Driver.St.init
