import LanceModel.C38.CacheLemmas
import LanceModel.C38.KeyLemmas
/-
C38 — caching is transparent: "Results read through a session are the same with any cache capacity (none, tiny with
eviction, large) as with caching disabled, including when a table is deleted and re-created at the same location within the
session and when several tables share the session."
-/
namespace LanceModel.C38

/-! ## the cache lemma (any key and value types, any eviction) -/

/-- If in a session history every two loads (or inserts) with equal keys carry equal values, every read through the cache
    returns what the loader returns — whatever is evicted, whenever. -/
theorem transparent_of_key_determines_value {κ ν : Type} [DecidableEq κ] (ops : List (CacheOp κ ν))
    (h : Functional (loads ops)) : runCached [] ops = runUncached ops :=
  transparent_from ops [] h (by intro k v v' hm; cases hm)

example : Functional (loads [CacheOp.read 1 10, .evict (fun _ => false), .read 1 10, .refresh 2 5, .read 2 5]) := by
  intro k v v' h1 h2
  simp [loads] at h1 h2
  omega

/-- the hypothesis is needed: one stale entry and the cached read differs -/
theorem transparent_needs_key_determines_value :
    runCached [] [CacheOp.read 1 10, .read 1 11] ≠ runUncached [CacheOp.read 1 10, .read 1 11] := by decide

/-- `insert_with_key` followed by a read of the same key returns the inserted value from any cache state and under any
    eviction in between (why a stale `TransactionKey` entry is never served: `load_manifest` and `commit_transaction`
    re-insert the transaction of the version they touch before anything reads it). -/
theorem read_after_refresh {κ ν : Type} [DecidableEq κ] (c : List (κ × ν)) (k : κ) (v : ν) (keep : κ → Bool) :
    runCached c [.refresh k v, .evict keep, .read k v] = [v] := read_after_refresh_aux c k v keep

/-! ## keys determine values: one statement per key type, over every history of the tables

`L ops` is everything that could ever be loaded through a session during the history `ops` (dropped tables included). -/

def L (ops : List Op) : List (Key × Val) := logEntries true (run World.init ops).log

theorem etagOK_L (ops : List Op) : EtagOK (run World.init ops).log := etagOK_run ops _ trivial

/-- `ManifestKey { version, e_tag }`: holds in EVERY history (drop and re-create included) -/
theorem key_determines_value_ManifestKey (ops : List Op) (t v e : Nat) (x x' : Val)
    (h : (Key.manifest t v e, x) ∈ L ops) (h' : (Key.manifest t v e, x') ∈ L ops) : x = x' := by
  obtain ⟨t1, m1, hm1, h1⟩ := mem_logEntries.mp h
  obtain ⟨t2, m2, hm2, h2⟩ := mem_logEntries.mp h'
  rw [mem_entriesOf_manifest] at h1 h2
  have := etag_inj (etagOK_L ops) hm1 hm2 (by simp only; rw [← h1.2.2.1, ← h2.2.2.1])
  cases this
  rw [h1.2.2.2, h2.2.2.2]

/-- at one location a version number names one manifest, as long as no location is created again after a drop -/
theorem version_determines_manifest_partial (ops : List Op) (hn : noRecreate [] ops = true) (t : Nat) (m m' : Manifest)
    (h : (t, m) ∈ (run World.init ops).log) (h' : (t, m') ∈ (run World.init ops).log) (hv : m.version = m'.version) :
    m = m' := by
  obtain ⟨d, hok⟩ := versOK_run ops World.init [] versOK_init hn
  exact decr_version_inj (hok.decr t) (mem_logOf.mpr h) (mem_logOf.mpr h') hv

/-- `TransactionKey { version }` -/
theorem key_determines_value_TransactionKey_partial (ops : List Op) (hn : noRecreate [] ops = true) (t v : Nat)
    (x x' : Val) (h : (Key.txn t v, x) ∈ L ops) (h' : (Key.txn t v, x') ∈ L ops) : x = x' := by
  obtain ⟨t1, m1, hm1, h1⟩ := mem_logEntries.mp h
  obtain ⟨t2, m2, hm2, h2⟩ := mem_logEntries.mp h'
  rw [mem_entriesOf_txn] at h1 h2
  obtain ⟨rfl, hv1, rfl⟩ := h1
  obtain ⟨rfl, hv2, rfl⟩ := h2
  rw [version_determines_manifest_partial ops hn _ m1 m2 hm1 hm2 (by omega)]

/-- `IndexMetadataKey { version }` -/
theorem key_determines_value_IndexMetadataKey_partial (ops : List Op) (hn : noRecreate [] ops = true) (t v : Nat)
    (x x' : Val) (h : (Key.indexMeta t v, x) ∈ L ops) (h' : (Key.indexMeta t v, x') ∈ L ops) : x = x' := by
  obtain ⟨t1, m1, hm1, h1⟩ := mem_logEntries.mp h
  obtain ⟨t2, m2, hm2, h2⟩ := mem_logEntries.mp h'
  rw [mem_entriesOf_indexMeta] at h1 h2
  obtain ⟨rfl, hv1, rfl⟩ := h1
  obtain ⟨rfl, hv2, rfl⟩ := h2
  rw [version_determines_manifest_partial ops hn _ m1 m2 hm1 hm2 (by omega)]

/-- `RowIdMaskKey { version }` -/
theorem key_determines_value_RowIdMaskKey_partial (ops : List Op) (hn : noRecreate [] ops = true) (t v : Nat)
    (x x' : Val) (h : (Key.rowIdMask t v, x) ∈ L ops) (h' : (Key.rowIdMask t v, x') ∈ L ops) : x = x' := by
  obtain ⟨t1, m1, hm1, h1⟩ := mem_logEntries.mp h
  obtain ⟨t2, m2, hm2, h2⟩ := mem_logEntries.mp h'
  rw [mem_entriesOf_rowIdMask] at h1 h2
  obtain ⟨_, rfl, hv1, rfl⟩ := h1
  obtain ⟨_, rfl, hv2, rfl⟩ := h2
  rw [version_determines_manifest_partial ops hn _ m1 m2 hm1 hm2 (by omega)]

/-- `RowIdIndexKey { version }` -/
theorem key_determines_value_RowIdIndexKey_partial (ops : List Op) (hn : noRecreate [] ops = true) (t v : Nat)
    (x x' : Val) (h : (Key.rowIdIndex t v, x) ∈ L ops) (h' : (Key.rowIdIndex t v, x') ∈ L ops) : x = x' := by
  obtain ⟨t1, m1, hm1, h1⟩ := mem_logEntries.mp h
  obtain ⟨t2, m2, hm2, h2⟩ := mem_logEntries.mp h'
  rw [mem_entriesOf_rowIdIndex] at h1 h2
  obtain ⟨_, rfl, hv1, rfl⟩ := h1
  obtain ⟨_, rfl, hv2, rfl⟩ := h2
  rw [version_determines_manifest_partial ops hn _ m1 m2 hm1 hm2 (by omega)]

/-! ### counterexamples: drop a table and create it again at the same location -/

/-- create (3 rows, stable row ids), create index, drop, create (2 rows), append: versions 1 and 2 exist twice -/
def recreateHistory : List Op :=
  [.create 0 true 2 3, .index 0, .drop 0, .create 0 true 2 2, .append 0 2 1]

example : noRecreate [] recreateHistory = false := by decide
example : noRecreate [] [.create 0 true 2 3, .index 0, .drop 0, .create 1 true 2 2] = true := by decide

theorem key_determines_value_TransactionKey_counterexample :
    ¬ ∀ (ops : List Op) (t v : Nat) (x x' : Val), (Key.txn t v, x) ∈ L ops → (Key.txn t v, x') ∈ L ops → x = x' := by
  intro h
  have := h recreateHistory 0 1 (.txn { uuid := 0, kind := .overwrite, readVersion := 0, arg := 0 })
    (.txn { uuid := 2, kind := .overwrite, readVersion := 0, arg := 0 }) (by decide) (by decide)
  cases this

theorem key_determines_value_IndexMetadataKey_counterexample :
    ¬ ∀ (ops : List Op) (t v : Nat) (x x' : Val),
      (Key.indexMeta t v, x) ∈ L ops → (Key.indexMeta t v, x') ∈ L ops → x = x' := by
  intro h
  have := h recreateHistory 0 2 (.indexMeta [{ uuid := 1, frags := [0, 1], content := [0, 1, 2] }]) (.indexMeta [])
    (by decide) (by decide)
  cases this

theorem key_determines_value_RowIdMaskKey_counterexample :
    ¬ ∀ (ops : List Op) (t v : Nat) (x x' : Val),
      (Key.rowIdMask t v, x) ∈ L ops → (Key.rowIdMask t v, x') ∈ L ops → x = x' := by
  intro h
  have := h recreateHistory 0 1 (.mask [0, 1, 2]) (.mask [0, 1]) (by decide) (by decide)
  cases this

theorem key_determines_value_RowIdIndexKey_counterexample :
    ¬ ∀ (ops : List Op) (t v : Nat) (x x' : Val),
      (Key.rowIdIndex t v, x) ∈ L ops → (Key.rowIdIndex t v, x') ∈ L ops → x = x' := by
  intro h
  have := h recreateHistory 0 1 (.ridIndex [(0, 0, 0), (1, 0, 1), (2, 1, 0)]) (.ridIndex [(0, 0, 0), (1, 0, 1)])
    (by decide) (by decide)
  cases this

end LanceModel.C38
