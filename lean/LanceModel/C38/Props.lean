import LanceModel.C38.CacheLemmas
import LanceModel.C38.KeyLemmas
import LanceModel.C38.FragLemmas
/-
C38 — caching is transparent: "Results read through a session are the same with any cache capacity (none, tiny with
eviction, large) as with caching disabled, including when a table is deleted and re-created at the same location within the
session and when several tables share the session."
-/
namespace LanceModel.C38

/-! ## the cache lemma (any key and value types, any eviction) -/

/-- If in a session history every two loads (or inserts) with equal keys carry equal values, every read through the cache
    returns what the loader returns — whatever is evicted, whenever. -/
theorem transparent_of_key_determines_value {κ ν : Type} [DecidableEq κ] (ops : List (CacheOp κ ν))
    (h : Functional (loads ops)) : runCached [] ops = runUncached ops :=
  transparent_from ops [] h (by intro k v v' hm; cases hm)

example : Functional (loads [CacheOp.read 1 10, .evict (fun _ => false), .read 1 10, .refresh 2 5, .read 2 5]) := by
  intro k v v' h1 h2
  simp [loads] at h1 h2
  omega

/-- the hypothesis is needed: one stale entry and the cached read differs -/
theorem transparent_needs_key_determines_value :
    runCached [] [CacheOp.read 1 10, .read 1 11] ≠ runUncached [CacheOp.read 1 10, .read 1 11] := by decide

/-- `insert_with_key` followed by a read of the same key returns the inserted value from any cache state and under any
    eviction in between (why a stale `TransactionKey` entry is never served: `load_manifest` and `commit_transaction`
    re-insert the transaction of the version they touch before anything reads it). -/
theorem read_after_refresh {κ ν : Type} [DecidableEq κ] (c : List (κ × ν)) (k : κ) (v : ν) (keep : κ → Bool) :
    runCached c [.refresh k v, .evict keep, .read k v] = [v] := read_after_refresh_aux c k v keep

/-! ## keys determine values: one statement per key type, over every history of the tables

`L ops` is everything that could ever be loaded through a session during the history `ops` (dropped tables included). -/

def L (ops : List Op) : List (Key × Val) := logEntries true (run World.init ops).log

theorem etagOK_L (ops : List Op) : EtagOK (run World.init ops).log := etagOK_run ops _ trivial

/-- `ManifestKey { version, e_tag }`: holds in EVERY history (drop and re-create included) -/
theorem key_determines_value_ManifestKey (ops : List Op) (t v e : Nat) (x x' : Val)
    (h : (Key.manifest t v e, x) ∈ L ops) (h' : (Key.manifest t v e, x') ∈ L ops) : x = x' := by
  obtain ⟨t1, m1, hm1, h1⟩ := mem_logEntries.mp h
  obtain ⟨t2, m2, hm2, h2⟩ := mem_logEntries.mp h'
  rw [mem_entriesOf_manifest] at h1 h2
  have := etag_inj (etagOK_L ops) hm1 hm2 (by simp only; rw [← h1.2.2.1, ← h2.2.2.1])
  cases this
  rw [h1.2.2.2, h2.2.2.2]

/-- at one location a version number names one manifest, as long as no location is created again after a drop -/
theorem version_determines_manifest_partial (ops : List Op) (hn : noRecreate [] ops = true) (t : Nat) (m m' : Manifest)
    (h : (t, m) ∈ (run World.init ops).log) (h' : (t, m') ∈ (run World.init ops).log) (hv : m.version = m'.version) :
    m = m' := by
  obtain ⟨d, hok⟩ := versOK_run ops World.init [] versOK_init hn
  exact decr_version_inj (hok.decr t) (mem_logOf.mpr h) (mem_logOf.mpr h') hv

/-- `TransactionKey { version }` -/
theorem key_determines_value_TransactionKey_partial (ops : List Op) (hn : noRecreate [] ops = true) (t v : Nat)
    (x x' : Val) (h : (Key.txn t v, x) ∈ L ops) (h' : (Key.txn t v, x') ∈ L ops) : x = x' := by
  obtain ⟨t1, m1, hm1, h1⟩ := mem_logEntries.mp h
  obtain ⟨t2, m2, hm2, h2⟩ := mem_logEntries.mp h'
  rw [mem_entriesOf_txn] at h1 h2
  obtain ⟨rfl, hv1, rfl⟩ := h1
  obtain ⟨rfl, hv2, rfl⟩ := h2
  rw [version_determines_manifest_partial ops hn _ m1 m2 hm1 hm2 (by omega)]

/-- `IndexMetadataKey { version }` -/
theorem key_determines_value_IndexMetadataKey_partial (ops : List Op) (hn : noRecreate [] ops = true) (t v : Nat)
    (x x' : Val) (h : (Key.indexMeta t v, x) ∈ L ops) (h' : (Key.indexMeta t v, x') ∈ L ops) : x = x' := by
  obtain ⟨t1, m1, hm1, h1⟩ := mem_logEntries.mp h
  obtain ⟨t2, m2, hm2, h2⟩ := mem_logEntries.mp h'
  rw [mem_entriesOf_indexMeta] at h1 h2
  obtain ⟨rfl, hv1, rfl⟩ := h1
  obtain ⟨rfl, hv2, rfl⟩ := h2
  rw [version_determines_manifest_partial ops hn _ m1 m2 hm1 hm2 (by omega)]

/-- `RowIdMaskKey { version }` -/
theorem key_determines_value_RowIdMaskKey_partial (ops : List Op) (hn : noRecreate [] ops = true) (t v : Nat)
    (x x' : Val) (h : (Key.rowIdMask t v, x) ∈ L ops) (h' : (Key.rowIdMask t v, x') ∈ L ops) : x = x' := by
  obtain ⟨t1, m1, hm1, h1⟩ := mem_logEntries.mp h
  obtain ⟨t2, m2, hm2, h2⟩ := mem_logEntries.mp h'
  rw [mem_entriesOf_rowIdMask] at h1 h2
  obtain ⟨_, rfl, hv1, rfl⟩ := h1
  obtain ⟨_, rfl, hv2, rfl⟩ := h2
  rw [version_determines_manifest_partial ops hn _ m1 m2 hm1 hm2 (by omega)]

/-- `RowIdIndexKey { version }` -/
theorem key_determines_value_RowIdIndexKey_partial (ops : List Op) (hn : noRecreate [] ops = true) (t v : Nat)
    (x x' : Val) (h : (Key.rowIdIndex t v, x) ∈ L ops) (h' : (Key.rowIdIndex t v, x') ∈ L ops) : x = x' := by
  obtain ⟨t1, m1, hm1, h1⟩ := mem_logEntries.mp h
  obtain ⟨t2, m2, hm2, h2⟩ := mem_logEntries.mp h'
  rw [mem_entriesOf_rowIdIndex] at h1 h2
  obtain ⟨_, rfl, hv1, rfl⟩ := h1
  obtain ⟨_, rfl, hv2, rfl⟩ := h2
  rw [version_determines_manifest_partial ops hn _ m1 m2 hm1 hm2 (by omega)]

/-! ### counterexamples: drop a table and create it again at the same location -/

/-- create (3 rows, stable row ids), create index, drop, create (2 rows), append: versions 1 and 2 exist twice -/
def recreateHistory : List Op :=
  [.create 0 true 2 3, .index 0, .drop 0, .create 0 true 2 2, .append 0 2 1]

example : noRecreate [] recreateHistory = false := by decide
example : noRecreate [] [.create 0 true 2 3, .index 0, .drop 0, .create 1 true 2 2] = true := by decide

theorem key_determines_value_TransactionKey_counterexample :
    ¬ ∀ (ops : List Op) (t v : Nat) (x x' : Val), (Key.txn t v, x) ∈ L ops → (Key.txn t v, x') ∈ L ops → x = x' := by
  intro h
  have := h recreateHistory 0 1 (.txn { uuid := 0, kind := .overwrite, readVersion := 0, arg := 0 })
    (.txn { uuid := 2, kind := .overwrite, readVersion := 0, arg := 0 }) (by decide) (by decide)
  cases this

theorem key_determines_value_IndexMetadataKey_counterexample :
    ¬ ∀ (ops : List Op) (t v : Nat) (x x' : Val),
      (Key.indexMeta t v, x) ∈ L ops → (Key.indexMeta t v, x') ∈ L ops → x = x' := by
  intro h
  have := h recreateHistory 0 2 (.indexMeta [{ uuid := 1, frags := [0, 1], content := [0, 1, 2] }]) (.indexMeta [])
    (by decide) (by decide)
  cases this

theorem key_determines_value_RowIdMaskKey_counterexample :
    ¬ ∀ (ops : List Op) (t v : Nat) (x x' : Val),
      (Key.rowIdMask t v, x) ∈ L ops → (Key.rowIdMask t v, x') ∈ L ops → x = x' := by
  intro h
  have := h recreateHistory 0 1 (.mask [0, 1, 2]) (.mask [0, 1]) (by decide) (by decide)
  cases this

theorem key_determines_value_RowIdIndexKey_counterexample :
    ¬ ∀ (ops : List Op) (t v : Nat) (x x' : Val),
      (Key.rowIdIndex t v, x) ∈ L ops → (Key.rowIdIndex t v, x') ∈ L ops → x = x' := by
  intro h
  have := h recreateHistory 0 1 (.ridIndex [(0, 0, 0), (1, 0, 1), (2, 1, 0)]) (.ridIndex [(0, 0, 0), (1, 0, 1)])
    (by decide) (by decide)
  cases this

theorem good_L (ops : List Op) : Good (run World.init ops) := good_run ops _ good_init

/-- `RowIdSequenceKey { version, fragment_id }` (the key since fix 37c4aa6) -/
theorem key_determines_value_RowIdSequenceKey_partial (ops : List Op) (hn : noRecreate [] ops = true) (t v f : Nat)
    (x x' : Val) (h : (Key.rowIdSeq t v f, x) ∈ L ops) (h' : (Key.rowIdSeq t v f, x') ∈ L ops) : x = x' := by
  obtain ⟨t1, m1, hm1, h1⟩ := mem_logEntries.mp h
  obtain ⟨t2, m2, hm2, h2⟩ := mem_logEntries.mp h'
  rw [mem_entriesOf_rowIdSeq] at h1 h2
  obtain ⟨_, rfl, hv1, f1, hf1, hid1, rfl⟩ := h1
  obtain ⟨_, rfl, hv2, f2, hf2, hid2, rfl⟩ := h2
  simp only [↓reduceIte] at hv1 hv2
  have := version_determines_manifest_partial ops hn _ m1 m2 hm1 hm2 (by omega)
  subst this
  rw [frag_id_inj ((good_L ops).ids _ hm1) hf1 hf2 (by omega)]

theorem key_determines_value_RowIdSequenceKey_counterexample :
    ¬ ∀ (ops : List Op) (t v f : Nat) (x x' : Val),
      (Key.rowIdSeq t v f, x) ∈ L ops → (Key.rowIdSeq t v f, x') ∈ L ops → x = x' := by
  intro h
  have := h [.create 0 true 3 3, .drop 0, .create 0 true 3 2] 0 1 0 (.seq [0, 1, 2]) (.seq [0, 1]) (by decide) (by decide)
  cases this

/-- the key of the pinned commit (`RowIdSequenceKey { fragment_id }`, no version): an overwrite is enough, no table is
    dropped — the defect repaired by 37c4aa6 -/
theorem pinned_RowIdSequenceKey_counterexample :
    ¬ ∀ (ops : List Op), noRecreate [] ops = true → ∀ (t v f : Nat) (x x' : Val),
      (Key.rowIdSeq t v f, x) ∈ logEntries false (run World.init ops).log →
      (Key.rowIdSeq t v f, x') ∈ logEntries false (run World.init ops).log → x = x' := by
  intro h
  have := h [.create 0 true 2 3, .overwrite 0 2 5] (by decide) 0 0 0 (.seq [0, 1]) (.seq [3, 4]) (by decide) (by decide)
  cases this

/-- `DeletionFileKey { fragment_id, read_version, id }`: EVERY history -/
theorem key_determines_value_DeletionFileKey (ops : List Op) (t f rv id : Nat) (x x' : Val)
    (h : (Key.deletion t f rv id, x) ∈ L ops) (h' : (Key.deletion t f rv id, x') ∈ L ops) : x = x' := by
  obtain ⟨t1, m1, hm1, h1⟩ := mem_logEntries.mp h
  obtain ⟨t2, m2, hm2, h2⟩ := mem_logEntries.mp h'
  rw [mem_entriesOf_deletion] at h1 h2
  obtain ⟨_, f1, hf1, d1, hd1, hid1, _, hdid1, rfl⟩ := h1
  obtain ⟨_, f2, hf2, d2, hd2, hid2, _, hdid2, rfl⟩ := h2
  rw [(good_L ops).obj.delFun _ hm1 _ hm2 f1 hf1 f2 hf2 d1 d2 (by omega) hd1 hd2 (by omega)]

/-- file metadata cached under the data file path (`data/<uuid>.lance`): EVERY history -/
theorem key_determines_value_FileMetadataKey (ops : List Op) (t file f : Nat) (x x' : Val)
    (h : (Key.fileMeta t file f, x) ∈ L ops) (h' : (Key.fileMeta t file f, x') ∈ L ops) : x = x' := by
  obtain ⟨t1, m1, hm1, h1⟩ := mem_logEntries.mp h
  obtain ⟨t2, m2, hm2, h2⟩ := mem_logEntries.mp h'
  rw [mem_entriesOf_fileMeta] at h1 h2
  obtain ⟨_, f1, hf1, hfile1, hid1, rfl⟩ := h1
  obtain ⟨_, f2, hf2, hfile2, hid2, rfl⟩ := h2
  rw [((good_L ops).obj.fileFun _ hm1 _ hm2 f1 hf1 f2 hf2 (by omega) (by omega)).1]

/-- index caches keyed by the index uuid: EVERY history -/
theorem key_determines_value_IndexUuidKey (ops : List Op) (t u : Nat) (x x' : Val)
    (h : (Key.indexData t u, x) ∈ L ops) (h' : (Key.indexData t u, x') ∈ L ops) : x = x' := by
  obtain ⟨t1, m1, hm1, h1⟩ := mem_logEntries.mp h
  obtain ⟨t2, m2, hm2, h2⟩ := mem_logEntries.mp h'
  rw [mem_entriesOf_indexData] at h1 h2
  obtain ⟨_, i1, hi1, hu1, rfl⟩ := h1
  obtain ⟨_, i2, hi2, hu2, rfl⟩ := h2
  rw [(good_L ops).obj.idxFun _ hm1 _ hm2 i1 hi1 i2 hi2 (by omega)]

example : (Key.deletion 0 0 1 1, Val.dv [1]) ∈ L [.create 0 true 3 3, .delete 0 1 2, .delete 0 2 3] := by decide
example : (Key.deletion 0 0 2 2, Val.dv [1, 2]) ∈ L [.create 0 true 3 3, .delete 0 1 2, .delete 0 2 3] := by decide
example : (Key.indexData 0 1, Val.index { uuid := 1, frags := [0], content := [0, 1, 2] }) ∈
    L [.create 0 true 3 3, .index 0, .append 0 3 1] := by decide

/-! ## the property -/

/-- every (key, value) a session can load during a history is in `L` -/
theorem loads_trace_subset (evs : List Ev) : ∀ w : World, AllTabsInLog w → ∀ p, p ∈ loads (trace true w evs) →
    p ∈ logEntries true (run w (opsOf evs)).log := by
  induction evs with
  | nil => intro w _ p hp; cases hp
  | cons ev r ih =>
    intro w hw p hp
    cases ev with
    | op o => exact ih _ (allTabsInLog_step w o hw) p hp
    | evict keep => exact ih w hw p hp
    | read k =>
      simp only [trace] at hp
      simp only [opsOf]
      split at hp
      · rename_i v hg
        simp only [loads, List.mem_cons] at hp
        rcases hp with hp | hp
        · subst hp
          obtain ⟨t, ms, m, htab, hm, he⟩ := mem_entries.mp (cget_mem hg)
          obtain ⟨pre, hpre⟩ := log_run_suffix (opsOf r) w
          rw [mem_logEntries]
          exact ⟨t, m, by rw [hpre]; exact List.mem_append_right _ (hw t ms m htab hm), he⟩
        · exact ih w hw p hp
      · exact ih w hw p hp

/-- without a re-created location everything loadable during a history is the graph of a function -/
theorem functional_L_partial (ops : List Op) (hn : noRecreate [] ops = true) : Functional (L ops) := by
  intro k v v' h h'
  cases k with
  | manifest t ver e => exact key_determines_value_ManifestKey ops t ver e v v' h h'
  | txn t ver => exact key_determines_value_TransactionKey_partial ops hn t ver v v' h h'
  | indexMeta t ver => exact key_determines_value_IndexMetadataKey_partial ops hn t ver v v' h h'
  | rowIdMask t ver => exact key_determines_value_RowIdMaskKey_partial ops hn t ver v v' h h'
  | rowIdIndex t ver => exact key_determines_value_RowIdIndexKey_partial ops hn t ver v v' h h'
  | rowIdSeq t ver f => exact key_determines_value_RowIdSequenceKey_partial ops hn t ver f v v' h h'
  | deletion t f rv id => exact key_determines_value_DeletionFileKey ops t f rv id v v' h h'
  | fileMeta t file f => exact key_determines_value_FileMetadataKey ops t file f v v' h h'
  | indexData t u => exact key_determines_value_IndexUuidKey ops t u v v' h h'

/-- C38 at full strength: whatever the tables go through (drop and re-create at the same location included, any number of
    locations sharing the session), whatever is read and whatever is evicted (any capacity), reading through the session's
    caches gives what reading with caching disabled gives. -/
def C38_full : Prop :=
  ∀ evs : List Ev, runCached [] (trace true World.init evs) = runUncached (trace true World.init evs)

/-- lance meets it as long as no location is created again after it was dropped -/
theorem C38_partial (evs : List Ev) (hn : noRecreate [] (opsOf evs) = true) :
    runCached [] (trace true World.init evs) = runUncached (trace true World.init evs) := by
  apply transparent_of_key_determines_value
  intro k v v' h h'
  have hw : AllTabsInLog World.init := by intro t ms m hm; cases hm
  exact functional_L_partial (opsOf evs) hn k v v'
    (loads_trace_subset evs _ hw _ h) (loads_trace_subset evs _ hw _ h')

/-- create (3 rows, stable row ids), read the row id index of version 1, drop, create again (2 rows), read it again -/
def recreateReads : List Ev :=
  [.op (.create 0 true 2 3), .read (.rowIdIndex 0 1), .op (.drop 0), .op (.create 0 true 2 2), .read (.rowIdIndex 0 1)]

theorem C38_counterexample : ¬ C38_full := by
  intro h
  have := h recreateReads
  revert this
  decide

/-- non-vacuity of `C38_partial`: a history with overwrite, delete, restore, an index, two locations, evictions -/
example : noRecreate [] (opsOf [.op (.create 0 true 2 3), .read (.rowIdSeq 0 1 0), .op (.overwrite 0 2 5),
    .read (.rowIdSeq 0 2 0), .evict (fun _ => false), .op (.create 1 true 2 3), .read (.rowIdIndex 1 1),
    .op (.delete 0 3 4), .op (.restore 0 1), .read (.rowIdMask 0 4), .op (.index 1), .read (.indexMeta 1 2),
    .op (.drop 1), .read (.txn 0 1)]) = true := by decide

/-- with the pinned `RowIdSequenceKey` the same statement already fails without any drop -/
theorem pinned_C38_counterexample :
    ¬ ∀ evs : List Ev, noRecreate [] (opsOf evs) = true →
      runCached [] (trace false World.init evs) = runUncached (trace false World.init evs) := by
  intro h
  have := h [.op (.create 0 true 2 3), .read (.rowIdSeq 0 0 0), .op (.overwrite 0 2 5), .read (.rowIdSeq 0 0 0)]
    (by decide)
  revert this
  decide

end LanceModel.C38
