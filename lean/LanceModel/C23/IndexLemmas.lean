import LanceModel.C23.Model
/-! C23 — the inverted index records exactly the token occurrences of its documents -/
namespace LanceModel.C23

/-- `o` is a recorded occurrence of `t` -/
def OccIn (ps : Postings) (t : Token) (o : Occ) : Prop := ∃ os, lookup ps t = some os ∧ o ∈ os

/-- posting lists are never empty -/
def NonEmpty (ps : Postings) : Prop := ∀ t os, lookup ps t = some os → os ≠ []

/-- token-set keys are distinct -/
def KeysNodup (ps : Postings) : Prop := (ps.map (·.1)).Nodup

theorem lookup_addOcc_same (ps : Postings) (t : Token) (o : Occ) :
    lookup (addOcc ps t o) t = some ((lookup ps t).getD [] ++ [o]) := by
  induction ps with
  | nil => simp [addOcc, lookup]
  | cons e r ih =>
    obtain ⟨t', os⟩ := e
    by_cases h : t' = t
    · simp [addOcc, lookup, h]
    · simp [addOcc, lookup, h, ih]

theorem lookup_addOcc_ne (ps : Postings) (t t' : Token) (o : Occ) (hne : t' ≠ t) :
    lookup (addOcc ps t o) t' = lookup ps t' := by
  induction ps with
  | nil => simp [addOcc, lookup, Ne.symm hne]
  | cons e r ih =>
    obtain ⟨t'', os⟩ := e
    by_cases h : t'' = t
    · subst h
      simp [addOcc, lookup, Ne.symm hne]
    · by_cases h2 : t'' = t'
      · subst h2
        simp [addOcc, lookup, h]
      · simp [addOcc, lookup, h, h2, ih]

theorem occIn_addOcc (ps : Postings) (t t' : Token) (o o' : Occ) :
    OccIn (addOcc ps t o) t' o' ↔ OccIn ps t' o' ∨ (t' = t ∧ o' = o) := by
  unfold OccIn
  by_cases h : t' = t
  · subst h
    rw [lookup_addOcc_same]
    cases hl : lookup ps t' with
    | none => simp
    | some os => simp
  · rw [lookup_addOcc_ne ps t t' o h]
    simp [h]

theorem nonEmpty_addOcc (ps : Postings) (t : Token) (o : Occ) (h : NonEmpty ps) : NonEmpty (addOcc ps t o) := by
  intro t' os hl
  by_cases ht : t' = t
  · subst ht
    rw [lookup_addOcc_same] at hl
    injection hl with hl
    subst hl
    simp
  · rw [lookup_addOcc_ne ps t t' o ht] at hl
    exact h t' os hl

theorem keys_addOcc (ps : Postings) (t : Token) (o : Occ) :
    (addOcc ps t o).map (·.1) = if t ∈ ps.map (·.1) then ps.map (·.1) else ps.map (·.1) ++ [t] := by
  induction ps with
  | nil => simp [addOcc]
  | cons e r ih =>
    obtain ⟨t', os⟩ := e
    by_cases h : t' = t
    · simp [addOcc, h]
    · have h' : ¬ t = t' := fun x => h x.symm
      simp only [addOcc, h, if_false, List.map_cons, ih, List.mem_cons, h', false_or]
      split <;> simp

theorem keysNodup_addOcc (ps : Postings) (t : Token) (o : Occ) (h : KeysNodup ps) : KeysNodup (addOcc ps t o) := by
  unfold KeysNodup at *
  rw [keys_addOcc]
  split
  · exact h
  · rename_i hn
    exact List.nodup_append.2 ⟨h, by simp, by intro a ha b hb; simp at hb; subst hb; intro heq; subst heq; exact hn ha⟩

/-- with distinct keys an entry is what `lookup` finds -/
theorem mem_iff_lookup (ps : Postings) (h : KeysNodup ps) (t : Token) (os : List Occ) :
    (t, os) ∈ ps ↔ lookup ps t = some os := by
  induction ps with
  | nil => simp [lookup]
  | cons e r ih =>
    obtain ⟨t', os'⟩ := e
    have hr : KeysNodup r := (List.nodup_cons.1 h).2
    have hnot : t' ∉ r.map (·.1) := (List.nodup_cons.1 h).1
    by_cases ht : t' = t
    · subst ht
      simp only [lookup, if_true, List.mem_cons, Prod.mk.injEq, true_and, Option.some.injEq]
      constructor
      · intro hm
        rcases hm with hm | hm
        · exact hm.symm
        · exact absurd (List.mem_map.2 ⟨(t', os), hm, rfl⟩) hnot
      · intro hm; exact Or.inl hm.symm
    · have ht' : ¬ t = t' := fun x => ht x.symm
      simp only [lookup, ht, if_false, List.mem_cons, Prod.mk.injEq, ht', false_and, false_or]
      exact ih hr

/-! ### one document -/

theorem occIn_addDoc (ps : Postings) (d : Nat) (toks : List (Nat × Token)) (t : Token) (o : Occ) :
    OccIn (addDoc ps d toks) t o ↔ OccIn ps t o ∨ (o.1 = d ∧ (o.2, t) ∈ toks) := by
  unfold addDoc
  induction toks generalizing ps with
  | nil => simp
  | cons pt r ih =>
    simp only [List.foldl_cons]
    rw [ih, occIn_addOcc]
    obtain ⟨o1, o2⟩ := o
    obtain ⟨pp, tt⟩ := pt
    simp only [Prod.mk.injEq, List.mem_cons]
    constructor
    · rintro ((h | ⟨h1, h2, h3⟩) | h)
      · exact Or.inl h
      · exact Or.inr ⟨h2, Or.inl ⟨h3, h1⟩⟩
      · exact Or.inr ⟨h.1, Or.inr h.2⟩
    · rintro (h | ⟨h1, (⟨h2, h3⟩ | h2)⟩)
      · exact Or.inl (Or.inl h)
      · exact Or.inl (Or.inr ⟨h3, h1, h2⟩)
      · exact Or.inr ⟨h1, h2⟩

theorem nonEmpty_addDoc (ps : Postings) (d : Nat) (toks : List (Nat × Token)) (h : NonEmpty ps) :
    NonEmpty (addDoc ps d toks) := by
  unfold addDoc
  induction toks generalizing ps with
  | nil => exact h
  | cons pt r ih => exact ih _ (nonEmpty_addOcc ps _ _ h)

theorem keysNodup_addDoc (ps : Postings) (d : Nat) (toks : List (Nat × Token)) (h : KeysNodup ps) :
    KeysNodup (addDoc ps d toks) := by
  unfold addDoc
  induction toks generalizing ps with
  | nil => exact h
  | cons pt r ih => exact ih _ (keysNodup_addOcc ps _ _ h)

/-! ### a partition represents its documents -/

/-- the partition `p` is the inverted index of `docs` (doc id = position in `docs`) -/
structure Repr (p : Part) (docs : List IDoc) : Prop where
  docs_eq : p.docs = docs.map (fun d => (d.rowId, d.toks.length))
  nonEmpty : NonEmpty p.postings
  keys : KeysNodup p.postings
  occ : ∀ t o, OccIn p.postings t o ↔ ∃ doc, docs[o.1]? = some doc ∧ (o.2, t) ∈ doc.toks

theorem repr_empty : Repr Part.empty [] :=
  ⟨rfl, by intro t os h; simp [Part.empty, lookup] at h, by simp [KeysNodup, Part.empty],
   by intro t o; simp [OccIn, Part.empty, lookup]⟩

theorem repr_add (p : Part) (docs : List IDoc) (d : IDoc) (h : Repr p docs) : Repr (p.add d) (docs ++ [d]) := by
  have hlen : p.docs.length = docs.length := by rw [h.docs_eq]; simp
  refine ⟨by simp [Part.add, h.docs_eq], nonEmpty_addDoc _ _ _ h.nonEmpty, keysNodup_addDoc _ _ _ h.keys, ?_⟩
  intro t o
  simp only [Part.add]
  rw [occIn_addDoc, h.occ, hlen]
  constructor
  · rintro (⟨doc, h1, h2⟩ | ⟨h1, h2⟩)
    · refine ⟨doc, ?_, h2⟩
      have hlt : o.1 < docs.length := by
        rcases Nat.lt_or_ge o.1 docs.length with hlt | hge
        · exact hlt
        · rw [List.getElem?_eq_none hge] at h1; cases h1
      rw [List.getElem?_append_left hlt]; exact h1
    · refine ⟨d, ?_, h2⟩
      rw [h1]; simp
  · rintro ⟨doc, h1, h2⟩
    rcases Nat.lt_or_ge o.1 docs.length with hlt | hge
    · rw [List.getElem?_append_left hlt] at h1
      exact Or.inl ⟨doc, h1, h2⟩
    · rw [List.getElem?_append_right hge] at h1
      have : o.1 - docs.length = 0 := by
        rcases Nat.eq_zero_or_pos (o.1 - docs.length) with h0 | hp
        · exact h0
        · rw [List.getElem?_eq_none (by simp; omega)] at h1; cases h1
      rw [this] at h1
      simp at h1
      subst h1
      exact Or.inr ⟨by omega, h2⟩

theorem repr_foldl (p : Part) (pre ds : List IDoc) (h : Repr p pre) : Repr (ds.foldl Part.add p) (pre ++ ds) := by
  induction ds generalizing p pre with
  | nil => simpa using h
  | cons d r ih =>
    simp only [List.foldl_cons]
    have := ih (p.add d) (pre ++ [d]) (repr_add p pre d h)
    simpa using this

/-- builder.rs: the partition built from `ds` represents `ds` -/
theorem repr_build (ds : List IDoc) : Repr (buildPart ds) ds := by
  simpa [buildPart] using repr_foldl Part.empty [] ds repr_empty

/-! ### merging partitions -/

theorem occIn_foldOcc (ps : Postings) (t : Token) (k : Nat) (os : List Occ) (t' : Token) (o' : Occ) :
    OccIn (os.foldl (fun ps o => addOcc ps t (k + o.1, o.2)) ps) t' o' ↔
      OccIn ps t' o' ∨ (t' = t ∧ ∃ o ∈ os, o' = (k + o.1, o.2)) := by
  induction os generalizing ps with
  | nil => simp
  | cons x r ih =>
    simp only [List.foldl_cons]
    rw [ih, occIn_addOcc]
    constructor
    · rintro ((h | ⟨h1, h2⟩) | ⟨h1, o, ho, h2⟩)
      · exact Or.inl h
      · exact Or.inr ⟨h1, x, by simp, h2⟩
      · exact Or.inr ⟨h1, o, by simp [ho], h2⟩
    · rintro (h | ⟨h1, o, ho, h2⟩)
      · exact Or.inl (Or.inl h)
      · rcases List.mem_cons.1 ho with hx | hr
        · subst hx; exact Or.inl (Or.inr ⟨h1, h2⟩)
        · exact Or.inr ⟨h1, o, hr, h2⟩

theorem nonEmpty_foldOcc (ps : Postings) (t : Token) (k : Nat) (os : List Occ) (h : NonEmpty ps) :
    NonEmpty (os.foldl (fun ps o => addOcc ps t (k + o.1, o.2)) ps) := by
  induction os generalizing ps with
  | nil => exact h
  | cons x r ih => exact ih _ (nonEmpty_addOcc _ _ _ h)

theorem keysNodup_foldOcc (ps : Postings) (t : Token) (k : Nat) (os : List Occ) (h : KeysNodup ps) :
    KeysNodup (os.foldl (fun ps o => addOcc ps t (k + o.1, o.2)) ps) := by
  induction os generalizing ps with
  | nil => exact h
  | cons x r ih => exact ih _ (keysNodup_addOcc _ _ _ h)

/-- the posting-list part of `mergeInto` -/
def mergePostings (acc : Postings) (k : Nat) (es : Postings) : Postings :=
  es.foldl (fun ps e => e.2.foldl (fun ps o => addOcc ps e.1 (k + o.1, o.2)) ps) acc

theorem occIn_mergePostings (acc : Postings) (k : Nat) (es : Postings) (t' : Token) (o' : Occ) :
    OccIn (mergePostings acc k es) t' o' ↔
      OccIn acc t' o' ∨ ∃ e ∈ es, e.1 = t' ∧ ∃ o ∈ e.2, o' = (k + o.1, o.2) := by
  unfold mergePostings
  induction es generalizing acc with
  | nil => simp
  | cons x r ih =>
    simp only [List.foldl_cons]
    rw [ih, occIn_foldOcc]
    constructor
    · rintro ((h | ⟨h1, h2⟩) | ⟨e, he, h1, h2⟩)
      · exact Or.inl h
      · exact Or.inr ⟨x, by simp, h1.symm, h2⟩
      · exact Or.inr ⟨e, by simp [he], h1, h2⟩
    · rintro (h | ⟨e, he, h1, h2⟩)
      · exact Or.inl (Or.inl h)
      · rcases List.mem_cons.1 he with hx | hr
        · subst hx; exact Or.inl (Or.inr ⟨h1.symm, h2⟩)
        · exact Or.inr ⟨e, hr, h1, h2⟩

theorem nonEmpty_mergePostings (acc : Postings) (k : Nat) (es : Postings) (h : NonEmpty acc) :
    NonEmpty (mergePostings acc k es) := by
  unfold mergePostings
  induction es generalizing acc with
  | nil => exact h
  | cons x r ih => exact ih _ (nonEmpty_foldOcc _ _ _ _ h)

theorem keysNodup_mergePostings (acc : Postings) (k : Nat) (es : Postings) (h : KeysNodup acc) :
    KeysNodup (mergePostings acc k es) := by
  unfold mergePostings
  induction es generalizing acc with
  | nil => exact h
  | cons x r ih => exact ih _ (keysNodup_foldOcc _ _ _ _ h)

/-- merger.rs: merging the partition of `db` into the partition of `da` gives the partition of `da ++ db` -/
theorem repr_mergeInto (a b : Part) (da db : List IDoc) (ha : Repr a da) (hb : Repr b db) :
    Repr (mergeInto a b) (da ++ db) := by
  have hlen : a.docs.length = da.length := by rw [ha.docs_eq]; simp
  refine ⟨by simp [mergeInto, ha.docs_eq, hb.docs_eq], nonEmpty_mergePostings _ _ _ ha.nonEmpty,
    keysNodup_mergePostings _ _ _ ha.keys, ?_⟩
  intro t o'
  show OccIn (mergePostings a.postings a.docs.length b.postings) t o' ↔ _
  rw [occIn_mergePostings, ha.occ, hlen]
  have hbocc : (∃ e ∈ b.postings, e.1 = t ∧ ∃ o ∈ e.2, o' = (da.length + o.1, o.2)) ↔
      ∃ o, OccIn b.postings t o ∧ o' = (da.length + o.1, o.2) := by
    constructor
    · rintro ⟨⟨t1, os⟩, he, h1, o, ho, h2⟩
      simp only at h1; subst h1
      exact ⟨o, ⟨os, (mem_iff_lookup _ hb.keys _ _).1 he, ho⟩, h2⟩
    · rintro ⟨o, ⟨os, hl, ho⟩, h2⟩
      exact ⟨(t, os), (mem_iff_lookup _ hb.keys _ _).2 hl, rfl, o, ho, h2⟩
  rw [hbocc]
  constructor
  · rintro (⟨doc, h1, h2⟩ | ⟨o, ho, h2⟩)
    · have hlt : o'.1 < da.length := by
        rcases Nat.lt_or_ge o'.1 da.length with hlt | hge
        · exact hlt
        · rw [List.getElem?_eq_none hge] at h1; cases h1
      exact ⟨doc, by rw [List.getElem?_append_left hlt]; exact h1, h2⟩
    · obtain ⟨doc, h3, h4⟩ := (hb.occ t o).1 ho
      subst h2
      refine ⟨doc, ?_, h4⟩
      rw [List.getElem?_append_right (by simp)]
      simpa using h3
  · rintro ⟨doc, h1, h2⟩
    rcases Nat.lt_or_ge o'.1 da.length with hlt | hge
    · rw [List.getElem?_append_left hlt] at h1
      exact Or.inl ⟨doc, h1, h2⟩
    · rw [List.getElem?_append_right hge] at h1
      refine Or.inr ⟨(o'.1 - da.length, o'.2), (hb.occ t _).2 ⟨doc, h1, h2⟩, ?_⟩
      obtain ⟨x, y⟩ := o'
      simp only [Prod.mk.injEq, and_true]
      simp only at hge
      omega

theorem mergeInto_eq (a b : Part) :
    mergeInto a b = ⟨a.docs ++ b.docs, mergePostings a.postings a.docs.length b.postings⟩ := rfl

/-- partition-wise representation -/
inductive ReprAll : List Part → List (List IDoc) → Prop
  | nil : ReprAll [] []
  | cons {p d ps ds} : Repr p d → ReprAll ps ds → ReprAll (p :: ps) (d :: ds)

/-- folding the merger over partitions that represent `docss` gives the partition of their concatenation -/
theorem repr_mergeFold (acc : Part) (dacc : List IDoc) (parts : List Part) (docss : List (List IDoc))
    (hacc : Repr acc dacc) (h : ReprAll parts docss) :
    Repr (parts.foldl mergeInto acc) (dacc ++ docss.flatten) := by
  induction h generalizing acc dacc with
  | nil => simpa using hacc
  | cons hp _ ih =>
    simp only [List.foldl_cons, List.flatten_cons]
    rw [← List.append_assoc]
    exact ih _ _ (repr_mergeInto _ _ _ _ hacc hp)

end LanceModel.C23
