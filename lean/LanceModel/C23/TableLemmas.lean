import LanceModel.C23.SearchLemmas
/-! C23 — the index of a table stays consistent with its rows along every history; leaf queries on a consistent table -/
namespace LanceModel.C23

/-! ### searching all partitions -/

theorem rowOf_eq {p : Part} {docs : List IDoc} (h : Repr p docs) (d : Nat) : p.rowOf d = (docs[d]?).map (·.rowId) := by
  unfold Part.rowOf
  rw [h.docs_eq]
  simp [List.getElem?_map]
  cases docs[d]? <;> rfl

theorem onePart_iff {p : Part} {docs : List IDoc} (h : Repr p docs) (blocked : List Nat) (mode : Mode) (q : List Token)
    (x : Nat) :
    x ∈ ((partSearch p mode q).filterMap p.rowOf).filter (fun r => !blocked.contains r) ↔
      x ∉ blocked ∧ ∃ doc ∈ docs, doc.rowId = x ∧ DocMatch mode q doc.toks := by
  simp only [List.mem_filter, List.mem_filterMap, Bool.not_eq_true', List.contains_eq_mem, decide_eq_false_iff_not]
  constructor
  · rintro ⟨⟨d, hd, hr⟩, hb⟩
    obtain ⟨doc, hdoc, hm⟩ := (partSearch_iff h mode q d).1 hd
    rw [rowOf_eq h, hdoc] at hr
    simp only [Option.map_some, Option.some.injEq] at hr
    exact ⟨hb, doc, List.mem_of_getElem? hdoc, hr, hm⟩
  · rintro ⟨hb, doc, hdoc, hr, hm⟩
    obtain ⟨d, hd⟩ := List.getElem?_of_mem hdoc
    refine ⟨⟨d, (partSearch_iff h mode q d).2 ⟨doc, hd, hm⟩, ?_⟩, hb⟩
    rw [rowOf_eq h, hd]; simp [hr]

/-- `InvertedIndex::bm25_search` over all partitions -/
theorem indexSearch_iff {parts : List Part} {docss : List (List IDoc)} (h : ReprAll parts docss) (blocked : List Nat)
    (mode : Mode) (q : List Token) (x : Nat) :
    x ∈ indexSearch parts blocked mode q ↔
      x ∉ blocked ∧ ∃ doc ∈ docss.flatten, doc.rowId = x ∧ DocMatch mode q doc.toks := by
  unfold indexSearch
  induction h with
  | nil => simp
  | cons hp _ ih =>
    simp only [List.flatMap_cons, List.mem_append, List.flatten_cons]
    rw [ih, onePart_iff hp]
    constructor
    · rintro (⟨hb, doc, hd, h1, h2⟩ | ⟨hb, doc, hd, h1, h2⟩)
      · exact ⟨hb, doc, Or.inl hd, h1, h2⟩
      · exact ⟨hb, doc, Or.inr hd, h1, h2⟩
    · rintro ⟨hb, doc, hd | hd, h1, h2⟩
      · exact Or.inl ⟨hb, doc, hd, h1, h2⟩
      · exact Or.inr ⟨hb, doc, hd, h1, h2⟩

theorem reprAll_append {a b : List Part} {da db : List (List IDoc)} (ha : ReprAll a da) (hb : ReprAll b db) :
    ReprAll (a ++ b) (da ++ db) := by
  induction ha with
  | nil => simpa using hb
  | cons hp _ ih => exact ReprAll.cons hp ih

/-- a partition without postings holds only documents without tokens -/
theorem no_tokens_of_empty {p : Part} {docs : List IDoc} (h : Repr p docs) (he : p.postings.isEmpty = true) :
    ∀ doc ∈ docs, doc.toks = [] := by
  intro doc hd
  obtain ⟨d, hdd⟩ := List.getElem?_of_mem hd
  cases hts : doc.toks with
  | nil => rfl
  | cons pt r =>
    obtain ⟨os, hl, _⟩ := (h.occ pt.2 (d, pt.1)).2 ⟨doc, hdd, by rw [hts]; simp⟩
    rw [List.isEmpty_iff.1 he] at hl
    simp [lookup] at hl

/-- the partitions a worker writes: the documents, except that a batch without any token leaves nothing -/
theorem workerParts_repr (docs : List IDoc) :
    ∃ docss, ReprAll (workerParts docs) docss ∧ (∀ doc, doc ∈ docss.flatten → doc ∈ docs) ∧
      (∀ doc ∈ docs, doc.toks ≠ [] → doc ∈ docss.flatten) := by
  unfold workerParts
  simp only []
  split
  · rename_i he
    exact ⟨[], ReprAll.nil, by simp, fun doc hd hne => absurd (no_tokens_of_empty (repr_build docs) he doc hd) hne⟩
  · exact ⟨[docs], ReprAll.cons (repr_build docs) ReprAll.nil, by simp, by intro doc hd _; simpa using hd⟩

/-- the merger keeps every document that has a token and invents none -/
theorem mergeAll_repr {parts : List Part} {docss : List (List IDoc)} (h : ReprAll parts docss) :
    ∃ docss', ReprAll (mergeAll parts) docss' ∧ (∀ doc, doc ∈ docss'.flatten → doc ∈ docss.flatten) ∧
      (∀ doc ∈ docss.flatten, doc.toks ≠ [] → doc ∈ docss'.flatten) := by
  have hm : Repr (parts.foldl mergeInto Part.empty) docss.flatten := by
    simpa using repr_mergeFold Part.empty [] parts docss repr_empty h
  have big : ∃ docss', ReprAll (if (parts.foldl mergeInto Part.empty).postings.isEmpty then [] else [parts.foldl mergeInto Part.empty]) docss' ∧
      (∀ doc, doc ∈ docss'.flatten → doc ∈ docss.flatten) ∧ (∀ doc ∈ docss.flatten, doc.toks ≠ [] → doc ∈ docss'.flatten) := by
    split
    · rename_i he
      exact ⟨[], ReprAll.nil, by simp, fun doc hd hne => absurd (no_tokens_of_empty hm he doc hd) hne⟩
    · exact ⟨[docss.flatten], ReprAll.cons hm ReprAll.nil, by simp, by intro doc hd _; simpa using hd⟩
  cases h with
  | nil => exact ⟨[], ReprAll.nil, by simp, by simp⟩
  | cons hp hrest =>
    cases hrest with
    | nil => exact ⟨_, ReprAll.cons hp ReprAll.nil, fun _ h => h, fun _ h _ => h⟩
    | cons hp2 hrest2 => exact big

/-- keeping the partitions apart drops only partitions without tokens -/
theorem filterParts_repr {parts : List Part} {docss : List (List IDoc)} (h : ReprAll parts docss) :
    ∃ docss', ReprAll (parts.filter (fun p => !p.postings.isEmpty)) docss' ∧
      (∀ doc, doc ∈ docss'.flatten → doc ∈ docss.flatten) ∧
      (∀ doc ∈ docss.flatten, doc.toks ≠ [] → doc ∈ docss'.flatten) := by
  induction h with
  | nil => exact ⟨[], ReprAll.nil, by simp, by simp⟩
  | @cons p d ps ds hp _ ih =>
    obtain ⟨dd, hr, h1, h2⟩ := ih
    by_cases he : p.postings.isEmpty = true
    · refine ⟨dd, by simpa [List.filter_cons, he] using hr, ?_, ?_⟩
      · intro doc hd
        simp only [List.flatten_cons, List.mem_append]
        exact Or.inr (h1 doc hd)
      · intro doc hd hne
        simp only [List.flatten_cons, List.mem_append] at hd
        rcases hd with hd | hd
        · exact absurd (no_tokens_of_empty hp he doc hd) hne
        · exact h2 doc hd hne
    · refine ⟨d :: dd, by simpa [List.filter_cons, he] using ReprAll.cons hp hr, ?_, ?_⟩
      · intro doc hd
        simp only [List.flatten_cons, List.mem_append] at hd ⊢
        rcases hd with hd | hd
        · exact Or.inl hd
        · exact Or.inr (h1 doc hd)
      · intro doc hd hne
        simp only [List.flatten_cons, List.mem_append] at hd ⊢
        rcases hd with hd | hd
        · exact Or.inl hd
        · exact Or.inr (h2 doc hd hne)

theorem splitAll_repr {parts : List Part} {docss : List (List IDoc)} (h : ReprAll parts docss) :
    ∃ docss', ReprAll (splitAll parts) docss' ∧ (∀ doc, doc ∈ docss'.flatten → doc ∈ docss.flatten) ∧
      (∀ doc ∈ docss.flatten, doc.toks ≠ [] → doc ∈ docss'.flatten) := by
  cases h with
  | nil => exact ⟨[], ReprAll.nil, by simp, by simp⟩
  | cons hp hrest =>
    cases hrest with
    | nil => exact ⟨_, ReprAll.cons hp ReprAll.nil, fun _ h => h, fun _ h _ => h⟩
    | cons hp2 hrest2 => exact filterParts_repr (ReprAll.cons hp (ReprAll.cons hp2 hrest2))

/-! ### rows and documents -/

theorem mem_docsOf (ops : CharOps) (cfg : Cfg) (rows : List Row) (sel : Nat → Bool) (doc : IDoc) :
    doc ∈ docsOf ops cfg rows sel ↔
      ∃ r ∈ rows, sel r.frag = true ∧ r.deleted = false ∧ ∃ t, r.text = some t ∧ doc = ⟨r.id, tokenize ops cfg t⟩ := by
  unfold docsOf
  simp only [List.mem_filterMap]
  constructor
  · rintro ⟨r, hr, h⟩
    split at h
    · rename_i hc
      simp only [Bool.and_eq_true, Bool.not_eq_true'] at hc
      cases ht : r.text with
      | none => rw [ht] at h; simp at h
      | some t =>
        rw [ht] at h
        simp only [Option.map_some, Option.some.injEq] at h
        exact ⟨r, hr, hc.1, hc.2, t, ht, h.symm⟩
    · cases h
  · rintro ⟨r, hr, h1, h2, t, ht, hd⟩
    refine ⟨r, hr, ?_⟩
    simp [h1, h2, ht, hd]

/-- well-formed table: row keys are 0, 1, 2, …; fragments are numbered below `nfrags` -/
structure WF (ds : Ds) : Prop where
  ids : ds.rows.map (·.id) = List.range ds.rows.length
  frags : ∀ r ∈ ds.rows, r.frag < ds.nfrags

/-- the index agrees with the rows: it covers fragments below `nfrags`; every indexed document is the token stream of a
    row of a covered fragment; every live row of a covered fragment that has a token is indexed -/
structure Consistent (ops : CharOps) (ds : Ds) : Prop where
  wf : WF ds
  idx : ∀ ix, ds.idx = some ix →
    (∀ f ∈ ix.frags, f < ds.nfrags) ∧
    ∃ docss, ReprAll ix.parts docss ∧
      (∀ doc ∈ docss.flatten, ∃ r ∈ ds.rows, r.id = doc.rowId ∧ ix.frags.contains r.frag = true ∧
          ∃ t, r.text = some t ∧ doc.toks = tokenize ops ds.cfg t) ∧
      (∀ r ∈ ds.rows, r.deleted = false → ix.frags.contains r.frag = true → ∀ t, r.text = some t →
          tokenize ops ds.cfg t ≠ [] → ∃ doc ∈ docss.flatten, doc.rowId = r.id)

theorem wf_init (cfg : Cfg) (split : Bool) : WF (Ds.init cfg split) := ⟨by simp [Ds.init], by simp [Ds.init]⟩

theorem consistent_init (ops : CharOps) (cfg : Cfg) (split : Bool) : Consistent ops (Ds.init cfg split) :=
  ⟨wf_init cfg split, by intro ix h; simp [Ds.init] at h⟩

/-- rows with the same key are the same row -/
theorem row_unique {ds : Ds} (h : WF ds) {r r' : Row} (hr : r ∈ ds.rows) (hr' : r' ∈ ds.rows) (hid : r.id = r'.id) :
    r = r' := by
  obtain ⟨i, hi, rfl⟩ := List.getElem_of_mem hr
  obtain ⟨j, hj, rfl⟩ := List.getElem_of_mem hr'
  have e1 : (ds.rows.map (·.id))[i]'(by simpa using hi) = i := by simp [h.ids]
  have e2 : (ds.rows.map (·.id))[j]'(by simpa using hj) = j := by simp [h.ids]
  simp only [List.getElem_map] at e1 e2
  have : i = j := by rw [← e1, ← e2]; exact hid
  subst this; rfl

end LanceModel.C23
