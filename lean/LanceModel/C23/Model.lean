/-
C23 — full-text search matches the tokenised documents.

MODEL of
  tantivy-0.24.2 tokenizer/{simple_tokenizer, remove_long, lower_caser, ascii_folding_filter}.rs as configured by
  rust/lance-index/src/scalar/inverted/tokenizer.rs        InvertedIndexParams::{build, build_base_tokenizer} (base `simple`, stem / stop words off)
  rust/lance-index/src/scalar/inverted/builder.rs          IndexWorker::process_batch (token set, posting lists with positions, doc set), InvertedIndexBuilder::update
  rust/lance-index/src/scalar/inverted/index.rs            InvertedPartition::bm25_search (token lookup, phrase / AND / OR), InvertedIndex::bm25_search (union over partitions),
                                                           flat_bm25_search_stream / flat_bm25_search (unindexed rows)
  rust/lance-index/src/scalar/inverted/wand.rs             Wand::search as a SET (limit = None: threshold 0, nothing pruned), Wand::check_positions (slop 0)
  rust/lance-index/src/scalar/inverted/scorer.rs           IndexBM25Scorer::doc_weight as an exact rational ORDER (idf abstract and positive)
  rust/lance/src/io/exec/fts.rs                            MatchQueryExec, FlatMatchQueryExec, PhraseQueryExec, BooleanQueryExec
  rust/lance/src/dataset/scanner.rs                        plan_fts / plan_match_query / plan_phrase_query (index part ∪ flat part over the unindexed fragments)
Import-free (core only): the driver links natively.

Sets of documents are lists of row keys with membership semantics.
-/
namespace LanceModel.C23

/-! ## 1. Tokenizer -/

/-- the Unicode tables the pipeline consults: `char::is_alphanumeric`, `char::to_lowercase`, tantivy's `fold_non_ascii_char` -/
structure CharOps where
  isAlnum : Char → Bool
  lower : Char → List Char
  fold : Char → List Char

/-- `InvertedIndexParams` as the harness configures it (base tokenizer `simple`, no stemming, no stop words) -/
structure Cfg where
  lower : Bool
  fold : Bool
  maxLen : Option Nat
  withPos : Bool
  deriving Repr, DecidableEq

abbrev Token := List Char

/-- simple_tokenizer.rs: `SimpleTokenStream::advance` + `search_token_end`, as one left-to-right scan.
    `cur` is the token being collected (reversed). -/
def runsAux (p : Char → Bool) : List Char → List Char → List Token
  | [], cur => if cur.isEmpty then [] else [cur.reverse]
  | c :: cs, cur =>
    if p c then runsAux p cs (c :: cur)
    else if cur.isEmpty then runsAux p cs [] else cur.reverse :: runsAux p cs []

/-- the raw tokens of a text: its maximal alphanumeric runs; the i-th run gets position i (`position.wrapping_add(1)` from `usize::MAX`) -/
def runs (p : Char → Bool) (s : List Char) : List Token := runsAux p s []

/-- `String::len` of a token: UTF-8 bytes -/
def utf8Len (t : Token) : Nat := (t.map Char.utf8Size).sum

/-- remove_long.rs: `RemoveLongFilterStream::predicate` — keep tokens of strictly fewer than `limit` bytes -/
def keepLen (cfg : Cfg) (t : Token) : Bool :=
  match cfg.maxLen with
  | none => true
  | some m => decide (utf8Len t < m)

/-- lower_caser.rs (per character `to_lowercase`; the ASCII fast path is the same function on ASCII) then
    ascii_folding_filter.rs `to_ascii` -/
def normTok (ops : CharOps) (cfg : Cfg) (t : Token) : Token :=
  let l := if cfg.lower then t.flatMap ops.lower else t
  if cfg.fold then l.flatMap ops.fold else l

/-- positions and texts of the token stream `InvertedIndexParams::build()` produces for a text:
    split, RemoveLongFilter (a removed token keeps its position number), LowerCaser, AsciiFoldingFilter -/
def tokenize (ops : CharOps) (cfg : Cfg) (s : List Char) : List (Nat × Token) :=
  (((runs ops.isAlnum s).zipIdx).filter (fun ti => keepLen cfg ti.1)).map (fun ti => (ti.2, normTok ops cfg ti.1))

/-- query.rs: `collect_query_tokens` / `collect_doc_tokens`: the token texts only -/
def tokenTexts (ops : CharOps) (cfg : Cfg) (s : List Char) : List Token := (tokenize ops cfg s).map (·.2)

/-! ## 2. Inverted index partition -/

/-- one occurrence of a token: (doc id within the partition, position) -/
abbrev Occ := Nat × Nat

/-- token set + posting lists: token → occurrences, in insertion order (`TokenSet::add` + `PostingListBuilder::add`;
    a posting entry `(doc, positions[])` is flattened to one pair per position) -/
abbrev Postings := List (Token × List Occ)

/-- builder.rs `process_batch`: `tokens.add(text)`, `token_occurrences[token_id].push(position)` -/
def addOcc : Postings → Token → Occ → Postings
  | [], t, o => [(t, [o])]
  | (t', os) :: r, t, o => if t' = t then (t', os ++ [o]) :: r else (t', os) :: addOcc r t o

/-- `TokenSet::get` + `PostingListReader::posting_list`: `none` = the token is not in the partition's token set -/
def lookup : Postings → Token → Option (List Occ)
  | [], _ => none
  | (t', os) :: r, t => if t' = t then some os else lookup r t

/-- all occurrences of one document -/
def addDoc (ps : Postings) (docId : Nat) (toks : List (Nat × Token)) : Postings :=
  toks.foldl (fun ps pt => addOcc ps pt.2 (docId, pt.1)) ps

/-- a document as the index sees it: row key and token stream -/
structure IDoc where
  rowId : Nat
  toks : List (Nat × Token)
  deriving Repr

/-- `InvertedPartition`: doc set (row key and token count per doc id) and postings -/
structure Part where
  docs : List (Nat × Nat)
  postings : Postings
  deriving Repr

def Part.empty : Part := ⟨[], []⟩

/-- builder.rs `process_batch`, one document: `docs.append(row_id, token_num)`, postings of every token -/
def Part.add (p : Part) (d : IDoc) : Part :=
  ⟨p.docs ++ [(d.rowId, d.toks.length)], addDoc p.postings p.docs.length d.toks⟩

/-- a partition built from documents in order -/
def buildPart (ds : List IDoc) : Part := ds.foldl Part.add Part.empty

/-- the occurrences of `t` in doc `d` exist -/
def hasTok (p : Part) (d : Nat) (t : Token) : Bool :=
  match lookup p.postings t with
  | some os => os.any (fun o => o.1 == d)
  | none => false

def hasOcc (p : Part) (d : Nat) (pos : Nat) (t : Token) : Bool :=
  match lookup p.postings t with
  | some os => os.any (fun o => o.1 == d && o.2 == pos)
  | none => false

/-- the positions of `t` in doc `d` -/
def positionsOf (p : Part) (d : Nat) (t : Token) : List Nat :=
  match lookup p.postings t with
  | some os => (os.filter (fun o => o.1 == d)).map (·.2)
  | none => []

/-- wand.rs `check_positions` with slop 0: some alignment puts the i-th query token at `start + i`.
    (The code searches the alignment with a skipping loop over relative positions; this is its decision.) -/
def phraseAt (p : Part) (d : Nat) (qtoks : List Token) : Bool :=
  match qtoks with
  | [] => false
  | t0 :: _ => (positionsOf p d t0).any (fun start => (qtoks.zipIdx).all (fun ti => hasOcc p d (start + ti.2) ti.1))

inductive Mode where
  | or
  | and
  | phrase
  deriving Repr, DecidableEq

/-- index.rs `InvertedPartition::bm25_search` + wand.rs `Wand::search` without limit, as the set of matching doc ids:
    a query token missing from the token set ends a phrase / AND query with no result and is dropped from an OR query;
    no token left: no result; AND requires every token, OR any of them, phrase additionally the positions. -/
def partSearch (p : Part) (mode : Mode) (qtoks : List Token) : List Nat :=
  let found := qtoks.filter (fun t => (lookup p.postings t).isSome)
  if mode != .or && !qtoks.all (fun t => (lookup p.postings t).isSome) then []
  else if found.isEmpty then []
  else (List.range p.docs.length).filter (fun d =>
    match mode with
    | .or => found.any (hasTok p d)
    | .and => found.all (hasTok p d)
    | .phrase => found.all (hasTok p d) && phraseAt p d found)

/-- doc id → row key (`DocSet::row_id`) -/
def Part.rowOf (p : Part) (d : Nat) : Option Nat := (p.docs[d]?).map (·.1)

/-- index.rs `InvertedIndex::bm25_search`: every partition, doc ids mapped to row keys, the prefilter mask
    (`blocked` = deleted rows) applied -/
def indexSearch (parts : List Part) (blocked : List Nat) (mode : Mode) (qtoks : List Token) : List Nat :=
  parts.flatMap (fun p => ((partSearch p mode qtoks).filterMap p.rowOf).filter (fun r => !blocked.contains r))

/-! ## 3. Table, index life cycle, queries -/

structure Row where
  id : Nat
  text : Option (List Char)
  frag : Nat
  deleted : Bool
  deriving Repr, DecidableEq

/-- the inverted index of the table: partitions and the fragments it covers (`fragment_bitmap`) -/
structure Idx where
  parts : List Part
  frags : List Nat
  deriving Repr

structure Ds where
  cfg : Cfg
  rows : List Row
  nfrags : Nat
  idx : Option Idx
  /-- `LANCE_FTS_TARGET_SIZE = 0`: the merger keeps the partitions apart -/
  split : Bool
  deriving Repr

def Ds.init (cfg : Cfg) (split : Bool := false) : Ds := ⟨cfg, [], 0, none, split⟩

/-- the documents a (re)build reads from the given fragments: live rows with a non-NULL text (`process_batch` skips NULLs) -/
def docsOf (ops : CharOps) (cfg : Cfg) (rows : List Row) (sel : Nat → Bool) : List IDoc :=
  rows.filterMap (fun r =>
    if sel r.frag && !r.deleted then r.text.map (fun t => ⟨r.id, tokenize ops cfg t⟩) else none)

/-- `Dataset::write` of one fragment per non-empty group; ids continue the row count -/
def Ds.appendFrag (ds : Ds) (docs : List (Option (List Char))) : Ds :=
  if docs.isEmpty then ds else
  { ds with
    rows := ds.rows ++ (docs.zipIdx.map (fun di => ⟨ds.rows.length + di.2, di.1, ds.nfrags, false⟩)),
    nfrags := ds.nfrags + 1 }

def Ds.append (ds : Ds) (frags : List (List (Option (List Char)))) : Ds := frags.foldl Ds.appendFrag ds

def Ds.delete (ds : Ds) (ids : List Nat) : Ds :=
  { ds with rows := ds.rows.map (fun r => if ids.contains r.id then { r with deleted := true } else r) }

/-- merger.rs `SizeBasedMerger::merge`, one input partition: token sets united (`tokens.add`), doc set appended with
    `doc_id_offset = builder.docs.len()`, every posting re-added under the shifted doc id -/
def mergeInto (acc p : Part) : Part :=
  ⟨acc.docs ++ p.docs,
   p.postings.foldl (fun ps e => e.2.foldl (fun ps o => addOcc ps e.1 (acc.docs.length + o.1, o.2)) ps) acc.postings⟩

/-- `SizeBasedMerger::merge` below the target size: at most one input partition is copied, several are merged into one;
    a merged partition without tokens is not written (`flush`) -/
def mergeAll (parts : List Part) : List Part :=
  match parts with
  | [] => []
  | [p] => [p]
  | _ =>
    let m := parts.foldl mergeInto Part.empty
    if m.postings.isEmpty then [] else [m]

/-- `SizeBasedMerger::merge` with target size 0: every input partition is flushed on its own (`flush` skips a builder
    without tokens); at most one input partition is copied as it is -/
def splitAll (parts : List Part) : List Part :=
  match parts with
  | [] => []
  | [p] => [p]
  | _ => parts.filter (fun p => !p.postings.isEmpty)

/-- a worker's partition; without tokens it is not written (`IndexWorker::flush` returns early) -/
def workerParts (docs : List IDoc) : List Part :=
  let p := buildPart docs
  if p.postings.isEmpty then [] else [p]

/-- a fragment is in the manifest iff it still has a live row (`delete` drops fully deleted fragments) -/
def Ds.liveFrag (ds : Ds) (f : Nat) : Bool := ds.rows.any (fun r => r.frag == f && !r.deleted)

/-- `create_index(replace = true)`: one worker (LANCE_FTS_NUM_SHARDS = 1) over every live non-NULL row, then the merger -/
def Ds.index (ops : CharOps) (ds : Ds) : Ds :=
  { ds with idx := some ⟨mergeAll (workerParts (docsOf ops ds.cfg ds.rows (fun _ => true))),
                         (List.range ds.nfrags).filter ds.liveFrag⟩ }

/-- `optimize_indices`: the unindexed fragments are indexed by one worker and merged with the existing partitions -/
def Ds.optimize (ops : CharOps) (ds : Ds) : Ds :=
  match ds.idx with
  | none => ds
  | some ix =>
    let newFrags := (List.range ds.nfrags).filter (fun f => ds.liveFrag f && !ix.frags.contains f)
    if newFrags.isEmpty then ds else
    { ds with idx := some ⟨(if ds.split then splitAll else mergeAll)
                             (ix.parts ++ workerParts (docsOf ops ds.cfg ds.rows (fun f => newFrags.contains f))),
                           ix.frags ++ newFrags⟩ }

/-- builder.rs `InnerBuilder::remap` (`DocSet::remap`, `PostingListBuilder::remap`, `TokenSet::remap`): the documents whose row
    was removed disappear, the doc ids of the following documents shift down, every surviving document keeps ITS positions,
    tokens without a posting left are removed from the token set -/
def Part.remap (p : Part) (keep : Nat → Bool) : Part :=
  let keptDoc := fun d => (p.docs[d]?).any (fun rd => keep rd.1)
  let newId := fun d => ((p.docs.take d).filter (fun rd => keep rd.1)).length
  ⟨p.docs.filter (fun rd => keep rd.1),
   (p.postings.map (fun e => (e.1, e.2.filterMap (fun o => if keptDoc o.1 then some (newId o.1, o.2) else none)))).filter
     (fun e => !e.2.isEmpty)⟩

/-- `compact_files` with `materialize_deletions` (threshold 0) + index remap: every fragment that is still in the manifest and
    has a deleted row is rewritten, and those rows are dropped from the index; the rows keep their keys and texts (their
    addresses change, which the model does not see).  Rows of fragments that were deleted entirely stay in the index. -/
def Ds.compact (ds : Ds) : Ds :=
  match ds.idx with
  | none => ds
  | some ix =>
    { ds with idx := some ⟨ix.parts.map (fun p => p.remap (fun id =>
        !ds.rows.any (fun r => r.id == id && r.deleted && ds.liveFrag r.frag))), ix.frags⟩ }

/-! ### queries -/

mutual
inductive Query where
  | matchQ (and : Bool) (text : List Char)
  | phrase (text : List Char)
  | bool (must should mustNot : QList)
inductive QList where
  | nil
  | cons (q : Query) (r : QList)
end

mutual
def Query.hasPhrase : Query → Bool
  | .matchQ _ _ => false
  | .phrase _ => true
  | .bool m s n => m.hasPhrase || s.hasPhrase || n.hasPhrase
def QList.hasPhrase : QList → Bool
  | .nil => false
  | .cons q r => q.hasPhrase || r.hasPhrase
end

def QList.isNil : QList → Bool
  | .nil => true
  | .cons _ _ => false

/-- index.rs `flat_bm25_search` + the `score > 0` filter of `flat_bm25_search_stream`, as a decision on one document.
    AND: a missing query token gives score 0.  Otherwise the score is a sum of `idf · weight` over the query tokens with
    `weight > 0` iff the token occurs and `idf > 0` (n ≤ N, see `idfPositive`), so it is positive iff some token occurs. -/
def flatHit (and : Bool) (qtoks docToks : List Token) : Bool :=
  if and then !qtoks.isEmpty && qtoks.all (fun t => docToks.contains t)
  else qtoks.any (fun t => docToks.contains t)

/-- scanner.rs `plan_flat_match_query` + fts.rs `FlatMatchQueryExec`: the live rows of the given fragments -/
def flatSearch (ops : CharOps) (cfg : Cfg) (ds : Ds) (sel : Nat → Bool) (and : Bool) (qtoks : List Token) : List Nat :=
  ds.rows.filterMap (fun r =>
    if sel r.frag && !r.deleted then
      match r.text with
      | some t => if flatHit and qtoks (tokenTexts ops cfg t) then some r.id else none
      | none => none
    else none)

/-- `flat_bm25_search_stream` with `index = None`: the bare `SimpleTokenizer` (no length filter, case-sensitive, no folding) -/
def rawCfg : Cfg := ⟨false, false, none, false⟩

/-- the tokenizer configuration queries run under: the index's, or the bare splitter while there is no index -/
def Ds.effCfg (ds : Ds) : Cfg :=
  match ds.idx with
  | none => rawCfg
  | some _ => ds.cfg

def Ds.blocked (ds : Ds) : List Nat := (ds.rows.filter (·.deleted)).map (·.id)

/-- scanner.rs `plan_match_query`: MatchQueryExec on the index ∪ FlatMatchQueryExec on the unindexed fragments
    (every fragment when there is no index) -/
def matchSearch (ops : CharOps) (ds : Ds) (and : Bool) (text : List Char) : List Nat :=
  match ds.idx with
  | none => flatSearch ops rawCfg ds (fun _ => true) and (tokenTexts ops rawCfg text)
  | some ix =>
    indexSearch ix.parts ds.blocked (if and then .and else .or) (tokenTexts ops ds.cfg text)
      ++ flatSearch ops ds.cfg ds (fun f => !ix.frags.contains f) and (tokenTexts ops ds.cfg text)

/-- scanner.rs `plan_phrase_query` + fts.rs `PhraseQueryExec`: the index only -/
def phraseSearch (ops : CharOps) (ds : Ds) (text : List Char) : List Nat :=
  match ds.idx with
  | none => []
  | some ix => indexSearch ix.parts ds.blocked .phrase (tokenTexts ops ds.cfg text)

mutual
/-- scanner.rs `plan_fts` + fts.rs `BooleanQueryExec::execute`: must joined on the row id, should added when there is
    no must, must_not removed -/
def evalQ (ops : CharOps) (ds : Ds) : Query → List Nat
  | .matchQ a t => matchSearch ops ds a t
  | .phrase t => phraseSearch ops ds t
  | .bool m s n =>
    let pos := if m.isNil then evalAny ops ds s else evalAll ops ds m
    pos.filter (fun r => !(evalAny ops ds n).contains r)
/-- union of the sub-results (UnionExec) -/
def evalAny (ops : CharOps) (ds : Ds) : QList → List Nat
  | .nil => []
  | .cons q r => evalQ ops ds q ++ evalAny ops ds r
/-- inner join of the sub-results on the row id (HashJoinExec); only called on a non-empty list -/
def evalAll (ops : CharOps) (ds : Ds) : QList → List Nat
  | .nil => []
  | .cons q r =>
    match r with
    | .nil => evalQ ops ds q
    | .cons _ _ => (evalQ ops ds q).filter (fun x => (evalAll ops ds r).contains x)
end

def QList.toList : QList → List Query
  | .nil => []
  | .cons q r => q :: r.toList

/-- the histories of a table -/
inductive Op where
  | append (frags : List (List (Option (List Char))))
  | delete (ids : List Nat)
  | index
  | optimize
  | compact

def Ds.step (ops : CharOps) (ds : Ds) : Op → Ds
  | .append frags => ds.append frags
  | .delete ids => ds.delete ids
  | .index => ds.index ops
  | .optimize => ds.optimize ops
  | .compact => ds.compact

/-- the table after a history (`create` is the first `append`) -/
def Ds.run (ops : CharOps) (cfg : Cfg) (history : List Op) (split : Bool := false) : Ds :=
  history.foldl (Ds.step ops) (Ds.init cfg split)

/-- the planner refuses a phrase query without an inverted index or without positions (`plan_phrase_query`) -/
def queryRefused (ds : Ds) (q : Query) : Bool :=
  q.hasPhrase && (match ds.idx with | none => true | some _ => !ds.cfg.withPos)

/-! ### what the index statistics report -/

def Idx.numDocs (ix : Idx) : Nat := (ix.parts.map (fun p => p.docs.length)).sum
def Idx.numTokens (ix : Idx) : Nat := (ix.parts.map (fun p => p.postings.length)).sum
def Ds.unindexed (ds : Ds) (ix : Idx) : Nat :=
  ((List.range ds.nfrags).filter (fun f => ds.liveFrag f && !ix.frags.contains f)).length
def Ds.liveCount (ds : Ds) : Nat := (ds.rows.filter (fun r => !r.deleted)).length

/-! ## 4. BM25 order (scorer.rs) -/

/-- `IndexBM25Scorer::doc_weight(freq, doc_tokens)` with K1 = 1.2, B = 0.75 and avgdl = totalTokens / numDocs is
    `2.2·f / (f + 0.3 + 0.9·dl·N/T) = 22·f·T / (10·f·T + 3·T + 9·dl·N)`; numerator and denominator: -/
def weightNum (f _dl _n t : Nat) : Nat := 22 * f * t
def weightDen (f dl n t : Nat) : Nat := 10 * f * t + 3 * t + 9 * dl * n

/-- `w(f1, dl1) ≤ w(f2, dl2)` by cross multiplication -/
def weightLe (n t : Nat) (a b : Nat × Nat) : Bool :=
  decide (weightNum a.1 a.2 n t * weightDen b.1 b.2 n t ≤ weightNum b.1 b.2 n t * weightDen a.1 a.2 n t)

end LanceModel.C23
