import LanceModel.C23.RemapLemmas
/-! C23 — every operation keeps the index consistent with the rows -/
namespace LanceModel.C23

theorem contains_iff {l : List Nat} {a : Nat} : l.contains a = true ↔ a ∈ l := by simp

/-! ### append -/

theorem consistent_appendFrag (ops : CharOps) (ds : Ds) (docs : List (Option (List Char))) (h : Consistent ops ds) :
    Consistent ops (ds.appendFrag docs) := by
  unfold Ds.appendFrag
  split
  · exact h
  · have hnew : ∀ r ∈ docs.zipIdx.map (fun di => (⟨ds.rows.length + di.2, di.1, ds.nfrags, false⟩ : Row)), r.frag = ds.nfrags := by
      intro r hr
      obtain ⟨di, _, rfl⟩ := List.mem_map.1 hr
      rfl
    refine ⟨⟨?_, ?_⟩, ?_⟩
    · simp only [List.map_append, List.map_map, List.length_append, List.length_map, List.length_zipIdx]
      rw [h.wf.ids, List.range_add]
      congr 1
      rw [List.range_eq_range', ← List.zipIdx_map_snd 0 docs, List.map_map]
      rfl
    · intro r hr
      simp only [List.mem_append] at hr
      rcases hr with hr | hr
      · have := h.wf.frags r hr; show r.frag < ds.nfrags + 1; omega
      · have := hnew r hr; show r.frag < ds.nfrags + 1; omega
    · intro ix hix
      obtain ⟨hf, docss, hrep, hA, hB⟩ := h.idx ix hix
      refine ⟨fun f hfm => by have := hf f hfm; show f < ds.nfrags + 1; omega, docss, hrep, ?_, ?_⟩
      · intro doc hd
        obtain ⟨r, hr, rest⟩ := hA doc hd
        exact ⟨r, List.mem_append_left _ hr, rest⟩
      · intro r hr hdel hc t ht hne
        simp only [List.mem_append] at hr
        rcases hr with hr | hr
        · exact hB r hr hdel hc t ht hne
        · have h1 := hnew r hr
          have h2 := hf r.frag (contains_iff.1 hc)
          omega

theorem consistent_append (ops : CharOps) (ds : Ds) (frags : List (List (Option (List Char)))) (h : Consistent ops ds) :
    Consistent ops (ds.append frags) := by
  unfold Ds.append
  induction frags generalizing ds with
  | nil => exact h
  | cons f r ih => exact ih _ (consistent_appendFrag ops ds f h)

/-! ### delete -/

theorem consistent_delete (ops : CharOps) (ds : Ds) (ids : List Nat) (h : Consistent ops ds) :
    Consistent ops (ds.delete ids) := by
  let f : Row → Row := fun r => if ids.contains r.id then { r with deleted := true } else r
  have fid : ∀ r, (f r).id = r.id := by intro r; simp only [f]; split <;> rfl
  have ffrag : ∀ r, (f r).frag = r.frag := by intro r; simp only [f]; split <;> rfl
  have ftext : ∀ r, (f r).text = r.text := by intro r; simp only [f]; split <;> rfl
  have fdel : ∀ r, (f r).deleted = false → r.deleted = false := by
    intro r; simp only [f]; split
    · intro hx; cases hx
    · exact id
  have hrows : (ds.delete ids).rows = ds.rows.map f := rfl
  refine ⟨⟨?_, ?_⟩, ?_⟩
  · rw [hrows]
    simp only [List.map_map, List.length_map]
    have : ((fun r : Row => r.id) ∘ f) = (fun r : Row => r.id) := by funext r; exact fid r
    rw [this]; exact h.wf.ids
  · intro r hr
    rw [hrows] at hr
    obtain ⟨r0, hr0, rfl⟩ := List.mem_map.1 hr
    rw [ffrag]; exact h.wf.frags r0 hr0
  · intro ix hix
    obtain ⟨hf, docss, hrep, hA, hB⟩ := h.idx ix hix
    refine ⟨hf, docss, hrep, ?_, ?_⟩
    · intro doc hd
      obtain ⟨r, hr, h1, h2, t, h3, h4⟩ := hA doc hd
      exact ⟨f r, by rw [hrows]; exact List.mem_map.2 ⟨r, hr, rfl⟩, by rw [fid]; exact h1, by rw [ffrag]; exact h2,
        t, by rw [ftext]; exact h3, h4⟩
    · intro r hr hdel hc t ht hne
      rw [hrows] at hr
      obtain ⟨r0, hr0, rfl⟩ := List.mem_map.1 hr
      obtain ⟨doc, hd, hid⟩ := hB r0 hr0 (fdel r0 hdel) (by rw [← ffrag]; exact hc) t (by rw [← ftext]; exact ht) hne
      exact ⟨doc, hd, by rw [fid]; exact hid⟩

/-! ### (re)build -/

theorem liveFrag_of_row (ds : Ds) (r : Row) (hr : r ∈ ds.rows) (hdel : r.deleted = false) : ds.liveFrag r.frag = true := by
  unfold Ds.liveFrag
  simp only [List.any_eq_true, Bool.and_eq_true, beq_iff_eq, Bool.not_eq_true']
  exact ⟨r, hr, rfl, hdel⟩

theorem consistent_index (ops : CharOps) (ds : Ds) (h : Consistent ops ds) : Consistent ops (ds.index ops) := by
  refine ⟨⟨h.wf.ids, h.wf.frags⟩, ?_⟩
  intro ix hix
  simp only [Ds.index, Option.some.injEq] at hix
  subst hix
  obtain ⟨dW, hW, hW1, hW2⟩ := workerParts_repr (docsOf ops ds.cfg ds.rows (fun _ => true))
  obtain ⟨dM, hM, hM1, hM2⟩ := mergeAll_repr hW
  refine ⟨?_, dM, hM, ?_, ?_⟩
  · intro f hf
    simp only [List.mem_filter, List.mem_range] at hf
    exact hf.1
  · intro doc hd
    obtain ⟨r, hr, _, hdel, t, ht, hdoc⟩ := (mem_docsOf ops ds.cfg ds.rows _ doc).1 (hW1 doc (hM1 doc hd))
    refine ⟨r, hr, by rw [hdoc], ?_, t, ht, by rw [hdoc]; rfl⟩
    apply contains_iff.2
    simp only [List.mem_filter, List.mem_range]
    exact ⟨h.wf.frags r hr, liveFrag_of_row ds r hr hdel⟩
  · intro r hr hdel _ t ht hne
    have hin : (⟨r.id, tokenize ops ds.cfg t⟩ : IDoc) ∈ docsOf ops ds.cfg ds.rows (fun _ => true) :=
      (mem_docsOf ops ds.cfg ds.rows _ _).2 ⟨r, hr, rfl, hdel, t, ht, rfl⟩
    exact ⟨_, hM2 _ (hW2 _ hin hne) hne, rfl⟩

theorem consistent_optimize (ops : CharOps) (ds : Ds) (h : Consistent ops ds) : Consistent ops (ds.optimize ops) := by
  unfold Ds.optimize
  cases hix : ds.idx with
  | none => simpa [hix] using h
  | some ix =>
    simp only []
    split
    · exact h
    · obtain ⟨hf, dO, hO, hA, hB⟩ := h.idx ix hix
      refine ⟨⟨h.wf.ids, h.wf.frags⟩, ?_⟩
      intro ix' hix'
      simp only [Option.some.injEq] at hix'
      subst hix'
      obtain ⟨dW, hW, hW1, hW2⟩ := workerParts_repr (docsOf ops ds.cfg ds.rows
        (fun f => ((List.range ds.nfrags).filter (fun f => ds.liveFrag f && !ix.frags.contains f)).contains f))
      obtain ⟨dM, hM, hM1, hM2⟩ : ∃ docss', ReprAll ((if ds.split then splitAll else mergeAll) (ix.parts ++ workerParts (docsOf ops ds.cfg ds.rows
          (fun f => ((List.range ds.nfrags).filter (fun f => ds.liveFrag f && !ix.frags.contains f)).contains f)))) docss' ∧
          (∀ doc, doc ∈ docss'.flatten → doc ∈ (dO ++ dW).flatten) ∧ (∀ doc ∈ (dO ++ dW).flatten, doc.toks ≠ [] → doc ∈ docss'.flatten) := by
        cases ds.split
        · exact mergeAll_repr (reprAll_append hO hW)
        · exact splitAll_repr (reprAll_append hO hW)
      refine ⟨?_, dM, hM, ?_, ?_⟩
      · intro f hfm
        simp only [List.mem_append, List.mem_filter, List.mem_range] at hfm
        rcases hfm with hfm | hfm
        · exact hf f hfm
        · exact hfm.1
      · intro doc hd
        have hd' := hM1 doc hd
        simp only [List.flatten_append, List.mem_append] at hd'
        rcases hd' with hd' | hd'
        · obtain ⟨r, hr, h1, h2, rest⟩ := hA doc hd'
          refine ⟨r, hr, h1, ?_, rest⟩
          apply contains_iff.2
          exact List.mem_append_left _ (contains_iff.1 h2)
        · obtain ⟨r, hr, hsel, _, t, ht, hdoc⟩ := (mem_docsOf ops ds.cfg ds.rows _ doc).1 (hW1 doc hd')
          refine ⟨r, hr, by rw [hdoc], ?_, t, ht, by rw [hdoc]⟩
          apply contains_iff.2
          exact List.mem_append_right _ (contains_iff.1 hsel)
      · intro r hr hdel hc t ht hne
        have hc' := contains_iff.1 hc
        simp only [List.mem_append] at hc'
        by_cases hold : ix.frags.contains r.frag = true
        · obtain ⟨doc, hd, hid⟩ := hB r hr hdel hold t ht hne
          obtain ⟨r', hr', h1, _, t', ht', htoks⟩ := hA doc hd
          have : r' = r := row_unique h.wf hr' hr (by rw [h1, hid])
          subst this
          rw [ht] at ht'; injection ht' with ht'; subst ht'
          refine ⟨doc, hM2 doc ?_ (by rw [htoks]; exact hne), hid⟩
          simp only [List.flatten_append, List.mem_append]
          exact Or.inl hd
        · have hnew : r.frag ∈ (List.range ds.nfrags).filter (fun f => ds.liveFrag f && !ix.frags.contains f) := by
            rcases hc' with hc' | hc'
            · exact absurd (contains_iff.2 hc') hold
            · exact hc'
          have hin : (⟨r.id, tokenize ops ds.cfg t⟩ : IDoc) ∈ docsOf ops ds.cfg ds.rows
              (fun f => ((List.range ds.nfrags).filter (fun f => ds.liveFrag f && !ix.frags.contains f)).contains f) :=
            (mem_docsOf ops ds.cfg ds.rows _ _).2 ⟨r, hr, contains_iff.2 hnew, hdel, t, ht, rfl⟩
          refine ⟨⟨r.id, tokenize ops ds.cfg t⟩, hM2 _ ?_ hne, rfl⟩
          simp only [List.flatten_append, List.mem_append]
          exact Or.inr (hW2 _ hin hne)

/-! ### compaction (index remap) -/

theorem consistent_compact (ops : CharOps) (ds : Ds) (h : Consistent ops ds) : Consistent ops ds.compact := by
  unfold Ds.compact
  cases hix : ds.idx with
  | none => simpa [hix] using h
  | some ix =>
    simp only []
    obtain ⟨hf, dO, hO, hA, hB⟩ := h.idx ix hix
    refine ⟨⟨h.wf.ids, h.wf.frags⟩, ?_⟩
    intro ix' hix'
    simp only [Option.some.injEq] at hix'
    subst hix'
    refine ⟨hf, _, reprAll_map_remap _ hO, ?_, ?_⟩
    · intro doc hd
      exact hA doc ((mem_flatten_map_filter _ _ doc).1 hd).1
    · intro r hr hdel hc t ht hne
      obtain ⟨doc, hd, hid⟩ := hB r hr hdel hc t ht hne
      refine ⟨doc, (mem_flatten_map_filter _ _ doc).2 ⟨hd, ?_⟩, hid⟩
      simp only [Bool.not_eq_true', List.any_eq_false, Bool.and_eq_true, beq_iff_eq, not_and, Bool.not_eq_true]
      intro r' hr' hid'
      have : r' = r := row_unique h.wf hr' hr (by rw [hid'.1, hid])
      subst this
      have := hid'.2
      rw [hdel] at this; cases this

theorem cfg_step (ops : CharOps) (ds : Ds) (op : Op) : (ds.step ops op).cfg = ds.cfg := by
  cases op with
  | append frags =>
    simp only [Ds.step, Ds.append]
    induction frags generalizing ds with
    | nil => rfl
    | cons f r ih =>
      simp only [List.foldl_cons]
      rw [ih]
      unfold Ds.appendFrag
      split <;> rfl
  | delete ids => rfl
  | index => rfl
  | compact =>
    simp only [Ds.step, Ds.compact]
    cases ds.idx with
    | none => rfl
    | some ix => rfl
  | optimize =>
    simp only [Ds.step, Ds.optimize]
    cases ds.idx with
    | none => rfl
    | some ix => simp only []; split <;> rfl

theorem consistent_step (ops : CharOps) (ds : Ds) (op : Op) (h : Consistent ops ds) : Consistent ops (ds.step ops op) := by
  cases op with
  | append frags => exact consistent_append ops ds frags h
  | delete ids => exact consistent_delete ops ds ids h
  | index => exact consistent_index ops ds h
  | optimize => exact consistent_optimize ops ds h
  | compact => exact consistent_compact ops ds h

/-- along every history the index stays consistent with the rows -/
theorem consistent_run (ops : CharOps) (cfg : Cfg) (history : List Op) (split : Bool := false) :
    Consistent ops (Ds.run ops cfg history split) := by
  unfold Ds.run
  suffices ∀ ds, Consistent ops ds → Consistent ops (history.foldl (Ds.step ops) ds) from this _ (consistent_init ops cfg split)
  induction history with
  | nil => intro ds h; exact h
  | cons op r ih => intro ds h; exact ih _ (consistent_step ops ds op h)

theorem cfg_run (ops : CharOps) (cfg : Cfg) (history : List Op) (split : Bool := false) :
    (Ds.run ops cfg history split).cfg = cfg := by
  unfold Ds.run
  suffices ∀ ds, (history.foldl (Ds.step ops) ds).cfg = ds.cfg from this _
  induction history with
  | nil => intro ds; rfl
  | cons op r ih => intro ds; simp only [List.foldl_cons]; rw [ih, cfg_step]

end LanceModel.C23
