import LanceModel.Util
import LanceModel.C23.Model
/-
C23 driver: one dataset per case; one output line per op line (grammar in harness/src/bin/c23.rs).
-/
namespace LanceModel.C23.Driver
open LanceModel.Util LanceModel.C23

/-- non-ASCII characters of the harness universe: é É ü Ü ß ñ 中 文 İ U+0307 € -/
def nonAscii : List Nat := [0xE9, 0xC9, 0xFC, 0xDC, 0xDF, 0xF1, 0x4E2D, 0x6587, 0x130, 0x307, 0x20AC]

def inUniverse (n : Nat) : Bool := (0x20 ≤ n && n ≤ 0x7E) || nonAscii.contains n

/-- the finite excerpt of the Unicode tables that covers the universe:
    `char::is_alphanumeric`, `char::to_lowercase`, tantivy `fold_non_ascii_char` -/
def stdOps : CharOps where
  isAlnum c := if c.toNat < 128 then c.isAlphanum else [0xE9, 0xC9, 0xFC, 0xDC, 0xDF, 0xF1, 0x4E2D, 0x6587, 0x130].contains c.toNat
  lower c :=
    if c.toNat < 128 then [c.toLower]
    else if c.toNat = 0xC9 then [Char.ofNat 0xE9]
    else if c.toNat = 0xDC then [Char.ofNat 0xFC]
    else if c.toNat = 0x130 then ['i', Char.ofNat 0x307]
    else [c]
  fold c :=
    if c.toNat = 0xE9 then ['e'] else if c.toNat = 0xC9 then ['E']
    else if c.toNat = 0xFC then ['u'] else if c.toNat = 0xDC then ['U']
    else if c.toNat = 0xF1 then ['n'] else if c.toNat = 0x130 then ['I']
    else if c.toNat = 0xDF then ['s', 's'] else [c]

def parseCp (s : String) : Option Char :=
  if s.isEmpty || s.length > 7 || !s.all Char.isDigit then none
  else match s.toNat? with
    | some n => if inUniverse n then some (Char.ofNat n) else none
    | none => none

/-- `n` = NULL, `e` = empty, else code points joined by `.` -/
def parseText (s : String) : Option (Option (List Char)) :=
  if s = "n" then some none
  else if s = "e" then some (some [])
  else ((s.splitOn ".").mapM parseCp).map some

def parseDocs (s : String) : Option (List (Option (List Char))) :=
  if s = "-" then some [] else (s.splitOn ",").mapM parseText

def parseFrags (s : String) : Option (List (List (Option (List Char)))) := (s.splitOn "|").mapM parseDocs

def showText (t : List Char) : String :=
  if t.isEmpty then "e" else ".".intercalate (t.map (fun c => toString c.toNat))

def parseBit (s k : String) : Option Bool :=
  if s = k ++ "0" then some false else if s = k ++ "1" then some true else none

def parseCfg4 : List String → Option Cfg
  | [a, b, c, d] =>
    match parseBit a "lower=", parseBit b "fold=", parseBit d "pos=" with
    | some l, some f, some p =>
      if c = "maxlen=none" then some ⟨l, f, none, p⟩
      else if c.startsWith "maxlen=" then
        let v := (c.drop 7).toString
        if v.isEmpty || v.length > 4 || !v.all Char.isDigit then none
        else v.toNat?.map (fun m => ⟨l, f, some m, p⟩)
      else none
    | _, _, _ => none
  | _ => none

/-- -> (cfg, split) -/
def parseCfg : List String → Option (Cfg × Bool)
  | [a, b, c, d] => (parseCfg4 [a, b, c, d]).map (fun c => (c, false))
  | [a, b, c, d, e] =>
    if e = "parts=split" then (parseCfg4 [a, b, c, d]).map (fun c => (c, true))
    else if e = "parts=merge" then (parseCfg4 [a, b, c, d]).map (fun c => (c, false))
    else none
  | _ => none

def parseCount (s : String) : Option Nat :=
  match s.toNat? with
  | some n => if n ≤ 4 then some n else none
  | none => none

mutual
/-- prefix form; returns the query and the remaining tokens -/
def parseQuery : Nat → Nat → List String → Option (Query × List String)
  | 0, _, _ => none
  | fuel + 1, depth, toks =>
    if depth > 4 then none else
    match toks with
    | "mo" :: t :: rest => match parseText t with
      | some (some x) => some (.matchQ false x, rest)
      | _ => none
    | "ma" :: t :: rest => match parseText t with
      | some (some x) => some (.matchQ true x, rest)
      | _ => none
    | "ph" :: t :: rest => match parseText t with
      | some (some x) => some (.phrase x, rest)
      | _ => none
    | "bo" :: a :: b :: c :: rest =>
      match parseCount a, parseCount b, parseCount c with
      | some na, some nb, some nc =>
        match parseQList fuel (depth + 1) na rest with
        | some (m, r1) => match parseQList fuel (depth + 1) nb r1 with
          | some (s, r2) => match parseQList fuel (depth + 1) nc r2 with
            | some (n, r3) => some (.bool m s n, r3)
            | none => none
          | none => none
        | none => none
      | _, _, _ => none
    | _ => none
def parseQList : Nat → Nat → Nat → List String → Option (QList × List String)
  | 0, _, _, _ => none
  | _ + 1, _, 0, toks => some (.nil, toks)
  | fuel + 1, depth, n + 1, toks =>
    match parseQuery fuel depth toks with
    | some (q, r) => match parseQList fuel depth n r with
      | some (qs, r') => some (.cons q qs, r')
      | none => none
    | none => none
end

mutual
/-- a boolean query needs a must or a should clause (`plan_fts` refuses otherwise; `err parse` on both sides) -/
def validBool : Query → Bool
  | .bool m s n => !(m.isNil && s.isNil) && validBoolL m && validBoolL s && validBoolL n
  | _ => true
def validBoolL : QList → Bool
  | .nil => true
  | .cons q r => validBool q && validBoolL r
end

def parseFullQuery (toks : List String) : Option Query :=
  match parseQuery (2 * toks.length + 2) 0 toks with
  | some (q, []) => if validBool q then some q else none
  | _ => none

def dedupSorted : List Nat → List Nat
  | a :: b :: r => if a = b then dedupSorted (b :: r) else a :: dedupSorted (b :: r)
  | l => l

def showSet (l : List Nat) : String := showNatList (dedupSorted (sortNat l))

structure St where
  cfg : Cfg
  ds : Option Ds
  split : Bool := false
  compacted : Bool := false

def St.init : St := ⟨⟨true, true, none, true⟩, none, false, false⟩

def bad : String := "err parse"

def statsLine (ds : Ds) : String :=
  match ds.idx with
  | none => "ok none"
  | some ix => s!"ok docs={ix.numDocs} toks={ix.numTokens} unidx={ds.unindexed ix}"

def parseK (s : String) : Option Nat :=
  if s.length > 4 || !s.all Char.isDigit then none
  else match s.toNat? with
    | some k => if 1 ≤ k && k ≤ 1000 then some k else none
    | none => none

/-- `top k`: the limit is applied by the index search and by the sort above index ∪ flat; the flat-only plan (no index)
    has no fetch; `BooleanQueryExec` truncates by itself -/
def runQuery (ds : Ds) (k : Option Nat) (toks : List String) : String :=
  match parseFullQuery toks with
  | none => bad
  | some q =>
    if queryRefused ds q then "err invalid_input" else
    let res := dedupSorted (sortNat (evalQ stdOps ds q))
    match k with
    | none => "ok " ++ showNatList res
    | some k =>
      let limited := ds.idx.isSome || (match q with | .bool _ _ _ => true | _ => false)
      if limited then s!"ok n={min k res.length}" else s!"ok n={res.length}"

def step (s : St) (line : String) : St × String :=
  match splitTokens line, s.ds with
  | "cfg" :: rest, none =>
    match parseCfg rest with
    | some (c, sp) => ({ s with cfg := c, split := sp }, "ok")
    | none => (s, bad)
  | ["tok", t], _ =>
    match parseText t with
    | some (some x) =>
      let ts := tokenize stdOps s.cfg x
      (s, if ts.isEmpty then "ok -" else "ok " ++ ";".intercalate (ts.map (fun pt => toString pt.1 ++ ":" ++ showText pt.2)))
    | _ => (s, bad)
  | ["create", f], none =>
    match parseFrags f with
    | some (g :: gs) =>
      if g.isEmpty then (s, bad) else
      let ds := (Ds.init s.cfg s.split).append (g :: gs)
      ({ s with ds := some ds }, s!"ok n={ds.liveCount}")
    | _ => (s, bad)
  | ["append", f], some ds =>
    match parseFrags f with
    | some gs =>
      let ds := ds.append gs
      ({ s with ds := some ds }, s!"ok n={ds.liveCount}")
    | none => (s, bad)
  | ["index"], some ds =>
    let ds := ds.index stdOps
    ({ s with ds := some ds }, statsLine ds)
  | ["optimize"], some ds =>
    let ds := ds.optimize stdOps
    ({ s with ds := some ds }, statsLine ds)
  | ["compact"], some ds =>
    if s.compacted then (s, bad) else
    let ds := ds.compact
    ({ s with ds := some ds, compacted := true },
      match ds.idx with
      | none => "ok none"
      | some ix => s!"ok docs={ix.numDocs} toks={ix.numTokens}")
  | ["delete", l], some ds =>
    match parseNatList l with
    | some (i :: is) =>
      let ds := ds.delete (i :: is)
      ({ s with ds := some ds }, s!"ok n={ds.liveCount}")
    | _ => (s, bad)
  | "q" :: rest, some ds => (s, runQuery ds none rest)
  | "top" :: k :: rest, some ds =>
    match parseK k with
    | some k => (s, runQuery ds (some k) rest)
    | none => (s, bad)
  | _, _ => (s, bad)

end LanceModel.C23.Driver
