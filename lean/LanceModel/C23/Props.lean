import LanceModel.C23.SpecLemmas
import LanceModel.C23.TokLemmas
/-!
# C23 — property theorems

"A full-text query returns exactly the documents that contain its terms under the index's tokenizer (all terms for AND,
any for OR, the exact token sequence for phrase queries), excluding deleted rows and including unindexed new rows, with
scores ordered as the documented BM25 ranking."

Everything below is about the model in `Model.lean`; the tie to the lance code (tokenizer.rs, builder.rs, index.rs, wand.rs,
scorer.rs, fts.rs, scanner.rs) is the correspondence run of `./check C23`.

Character classes are parameters (`CharOps`: Unicode `is_alphanumeric`, `to_lowercase`, tantivy's ASCII-folding table):
every theorem holds for EVERY such table, so nothing here depends on how much of Unicode the driver's finite table covers.
For non-ASCII text the code uses the Unicode tables: `é`, `ß`, `中` are alphanumeric; lower-casing is per character and may
lengthen a token (`İ` becomes `i` + U+0307); folding runs after lower-casing and maps `ß` to `ss`.

Row keys stand for row ids; a table history is a list of `Op` (append of fragments, delete, index (re)build, optimize,\ncompaction with index remap); `split` = the merger keeps the partitions apart (LANCE_FTS_TARGET_SIZE = 0).
-/
namespace LanceModel.C23

/-! ## 1. Tokenizer -/

/-- `tokenizer_spec`: the raw tokens are the maximal alphanumeric runs — no text gives no token, a token never spans a
    non-alphanumeric character, an alphanumeric word is exactly one token (these three equations determine `runs` on every
    text), every token is a non-empty alphanumeric word and the tokens concatenate to the alphanumeric characters of the text;
    the stream keeps the runs of fewer than `maxLen` UTF-8 bytes, under their ORIGINAL run number, lower-cased and folded. -/
theorem tokenizer_spec (ops : CharOps) (cfg : Cfg) :
    runs ops.isAlnum [] = [] ∧
    (∀ a b c, ops.isAlnum c = false → runs ops.isAlnum (a ++ c :: b) = runs ops.isAlnum a ++ runs ops.isAlnum b) ∧
    (∀ w, w ≠ [] → (∀ c ∈ w, ops.isAlnum c = true) → runs ops.isAlnum w = [w]) ∧
    (∀ s t, t ∈ runs ops.isAlnum s → t ≠ [] ∧ ∀ c ∈ t, ops.isAlnum c = true) ∧
    (∀ s, (runs ops.isAlnum s).flatten = s.filter ops.isAlnum) ∧
    (∀ s pos t, (pos, t) ∈ tokenize ops cfg s ↔
        ∃ r, (runs ops.isAlnum s)[pos]? = some r ∧ keepLen cfg r = true ∧ t = normTok ops cfg r) := by
  refine ⟨rfl, runs_sep _, runs_word _, runs_mem _, runs_flatten _, ?_⟩
  intro s pos t
  simp only [tokenize, List.mem_map, List.mem_filter, Prod.mk.injEq]
  constructor
  · rintro ⟨⟨r, i⟩, ⟨hm, hk⟩, hi, ht⟩
    simp only at hi ht hk
    subst hi
    exact ⟨r, by simpa using (List.mem_zipIdx_iff_getElem?.1 hm), hk, ht.symm⟩
  · rintro ⟨r, hr, hk, ht⟩
    exact ⟨(r, pos), ⟨List.mem_zipIdx_iff_getElem?.2 (by simpa using hr), hk⟩, rfl, ht.symm⟩

/-- the ASCII table: ASCII letters and digits, ASCII lower-casing, nothing to fold -/
def asciiOps : CharOps := ⟨Char.isAlphanum, fun c => [c.toLower], fun c => [c]⟩

/-- for ASCII (lower-casing on, no length limit) the tokens are the maximal runs of ASCII letters and digits, lower-cased -/
theorem tokenizer_ascii (fold pos : Bool) (s : List Char) :
    tokenTexts asciiOps ⟨true, fold, none, pos⟩ s = (runs Char.isAlphanum s).map (fun t => t.map Char.toLower) := by
  have fm : ∀ (f : Char → Char) (t : Token), t.flatMap (fun c => [f c]) = t.map f := by
    intro f t
    induction t with
    | nil => rfl
    | cons c r ih => simp [List.flatMap_cons, ih]
  have hn : ∀ t : Token, normTok asciiOps ⟨true, fold, none, pos⟩ t = t.map Char.toLower := by
    intro t
    cases fold
    · simp only [normTok, asciiOps, if_true, Bool.false_eq_true, if_false]; exact fm _ t
    · simp only [normTok, asciiOps, if_true]
      rw [fm Char.toLower t]
      simp
  simp only [tokenTexts, tokenize, keepLen, List.map_map, asciiOps]
  rw [List.filter_eq_self.2 (fun _ _ => rfl)]
  have : ((fun x : Nat × Token => x.2) ∘ fun ti : Token × Nat => (ti.2, normTok asciiOps ⟨true, fold, none, pos⟩ ti.1))
      = (fun t : Token => t.map Char.toLower) ∘ Prod.fst := by
    funext ti; simp [hn]
  show List.map ((fun x : Nat × Token => x.2) ∘ fun ti : Token × Nat => (ti.2, normTok asciiOps ⟨true, fold, none, pos⟩ ti.1)) _ = _
  rw [this, ← List.map_map, List.zipIdx_map_fst]

example : tokenize asciiOps ⟨true, true, some 5, true⟩ "Hi, you-elephant x1".toList =
    [(0, "hi".toList), (1, "you".toList), (3, "x1".toList)] := by decide

/-! ## 2. The inverted index is faithful -/

/-- the partition built by `process_batch` records exactly the token occurrences of its documents … -/
theorem index_faithful (docs : List IDoc) (t : Token) (d pos : Nat) :
    OccIn (buildPart docs).postings t (d, pos) ↔ ∃ doc, docs[d]? = some doc ∧ (pos, t) ∈ doc.toks :=
  (repr_build docs).occ t (d, pos)

/-- … and merging partitions (`SizeBasedMerger`) gives the index of the concatenated documents -/
theorem merge_faithful (a b : List IDoc) (t : Token) (d pos : Nat) :
    OccIn (mergeInto (buildPart a) (buildPart b)).postings t (d, pos) ↔
      ∃ doc, (a ++ b)[d]? = some doc ∧ (pos, t) ∈ doc.toks :=
  (repr_mergeInto _ _ a b (repr_build a) (repr_build b)).occ t (d, pos)

/-- … and the remap of a compaction (`InnerBuilder::remap`: documents of removed rows dropped, doc ids shifted, every surviving
    document keeps its own positions, emptied tokens removed) gives the index of the surviving documents -/
theorem remap_faithful (docs : List IDoc) (keep : Nat → Bool) (t : Token) (d pos : Nat) :
    OccIn ((buildPart docs).remap keep).postings t (d, pos) ↔
      ∃ doc, (docs.filter (fun x => keep x.rowId))[d]? = some doc ∧ (pos, t) ∈ doc.toks :=
  (repr_remap _ docs keep (repr_build docs)).occ t (d, pos)

example : partSearch ((buildPart [⟨7, [(0, ['a']), (1, ['b'])]⟩, ⟨8, [(0, ['c'])]⟩, ⟨9, [(0, ['b']), (1, ['a'])]⟩]).remap (· != 7))
    .phrase [['b'], ['a']] = [1] := by decide

/-- searching one partition: for EVERY corpus and EVERY query the returned doc ids are exactly the documents that contain
    any token (OR) / every token (AND) / the tokens at consecutive positions (phrase) -/
theorem partition_match_set (docs : List IDoc) (mode : Mode) (q : List Token) (d : Nat) :
    d ∈ partSearch (buildPart docs) mode q ↔ ∃ doc, docs[d]? = some doc ∧ DocMatch mode q doc.toks :=
  partSearch_iff (repr_build docs) mode q d

example : partSearch (buildPart [⟨7, [(0, ['a']), (1, ['b'])]⟩, ⟨9, [(0, ['b']), (1, ['a'])]⟩]) .phrase [['a'], ['b']] = [0] := by
  decide

/-- the answer of the index does not depend on how its documents are spread over partitions (several workers, merges,
    partitions above the target size): any two partition lists holding the same documents return the same rows -/
theorem partition_independent (parts parts' : List Part) (docss docss' : List (List IDoc))
    (h : ReprAll parts docss) (h' : ReprAll parts' docss') (same : ∀ doc, doc ∈ docss.flatten ↔ doc ∈ docss'.flatten)
    (blocked : List Nat) (mode : Mode) (q : List Token) (x : Nat) :
    x ∈ indexSearch parts blocked mode q ↔ x ∈ indexSearch parts' blocked mode q := by
  rw [indexSearch_iff h, indexSearch_iff h']
  constructor
  · rintro ⟨hb, doc, hd, rest⟩; exact ⟨hb, doc, (same doc).1 hd, rest⟩
  · rintro ⟨hb, doc, hd, rest⟩; exact ⟨hb, doc, (same doc).2 hd, rest⟩

example : indexSearch [buildPart [⟨7, [(0, ['a'])]⟩], buildPart [⟨9, [(0, ['b']), (1, ['a'])]⟩]] [] .and [['a']] = [7, 9] ∧
    indexSearch [buildPart [⟨7, [(0, ['a'])]⟩, ⟨9, [(0, ['b']), (1, ['a'])]⟩]] [] .and [['a']] = [7, 9] := by decide

/-! ## 3. Match queries: all / any terms, minus deleted, plus unindexed rows — for every history -/

/-- the configuration queries run under: the index's configuration `cfg` once an index exists -/
theorem effCfg_run (ops : CharOps) (cfg : Cfg) (history : List Op) (split : Bool) :
    (Ds.run ops cfg history split).effCfg = if (Ds.run ops cfg history split).idx.isSome then cfg else rawCfg := by
  unfold Ds.effCfg
  cases (Ds.run ops cfg history split).idx with
  | none => rfl
  | some ix => simp [cfg_run]

/-- `match_set`: after ANY history of appends, deletes, index builds and optimisations, a match query returns exactly the
    live rows (indexed or not) whose text contains any (OR) / all (AND) of the query's tokens, under the index's tokenizer
    configuration (`effCfg`: `cfg` once an index exists; before that lance splits with the bare simple tokenizer) -/
theorem match_set (ops : CharOps) (cfg : Cfg) (history : List Op) (split : Bool) (and : Bool) (text : List Char) (x : Nat) :
    x ∈ matchSearch ops (Ds.run ops cfg history split) and text ↔
      ∃ r ∈ (Ds.run ops cfg history split).rows, r.id = x ∧ r.deleted = false ∧ ∃ t, r.text = some t ∧
        DocMatch (if and then .and else .or) (tokenTexts ops (Ds.run ops cfg history split).effCfg text)
          (tokenize ops (Ds.run ops cfg history split).effCfg t) :=
  matchSearch_iff (consistent_run ops cfg history split) and text x

/-- `DocMatch` in plain words -/
theorem match_meaning (q : List Token) (toks : List (Nat × Token)) :
    (DocMatch .or q toks ↔ ∃ t ∈ q, t ∈ toks.map (·.2)) ∧
    (DocMatch .and q toks ↔ q ≠ [] ∧ ∀ t ∈ q, t ∈ toks.map (·.2)) := by
  exact ⟨by simp only [DocMatch, hasWord_iff], by simp only [DocMatch, hasWord_iff]⟩

/-- a history with a compaction: the deleted row is dropped from the index, the phrase still finds the surviving row -/
example : evalQ asciiOps (Ds.run asciiOps ⟨true, true, none, true⟩
    [.append [[some "x a b".toList, some "a b c".toList, some "b a".toList]], .index, .delete [0], .compact]) (.phrase "a b".toList) = [1] := by
  decide

def hist1 : List Op :=
  [.append [[some "a b".toList, none, some [], some "a a c".toList]], .index, .append [[some "B a".toList]], .delete [0]]

example : matchSearch asciiOps (Ds.run asciiOps ⟨true, true, none, true⟩ hist1) true "a b".toList = [4] := by decide
example : matchSearch asciiOps (Ds.run asciiOps ⟨true, true, none, true⟩ hist1) false "c zzz".toList = [3] := by decide

/-- `phrase_set`: a phrase query returns exactly the live rows OF THE FRAGMENTS THE INDEX COVERS that contain the query's
    tokens at consecutive positions (query tokens numbered 0, 1, 2, …) -/
theorem phrase_set (ops : CharOps) (cfg : Cfg) (history : List Op) (split : Bool) (ix : Idx)
    (hix : (Ds.run ops cfg history split).idx = some ix) (text : List Char) (x : Nat) :
    x ∈ phraseSearch ops (Ds.run ops cfg history split) text ↔
      ∃ r ∈ (Ds.run ops cfg history split).rows, r.id = x ∧ r.deleted = false ∧ ix.frags.contains r.frag = true ∧
        ∃ t, r.text = some t ∧ DocMatch .phrase (tokenTexts ops cfg text) (tokenize ops cfg t) := by
  have := phraseSearch_iff (consistent_run ops cfg history split) hix text x
  rw [cfg_run ops cfg history split] at this
  exact this

/-! ## 4. Boolean queries -/

theorem evalAny_mem (ops : CharOps) (ds : Ds) (x : Nat) :
    (l : QList) → (x ∈ evalAny ops ds l ↔ ∃ q ∈ l.toList, x ∈ evalQ ops ds q)
  | .nil => by simp [evalAny, QList.toList]
  | .cons q r => by simp [evalAny, QList.toList, evalAny_mem ops ds x r]

theorem evalAll_mem (ops : CharOps) (ds : Ds) (x : Nat) :
    (l : QList) → l.isNil = false → (x ∈ evalAll ops ds l ↔ ∀ q ∈ l.toList, x ∈ evalQ ops ds q)
  | .nil, hn => by simp [QList.isNil] at hn
  | .cons q .nil, _ => by simp [evalAll, QList.toList]
  | .cons q (.cons q2 r2), _ => by
    rw [evalAll]
    simp only [List.mem_filter, List.contains_eq_mem, decide_eq_true_eq]
    rw [evalAll_mem ops ds x (.cons q2 r2) rfl]
    simp [QList.toList]

/-- `boolean_set`: must ∩, should ∪ (when there is no must), must_not \ — for every table state and all sub-queries -/
theorem boolean_set (ops : CharOps) (ds : Ds) (m s n : QList) (x : Nat) :
    x ∈ evalQ ops ds (.bool m s n) ↔
      ((m.isNil = true → ∃ q ∈ s.toList, x ∈ evalQ ops ds q) ∧ (m.isNil = false → ∀ q ∈ m.toList, x ∈ evalQ ops ds q)) ∧
      ∀ q ∈ n.toList, x ∉ evalQ ops ds q := by
  simp only [evalQ, List.mem_filter, Bool.not_eq_true', List.contains_eq_mem, decide_eq_false_iff_not]
  rw [evalAny_mem]
  cases hm : m.isNil with
  | true =>
    simp only [if_true]
    rw [evalAny_mem]
    simp
  | false =>
    simp only [Bool.false_eq_true, if_false]
    rw [evalAll_mem ops ds x m hm]
    simp

example : evalQ asciiOps (Ds.run asciiOps ⟨true, true, none, true⟩ hist1)
    (.bool (.cons (.matchQ false ['a']) .nil) .nil (.cons (.matchQ false ['c']) .nil)) = [4] := by decide

/-! ## 5. The property at full strength -/

/-- C23 at full strength: along every history every query the planner accepts returns exactly the live rows whose text
    satisfies the query's specification (`QSpec`: any / all tokens, the phrase at the tokenizer's relative positions,
    must ∩ / should ∪ / must_not \) -/
def C23_full (ops : CharOps) : Prop :=
  ∀ (cfg : Cfg) (history : List Op) (split : Bool) (q : Query) (x : Nat),
    queryRefused (Ds.run ops cfg history split) q = false →
    (x ∈ evalQ ops (Ds.run ops cfg history split) q ↔
      LiveMatch ops (Ds.run ops cfg history split) x (QSpec ops (Ds.run ops cfg history split).effCfg q))

/-- every live row lies in a fragment the index covers (nothing was appended since the last build / optimize) -/
def Ds.covered (ds : Ds) : Bool :=
  match ds.idx with
  | none => false
  | some ix => ds.rows.all (fun r => r.deleted || ix.frags.contains r.frag)

/-- `C23_partial`: the full conclusion holds for every query without a phrase, and for queries with phrases when the
    index covers every live row and no phrase text lost a token to the length filter.  The two excluded regions are the
    recorded findings `phrase_unindexed` and `phrase_position_gap`. -/
theorem C23_partial (ops : CharOps) (cfg : Cfg) (history : List Op) (split : Bool) (q : Query) (x : Nat)
    (hyp : q.hasPhrase = false ∨ ((Ds.run ops cfg history split).covered = true ∧ q.dense ops cfg = true)) :
    x ∈ evalQ ops (Ds.run ops cfg history split) q ↔
      LiveMatch ops (Ds.run ops cfg history split) x (QSpec ops (Ds.run ops cfg history split).effCfg q) := by
  have hc := consistent_run ops cfg history split
  have hcfg := cfg_run ops cfg history split
  have hcov_idx : (Ds.run ops cfg history split).covered = true → (Ds.run ops cfg history split).effCfg = cfg := by
    intro hcov
    unfold Ds.covered at hcov
    cases hix : (Ds.run ops cfg history split).idx with
    | none => rw [hix] at hcov; cases hcov
    | some ix => rw [effCfg_some hix, hcfg]
  have hdense : q.dense ops (Ds.run ops cfg history split).effCfg = true := by
    rcases hyp with h | h
    · exact noPhrase_dense ops _ q h
    · rw [hcov_idx h.1]; exact h.2
  have hready : q.hasPhrase = true → PhraseReady (Ds.run ops cfg history split) := by
    intro hp
    rcases hyp with h | h
    · rw [h] at hp; cases hp
    · have hcov := h.1
      unfold Ds.covered at hcov
      cases hix : (Ds.run ops cfg history split).idx with
      | none => rw [hix] at hcov; cases hcov
      | some ix =>
        rw [hix] at hcov
        refine ⟨ix, hix, ?_⟩
        intro r hr hdel
        have := List.all_eq_true.1 hcov r hr
        simpa [hdel] using this
  exact evalQ_spec hc x q hdense hready

def cfgGap : Cfg := ⟨true, true, some 5, true⟩

/-- the code does not meet the full property (1): a phrase is not searched in rows appended after the index was built.
    `index ["a b"]`, append `"a b"`: row 1 matches the phrase `a b` and is not returned. -/
theorem C23_counterexample_unindexed : ¬ C23_full asciiOps := by
  intro h
  have h1 := (h ⟨true, true, none, true⟩
    [.append [[some "a b".toList]], .index, .append [[some "a b".toList]]] false (.phrase "a b".toList) 1 (by decide)).2
  have hm : 1 ∈ evalQ asciiOps (Ds.run asciiOps ⟨true, true, none, true⟩
      [.append [[some "a b".toList]], .index, .append [[some "a b".toList]]]) (.phrase "a b".toList) := by
    apply h1
    refine ⟨⟨1, some "a b".toList, 1, false⟩, by decide, rfl, rfl, "a b".toList, rfl, ?_⟩
    have he : (Ds.run asciiOps ⟨true, true, none, true⟩
        [.append [[some "a b".toList]], .index, .append [[some "a b".toList]]]).effCfg = ⟨true, true, none, true⟩ := by decide
    rw [he]
    show PhraseSpec (tokenize asciiOps ⟨true, true, none, true⟩ "a b".toList) (tokenize asciiOps ⟨true, true, none, true⟩ "a b".toList)
    have : tokenize asciiOps ⟨true, true, none, true⟩ "a b".toList = [(0, ['a']), (1, ['b'])] := by decide
    rw [this]
    exact ⟨0, by decide⟩
  revert hm
  decide

/-- the code does not meet the full property (2): the query's tokens are renumbered 0, 1, 2, … so a phrase that lost a token
    to the length filter does not match its own text.  maxLen 5, row `"a elephant b"`, phrase `"a elephant b"`: not returned. -/
theorem C23_counterexample_gap : ¬ C23_full asciiOps := by
  intro h
  have h1 := (h cfgGap [.append [[some "a elephant b".toList]], .index] false (.phrase "a elephant b".toList) 0 (by decide)).2
  have hm : 0 ∈ evalQ asciiOps (Ds.run asciiOps cfgGap [.append [[some "a elephant b".toList]], .index])
      (.phrase "a elephant b".toList) := by
    apply h1
    refine ⟨⟨0, some "a elephant b".toList, 0, false⟩, by decide, rfl, rfl, "a elephant b".toList, rfl, ?_⟩
    have he : (Ds.run asciiOps cfgGap [.append [[some "a elephant b".toList]], .index]).effCfg = cfgGap := by decide
    rw [he]
    show PhraseSpec (tokenize asciiOps cfgGap "a elephant b".toList) (tokenize asciiOps cfgGap "a elephant b".toList)
    have : tokenize asciiOps cfgGap "a elephant b".toList = [(0, ['a']), (2, ['b'])] := by decide
    rw [this]
    exact ⟨0, by decide⟩
  revert hm
  decide

/-- non-vacuity of `C23_partial`: a covered table, a dense phrase inside a boolean query -/
example : (Ds.run asciiOps cfgGap [.append [[some "a b c".toList], [some "b c".toList]], .index, .delete [1]]).covered = true ∧
    (Query.bool (.cons (.phrase "a b".toList) .nil) .nil .nil).dense asciiOps cfgGap = true ∧
    evalQ asciiOps (Ds.run asciiOps cfgGap [.append [[some "a b c".toList], [some "b c".toList]], .index, .delete [1]])
      (.bool (.cons (.phrase "a b".toList) .nil) .nil .nil) = [0] := by decide

/-! ## 6. Ranking of one-term queries -/

/-- `single_term_order`: for a one-term query every score is `idf · w(tf, dl)` with the same positive `idf`; written with a
    positive rational `idf = a / b`, comparing two scores is comparing the weights (the factor cancels), comparing two
    weights `22·f·T / (10·f·T + 3·T + 9·dl·N)` is the integer comparison `f₁·(3T + 9·dl₂·N) ≤ f₂·(3T + 9·dl₁·N)`, and the
    weight grows with the term frequency and shrinks with the document length. -/
theorem single_term_order (n t : Nat) (ht : 0 < t) (a b : Nat) (ha : 0 < a) (hb : 0 < b) (f1 dl1 f2 dl2 : Nat) :
    ((a * weightNum f1 dl1 n t) * (b * weightDen f2 dl2 n t) ≤ (a * weightNum f2 dl2 n t) * (b * weightDen f1 dl1 n t) ↔
        weightLe n t (f1, dl1) (f2, dl2) = true) ∧
    (weightLe n t (f1, dl1) (f2, dl2) = true ↔ f1 * (3 * t + 9 * dl2 * n) ≤ f2 * (3 * t + 9 * dl1 * n)) ∧
    (f1 ≤ f2 → weightLe n t (f1, dl1) (f2, dl1) = true) ∧
    (dl2 ≤ dl1 → weightLe n t (f1, dl1) (f1, dl2) = true) := by
  have key := weightLe_iff n t ht f1 dl1 f2 dl2
  refine ⟨?_, key, ?_, ?_⟩
  · simp only [weightLe, decide_eq_true_eq]
    have hab : 0 < a * b := Nat.mul_pos ha hb
    constructor
    · intro h
      have h' : (a * b) * (weightNum f1 dl1 n t * weightDen f2 dl2 n t) ≤ (a * b) * (weightNum f2 dl2 n t * weightDen f1 dl1 n t) := by
        calc (a * b) * (weightNum f1 dl1 n t * weightDen f2 dl2 n t)
            = (a * weightNum f1 dl1 n t) * (b * weightDen f2 dl2 n t) := by
              simp only [Nat.mul_assoc, Nat.mul_left_comm, Nat.mul_comm]
          _ ≤ (a * weightNum f2 dl2 n t) * (b * weightDen f1 dl1 n t) := h
          _ = (a * b) * (weightNum f2 dl2 n t * weightDen f1 dl1 n t) := by
              simp only [Nat.mul_assoc, Nat.mul_left_comm, Nat.mul_comm]
      exact Nat.le_of_mul_le_mul_left h' hab
    · intro h
      calc (a * weightNum f1 dl1 n t) * (b * weightDen f2 dl2 n t)
          = (a * b) * (weightNum f1 dl1 n t * weightDen f2 dl2 n t) := by
            simp only [Nat.mul_assoc, Nat.mul_left_comm, Nat.mul_comm]
        _ ≤ (a * b) * (weightNum f2 dl2 n t * weightDen f1 dl1 n t) := Nat.mul_le_mul_left _ h
        _ = (a * weightNum f2 dl2 n t) * (b * weightDen f1 dl1 n t) := by
            simp only [Nat.mul_assoc, Nat.mul_left_comm, Nat.mul_comm]
  · intro hf
    rw [weightLe_iff n t ht]
    exact Nat.mul_le_mul_right _ hf
  · intro hd
    rw [weightLe_iff n t ht]
    apply Nat.mul_le_mul_left
    have : 9 * dl2 * n ≤ 9 * dl1 * n := Nat.mul_le_mul_right _ (Nat.mul_le_mul_left _ hd)
    omega

example : weightLe 4 10 (1, 5) (2, 5) = true ∧ weightLe 4 10 (2, 9) (2, 3) = true ∧ weightLe 4 10 (3, 2) (1, 2) = false := by decide

/-- the argument of `ln` in `idf(n, N)` is `(N − n + ½)/(n + ½) + 1`; it exceeds 1 (so `idf > 0`, which is what the
    `score > 0` filter of the flat path relies on) exactly when the document frequency does not exceed the document count -/
theorem idf_positive_iff (n N : Nat) : (0 : Int) < 2 * ((N : Int) - n) + 1 ↔ n ≤ N := by omega

end LanceModel.C23
