import LanceModel.C23.TableLemmas
/-! C23 — the index remap of a compaction keeps a partition faithful to the surviving documents -/
namespace LanceModel.C23

theorem filter_getElem?_of {α} (k : α → Bool) (l : List α) (d : Nat) (x : α) (h : l[d]? = some x) (hk : k x = true) :
    (l.filter k)[((l.take d).filter k).length]? = some x := by
  induction l generalizing d with
  | nil => simp at h
  | cons a r ih =>
    cases d with
    | zero =>
      simp only [List.getElem?_cons_zero, Option.some.injEq] at h
      subst h
      simp [hk]
    | succ d =>
      simp only [List.getElem?_cons_succ] at h
      have := ih d h
      by_cases ha : k a = true
      · simp [ha, this]
      · simp [ha, this]

theorem filter_getElem?_inv {α} (k : α → Bool) (l : List α) (j : Nat) (x : α) (h : (l.filter k)[j]? = some x) :
    ∃ d, l[d]? = some x ∧ k x = true ∧ j = ((l.take d).filter k).length := by
  induction l generalizing j with
  | nil => simp at h
  | cons a r ih =>
    by_cases ha : k a = true
    · simp only [List.filter_cons, ha, if_true] at h
      cases j with
      | zero =>
        simp only [List.getElem?_cons_zero, Option.some.injEq] at h
        subst h
        exact ⟨0, by simp, ha, by simp⟩
      | succ j =>
        simp only [List.getElem?_cons_succ] at h
        obtain ⟨d, h1, h2, h3⟩ := ih j h
        exact ⟨d + 1, by simpa using h1, h2, by simp [ha, h3]⟩
    · simp only [List.filter_cons, ha] at h
      obtain ⟨d, h1, h2, h3⟩ := ih j h
      exact ⟨d + 1, by simpa using h1, h2, by simp [ha, h3]⟩

theorem lookup_none_of_not_key (ps : Postings) (t : Token) (h : t ∉ ps.map (·.1)) : lookup ps t = none := by
  induction ps with
  | nil => rfl
  | cons e r ih =>
    obtain ⟨t', os⟩ := e
    simp only [List.map_cons, List.mem_cons, not_or] at h
    simp [lookup, Ne.symm h.1, ih h.2]

/-- with distinct keys the emptied entry is simply gone -/
theorem lookup_mapFilter' (ps : Postings) (hk : KeysNodup ps) (g : List Occ → List Occ) (t : Token) :
    lookup ((ps.map (fun e => (e.1, g e.2))).filter (fun e => !e.2.isEmpty)) t =
      match lookup ps t with
      | some os => if (g os).isEmpty then none else some (g os)
      | none => none := by
  induction ps with
  | nil => simp [lookup]
  | cons e r ih =>
    obtain ⟨t', os⟩ := e
    have hr : KeysNodup r := (List.nodup_cons.1 hk).2
    have hnot : t' ∉ r.map (·.1) := (List.nodup_cons.1 hk).1
    by_cases h : t' = t
    · subst h
      by_cases he : (g os).isEmpty = true
      · simp only [List.map_cons, List.filter_cons, he, Bool.not_true, Bool.false_eq_true, if_false, lookup, if_true]
        apply lookup_none_of_not_key
        intro hm
        apply hnot
        simp only [List.mem_map, List.mem_filter] at hm
        obtain ⟨e, ⟨he1, _⟩, he2⟩ := hm
        obtain ⟨e0, he0, rfl⟩ := he1
        exact List.mem_map.2 ⟨e0, he0, he2⟩
      · simp [lookup, he]
    · by_cases he : (g os).isEmpty = true
      · simp only [List.map_cons, List.filter_cons, he, Bool.not_true, Bool.false_eq_true, if_false, lookup, h]
        exact ih hr
      · simp only [List.map_cons, List.filter_cons, he, Bool.not_false, if_true, lookup, h, if_false]
        exact ih hr

theorem not_mem_of_isEmpty {α} {l : List α} (h : l.isEmpty = true) (x : α) : x ∉ l := by
  cases l with
  | nil => simp
  | cons a r => simp at h

theorem keys_mapFilter (ps : Postings) (hk : KeysNodup ps) (g : List Occ → List Occ) :
    KeysNodup ((ps.map (fun e => (e.1, g e.2))).filter (fun e => !e.2.isEmpty)) := by
  unfold KeysNodup at *
  have hsub : List.Sublist (((ps.map (fun e => (e.1, g e.2))).filter (fun e => !e.2.isEmpty)).map (·.1))
      ((ps.map (fun e => ((e.1, g e.2) : Token × List Occ))).map (·.1)) :=
    List.Sublist.map _ List.filter_sublist
  have : (ps.map (fun e => ((e.1, g e.2) : Token × List Occ))).map (·.1) = ps.map (·.1) := by simp [List.map_map, Function.comp_def]
  rw [this] at hsub
  exact List.Nodup.sublist hsub hk

/-- builder.rs `InnerBuilder::remap`: the remapped partition is the inverted index of the surviving documents -/
theorem repr_remap (p : Part) (docs : List IDoc) (keep : Nat → Bool) (h : Repr p docs) :
    Repr (p.remap keep) (docs.filter (fun d => keep d.rowId)) := by
  have hdocs : p.docs.filter (fun rd => keep rd.1) = (docs.filter (fun d => keep d.rowId)).map (fun d => (d.rowId, d.toks.length)) := by
    rw [h.docs_eq, List.filter_map]; rfl
  have hkept : ∀ d : Nat, ((p.docs[d]?).any (fun rd => keep rd.1)) = true ↔
      ∃ doc : IDoc, docs[d]? = some doc ∧ keep doc.rowId = true := by
    intro d
    rw [h.docs_eq, List.getElem?_map]
    cases docs[d]? with
    | none => simp
    | some doc => simp
  have hnew : ∀ d, ((p.docs.take d).filter (fun rd => keep rd.1)).length = ((docs.take d).filter (fun x => keep x.rowId)).length := by
    intro d
    rw [h.docs_eq, ← List.map_take, List.filter_map, List.length_map]; rfl
  refine ⟨hdocs, ?_, keys_mapFilter _ h.keys _, ?_⟩
  · intro t os hl
    simp only [Part.remap] at hl
    rw [lookup_mapFilter' _ h.keys] at hl
    cases hlo : lookup p.postings t with
    | none => rw [hlo] at hl; cases hl
    | some os0 =>
      rw [hlo] at hl
      simp only at hl
      split at hl
      · cases hl
      · rename_i hne
        injection hl with hl
        subst hl
        intro he
        exact hne (by simp [he])
  · intro t o'
    simp only [Part.remap, OccIn]
    rw [lookup_mapFilter' _ h.keys]
    constructor
    · rintro ⟨os, hl, ho⟩
      cases hlo : lookup p.postings t with
      | none => rw [hlo] at hl; cases hl
      | some os0 =>
        rw [hlo] at hl
        simp only at hl
        split at hl
        · cases hl
        · injection hl with hl
          subst hl
          simp only [List.mem_filterMap] at ho
          obtain ⟨o, ho0, hif⟩ := ho
          by_cases hk : ((p.docs[o.1]?).any (fun rd => keep rd.1)) = true
          · rw [if_pos hk] at hif
            injection hif with hif
            obtain ⟨doc, hd, hkd⟩ := (hkept o.1).1 hk
            obtain ⟨doc', hd', hm⟩ := (h.occ t o).1 ⟨os0, hlo, ho0⟩
            rw [hd] at hd'; injection hd' with hd'; subst hd'
            refine ⟨doc, ?_, ?_⟩
            · rw [← hif]
              show (List.filter (fun d => keep d.rowId) docs)[((p.docs.take o.1).filter (fun rd => keep rd.1)).length]? = some doc
              rw [hnew]
              exact filter_getElem?_of _ docs o.1 doc hd hkd
            · rw [← hif]; exact hm
          · rw [if_neg hk] at hif; cases hif
    · rintro ⟨doc, hd, hm⟩
      obtain ⟨d, hdd, hkd, hj⟩ := filter_getElem?_inv _ docs o'.1 doc hd
      obtain ⟨os0, hlo, ho0⟩ := (h.occ t (d, o'.2)).2 ⟨doc, hdd, hm⟩
      have hmem : o' ∈ os0.filterMap (fun o => if ((p.docs[o.1]?).any (fun rd => keep rd.1)) = true
          then some (((p.docs.take o.1).filter (fun rd => keep rd.1)).length, o.2) else none) := by
        simp only [List.mem_filterMap]
        refine ⟨(d, o'.2), ho0, ?_⟩
        have hk : ((p.docs[d]?).any (fun rd => keep rd.1)) = true := (hkept d).2 ⟨doc, hdd, hkd⟩
        show (if ((p.docs[d]?).any (fun rd => keep rd.1)) = true
          then some (((p.docs.take d).filter (fun rd => keep rd.1)).length, o'.2) else none) = some o'
        rw [if_pos hk, hnew, ← hj]
      refine ⟨_, ?_, hmem⟩
      rw [hlo]
      simp only
      split
      · rename_i he
        exact absurd hmem (not_mem_of_isEmpty he o')
      · rfl

theorem reprAll_map_remap {parts : List Part} {docss : List (List IDoc)} (keep : Nat → Bool) (h : ReprAll parts docss) :
    ReprAll (parts.map (fun p => p.remap keep)) (docss.map (fun ds => ds.filter (fun d => keep d.rowId))) := by
  induction h with
  | nil => exact ReprAll.nil
  | cons hp _ ih => exact ReprAll.cons (repr_remap _ _ keep hp) ih

theorem mem_flatten_map_filter (docss : List (List IDoc)) (k : IDoc → Bool) (doc : IDoc) :
    doc ∈ (docss.map (fun ds => ds.filter k)).flatten ↔ doc ∈ docss.flatten ∧ k doc = true := by
  simp only [List.mem_flatten, List.mem_map]
  constructor
  · rintro ⟨l, ⟨l0, hl0, rfl⟩, hd⟩
    have := List.mem_filter.1 hd
    exact ⟨⟨l0, hl0, this.1⟩, this.2⟩
  · rintro ⟨⟨l0, hl0, hd⟩, hk⟩
    exact ⟨_, ⟨l0, hl0, rfl⟩, List.mem_filter.2 ⟨hd, hk⟩⟩

end LanceModel.C23
