import LanceModel.C23.Model
/-! C23 — the splitter produces the maximal alphanumeric runs -/
namespace LanceModel.C23

theorem runsAux_sep (p : Char → Bool) (a b : List Char) (c : Char) (cur : List Char) (hc : p c = false) :
    runsAux p (a ++ c :: b) cur = runsAux p a cur ++ runsAux p b [] := by
  induction a generalizing cur with
  | nil =>
    simp only [List.nil_append, runsAux, hc]
    cases cur <;> simp
  | cons x a ih =>
    simp only [List.cons_append, runsAux]
    by_cases hx : p x = true
    · simp only [hx, if_true]; exact ih _
    · simp only [hx]
      cases cur with
      | nil => simpa using ih []
      | cons y ys => simpa using ih []

theorem runsAux_word (p : Char → Bool) (w cur : List Char) (hw : ∀ c ∈ w, p c = true) :
    runsAux p w cur = if cur.isEmpty && w.isEmpty then [] else [cur.reverse ++ w] := by
  induction w generalizing cur with
  | nil => cases cur <;> simp [runsAux]
  | cons x w ih =>
    have hx : p x = true := hw x (by simp)
    simp only [runsAux, hx, if_true]
    rw [ih (x :: cur) (fun c hc => hw c (by simp [hc]))]
    simp

theorem runsAux_mem (p : Char → Bool) (s cur : List Char) (hcur : ∀ c ∈ cur, p c = true) (t : Token)
    (ht : t ∈ runsAux p s cur) : t ≠ [] ∧ ∀ c ∈ t, p c = true := by
  induction s generalizing cur with
  | nil =>
    cases cur with
    | nil => simp [runsAux] at ht
    | cons y ys =>
      simp only [runsAux, List.isEmpty_cons, Bool.false_eq_true, if_false, List.mem_singleton] at ht
      subst ht
      refine ⟨by simp, ?_⟩
      intro c hc
      exact hcur c (by simp at hc ⊢; exact hc.symm)
  | cons x s ih =>
    simp only [runsAux] at ht
    by_cases hx : p x = true
    · simp only [hx, if_true] at ht
      exact ih (x :: cur) (by intro c hc; rcases List.mem_cons.1 hc with h | h; exact h ▸ hx; exact hcur c h) ht
    · simp only [hx] at ht
      cases cur with
      | nil => exact ih [] (by simp) (by simpa using ht)
      | cons y ys =>
        simp only [List.isEmpty_cons, Bool.false_eq_true, if_false, List.mem_cons] at ht
        rcases ht with h | h
        · subst h
          refine ⟨by simp, ?_⟩
          intro c hc
          exact hcur c (by simp at hc ⊢; exact hc.symm)
        · exact ih [] (by simp) h

theorem runsAux_flatten (p : Char → Bool) (s cur : List Char) :
    (runsAux p s cur).flatten = cur.reverse ++ s.filter p := by
  induction s generalizing cur with
  | nil => cases cur <;> simp [runsAux]
  | cons x s ih =>
    simp only [runsAux]
    by_cases hx : p x = true
    · simp [hx, ih]
    · cases cur with
      | nil => simp [hx, ih]
      | cons y ys => simp [hx, ih]

/-- no text, no token -/
theorem runs_nil (p : Char → Bool) : runs p [] = [] := rfl

/-- a token never spans a non-alphanumeric character -/
theorem runs_sep (p : Char → Bool) (a b : List Char) (c : Char) (hc : p c = false) :
    runs p (a ++ c :: b) = runs p a ++ runs p b := runsAux_sep p a b c [] hc

/-- an alphanumeric word is one token (tokens are maximal) -/
theorem runs_word (p : Char → Bool) (w : List Char) (hne : w ≠ []) (hw : ∀ c ∈ w, p c = true) :
    runs p w = [w] := by
  unfold runs
  rw [runsAux_word p w [] hw]
  cases w with
  | nil => exact absurd rfl hne
  | cons x w => simp

/-- every token is a non-empty alphanumeric word -/
theorem runs_mem (p : Char → Bool) (s : List Char) (t : Token) (ht : t ∈ runs p s) :
    t ≠ [] ∧ ∀ c ∈ t, p c = true := runsAux_mem p s [] (by simp) t ht

/-- the tokens are, in order, exactly the alphanumeric characters of the text -/
theorem runs_flatten (p : Char → Bool) (s : List Char) : (runs p s).flatten = s.filter p := by
  have := runsAux_flatten p s []
  simpa [runs] using this

end LanceModel.C23
