import LanceModel.C23.HistLemmas
/-! C23 — leaf queries on a consistent table return exactly the matching live rows -/
namespace LanceModel.C23

theorem docMatch_nil (mode : Mode) (q : List Token) : ¬ DocMatch mode q [] := by
  cases mode with
  | or => simp [DocMatch, HasWord]
  | and =>
    simp only [DocMatch, HasWord, List.not_mem_nil, exists_false, not_and]
    intro hne h
    cases q with
    | nil => exact hne rfl
    | cons t r => exact h t (by simp)
  | phrase =>
    simp only [DocMatch, List.not_mem_nil, not_and, not_exists]
    intro hne start h
    cases q with
    | nil => exact hne rfl
    | cons t r => exact h (t, 0) (by simp [List.zipIdx_cons])

theorem hasWord_iff (toks : List (Nat × Token)) (t : Token) : HasWord toks t ↔ t ∈ toks.map (·.2) := by
  simp only [HasWord, List.mem_map]
  constructor
  · rintro ⟨pos, h⟩; exact ⟨(pos, t), h, rfl⟩
  · rintro ⟨⟨pos, t'⟩, h, rfl⟩; exact ⟨pos, h⟩

/-- `flat_bm25_search` keeps a row iff it matches (OR: some token, AND: every token of a non-empty query) -/
theorem flatHit_iff (a : Bool) (q : List Token) (toks : List (Nat × Token)) :
    flatHit a q (toks.map (·.2)) = true ↔ DocMatch (if a then .and else .or) q toks := by
  cases a with
  | false =>
    simp only [flatHit, Bool.false_eq_true, if_false, List.any_eq_true, DocMatch, hasWord_iff]
    simp
  | true =>
    simp only [flatHit, if_true, Bool.and_eq_true, Bool.not_eq_true', List.all_eq_true, DocMatch, hasWord_iff]
    constructor
    · rintro ⟨h1, h2⟩
      exact ⟨by intro hq; rw [hq] at h1; simp at h1, fun t ht => by simpa using h2 t ht⟩
    · rintro ⟨h1, h2⟩
      exact ⟨by cases q with | nil => exact absurd rfl h1 | cons => rfl, fun t ht => by simpa using h2 t ht⟩

theorem mem_blocked (ds : Ds) (x : Nat) : x ∈ ds.blocked ↔ ∃ r ∈ ds.rows, r.deleted = true ∧ r.id = x := by
  simp [Ds.blocked, List.mem_map, List.mem_filter, and_assoc]

variable {ops : CharOps} {ds : Ds}

/-- the index part of a query: the matching live rows of the covered fragments -/
theorem indexPart_iff (h : Consistent ops ds) {ix : Idx} (hix : ds.idx = some ix) (mode : Mode) (q : List Token) (x : Nat) :
    x ∈ indexSearch ix.parts ds.blocked mode q ↔
      ∃ r ∈ ds.rows, r.id = x ∧ r.deleted = false ∧ ix.frags.contains r.frag = true ∧
        ∃ t, r.text = some t ∧ DocMatch mode q (tokenize ops ds.cfg t) := by
  obtain ⟨_, docss, hrep, hA, hB⟩ := h.idx ix hix
  rw [indexSearch_iff hrep]
  constructor
  · rintro ⟨hnb, doc, hd, hid, hm⟩
    obtain ⟨r, hr, h1, h2, t, h3, h4⟩ := hA doc hd
    refine ⟨r, hr, by rw [h1, hid], ?_, h2, t, h3, by rw [← h4]; exact hm⟩
    cases hdel : r.deleted with
    | false => rfl
    | true => exact absurd ((mem_blocked ds x).2 ⟨r, hr, hdel, by rw [h1, hid]⟩) hnb
  · rintro ⟨r, hr, hid, hdel, hc, t, ht, hm⟩
    have hne : tokenize ops ds.cfg t ≠ [] := by
      intro he; rw [he] at hm; exact docMatch_nil mode q hm
    obtain ⟨doc, hd, hdid⟩ := hB r hr hdel hc t ht hne
    obtain ⟨r', hr', h1, _, t', ht', htoks⟩ := hA doc hd
    have : r' = r := row_unique h.wf hr' hr (by rw [h1, hdid])
    subst this
    rw [ht] at ht'; injection ht' with ht'; subst ht'
    refine ⟨?_, doc, hd, by rw [hdid, hid], by rw [htoks]; exact hm⟩
    intro hb
    obtain ⟨r2, hr2, hdel2, hid2⟩ := (mem_blocked ds x).1 hb
    have : r2 = r' := row_unique h.wf hr2 hr (by rw [hid2, hid])
    subst this
    rw [hdel] at hdel2; cases hdel2

/-- the flat part of a match query: the matching live rows of the selected fragments -/
theorem flatSearch_iff (ops : CharOps) (cfg : Cfg) (ds : Ds) (sel : Nat → Bool) (a : Bool) (q : List Token) (x : Nat) :
    x ∈ flatSearch ops cfg ds sel a q ↔
      ∃ r ∈ ds.rows, r.id = x ∧ r.deleted = false ∧ sel r.frag = true ∧
        ∃ t, r.text = some t ∧ DocMatch (if a then .and else .or) q (tokenize ops cfg t) := by
  unfold flatSearch
  simp only [List.mem_filterMap]
  constructor
  · rintro ⟨r, hr, h⟩
    split at h
    · rename_i hc
      simp only [Bool.and_eq_true, Bool.not_eq_true'] at hc
      split at h
      · rename_i t ht
        split at h
        · rename_i hhit
          injection h with h
          exact ⟨r, hr, h, hc.2, hc.1, t, ht, (flatHit_iff a q _).1 hhit⟩
        · cases h
      · cases h
    · cases h
  · rintro ⟨r, hr, hid, hdel, hsel, t, ht, hm⟩
    refine ⟨r, hr, ?_⟩
    have := (flatHit_iff a q (tokenize ops cfg t)).2 hm
    simp only [tokenTexts, hsel, hdel, ht, this, Bool.not_false, Bool.and_self, if_true, hid]

/-- a live row with a text whose token stream (under the effective configuration) satisfies `P` -/
def LiveMatch (ops : CharOps) (ds : Ds) (x : Nat) (P : List (Nat × Token) → Prop) : Prop :=
  ∃ r ∈ ds.rows, r.id = x ∧ r.deleted = false ∧ ∃ t, r.text = some t ∧ P (tokenize ops ds.effCfg t)

theorem effCfg_some {ix : Idx} (hix : ds.idx = some ix) : ds.effCfg = ds.cfg := by simp [Ds.effCfg, hix]

theorem effCfg_none (hix : ds.idx = none) : ds.effCfg = rawCfg := by simp [Ds.effCfg, hix]

/-- MATCH queries (index part ∪ flat part) return exactly the live rows that contain any / all query tokens -/
theorem matchSearch_iff (h : Consistent ops ds) (a : Bool) (text : List Char) (x : Nat) :
    x ∈ matchSearch ops ds a text ↔
      LiveMatch ops ds x (DocMatch (if a then .and else .or) (tokenTexts ops ds.effCfg text)) := by
  unfold matchSearch LiveMatch
  cases hix : ds.idx with
  | none =>
    simp only []
    rw [flatSearch_iff, effCfg_none hix]
    constructor
    · rintro ⟨r, hr, h1, h2, _, rest⟩; exact ⟨r, hr, h1, h2, rest⟩
    · rintro ⟨r, hr, h1, h2, rest⟩; exact ⟨r, hr, h1, h2, rfl, rest⟩
  | some ix =>
    simp only [List.mem_append]
    rw [flatSearch_iff, indexPart_iff h hix, effCfg_some hix]
    constructor
    · rintro (⟨r, hr, h1, h2, _, rest⟩ | ⟨r, hr, h1, h2, _, rest⟩)
      · exact ⟨r, hr, h1, h2, rest⟩
      · exact ⟨r, hr, h1, h2, rest⟩
    · rintro ⟨r, hr, h1, h2, rest⟩
      by_cases hc : ix.frags.contains r.frag = true
      · exact Or.inl ⟨r, hr, h1, h2, hc, rest⟩
      · exact Or.inr ⟨r, hr, h1, h2, by simpa using hc, rest⟩

/-- PHRASE queries return exactly the live rows OF THE COVERED FRAGMENTS that contain the query's tokens at consecutive
    positions -/
theorem phraseSearch_iff (h : Consistent ops ds) {ix : Idx} (hix : ds.idx = some ix) (text : List Char) (x : Nat) :
    x ∈ phraseSearch ops ds text ↔
      ∃ r ∈ ds.rows, r.id = x ∧ r.deleted = false ∧ ix.frags.contains r.frag = true ∧
        ∃ t, r.text = some t ∧ DocMatch .phrase (tokenTexts ops ds.cfg text) (tokenize ops ds.cfg t) := by
  unfold phraseSearch
  rw [hix]
  exact indexPart_iff h hix .phrase _ x

end LanceModel.C23
