import LanceModel.C23.Driver
def main : IO Unit := LanceModel.Util.runDriver LanceModel.C23.Driver.step LanceModel.C23.Driver.St.init
