import LanceModel.C23.IndexLemmas
/-! C23 — searching a partition returns exactly the documents that contain the query tokens -/
namespace LanceModel.C23

/-- the token `t` occurs in the token stream -/
def HasWord (toks : List (Nat × Token)) (t : Token) : Prop := ∃ pos, (pos, t) ∈ toks

/-- SPECIFICATION of a document matching the (tokenised) query: any token (OR), every token (AND), or the tokens
    at consecutive positions (phrase, the i-th query token at `start + i`) -/
def DocMatch (mode : Mode) (q : List Token) (toks : List (Nat × Token)) : Prop :=
  match mode with
  | .or => ∃ t ∈ q, HasWord toks t
  | .and => q ≠ [] ∧ ∀ t ∈ q, HasWord toks t
  | .phrase => q ≠ [] ∧ ∃ start, ∀ ti ∈ q.zipIdx, (start + ti.2, ti.1) ∈ toks

variable {p : Part} {docs : List IDoc}

theorem known_iff (h : Repr p docs) (t : Token) :
    (lookup p.postings t).isSome = true ↔ ∃ (d : Nat) (doc : IDoc), docs[d]? = some doc ∧ HasWord doc.toks t := by
  constructor
  · intro hs
    cases hl : lookup p.postings t with
    | none => rw [hl] at hs; cases hs
    | some os =>
      have hne := h.nonEmpty t os hl
      cases os with
      | nil => exact absurd rfl hne
      | cons o r =>
        obtain ⟨doc, h1, h2⟩ := (h.occ t o).1 ⟨o :: r, hl, by simp⟩
        exact ⟨o.1, doc, h1, o.2, h2⟩
  · rintro ⟨d, doc, h1, pos, h2⟩
    obtain ⟨os, hl, _⟩ := (h.occ t (d, pos)).2 ⟨doc, h1, h2⟩
    rw [hl]; rfl

theorem hasOcc_iff (h : Repr p docs) (d pos : Nat) (t : Token) :
    hasOcc p d pos t = true ↔ ∃ doc, docs[d]? = some doc ∧ (pos, t) ∈ doc.toks := by
  rw [← h.occ t (d, pos)]
  unfold hasOcc OccIn
  cases hl : lookup p.postings t with
  | none => simp
  | some os =>
    simp only [List.any_eq_true, Bool.and_eq_true, beq_iff_eq, Option.some.injEq, exists_eq_left']
    constructor
    · rintro ⟨o, ho, h1, h2⟩
      obtain ⟨a, b⟩ := o
      simp only at h1 h2; subst h1; subst h2; exact ho
    · intro ho; exact ⟨(d, pos), ho, rfl, rfl⟩

theorem hasTok_iff (h : Repr p docs) (d : Nat) (t : Token) :
    hasTok p d t = true ↔ ∃ doc, docs[d]? = some doc ∧ HasWord doc.toks t := by
  constructor
  · intro ht
    unfold hasTok at ht
    cases hl : lookup p.postings t with
    | none => rw [hl] at ht; cases ht
    | some os =>
      rw [hl] at ht
      simp only [List.any_eq_true, beq_iff_eq] at ht
      obtain ⟨o, ho, h1⟩ := ht
      obtain ⟨doc, h2, h3⟩ := (h.occ t o).1 ⟨os, hl, ho⟩
      exact ⟨doc, h1 ▸ h2, o.2, h3⟩
  · rintro ⟨doc, h1, pos, h2⟩
    obtain ⟨os, hl, ho⟩ := (h.occ t (d, pos)).2 ⟨doc, h1, h2⟩
    unfold hasTok
    rw [hl]
    simp only [List.any_eq_true, beq_iff_eq]
    exact ⟨(d, pos), ho, rfl⟩

theorem mem_positionsOf (h : Repr p docs) (d pos : Nat) (t : Token) :
    pos ∈ positionsOf p d t ↔ ∃ doc, docs[d]? = some doc ∧ (pos, t) ∈ doc.toks := by
  rw [← h.occ t (d, pos)]
  unfold positionsOf OccIn
  cases hl : lookup p.postings t with
  | none => simp
  | some os =>
    simp only [List.mem_map, List.mem_filter, beq_iff_eq, Option.some.injEq, exists_eq_left']
    constructor
    · rintro ⟨o, ⟨ho, h1⟩, h2⟩
      obtain ⟨a, b⟩ := o
      simp only at h1 h2; subst h1; subst h2; exact ho
    · intro ho; exact ⟨(d, pos), ⟨ho, rfl⟩, rfl⟩

theorem phraseAt_iff (h : Repr p docs) (d : Nat) (q : List Token) :
    phraseAt p d q = true ↔
      q ≠ [] ∧ ∃ doc, docs[d]? = some doc ∧ ∃ start, ∀ ti ∈ q.zipIdx, (start + ti.2, ti.1) ∈ doc.toks := by
  cases q with
  | nil => simp [phraseAt]
  | cons t0 r =>
    simp only [phraseAt, List.any_eq_true, List.all_eq_true, ne_eq, reduceCtorEq, not_false_eq_true, true_and]
    constructor
    · rintro ⟨start, hs, hall⟩
      obtain ⟨doc, h1, _⟩ := (mem_positionsOf h d start t0).1 hs
      refine ⟨doc, h1, start, ?_⟩
      intro ti hti
      obtain ⟨doc', h3, h4⟩ := (hasOcc_iff h d (start + ti.2) ti.1).1 (hall ti hti)
      rw [h1] at h3; injection h3 with h3; subst h3; exact h4
    · rintro ⟨doc, h1, start, hall⟩
      refine ⟨start, ?_, ?_⟩
      · have h0 : (t0, 0) ∈ (t0 :: r).zipIdx := by simp [List.zipIdx_cons]
        have := hall (t0, 0) h0
        exact (mem_positionsOf h d start t0).2 ⟨doc, h1, by simpa using this⟩
      · intro ti hti
        exact (hasOcc_iff h d (start + ti.2) ti.1).2 ⟨doc, h1, hall ti hti⟩

theorem docs_len (h : Repr p docs) : p.docs.length = docs.length := by rw [h.docs_eq]; simp

theorem getElem?_some_of_lt (d : Nat) (hd : d < docs.length) : ∃ doc, docs[d]? = some doc :=
  ⟨docs[d], List.getElem?_eq_getElem hd⟩

theorem lt_of_getElem?_some {d : Nat} {doc : IDoc} (hd : docs[d]? = some doc) : d < docs.length := by
  rcases Nat.lt_or_ge d docs.length with hlt | hge
  · exact hlt
  · rw [List.getElem?_eq_none hge] at hd; cases hd

/-- `InvertedPartition::bm25_search` (as a set) meets the specification, for every partition and every query -/
theorem partSearch_iff (h : Repr p docs) (mode : Mode) (q : List Token) (d : Nat) :
    d ∈ partSearch p mode q ↔ ∃ doc, docs[d]? = some doc ∧ DocMatch mode q doc.toks := by
  have hknown : ∀ (doc : IDoc) (d' : Nat), docs[d']? = some doc → ∀ t, HasWord doc.toks t → (lookup p.postings t).isSome = true :=
    fun doc d' hd t ht => (known_iff h t).2 ⟨d', doc, hd, ht⟩
  unfold partSearch
  simp only []
  cases mode with
  | or =>
    simp only [bne_self_eq_false, Bool.false_and, Bool.false_eq_true, if_false, DocMatch]
    split
    · rename_i hemp
      simp only [List.not_mem_nil, false_iff]
      rintro ⟨doc, hd, t, htq, htw⟩
      have : t ∈ q.filter (fun t => (lookup p.postings t).isSome) := List.mem_filter.2 ⟨htq, hknown doc d hd t htw⟩
      rw [List.isEmpty_iff.1 hemp] at this
      cases this
    · simp only [List.mem_filter, List.mem_range, List.any_eq_true]
      constructor
      · rintro ⟨hlt, t, htf, htok⟩
        obtain ⟨doc, hd, hw⟩ := (hasTok_iff h d t).1 htok
        exact ⟨doc, hd, t, htf.1, hw⟩
      · rintro ⟨doc, hd, t, htq, htw⟩
        refine ⟨by rw [docs_len h]; exact lt_of_getElem?_some hd, t, ⟨htq, hknown doc d hd t htw⟩, ?_⟩
        exact (hasTok_iff h d t).2 ⟨doc, hd, htw⟩
  | and =>
    simp only [DocMatch]
    by_cases hall : q.all (fun t => (lookup p.postings t).isSome) = true
    · have hf : q.filter (fun t => (lookup p.postings t).isSome) = q :=
        List.filter_eq_self.2 (fun t ht => List.all_eq_true.1 hall t ht)
      simp only [hall, Bool.not_true, Bool.and_false, Bool.false_eq_true, if_false, hf]
      split
      · rename_i hemp
        simp only [List.not_mem_nil, false_iff]
        rintro ⟨doc, _, hne, _⟩
        exact hne (List.isEmpty_iff.1 hemp)
      · rename_i hemp
        simp only [List.mem_filter, List.mem_range, List.all_eq_true]
        constructor
        · rintro ⟨hlt, hts⟩
          obtain ⟨doc, hd⟩ := getElem?_some_of_lt (docs := docs) d (by rw [← docs_len h]; exact hlt)
          refine ⟨doc, hd, fun hq => hemp (by simp [hq]), ?_⟩
          intro t ht
          obtain ⟨doc', hd', hw⟩ := (hasTok_iff h d t).1 (hts t ht)
          rw [hd] at hd'; injection hd' with hd'; subst hd'; exact hw
        · rintro ⟨doc, hd, _, hts⟩
          exact ⟨by rw [docs_len h]; exact lt_of_getElem?_some hd, fun t ht => (hasTok_iff h d t).2 ⟨doc, hd, hts t ht⟩⟩
    · have : (Mode.and != Mode.or) = true := by decide
      simp only [this, hall, Bool.not_false, Bool.and_self, if_true, List.not_mem_nil, false_iff]
      rintro ⟨doc, hd, _, hts⟩
      exact hall (List.all_eq_true.2 (fun t ht => hknown doc d hd t (hts t ht)))
  | phrase =>
    simp only [DocMatch]
    by_cases hall : q.all (fun t => (lookup p.postings t).isSome) = true
    · have hf : q.filter (fun t => (lookup p.postings t).isSome) = q :=
        List.filter_eq_self.2 (fun t ht => List.all_eq_true.1 hall t ht)
      simp only [hall, Bool.not_true, Bool.and_false, Bool.false_eq_true, if_false, hf]
      split
      · rename_i hemp
        simp only [List.not_mem_nil, false_iff]
        rintro ⟨doc, _, hne, _⟩
        exact hne (List.isEmpty_iff.1 hemp)
      · simp only [List.mem_filter, List.mem_range, Bool.and_eq_true, List.all_eq_true]
        constructor
        · rintro ⟨_, _, hph⟩
          obtain ⟨hne, doc, hd, hs⟩ := (phraseAt_iff h d q).1 hph
          exact ⟨doc, hd, hne, hs⟩
        · rintro ⟨doc, hd, hne, start, hs⟩
          refine ⟨by rw [docs_len h]; exact lt_of_getElem?_some hd, ?_, (phraseAt_iff h d q).2 ⟨hne, doc, hd, start, hs⟩⟩
          intro t ht
          obtain ⟨i, hi⟩ : ∃ i, (t, i) ∈ q.zipIdx := by
            obtain ⟨i, hi, rfl⟩ := List.getElem_of_mem ht
            exact ⟨i, by simp [List.mem_zipIdx_iff_getElem?, List.getElem?_eq_getElem hi]⟩
          exact (hasTok_iff h d t).2 ⟨doc, hd, start + i, hs (t, i) hi⟩
    · have : (Mode.phrase != Mode.or) = true := by decide
      simp only [this, hall, Bool.not_false, Bool.and_self, if_true, List.not_mem_nil, false_iff]
      rintro ⟨doc, hd, _, start, hs⟩
      apply hall
      apply List.all_eq_true.2
      intro t ht
      obtain ⟨i, hi⟩ : ∃ i, (t, i) ∈ q.zipIdx := by
        obtain ⟨i, hi, rfl⟩ := List.getElem_of_mem ht
        exact ⟨i, by simp [List.mem_zipIdx_iff_getElem?, List.getElem?_eq_getElem hi]⟩
      exact hknown doc d hd t ⟨start + i, hs (t, i) hi⟩

end LanceModel.C23
