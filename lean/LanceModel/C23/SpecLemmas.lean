import LanceModel.C23.QueryLemmas
/-! C23 — the specification of a query on a token stream, and the evaluator against it -/
namespace LanceModel.C23

/-- SPECIFICATION of a phrase: the query's tokens occur at the relative positions the tokenizer gave them in the query
    (`qt` = positions and texts of the query) -/
def PhraseSpec (qt : List (Nat × Token)) (toks : List (Nat × Token)) : Prop :=
  match qt with
  | [] => False
  | (p0, _) :: _ => ∃ start, ∀ pt ∈ qt, (start + (pt.1 - p0), pt.2) ∈ toks

mutual
/-- SPECIFICATION of a query on the token stream of one document -/
def QSpec (ops : CharOps) (cfg : Cfg) : Query → List (Nat × Token) → Prop
  | .matchQ a text, toks => DocMatch (if a then .and else .or) (tokenTexts ops cfg text) toks
  | .phrase text, toks => PhraseSpec (tokenize ops cfg text) toks
  | .bool m s n, toks =>
    ((m.isNil = true → QSpecAny ops cfg s toks) ∧ (m.isNil = false → QSpecAll ops cfg m toks)) ∧ ¬ QSpecAny ops cfg n toks
def QSpecAny (ops : CharOps) (cfg : Cfg) : QList → List (Nat × Token) → Prop
  | .nil, _ => False
  | .cons q r, toks => QSpec ops cfg q toks ∨ QSpecAny ops cfg r toks
def QSpecAll (ops : CharOps) (cfg : Cfg) : QList → List (Nat × Token) → Prop
  | .nil, _ => True
  | .cons q r, toks => QSpec ops cfg q toks ∧ QSpecAll ops cfg r toks
end

mutual
/-- every phrase text of the query keeps dense positions 0, 1, 2, … (no token was dropped by the length filter) -/
def Query.dense (ops : CharOps) (cfg : Cfg) : Query → Bool
  | .matchQ _ _ => true
  | .phrase text => decide ((tokenize ops cfg text).map (·.1) = List.range (tokenize ops cfg text).length)
  | .bool m s n => m.dense ops cfg && s.dense ops cfg && n.dense ops cfg
def QList.dense (ops : CharOps) (cfg : Cfg) : QList → Bool
  | .nil => true
  | .cons q r => q.dense ops cfg && r.dense ops cfg
end

theorem phraseSpec_dense (qt toks : List (Nat × Token)) (hd : qt.map (·.1) = List.range qt.length) :
    PhraseSpec qt toks ↔ DocMatch .phrase (qt.map (·.2)) toks := by
  have key : ∀ (t : Token) (i : Nat), (t, i) ∈ (qt.map (·.2)).zipIdx ↔ (i, t) ∈ qt := by
    intro t i
    rw [List.mem_zipIdx_iff_getElem?]
    simp only [List.getElem?_map]
    have hpos : ∀ (j p : Nat) (t' : Token), qt[j]? = some (p, t') → p = j := by
      intro j p t' hj
      have h1 : (qt.map (·.1))[j]? = some p := by simp [List.getElem?_map, hj]
      rw [hd] at h1
      have hlt : j < qt.length := by
        rcases Nat.lt_or_ge j qt.length with h | h
        · exact h
        · rw [List.getElem?_eq_none h] at hj; cases hj
      rw [List.getElem?_range hlt] at h1
      injection h1 with h1; exact h1.symm
    constructor
    · intro h
      cases hq : qt[i]? with
      | none => rw [hq] at h; simp at h
      | some pt =>
        rw [hq] at h
        simp only [Option.map_some, Option.some.injEq] at h
        obtain ⟨p, t'⟩ := pt
        simp only at h; subst h
        have := hpos i p t' hq
        subst this
        exact List.mem_of_getElem? hq
    · intro h
      obtain ⟨j, hj⟩ := List.getElem?_of_mem h
      have := hpos j i t hj
      subst this
      simp [hj]
  cases qt with
  | nil => simp [PhraseSpec, DocMatch]
  | cons pt0 r =>
    obtain ⟨p0, t0⟩ := pt0
    have hp0 : p0 = 0 := by
      have : ((p0, t0) :: r).map (·.1) = List.range (r.length + 1) := by simpa using hd
      rw [List.range_succ_eq_map] at this
      simp only [List.map_cons, List.cons.injEq] at this
      exact this.1
    subst hp0
    simp only [PhraseSpec, DocMatch, Nat.sub_zero, ne_eq, List.map_cons, reduceCtorEq, not_false_eq_true, true_and]
    constructor
    · rintro ⟨start, h⟩
      refine ⟨start, ?_⟩
      intro ti hti
      obtain ⟨t, i⟩ := ti
      exact h (i, t) ((key t i).1 (by simpa using hti))
    · rintro ⟨start, h⟩
      refine ⟨start, ?_⟩
      intro pt hpt
      obtain ⟨i, t⟩ := pt
      exact h (t, i) (by simpa using (key t i).2 hpt)

mutual
theorem noPhrase_dense (ops : CharOps) (cfg : Cfg) : (q : Query) → q.hasPhrase = false → q.dense ops cfg = true
  | .matchQ _ _, _ => rfl
  | .phrase _, h => by simp [Query.hasPhrase] at h
  | .bool m s n, h => by
    simp only [Query.hasPhrase, Bool.or_eq_false_iff] at h
    simp only [Query.dense, Bool.and_eq_true]
    exact ⟨⟨noPhraseL_dense ops cfg m h.1.1, noPhraseL_dense ops cfg s h.1.2⟩, noPhraseL_dense ops cfg n h.2⟩
theorem noPhraseL_dense (ops : CharOps) (cfg : Cfg) : (l : QList) → l.hasPhrase = false → l.dense ops cfg = true
  | .nil, _ => rfl
  | .cons q r, h => by
    simp only [QList.hasPhrase, Bool.or_eq_false_iff] at h
    simp only [QList.dense, Bool.and_eq_true]
    exact ⟨noPhrase_dense ops cfg q h.1, noPhraseL_dense ops cfg r h.2⟩
end

/-- comparing two BM25 weights is an integer comparison of `f · (3T + 9·dl'·N)` -/
theorem weightLe_iff (n t : Nat) (ht : 0 < t) (f1 dl1 f2 dl2 : Nat) :
    weightLe n t (f1, dl1) (f2, dl2) = true ↔ f1 * (3 * t + 9 * dl2 * n) ≤ f2 * (3 * t + 9 * dl1 * n) := by
  unfold weightLe
  rw [decide_eq_true_eq]
  show 22 * f1 * t * (10 * f2 * t + 3 * t + 9 * dl2 * n) ≤ 22 * f2 * t * (10 * f1 * t + 3 * t + 9 * dl1 * n) ↔ _
  have e1 : 22 * f1 * t * (10 * f2 * t + 3 * t + 9 * dl2 * n) = 22 * t * (10 * f1 * f2 * t + f1 * (3 * t + 9 * dl2 * n)) := by
    grind
  have e2 : 22 * f2 * t * (10 * f1 * t + 3 * t + 9 * dl1 * n) = 22 * t * (10 * f1 * f2 * t + f2 * (3 * t + 9 * dl1 * n)) := by
    grind
  rw [e1, e2, Nat.mul_le_mul_left_iff (by omega : 0 < 22 * t)]
  omega

variable {ops : CharOps} {ds : Ds}

/-! ### LiveMatch algebra (row keys are unique) -/

theorem liveMatch_or (x : Nat) (P Q : List (Nat × Token) → Prop) :
    LiveMatch ops ds x P ∨ LiveMatch ops ds x Q ↔ LiveMatch ops ds x (fun toks => P toks ∨ Q toks) := by
  unfold LiveMatch
  constructor
  · rintro (⟨r, hr, h1, h2, t, ht, hp⟩ | ⟨r, hr, h1, h2, t, ht, hp⟩)
    · exact ⟨r, hr, h1, h2, t, ht, Or.inl hp⟩
    · exact ⟨r, hr, h1, h2, t, ht, Or.inr hp⟩
  · rintro ⟨r, hr, h1, h2, t, ht, hp | hp⟩
    · exact Or.inl ⟨r, hr, h1, h2, t, ht, hp⟩
    · exact Or.inr ⟨r, hr, h1, h2, t, ht, hp⟩

theorem liveMatch_and (h : WF ds) (x : Nat) (P Q : List (Nat × Token) → Prop) :
    LiveMatch ops ds x P ∧ LiveMatch ops ds x Q ↔ LiveMatch ops ds x (fun toks => P toks ∧ Q toks) := by
  unfold LiveMatch
  constructor
  · rintro ⟨⟨r, hr, h1, h2, t, ht, hp⟩, ⟨r', hr', h1', _, t', ht', hq⟩⟩
    have : r' = r := row_unique h hr' hr (by rw [h1, h1'])
    subst this
    rw [ht] at ht'; injection ht' with ht'; subst ht'
    exact ⟨r', hr, h1, h2, t, ht, hp, hq⟩
  · rintro ⟨r, hr, h1, h2, t, ht, hp, hq⟩
    exact ⟨⟨r, hr, h1, h2, t, ht, hp⟩, ⟨r, hr, h1, h2, t, ht, hq⟩⟩

theorem liveMatch_and_not (h : WF ds) (x : Nat) (P Q : List (Nat × Token) → Prop) :
    LiveMatch ops ds x P ∧ ¬ LiveMatch ops ds x Q ↔ LiveMatch ops ds x (fun toks => P toks ∧ ¬ Q toks) := by
  unfold LiveMatch
  constructor
  · rintro ⟨⟨r, hr, h1, h2, t, ht, hp⟩, hn⟩
    exact ⟨r, hr, h1, h2, t, ht, hp, fun hq => hn ⟨r, hr, h1, h2, t, ht, hq⟩⟩
  · rintro ⟨r, hr, h1, h2, t, ht, hp, hq⟩
    refine ⟨⟨r, hr, h1, h2, t, ht, hp⟩, ?_⟩
    rintro ⟨r', hr', h1', _, t', ht', hq'⟩
    have : r' = r := row_unique h hr' hr (by rw [h1, h1'])
    subst this
    rw [ht] at ht'; injection ht' with ht'; subst ht'
    exact hq hq'

theorem liveMatch_congr (x : Nat) (P Q : List (Nat × Token) → Prop) (hpq : ∀ toks, P toks ↔ Q toks) :
    LiveMatch ops ds x P ↔ LiveMatch ops ds x Q := by
  unfold LiveMatch
  constructor
  · rintro ⟨r, hr, h1, h2, t, ht, hp⟩; exact ⟨r, hr, h1, h2, t, ht, (hpq _).1 hp⟩
  · rintro ⟨r, hr, h1, h2, t, ht, hp⟩; exact ⟨r, hr, h1, h2, t, ht, (hpq _).2 hp⟩

theorem liveMatch_false (x : Nat) : ¬ LiveMatch ops ds x (fun _ => False) := by
  rintro ⟨r, _, _, _, t, _, hf⟩; exact hf

/-- the table is ready for phrase queries: it has an index and the index covers every live row -/
def PhraseReady (ds : Ds) : Prop :=
  ∃ ix, ds.idx = some ix ∧ ∀ r ∈ ds.rows, r.deleted = false → ix.frags.contains r.frag = true

mutual
theorem evalQ_spec (h : Consistent ops ds) (x : Nat) : (q : Query) → q.dense ops ds.effCfg = true →
    (q.hasPhrase = true → PhraseReady ds) → (x ∈ evalQ ops ds q ↔ LiveMatch ops ds x (QSpec ops ds.effCfg q))
  | .matchQ a text, _, _ => by
    simp only [evalQ]
    exact matchSearch_iff h a text x
  | .phrase text, hd, hp => by
    obtain ⟨ix, hix, hcov⟩ := hp rfl
    simp only [evalQ]
    rw [phraseSearch_iff h hix]
    simp only [Query.dense, decide_eq_true_eq] at hd
    unfold LiveMatch
    rw [effCfg_some hix] at hd ⊢
    constructor
    · rintro ⟨r, hr, h1, h2, _, t, ht, hm⟩
      exact ⟨r, hr, h1, h2, t, ht, (phraseSpec_dense _ _ hd).2 hm⟩
    · rintro ⟨r, hr, h1, h2, t, ht, hm⟩
      exact ⟨r, hr, h1, h2, hcov r hr h2, t, ht, (phraseSpec_dense _ _ hd).1 hm⟩
  | .bool m s n, hd, hp => by
    simp only [Query.dense, Bool.and_eq_true] at hd
    have hpm : m.hasPhrase = true → PhraseReady ds := fun hx => hp (by simp [Query.hasPhrase, hx])
    have hps : s.hasPhrase = true → PhraseReady ds := fun hx => hp (by simp [Query.hasPhrase, hx])
    have hpn : n.hasPhrase = true → PhraseReady ds := fun hx => hp (by simp [Query.hasPhrase, hx])
    simp only [evalQ, List.mem_filter, Bool.not_eq_true', List.contains_eq_mem, decide_eq_false_iff_not]
    rw [evalAny_spec h x n hd.2 hpn]
    cases hm : m.isNil with
    | true =>
      simp only [if_true]
      rw [evalAny_spec h x s hd.1.2 hps, liveMatch_and_not h.wf]
      apply liveMatch_congr
      intro toks
      simp [QSpec, hm]
    | false =>
      simp only [Bool.false_eq_true, if_false]
      rw [evalAll_spec h x m hm hd.1.1 hpm, liveMatch_and_not h.wf]
      apply liveMatch_congr
      intro toks
      simp [QSpec, hm]
theorem evalAny_spec (h : Consistent ops ds) (x : Nat) : (l : QList) → l.dense ops ds.effCfg = true →
    (l.hasPhrase = true → PhraseReady ds) → (x ∈ evalAny ops ds l ↔ LiveMatch ops ds x (QSpecAny ops ds.effCfg l))
  | .nil, _, _ => by
    simp only [evalAny, List.not_mem_nil, false_iff]
    exact liveMatch_false x
  | .cons q r, hd, hp => by
    simp only [QList.dense, Bool.and_eq_true] at hd
    simp only [evalAny, List.mem_append]
    rw [evalQ_spec h x q hd.1 (fun hx => hp (by simp [QList.hasPhrase, hx])),
      evalAny_spec h x r hd.2 (fun hx => hp (by simp [QList.hasPhrase, hx])), liveMatch_or]
    apply liveMatch_congr
    intro toks
    simp [QSpecAny]
theorem evalAll_spec (h : Consistent ops ds) (x : Nat) : (l : QList) → l.isNil = false → l.dense ops ds.effCfg = true →
    (l.hasPhrase = true → PhraseReady ds) → (x ∈ evalAll ops ds l ↔ LiveMatch ops ds x (QSpecAll ops ds.effCfg l))
  | .nil, hn, _, _ => by simp [QList.isNil] at hn
  | .cons q .nil, _, hd, hp => by
    simp only [QList.dense, Bool.and_eq_true] at hd
    simp only [evalAll]
    rw [evalQ_spec h x q hd.1 (fun hx => hp (by simp [QList.hasPhrase, hx]))]
    apply liveMatch_congr
    intro toks
    simp [QSpecAll]
  | .cons q (.cons q2 r2), _, hd, hp => by
    simp only [QList.dense, Bool.and_eq_true] at hd
    rw [evalAll]
    simp only [List.mem_filter, List.contains_eq_mem, decide_eq_true_eq]
    have hd2 : (QList.cons q2 r2).dense ops ds.effCfg = true := by simp [QList.dense, hd.2]
    rw [evalQ_spec h x q hd.1 (fun hx => hp (by simp [QList.hasPhrase, hx])),
      evalAll_spec h x (.cons q2 r2) rfl hd2 (fun hx => hp (by simp only [QList.hasPhrase, Bool.or_eq_true] at hx ⊢; exact Or.inr hx)),
      liveMatch_and h.wf]
    apply liveMatch_congr
    intro toks
    simp [QSpecAll]
end

end LanceModel.C23
