import LanceModel.C13.AssembleLemmas
/-
C13: what `execTasks` / `numberGroups` produce is `mkGroups` of a selection of tasks with consecutive fresh ids.
-/
namespace LanceModel.C13
open LanceModel.Table

/-- tasks with the id ranges reserved for them, consecutively, starting above `mf` -/
def selTasks (o : Opts) : List (List Frag) → Nat → List (List Frag × List Nat)
  | [], _ => []
  | olds :: ts, mf =>
    (olds, List.range' (mf + 1) (taskOutCount o.target olds)) :: selTasks o ts (mf + taskOutCount o.target olds)

/-- the tasks an execution order picks -/
def picked (tasks : List (List Frag)) (order : List Nat) : List (List Frag) := order.filterMap (fun k => tasks[k]?)

/-- the result of a task on a table with stable row ids: fragment ids not assigned yet -/
def zeroDone (o : Opts) (olds : List Frag) : Done :=
  ⟨olds, rewriteTask o.target (List.replicate (taskOutCount o.target olds) 0) olds⟩

def doneGroups (ds : List Done) : List Group := ds.map fun d => ⟨d.olds, d.news⟩

theorem execTasks_nonstable (o : Opts) (tasks : List (List Frag)) : ∀ (order : List Nat) (v mf : Nat),
    doneGroups (execTasks o false tasks order v mf).1 = mkGroups o.target (selTasks o (picked tasks order) mf)
  | [], v, mf => rfl
  | k :: ks, v, mf => by
    unfold execTasks picked
    cases hk : tasks[k]? with
    | none =>
      simp only [List.filterMap_cons, hk]
      exact execTasks_nonstable o tasks ks v mf
    | some olds =>
      simp only [Bool.false_eq_true, if_false, doneGroups, List.map_cons, mkGroups, List.filterMap_cons, hk, selTasks]
      have := execTasks_nonstable o tasks ks (v + 1) (mf + taskOutCount o.target olds)
      simp only [doneGroups, mkGroups, picked] at this
      rw [this]

theorem execTasks_stable (o : Opts) (tasks : List (List Frag)) : ∀ (order : List Nat) (v mf : Nat),
    (execTasks o true tasks order v mf).1 = (picked tasks order).map (zeroDone o)
  | [], v, mf => rfl
  | k :: ks, v, mf => by
    unfold execTasks picked
    cases hk : tasks[k]? with
    | none =>
      simp only [List.filterMap_cons, hk]
      exact execTasks_stable o tasks ks v mf
    | some olds =>
      simp only [if_true, List.filterMap_cons, hk, List.map_cons, zeroDone, List.cons.injEq, true_and]
      exact execTasks_stable o tasks ks v mf

theorem zipWith_setId : ∀ (chunks : List (List PRow)) (ids0 ids : List Nat),
    ids0.length = chunks.length → ids.length = chunks.length →
    List.zipWith (fun (f : Frag) i => ({ f with id := i } : Frag))
      (List.zipWith (fun i c => ({ id := i, rows := c } : Frag)) ids0 chunks) ids
      = List.zipWith (fun i c => ({ id := i, rows := c } : Frag)) ids chunks
  | [], _, _, _, _ => by simp
  | c :: cs, [], _, h, _ => by simp at h
  | c :: cs, _ :: _, [], _, h => by simp at h
  | c :: cs, i0 :: is0, i :: is, h0, h => by
    simp only [List.zipWith_cons_cons, List.cons.injEq, true_and]
    exact zipWith_setId cs is0 is (by simpa using h0) (by simpa using h)

theorem rewriteTask_length (target : Nat) (ids : List Nat) (olds : List Frag)
    (h : ids.length = taskOutCount target olds) : (rewriteTask target ids olds).length = taskOutCount target olds := by
  simp only [rewriteTask, List.length_zipWith, taskOutCount] at *
  omega

/-- `reserve_fragment_ids` inside commit_compaction (stable row ids): numbering the zero-id results left to right -/
theorem numberGroups_zeroDone (o : Opts) : ∀ (ts : List (List Frag)) (next : Nat),
    doneGroups (numberGroups (ts.map (zeroDone o)) (next + 1)) = mkGroups o.target (selTasks o ts next)
  | [], next => rfl
  | olds :: ts, next => by
    simp only [List.map_cons, numberGroups, doneGroups, mkGroups, selTasks, zeroDone]
    have hlen : (rewriteTask o.target (List.replicate (taskOutCount o.target olds) 0) olds).length
        = taskOutCount o.target olds := rewriteTask_length _ _ _ (by simp)
    rw [hlen]
    have hz : List.zipWith (fun (f : Frag) i => ({ f with id := i } : Frag))
        (rewriteTask o.target (List.replicate (taskOutCount o.target olds) 0) olds)
        (List.range' (next + 1) (taskOutCount o.target olds))
        = rewriteTask o.target (List.range' (next + 1) (taskOutCount o.target olds)) olds := by
      unfold rewriteTask
      exact zipWith_setId _ _ _ (by simp [taskOutCount]) (by simp [taskOutCount])
    rw [hz]
    have := numberGroups_zeroDone o ts (next + taskOutCount o.target olds)
    simp only [doneGroups, mkGroups, zeroDone] at this
    rw [show next + 1 + taskOutCount o.target olds = next + taskOutCount o.target olds + 1 by omega, this]

/-! ### properties of the selection -/

theorem selTasks_ids_gt (o : Opts) : ∀ (ts : List (List Frag)) (mf : Nat),
    ∀ i ∈ (selTasks o ts mf).flatMap (·.2), mf < i
  | [], _, i, hi => by simp [selTasks] at hi
  | olds :: ts, mf, i, hi => by
    simp only [selTasks, List.flatMap_cons, List.mem_append] at hi
    rcases hi with h | h
    · have := List.mem_range'_1.mp h; omega
    · have := selTasks_ids_gt o ts _ i h; omega

theorem selTasks_ids_nodup (o : Opts) : ∀ (ts : List (List Frag)) (mf : Nat),
    ((selTasks o ts mf).flatMap (·.2)).Nodup
  | [], _ => by simp [selTasks]
  | olds :: ts, mf => by
    simp only [selTasks, List.flatMap_cons]
    refine List.nodup_append.mpr ⟨List.nodup_range', selTasks_ids_nodup o ts _, ?_⟩
    intro a ha b hb hab
    have h1 := List.mem_range'_1.mp ha
    have h2 := selTasks_ids_gt o ts _ b hb
    omega

theorem selTasks_fst (o : Opts) : ∀ (ts : List (List Frag)) (mf : Nat), (selTasks o ts mf).map (·.1) = ts
  | [], _ => rfl
  | olds :: ts, mf => by simp [selTasks, selTasks_fst o ts]

theorem selTasks_count (o : Opts) : ∀ (ts : List (List Frag)) (mf : Nat),
    ∀ p ∈ selTasks o ts mf, p.2.length = taskOutCount o.target p.1
  | [], _, p, hp => by simp [selTasks] at hp
  | olds :: ts, mf, p, hp => by
    simp only [selTasks] at hp
    rcases List.mem_cons.mp hp with h | h
    · subst h; simp
    · exact selTasks_count o ts _ p h

/-- **plan tasks + reserved ids ⇒ valid commit**: any duplicate-free selection `ts` of tasks of `plan` (any subset,
    any order), numbered consecutively above a high-water mark `mf` that bounds every fragment id of the table (what
    `reserve_fragment_ids` hands out), is a valid commit. -/
theorem selTasks_commitOk (o : Opts) (ixs : List (List Nat)) (fs : List Frag) (ht : 0 < o.target)
    (hn : (fs.map Frag.id).Nodup) (mf : Nat) (hmf : ∀ f ∈ fs, f.id ≤ mf)
    (ts : List (List Frag)) (hts : ∀ t ∈ ts, t ∈ plan o ixs fs) (hdist : ts.Pairwise (· ≠ ·)) :
    CommitOk fs (mkGroups o.target (selTasks o ts mf)) := by
  have hfst := selTasks_fst o ts mf
  apply plan_commitOk o ixs fs ht hn _ ?_ ?_ (selTasks_count o ts mf) ?_ (selTasks_ids_nodup o ts mf)
  · intro p hp
    apply hts
    rw [← hfst]
    exact List.mem_map_of_mem hp
  · have : ((selTasks o ts mf).map (·.1)).Pairwise (· ≠ ·) := by rw [hfst]; exact hdist
    exact List.pairwise_map.mp this
  · intro p hp i hi
    have hgt := selTasks_ids_gt o ts mf i (List.mem_flatMap.mpr ⟨p, hp, hi⟩)
    refine ⟨by omega, ?_⟩
    intro hmem
    obtain ⟨f, hf, hfi⟩ := List.mem_map.mp hmem
    have := hmf f hf
    omega

/-- distinct positions of a pairwise-disjoint list of non-empty tasks hold different tasks -/
theorem picked_distinct (tasks : List (List Frag))
    (hdis : tasks.Pairwise (fun a b => ∀ x ∈ a, ∀ y ∈ b, x.id ≠ y.id)) (hne : ∀ t ∈ tasks, t ≠ []) :
    ∀ (order : List Nat), order.Nodup →
      (picked tasks order).Pairwise (· ≠ ·) ∧ ∀ p ∈ picked tasks order, ∃ k ∈ order, tasks[k]? = some p
  | [], _ => by simp [picked]
  | k :: ks, hnd => by
    have hnd' := List.nodup_cons.mp hnd
    have ih := picked_distinct tasks hdis hne ks hnd'.2
    unfold picked at *
    cases hk : tasks[k]? with
    | none =>
      simp only [List.filterMap_cons, hk]
      exact ⟨ih.1, fun p hp => let ⟨j, hj, h⟩ := ih.2 p hp; ⟨j, List.mem_cons_of_mem _ hj, h⟩⟩
    | some olds =>
      simp only [List.filterMap_cons, hk]
      refine ⟨List.pairwise_cons.mpr ⟨?_, ih.1⟩, ?_⟩
      · intro q hq heq
        obtain ⟨j, hj, hjq⟩ := ih.2 q hq
        have hkj : k ≠ j := fun h => hnd'.1 (h ▸ hj)
        obtain ⟨hk1, hk2⟩ := List.getElem?_eq_some_iff.mp hk
        obtain ⟨hj1, hj2⟩ := List.getElem?_eq_some_iff.mp hjq
        have hne' : olds ≠ [] := hne olds (List.mem_of_getElem? hk)
        obtain ⟨x, hx⟩ := List.exists_mem_of_ne_nil olds hne'
        have hpw := List.pairwise_iff_getElem.mp hdis
        rcases Nat.lt_or_gt_of_ne hkj with hlt | hgt
        · exact hpw k j hk1 hj1 hlt x (hk2 ▸ hx) x (hj2 ▸ heq ▸ hx) rfl
        · exact hpw j k hj1 hk1 hgt x (hj2 ▸ heq ▸ hx) x (hk2 ▸ hx) rfl
      · intro p hp
        rcases List.mem_cons.mp hp with h | h
        · subst h; exact ⟨k, List.mem_cons_self .., hk⟩
        · obtain ⟨j, hj, hjp⟩ := ih.2 p h
          exact ⟨j, List.mem_cons_of_mem _ hj, hjp⟩

end LanceModel.C13
