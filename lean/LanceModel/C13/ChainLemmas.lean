import LanceModel.C13.AddrLemmas
import LanceModel.C13.CommitLemmas
import LanceModel.C13.IndexLemmas
/-
C13: the address map of one compaction (`transpose`) carries every live row of the whole table (`StepOk`), so
`remap_row_id` over several deferred compactions finds every row (`remap_chain_row`).
-/
namespace LanceModel.C13
open LanceModel.Table

theorem lookup_mem : ∀ (l : AddrMap) (k : Nat) (v : Option Nat), (l.map (·.1)).Nodup → (k, v) ∈ l →
    lookupAddr l k = some v
  | [], _, _, _, h => by simp at h
  | (k', v') :: rest, k, v, hn, h => by
    simp only [List.map_cons, List.nodup_cons] at hn
    unfold lookupAddr
    rcases List.mem_cons.mp h with h1 | h1
    · injection h1 with hk hv
      simp [hk, hv]
    · have hne : k' ≠ k := by
        intro he
        exact hn.1 (he ▸ List.mem_map_of_mem (f := (·.1)) h1)
      simp only [hne, if_false]
      exact lookup_mem rest k v hn.2 h1

theorem lookup_append_left : ∀ (l r : AddrMap) (k : Nat) (v : Option Nat), lookupAddr l k = some v →
    lookupAddr (l ++ r) k = some v
  | [], _, _, _, h => by simp [lookupAddr] at h
  | (k', v') :: rest, r, k, v, h => by
    unfold lookupAddr at h
    simp only [List.cons_append, lookupAddr]
    split
    · rename_i he; simp only [he, if_true] at h; exact h
    · rename_i he; simp only [he, if_false] at h
      exact lookup_append_left rest r k v h

theorem lookup_none : ∀ (l : AddrMap) (k : Nat), k ∉ l.map (·.1) → lookupAddr l k = none
  | [], _, _ => rfl
  | (k', v') :: rest, k, h => by
    simp only [List.map_cons, List.mem_cons, not_or] at h
    unfold lookupAddr
    have hne : k' ≠ k := fun he => h.1 he.symm
    simp only [hne, if_false]
    exact lookup_none rest k h.2

theorem rowAt_some (T : List Frag) (a : Nat) (r : PRow) (h : rowAt T a = some r) :
    ∃ f ∈ T, f.id = a / 4294967296 ∧ f.rows[a % 4294967296]? = some r := by
  unfold rowAt at h
  split at h
  · rename_i f hf
    have hm := List.mem_of_find?_eq_some hf
    have hp := List.find?_some hf
    exact ⟨f, hm, by simpa using hp, h⟩
  · simp at h

theorem rowAt_of_mem (T : List Frag) (hwf : WF T) (f : Frag) (hf : f ∈ T) (a : Nat) (hid : f.id = a / 4294967296) :
    rowAt T a = f.rows[a % 4294967296]? := by
  unfold rowAt
  rw [← hid, find_by_id T hwf.1 f hf]

theorem mem_liveOffsets : ∀ (rows : List PRow) (i off : Nat) (r : PRow), rows[off]? = some r → r.del = false →
    i + off ∈ liveOffsets rows i
  | [], _, _, _, h, _ => by simp at h
  | x :: xs, i, 0, r, h, hd => by
    simp only [List.getElem?_cons_zero, Option.some.injEq] at h
    subst h
    simp [liveOffsets, hd]
  | x :: xs, i, off + 1, r, h, hd => by
    simp only [List.getElem?_cons_succ] at h
    have ih := mem_liveOffsets xs (i + 1) off r h hd
    have he : i + (off + 1) = i + 1 + off := by omega
    unfold liveOffsets
    split
    · rw [he]; exact ih
    · rw [he]; exact List.mem_cons_of_mem _ ih

theorem delAddrs_div (f : Frag) (hlen : f.rows.length ≤ 4294967296) : ∀ a ∈ f.delAddrs, a / 4294967296 = f.id := by
  intro a ha
  simp only [Frag.delAddrs, List.mem_map] at ha
  obtain ⟨off, hoff, rfl⟩ := ha
  have := delOffsets_bounds f.rows 0 off hoff
  exact addr_div _ _ (by omega)

theorem addr_decompose (a : Nat) : a = addr (a / 4294967296) (a % 4294967296) := by
  unfold addr; omega

/-- **the address map of one compaction carries every live row of the table**: rows of the rewritten fragments are
    found at their new address, rows of every other fragment stay where they are -/
theorem transpose_stepOk (T T' olds news : List Frag) (hT : WF T) (hT' : WF T') (hwo : WF olds) (hwn : WF news)
    (holds : ∀ o ∈ olds, o ∈ T) (hnews : ∀ n ∈ news, n ∈ T')
    (hkeep : ∀ f ∈ T, f.id ∉ olds.map Frag.id → f ∈ T')
    (hrows : visible news = visible olds) :
    StepOk T T' (transpose olds news) := by
  intro a r hr hd
  obtain ⟨f, hfT, hfid, hfr⟩ := rowAt_some T a r hr
  have hlen : (visibleAddrs olds).length = (visibleAddrs news).length := by
    rw [visibleAddrs_length, visibleAddrs_length, hrows]
  by_cases hmem : f.id ∈ olds.map Frag.id
  · -- a rewritten fragment
    obtain ⟨o, ho, hoid⟩ := List.mem_map.mp hmem
    have hof : o = f := eq_of_id_eq T hT.1 o f (holds o ho) hfT hoid
    subst hof
    have hoff : a % 4294967296 < o.rows.length := by
      have := List.getElem?_eq_some_iff.mp hfr
      exact this.1
    have ha : a = addr o.id (a % 4294967296) := by rw [hfid]; exact addr_decompose a
    have hlive : a ∈ o.liveAddrs := by
      unfold Frag.liveAddrs
      rw [ha]
      apply List.mem_map_of_mem
      have := mem_liveOffsets o.rows 0 (a % 4294967296) r hfr hd
      simpa using this
    have hvis : a ∈ visibleAddrs olds := List.mem_flatMap.mpr ⟨o, ho, hlive⟩
    obtain ⟨i, hi⟩ := List.getElem?_of_mem hvis
    have hilt : i < (visibleAddrs news).length := by
      have := (List.getElem?_eq_some_iff.mp hi).1
      omega
    let b := (visibleAddrs news)[i]
    have hb : (visibleAddrs news)[i]? = some b := List.getElem?_eq_getElem hilt
    -- the map sends a to b
    have hpair : (a, some b) ∈ List.zip (visibleAddrs olds) ((visibleAddrs news).map some) := by
      apply List.mem_of_getElem? (i := i)
      exact List.getElem?_zip_eq_some.mpr ⟨hi, by simp [hb]⟩
    have hkeys : ((List.zip (visibleAddrs olds) ((visibleAddrs news).map some)).map (·.1)).Nodup := by
      rw [List.map_fst_zip (by simp; omega)]
      exact visibleAddrs_nodup olds hwo
    have hlook : lookupAddr (transpose olds news) a = some (some b) := by
      unfold transpose
      exact lookup_append_left _ _ a _ (lookup_mem _ a _ hkeys hpair)
    refine ⟨b, by simp [remapOne, hlook], ?_⟩
    -- and b holds the same row
    have ho' := congrArg (fun l => l[i]?) (visibleAddrs_rows olds hwo)
    have hn' := congrArg (fun l => l[i]?) (visibleAddrs_rows news hwn)
    simp only [List.getElem?_map, hi, hb, Option.map_some, hrows] at ho' hn'
    have hro : rowAt olds a = some r := by
      rw [rowAt_of_mem olds hwo o ho a hfid]; exact hfr
    rw [hro] at ho'
    have hrn : rowAt news b = some r := by
      cases hv : (visible olds)[i]? with
      | none => rw [hv] at ho'; simp at ho'
      | some row =>
        rw [hv] at ho' hn'
        simp only [Option.map_some, Option.some.injEq] at ho' hn'
        rw [hn', ← ho']
    obtain ⟨n, hn, hnid, hnr⟩ := rowAt_some news b r hrn
    rw [rowAt_of_mem T' hT' n (hnews n hn) b hnid]
    exact hnr
  · -- an untouched fragment: the map does not mention a
    have hnokey : a ∉ (transpose olds news).map (·.1) := by
      intro hk
      unfold transpose at hk
      simp only [List.map_append, List.mem_append, List.map_map] at hk
      rcases hk with h1 | h1
      · rw [List.map_fst_zip (by simp; omega)] at h1
        obtain ⟨g, hg, hag⟩ := List.mem_flatMap.mp h1
        have := liveAddrs_div g (hwo.2 g hg) a hag
        exact hmem (by rw [hfid, this]; exact List.mem_map_of_mem hg)
      · obtain ⟨x, hx, hxa⟩ := List.mem_map.mp h1
        simp only [Function.comp] at hxa
        subst hxa
        obtain ⟨g, hg, hag⟩ := List.mem_flatMap.mp hx
        have := delAddrs_div g (hwo.2 g hg) x hag
        exact hmem (by rw [hfid, this]; exact List.mem_map_of_mem hg)
    refine ⟨a, by simp [remapOne, lookup_none _ a hnokey], ?_⟩
    rw [rowAt_of_mem T' hT' f (hkeep f hfT hmem) a hfid]
    exact hfr

end LanceModel.C13
