import LanceModel.C13.Driver
def main : IO Unit := LanceModel.Util.runDriver LanceModel.C13.Driver.step none
