/-
C13 model, part 2 (import-free): `FragReuseIndex::remap_row_id` (rust/lance-index/src/frag_reuse.rs) — the row
address translation applied to index entries while index remaps are deferred: one map per deferred compaction
(`row_id_maps`, oldest first), each `old address → Some(new address) | None (deleted)`.
-/
namespace LanceModel.C13

/-- one compaction's `HashMap<u64, Option<u64>>` as an association list (first entry for a key wins; the maps built
    by `transpose_row_ids_from_digest` have distinct keys) -/
abbrev AddrMap := List (Nat × Option Nat)

/-- `row_id_map.get(&a).copied()` -/
def lookupAddr : AddrMap → Nat → Option (Option Nat)
  | [], _ => none
  | (k, v) :: rest, a => if k = a then some v else lookupAddr rest a

/-- `row_id_map.get(&v).copied().unwrap_or(Some(v))`: an address the map does not mention stays as it is -/
def remapOne (m : AddrMap) (a : Nat) : Option Nat :=
  match lookupAddr m a with
  | some r => r
  | none => some a

/-- the body of the `for row_id_map in self.row_id_maps.iter()` loop on `mapped_value` -/
def remapStep (mv : Option Nat) (m : AddrMap) : Option Nat :=
  match mv with
  | some v => remapOne m v
  | none => none

/-- `FragReuseIndex::remap_row_id`: thread the address through every map, oldest first; once deleted, deleted -/
def remapRowId (maps : List AddrMap) (a : Nat) : Option Nat := maps.foldl remapStep (some a)

/-- the behaviour of a seeded change the check is meant to catch: stop after the first map -/
def remapRowIdFirstOnly (maps : List AddrMap) (a : Nat) : Option Nat :=
  match maps with
  | [] => some a
  | m :: _ => remapOne m a

end LanceModel.C13
