import LanceModel.C13.TableLemmas
import LanceModel.C13.PlanLemmas
/-
C13: the tasks of a plan, executed with reserved ids, form a valid commit (`CommitOk`).
-/
namespace LanceModel.C13
open LanceModel.Table

/-! ### tasks are disjoint -/

theorem plan_tasks_disjoint (o : Opts) (ixs : List (List Nat)) (fs : List Frag) (hn : (fs.map Frag.id).Nodup) :
    (plan o ixs fs).Pairwise (fun a b => ∀ x ∈ a, ∀ y ∈ b, x.id ≠ y.id)
    ∧ ∀ t ∈ plan o ixs fs, t.Sublist fs := by
  have hs := plan_flatten_sublist o ixs fs
  have hnd : (plan o ixs fs).flatten.Nodup := hs.nodup (nodup_of_map Frag.id fs hn)
  refine ⟨?_, fun t ht => (sublist_of_mem_flatten_prefix _ t ht).trans hs⟩
  refine (pairwise_disjoint_of_nodup_flatten _ hnd).imp_of_mem ?_
  intro a b ha hb hab x hx y hy hid
  have hxm : x ∈ fs := hs.subset (List.mem_flatten.mpr ⟨a, ha, hx⟩)
  have hym : y ∈ fs := hs.subset (List.mem_flatten.mpr ⟨b, hb, hy⟩)
  exact hab x hx y hy (eq_of_id_eq fs hn x y hxm hym hid)

/-! ### tasks are non-empty -/

theorem isNoop_false_frags (b : Bin) (h : b.isNoop = false) : b.frags ≠ [] := by
  intro he
  unfold Bin.isNoop at h
  rw [he] at h
  simp at h

theorem natSum_pos_ne_nil (l : List Nat) (h : 0 < natSum l) : l ≠ [] := by
  intro he; rw [he] at h; simp [natSum] at h

theorem splitForSize_nonempty (min : Nat) (hmin : 0 < min) : ∀ (fuel : Nat) (fs : List Frag), fs ≠ [] →
    ∀ t ∈ splitForSize min fuel fs, t ≠ []
  | 0, fs, hfs, t, ht => by
    simp only [splitForSize, List.mem_singleton] at ht
    exact ht ▸ hfs
  | fuel + 1, fs, hfs, t, ht => by
    unfold splitForSize at ht
    split at ht
    · rename_i hc
      rcases List.mem_cons.mp ht with h1 | h1
      · subst h1
        intro he
        have hl := congrArg List.length he
        simp only [List.length_take, List.length_nil] at hl
        have : 0 < fs.length := List.length_pos_iff.mpr hfs
        omega
      · apply splitForSize_nonempty min hmin fuel _ ?_ t h1
        intro he
        have := hc.1
        rw [he] at this
        simp [natSum] at this
        omega
    · simp only [List.mem_singleton] at ht
      exact ht ▸ hfs

/-- every task of a plan rewrites at least one fragment -/
theorem plan_nonempty (o : Opts) (ixs : List (List Nat)) (fs : List Frag) (ht : 0 < o.target) :
    ∀ t ∈ plan o ixs fs, t ≠ [] := by
  intro t hmem
  unfold plan at hmem
  obtain ⟨b, hb, htb⟩ := List.mem_flatMap.mp hmem
  have hnoop : b.isNoop = false := by
    have := (List.mem_filter.mp hb).2
    simpa using this
  exact splitForSize_nonempty o.target ht _ b.frags (isNoop_false_frags b hnoop) t htb

/-! ### ids of the new fragments -/

theorem zipWith_ids : ∀ (ids : List Nat) (chunks : List (List PRow)), ids.length = chunks.length →
    (List.zipWith (fun i c => ({ id := i, rows := c } : Frag)) ids chunks).map Frag.id = ids
  | [], [], _ => rfl
  | [], _ :: _, h => by simp at h
  | _ :: _, [], h => by simp at h
  | i :: is, c :: cs, h => by
    simp only [List.zipWith_cons_cons, List.map_cons]
    rw [zipWith_ids is cs (by simpa using h)]

theorem rewriteTask_ids (target : Nat) (ids : List Nat) (olds : List Frag)
    (h : ids.length = taskOutCount target olds) : (rewriteTask target ids olds).map Frag.id = ids :=
  zipWith_ids ids _ h

theorem pairwise_of_mem {α : Type} (R : α → α → Prop) (hsymm : ∀ a b, R a b → R b a) :
    ∀ (L : List α), L.Pairwise R → ∀ a ∈ L, ∀ b ∈ L, a ≠ b → R a b
  | [], _, a, ha, _, _, _ => by simp at ha
  | x :: xs, h, a, ha, b, hb, hab => by
    have hx := List.pairwise_cons.mp h
    rcases List.mem_cons.mp ha with h1 | h1 <;> rcases List.mem_cons.mp hb with h2 | h2
    · exact absurd (h1.trans h2.symm) hab
    · subst h1; exact hx.1 b h2
    · subst h2; exact hsymm _ _ (hx.1 a h1)
    · exact pairwise_of_mem R hsymm xs hx.2 a h1 b h2 hab

/-- the groups built from chosen tasks and the ids reserved for them -/
def mkGroups (target : Nat) (sel : List (List Frag × List Nat)) : List Group :=
  sel.map fun p => ⟨p.1, rewriteTask target p.2 p.1⟩

theorem mkGroups_newIds (target : Nat) : ∀ (sel : List (List Frag × List Nat)),
    (∀ p ∈ sel, p.2.length = taskOutCount target p.1) →
    ((mkGroups target sel).flatMap Group.news).map Frag.id = sel.flatMap (·.2)
  | [], _ => rfl
  | p :: ps, h => by
    simp only [mkGroups, List.map_cons, List.flatMap_cons, List.map_append]
    rw [rewriteTask_ids target p.2 p.1 (h p (List.mem_cons_self ..))]
    have := mkGroups_newIds target ps (fun q hq => h q (List.mem_cons_of_mem _ hq))
    simp only [mkGroups] at this
    rw [this]

/-- **plan_commit_ok**: for every table with unique fragment ids, every option set and every index coverage, any
    selection of distinct tasks of `plan`, rewritten by `rewriteTask` with ids that are non-zero, fresh and pairwise
    distinct (one per new fragment), is a valid commit. -/
theorem plan_commitOk (o : Opts) (ixs : List (List Nat)) (fs : List Frag) (ht : 0 < o.target)
    (hn : (fs.map Frag.id).Nodup) (sel : List (List Frag × List Nat))
    (hsel : ∀ p ∈ sel, p.1 ∈ plan o ixs fs)
    (hdistinct : sel.Pairwise (fun p q => p.1 ≠ q.1))
    (hcount : ∀ p ∈ sel, p.2.length = taskOutCount o.target p.1)
    (hfresh : ∀ p ∈ sel, ∀ i ∈ p.2, i ≠ 0 ∧ i ∉ fs.map Frag.id)
    (hids : (sel.flatMap (·.2)).Nodup) :
    CommitOk fs (mkGroups o.target sel) := by
  have hpd := plan_tasks_disjoint o ixs fs hn
  have hmem : ∀ g ∈ mkGroups o.target sel, ∃ p ∈ sel, g = ⟨p.1, rewriteTask o.target p.2 p.1⟩ := by
    intro g hg
    simp only [mkGroups, List.mem_map] at hg
    obtain ⟨p, hp, rfl⟩ := hg
    exact ⟨p, hp, rfl⟩
  refine ⟨hn, ?_, ?_, ?_, ?_, ?_, ?_, ?_⟩
  · intro g hg
    obtain ⟨p, hp, rfl⟩ := hmem g hg
    exact plan_nonempty o ixs fs ht p.1 (hsel p hp)
  · intro g hg
    obtain ⟨p, hp, rfl⟩ := hmem g hg
    exact hpd.2 p.1 (hsel p hp)
  · simp only [mkGroups, List.pairwise_map]
    refine hdistinct.imp_of_mem ?_
    intro p q hp hq hpq x hx y hy
    exact pairwise_of_mem _ (fun a b hab x hx y hy => (hab y hy x hx).symm) _ hpd.1 p.1 (hsel p hp) q.1 (hsel q hq) hpq
      x hx y hy
  · intro g hg
    obtain ⟨p, hp, rfl⟩ := hmem g hg
    exact rewriteTask_visible o.target ht p.2 p.1 (Nat.le_of_eq (hcount p hp).symm)
  · intro g hg n hn'
    obtain ⟨p, hp, rfl⟩ := hmem g hg
    have : n.id ∈ p.2 := by
      rw [← rewriteTask_ids o.target p.2 p.1 (hcount p hp)]
      exact List.mem_map_of_mem hn'
    exact (hfresh p hp n.id this).1
  · intro g hg n hn'
    obtain ⟨p, hp, rfl⟩ := hmem g hg
    have : n.id ∈ p.2 := by
      rw [← rewriteTask_ids o.target p.2 p.1 (hcount p hp)]
      exact List.mem_map_of_mem hn'
    exact (hfresh p hp n.id this).2
  · rw [mkGroups_newIds o.target sel hcount]
    exact hids

end LanceModel.C13
