import LanceModel.C13.Model
/-
C13 lemmas about rewrite_files (chunking, content preservation of a task) and the row address transpose.
-/
namespace LanceModel.C13
open LanceModel.Table

/-! ### chunk -/

theorem chunkFuel_flatten {α : Type} (n : Nat) (hn : 0 < n) :
    ∀ (fuel : Nat) (l : List α), l.length ≤ fuel → (chunkFuel n fuel l).flatten = l
  | 0, l, h => by
    have : l = [] := List.eq_nil_of_length_eq_zero (by omega)
    simp [chunkFuel, this]
  | fuel + 1, l, h => by
    unfold chunkFuel
    split
    · rename_i he
      simp only [List.isEmpty_iff] at he
      simp [he]
    · rename_i he
      have hpos : 0 < l.length := by
        cases l with
        | nil => simp at he
        | cons => simp
      simp only [List.flatten_cons]
      rw [chunkFuel_flatten n hn fuel (l.drop n) (by simp only [List.length_drop]; omega)]
      exact List.take_append_drop n l

/-- the data files of a write hold exactly the rows of the stream, in order -/
theorem chunk_flatten {α : Type} (n : Nat) (hn : 0 < n) (l : List α) : (chunk n l).flatten = l :=
  chunkFuel_flatten n hn l.length l (Nat.le_refl _)

theorem chunkFuel_bounds {α : Type} (n : Nat) (hn : 0 < n) :
    ∀ (fuel : Nat) (l : List α), ∀ c ∈ chunkFuel n fuel l, 0 < c.length ∧ c.length ≤ n
  | 0, l, c, hc => by simp [chunkFuel] at hc
  | fuel + 1, l, c, hc => by
    unfold chunkFuel at hc
    split at hc
    · simp at hc
    · rename_i he
      have hpos : 0 < l.length := by
        cases l with
        | nil => simp at he
        | cons => simp
      rcases List.mem_cons.mp hc with h | h
      · subst h
        simp only [List.length_take]
        omega
      · exact chunkFuel_bounds n hn fuel _ c h

/-- no data file is empty and none exceeds `max_rows_per_file` -/
theorem chunk_bounds {α : Type} (n : Nat) (hn : 0 < n) (l : List α) :
    ∀ c ∈ chunk n l, 0 < c.length ∧ c.length ≤ n :=
  chunkFuel_bounds n hn l.length l

theorem mem_of_mem_chunk {α : Type} (n : Nat) (hn : 0 < n) (l : List α) (c : List α) (hc : c ∈ chunk n l)
    (x : α) (hx : x ∈ c) : x ∈ l := by
  have := chunk_flatten n hn l
  rw [← this]
  exact List.mem_flatten.mpr ⟨c, hc, hx⟩

/-! ### visible -/

theorem live_not_del (f : Frag) : ∀ r ∈ f.live, r.del = false := by
  intro r hr
  simp only [Frag.live, List.mem_filter, Bool.not_eq_true'] at hr
  exact hr.2

theorem visible_not_del (fs : List Frag) : ∀ r ∈ visible fs, r.del = false := by
  intro r hr
  simp only [visible, List.mem_flatMap] at hr
  obtain ⟨f, _, hf⟩ := hr
  exact live_not_del f r hf

theorem filter_live_id (c : List PRow) (h : ∀ r ∈ c, r.del = false) : c.filter (fun r => !r.del) = c := by
  apply List.filter_eq_self.mpr
  intro r hr
  simp [h r hr]

theorem visible_nil : visible [] = [] := rfl

theorem visible_cons (f : Frag) (fs : List Frag) : visible (f :: fs) = f.live ++ visible fs := by
  simp [visible]

theorem visible_append (a b : List Frag) : visible (a ++ b) = visible a ++ visible b := by
  simp [visible]

/-- fragments built from row lists without deleted rows scan to the concatenation of the row lists -/
theorem visible_zipWith (ids : List Nat) (chunks : List (List PRow)) (hlen : chunks.length ≤ ids.length)
    (h : ∀ c ∈ chunks, ∀ r ∈ c, r.del = false) :
    visible (List.zipWith (fun i c => ({ id := i, rows := c } : Frag)) ids chunks) = chunks.flatten := by
  induction chunks generalizing ids with
  | nil => simp [visible]
  | cons c cs ih =>
    cases ids with
    | nil => simp at hlen
    | cons i is =>
      simp only [List.zipWith_cons_cons, visible_cons, List.flatten_cons]
      rw [ih is (by simpa using hlen) (fun c' hc' => h c' (List.mem_cons_of_mem _ hc'))]
      simp only [Frag.live]
      rw [filter_live_id c (h c (List.mem_cons_self ..))]

/-- **rewrite_files preserves the rows of its task, in order, with their row ids and versions**: the new fragments
    scan to exactly the live rows of the old ones (`PRow` carries data, rid, created, updated). -/
theorem rewriteTask_visible (target : Nat) (ht : 0 < target) (ids : List Nat) (olds : List Frag)
    (hids : taskOutCount target olds ≤ ids.length) :
    visible (rewriteTask target ids olds) = visible olds := by
  unfold rewriteTask
  rw [visible_zipWith ids _ hids]
  · exact chunk_flatten target ht _
  · intro c hc r hr
    exact visible_not_del olds r (mem_of_mem_chunk target ht _ c hc r hr)

/-- every new fragment is non-empty, has at most `target` rows and no deletions -/
theorem rewriteTask_frags (target : Nat) (ht : 0 < target) (ids : List Nat) (olds : List Frag) :
    ∀ f ∈ rewriteTask target ids olds, 0 < f.physical ∧ f.physical ≤ target ∧ f.numDel = 0 := by
  intro f hf
  unfold rewriteTask at hf
  obtain ⟨k, hk, rfl⟩ := List.mem_iff_getElem.mp hf
  simp only [List.length_zipWith] at hk
  simp only [List.getElem_zipWith, Frag.physical, Frag.numDel, Frag.live]
  have hc : (chunk target (visible olds))[k] ∈ chunk target (visible olds) := List.getElem_mem _
  have hb := chunk_bounds target ht _ _ hc
  refine ⟨hb.1, hb.2, ?_⟩
  rw [filter_live_id _ (fun r hr => visible_not_del olds r (mem_of_mem_chunk target ht _ _ hc r hr))]
  omega

end LanceModel.C13
