import LanceModel.C13.EndToEnd
/-
C13: several commit batches of one plan (commitAll), for any execution order and any batch assignment.
-/
namespace LanceModel.C13
open LanceModel.Table

/-! ### sorted lists -/

def StrictById (l : List Frag) : Prop := l.Pairwise (fun a b => a.id < b.id)

theorem strict_of_sorted_nodup (l : List Frag) (hs : SortedById l) (hn : (l.map Frag.id).Nodup) : StrictById l := by
  have hne : l.Pairwise (fun a b => a.id ≠ b.id) := List.pairwise_map.mp hn
  exact (hs.and hne).imp (by intro a b h; omega)

theorem sublist_of_strict : ∀ (L l : List Frag), StrictById L → StrictById l → (∀ x ∈ l, x ∈ L) → l.Sublist L
  | [], l, _, _, hm => by
    cases l with
    | nil => exact List.Sublist.slnil
    | cons x xs => exact absurd (hm x (List.mem_cons_self ..)) (by simp)
  | y :: L', l, hL, hl, hm => by
    cases l with
    | nil => exact List.nil_sublist _
    | cons x l' =>
      have hL' := List.pairwise_cons.mp hL
      have hl' := List.pairwise_cons.mp hl
      by_cases hxy : x = y
      · subst hxy
        apply List.Sublist.cons_cons
        apply sublist_of_strict L' l' hL'.2 hl'.2
        intro z hz
        rcases List.mem_cons.mp (hm z (List.mem_cons_of_mem _ hz)) with h | h
        · subst h
          have := hl'.1 z hz
          omega
        · exact h
      · apply List.Sublist.cons
        apply sublist_of_strict L' (x :: l') hL'.2 hl
        have hxL : x ∈ L' := by
          rcases List.mem_cons.mp (hm x (List.mem_cons_self ..)) with h | h
          · exact absurd h hxy
          · exact h
        have hyx : y.id < x.id := hL'.1 x hxL
        intro z hz
        rcases List.mem_cons.mp (hm z hz) with h | h
        · subst h
          rcases List.mem_cons.mp hz with h2 | h2
          · exact absurd h2.symm hxy
          · have := hl'.1 z h2
            omega
        · exact h

/-- `build_manifest`'s sort keeps the pending groups of a plan valid (their old fragments are in id order) -/
theorem commitOk_sort (final : List Frag) (rest : List Group) (h : CommitOk final rest)
    (hs : ∀ g ∈ rest, StrictById g.olds) : CommitOk (sortById final) rest := by
  have hp := sortById_perm final
  have hnod : ((sortById final).map Frag.id).Nodup := (hp.map Frag.id).nodup_iff.mpr h.nodup
  refine ⟨hnod, h.nonempty, ?_, h.disjoint, h.rows, h.newNonzero, ?_, h.newNodup⟩
  · intro g hg
    apply sublist_of_strict _ _ (strict_of_sorted_nodup _ (sortById_sorted final) hnod) (hs g hg)
    intro x hx
    exact hp.symm.subset ((h.sub g hg).subset hx)
  · intro g hg n hn hmem
    exact h.newFresh g hg n hn ((hp.map Frag.id).subset hmem)

theorem rewriteFragments_split (final : List Frag) (gs rest : List Group) (next : Nat)
    (h : CommitOk final (gs ++ rest)) (hs : ∀ g ∈ rest, StrictById g.olds) :
    ∃ frags', rewriteFragments final gs next = .ok frags' ∧ (visible frags').Perm (visible final)
      ∧ CommitOk frags' rest := by
  obtain ⟨final', h1, h2, h3⟩ := handleRewrite_split gs rest final next h
  refine ⟨sortById final', by simp [rewriteFragments, h1], (visible_perm (sortById_perm final')).trans h2,
    commitOk_sort final' rest h3 hs⟩

/-! ### what a successful commit returns -/

theorem maxId_ge : ∀ (fs : List Frag) (m : Nat), m ≤ maxId fs m ∧ ∀ f ∈ fs, f.id ≤ maxId fs m
  | [], m => by simp [maxId]
  | g :: gs, m => by
    have ih := maxId_ge gs (max m g.id)
    simp only [maxId, List.foldl_cons] at *
    refine ⟨by omega, ?_⟩
    intro f hf
    rcases List.mem_cons.mp hf with h | h
    · subst h; omega
    · exact ih.2 f h

theorem commit_frags2 (o : Opts) (t t' : Table) (ds : List Done) (hne : ds.isEmpty = false)
    (h : commit o t ds = .ok t') :
    (∃ next, rewriteFragments t.frags (doneGroups (if t.stable then numberGroups ds (t.maxFrag + 1) else ds)) next
      = .ok t'.frags) ∧ t'.stable = t.stable ∧ ∀ f ∈ t'.frags, f.id ≤ t'.maxFrag := by
  unfold commit at h
  simp only [hne, Bool.false_eq_true, if_false] at h
  split at h
  · simp at h
  · simp at h
  · split at h
    · simp at h
    · rename_i frags hfr
      split at h
      · simp only [Except.ok.injEq] at h
        subst h
        exact ⟨⟨_, by simpa [doneGroups] using hfr⟩, rfl, (maxId_ge _ _).2⟩
      · simp at h
      · simp at h

/-! ### the batches together are a rearranged subset of the executed tasks -/

theorem filter3_perm {β : Type} (p1 p2 p3 : β → Bool) (h12 : ∀ x, p1 x = true → p2 x = false)
    (h13 : ∀ x, p1 x = true → p3 x = false) (h23 : ∀ x, p2 x = true → p3 x = false) : ∀ (l : List β),
    (l.filter p1 ++ l.filter p2 ++ l.filter p3).Perm (l.filter (fun x => p1 x || p2 x || p3 x))
  | [] => by simp
  | x :: l => by
    have ih := filter3_perm p1 p2 p3 h12 h13 h23 l
    by_cases c1 : p1 x = true
    · simp only [List.filter_cons, c1, h12 x c1, h13 x c1, Bool.true_or, if_true, Bool.false_eq_true, if_false,
        List.cons_append]
      exact ih.cons x
    · have c1' : p1 x = false := by simpa using c1
      by_cases c2 : p2 x = true
      · simp only [List.filter_cons, c1', c2, h23 x c2, Bool.false_or, Bool.true_or, if_true, Bool.false_eq_true,
          if_false]
        have : (l.filter p1 ++ x :: l.filter p2 ++ l.filter p3).Perm (x :: (l.filter p1 ++ l.filter p2 ++ l.filter p3)) := by
          rw [List.append_assoc, List.append_assoc]
          exact List.perm_middle
        exact this.trans (ih.cons x)
      · have c2' : p2 x = false := by simpa using c2
        by_cases c3 : p3 x = true
        · simp only [List.filter_cons, c1', c2', c3, Bool.false_or, if_true, Bool.false_eq_true, if_false]
          exact List.perm_middle.trans (ih.cons x)
        · have c3' : p3 x = false := by simpa using c3
          simp only [List.filter_cons, c1', c2', c3', Bool.false_or, Bool.false_eq_true, if_false]
          exact ih

theorem flatten_filter_nonempty {α : Type} : ∀ (L : List (List α)), (L.filter (fun l => !l.isEmpty)).flatten = L.flatten
  | [] => rfl
  | x :: xs => by
    cases x with
    | nil => simp [List.filter_cons, flatten_filter_nonempty xs]
    | cons a as => simp [List.filter_cons, flatten_filter_nonempty xs]

theorem batches_flatten_subperm {α : Type} (cs : List Nat) (done : List α) :
    ∃ b0, (batches cs done).flatten.Perm b0 ∧ b0.Sublist done := by
  let q (b : Nat) : α × Nat → Bool := fun p => batchOf cs p.2 == b
  refine ⟨((done.zipIdx.filter (fun x => q 1 x || q 2 x || q 3 x)).map (·.1)), ?_, pick_sublist _ done⟩
  have hf : (batches cs done).flatten
      = (done.zipIdx.filter (q 1)).map (·.1) ++ ((done.zipIdx.filter (q 2)).map (·.1)).reverse
        ++ (done.zipIdx.filter (q 3)).map (·.1) := by
    simp only [batches, flatten_filter_nonempty, List.flatten_cons, List.flatten_nil, List.append_nil,
      List.append_assoc, q]
  rw [hf]
  have h := (filter3_perm (q 1) (q 2) (q 3)
    (by intro x h; simp only [q, beq_iff_eq] at h ⊢; simp [h])
    (by intro x h; simp only [q, beq_iff_eq] at h ⊢; simp [h])
    (by intro x h; simp only [q, beq_iff_eq] at h ⊢; simp [h]) done.zipIdx).map (·.1)
  simp only [List.map_append] at h
  refine List.Perm.trans ?_ h
  exact List.Perm.append (List.Perm.append (List.Perm.refl _) (List.reverse_perm _)) (List.Perm.refl _)

/-! ### several commits, address-style row ids -/

theorem doneGroups_append (a b : List Done) : doneGroups (a ++ b) = doneGroups a ++ doneGroups b := by
  simp [doneGroups]

theorem commitAll_nonstable (o : Opts) : ∀ (bs : List (List Done)) (t1 t' : Table), t1.stable = false →
    CommitOk t1.frags (doneGroups bs.flatten) → (∀ d ∈ bs.flatten, StrictById d.olds) →
    commitAll o t1 bs = .ok t' → (visible t'.frags).Perm (visible t1.frags) ∧ (t'.frags.map Frag.id).Nodup
  | [], t1, t', _, hok, _, h => by
    simp only [commitAll, Except.ok.injEq] at h
    subst h
    exact ⟨List.Perm.refl _, hok.nodup⟩
  | b :: bs, t1, t', hst, hok, hs, h => by
    simp only [commitAll] at h
    split at h
    · simp at h
    · rename_i t2 hc
      cases he : b.isEmpty with
      | true =>
        have hb : b = [] := List.isEmpty_iff.mp he
        have h21 : t2 = t1 := commit_empty o t1 t2 b he hc
        subst hb
        subst h21
        exact commitAll_nonstable o bs t2 t' hst (by simpa using hok) (by simpa using hs) h
      | false =>
        obtain ⟨⟨next, hrf⟩, hst2, _⟩ := commit_frags2 o t1 t2 b he hc
        simp only [hst, Bool.false_eq_true, if_false] at hrf
        simp only [List.flatten_cons, doneGroups_append] at hok
        have hs' : ∀ g ∈ doneGroups bs.flatten, StrictById g.olds := by
          intro g hg
          simp only [doneGroups, List.mem_map] at hg
          obtain ⟨d, hd, rfl⟩ := hg
          exact hs d (by simp [hd])
        obtain ⟨frags', h1, h2, h3⟩ := rewriteFragments_split t1.frags _ _ next hok hs'
        rw [hrf] at h1
        injection h1 with h1
        have ih := commitAll_nonstable o bs t2 t' (hst2.trans hst) (h1 ▸ h3)
          (fun d hd => hs d (by simp [hd])) h
        exact ⟨ih.1.trans (h1 ▸ h2), ih.2⟩

/-! ### several commits, stable row ids (ids are handed out inside every commit) -/

theorem mkGroups_append (target : Nat) (a b : List (List Frag × List Nat)) :
    mkGroups target (a ++ b) = mkGroups target a ++ mkGroups target b := by
  simp [mkGroups]

theorem mkGroups_olds (target : Nat) (sel : List (List Frag × List Nat)) :
    (mkGroups target sel).map Group.olds = sel.map (·.1) := by
  simp [mkGroups, List.map_map, Function.comp]

def totalOut (o : Opts) (ts : List (List Frag)) : Nat := natSum (ts.map (taskOutCount o.target))

theorem selTasks_append (o : Opts) : ∀ (a b : List (List Frag)) (mf : Nat),
    selTasks o (a ++ b) mf = selTasks o a mf ++ selTasks o b (mf + totalOut o a)
  | [], b, mf => by simp [selTasks, totalOut, natSum]
  | x :: a, b, mf => by
    simp only [List.cons_append, selTasks, selTasks_append o a b, totalOut, List.map_cons, natSum, List.cons.injEq,
      true_and, List.append_cancel_left_eq]
    congr 1
    omega

/-- a valid commit of numbered tasks stays valid when the ids are handed out above another high-water mark -/
theorem commitOk_renumber (o : Opts) (ht : 0 < o.target) (fs : List Frag) (ts : List (List Frag)) (mf mf' : Nat)
    (h : CommitOk fs (mkGroups o.target (selTasks o ts mf))) (hb : ∀ f ∈ fs, f.id ≤ mf') :
    CommitOk fs (mkGroups o.target (selTasks o ts mf')) := by
  have holds : ∀ mf'', (mkGroups o.target (selTasks o ts mf'')).map Group.olds = ts := by
    intro mf''; rw [mkGroups_olds, selTasks_fst]
  -- facts about the tasks themselves
  have htask : ∀ t ∈ ts, t ≠ [] ∧ t.Sublist fs := by
    intro t htm
    rw [← holds mf] at htm
    obtain ⟨g, hg, rfl⟩ := List.mem_map.mp htm
    exact ⟨h.nonempty g hg, h.sub g hg⟩
  have hdis : ts.Pairwise (fun a b => ∀ x ∈ a, ∀ y ∈ b, x.id ≠ y.id) := by
    have : ((mkGroups o.target (selTasks o ts mf)).map Group.olds).Pairwise
        (fun a b => ∀ x ∈ a, ∀ y ∈ b, x.id ≠ y.id) := List.pairwise_map.mpr h.disjoint
    rwa [holds mf] at this
  have hmem : ∀ g ∈ mkGroups o.target (selTasks o ts mf'), ∃ p ∈ selTasks o ts mf',
      g = ⟨p.1, rewriteTask o.target p.2 p.1⟩ := by
    intro g hg
    simp only [mkGroups, List.mem_map] at hg
    obtain ⟨p, hp, rfl⟩ := hg
    exact ⟨p, hp, rfl⟩
  have hp1 : ∀ p ∈ selTasks o ts mf', p.1 ∈ ts := by
    intro p hp
    rw [← selTasks_fst o ts mf']
    exact List.mem_map_of_mem hp
  have hidmem : ∀ p ∈ selTasks o ts mf', ∀ n ∈ rewriteTask o.target p.2 p.1, n.id ∈ p.2 := by
    intro p hp n hn
    rw [← rewriteTask_ids o.target p.2 p.1 (selTasks_count o ts mf' p hp)]
    exact List.mem_map_of_mem hn
  refine ⟨h.nodup, ?_, ?_, ?_, ?_, ?_, ?_, ?_⟩
  · intro g hg
    obtain ⟨p, hp, rfl⟩ := hmem g hg
    exact (htask p.1 (hp1 p hp)).1
  · intro g hg
    obtain ⟨p, hp, rfl⟩ := hmem g hg
    exact (htask p.1 (hp1 p hp)).2
  · have : ((mkGroups o.target (selTasks o ts mf')).map Group.olds).Pairwise
        (fun a b => ∀ x ∈ a, ∀ y ∈ b, x.id ≠ y.id) := by rw [holds mf']; exact hdis
    exact List.pairwise_map.mp this
  · intro g hg
    obtain ⟨p, hp, rfl⟩ := hmem g hg
    exact rewriteTask_visible o.target ht p.2 p.1 (Nat.le_of_eq (selTasks_count o ts mf' p hp).symm)
  · intro g hg n hn
    obtain ⟨p, hp, rfl⟩ := hmem g hg
    have := selTasks_ids_gt o ts mf' n.id (List.mem_flatMap.mpr ⟨p, hp, hidmem p hp n hn⟩)
    omega
  · intro g hg n hn hm
    obtain ⟨p, hp, rfl⟩ := hmem g hg
    have := selTasks_ids_gt o ts mf' n.id (List.mem_flatMap.mpr ⟨p, hp, hidmem p hp n hn⟩)
    obtain ⟨f, hf, hfi⟩ := List.mem_map.mp hm
    have := hb f hf
    omega
  · rw [mkGroups_newIds o.target _ (selTasks_count o ts mf')]
    exact selTasks_ids_nodup o ts mf'

theorem commitAll_stable (o : Opts) (ht : 0 < o.target) : ∀ (bs : List (List Done)) (t1 t' : Table),
    t1.stable = true → (∀ d ∈ bs.flatten, zeroDone o d.olds = d) →
    CommitOk t1.frags (mkGroups o.target (selTasks o (bs.flatten.map (·.olds)) t1.maxFrag)) →
    (∀ f ∈ t1.frags, f.id ≤ t1.maxFrag) → (∀ d ∈ bs.flatten, StrictById d.olds) →
    commitAll o t1 bs = .ok t' → (visible t'.frags).Perm (visible t1.frags) ∧ (t'.frags.map Frag.id).Nodup
  | [], t1, t', _, _, hok, _, _, h => by
    simp only [commitAll, Except.ok.injEq] at h
    subst h
    exact ⟨List.Perm.refl _, hok.nodup⟩
  | b :: bs, t1, t', hst, hz, hok, hbound, hs, h => by
    simp only [commitAll] at h
    split at h
    · simp at h
    · rename_i t2 hc
      cases he : b.isEmpty with
      | true =>
        have hb : b = [] := List.isEmpty_iff.mp he
        have h21 : t2 = t1 := commit_empty o t1 t2 b he hc
        subst hb
        subst h21
        exact commitAll_stable o ht bs t2 t' hst (by simpa using hz) (by simpa using hok) hbound
          (by simpa using hs) h
      | false =>
        obtain ⟨⟨next, hrf⟩, hst2, hbound2⟩ := commit_frags2 o t1 t2 b he hc
        simp only [hst, if_true] at hrf
        have hbz : b = (b.map (·.olds)).map (zeroDone o) := by
          rw [List.map_map]
          symm
          calc b.map (zeroDone o ∘ fun d => d.olds) = b.map id := by
                apply List.map_congr_left
                intro d hd
                simp only [Function.comp, id]
                exact hz d (by simp [hd])
            _ = b := List.map_id _
        rw [hbz, numberGroups_zeroDone] at hrf
        simp only [List.flatten_cons, List.map_append, selTasks_append, mkGroups_append] at hok
        have hs' : ∀ g ∈ mkGroups o.target (selTasks o (bs.flatten.map (·.olds))
            (t1.maxFrag + totalOut o (b.map (·.olds)))), StrictById g.olds := by
          intro g hg
          have : g.olds ∈ (mkGroups o.target (selTasks o (bs.flatten.map (·.olds))
              (t1.maxFrag + totalOut o (b.map (·.olds))))).map Group.olds := List.mem_map_of_mem hg
          rw [mkGroups_olds, selTasks_fst] at this
          obtain ⟨d, hd, hdo⟩ := List.mem_map.mp this
          rw [← hdo]
          exact hs d (by simp [hd])
        obtain ⟨frags', h1, h2, h3⟩ := rewriteFragments_split t1.frags _ _ next hok hs'
        rw [hrf] at h1
        injection h1 with h1
        have h3' := commitOk_renumber o ht t2.frags _ _ t2.maxFrag (h1 ▸ h3) hbound2
        have ih := commitAll_stable o ht bs t2 t' (hst2.trans hst) (fun d hd => hz d (by simp [hd])) h3' hbound2
          (fun d hd => hs d (by simp [hd])) h
        exact ⟨ih.1.trans (h1 ▸ h2), ih.2⟩

/-! ### the whole op -/

/-- **compact_preserves_all**: a whole `compact` op for ANY execution order and ANY assignment of the executed tasks
    to commit batches (dropped tasks, up to three successive `commit_compaction`s of one plan, the second in reverse):
    whenever it succeeds, the scan is a permutation of the old scan (rows with stable ids and versions) and fragment
    ids stay unique — for every table whose fragment list is in id order with unique ids below max_fragment_id, all
    options with target ≥ 1, every index coverage, stable row ids or not, deferred remap or not. -/
theorem compact_preserves_all (o : Opts) (t : Table) (xs cs : List Nat) (out : CompactOut) (hwf : TableWF t)
    (hsorted : SortedById t.frags) (ht : 0 < o.target) (h : compact o t xs cs = .ok out) :
    (visible out.table.frags).Perm (visible t.frags) ∧ (out.table.frags.map Frag.id).Nodup := by
  unfold compact at h
  split at h
  · simp at h
  · rename_i ixs hix
    simp only [] at h
    split at h
    · simp at h
    · rename_i t' hc
      simp only [Except.ok.injEq] at h
      subst h
      simp only []
      have hnd := execOrder_nodup xs (plan o ixs t.frags).length
      have hstrict := strict_of_sorted_nodup t.frags hsorted hwf.1
      have hpd := plan_tasks_disjoint o ixs t.frags hwf.1
      have hpk := picked_distinct (plan o ixs t.frags) hpd.1 (plan_nonempty o ixs t.frags ht) _ hnd
      have hplan : ∀ p ∈ picked (plan o ixs t.frags) (execOrder xs (plan o ixs t.frags).length),
          p ∈ plan o ixs t.frags := by
        intro p hp
        obtain ⟨k, _, hk⟩ := hpk.2 p hp
        exact List.mem_of_getElem? hk
      have hpstrict : ∀ p ∈ plan o ixs t.frags, StrictById p := fun p hp => hstrict.sublist (hpd.2 p hp)
      obtain ⟨b0, hperm, hsub⟩ := batches_flatten_subperm cs (execTasks o t.stable (plan o ixs t.frags)
        (execOrder xs (plan o ixs t.frags).length) t.version t.maxFrag).1
      cases hst : t.stable with
      | false =>
        rw [hst] at hc hperm hsub
        have hall : CommitOk t.frags (doneGroups (execTasks o false (plan o ixs t.frags)
            (execOrder xs (plan o ixs t.frags).length) t.version t.maxFrag).1) := by
          rw [execTasks_nonstable]
          exact selTasks_commitOk o ixs t.frags ht hwf.1 t.maxFrag hwf.2 _ hplan hpk.1
        have hok := commitOk_subset t.frags _ (doneGroups b0) _ hall (hsub.map _) (hperm.map _)
        have key := fun a b c => commitAll_nonstable o _ _ t' a b c hc
        refine key rfl hok ?_
        intro d hd
        have hd' := hsub.subset (hperm.subset hd)
        have : (⟨d.olds, d.news⟩ : Group) ∈ doneGroups (execTasks o false (plan o ixs t.frags)
            (execOrder xs (plan o ixs t.frags).length) t.version t.maxFrag).1 := by
          simp only [doneGroups, List.mem_map]
          exact ⟨d, hd', rfl⟩
        rw [execTasks_nonstable] at this
        have hmo := List.mem_map_of_mem (f := Group.olds) this
        rw [mkGroups_olds, selTasks_fst] at hmo
        exact hpstrict _ (hplan _ hmo)
      | true =>
        rw [hst] at hc hperm hsub
        rw [execTasks_stable] at hsub
        have hcnt := execTasks_stable_counters o (plan o ixs t.frags)
          (execOrder xs (plan o ixs t.frags).length) t.version t.maxFrag
        have hz : ∀ d ∈ (batches cs (execTasks o true (plan o ixs t.frags)
            (execOrder xs (plan o ixs t.frags).length) t.version t.maxFrag).1).flatten, zeroDone o d.olds = d := by
          intro d hd
          obtain ⟨p, _, hp⟩ := List.mem_map.mp (hsub.subset (hperm.subset hd))
          rw [← hp]
          rfl
        have hts_perm := hperm.map (fun d : Done => d.olds)
        have hts_sub : (b0.map (·.olds)).Sublist (picked (plan o ixs t.frags)
            (execOrder xs (plan o ixs t.frags).length)) := by
          have := hsub.map (fun d : Done => d.olds)
          rw [List.map_map] at this
          have hid : ((fun d : Done => d.olds) ∘ zeroDone o) = id := by funext p; rfl
          rwa [hid, List.map_id] at this
        have hdist := (hts_perm.pairwise_iff (fun hab => Ne.symm hab)).mpr (hpk.1.sublist hts_sub)
        have hpl : ∀ p ∈ (batches cs (execTasks o true (plan o ixs t.frags)
            (execOrder xs (plan o ixs t.frags).length) t.version t.maxFrag).1).flatten.map (·.olds),
            p ∈ plan o ixs t.frags := fun p hp => hplan p (hts_sub.subset (hts_perm.subset hp))
        have hok := selTasks_commitOk o ixs t.frags ht hwf.1 t.maxFrag hwf.2 _ hpl hdist
        have key := fun a b c d e => commitAll_stable o ht _ _ t' a b c d e hc
        refine key rfl hz ?_ ?_ ?_
        · simpa only [hcnt] using hok
        · simpa only [hcnt] using hwf.2
        · intro d hd
          exact hpstrict _ (hpl _ (List.mem_map_of_mem hd))

end LanceModel.C13
