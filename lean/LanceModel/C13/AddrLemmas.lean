import LanceModel.C13.RewriteLemmas
/-
C13 lemmas about row addresses: the address list of a scan, the row stored at an address, and the transpose
(old address → new address) built by rewrite_files.
-/
namespace LanceModel.C13
open LanceModel.Table

/-- fragment ids are unique and no fragment has more than 2^32 physical rows (an address then determines its
    fragment and offset) -/
def WF (fs : List Frag) : Prop := (fs.map Frag.id).Nodup ∧ ∀ f ∈ fs, f.rows.length ≤ 4294967296

theorem addr_div (id off : Nat) (h : off < 4294967296) : addr id off / 4294967296 = id := by
  unfold addr; omega

theorem addr_mod (id off : Nat) (h : off < 4294967296) : addr id off % 4294967296 = off := by
  unfold addr; omega

theorem liveOffsets_bounds (rs : List PRow) (i : Nat) : ∀ x ∈ liveOffsets rs i, i ≤ x ∧ x < i + rs.length := by
  induction rs generalizing i with
  | nil => simp [liveOffsets]
  | cons r rs ih =>
    intro x hx
    unfold liveOffsets at hx
    split at hx
    · have := ih (i + 1) x hx
      simp only [List.length_cons]; omega
    · rcases List.mem_cons.mp hx with h | h
      · subst h; simp only [List.length_cons]; omega
      · have := ih (i + 1) x h
        simp only [List.length_cons]; omega

theorem delOffsets_bounds (rs : List PRow) (i : Nat) : ∀ x ∈ delOffsets rs i, i ≤ x ∧ x < i + rs.length := by
  induction rs generalizing i with
  | nil => simp [delOffsets]
  | cons r rs ih =>
    intro x hx
    unfold delOffsets at hx
    split at hx
    · rcases List.mem_cons.mp hx with h | h
      · subst h; simp only [List.length_cons]; omega
      · have := ih (i + 1) x h
        simp only [List.length_cons]; omega
    · have := ih (i + 1) x hx
      simp only [List.length_cons]; omega

theorem liveOffsets_sorted (rs : List PRow) (i : Nat) : (liveOffsets rs i).Pairwise (· < ·) := by
  induction rs generalizing i with
  | nil => simp [liveOffsets]
  | cons r rs ih =>
    unfold liveOffsets
    split
    · exact ih (i + 1)
    · refine List.pairwise_cons.mpr ⟨?_, ih (i + 1)⟩
      intro x hx
      have := liveOffsets_bounds rs (i + 1) x hx
      omega

/-- reading the rows at the live offsets gives the live rows -/
theorem liveOffsets_rows (all : List PRow) (rs : List PRow) (i : Nat) (h : ∀ j, all[i + j]? = rs[j]?) :
    (liveOffsets rs i).map (fun off => all[off]?) = (rs.filter (fun r => !r.del)).map some := by
  induction rs generalizing i with
  | nil => simp [liveOffsets]
  | cons r rs ih =>
    have h0 : all[i]? = some r := by simpa using h 0
    have ht : ∀ j, all[i + 1 + j]? = rs[j]? := by
      intro j
      have := h (j + 1)
      simpa [Nat.add_assoc, Nat.add_comm 1 j] using this
    unfold liveOffsets
    by_cases hd : r.del = true
    · simp only [hd, if_true, List.filter_cons, Bool.not_true]
      simpa using ih (i + 1) ht
    · simp only [hd, Bool.false_eq_true, if_false, List.filter_cons, List.map_cons, h0]
      have hd' : r.del = false := by simpa using hd
      simp only [hd', Bool.not_false, if_true, List.map_cons]
      rw [ih (i + 1) ht]

theorem delOffsets_rows (all : List PRow) (rs : List PRow) (i : Nat) (h : ∀ j, all[i + j]? = rs[j]?) :
    ∀ off ∈ delOffsets rs i, ∃ r, all[off]? = some r ∧ r.del = true := by
  induction rs generalizing i with
  | nil => simp [delOffsets]
  | cons r rs ih =>
    have h0 : all[i]? = some r := by simpa using h 0
    have ht : ∀ j, all[i + 1 + j]? = rs[j]? := by
      intro j
      have := h (j + 1)
      simpa [Nat.add_assoc, Nat.add_comm 1 j] using this
    intro off hoff
    unfold delOffsets at hoff
    split at hoff
    · rename_i hd
      rcases List.mem_cons.mp hoff with h1 | h1
      · subst h1; exact ⟨r, h0, hd⟩
      · exact ih (i + 1) ht off h1
    · exact ih (i + 1) ht off hoff

theorem find_by_id (fs : List Frag) (hn : (fs.map Frag.id).Nodup) (f : Frag) (hf : f ∈ fs) :
    fs.find? (fun g => g.id == f.id) = some f := by
  induction fs with
  | nil => simp at hf
  | cons g gs ih =>
    simp only [List.map_cons, List.nodup_cons] at hn
    rcases List.mem_cons.mp hf with h | h
    · subst h; simp
    · have hne : g.id ≠ f.id := by
        intro he
        exact hn.1 (he ▸ List.mem_map_of_mem h)
      simp only [List.find?_cons]
      have : (g.id == f.id) = false := by simpa using hne
      rw [this]
      exact ih hn.2 h

theorem rowAt_addr (fs : List Frag) (hwf : WF fs) (f : Frag) (hf : f ∈ fs) (off : Nat) (hoff : off < f.rows.length) :
    rowAt fs (addr f.id off) = f.rows[off]? := by
  have hlt : off < 4294967296 := Nat.lt_of_lt_of_le hoff (hwf.2 f hf)
  unfold rowAt
  rw [addr_div _ _ hlt, addr_mod _ _ hlt, find_by_id fs hwf.1 f hf]

theorem liveAddrs_rows (fs : List Frag) (hwf : WF fs) (f : Frag) (hf : f ∈ fs) :
    f.liveAddrs.map (rowAt fs) = f.live.map some := by
  unfold Frag.liveAddrs Frag.live
  rw [List.map_map, ← liveOffsets_rows f.rows f.rows 0 (by simp)]
  apply List.map_congr_left
  intro off hoff
  have := liveOffsets_bounds f.rows 0 off hoff
  simp only [Function.comp]
  exact rowAt_addr fs hwf f hf off (by omega)

theorem visibleAddrs_rows_sub (fs : List Frag) (hwf : WF fs) (sub : List Frag) (hs : ∀ f ∈ sub, f ∈ fs) :
    (visibleAddrs sub).map (rowAt fs) = (visible sub).map some := by
  induction sub with
  | nil => simp [visibleAddrs, visible]
  | cons f rest ih =>
    simp only [visibleAddrs, visible, List.flatMap_cons, List.map_append] at *
    rw [liveAddrs_rows fs hwf f (hs f (List.mem_cons_self ..)), ih (fun g hg => hs g (List.mem_cons_of_mem _ hg))]

/-- reading the table at the scan's row addresses gives the scanned rows -/
theorem visibleAddrs_rows (fs : List Frag) (hwf : WF fs) : (visibleAddrs fs).map (rowAt fs) = (visible fs).map some :=
  visibleAddrs_rows_sub fs hwf fs (fun _ h => h)

theorem visibleAddrs_length (fs : List Frag) : (visibleAddrs fs).length = (visible fs).length := by
  induction fs with
  | nil => simp [visibleAddrs, visible]
  | cons f rest ih =>
    simp only [visibleAddrs, visible, List.flatMap_cons, List.length_append] at *
    rw [ih]
    congr 1
    simp only [Frag.liveAddrs, Frag.live, List.length_map]
    generalize 0 = i
    induction f.rows generalizing i with
    | nil => simp [liveOffsets]
    | cons r rs ih2 =>
      unfold liveOffsets
      by_cases hd : r.del = true
      · simp [hd, ih2 (i + 1)]
      · have hd' : r.del = false := by simpa using hd
        simp [hd', ih2 (i + 1)]

theorem liveAddrs_div (f : Frag) (hlen : f.rows.length ≤ 4294967296) : ∀ a ∈ f.liveAddrs, a / 4294967296 = f.id := by
  intro a ha
  simp only [Frag.liveAddrs, List.mem_map] at ha
  obtain ⟨off, hoff, rfl⟩ := ha
  have := liveOffsets_bounds f.rows 0 off hoff
  exact addr_div _ _ (by omega)

theorem liveAddrs_nodup (f : Frag) : f.liveAddrs.Nodup := by
  unfold Frag.liveAddrs
  have h := liveOffsets_sorted f.rows 0
  have : ((liveOffsets f.rows 0).map (addr f.id)).Pairwise (· < ·) := by
    rw [List.pairwise_map]
    exact h.imp (by intro a b hab; unfold addr; omega)
  exact this.imp (by intro a b hab; omega)

/-- the addresses of the rows of a scan are pairwise distinct -/
theorem visibleAddrs_nodup (fs : List Frag) (hwf : WF fs) : (visibleAddrs fs).Nodup := by
  induction fs with
  | nil => simp [visibleAddrs]
  | cons f rest ih =>
    have hn := hwf.1
    simp only [List.map_cons, List.nodup_cons] at hn
    have hwf' : WF rest := ⟨hn.2, fun g hg => hwf.2 g (List.mem_cons_of_mem _ hg)⟩
    simp only [visibleAddrs, List.flatMap_cons]
    refine List.nodup_append.mpr ⟨liveAddrs_nodup f, ih hwf', ?_⟩
    intro a ha b hb hab
    subst hab
    have h1 := liveAddrs_div f (hwf.2 f (List.mem_cons_self ..)) a ha
    obtain ⟨g, hg, hbg⟩ := List.mem_flatMap.mp hb
    have h2 := liveAddrs_div g (hwf.2 g (List.mem_cons_of_mem _ hg)) a hbg
    exact hn.1 (by rw [← h1, h2]; exact List.mem_map_of_mem hg)

end LanceModel.C13
