import LanceModel.C13.RewriteLemmas
/-
C13 lemmas about the Rewrite commit: handle_rewrite_fragments (splice / retain + extend), the final sort by id.
-/
namespace LanceModel.C13
open LanceModel.Table

/-! ### generic -/

theorem nodup_of_map {α β : Type} (f : α → β) : ∀ (l : List α), (l.map f).Nodup → l.Nodup
  | [], _ => List.nodup_nil
  | a :: l, h => by
    simp only [List.map_cons, List.nodup_cons] at h
    refine List.nodup_cons.mpr ⟨fun ha => h.1 (List.mem_map_of_mem ha), nodup_of_map f l h.2⟩

/-- with unique ids a fragment is determined by its id -/
theorem eq_of_id_eq (fs : List Frag) (hn : (fs.map Frag.id).Nodup) (a b : Frag) (ha : a ∈ fs) (hb : b ∈ fs)
    (h : a.id = b.id) : a = b := by
  induction fs with
  | nil => simp at ha
  | cons g gs ih =>
    simp only [List.map_cons, List.nodup_cons] at hn
    rcases List.mem_cons.mp ha with h1 | h1 <;> rcases List.mem_cons.mp hb with h2 | h2
    · rw [h1, h2]
    · subst h1; exact absurd (h ▸ List.mem_map_of_mem h2) hn.1
    · subst h2; exact absurd (h ▸ List.mem_map_of_mem h1) hn.1
    · exact ih hn.2 h1 h2

theorem sublist_nodup_ids {a b : List Frag} (h : a.Sublist b) (hn : (b.map Frag.id).Nodup) : (a.map Frag.id).Nodup :=
  (h.map Frag.id).nodup hn

/-! ### fragments_with_ids -/

theorem assignIds_nonzero : ∀ (l : List Frag) (n : Nat), (∀ f ∈ l, f.id ≠ 0) → assignIds l n = (l, n)
  | [], n, _ => rfl
  | f :: fs, n, h => by
    have hf : f.id ≠ 0 := h f (List.mem_cons_self ..)
    have ih := assignIds_nonzero fs n (fun g hg => h g (List.mem_cons_of_mem _ hg))
    simp [assignIds, hf, ih]

theorem assignIds_visible : ∀ (l : List Frag) (n : Nat), visible (assignIds l n).1 = visible l
  | [], n => rfl
  | f :: fs, n => by
    unfold assignIds
    split
    · simp only [visible_cons, assignIds_visible fs (n + 1)]; rfl
    · simp only [visible_cons, assignIds_visible fs n]

/-! ### locating the run -/

theorem findIdx_append (pre : List Frag) (o : Frag) (rest : List Frag) (h : ∀ f ∈ pre, f.id ≠ o.id) :
    findIdx (pre ++ o :: rest) o.id = some pre.length := by
  induction pre with
  | nil => simp [findIdx]
  | cons p ps ih =>
    have hp : p.id ≠ o.id := h p (List.mem_cons_self ..)
    simp only [List.cons_append, findIdx, hp, if_false, List.length_cons]
    rw [ih (fun f hf => h f (List.mem_cons_of_mem _ hf))]
    rfl

theorem checkRun_prefix (os post : List Frag) : checkRun (os ++ post) (os.map Frag.id) = some true := by
  induction os with
  | nil => simp [checkRun]
  | cons o os ih => simp [checkRun, ih]

theorem checkRun_true : ∀ (rest : List Frag) (ids : List Nat), checkRun rest ids = some true →
    ∃ mid post, rest = mid ++ post ∧ mid.map Frag.id = ids
  | rest, [], _ => ⟨[], rest, rfl, rfl⟩
  | [], _ :: _, h => by simp [checkRun] at h
  | f :: fs, o :: os, h => by
    unfold checkRun at h
    split at h
    · simp at h
    · rename_i he
      obtain ⟨mid, post, h1, h2⟩ := checkRun_true fs os h
      have : f.id = o := by simpa using he
      exact ⟨f :: mid, post, by simp [h1], by simp [h2, this]⟩

/-- old fragments that keep the manifest's relative order never make the contiguity loop run out of bounds -/
theorem checkRun_sublist : ∀ (rest os : List Frag), (rest.map Frag.id).Nodup → os.Sublist rest →
    ∃ b, checkRun rest (os.map Frag.id) = some b
  | rest, [], _, _ => ⟨true, by simp [checkRun]⟩
  | [], o :: os, _, hs => by simp at hs
  | f :: fs, o :: os, hn, hs => by
    simp only [List.map_cons, checkRun]
    by_cases he : f.id = o.id
    · simp only [he, ne_eq, not_true_eq_false, if_false]
      have hn' := hn
      simp only [List.map_cons, List.nodup_cons] at hn'
      apply checkRun_sublist fs os hn'.2
      rcases List.sublist_cons_iff.mp hs with h | ⟨r, hr, h⟩
      · exfalso
        have : o ∈ fs := h.subset (List.mem_cons_self ..)
        exact hn'.1 (he ▸ List.mem_map_of_mem this)
      · have hr' : o :: os = f :: r := hr
        injection hr' with _ h2
        exact h2 ▸ h
    · exact ⟨false, by simp [he]⟩

/-- lists of fragments of one manifest with the same ids are the same fragments -/
theorem eq_of_map_id_eq (final : List Frag) (hn : (final.map Frag.id).Nodup) :
    ∀ (mid olds : List Frag), mid.map Frag.id = olds.map Frag.id → (∀ m ∈ mid, m ∈ final) →
      (∀ o ∈ olds, o ∈ final) → mid = olds
  | [], [], _, _, _ => rfl
  | [], _ :: _, h, _, _ => by simp at h
  | _ :: _, [], h, _, _ => by simp at h
  | m :: ms, o :: os, h, hm, ho => by
    simp only [List.map_cons, List.cons.injEq] at h
    have := eq_of_id_eq final hn m o (hm m (List.mem_cons_self ..)) (ho o (List.mem_cons_self ..)) h.1
    rw [this, eq_of_map_id_eq final hn ms os h.2 (fun x hx => hm x (List.mem_cons_of_mem _ hx))
      (fun x hx => ho x (List.mem_cons_of_mem _ hx))]

/-! ### the filter that removes a run -/

theorem filter_keep (l : List Frag) (ids : List Nat) (h : ∀ f ∈ l, f.id ∉ ids) :
    l.filter (fun f => !ids.contains f.id) = l := by
  apply List.filter_eq_self.mpr
  intro f hf
  simp [h f hf]

theorem filter_drop (l : List Frag) (ids : List Nat) (h : ∀ f ∈ l, f.id ∈ ids) :
    l.filter (fun f => !ids.contains f.id) = [] := by
  apply List.filter_eq_nil_iff.mpr
  intro f hf
  simp [h f hf]

theorem filter_splice (pre olds post : List Frag) (hn : ((pre ++ olds ++ post).map Frag.id).Nodup) :
    (pre ++ olds ++ post).filter (fun f => !(olds.map Frag.id).contains f.id) = pre ++ post := by
  simp only [List.map_append, List.append_assoc] at hn
  have h1 := List.nodup_append.mp hn
  have h2 := List.nodup_append.mp h1.2.1
  rw [List.append_assoc, List.filter_append, List.filter_append,
    filter_keep pre, filter_drop olds, filter_keep post]
  · simp
  · intro f hf hmem
    exact h2.2.2 f.id hmem f.id (List.mem_map_of_mem hf) rfl
  · intro f hf; exact List.mem_map_of_mem hf
  · intro f hf hmem
    exact h1.2.2 f.id (List.mem_map_of_mem hf) f.id (List.mem_append_left _ hmem) rfl

/-! ### one group -/

/-- handle_rewrite_fragments on a contiguous run splices the new fragments in place -/
theorem applyGroup_contiguous (pre post : List Frag) (g : Group) (next : Nat)
    (hn : ((pre ++ g.olds ++ post).map Frag.id).Nodup) (hne : g.olds ≠ [])
    (hnz : ∀ n ∈ g.news, n.id ≠ 0) :
    applyGroup (pre ++ g.olds ++ post) g next = .ok (pre ++ g.news ++ post, next) := by
  unfold applyGroup
  cases holds : g.olds with
  | nil => exact absurd holds hne
  | cons o os =>
    rw [holds] at hn
    have hpre : ∀ f ∈ pre, f.id ≠ o.id := by
      intro f hf he
      simp only [List.map_append, List.append_assoc, List.map_cons] at hn
      have h1 := List.nodup_append.mp hn
      exact h1.2.2 f.id (List.mem_map_of_mem hf) o.id (by simp) he
    have hfind : findIdx (pre ++ (o :: os) ++ post) o.id = some pre.length := by
      rw [List.append_assoc, List.cons_append]
      exact findIdx_append pre o (os ++ post) hpre
    simp only [hfind]
    have hdrop : (pre ++ (o :: os) ++ post).drop (pre.length + 1) = os ++ post := by
      rw [List.append_assoc, List.drop_append]
      simp
    rw [hdrop, checkRun_prefix]
    simp only [assignIds_nonzero g.news next hnz]
    have htake : (pre ++ (o :: os) ++ post).take pre.length = pre := by
      rw [List.append_assoc, List.take_append]
      simp
    have hdrop2 : (pre ++ (o :: os) ++ post).drop (pre.length + (o :: os).length) = post := by
      rw [← List.drop_drop, List.append_assoc, List.drop_append]
      simp
    rw [htake, hdrop2]

/-- what one iteration of handle_rewrite_fragments does to the fragment list, on either path -/
theorem applyGroup_ok (final : List Frag) (g : Group) (next : Nat)
    (hn : (final.map Frag.id).Nodup) (hne : g.olds ≠ []) (hsub : g.olds.Sublist final)
    (hnz : ∀ n ∈ g.news, n.id ≠ 0) :
    ∃ final', applyGroup final g next = .ok (final', next) ∧
      final'.Perm (final.filter (fun f => !(g.olds.map Frag.id).contains f.id) ++ g.news) ∧
      (final.filter (fun f => !(g.olds.map Frag.id).contains f.id)).Sublist final' ∧
      g.news.Sublist final' := by
  obtain ⟨o, os, holds⟩ := List.exists_cons_of_ne_nil hne
  have ho : o ∈ final := hsub.subset (by rw [holds]; exact List.mem_cons_self ..)
  obtain ⟨pre, rest, hfinal⟩ := List.append_of_mem ho
  have hn2 := hn
  rw [hfinal] at hn2
  simp only [List.map_append, List.map_cons] at hn2
  have hna := List.nodup_append.mp hn2
  have hrest := List.nodup_cons.mp hna.2.1
  have hpre : ∀ f ∈ pre, f.id ≠ o.id :=
    fun f hf he => hna.2.2 f.id (List.mem_map_of_mem hf) o.id (by simp) he
  -- the remaining old fragments follow in `rest`, in order
  have hos : os.Sublist rest := by
    have hs : (o :: os).Sublist (pre ++ o :: rest) := by rw [← holds, ← hfinal]; exact hsub
    obtain ⟨a, b, hab, ha, hb⟩ := List.sublist_append_iff.mp hs
    cases a with
    | nil =>
      simp only [List.nil_append] at hab
      rw [← hab] at hb
      rcases List.sublist_cons_iff.mp hb with h | ⟨r, hr, h⟩
      · exfalso
        have : o ∈ rest := h.subset (List.mem_cons_self ..)
        exact hrest.1 (List.mem_map_of_mem this)
      · injection hr with _ h2
        exact h2 ▸ h
    | cons x xs =>
      simp only [List.cons_append, List.cons.injEq] at hab
      exfalso
      have : o ∈ pre := ha.subset (by rw [hab.1]; exact List.mem_cons_self ..)
      exact hpre o this rfl
  obtain ⟨b, hb⟩ := checkRun_sublist rest os hrest.2 hos
  cases b with
  | false =>
    refine ⟨final.filter (fun f => !(g.olds.map Frag.id).contains f.id) ++ g.news, ?_, List.Perm.refl _,
      List.sublist_append_left _ _, List.sublist_append_right _ _⟩
    unfold applyGroup
    simp only [holds]
    rw [hfinal, findIdx_append pre o rest hpre]
    have hdrop : (pre ++ o :: rest).drop (pre.length + 1) = rest := by
      rw [List.drop_append]; simp
    simp only [hdrop, hb, assignIds_nonzero g.news next hnz]
  | true =>
    obtain ⟨mid, post, hr, hmid⟩ := checkRun_true rest _ hb
    have hmid' : mid = os := by
      apply eq_of_map_id_eq final hn mid os hmid
      · intro m hm; rw [hfinal, hr]; simp [hm]
      · intro x hx; exact hsub.subset (by rw [holds]; exact List.mem_cons_of_mem _ hx)
    subst hmid'
    have hfinal' : final = pre ++ g.olds ++ post := by rw [hfinal, hr, holds]; simp
    have hc := applyGroup_contiguous pre post g next (hfinal' ▸ hn) hne hnz
    rw [← hfinal'] at hc
    have hfil : final.filter (fun f => !(g.olds.map Frag.id).contains f.id) = pre ++ post := by
      rw [hfinal']; exact filter_splice pre g.olds post (hfinal' ▸ hn)
    refine ⟨pre ++ g.news ++ post, hc, ?_, ?_, ?_⟩
    · rw [hfil, List.append_assoc, List.append_assoc]
      exact List.Perm.append_left pre List.perm_append_comm
    · rw [hfil, List.append_assoc]
      exact List.Sublist.append (List.Sublist.refl _) (List.sublist_append_right _ _)
    · rw [List.append_assoc]
      exact (List.sublist_append_left _ _).trans (List.sublist_append_right _ _)

end LanceModel.C13
