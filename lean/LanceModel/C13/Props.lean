import LanceModel.C13.AddrLemmas
import LanceModel.C13.TableLemmas
import LanceModel.C13.PlanLemmas
import LanceModel.C13.IndexLemmas
import LanceModel.C13.EndToEnd
import LanceModel.C13.ChainLemmas
import LanceModel.C13.MultiBatch
/-
C13 — Compaction and other rewrites never change table contents.

  "Compacting files (any options, with deletions materialised or not, with indices remapped now or deferred) leaves
   the multiset of visible rows unchanged, keeps each row's stable row id and its created/updated versions, and
   leaves every index query returning the same rows as before."

`visible` is the ordered scan; its elements carry data, row id, created and updated version, so one statement about
`visible` covers rows, ids and versions.  Theorems are about the model in Model.lean (tie: harness/src/bin/c13.rs).
-/
namespace LanceModel.C13
open LanceModel.Table

/-! ## rewrite_files -/

/-- **rewrite_rows (task level)**: the fragments a compaction task writes scan to exactly the live rows of the
    fragments it read — same rows, same order, same stable row id, same created / updated versions — for every
    target size, every deletion pattern and any ids handed out. -/
theorem rewrite_rows_task (target : Nat) (ht : 0 < target) (ids : List Nat) (olds : List Frag)
    (hids : taskOutCount target olds ≤ ids.length) :
    visible (rewriteTask target ids olds) = visible olds :=
  rewriteTask_visible target ht ids olds hids

/-- the new fragments are non-empty, at most `target` rows, without deletions -/
theorem rewrite_task_layout (target : Nat) (ht : 0 < target) (ids : List Nat) (olds : List Frag) :
    ∀ f ∈ rewriteTask target ids olds, 0 < f.physical ∧ f.physical ≤ target ∧ f.numDel = 0 :=
  rewriteTask_frags target ht ids olds

private def r (k : Int) (del : Bool) (rid : Nat) : PRow := ⟨[some k, none], del, rid, 1, 2⟩
private def exOlds : List Frag := [⟨0, [r 1 false 10, r 2 true 11, r 3 false 12]⟩, ⟨1, [r 4 false 13]⟩, ⟨4, [r 5 true 14, r 6 false 15]⟩]

-- non-vacuity: three fragments with deletions rewritten to target 3 → two fragments, same rows / ids / versions
example : rewriteTask 3 [7, 8] exOlds = [⟨7, [r 1 false 10, r 3 false 12, r 4 false 13]⟩, ⟨8, [r 6 false 15]⟩] := by decide
example : taskOutCount 3 exOlds ≤ [7, 8].length := by decide

/-! ## the row address map -/

/-- **remap_total**: for a task whose new fragments hold the rows of the old ones (`rewrite_rows_task`), the map
    built by `transpose_row_addrs` (old captured addresses zipped with the new physical addresses)
    * is defined exactly on the addresses of the live rows of the old fragments (in scan order),
    * reaches exactly the addresses of the new fragments' rows,
    * sends every address to an address that stores the same row (data, id, versions), a live one,
    * is a function (no old address twice) and injective (no new address twice). -/
theorem remap_total (olds news : List Frag) (hwo : WF olds) (hwn : WF news) (hrows : visible news = visible olds) :
    (List.zip (visibleAddrs olds) (visibleAddrs news)).map Prod.fst = visibleAddrs olds
    ∧ (List.zip (visibleAddrs olds) (visibleAddrs news)).map Prod.snd = visibleAddrs news
    ∧ (∀ p ∈ List.zip (visibleAddrs olds) (visibleAddrs news),
        ∃ row, rowAt olds p.1 = some row ∧ rowAt news p.2 = some row ∧ row.del = false)
    ∧ (visibleAddrs olds).Nodup ∧ (visibleAddrs news).Nodup := by
  have hlen : (visibleAddrs olds).length = (visibleAddrs news).length := by
    rw [visibleAddrs_length, visibleAddrs_length, hrows]
  refine ⟨?_, ?_, ?_, visibleAddrs_nodup olds hwo, visibleAddrs_nodup news hwn⟩
  · rw [List.map_fst_zip]; omega
  · rw [List.map_snd_zip]; omega
  · intro p hp
    obtain ⟨i, hi⟩ := List.getElem?_of_mem hp
    obtain ⟨h1, h2⟩ := List.getElem?_zip_eq_some.mp hi
    have ho := congrArg (fun l => l[i]?) (visibleAddrs_rows olds hwo)
    have hn := congrArg (fun l => l[i]?) (visibleAddrs_rows news hwn)
    simp only [List.getElem?_map, h1, h2, Option.map_some, hrows] at ho hn
    cases hv : (visible olds)[i]? with
    | none => rw [hv] at ho; simp at ho
    | some row =>
      rw [hv] at ho hn
      simp only [Option.map_some, Option.some.injEq] at ho hn
      exact ⟨row, ho, hn, visible_not_del olds row (List.mem_of_getElem? hv)⟩

/-- the physical addresses of deleted rows are sent to "deleted" by `transpose` -/
theorem remap_deleted (olds news : List Frag) (hwo : WF olds) :
    ∀ a ∈ olds.flatMap Frag.delAddrs, (a, none) ∈ transpose olds news ∧ ∃ row, rowAt olds a = some row ∧ row.del = true := by
  intro a ha
  refine ⟨?_, ?_⟩
  · unfold transpose
    exact List.mem_append_right _ (List.mem_map.mpr ⟨a, ha, rfl⟩)
  · obtain ⟨f, hf, haf⟩ := List.mem_flatMap.mp ha
    simp only [Frag.delAddrs, List.mem_map] at haf
    obtain ⟨off, hoff, rfl⟩ := haf
    have hb := delOffsets_bounds f.rows 0 off hoff
    rw [rowAt_addr olds hwo f hf off (by omega)]
    exact delOffsets_rows f.rows f.rows 0 (by simp) off hoff

example : transpose exOlds (rewriteTask 3 [7, 8] exOlds)
    = [(0, some 30064771072), (2, some 30064771073), (4294967296, some 30064771074), (17179869185, some 34359738368),
       (1, none), (17179869184, none)] := by decide
example : WF exOlds := ⟨by decide, by decide⟩

/-! ## the Rewrite commit -/

/-- **rewrite_rows (handle_rewrite_fragments, contiguous run)**: splicing the new fragments at the position of the old
    run leaves the ORDERED scan unchanged (rows, ids, versions). -/
theorem rewrite_rows_splice (pre post : List Frag) (g : Group) (next : Nat)
    (hn : ((pre ++ g.olds ++ post).map Frag.id).Nodup) (hne : g.olds ≠ []) (hnz : ∀ n ∈ g.news, n.id ≠ 0)
    (hrows : visible g.news = visible g.olds) :
    ∃ final', applyGroup (pre ++ g.olds ++ post) g next = .ok (final', next)
      ∧ visible final' = visible (pre ++ g.olds ++ post) :=
  ⟨pre ++ g.news ++ post, applyGroup_contiguous pre post g next hn hne hnz, by
    simp only [visible_append, hrows]⟩

/-- **rewrite_rows (C13, contents)**: a Rewrite commit of any number of groups (contiguous or not, in any order)
    that satisfies `CommitOk` succeeds, and the new manifest's scan is a permutation of the old one — every visible
    row is there exactly as often as before, with its stable row id and created / updated versions; fragment ids stay
    unique and the fragment list is in id order. -/
theorem rewrite_rows (final : List Frag) (gs : List Group) (next : Nat) (h : CommitOk final gs) :
    ∃ frags', rewriteFragments final gs next = .ok frags' ∧ (visible frags').Perm (visible final)
      ∧ (frags'.map Frag.id).Nodup ∧ SortedById frags' := by
  obtain ⟨final', h1, h2, h3⟩ := handleRewrite_ok gs final next h
  refine ⟨sortById final', by simp [rewriteFragments, h1], ?_, ?_, sortById_sorted _⟩
  · exact (visible_perm (sortById_perm final')).trans h2
  · exact ((sortById_perm final').map Frag.id).nodup_iff.mpr h3

/-! ### `CommitOk` is closed under taking any subset of the groups in any order -/

/-- **subset_commit**: if the results of a plan's tasks form a valid commit, then committing ANY subset of them in
    ANY order is a valid commit too: it succeeds, keeps every visible row (with id and versions), keeps fragment ids
    unique.  (Committing the rest afterwards is again an instance: `CommitOk` on the new manifest.) -/
theorem subset_commit (final : List Frag) (gs gs₀ gs' : List Group) (next : Nat) (h : CommitOk final gs)
    (hsub : gs₀.Sublist gs) (hperm : gs'.Perm gs₀) :
    ∃ frags', rewriteFragments final gs' next = .ok frags' ∧ (visible frags').Perm (visible final)
      ∧ (frags'.map Frag.id).Nodup ∧ SortedById frags' :=
  rewrite_rows final gs' next (commitOk_subset final gs gs₀ gs' h hsub hperm)

/-! ### order: the property speaks of the multiset; the ordered scan is NOT preserved in general -/

/-- the stronger reading "the ordered scan is unchanged by any valid Rewrite commit" -/
def C13_ordered : Prop :=
  ∀ (final : List Frag) (gs : List Group) (next : Nat) (frags' : List Frag), CommitOk final gs →
    rewriteFragments final gs next = .ok frags' → visible frags' = visible final

/-- it holds when the spliced list is already in id order (the rewritten run is the tail of the table): then the
    final `sort_by_key(id)` is the identity -/
theorem C13_ordered_partial (pre post : List Frag) (g : Group) (next : Nat)
    (hn : ((pre ++ g.olds ++ post).map Frag.id).Nodup) (hne : g.olds ≠ []) (hnz : ∀ n ∈ g.news, n.id ≠ 0)
    (hrows : visible g.news = visible g.olds) (hsorted : SortedById (pre ++ g.news ++ post)) :
    ∃ frags', rewriteFragments (pre ++ g.olds ++ post) [g] next = .ok frags'
      ∧ visible frags' = visible (pre ++ g.olds ++ post) := by
  refine ⟨pre ++ g.news ++ post, ?_, by simp only [visible_append, hrows]⟩
  simp only [rewriteFragments, handleRewrite, applyGroup_contiguous pre post g next hn hne hnz,
    sortById_of_sorted _ hsorted]

private def f0 : Frag := ⟨0, [r 1 false 0]⟩
private def f1 : Frag := ⟨1, [r 2 false 1]⟩
private def f2 : Frag := ⟨2, [r 3 false 2, r 4 false 3, r 5 false 4]⟩
private def n3 : Frag := ⟨3, [r 1 false 0, r 2 false 1]⟩

/-- build_manifest sorts the fragment list by id after every operation; new fragments get the highest ids, so the
    rows of a compacted run move behind the rows of every fragment that was not rewritten:
    [0:(1), 1:(2), 2:(3,4,5)] with fragments 0,1 compacted into 3 scans as 3,4,5,1,2. -/
theorem C13_ordered_counterexample : ¬ C13_ordered := by
  intro h
  have hok : CommitOk [f0, f1, f2] [⟨[f0, f1], [n3]⟩] := by
    refine ⟨by decide, by decide, ?_, by simp, by decide, by decide, by decide, by decide⟩
    intro g hg
    simp only [List.mem_singleton] at hg
    subst hg
    exact List.Sublist.cons_cons _ (List.Sublist.cons_cons _ (List.Sublist.cons _ List.Sublist.slnil))
  have := h [f0, f1, f2] [⟨[f0, f1], [n3]⟩] 4 [f2, n3] hok (by rfl)
  revert this
  decide

/-! ## plan_compaction -/

/-- **plan_disjoint**: the tasks of one plan touch pairwise disjoint fragment sets, and every task lists fragments of
    the manifest in manifest order (for every option set and every index coverage). -/
theorem plan_disjoint (o : Opts) (ixs : List (List Nat)) (fs : List Frag) (hn : (fs.map Frag.id).Nodup) :
    (plan o ixs fs).Pairwise (fun a b => ∀ x ∈ a, ∀ y ∈ b, x.id ≠ y.id)
    ∧ ∀ t ∈ plan o ixs fs, t.Sublist fs :=
  plan_tasks_disjoint o ixs fs hn

private def small (id : Nat) (k : Int) : Frag := ⟨id, [r k false 0]⟩
example : (plan ⟨2, true, 1, 10, false⟩ [[0, 1]] [small 0 1, small 1 2, small 2 3, small 3 4, small 4 5]).map (·.map Frag.id)
    = [[0, 1], [2, 3, 4]] := by decide

/-! ## index fragment bitmaps -/

/-- **bitmap_recalc (sound)**: after `recalculate_fragment_bitmap`, the bitmap contains an id only if the index
    covered it before, or it is a new fragment of a group ALL of whose old fragments the index covered — the index
    never claims a fragment holding rows it has not seen.  A group the index covers only partly is rejected. -/
theorem bitmap_recalc (old : List Nat) (gs : List (List Nat × List Nat)) (res : List Nat)
    (h : recalcBitmap old gs old = .ok res) :
    ∀ x ∈ res, x ∈ old ∨ ∃ g ∈ gs, x ∈ g.2 ∧ ∀ o ∈ g.1, o ∈ old :=
  recalcBitmap_sound old gs old res h

/-- and the rewritten fragments of a covered group are dropped from the bitmap (ids are not reused) -/
theorem bitmap_recalc_removes (old : List Nat) (gs : List (List Nat × List Nat)) (res : List Nat)
    (h : recalcBitmap old gs old = .ok res) (g : List Nat × List Nat) (hg : g ∈ gs) (hany : ∃ o ∈ g.1, o ∈ old) :
    ∀ o ∈ g.1, (∀ k ∈ gs, o ∉ k.2) → o ∉ res :=
  recalcBitmap_removes old gs old res h g hg hany

example : recalcBitmap [0, 1, 2] [([0, 1], [5]), ([3, 4], [6])] [0, 1, 2] = .ok [2, 5] := by rfl
example : recalcBitmap [0, 1, 2] [([2, 3], [5])] [0, 1, 2] = .error .invalid := by rfl

/-! ## end to end: what `compact` (the function the driver runs against the real code) does

`plan_nonempty`, `selTasks_commitOk` (plan tasks + ids reserved above max_fragment_id ⇒ `CommitOk`),
`commit_preserves_nonstable` / `commit_preserves_stable` (one `commit_compaction` of any subset of the executed tasks
in any order), `execOrder_nodup`, `batches_subperm`, `compact_preserves`, `compact_files_preserves` are proved in
AssembleLemmas / ExecLemmas / EndToEnd and registered as property theorems. -/

/-- **plan_commit_ok**: the pieces assembled — tasks of `plan`, any duplicate-free subset in any order, rewritten by
    `rewriteTask` with the ids `reserve_fragment_ids` hands out (consecutive, above max_fragment_id), satisfy
    `CommitOk`; hence `rewrite_rows`, `subset_commit`, `remap_total` (each group: `visible news = visible olds`) and
    `bitmap_recalc` apply to them. -/
theorem plan_commit_ok (o : Opts) (ixs : List (List Nat)) (fs : List Frag) (ht : 0 < o.target)
    (hn : (fs.map Frag.id).Nodup) (mf : Nat) (hmf : ∀ f ∈ fs, f.id ≤ mf)
    (ts : List (List Frag)) (hts : ∀ t ∈ ts, t ∈ plan o ixs fs) (hdist : ts.Pairwise (· ≠ ·)) :
    CommitOk fs (mkGroups o.target (selTasks o ts mf)) :=
  selTasks_commitOk o ixs fs ht hn mf hmf ts hts hdist

private def exT : Table :=
  { version := 3, frags := [small 0 1, small 1 2, small 2 3], maxFrag := 2, stable := true, nextRowId := 3,
    idx := some [0, 1, 2], fri := [], friBitmap := none }

-- non-vacuity: a stable-row-id table, deferred remap, compact_files: three 1-row fragments become 3:2 rows, 4:1 row
example : TableWF exT := ⟨by decide, by decide⟩
example : (match compact ⟨2, true, 0, 1, true⟩ exT [] [] with
    | .ok out => out.table.frags.map (fun f => (f.id, f.rows.length)) | .error _ => []) = [(3, 2), (4, 1)] := by rfl

/-- **compact_preserves (all schedules)**: `compact_preserves_all` (MultiBatch.lean) restated — any execution order,
    any assignment of the executed tasks to up to three successive commits, dropped tasks included. -/
theorem compact_preserves_any_schedule (o : Opts) (t : Table) (xs cs : List Nat) (out : CompactOut)
    (hwf : TableWF t) (hsorted : SortedById t.frags) (ht : 0 < o.target) (h : compact o t xs cs = .ok out) :
    (visible out.table.frags).Perm (visible t.frags) ∧ (out.table.frags.map Frag.id).Nodup :=
  compact_preserves_all o t xs cs out hwf hsorted ht h

private def exT2 : Table :=
  { version := 5, frags := [small 0 1, small 1 2, small 2 3, small 3 4, small 4 5, small 5 6], maxFrag := 5,
    stable := false, nextRowId := 0, idx := none, fri := [], friBitmap := none }

-- non-vacuity: three tasks executed in the order 1, 2, 0: committed in batch 2, dropped, committed in batch 1
example : SortedById exT2.frags ∧ TableWF exT2 := ⟨by unfold SortedById; decide, by decide, by decide⟩
example : (match compact ⟨2, true, 0, 1, false⟩ exT2 [7, 7, 7] [2, 0, 1] with
    | .ok out => (out.plan.map (·.map Frag.id), out.committed.map (·.length), out.table.frags.map (fun f => (f.id, f.rows.length)))
    | .error _ => ([], [], [])) = ([[0, 1], [2, 3], [4, 5]], [1, 1], [(4, 1), (5, 1), (6, 2), (8, 2)]) := by rfl

/-! ## the load_indices view and the deferred row address remap -/

/-- **bitmap_remap_sound** (`FragReuseIndex::remap_fragment_bitmap`, the bitmaps `load_indices` shows): if the index
    has seen every row of every fragment in its stored bitmap, and the new fragments of a rewrite group hold only rows
    of its old fragments (`rewrite_rows_task`), then the index has seen every row of every fragment in the remapped
    bitmap — it never claims a fragment containing rows it did not see.  A partly covered group is an error. -/
theorem bitmap_remap_sound (Seen : Nat → Prop) (vs : List (List (List Nat × List Nat))) (stored res : List Nat)
    (h : remapBitmap vs stored = .ok res) (hstored : ∀ x ∈ stored, Seen x)
    (hgroups : ∀ v ∈ vs, ∀ g ∈ v, (∀ o ∈ g.1, Seen o) → ∀ n ∈ g.2, Seen n) : ∀ x ∈ res, Seen x :=
  remapBitmap_seen Seen vs stored res h hstored hgroups

/-- the same invariant for `recalculate_fragment_bitmap` -/
theorem bitmap_recalc_seen (Seen : Nat → Prop) (old : List Nat) (gs : List (List Nat × List Nat)) (res : List Nat)
    (h : recalcBitmap old gs old = .ok res) (hold : ∀ x ∈ old, Seen x)
    (hgroups : ∀ g ∈ gs, (∀ o ∈ g.1, Seen o) → ∀ n ∈ g.2, Seen n) : ∀ x ∈ res, Seen x :=
  recalcBitmap_seen Seen old hold gs old res h hold hgroups

example : remapBitmap [[([0, 1], [5])], [([5, 2], [7, 8])]] [0, 1, 2, 3] = .ok [3, 7, 8] := by rfl
example : remapBitmap [[([0, 1], [5])]] [0, 2] = .error .panic := by rfl

/-- **remap_row_id_compose** (`FragReuseIndex::remap_row_id`): threading an address through the maps of several
    deferred compactions is the composition of the per-compaction remaps -/
theorem remap_row_id_compose (ms₁ ms₂ : List AddrMap) (a : Nat) :
    remapRowId (ms₁ ++ ms₂) a = (remapRowId ms₁ a).bind (remapRowId ms₂) :=
  remapRowId_append ms₁ ms₂ a

/-- **remap_row_id_chain**: over any number of deferred compactions, each of which carries every live row from its
    old address to an address holding the same row (`StepOk`, what `remap_total` gives per compaction), the address
    an index entry was written with is translated to an address that holds the same row in the latest version -/
theorem remap_row_id_chain (steps : List (AddrMap × List Frag)) (T : List Frag) (h : ChainOk T steps)
    (a : Nat) (row : PRow) (hr : rowAt T a = some row) (hd : row.del = false) :
    ∃ b, remapRowId (steps.map (·.1)) a = some b ∧ rowAt (lastTable T steps) b = some row :=
  remap_chain_row steps T h a row hr hd

/-- **remap_step_ok**: the map `transpose_row_addrs` builds for one compaction satisfies `StepOk` for the WHOLE table:
    a live row of a rewritten fragment is found at its new address, a row of any other fragment stays at its address
    (the map does not mention it).  With `remap_row_id_chain`: after any number of deferred compactions an index entry
    written with the original address resolves to the same row. -/
theorem remap_step_ok (T T' olds news : List Frag) (hT : WF T) (hT' : WF T') (hwo : WF olds) (hwn : WF news)
    (holds : ∀ o ∈ olds, o ∈ T) (hnews : ∀ n ∈ news, n ∈ T')
    (hkeep : ∀ f ∈ T, f.id ∉ olds.map Frag.id → f ∈ T') (hrows : visible news = visible olds) :
    StepOk T T' (transpose olds news) :=
  transpose_stepOk T T' olds news hT hT' hwo hwn holds hnews hkeep hrows

/-- stopping after the first map (a seeded change the check caught) is a different function as soon as there are two
    deferred compactions of the same rows -/
theorem remap_first_only_counterexample :
    ¬ (∀ (maps : List AddrMap) (a : Nat), remapRowIdFirstOnly maps a = remapRowId maps a) := by
  intro h
  have := h [[(0, some 5)], [(5, some 9)]] 0
  revert this
  decide

example : remapRowId [[(0, some 5), (1, none)], [(5, some 9)]] 0 = some 9 := by decide
example : remapRowId [[(0, some 5), (1, none)], [(5, some 9)]] 1 = none := by decide
example : remapRowId [[(0, some 5), (1, none)], [(5, some 9)]] 7 = some 7 := by decide

end LanceModel.C13
