import LanceModel.C13.CommitLemmas
/-
C13 lemmas about a whole Rewrite commit (several groups, then the sort by id).
-/
namespace LanceModel.C13
open LanceModel.Table

theorem visible_perm {a b : List Frag} (h : a.Perm b) : (visible a).Perm (visible b) :=
  List.Perm.flatMap_right _ h

/-! ### sort by id -/

theorem insertById_perm (x : Frag) : ∀ (l : List Frag), (insertById x l).Perm (x :: l)
  | [] => List.Perm.refl _
  | y :: t => by
    unfold insertById
    split
    · exact List.Perm.refl _
    · exact ((insertById_perm x t).cons y).trans (List.Perm.swap x y t)

theorem sortById_perm : ∀ (l : List Frag), (sortById l).Perm l
  | [] => List.Perm.refl _
  | x :: t => by
    show (insertById x (sortById t)).Perm (x :: t)
    exact (insertById_perm x _).trans ((sortById_perm t).cons x)

def SortedById (l : List Frag) : Prop := l.Pairwise (fun a b => a.id ≤ b.id)

theorem insertById_sorted (x : Frag) : ∀ (l : List Frag), SortedById l → SortedById (insertById x l)
  | [], _ => by simp [insertById, SortedById]
  | y :: t, h => by
    unfold insertById
    have hy := List.pairwise_cons.mp h
    split
    · rename_i hxy
      refine List.pairwise_cons.mpr ⟨?_, h⟩
      intro z hz
      rcases List.mem_cons.mp hz with h1 | h1
      · subst h1; exact hxy
      · exact Nat.le_trans hxy (hy.1 z h1)
    · rename_i hxy
      refine List.pairwise_cons.mpr ⟨?_, insertById_sorted x t hy.2⟩
      intro z hz
      rcases List.mem_cons.mp ((insertById_perm x t).subset hz) with h1 | h1
      · subst h1; omega
      · exact hy.1 z h1

/-- the manifest's fragment list is in id order after every commit -/
theorem sortById_sorted : ∀ (l : List Frag), SortedById (sortById l)
  | [] => by simp [sortById, SortedById]
  | x :: t => insertById_sorted x _ (sortById_sorted t)

theorem insertById_of_le (x : Frag) (l : List Frag) (h : ∀ y ∈ l, x.id ≤ y.id) : insertById x l = x :: l := by
  cases l with
  | nil => rfl
  | cons y t => simp [insertById, h y (List.mem_cons_self ..)]

/-- sorting a list that is already in id order changes nothing -/
theorem sortById_of_sorted : ∀ (l : List Frag), SortedById l → sortById l = l
  | [], _ => rfl
  | x :: t, h => by
    have hx := List.pairwise_cons.mp h
    show insertById x (sortById t) = x :: t
    rw [sortById_of_sorted t hx.2]
    exact insertById_of_le x t hx.1

/-! ### a whole commit -/

/-- what `commit_compaction` hands to `build_manifest`, stated on the current manifest: every group's old fragments are
    fragments of the manifest in manifest order, groups are disjoint, every group's new fragments hold the rows of
    its old ones, and the new ids are assigned (non-zero), fresh and distinct. -/
structure CommitOk (final : List Frag) (gs : List Group) : Prop where
  nodup : (final.map Frag.id).Nodup
  nonempty : ∀ g ∈ gs, g.olds ≠ []
  sub : ∀ g ∈ gs, g.olds.Sublist final
  disjoint : gs.Pairwise (fun g h => ∀ o ∈ g.olds, ∀ p ∈ h.olds, o.id ≠ p.id)
  rows : ∀ g ∈ gs, visible g.news = visible g.olds
  newNonzero : ∀ g ∈ gs, ∀ n ∈ g.news, n.id ≠ 0
  newFresh : ∀ g ∈ gs, ∀ n ∈ g.news, n.id ∉ final.map Frag.id
  newNodup : ((gs.flatMap Group.news).map Frag.id).Nodup

theorem filter_olds_perm (final olds : List Frag) (hn : (final.map Frag.id).Nodup) (hsub : olds.Sublist final) :
    (final.filter (fun f => (olds.map Frag.id).contains f.id)).Perm olds := by
  have hnf : final.Nodup := nodup_of_map Frag.id final hn
  apply (List.perm_ext_iff_of_nodup (List.filter_sublist.nodup hnf) (hsub.nodup hnf)).mpr
  intro f
  constructor
  · intro hf
    obtain ⟨hf1, hf2⟩ := List.mem_filter.mp hf
    have : f.id ∈ olds.map Frag.id := by simpa using hf2
    obtain ⟨o, ho, hoid⟩ := List.mem_map.mp this
    have := eq_of_id_eq final hn o f (hsub.subset ho) hf1 hoid
    exact this ▸ ho
  · intro hf
    exact List.mem_filter.mpr ⟨hsub.subset hf, by simpa using List.mem_map_of_mem hf⟩

/-- one group leaves the scan unchanged up to order -/
theorem applyGroup_visible (final final' : List Frag) (g : Group)
    (hn : (final.map Frag.id).Nodup) (hsub : g.olds.Sublist final) (hrows : visible g.news = visible g.olds)
    (hp : final'.Perm (final.filter (fun f => !(g.olds.map Frag.id).contains f.id) ++ g.news)) :
    (visible final').Perm (visible final) := by
  have h1 := visible_perm hp
  rw [visible_append, hrows] at h1
  have h2 : (final.filter (fun f => !(g.olds.map Frag.id).contains f.id)
      ++ final.filter (fun f => !(!(g.olds.map Frag.id).contains f.id))).Perm final :=
    List.filter_append_perm _ final
  have h3 : final.filter (fun f => !(!(g.olds.map Frag.id).contains f.id))
      = final.filter (fun f => (g.olds.map Frag.id).contains f.id) := by
    congr 1; funext f; simp
  rw [h3] at h2
  have h4 := visible_perm h2
  rw [visible_append] at h4
  have h5 := visible_perm (filter_olds_perm final g.olds hn hsub)
  exact h1.trans ((List.Perm.append_left _ h5.symm).trans h4)

/-- one group of a valid commit: it applies, keeps the scan up to order, and the remaining groups stay valid -/
theorem commitOk_step (g : Group) (gs : List Group) (final : List Frag) (next : Nat) (h : CommitOk final (g :: gs)) :
    ∃ final₁, applyGroup final g next = .ok (final₁, next) ∧ (visible final₁).Perm (visible final)
      ∧ CommitOk final₁ gs := by
  have hg : g ∈ g :: gs := List.mem_cons_self ..
  obtain ⟨final₁, happ, hperm, hrest, hnews⟩ :=
    applyGroup_ok final g next h.nodup (h.nonempty g hg) (h.sub g hg) (h.newNonzero g hg)
  have hvis := applyGroup_visible final final₁ g h.nodup (h.sub g hg) (h.rows g hg) hperm
  have hdis := List.pairwise_cons.mp h.disjoint
  have hnn := h.newNodup
  simp only [List.flatMap_cons, List.map_append] at hnn
  have hnn' := List.nodup_append.mp hnn
  -- ids of the new manifest
  have hids : (final₁.map Frag.id).Perm
      ((final.filter (fun f => !(g.olds.map Frag.id).contains f.id)).map Frag.id ++ g.news.map Frag.id) := by
    have := hperm.map Frag.id
    simpa using this
  have hnodup₁ : (final₁.map Frag.id).Nodup := by
    apply hids.nodup_iff.mpr
    refine List.nodup_append.mpr ⟨sublist_nodup_ids List.filter_sublist h.nodup, hnn'.1, ?_⟩
    intro a ha b hb hab
    subst hab
    obtain ⟨n, hn1, hn2⟩ := List.mem_map.mp hb
    obtain ⟨f, hf1, hf2⟩ := List.mem_map.mp ha
    apply h.newFresh g hg n hn1
    rw [hn2, ← hf2]
    exact List.mem_map_of_mem (List.mem_filter.mp hf1).1
  refine ⟨final₁, happ, hvis, ?_⟩
  refine ⟨hnodup₁, fun k hk => h.nonempty k (List.mem_cons_of_mem _ hk), ?_, hdis.2,
    fun k hk => h.rows k (List.mem_cons_of_mem _ hk), fun k hk => h.newNonzero k (List.mem_cons_of_mem _ hk),
    ?_, hnn'.2.1⟩
  · intro k hk
    have hs := h.sub k (List.mem_cons_of_mem _ hk)
    have hs2 := hs.filter (fun f => !(g.olds.map Frag.id).contains f.id)
    have hkeep : k.olds.filter (fun f => !(g.olds.map Frag.id).contains f.id) = k.olds := by
      apply filter_keep
      intro f hf hmem
      obtain ⟨o, ho1, ho2⟩ := List.mem_map.mp hmem
      exact hdis.1 k hk o ho1 f hf ho2
    rw [hkeep] at hs2
    exact hs2.trans hrest
  · intro k hk n hn hmem
    rcases List.mem_append.mp (hids.subset hmem) with h1 | h1
    · obtain ⟨f, hf1, hf2⟩ := List.mem_map.mp h1
      apply h.newFresh k (List.mem_cons_of_mem _ hk) n hn
      rw [← hf2]
      exact List.mem_map_of_mem (List.mem_filter.mp hf1).1
    · apply hnn'.2.2 n.id h1 n.id ?_ rfl
      exact List.mem_map_of_mem (List.mem_flatMap.mpr ⟨k, hk, hn⟩)

/-- committing the first groups of a valid commit leaves the later groups a valid commit on the result -/
theorem handleRewrite_split : ∀ (gs rest : List Group) (final : List Frag) (next : Nat),
    CommitOk final (gs ++ rest) →
    ∃ final', handleRewrite final gs next = .ok (final', next) ∧ (visible final').Perm (visible final)
      ∧ CommitOk final' rest
  | [], rest, final, next, h => ⟨final, rfl, List.Perm.refl _, h⟩
  | g :: gs, rest, final, next, h => by
    obtain ⟨final₁, happ, hvis, hok⟩ := commitOk_step g (gs ++ rest) final next h
    obtain ⟨final', hrec, hv, hr⟩ := handleRewrite_split gs rest final₁ next hok
    refine ⟨final', ?_, hv.trans hvis, hr⟩
    simp only [handleRewrite, happ, hrec]

theorem handleRewrite_ok (gs : List Group) (final : List Frag) (next : Nat) (h : CommitOk final gs) :
    ∃ final', handleRewrite final gs next = .ok (final', next) ∧ (visible final').Perm (visible final)
      ∧ (final'.map Frag.id).Nodup := by
  obtain ⟨final', h1, h2, h3⟩ := handleRewrite_split gs [] final next (by simpa using h)
  exact ⟨final', h1, h2, h3.nodup⟩

theorem flatMap_sublist {α β : Type} (f : α → List β) : ∀ {a b : List α}, a.Sublist b → (a.flatMap f).Sublist (b.flatMap f)
  | _, _, .slnil => List.Sublist.refl _
  | _, _, .cons x h => by
    simp only [List.flatMap_cons]
    exact (flatMap_sublist f h).trans (List.sublist_append_right _ _)
  | _, _, .cons₂ x h => by
    simp only [List.flatMap_cons]
    exact List.Sublist.append (List.Sublist.refl _) (flatMap_sublist f h)

theorem commitOk_subset (final : List Frag) (gs gs₀ gs' : List Group) (h : CommitOk final gs)
    (hsub : gs₀.Sublist gs) (hperm : gs'.Perm gs₀) : CommitOk final gs' := by
  have hmem : ∀ g ∈ gs', g ∈ gs := fun g hg => hsub.subset (hperm.subset hg)
  refine ⟨h.nodup, fun g hg => h.nonempty g (hmem g hg), fun g hg => h.sub g (hmem g hg), ?_,
    fun g hg => h.rows g (hmem g hg), fun g hg => h.newNonzero g (hmem g hg),
    fun g hg => h.newFresh g (hmem g hg), ?_⟩
  · have h0 := h.disjoint.sublist hsub
    refine (hperm.pairwise_iff ?_).mpr h0
    intro a b hab o ho p hp heq
    exact hab p hp o ho heq.symm
  · have h0 := ((flatMap_sublist Group.news hsub).map Frag.id).nodup h.newNodup
    exact ((hperm.flatMap_right Group.news).map Frag.id).nodup_iff.mpr h0


end LanceModel.C13
