import LanceModel.Util
import LanceModel.Table.Basic
import LanceModel.C13.Model
/-
C13 driver.  Op lines (one dataset per case; schema fixed: c0, c1 nullable Int64; rows in tablekit's canonical text):

  create s=<0|1> f=<nat> <rows>          Dataset::write(Create), one batch, max_rows_per_file = f, stable row ids s
  append f=<nat> <rows>                  Dataset::write(Append)
  delete <natlist>                       Dataset::delete("c0 IN (…)")
  index                                  create_index(["c1"], BTree, "i1", replace = true)
  compact t=<nat> m=<0|1> th=<a>/<b> d=<0|1> via=<files|tasks> x=<natlist> c=<natlist>
                                         plan_compaction + CompactionTask::execute + commit_compaction (or compact_files)
  query <eq|lt|null> <int>               indexed filter scan on c1, result = the c0 values in scan order

Output: `ok [plan=… maps=… m=<removed>/<added>] v=<version> mf=<max_fragment_id> frags=<id:rows:dels,…> idx=<bitmap>
fri=<bitmap> rows=<c0,c1,rowid,rowaddr[,created,updated];…>`, `ok rows=<c0 list>` for a query, `err <kind>`.
-/
namespace LanceModel.C13.Driver
open LanceModel.Util LanceModel.Table LanceModel.C13

abbrev St := Option Table

def tokVal (key tok : String) : Option String :=
  if tok.startsWith (key ++ "=") then some (String.ofList (tok.toList.drop (key.length + 1))) else none

def parseBit (s : String) : Option Bool :=
  if s = "0" then some false else if s = "1" then some true else none

def parseUsizeList (s : String) : Option (List Nat) :=
  if s = "-" then some [] else (s.splitOn ",").mapM parseUsize

/-- rows of exactly two cells -/
def parseRows2 (s : String) : Option (List Row) :=
  match parseRows s with
  | some rs => if rs.all (fun r => r.length == 2) then some rs else none
  | none => none

def dedupSorted : List Nat → List Nat
  | [] => []
  | [x] => [x]
  | x :: y :: t => if x = y then dedupSorted (y :: t) else x :: dedupSorted (y :: t)

def showBitmap (b : List Nat) : String := showNatList (dedupSorted (sortNat b))

def showOptBitmap (t : Table) (b : Option (List Nat)) : String :=
  match b with
  | none => "none"
  | some b => match remapBitmap t.fri b with
    | .ok b' => showBitmap b'
    | .error _ => "panic"

/-- the ordered scan with `_rowid`, `_rowaddr` (and the version columns when the table has stable row ids) -/
def scanFrag (stable : Bool) (f : Frag) : List PRow → Nat → List Row
  | [], _ => []
  | r :: rs, i =>
    if r.del then scanFrag stable f rs (i + 1)
    else
      let a : Int := (addr f.id i : Nat)
      (if stable then r.data ++ [some (r.rid : Int), some a, some (r.cr : Int), some (r.up : Int)]
       else r.data ++ [some a, some a]) :: scanFrag stable f rs (i + 1)

def scanRows (t : Table) : List Row := t.frags.flatMap fun f => scanFrag t.stable f f.rows 0

def showState (t : Table) : String :=
  "v=" ++ toString t.version ++ " mf=" ++ toString t.maxFrag
    ++ " frags=" ++ showFrags (t.frags.map fun f => (f.id, f.physical, f.numDel))
    ++ " idx=" ++ showOptBitmap t t.idx ++ " fri=" ++ showOptBitmap t t.friBitmap
    ++ " rows=" ++ showRows (scanRows t)

def showPlan (p : List (List Frag)) : String :=
  if p.isEmpty then "-" else "|".intercalate (p.map fun task => showNatList (task.map Frag.id))

def insertPair (x : Nat × Option Nat) : List (Nat × Option Nat) → List (Nat × Option Nat)
  | [] => [x]
  | y :: t => if x.1 ≤ y.1 then x :: y :: t else y :: insertPair x t

def showMap (m : List (Nat × Option Nat)) : String :=
  if m.isEmpty then "-"
  else ",".intercalate ((m.foldr insertPair []).map fun p =>
    toString p.1 ++ ">" ++ (match p.2 with | some b => toString b | none => "x"))

def showMaps (files stable : Bool) (o : Opts) (done : List Done) : String :=
  if files || stable || o.defer || done.isEmpty then "-"
  else "|".intercalate (done.map fun d => showMap (transpose d.olds d.news))

def errStr : Err → String
  | .conflict => "conflict_incompatible"
  | .invalid => "invalid_input"
  | .panic => "panic"

def parseTh (s : String) : Option (Nat × Nat) :=
  match s.splitOn "/" with
  | [a, b] => do
    let a ← parseUsize a
    let b ← parseUsize b
    if b = 0 ∨ b > 64 ∨ a > 1024 then none else some (a, b)
  | _ => none

def rowMatches (kind : String) (v : Int) (r : PRow) : Bool :=
  match kind, cellAt r.data 1 with
  | "eq", some x => x == v
  | "lt", some x => decide (x < v)
  | "null", none => true
  | _, _ => false

def step (s : St) (line : String) : St × String :=
  match splitTokens line, s with
  | ["create", sv, fv, rows], none =>
    match (tokVal "s" sv) >>= parseBit, (tokVal "f" fv) >>= parseUsize, parseRows2 rows with
    | some st, some f, some rs =>
      if f = 0 ∨ rs.isEmpty then (s, "err parse")
      else
        let t := create st f rs
        (some t, "ok " ++ showState t)
    | _, _, _ => (s, "err parse")
  | ["append", fv, rows], some t =>
    match (tokVal "f" fv) >>= parseUsize, parseRows2 rows with
    | some f, some rs =>
      if f = 0 ∨ rs.isEmpty then (s, "err parse")
      else
        let t' := append t f rs
        (some t', "ok " ++ showState t')
    | _, _ => (s, "err parse")
  | ["delete", keys], some t =>
    match parseUsizeList keys with
    | some ks =>
      if ks.isEmpty then (s, "err parse")
      else
        let t' := delete t (ks.map Int.ofNat)
        (some t', "ok " ++ showState t')
    | none => (s, "err parse")
  | ["index"], some t =>
    let t' := createIndex t
    (some t', "ok " ++ showState t')
  | ["compact", tv, mv, thv, dv, via, xv, cv], some t =>
    match (tokVal "t" tv) >>= parseUsize, (tokVal "m" mv) >>= parseBit, (tokVal "th" thv) >>= parseTh,
          (tokVal "d" dv) >>= parseBit, tokVal "via" via, (tokVal "x" xv) >>= parseUsizeList,
          (tokVal "c" cv) >>= parseUsizeList with
    | some target, some m, some (a, b), some d, some via, some xs, some cs =>
      if target = 0 ∨ (via ≠ "files" ∧ via ≠ "tasks") then (s, "err parse")
      else
        let o : Opts := { target := target, materialize := m, thNum := a, thDen := b, defer := d }
        let (xs, cs) := if via = "files" then ([], []) else (xs, cs)
        match compact o t xs cs with
        | .error e => (s, "err " ++ errStr e)
        | .ok out =>
          let committed := out.committed.flatten
          let removed := natSum (committed.map fun d => d.olds.length)
          let added := natSum (committed.map fun d => d.news.length)
          (some out.table,
           "ok plan=" ++ showPlan out.plan ++ " maps=" ++ showMaps (via = "files") t.stable o out.done
             ++ " m=" ++ toString removed ++ "/" ++ toString added ++ " " ++ showState out.table)
    | _, _, _, _, _, _, _ => (s, "err parse")
  | ["query", kind, v], some t =>
    match parseI64 v with
    | some v =>
      if kind ≠ "eq" ∧ kind ≠ "lt" ∧ kind ≠ "null" then (s, "err parse")
      else
        let rs := (visible t.frags).filter (rowMatches kind v)
        (s, "ok rows=" ++ showRows (rs.map fun r => [cellAt r.data 0]))
    | none => (s, "err parse")
  | _, _ => (s, "err parse")

end LanceModel.C13.Driver
