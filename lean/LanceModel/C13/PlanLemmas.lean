import LanceModel.C13.Model
/-
C13 lemmas about plan_compaction (the tasks are disjoint runs of the manifest) and recalculate_fragment_bitmap.
-/
namespace LanceModel.C13
open LanceModel.Table

/-! ### plan -/

def binFrags : Option Bin → List Frag
  | none => []
  | some b => b.frags

theorem binsFrom_sublist (o : Opts) (ixs : List (List Nat)) : ∀ (fs : List Frag) (cur : Option Bin),
    ((binsFrom o ixs cur fs).flatMap Bin.frags).Sublist (binFrags cur ++ fs)
  | [], none => by simp [binsFrom, binFrags]
  | [], some b => by simp [binsFrom, binFrags]
  | f :: fs, cur => by
    cases hc : candidacy o f with
    | none =>
      cases cur with
      | none =>
        simp only [binsFrom, hc, binFrags, List.nil_append]
        have h0 : ((binsFrom o ixs none fs).flatMap Bin.frags).Sublist fs := by
          simpa [binFrags] using binsFrom_sublist o ixs fs none
        exact h0.trans (List.sublist_cons_self f fs)
      | some b =>
        simp only [binsFrom, hc, binFrags, List.flatMap_cons]
        have h0 : ((binsFrom o ixs none fs).flatMap Bin.frags).Sublist fs := by
          simpa [binFrags] using binsFrom_sublist o ixs fs none
        exact List.Sublist.append (List.Sublist.refl _) (h0.trans (List.sublist_cons_self f fs))
    | some c =>
      cases cur with
      | none =>
        simp only [binsFrom, hc, binFrags, List.nil_append]
        simpa [binFrags] using binsFrom_sublist o ixs fs (some ⟨[f], [c], indicesContaining ixs f.id⟩)
      | some b =>
        simp only [binsFrom, hc, binFrags]
        split
        · simpa [binFrags] using binsFrom_sublist o ixs fs (some ⟨b.frags ++ [f], b.cands ++ [c], b.indices⟩)
        · simp only [List.flatMap_cons]
          exact List.Sublist.append (List.Sublist.refl _)
            (by simpa [binFrags] using binsFrom_sublist o ixs fs (some ⟨[f], [c], indicesContaining ixs f.id⟩))

theorem splitForSize_flatten (min : Nat) : ∀ (fuel : Nat) (fs : List Frag), (splitForSize min fuel fs).flatten = fs
  | 0, fs => by simp [splitForSize]
  | fuel + 1, fs => by
    unfold splitForSize
    split
    · simp only [List.flatten_cons, splitForSize_flatten min fuel]
      exact List.take_append_drop _ _
    · simp

/-- the tasks of a plan, concatenated, are a sub-sequence of the manifest's fragment list: no fragment is in two
    tasks and every task lists its fragments in manifest order -/
theorem plan_flatten_sublist (o : Opts) (ixs : List (List Nat)) (fs : List Frag) :
    (plan o ixs fs).flatten.Sublist fs := by
  unfold plan
  have h1 : (((binsFrom o ixs none fs).filter (fun b => !b.isNoop)).flatMap
      (fun b => splitForSize o.target b.frags.length b.frags)).flatten
      = ((binsFrom o ixs none fs).filter (fun b => !b.isNoop)).flatMap Bin.frags := by
    generalize (binsFrom o ixs none fs).filter (fun b => !b.isNoop) = bs
    induction bs with
    | nil => rfl
    | cons b bs ih =>
      simp only [List.flatMap_cons, List.flatten_append, ih, splitForSize_flatten]
  rw [h1]
  have h2 : (((binsFrom o ixs none fs).filter (fun b => !b.isNoop)).flatMap Bin.frags).Sublist
      ((binsFrom o ixs none fs).flatMap Bin.frags) := by
    generalize binsFrom o ixs none fs = bs
    induction bs with
    | nil => simp
    | cons b bs ih =>
      simp only [List.filter_cons]
      split
      · simp only [List.flatMap_cons]
        exact List.Sublist.append (List.Sublist.refl _) ih
      · simp only [List.flatMap_cons]
        exact ih.trans (List.sublist_append_right _ _)
  exact h2.trans (by simpa [binFrags] using binsFrom_sublist o ixs fs none)

theorem sublist_of_mem_flatten_prefix {α : Type} : ∀ (L : List (List α)) (t : List α), t ∈ L → t.Sublist L.flatten
  | [], t, h => by simp at h
  | x :: xs, t, h => by
    simp only [List.flatten_cons]
    rcases List.mem_cons.mp h with h1 | h1
    · subst h1; exact List.sublist_append_left _ _
    · exact (sublist_of_mem_flatten_prefix xs t h1).trans (List.sublist_append_right _ _)

/-- two different tasks (by position) of a flattened nodup list share no element -/
theorem pairwise_disjoint_of_nodup_flatten {α : Type} : ∀ (L : List (List α)), L.flatten.Nodup →
    L.Pairwise (fun a b => ∀ x ∈ a, ∀ y ∈ b, x ≠ y)
  | [], _ => List.Pairwise.nil
  | x :: xs, h => by
    simp only [List.flatten_cons] at h
    have h' := List.nodup_append.mp h
    refine List.pairwise_cons.mpr ⟨?_, pairwise_disjoint_of_nodup_flatten xs h'.2.1⟩
    intro b hb a ha y hy
    exact h'.2.2 a ha y (List.mem_flatten.mpr ⟨b, hb, hy⟩)

/-! ### recalculate_fragment_bitmap -/

/-- soundness of one pass: an id is in the result only if it was in the accumulator and not removed, or it is a new
    fragment of a group all of whose old fragments the index covered -/
theorem recalcBitmap_sound (old : List Nat) : ∀ (gs : List (List Nat × List Nat)) (acc res : List Nat),
    recalcBitmap old gs acc = .ok res → ∀ x ∈ res,
      x ∈ acc ∨ ∃ g ∈ gs, x ∈ g.2 ∧ ∀ o ∈ g.1, o ∈ old
  | [], acc, res, h, x, hx => by
    simp only [recalcBitmap, Except.ok.injEq] at h
    exact Or.inl (h ▸ hx)
  | (olds, news) :: gs, acc, res, h, x, hx => by
    unfold recalcBitmap at h
    split at h
    · split at h
      · rename_i hall
        rcases recalcBitmap_sound old gs _ res h x hx with h1 | ⟨g, hg, h2⟩
        · rcases List.mem_append.mp h1 with h3 | h3
          · exact Or.inl (List.mem_filter.mp h3).1
          · refine Or.inr ⟨(olds, news), List.mem_cons_self .., h3, ?_⟩
            intro o ho
            have := List.all_eq_true.mp hall o ho
            simpa using this
        · exact Or.inr ⟨g, List.mem_cons_of_mem _ hg, h2⟩
      · simp at h
    · rcases recalcBitmap_sound old gs acc res h x hx with h1 | ⟨g, hg, h2⟩
      · exact Or.inl h1
      · exact Or.inr ⟨g, List.mem_cons_of_mem _ hg, h2⟩

/-- a rewritten (old) fragment of a covered group is no longer claimed, unless a group re-adds the id as a new one -/
theorem recalcBitmap_removes (old : List Nat) : ∀ (gs : List (List Nat × List Nat)) (acc res : List Nat),
    recalcBitmap old gs acc = .ok res → ∀ g ∈ gs, (∃ o ∈ g.1, o ∈ old) → ∀ o ∈ g.1,
      (∀ h ∈ gs, o ∉ h.2) → o ∉ res
  | [], _, _, _, g, hg, _, _, _, _ => by simp at hg
  | (olds, news) :: gs, acc, res, h, g, hg, hany, o, ho, hfresh => by
    unfold recalcBitmap at h
    -- a general fact: ids not in acc and not new anywhere stay out
    have keep_out : ∀ (gs' : List (List Nat × List Nat)) (acc' res' : List Nat),
        recalcBitmap old gs' acc' = .ok res' → o ∉ acc' → (∀ h ∈ gs', o ∉ h.2) → o ∉ res' := by
      intro gs' acc' res' h' hacc hf hmem
      rcases recalcBitmap_sound old gs' acc' res' h' o hmem with h1 | ⟨k, hk, h2, _⟩
      · exact hacc h1
      · exact hf k hk h2
    rcases List.mem_cons.mp hg with h1 | h1
    · subst h1
      have hany' : olds.any old.contains = true := by
        obtain ⟨p, hp1, hp2⟩ := hany
        exact List.any_eq_true.mpr ⟨p, hp1, by simpa using hp2⟩
      simp only [hany', if_true] at h
      split at h
      · apply keep_out gs _ res h
        · intro hmem
          rcases List.mem_append.mp hmem with h3 | h3
          · have := (List.mem_filter.mp h3).2
            simp at this
            exact this ho
          · exact hfresh (olds, news) (List.mem_cons_self ..) h3
        · intro k hk; exact hfresh k (List.mem_cons_of_mem _ hk)
      · simp at h
    · have hf' : ∀ k ∈ gs, o ∉ k.2 := fun k hk => hfresh k (List.mem_cons_of_mem _ hk)
      split at h
      · split at h
        · exact recalcBitmap_removes old gs _ res h g h1 hany o ho hf'
        · simp at h
      · exact recalcBitmap_removes old gs acc res h g h1 hany o ho hf'

end LanceModel.C13
